import ScnrVerif.Proofs.Iter
import ScnrVerif.Proofs.FullScanner
/-!
# C06 — scanner modes switch exactly on configured token types

Iterator model over any finder with `FinderOK`. The finder is always asked with the *current*
mode; the mode changes exactly when the delivered token's type has a transition in the current
mode; `peek_n` has no iterator result at all in the model (it is a pure function of the state),
`set_mode` only writes the mode field, a new iterator starts in mode 0.
-/
namespace Scnr.C06
open Scnr

/-- The early-exit search of `has_transition` on a list strictly sorted by token type is the plain
    lookup: a transition is found iff it is configured. -/
theorem has_transition_is_lookup (l : List (Nat × Nat)) (hs : SortedKeys l) (tok : Nat) :
    hasTransition l tok = l.lookup tok := hasTransition_eq_lookup hs tok

/-- After a token the iterator is in the transition's target mode if the token type has a
    transition in the current mode, otherwise the mode is unchanged; the token was found by the
    finder of the mode that was current before; skipped characters do not switch. -/
theorem next_mode_some (cfg : List ModeCfg) (find : Finder) (hf : FinderOK find) (it : Iter)
    (hi : it.Inv) (it' : Iter) (t : Tok) (h : it.next cfg find = (it', some t)) :
    it'.mode = (hasTransition (modeTrans cfg it.mode) t.tid).getD it.mode ∧
    ∃ sk u v, it.rest = sk ++ (u ++ v) ∧ find it.mode (u ++ v) = some (t.tid, bytesLen u) ∧
      t.start = it.cursor + bytesLen sk ∧ t.stop = t.start + bytesLen u := by
  have ho := next_outcome cfg find hf it hi.lastPos
  rw [h] at ho
  cases ho with
  | token _ sk u v tid hr _ _ hfind _ _ hmode _ _ _ =>
    exact ⟨hmode, sk, u, v, hr, hfind, by simp [Iter.cursor], by simp⟩

theorem next_mode_none (cfg : List ModeCfg) (find : Finder) (hf : FinderOK find) (it : Iter)
    (hi : it.Inv) (it' : Iter) (h : it.next cfg find = (it', none)) : it'.mode = it.mode := by
  have ho := next_outcome cfg find hf it hi.lastPos
  rw [h] at ho
  cases ho with
  | exhausted _ _ _ _ hmode _ _ _ => exact hmode

/-- `set_mode` takes effect for the next token and touches nothing else. -/
theorem setMode_spec (it : Iter) (m : Nat) :
    (it.setMode m).mode = m ∧ (it.setMode m).rest = it.rest ∧ (it.setMode m).cursor = it.cursor ∧
    (it.setMode m).lineOffsets = it.lineOffsets ∧ ((it.setMode m).Inv ↔ it.Inv) := by
  refine ⟨rfl, rfl, rfl, rfl, ?_⟩
  constructor <;> (intro h; exact ⟨h.pre, h.lastPos⟩)

/-- Every new iterator starts in mode 0 at the beginning of the input. -/
theorem new_starts_in_mode_zero (input : List Nat) :
    (Iter.new input).mode = 0 ∧ (Iter.new input).rest = input ∧ (Iter.new input).cursor = 0 :=
  ⟨rfl, rfl, rfl⟩

/-- `set_offset` and `advance_to` keep the mode. -/
theorem setOffset_keeps_mode (it : Iter) (o : Nat) : (it.setOffset o).mode = it.mode := rfl

/-- `mode_name` reports the configured name. -/
theorem modeName_spec (cfg : List ModeCfg) (i : Nat) : modeName cfg i = cfg[i]?.map (·.name) := rfl

/-! ## The whole scanner (model of compiler, finder, iterator and mode switching together)

For every configuration (any number of modes, patterns with optional positive or negative
lookaheads, any transitions), every class function and every input. -/

/-- in every mode the finder of the compiled scanner follows the pattern-level trailing-context rule
    of *that mode's* patterns (token types distinct within a mode) -/
theorem whole_scanner_finder (ms : List CMode) (hn : ∀ md ∈ ms, (md.pats.map (·.tid)).Nodup)
    (cm : Nat → Nat → Bool) (m : Nat) (w : List Nat) :
    match ms[m]? with
    | none => modelFinder (compileScanner ms) cm m w = none
    | some md => PFindOK cm md.pats w (modelFinder (compileScanner ms) cm m w) :=
  scanner_finder_spec ms hn cm m w

/-- the token stream of a fresh iterator is the reference scan driven by that finder: the patterns
    used for a token are those of the current mode, the mode changes exactly on configured token
    types, unmatched characters are skipped one at a time -/
theorem whole_scanner_tokens (ms : List CMode) (cm : Nat → Nat → Bool) (input : List Nat) (n : Nat)
    (hlen : input.length < n) :
    Iter.run (scannerCfg ms) (modelFinder (compileScanner ms) cm) n (Iter.new input) =
      scanFrom (scannerCfg ms) (modelFinder (compileScanner ms) cm) 0 input 0 :=
  scanner_end_to_end ms cm input n hlen

/-! Non-vacuity: two modes; token 1 switches 0 → 1, token 2 switches back. Finder: `a` ↦ 1 in
    mode 0, `b` ↦ 2 in mode 1 (single characters). -/
def exCfg : List ModeCfg := [⟨[65], [(1, 1)]⟩, ⟨[66], [(2, 0)]⟩]
def exFind : Finder := fun m w =>
  match m, w with
  | 0, 97 :: _ => some (1, 1)
  | 1, 98 :: _ => some (2, 1)
  | _, _ => none
example : SortedKeys [(1, 1), (4, 0), (9, 2)] := by simp [SortedKeys]
example : Iter.run exCfg exFind 9 (Iter.new [97, 97, 98, 98, 97]) = [⟨1, 0, 1⟩, ⟨2, 2, 3⟩, ⟨1, 4, 5⟩] := by
  decide

end Scnr.C06
