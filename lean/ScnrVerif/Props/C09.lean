import ScnrVerif.Proofs.Lines
import ScnrVerif.Props.C07
/-!
# C09 — line and column of a token are those of its start offset

`Iter.Lines it F`: the recorded line offsets are strictly increasing, contain 0, are true line
starts, contain every true line start below the frontier `F` (the largest offset consumed so far),
and `last_char` is the character before the cursor. It holds for a new iterator (`F = 0`), is
preserved by `next` (frontier extended to the new cursor), by running into exhaustion and by
`set_offset` to any offset `≤ F`. Under it, `position(o)` is the true line/column for `o < F`; at
`o = F` it is the true one or, if `F` directly follows a line feed whose successor is not consumed
yet, the column after the line break on the previous line.
-/
namespace Scnr.C09
open Scnr

/-- Number of line feeds that end at or before byte offset `o`. -/
def countLfFrom (o : Nat) : Nat → List Nat → Nat
  | _, [] => 0
  | p, c :: w => (if c = 10 ∧ p + utf8Len c ≤ o then 1 else 0) + countLfFrom o (p + utf8Len c) w

theorem filter_lineStartsFrom_length (o p : Nat) (w : List Nat) :
    ((lineStartsFrom p w).filter (· ≤ o)).length = countLfFrom o p w := by
  induction w generalizing p with
  | nil => rfl
  | cons c w ih =>
    rw [lineStartsFrom_cons]
    simp only [countLfFrom]
    by_cases h : c = 10
    · subst h
      rw [if_pos rfl]
      by_cases hle : p + utf8Len 10 ≤ o
      · rw [List.filter_cons_of_pos (by simpa using hle)]
        simp only [List.length_cons, ih, hle, and_self, if_true]
        omega
      · rw [List.filter_cons_of_neg (by simpa using hle)]
        simp only [ih, hle, and_false, if_false]
        omega
    · rw [if_neg h]; simp [h, ih]

/-- The true line is one plus the number of line feeds before the offset; the true column is the
    byte distance from the last line start at or before the offset, plus one. -/
theorem trueLineCol_spec (input : List Nat) (o : Nat) :
    (trueLineCol input o).1 = 1 + countLfFrom o 0 input ∧
    (trueLineCol input o).2 = o - (((lineStartsOf input).filter (· ≤ o)).getLastD 0) + 1 := by
  unfold trueLineCol positionOf lineStartsOf
  simp only [List.filter, Nat.zero_le, decide_true, List.length_cons, filter_lineStartsFrom_length]
  exact ⟨by omega, trivial⟩

theorem altLineCol_eq_true (input : List Nat) (o : Nat) (h : o ∉ lineStartsOf input) :
    altLineCol input o = trueLineCol input o := by
  unfold altLineCol trueLineCol
  have : (lineStartsOf input).filter (· ≠ o) = lineStartsOf input := by
    apply List.filter_eq_self.mpr
    intro x hx
    simp only [ne_eq, decide_not, Bool.not_eq_eq_eq_not, Bool.not_true, decide_eq_false_iff_not]
    intro he; exact h (he ▸ hx)
  rw [this]

/-- `position(o)` for every offset up to the frontier: strict below it, with the documented
    alternative exactly at it. -/
theorem position_ok (it : Iter) (F o : Nat) (hl : it.Lines F) (ho : o ≤ F) :
    positionOK it.input o (decide (o < F)) (it.position o) = true := by
  unfold positionOK Iter.position
  by_cases hlt : o < F
  · have := position_spec it.input it.lineOffsets o hl.sorted (lineStartsOf_sorted _) hl.sound
      (fun x hx hle => hl.complete x hx (by omega))
    simp [this]
  · have hoF : o = F := by omega
    by_cases hmem : o ∈ it.lineOffsets
    · have := position_spec it.input it.lineOffsets o hl.sorted (lineStartsOf_sorted _) hl.sound
        (fun x hx hle => by
          by_cases hxo : x = o
          · exact hxo ▸ hmem
          · exact hl.complete x hx (by omega))
      simp [this]
    · have halt := position_alt it.input it.lineOffsets o hl.sorted (lineStartsOf_sorted _) hl.sound
        (fun x hx hlt' => hl.complete x hx (by omega)) hmem
      by_cases hls : o ∈ lineStartsOf it.input
      · have h0 : o ≠ 0 := by intro h; subst h; exact hmem hl.zero
        simp [halt, hlt, hls, h0]
      · rw [halt, altLineCol_eq_true _ _ hls]; simp

/-- A token delivered with positions: the start position is the true line and column of its start
    offset; the end position is the true one or the accepted alternative after a line break; the
    invariant is kept with the frontier at least at the token's end. -/
theorem next_with_positions (cfg : List ModeCfg) (find : Finder) (hf : FinderOK find) (it : Iter)
    (F : Nat) (hi : it.Inv) (hl : it.Lines F) (it' : Iter) (t : Tok) (ps pe : Nat × Nat)
    (h : it.nextWithPos cfg find = (it', some (t, ps, pe))) :
    ps = trueLineCol it.input t.start ∧ positionOK it.input t.stop false pe = true ∧
    it'.Lines (max F t.stop) ∧ it'.Inv := by
  unfold Iter.nextWithPos at h
  cases hn : it.next cfg find with
  | mk it1 r =>
    rw [hn] at h
    cases r with
    | none => simp at h
    | some t1 =>
      simp only [Prod.mk.injEq, Option.some.injEq] at h
      obtain ⟨rfl, rfl, rfl, rfl⟩ := h
      obtain ⟨w1, w2, _, _, _, w6, w7, _⟩ := C07.next_token_wellformed cfg find hf it hi it1 t1 hn
      have hl1 := next_lines cfg find hf it F hi hl
      rw [hn] at hl1
      simp only at hl1
      rw [w6] at hl1
      have hin : it1.input = it.input := by
        have ho := next_outcome cfg find hf it hi.lastPos
        rw [hn] at ho
        cases ho with
        | token _ _ _ _ _ _ _ _ _ _ _ _ _ hinp _ => exact hinp
      refine ⟨?_, ?_, hl1, w7⟩
      · have := position_ok it1 (max F t1.stop) t1.start hl1 (by omega)
        have hlt : t1.start < max F t1.stop := by omega
        simp only [positionOK, hlt, decide_true, Bool.not_true, Bool.false_and, Bool.or_false,
          beq_iff_eq] at this
        rw [hin] at this; exact this
      · have := position_ok it1 (max F t1.stop) t1.stop hl1 (by omega)
        rw [hin] at this
        unfold positionOK at this ⊢
        simp only [Bool.or_eq_true, beq_iff_eq, Bool.and_eq_true, Bool.not_eq_true'] at this ⊢
        rcases this with h | ⟨⟨⟨_, h2⟩, h3⟩, h4⟩
        · exact Or.inl h
        · exact Or.inr ⟨⟨⟨trivial, h2⟩, h3⟩, h4⟩

/-- The invariant holds initially, and is kept by `next`, by exhaustion and by `set_offset` to any
    already scanned offset. -/
theorem lines_new (input : List Nat) : (Iter.new input).Lines 0 := Iter.new_lines input

theorem lines_next (cfg : List ModeCfg) (find : Finder) (hf : FinderOK find) (it : Iter) (F : Nat)
    (hi : it.Inv) (hl : it.Lines F) :
    (it.next cfg find).1.Lines (max F (it.next cfg find).1.cursor) := next_lines cfg find hf it F hi hl

theorem lines_setOffset (it : Iter) (F o : Nat) (hl : it.Lines F) (ho : o ≤ F) :
    (it.setOffset o).Lines F := setOffset_lines it F o hl ho

/-! Non-vacuity (the inputs on which the pinned tree failed): patterns `a`, `\n` on `a\naa`. -/
def exFind : Finder := fun _ w => match w with | 97 :: _ => some (1, 1) | 10 :: _ => some (2, 1) | _ => none
def exCfg : List ModeCfg := [⟨[], []⟩]
def st2 : Iter := ((Iter.new [97, 10, 97, 97]).next exCfg exFind).1.next exCfg exFind |>.1
example : ((st2.setOffset 1).nextWithPos exCfg exFind).2 = some (⟨2, 1, 2⟩, (1, 2), (1, 3)) := by decide
example : trueLineCol [97, 10, 97, 97] 1 = (1, 2) := by decide
example : trueLineCol [97, 10, 97, 97] 2 = (2, 1) := by decide
example : altLineCol [97, 10, 97, 97] 2 = (1, 3) := by decide
example : positionOK [97, 10] 2 false (1, 3) = true ∧ positionOK [97, 10] 2 true (1, 3) = false := by decide

end Scnr.C09
