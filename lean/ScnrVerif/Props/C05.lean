import ScnrVerif.Proofs.SpecFind
/-!
# C05 — choice among lookahead candidates follows the trailing-context rule

All statements are about the model `findFrom` of `CompiledDfa::find_from` (tied to the Rust code by
the correspondence run of `bin/check C05`) and hold for **every** automaton, lookahead table, class
match function and input.
-/
namespace Scnr.C05
open Scnr

/-- What a candidate is (readable form of `specCands`): a non-empty prefix `u` of the remaining
    text after which the automaton is in an accepting state `s` whose lookahead condition holds on
    the rest `v`; its extent is its own end plus the lookahead length. -/
theorem candidate_iff (M : ModeDfa) (cm : Nat → Nat → Bool) (i : Nat) (w : List Nat) (k : Cand) :
    k ∈ specCands M cm i w ↔
      ∃ u v, u ≠ [] ∧ w = u ++ v ∧ ∃ s ∈ reach M.dfa cm [0] u, M.dfa.isEnd s = true ∧
        ∃ l, M.laSpec cm (M.dfa.tidOf s) v = some l ∧
          k = ⟨i + bytesLen u, i + bytesLen u + l, M.dfa.tidOf s⟩ := by
  rw [mem_specCands, candAt_iff]
  constructor
  · rintro ⟨p, hp, s, hs, he, l, hl, hk⟩
    obtain ⟨h1, h2⟩ := mem_splits.mp hp
    exact ⟨p.1, p.2, h1, h2, s, hs, he, l, hl, hk⟩
  · rintro ⟨u, v, h1, h2, s, hs, he, l, hl, hk⟩
    exact ⟨(u, v), mem_splits.mpr ⟨h1, h2⟩, s, hs, he, l, hl, hk⟩

/-- The reported token maximises own length plus lookahead length; equal extents are resolved in
    favour of the pattern listed first; span and token type belong to the same candidate. -/
theorem reported_is_best_candidate (M : ModeDfa) (cm : Nat → Nat → Bool) (i : Nat) (w : List Nat)
    (t e : Nat) (h : findFrom M cm i w = some (t, e)) :
    ∃ k ∈ specCands M cm i w, k.tid = t ∧ k.endPos = e ∧
      ∀ k' ∈ specCands M cm i w,
        k'.extent < k.extent ∨ (k'.extent = k.extent ∧ M.dfa.prioOf k.tid ≤ M.dfa.prioOf k'.tid) := by
  have := findFrom_specFindOK M cm i w
  rw [h] at this
  simp only [specFindOK, List.any_eq_true, Bool.and_eq_true, beq_iff_eq, List.all_eq_true] at this
  obtain ⟨k, hk, ⟨ht, he⟩, hall⟩ := this
  refine ⟨k, hk, ht, he, ?_⟩
  intro k' hk'
  have := hall k' hk'
  simpa [candGe] using this

/-- `None` is reported only when no candidate exists (completeness; the converse direction of
    C04). -/
theorem none_iff_no_candidate (M : ModeDfa) (cm : Nat → Nat → Bool) (i : Nat) (w : List Nat) :
    findFrom M cm i w = none ↔ specCands M cm i w = [] := by
  have := findFrom_specFindOK M cm i w
  constructor
  · intro h
    rw [h] at this
    simpa [specFindOK] using this
  · intro h
    cases hr : findFrom M cm i w with
    | none => rfl
    | some r =>
      rw [hr] at this
      obtain ⟨t, e⟩ := r
      simp [specFindOK, h] at this

/-- The loop-level statement for arbitrary start states and an arbitrary incoming best candidate
    (used by the other properties). -/
theorem loop_selects (A : Dfa) (cm : Nat → Nat → Bool) (la : Nat → List Nat → Option Nat)
    (i : Nat) (w S : List Nat) (b : Best) :
    (∀ k, (Dom A b k ∨ CandAt A cm la i w S k) → Dom A (loop A cm la i w S b) k) ∧
    (loop A cm la i w S b = b ∨ ∃ k, loop A cm la i w S b = some k ∧ CandAt A cm la i w S k) :=
  loop_spec A cm la i w S b

/-! ## Non-vacuity: a concrete automaton with two lookahead patterns and competing candidates.

`ab(?=c)` (terminal 7, listed first) and `a(?=bc)` (terminal 3) on `abc`: both candidates have
extent 3; the first listed pattern wins with its own span `0..2` (this is the input on which the
pinned code reported terminal 7 with span `0..1`). Classes: 0 = {a}, 1 = {b}, 2 = {c}. -/

def exCm : Nat → Nat → Bool := cmT [[(97, 97)], [(98, 98)], [(99, 99)]]

def exMode : ModeDfa :=
  { dfa := { trans := [[(0, 1), (0, 3)], [(1, 2)], [], []],
             ends := [(false, 0), (false, 0), (true, 7), (true, 3)],
             prio := [7, 3] },
    las := [(7, ⟨true, { trans := [[(2, 1)], []], ends := [(false, 0), (true, 0)], prio := [0] }⟩),
            (3, ⟨true, { trans := [[(1, 1)], [(2, 2)], []],
                         ends := [(false, 0), (false, 0), (true, 0)], prio := [0] }⟩)] }

example : findFrom exMode exCm 0 [97, 98, 99] = some (7, 2) := by decide
example : (specCands exMode exCm 0 [97, 98, 99]).length = 2 := by decide
example : specFindOK exMode exCm 0 [97, 98, 99] (some (7, 2)) = true := by decide
-- the pinned tree's answer is rejected by the specification
example : specFindOK exMode exCm 0 [97, 98, 99] (some (7, 1)) = false := by decide

end Scnr.C05
