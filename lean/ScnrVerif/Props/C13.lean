import ScnrVerif.Proofs.World
/-!
# C13 — the scanner cache is transparent

Model of `ScannerCache::get` over an abstract uncached compilation `compile` (a function of the
whole mode list: keys are compared by structural equality of `Vec<ScannerMode>`, so configurations
differing in a token type, a pattern's order, a lookahead or its polarity, a transition or a mode
name are different keys). Invariant: every entry is the compilation of its key. Hence every
`build` returns exactly what `build_uncached` returns, whatever was built before, and a failing
build changes nothing.
-/
namespace Scnr.C13
open Scnr

theorem get_is_compile (compile : CfgId → Option CompId) (cache : List (CfgId × CompId))
    (h : CacheInv compile cache) (cfg : CfgId) :
    (cacheGet compile cache cfg).2 = compile cfg ∧ CacheInv compile (cacheGet compile cache cfg).1 ∧
    (compile cfg = none → (cacheGet compile cache cfg).1 = cache) := cacheGet_spec compile cache h cfg

theorem build_is_uncached_build (compile cfgOf findOf) (w : World) (h : CacheInv compile w.cache) (s : Nat)
    (cfg : CfgId) :
    (World.step compile cfgOf findOf w (.build s cfg)).2 =
      (World.step compile cfgOf findOf w (.buildUncached s cfg)).2 ∧
    (World.step compile cfgOf findOf w (.build s cfg)).1.scanners =
      (World.step compile cfgOf findOf w (.buildUncached s cfg)).1.scanners :=
  ⟨(build_eq_uncached compile cfgOf findOf w h s cfg).1, (build_eq_uncached compile cfgOf findOf w h s cfg).2.1⟩

/-- The invariant holds for the empty cache and after every history of operations. -/
theorem invariant_always (compile cfgOf findOf) (ops : List Op) :
    CacheInv compile (World.run compile cfgOf findOf World.empty ops).1.cache :=
  run_cacheInv compile cfgOf findOf World.empty (fun p hp => by cases hp) ops

/-- Hence: after any history, a build returns the uncached compilation. -/
theorem build_after_any_history (compile cfgOf findOf) (ops : List Op) (s : Nat) (cfg : CfgId) :
    (World.step compile cfgOf findOf (World.run compile cfgOf findOf World.empty ops).1 (.build s cfg)).2 =
      match compile cfg with
      | some c => .built c
      | none => .buildError := by
  have h := invariant_always compile cfgOf findOf ops
  rw [(build_eq_uncached compile cfgOf findOf _ h s cfg).1]
  simp only [World.step]
  cases compile cfg <;> rfl

/-! Non-vacuity: hit, miss, failing build, then a build of a different key. -/
def exCompile : CfgId → Option CompId := fun c => if c = 2 then none else some (c + 10)
example : (World.run exCompile (fun _ => []) (fun _ _ _ => none) World.empty
    [.build 0 1, .build 1 1, .build 2 2, .build 3 2, .build 4 3]).2 =
    [.built 11, .built 11, .buildError, .buildError, .built 13] := by decide

end Scnr.C13
