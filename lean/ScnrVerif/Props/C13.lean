import ScnrVerif.Proofs.World
import ScnrVerif.Proofs.CacheKey
import ScnrVerif.Props.C16
/-!
# C13 — the scanner cache is transparent

Model of `ScannerCache::get` over an abstract uncached compilation `compile` (a function of the
whole mode list: keys are compared by structural equality of `Vec<ScannerMode>`, so configurations
differing in a token type, a pattern's order, a lookahead or its polarity, a transition or a mode
name are different keys). Invariant: every entry is the compilation of its key. Hence every
`build` returns exactly what `build_uncached` returns, whatever was built before, and a failing
build changes nothing.
-/
namespace Scnr.C13
open Scnr

theorem get_is_compile (compile : CfgId → Option CompId) (cache : List (CfgId × CompId))
    (h : CacheInv compile cache) (cfg : CfgId) :
    (cacheGet compile cache cfg).2 = compile cfg ∧ CacheInv compile (cacheGet compile cache cfg).1 ∧
    (compile cfg = none → (cacheGet compile cache cfg).1 = cache) := cacheGet_spec compile cache h cfg

theorem build_is_uncached_build (compile cfgOf findOf) (w : World) (h : CacheInv compile w.cache) (s : Nat)
    (cfg : CfgId) :
    (World.step compile cfgOf findOf w (.build s cfg)).2 =
      (World.step compile cfgOf findOf w (.buildUncached s cfg)).2 ∧
    (World.step compile cfgOf findOf w (.build s cfg)).1.scanners =
      (World.step compile cfgOf findOf w (.buildUncached s cfg)).1.scanners :=
  ⟨(build_eq_uncached compile cfgOf findOf w h s cfg).1, (build_eq_uncached compile cfgOf findOf w h s cfg).2.1⟩

/-- The invariant holds for the empty cache and after every history of operations. -/
theorem invariant_always (compile cfgOf findOf) (ops : List Op) :
    CacheInv compile (World.run compile cfgOf findOf World.empty ops).1.cache :=
  run_cacheInv compile cfgOf findOf World.empty (fun p hp => by cases hp) ops

/-- Hence: after any history, a build returns the uncached compilation. -/
theorem build_after_any_history (compile cfgOf findOf) (ops : List Op) (s : Nat) (cfg : CfgId) :
    (World.step compile cfgOf findOf (World.run compile cfgOf findOf World.empty ops).1 (.build s cfg)).2 =
      match compile cfg with
      | some c => .built c
      | none => .buildError := by
  have h := invariant_always compile cfgOf findOf ops
  rw [(build_eq_uncached compile cfgOf findOf _ h s cfg).1]
  simp only [World.step]
  cases compile cfg <;> rfl

/-! Non-vacuity: hit, miss, failing build, then a build of a different key. -/
def exCompile : CfgId → Option CompId := fun c => if c = 2 then none else some (c + 10)
example : (World.run exCompile (fun _ => []) (fun _ _ _ => none) World.empty
    [.build 0 1, .build 1 1, .build 2 2, .build 3 2, .build 4 3]).2 =
    [.built 11, .built 11, .buildError, .buildError, .built 13] := by decide

/-! ## The key, structurally (`Model/CacheKey.lean`)

`keyEq` is the derived `PartialEq` of `Vec<ScannerMode>` written out field by field. It is equality
of the whole configuration, so a difference in any field — a token type, the order of two
patterns, a lookahead or its polarity, a transition, a mode name — is a different key. -/

theorem key_is_whole_configuration (a b : List ModeC) : keyEq a b = true ↔ a = b := keyEq_iff a b

/-- Every cached build over structural keys returns the uncached compilation of *that*
    configuration, after any sequence of builds, and the invariant is kept. -/
theorem structural_builds_are_uncached (compileK : CfgKey → Option CompId) (ks : List CfgKey) :
    (runK compileK [] ks).2 = ks.map compileK :=
  (runK_results compileK [] ks (fun p hp => by cases hp)).1

theorem structural_get_is_compile (compileK : CfgKey → Option CompId) (cache : List (CfgKey × CompId))
    (h : CacheInvK compileK cache) (k : CfgKey) :
    (cacheGetK compileK cache k).2 = compileK k ∧ CacheInvK compileK (cacheGetK compileK cache k).1 ∧
    (compileK k = none → (cacheGetK compileK cache k).1 = cache) := cacheGetK_spec compileK cache h k

/-- The identifier-level cache of the world model is the structural cache under any injective
    numbering of configurations (the harness numbers them by `==` of the real mode lists, and
    that `==` is compared with `keyEq` on every run). -/
theorem structural_cache_refines_id_cache (num : CfgKey → CfgId) (inj : ∀ a b, num a = num b → a = b)
    (compileK : CfgKey → Option CompId) (compile : CfgId → Option CompId)
    (hc : ∀ k, compile (num k) = compileK k) (cache : List (CfgKey × CompId)) (k : CfgKey) :
    cacheGet compile (absCache num cache) (num k) =
      (absCache num (cacheGetK compileK cache k).1, (cacheGetK compileK cache k).2) :=
  cacheGetK_refines num inj compileK compile hc cache k

/-- The tie reads the keys from the serde trees of the real mode lists: for configurations whose
    numbers fit `usize` the tree determines the key and the key the tree. -/
theorem key_is_read_from_the_tree (a b : List ModeC) (ha : ∀ m ∈ a, m.inRange = true)
    (hb : ∀ m ∈ b, m.inRange = true) : keyEq a b = true ↔ toJsonModes a = toJsonModes b := by
  rw [keyEq_iff]
  constructor
  · intro h; rw [h]
  · intro h
    have h1 := C16.modes_roundtrip a ha
    have h2 := C16.modes_roundtrip b hb
    rw [h] at h1
    rw [h1] at h2
    exact Option.some.inj h2

/-! Non-vacuity: one-field differences are different keys; equal configurations are equal keys. -/
def exMode : ModeC := ⟨[73], [⟨[97], 1, some ⟨true, [98]⟩⟩, ⟨[97, 98], 2, none⟩], [(1, 0)]⟩
example : keyEq [exMode] [exMode] = true := by decide
example : keyEq [exMode] [{ exMode with name := [74] }] = false := by decide
example : keyEq [exMode] [{ exMode with transitions := [(1, 1)] }] = false := by decide
example : keyEq [exMode] [{ exMode with patterns := exMode.patterns.reverse }] = false := by decide
example : keyEq [exMode] [{ exMode with patterns := [⟨[97], 1, some ⟨false, [98]⟩⟩, ⟨[97, 98], 2, none⟩] }] = false := by decide
example : keyEq [exMode] [{ exMode with patterns := [⟨[97], 1, none⟩, ⟨[97, 98], 2, none⟩] }] = false := by decide
example : keyEq [exMode] [{ exMode with patterns := [⟨[97], 3, some ⟨true, [98]⟩⟩, ⟨[97, 98], 2, none⟩] }] = false := by decide
example : keyEq [exMode] [exMode, exMode] = false := by decide
example : (runK (fun k => if k.length = 2 then none else some k.length) [] [[exMode], [exMode, exMode], [exMode], []]).2 =
    [some 1, none, some 1, some 0] := by decide

end Scnr.C13
