import ScnrVerif.Props.C16
import ScnrVerif.Proofs.JsonText
/-!
# C16 — the JSON text layer

`Model/JsonText.lean`: `printJson` writes a value tree exactly as `serde_json::to_string` does
(compact, serde_json's escapes), `parseJson` is a total parser for RFC 8259 (whitespace, all escapes,
surrogate pairs, arbitrary-size non-negative integers; other numbers are `float`). The parser runs on
the text the real crate writes (`jtext`, compact and pretty) and on the texts the real crate reads
(`jdetext`) on every check. The round trip shows that it reads back every tree the printer writes.
-/
namespace Scnr.C16
open Scnr

/-- printing and parsing a value tree (no `float`, well-formed keys, scalar values in strings) gives
    the tree back -/
theorem text_roundtrip (v : Json) (h : v.textOK = true) : parseJson (printJson v) = some v :=
  parseJson_printJson v h

/-- two such trees with the same text are equal -/
theorem text_injective (a b : Json) (ha : a.textOK = true) (hb : b.textOK = true)
    (h : printJson a = printJson b) : a = b :=
  printJson_injective a b ha hb h

/-- configuration → value tree → text → value tree → configuration is the identity -/
theorem modes_text_roundtrip (ms : List ModeC) (hr : ∀ m ∈ ms, m.inRange = true)
    (ht : ∀ m ∈ ms, m.textOK = true) :
    (parseJson (printJson (toJsonModes ms))).bind fromJsonModes = some ms :=
  Scnr.modes_text_roundtrip ms hr ht

end Scnr.C16
