import ScnrVerif.Proofs.Build
/-!
# C15 — unsupported regex features are rejected, never mis-compiled; build is total (partial)

Model of the error paths of `Nfa::try_from_ast`, `MultiPatternNfa::try_from_patterns`,
`CompiledDfa::try_from_patterns` (lookaheads) and `create_match_char_class` over **all ASTs at any
depth**, in any position of any mode or lookahead. `build` is a total Lean function (no panic
outcome). Parsing is regex-syntax's (trusted): a pattern enters the model as `none` (syntax error,
which includes look-around syntax) or its AST. PARTIAL: the regex parser, and resource limits of
huge repetition counts, are outside the model.
-/
namespace Scnr.C15
open Scnr

/-- Flags, assertions (anchors, word boundaries), non-greedy repetitions, flagged groups and
    unknown or valued Unicode classes anywhere - and any syntax error - make the build fail. -/
theorem unsupported_rejected (modes : List (List BPat)) (h : allSupported modes = false) :
    build modes ≠ .ok := by
  intro hb
  rw [ok_only_if_supported modes hb] at h
  cases h

/-- Patterns made only of supported constructs always build. -/
theorem supported_builds (modes : List (List BPat)) (h : allSupported modes = true) : build modes = .ok :=
  Scnr.supported_builds modes h

/-- The result is `ok` exactly for the supported configurations. -/
theorem build_ok_iff (modes : List (List BPat)) : build modes = .ok ↔ allSupported modes = true :=
  ⟨ok_only_if_supported modes, Scnr.supported_builds modes⟩

/-- What counts as unsupported, node by node. -/
theorem hasUnsupported_iff (a : FAst) : a.hasUnsupported = true ↔
    match a with
    | .flags | .assertion => True
    | .cls s => s = false
    | .rep greedy x => greedy = false ∨ x.hasUnsupported = true
    | .group flagged x => flagged = true ∨ x.hasUnsupported = true
    | .alt x y | .concat x y => x.hasUnsupported = true ∨ y.hasUnsupported = true
    | _ => False := by
  cases a <;> simp [FAst.hasUnsupported]

/-! Non-vacuity: `a(?:\bfoo){0}b` (assertion under a zero-count repetition) is rejected; a lookahead
    with a valued Unicode class in the second mode is rejected; a plain configuration builds. -/
def exBad : FAst := .concat .literal (.concat (.rep true (.group false (.concat .assertion .literal))) .literal)
example : build [[⟨some exBad, none⟩]] = .unsupported := by decide
example : build [[⟨some .literal, none⟩], [⟨some .dot, some (some (.cls false))⟩]] = .unsupported := by decide
example : build [[⟨some .literal, none⟩], [⟨none, none⟩]] = .syntaxError := by decide
example : build [[⟨some (.alt .literal (.rep true (.cls true))), some (some .dot)⟩]] = .ok := by decide

end Scnr.C15
