import ScnrVerif.Model.Dot
import ScnrVerif.Proofs.DotText
/-!
# C18 — the DOT export is a faithful picture of the compiled automata (partial)

`picture_is_faithful`: for every automaton whose start state is not accepting (C02's
`startNotAccepting`), decoding the structured DOT document gives back exactly its transitions (with
class ids, per state, in order) and the accepting flag and token type of every state; lookahead
clusters carry token type, polarity and the same faithful picture of the lookahead automaton.
PARTIAL: that the written text is well-formed DOT carrying this structure is checked by the
harness' strict DOT-subset parser on the real files (a parse failure is the violation); file
naming and I/O errors are checked on the implementation.
-/
namespace Scnr.C18
open Scnr

theorem filter_edgesFrom_same (s : Nat) (ts : List (Nat × Nat)) :
    ((edgesFrom s ts).filter (fun e => e.src == s)).map (fun e => (e.cc, e.dst)) = ts := by
  induction ts with
  | nil => rfl
  | cons p r ih => simp only [edgesFrom, List.map_cons, List.filter_cons, beq_self_eq_true, if_true]; simp only [edgesFrom] at ih; rw [ih]

theorem filter_edgesFrom_other (s s' : Nat) (h : s ≠ s') (ts : List (Nat × Nat)) :
    (edgesFrom s ts).filter (fun e => e.src == s') = [] := by
  induction ts with
  | nil => rfl
  | cons p r ih =>
    have : (s == s') = false := by simp [h]
    simp only [edgesFrom, List.map_cons, List.filter_cons, this] at ih ⊢
    exact ih

theorem filter_edgesOf_lt (base s : Nat) (h : s < base) (rows : List (List (Nat × Nat))) :
    (edgesOf base rows).filter (fun e => e.src == s) = [] := by
  induction rows generalizing base with
  | nil => rfl
  | cons ts rest ih =>
    simp only [edgesOf, List.filter_append]
    rw [filter_edgesFrom_other base s (by omega), ih (base + 1) (by omega)]; rfl

theorem decode_row (base : Nat) (rows : List (List (Nat × Nat))) (i : Nat) (hi : i < rows.length) :
    ((edgesOf base rows).filter (fun e => e.src == base + i)).map (fun e => (e.cc, e.dst)) = rows[i] := by
  induction rows generalizing base i with
  | nil => simp at hi
  | cons ts rest ih =>
    simp only [edgesOf, List.filter_append, List.map_append]
    cases i with
    | zero =>
      simp only [Nat.add_zero, List.getElem_cons_zero]
      rw [filter_edgesFrom_same, filter_edgesOf_lt (base + 1) base (by omega)]; simp
    | succ j =>
      rw [filter_edgesFrom_other base (base + (j + 1)) (by omega)]
      simp only [List.map_nil, List.nil_append, List.getElem_cons_succ]
      have := ih (base + 1) j (by simpa using hi)
      rw [show base + 1 + j = base + (j + 1) by omega] at this
      exact this

theorem decodeTrans_dotGraph (A : Dfa) : decodeTrans (dotGraph A) = A.trans := by
  unfold decodeTrans dotGraph
  simp only [List.length_map, List.length_range]
  apply List.ext_getElem
  · simp
  · intro i h1 h2
    simp only [List.getElem_map, List.getElem_range]
    have := decode_row 0 A.trans i h2
    simpa using this

theorem decodeEnds_dotGraph (A : Dfa) (h0 : A.isEnd 0 = false) : decodeEnds (dotGraph A) = A.shown.2 := by
  unfold decodeEnds dotGraph Dfa.shown
  simp only [List.map_map]
  apply List.map_congr_left
  intro s _
  simp only [Function.comp, nodeOf]
  by_cases hs : s = 0
  · subst hs; simp [h0]
  · by_cases he : A.isEnd s = true
    · simp [hs, he]
    · simp [hs, he]

/-- **The picture determines the automaton** (transitions with class ids, accepting states with
    token types), given that the start state is not accepting. -/
theorem picture_is_faithful (A : Dfa) (h0 : A.isEnd 0 = false) :
    (decodeTrans (dotGraph A), decodeEnds (dotGraph A)) = A.shown := by
  rw [decodeTrans_dotGraph, decodeEnds_dotGraph A h0]; rfl

/-- one cluster per lookahead, with its token type and polarity -/
theorem clusters_are_lookaheads (M : ModeDfa) :
    (dotDoc M).clusters.map (fun c => (c.tid, c.positive)) = M.las.map (fun p => (p.1, p.2.positive)) := by
  simp [dotDoc, List.map_map, Function.comp]

theorem one_node_per_state (A : Dfa) : (dotGraph A).nodes.length = A.trans.length := by
  simp [dotGraph]

/-! Non-vacuity: `>` `:` with positive lookahead `:` (the shape of tests/data/positive_lookahead_p). -/
def exA : Dfa := { trans := [[(0, 1)], [(1, 2)], []], ends := [(false, 0), (false, 0), (true, 1)], prio := [1] }
example : dotGraph exA = ⟨[⟨0, 1, 0⟩, ⟨1, 0, 0⟩, ⟨2, 2, 1⟩], [⟨0, 1, 0⟩, ⟨1, 2, 1⟩]⟩ := by decide
example : (decodeTrans (dotGraph exA), decodeEnds (dotGraph exA)) = exA.shown := by decide


/-! ## The text layer (`Model/DotText.lean`): well-formedness is decided by a verified parser

`parseDot` (lexer + parser for the DOT subset) and `decodeDot` run on the *text* of the real files on
every check. `renderDot` is the text the crate writes for a document; the round trip shows that the
parser accepts every such text and reads back exactly the document, for all automata. -/

/-- parsing and decoding the rendered text of the picture of any compiled mode gives the picture back
    (title and class labels: any strings without an unescaped quote / dangling backslash) -/
theorem text_roundtrip (title : List Nat) (edgeText : Nat → List Nat) (M : ModeDfa)
    (ht : strSafe title = true) (he : ∀ cc, strSafe (edgeText cc) = true) :
    (parseDot (renderDot title edgeText (dotDoc M))).bind decodeDot = some (dotDoc M) :=
  decodeDot_parseDot_renderDot_dotDoc title edgeText M ht he

/-- the same for every well-formed document -/
theorem text_roundtrip_doc (title : List Nat) (edgeText : Nat → List Nat) (d : DotDoc)
    (hd : d.textOK = true) (ht : strSafe title = true) (he : ∀ cc, strSafe (edgeText cc) = true) :
    (parseDot (renderDot title edgeText d)).bind decodeDot = some d :=
  decodeDot_parseDot_renderDot title edgeText d hd ht he

end Scnr.C18
