import ScnrVerif.Props.C05
import ScnrVerif.Proofs.FullMode
/-!
# C04 — a lookahead gates its pattern and is never consumed

Model-level statements for every automaton, lookahead table, class function and input. The tie of
the automata to the *patterns* (accepting ⇔ the pattern matches, for the mode and for each
lookahead automaton) is C02's verified equivalence check; the tie of the model to the Rust code is
the correspondence run of `bin/check C04` (including scans started with `with_offset/set_offset`).
-/
namespace Scnr.C04
open Scnr

/-- The lookahead condition computed by the model of `satisfies_lookahead` is the declarative one:
    positive: some non-empty prefix of the following text `v` is accepted by the lookahead
    automaton (length of the longest one); negative: none is; on empty `v` positive fails and
    negative holds. -/
theorem lookahead_condition (cm : Nat → Nat → Bool) (L : La) (v : List Nat) :
    laEval cm L v = laSpec cm L v := laEval_eq_laSpec cm L v

theorem accepted_lengths (A : Dfa) (cm : Nat → Nat → Bool) (v : List Nat) (x : Nat) :
    x ∈ accLens A cm v ↔
      ∃ u r, u ≠ [] ∧ v = u ++ r ∧ (∃ s ∈ reach A cm [0] u, A.isEnd s = true) ∧ x = bytesLen u := by
  rw [mem_accLens]
  constructor
  · rintro ⟨p, hp, h, rfl⟩
    obtain ⟨h1, h2⟩ := mem_splits.mp hp
    exact ⟨p.1, p.2, h1, h2, h, rfl⟩
  · rintro ⟨u, r, h1, h2, h, rfl⟩
    exact ⟨(u, r), mem_splits.mpr ⟨h1, h2⟩, h, rfl⟩

theorem lookahead_at_end (cm : Nat → Nat → Bool) (L : La) :
    laSpec cm L [] = if L.positive then none else some 0 := by
  simp [laSpec, accLens, splits]

/-- (i) A reported token ends exactly at the end of the pattern's own text `u` (lookahead text is
    not part of the span), the automaton accepts `u` for the reported terminal, and the lookahead
    condition of that terminal holds on the text `v` that follows. -/
theorem reported_token_is_gated (M : ModeDfa) (cm : Nat → Nat → Bool) (i : Nat) (w : List Nat)
    (t e : Nat) (h : findFrom M cm i w = some (t, e)) :
    ∃ u v, u ≠ [] ∧ w = u ++ v ∧ e = i + bytesLen u ∧
      (∃ s ∈ reach M.dfa cm [0] u, M.dfa.isEnd s = true ∧ M.dfa.tidOf s = t) ∧
      ∃ l, M.laSpec cm t v = some l := by
  obtain ⟨k, hk, ht, he, _⟩ := C05.reported_is_best_candidate M cm i w t e h
  obtain ⟨u, v, h1, h2, s, hs, hend, l, hl, rfl⟩ := (C05.candidate_iff M cm i w k).mp hk
  simp only at ht he
  subst ht
  exact ⟨u, v, h1, h2, he.symm, ⟨s, hs, hend, rfl⟩, l, hl⟩

/-- (ii) Conversely: whenever some non-empty prefix is accepted with its lookahead condition
    satisfied, a token starting at the scan position is reported. -/
theorem candidate_implies_token (M : ModeDfa) (cm : Nat → Nat → Bool) (i : Nat) (w u v : List Nat)
    (hu : u ≠ []) (hw : w = u ++ v) (s : Nat) (hs : s ∈ reach M.dfa cm [0] u)
    (he : M.dfa.isEnd s = true) (l : Nat) (hl : M.laSpec cm (M.dfa.tidOf s) v = some l) :
    ∃ t e, findFrom M cm i w = some (t, e) := by
  cases hr : findFrom M cm i w with
  | some r => exact ⟨r.1, r.2, rfl⟩
  | none =>
    have hnil := (C05.none_iff_no_candidate M cm i w).mp hr
    have : (⟨i + bytesLen u, i + bytesLen u + l, M.dfa.tidOf s⟩ : Cand) ∈ specCands M cm i w :=
      (C05.candidate_iff M cm i w _).mpr ⟨u, v, hu, hw, s, hs, he, l, hl, rfl⟩
    rw [hnil] at this
    cases this

/-- (iii) The span of a reported token is non-empty and inside the remaining text. -/
theorem reported_span (M : ModeDfa) (cm : Nat → Nat → Bool) (i : Nat) (w : List Nat)
    (t e : Nat) (h : findFrom M cm i w = some (t, e)) : i < e ∧ e ≤ i + bytesLen w := by
  obtain ⟨u, v, h1, h2, h3, _, _⟩ := reported_token_is_gated M cm i w t e h
  have := bytesLen_pos h1
  have := bytesLen_append u v
  subst h2
  omega

/-! Non-vacuity: `a(?=b)` (terminal 1) on `ab` yields the token `a` (0..1), on `ac` nothing;
    `a(?!b)` yields nothing on `ab` and the token on `a` at the end of the input. -/
def exCm : Nat → Nat → Bool := cmT [[(97, 97)], [(98, 98)]]
def laB : Dfa := { trans := [[(1, 1)], []], ends := [(false, 0), (true, 0)], prio := [0] }
def exPos : ModeDfa :=
  { dfa := { trans := [[(0, 1)], []], ends := [(false, 0), (true, 1)], prio := [1] },
    las := [(1, ⟨true, laB⟩)] }
def exNeg : ModeDfa := { exPos with las := [(1, ⟨false, laB⟩)] }

example : findFrom exPos exCm 0 [97, 98] = some (1, 1) := by decide
example : findFrom exPos exCm 0 [97, 99] = none := by decide
example : findFrom exPos exCm 0 [97] = none := by decide
example : findFrom exNeg exCm 0 [97, 98] = none := by decide
example : findFrom exNeg exCm 0 [97] = some (1, 1) := by decide

/-! ## Track A: the trailing-context rule at pattern level, for every pattern list

`compileFull ps` is the model of `CompiledDfa::try_from_patterns` (compiled mode automaton plus one
minimized automaton per lookahead); with the compiler model proved correct the automaton-level
candidates are the pattern-level ones (`mem_specCands_full`), so C04 and C05 hold for the model of
the whole pipeline without any per-program hypothesis. -/

/-- **C04 for all programs**: for every list of patterns with optional lookaheads (distinct token
    types), every class function and every input, the model of `find_from` on the compiled mode
    reports nothing iff there is no pattern-level candidate, and otherwise a candidate (a non-empty
    prefix matched by the reported pattern, ending at the reported offset, whose lookahead condition
    holds on the rest and never counts into the token) that maximises end + lookahead length and,
    among those, is listed first -/
theorem end_to_end_lookahead (ps : List CPat) (hn : (ps.map (·.tid)).Nodup) (cm : Nat → Nat → Bool)
    (w : List Nat) :
    match findFrom (compileFull ps) cm 0 w with
    | none => ∀ k, ¬ PCand cm ps 0 w k
    | some (t, e) => ∃ k, PCand cm ps 0 w k ∧ k.tid = t ∧ k.endPos = e ∧
        ∀ k', PCand cm ps 0 w k' → k'.extent < k.extent ∨
          (k'.extent = k.extent ∧ (ps.map (·.tid)).idxOf k.tid ≤ (ps.map (·.tid)).idxOf k'.tid) := by
  have h := findFrom_specFindOK (compileFull ps) cm 0 w
  have hprio : (compileFull ps).dfa.prio = ps.map (·.tid) := by
    simp [compileFull, compileMode, minimize, createFromPartition, compilePre, buildDfa, mkDfa, List.map_map]
  cases hr : findFrom (compileFull ps) cm 0 w with
  | none =>
    rw [hr] at h
    simp only [specFindOK, List.isEmpty_iff] at h
    intro k hk
    have := (mem_specCands_full ps hn cm 0 w k).mpr hk
    rw [h] at this; cases this
  | some r =>
    obtain ⟨t, e⟩ := r
    rw [hr] at h
    simp only [specFindOK, List.any_eq_true, Bool.and_eq_true, beq_iff_eq, List.all_eq_true] at h
    obtain ⟨k, hk, ⟨ht, he⟩, hall⟩ := h
    refine ⟨k, (mem_specCands_full ps hn cm 0 w k).mp hk, ht, he, ?_⟩
    intro k' hk'
    have := hall k' ((mem_specCands_full ps hn cm 0 w k').mpr hk')
    simp only [candGe, Bool.or_eq_true, decide_eq_true_eq, Bool.and_eq_true, beq_iff_eq, Dfa.prioOf, hprio] at this
    exact this

end Scnr.C04
