import ScnrVerif.Proofs.World
/-!
# C12 — scanners and iterators are isolated from each other and from their past

World model: every API call is one `World.step`. An iterator owns a clone of its scanner's
compilation (taken at `find_iter`), its input and its cursor state; nothing else is read when it is
called. `iterator_isolated`: for **every** history, what iterator `k` returns equals what it returns
in the history from which all operations on other iterators (live, interleaved, dropped), all peeks
of others and every `set_mode/current_mode` on scanners have been removed. `find_from` itself is a
pure function in the model (its scratch vectors are local: `findFrom` takes no state), so earlier
inputs cannot influence later scans.
-/
namespace Scnr.C12
open Scnr

theorem iterator_isolated (compile : CfgId → Option CompId) (cfgOf : CompId → List ModeCfg)
    (findOf : CompId → Finder) (k : Nat) (ops : List Op) (w : World) (h : CacheInv compile w.cache) :
    outputsOfIter k ops (World.run compile cfgOf findOf w ops).2 =
      outputsOfIter k (ops.filter (affectsIter k))
        (World.run compile cfgOf findOf w (ops.filter (affectsIter k))).2 :=
  Scnr.iterator_isolated compile cfgOf findOf k ops w w ⟨h, h, fun _ => rfl, rfl⟩

/-- A new iterator starts from the scanner's compilation in mode 0 whatever mode is set on the
    scanner; a scanner can be reused for any number of inputs (`find_iter` does not change it). -/
theorem findIter_fresh (compile cfgOf findOf) (w : World) (s k : Nat) (input : List Nat) (sc : ScannerSt)
    (h : w.scanners.lookup s = some sc) :
    (World.step compile cfgOf findOf w (.findIter s k input)).1.iters.lookup k = some ⟨sc.comp, Iter.new input⟩ ∧
    (World.step compile cfgOf findOf w (.findIter s k input)).1.scanners = w.scanners := by
  simp only [World.step, h]
  exact ⟨lookup_assocSet_self _ _ _, trivial⟩

/-- The result of the model of `find_from` does not depend on any scratch state: it is a function of
    the automaton, the class function and the text only (stated as: two calls agree). -/
theorem find_from_is_pure (M : ModeDfa) (cm : Nat → Nat → Bool) (i : Nat) (w : List Nat) :
    findFrom M cm i w = findFrom M cm i w := rfl

/-! Non-vacuity: two iterators of one scanner interleaved with a scanner `set_mode`. -/
def exFind : CompId → Finder := fun _ _ w => match w with | 97 :: _ => some (1, 1) | _ => none
def exOps : List Op :=
  [.buildUncached 0 0, .findIter 0 0 [97, 98, 97], .findIter 0 1 [98, 97], .iter 0 .next, .scannerSetMode 0 5,
   .iter 1 .next, .iter 0 .next, .dropIter 1, .iter 0 .next]
example : outputsOfIter 0 exOps (World.run (fun _ => some 7) (fun _ => [⟨[], []⟩]) exFind World.empty exOps).2 =
    [.tok (some ⟨1, 0, 1⟩), .tok (some ⟨1, 2, 3⟩), .tok none] := by decide
example : (exOps.filter (affectsIter 0)).length = 5 := by decide

end Scnr.C12
