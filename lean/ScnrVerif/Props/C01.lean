import ScnrVerif.Proofs.Pat
import ScnrVerif.Proofs.Iter
import ScnrVerif.Props.C02
/-!
# C01 — longest match wins, earlier pattern breaks ties, unmatched input is skipped

For a lookahead-free mode whose automaton is language-equivalent to its pattern list (established
per program by C02's verified check on the dump of the real compiler: `C02.equiv_sound`), with the
terminals stored in pattern order and distinct token types within the mode:

* `scan_step`: the model of `find_from` reports the longest non-empty prefix that some pattern
  matches in full, with the token type of the first listed pattern matching it (`patFindOK`, stated
  on the reference regular expressions, not on the automaton), and that verdict determines the
  result uniquely;
* `tokens_are_longest_match`: iterating the model yields exactly the reference tokenization
  `scanFrom` (take the match, else advance one character; spans absolute) driven by *any* function
  implementing the pattern-level rule;
* `addPatterns_tid`: `add_patterns` numbers token types by pattern index.
-/
namespace Scnr.C01
open Scnr

theorem scan_step (M : ModeDfa) (cm cmR : Nat → Nat → Bool) (ps : List (Nat × Re))
    (hlas : M.las = []) (hprio : M.dfa.prio = ps.map (·.1)) (hn : (ps.map (·.1)).Nodup)
    (heq : LangEquiv M.dfa cm cmR ps) (w : List Nat) :
    patFindOK cmR ps w (findFrom M cm 0 w) = true :=
  findFrom_patFindOK M cm cmR ps hlas hprio hn heq w

theorem scan_step_unique (cmR : Nat → Nat → Bool) (ps : List (Nat × Re)) (w : List Nat)
    (r1 r2 : Option (Nat × Nat)) (h1 : patFindOK cmR ps w r1 = true) (h2 : patFindOK cmR ps w r2 = true) :
    r1 = r2 := patFindOK_unique cmR ps w r1 r2 h1 h2

/-- Readable content of the verdict for a reported token. -/
theorem patFindOK_some_iff (cmR : Nat → Nat → Bool) (ps : List (Nat × Re)) (w : List Nat) (t len : Nat) :
    patFindOK cmR ps w (some (t, len)) = true ↔
      ∃ k, (∃ (u v : List Nat) (q : Nat × Re), u ≠ [] ∧ w = u ++ v ∧ len = bytesLen u ∧ ps[k]? = some q ∧ q.1 = t ∧ Matches cmR q.2 u) ∧
        ∀ (k' : Nat) (u' v' : List Nat) (q' : Nat × Re), u' ≠ [] → w = u' ++ v' → ps[k']? = some q' → Matches cmR q'.2 u' →
          bytesLen u' < len ∨ (bytesLen u' = len ∧ k ≤ k') := by
  simp only [patFindOK, List.any_eq_true, Bool.and_eq_true, beq_iff_eq, List.all_eq_true, Bool.or_eq_true,
    decide_eq_true_eq]
  constructor
  · rintro ⟨c, hc, ⟨rfl, ht⟩, hall⟩
    obtain ⟨u, v, h1, h2, h3, q, hq, hm⟩ := (mem_patCands cmR ps w c.1 c.2).mp hc
    refine ⟨c.1, ⟨u, v, q, h1, h2, h3, hq, ?_, hm⟩, ?_⟩
    · rw [hq] at ht; simpa using ht
    · intro k' u' v' q' g1 g2 g3 g4
      have := hall (k', bytesLen u') ((mem_patCands cmR ps w k' _).mpr ⟨u', v', g1, g2, rfl, q', g3, g4⟩)
      simpa using this
  · rintro ⟨k, ⟨u, v, q, h1, h2, h3, hq, ht, hm⟩, hall⟩
    refine ⟨(k, len), (mem_patCands cmR ps w k len).mpr ⟨u, v, h1, h2, h3, q, hq, hm⟩, ⟨rfl, ?_⟩, ?_⟩
    · simp [hq, ht]
    · intro c' hc'
      obtain ⟨u', v', g1, g2, g3, q', g4, g5⟩ := (mem_patCands cmR ps w c'.1 c'.2).mp hc'
      have := hall c'.1 u' v' q' g1 g2 g4 g5
      rw [← g3] at this
      simpa using this

/-- The whole token stream: with a single lookahead-free mode without transitions, iterating the
    model from a fresh iterator yields the reference tokenization of the input driven by any
    function `find'` that implements the pattern-level rule. -/
theorem tokens_are_longest_match (M : ModeDfa) (cm cmR : Nat → Nat → Bool) (ps : List (Nat × Re))
    (hlas : M.las = []) (hprio : M.dfa.prio = ps.map (·.1)) (hn : (ps.map (·.1)).Nodup)
    (heq : LangEquiv M.dfa cm cmR ps) (cfg : List ModeCfg) (find' : Finder)
    (hspec : ∀ w, patFindOK cmR ps w (find' 0 w) = true) (hother : ∀ m, m ≠ 0 → ∀ w, find' m w = none)
    (input : List Nat) (n : Nat) (hlen : input.length < n) :
    Iter.run cfg (modelFinder [M] cm) n (Iter.new input) = scanFrom cfg find' 0 input 0 := by
  have hfind : modelFinder [M] cm = find' := by
    funext m w
    cases m with
    | zero =>
      have h1 := findFrom_patFindOK M cm cmR ps hlas hprio hn heq w
      have h2 := hspec w
      have := patFindOK_unique cmR ps w _ _ h1 h2
      simp only [modelFinder, List.getElem?_cons_zero]
      rw [← this]
      cases findFrom M cm 0 w <;> rfl
    | succ m =>
      simp only [modelFinder]
      rw [hother (m + 1) (by omega) w]
      simp
  rw [hfind]
  have hf : FinderOK find' := hfind ▸ modelFinder_ok [M] cm
  rw [run_eq_scanFrom cfg find' hf n (Iter.new input) (Iter.new_inv input) (by simpa [Iter.new] using hlen)]
  rfl

/-- The hypothesis `LangEquiv` is exactly what C02's verified check delivers. -/
theorem langEquiv_of_check (T R : List (List (Nat × Nat))) (A : Dfa) (ps : List (Nat × Re))
    (V : Array (List Nat × List (Nat × Re))) (h0 : Array Nat) (hs : Array (Array Nat))
    (h : closedCheckH (dfaSys A (cmT T)) (reSys (cmT R)) (mkReps (T ++ R)) [0] (normP ps) false V h0 hs = true) :
    LangEquiv A (cmT T) (cmT R) ps :=
  fun u hu t => C02.equiv_sound T R A ps V h0 hs h u hu t

/-- `add_patterns`: the token type of a pattern is its index. -/
def addPatterns {α : Type} (ps : List α) : List (Nat × α) := ps.zipIdx.map fun p => (p.2, p.1)

theorem addPatterns_tid {α : Type} (ps : List α) (k : Nat) (q : Nat × α)
    (h : (addPatterns ps)[k]? = some q) : q.1 = k := by
  unfold addPatterns at h
  simp only [List.getElem?_map, Option.map_eq_some_iff] at h
  obtain ⟨a, ha, rfl⟩ := h
  have := List.mem_zipIdx_iff_getElem?.mp (List.mem_of_getElem? ha)
  simp only [List.getElem?_zipIdx] at ha
  cases hps : ps[k]? with
  | none => simp [hps] at ha
  | some x => simp [hps] at ha; rw [← ha]

theorem addPatterns_nodup {α : Type} (ps : List α) : ((addPatterns ps).map (·.1)).Nodup := by
  unfold addPatterns
  simp only [List.map_map]
  have : (fun p : α × Nat => p.2) = Prod.snd := rfl
  show (List.map ((fun p : Nat × α => p.1) ∘ fun p : α × Nat => (p.2, p.1)) ps.zipIdx).Nodup
  have h2 : ((fun p : Nat × α => p.1) ∘ fun p : α × Nat => (p.2, p.1)) = Prod.snd := by funext p; rfl
  rw [h2, List.zipIdx_map_snd]
  exact List.nodup_range'

/-! Non-vacuity: patterns `ab` (type 0) and `a+` (type 1) with the automaton of `C02.exA`: on `aab`
    the longest match is `aa` by `a+`; on `ab` both match 2 bytes and the first listed wins. -/
def exM : ModeDfa := ⟨C02.exA, []⟩
example : findFrom exM (cmT C02.exT) 0 [97, 97, 98] = some (1, 2) := by decide
example : findFrom exM (cmT C02.exT) 0 [97, 98] = some (0, 2) := by decide
example : patFindOK (cmT C02.exT) C02.exPs [97, 98] (some (0, 2)) = true := by decide
example : patFindOK (cmT C02.exT) C02.exPs [97, 98] (some (1, 2)) = false := by decide
example : patFindOK (cmT C02.exT) C02.exPs [97, 98] (some (1, 1)) = false := by decide
example : exM.dfa.prio = C02.exPs.map (·.1) := by decide

/-! ## Token types shared by several patterns of a mode (finding F2)

`scan_step` assumes pairwise distinct token types. Without that assumption the crate (and its model)
follows `sharedTypeRule`: ties among the longest matches go to the token type whose *first
occurrence* in the pattern list comes first. The two rules coincide for distinct token types, so the
classification of a failure as "finding F2" in the driver can hide nothing there; the example shows
a configuration on which they differ (the deviation recorded in `known_findings.txt`). -/

/-- The crate's rule for all pattern lists, token types shared or not (no `Nodup`). -/
theorem shared_types_follow_first_occurrence (M : ModeDfa) (cm cmR : Nat → Nat → Bool)
    (ps : List (Nat × Re)) (hlas : M.las = []) (hprio : M.dfa.prio = ps.map (·.1))
    (heq : LangEquiv M.dfa cm cmR ps) (w : List Nat) :
    sharedTypeRule cmR ps w (findFrom M cm 0 w) = true :=
  findFrom_sharedTypeRule M cm cmR ps hlas hprio heq w

/-- For distinct token types the crate's rule is the property's rule. -/
theorem shared_type_rule_is_property_rule (cm : Nat → Nat → Bool) (ps : List (Nat × Re))
    (hn : (ps.map (·.1)).Nodup) (w : List Nat) (r : Option (Nat × Nat)) :
    sharedTypeRule cm ps w r = patFindOK cm ps w r :=
  sharedTypeRule_eq_patFindOK cm ps hn w r

/-- patterns `b` (type 1), `a` (type 2), `a` (type 1) on the input `a`: the property prescribes
    type 2 (the first listed pattern that matches), the crate's rule gives type 1 -/
def exShared : List (Nat × Re) := [(1, .cls 1), (2, .cls 0), (1, .cls 0)]
example : patFindOK (cmT C02.exT) exShared [97] (some (2, 1)) = true := by decide
example : patFindOK (cmT C02.exT) exShared [97] (some (1, 1)) = false := by decide
example : sharedTypeRule (cmT C02.exT) exShared [97] (some (1, 1)) = true := by decide
example : sharedTypeRule (cmT C02.exT) exShared [97] (some (2, 1)) = false := by decide
example : distinctTypes exShared = false := by decide

/-! ## End to end on the model of the whole crate (track A)

With the compiler model proved correct for every pattern list (`C02.compiler_model_correct`) the
hypothesis `LangEquiv` of the theorems above is discharged once and for all: compiling any list of
patterns (distinct token types, no lookaheads) and running the finder / the iterator model on the
result yields the longest match of the first listed pattern — for every pattern list, every class
function and every input. -/

/-- the patterns of a mode as reference regular expressions -/
def patternsOf (ps : List (Nat × CAst)) : List (Nat × Re) := ps.map fun q => (q.1, q.2.toRe)

theorem compiled_langEquiv (ps : List (Nat × CAst)) (cm : Nat → Nat → Bool) :
    LangEquiv (compileMode ps) cm cm (patternsOf ps) := by
  intro u hu t
  rw [compileMode_correct]
  simp only [patternsOf, List.mem_map]
  constructor
  · rintro ⟨_, q, hq, rfl, hm⟩; exact ⟨q.2.toRe, ⟨q, hq, rfl⟩, hm⟩
  · rintro ⟨r, ⟨q, hq, he⟩, hm⟩
    cases he
    exact ⟨hu, q, hq, rfl, hm⟩

theorem compiled_prio (ps : List (Nat × CAst)) : (compileMode ps).prio = (patternsOf ps).map (·.1) := by
  simp [compileMode, minimize, createFromPartition, compilePre, buildDfa, mkDfa, patternsOf, List.map_map]

/-- **find_from on a compiled mode, for every pattern list and every input** -/
theorem end_to_end_find (ps : List (Nat × CAst)) (hn : (ps.map (·.1)).Nodup) (cm : Nat → Nat → Bool)
    (w : List Nat) :
    patFindOK cm (patternsOf ps) w (findFrom ⟨compileMode ps, []⟩ cm 0 w) = true := by
  apply findFrom_patFindOK ⟨compileMode ps, []⟩ cm cm (patternsOf ps) rfl (compiled_prio ps)
  · have : (patternsOf ps).map (·.1) = ps.map (·.1) := by
      simp only [patternsOf, List.map_map]; rfl
    rw [this]; exact hn
  · exact compiled_langEquiv ps cm

/-- **the whole token stream of a compiled single-mode scanner**: for every pattern list with
    distinct token types, every class function and every input, iterating the model (compiler,
    finder, iterator) yields the reference tokenization driven by the pattern-level rule -/
theorem end_to_end_tokens (ps : List (Nat × CAst)) (hn : (ps.map (·.1)).Nodup) (cm : Nat → Nat → Bool)
    (cfg : List ModeCfg) (find' : Finder)
    (hspec : ∀ w, patFindOK cm (patternsOf ps) w (find' 0 w) = true)
    (hother : ∀ m, m ≠ 0 → ∀ w, find' m w = none) (input : List Nat) (n : Nat) (hlen : input.length < n) :
    Iter.run cfg (modelFinder [⟨compileMode ps, []⟩] cm) n (Iter.new input) = scanFrom cfg find' 0 input 0 := by
  have hn' : ((patternsOf ps).map (·.1)).Nodup := by
    have : (patternsOf ps).map (·.1) = ps.map (·.1) := by
      simp only [patternsOf, List.map_map]; rfl
    rw [this]; exact hn
  exact tokens_are_longest_match ⟨compileMode ps, []⟩ cm cm (patternsOf ps) rfl (compiled_prio ps) hn'
    (compiled_langEquiv ps cm) cfg find' hspec hother input n hlen

end Scnr.C01
