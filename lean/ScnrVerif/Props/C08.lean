import ScnrVerif.Proofs.Class
/-!
# C08 — character classes are the set algebra of their parts, for every character

* `eval_is_algebra`: the mirror of `match_function.rs` (with its negation-flag plumbing) equals the
  textbook denotation for every class expression at any nesting depth, every environment of named
  primitives and every character — except for the deliberate special case of a verbatim `.`
  literal inside brackets (finding F3), which `noVerbDot` excludes.
* the laws of the denotation (union = or, `&&` = and, `--` = and-not, `~~` = xor, negation =
  complement at any level, literal = itself, range = inclusive interval, negated primitive =
  complement of the primitive).
* `check_is_exhaustive`: the per-expression check run by `bin/check C08` on the table of the real
  match function (enumerated over all 1,112,064 scalar values by the harness) decides agreement for
  **every** code point.
-/
namespace Scnr.C08
open Scnr

theorem eval_is_algebra (env : Nat → Nat → Bool) (neg : Bool) (s : CSet) (h : s.noVerbDot = true) (ch : Nat) :
    evalSetN env neg s ch = (denSet env s ch != neg) := evalSetN_eq_den env s h neg ch

theorem check_is_exhaustive (E : List (List (Nat × Nat))) (neg : Bool) (s : CSet) (real : List (Nat × Nat))
    (h : classCheck E neg s real = true) (c : Nat) :
    inRanges real c = (inRanges scalarTable c && (denSet (cmT E) s c != neg)) :=
  classCheck_sound E neg s real h c

/-! laws of the denotation -/
theorem den_literal (env) (c vd ch) : denItem env (.lit c vd) ch = true ↔ ch = c := by
  simp [denItem, inRanges]; omega
theorem den_range (env) (lo hi ch) : denItem env (.range lo hi) ch = true ↔ lo ≤ ch ∧ ch ≤ hi := by
  simp [denItem, inRanges]
theorem den_union (env) (a b ch) : denItem env (.union a b) ch = (denItem env a ch || denItem env b ch) := rfl
theorem den_empty (env) (ch) : denItem env .empty ch = false := rfl
theorem den_named (env) (id ch) : denItem env (.named id false) ch = env id ch := by simp [denItem]
theorem den_named_neg (env) (id ch) : denItem env (.named id true) ch = !env id ch := by
  simp [denItem]
theorem den_nested (env) (s ch) : denItem env (.bracketed false s) ch = denSet env s ch := by simp [denItem]
theorem den_nested_neg (env) (s ch) : denItem env (.bracketed true s) ch = !denSet env s ch := by
  simp [denItem]
theorem den_inter (env) (l r ch) : denSet env (.binop .inter l r) ch = (denSet env l ch && denSet env r ch) := rfl
theorem den_diff (env) (l r ch) : denSet env (.binop .diff l r) ch = (denSet env l ch && !denSet env r ch) := rfl
theorem den_symdiff (env) (l r ch) : denSet env (.binop .symdiff l r) ch = (denSet env l ch != denSet env r ch) := rfl

/-- the dot: everything except `\n` and `\r` -/
def dotFn (ch : Nat) : Bool := ch != 10 && ch != 13

/-- finite check used for the ASCII restrictions of `\d \s \w` -/
def asciiCheck (tbl expected : List (Nat × Nat)) : Bool :=
  (List.range 128).all fun c => inRanges tbl c == inRanges expected c

theorem asciiCheck_sound (tbl expected : List (Nat × Nat)) (h : asciiCheck tbl expected = true) (c : Nat)
    (hc : c < 128) : inRanges tbl c = inRanges expected c := by
  unfold asciiCheck at h
  simp only [List.all_eq_true, List.mem_range, beq_iff_eq] at h
  exact h c hc

/-! Non-vacuity: `[^a-c&&[^b]]` = complement of {a, c}; double negation `[^[^a-c]]`. -/
def exS : CSet := .binop .inter (.item (.range 97 99)) (.item (.bracketed true (.item (.lit 98 false))))
example : (List.range 130).filter (fun ch => evalSetN (fun _ _ => false) false exS ch) = [97, 99] := by decide
example : exS.noVerbDot = true := by decide
example : classCheck [] true exS [(0, 96), (98, 98), (100, 0xD7FF), (0xE000, 0x10FFFF)] = true := by decide
example : classCheck [] true exS [(0, 96), (100, 0xD7FF), (0xE000, 0x10FFFF)] = false := by decide
example : evalSetN (fun _ _ => false) true (.item (.bracketed true (.item (.range 97 99)))) 98 = true := by decide

end Scnr.C08
