import ScnrVerif.Proofs.Equiv
import ScnrVerif.Proofs.CompileCorrect
import ScnrVerif.Proofs.Agree
import ScnrVerif.Proofs.FullRegistry
/-!
# C02 — the compiled automaton accepts exactly the pattern languages, for every string

`equiv_sound`: if the verified check `closedCheckH` accepts a candidate set for the dumped automaton
`A` (with the scanner's class tables `T`) against the pattern list `ps` (reference regular
expressions over reference tables `R`), then for **every non-empty word over all code points** and
every terminal `t`, the automaton accepts the word for `t` iff some pattern with terminal `t`
matches it. The check is run by `bin/check C02` on the automata the real compiler just produced
(every mode and every lookahead of this run's programs and of the repository corpora).
-/
namespace Scnr.C02
open Scnr

/-- The representatives computed from all tables cover both systems. -/
theorem reps_cover (T R : List (List (Nat × Nat))) (A : Dfa) :
    RepsCover (dfaSys A (cmT T)) (reSys (cmT R)) (mkReps (T ++ R)) := by
  intro c
  obtain ⟨r, hr, h⟩ := mkReps_cover (T ++ R) c
  refine ⟨r, hr, ?_, ?_⟩
  · intro S
    exact dfaSys_step_congr A (cmT T)
      (cmT_congr_of_tables (Ts := T ++ R) (fun t ht => List.mem_append_left _ ht) h) S
  · intro D
    exact reSys_step_congr (cmT R)
      (cmT_congr_of_tables (Ts := T ++ R) (fun t ht => List.mem_append_right _ ht) h) D

/-- **Soundness of the per-automaton verdict** (all non-empty words, all terminals). -/
theorem equiv_sound (T R : List (List (Nat × Nat))) (A : Dfa) (ps : List (Nat × Re))
    (V : Array (List Nat × List (Nat × Re))) (h0 : Array Nat) (hs : Array (Array Nat))
    (h : closedCheckH (dfaSys A (cmT T)) (reSys (cmT R)) (mkReps (T ++ R)) [0] (normP ps) false V h0 hs = true)
    (w : List Nat) (hw : w ≠ []) (t : Nat) :
    acceptsTid A (cmT T) w t ↔ ∃ r, (t, r) ∈ ps ∧ Matches (cmT R) r w := by
  have hc := (closedCheckH_closed h).1
  have := closed_sound hc (reps_cover T R A) w hw
  rw [← dfaSys_acc_run, this, reSys_acc_run]
  constructor
  · rintro ⟨r, hr, hm⟩; exact ⟨r, (mem_normP _ _).mp hr, hm⟩
  · rintro ⟨r, hr, hm⟩; exact ⟨r, (mem_normP _ _).mpr hr, hm⟩

/-- The same with the unhinted list check. -/
theorem equiv_sound_list (T R : List (List (Nat × Nat))) (A : Dfa) (ps : List (Nat × Re))
    (V : List (List Nat × List (Nat × Re)))
    (h : closedCheck (dfaSys A (cmT T)) (reSys (cmT R)) (mkReps (T ++ R)) [0] (normP ps) false V = true)
    (w : List Nat) (hw : w ≠ []) (t : Nat) :
    acceptsTid A (cmT T) w t ↔ ∃ r, (t, r) ∈ ps ∧ Matches (cmT R) r w := by
  have hc := (closedCheck_closed h).1
  have := closed_sound hc (reps_cover T R A) w hw
  rw [← dfaSys_acc_run, this, reSys_acc_run]
  constructor
  · rintro ⟨r, hr, hm⟩; exact ⟨r, (mem_normP _ _).mp hr, hm⟩
  · rintro ⟨r, hr, hm⟩; exact ⟨r, (mem_normP _ _).mpr hr, hm⟩

/-- The empty string is never accepted when the start state is not accepting. -/
theorem empty_not_accepted (A : Dfa) (cm : Nat → Nat → Bool) (h : startNotAccepting A = true) (t : Nat) :
    ¬ acceptsTid A cm [] t := by
  rintro ⟨s, hs, he, _⟩
  simp only [reach, List.mem_singleton] at hs
  subst hs
  simp [startNotAccepting, he] at h

/-- Every class id an automaton refers to is a registered one. -/
theorem class_ids_registered (A : Dfa) (n : Nat) (h : classIdsInRange A n = true) (s : Nat) (p : Nat × Nat)
    (hp : p ∈ A.outs s) : p.1 < n := by
  unfold classIdsInRange at h
  simp only [List.all_eq_true, decide_eq_true_eq] at h
  unfold Dfa.outs at hp
  by_cases hs : s < A.trans.length
  · have hm : A.trans.getD s [] ∈ A.trans := by
      rw [List.getD_eq_getElem?_getD, List.getElem?_eq_getElem hs]; simp
    exact h _ hm p hp
  · have : A.trans.getD s [] = [] := by
      rw [List.getD_eq_getElem?_getD, List.getElem?_eq_none (by omega)]; rfl
    rw [this] at hp; cases hp

/-- Derivative matching is the semantics (used by the executable pattern-level oracle). -/
theorem matches_by_derivatives (cm : Nat → Nat → Bool) (c : Nat) (r : Re) (w : List Nat) :
    Matches cm r (c :: w) ↔ ∃ r' ∈ pderiv cm c r, Matches cm r' w := matches_cons_iff

theorem nullable_is_empty_match (cm : Nat → Nat → Bool) (r : Re) :
    r.nullable = true ↔ Matches cm r [] := nullable_iff

/-! Non-vacuity: the automaton of `["ab", "a+"]` (terminals 0, 1) against its patterns, kernel
    checked with the list version of the check. Tables: class 0 = {a}, class 1 = {b}. -/
def exT : List (List (Nat × Nat)) := [[(97, 97)], [(98, 98)]]
def exA : Dfa :=
  { trans := [[(0, 1), (0, 2)], [(1, 3)], [(0, 2)], []],
    ends := [(false, 0), (false, 0), (true, 1), (true, 0)], prio := [0, 1] }
def exPs : List (Nat × Re) :=
  [(0, .cat (.cls 0) (.cls 1)), (1, .cat (.cls 0) (.star (.cls 0)))]
def exV : List (List Nat × List (Nat × Re)) :=
  (explore (dfaSys exA (cmT exT)) (reSys (cmT exT)) (mkReps (exT ++ exT)) 50
    [([0], normP exPs)] []).getD []
example : closedCheck (dfaSys exA (cmT exT)) (reSys (cmT exT)) (mkReps (exT ++ exT)) [0] (normP exPs)
    false exV = true := by decide
example : exV.length = 4 := by decide

/-! ## Track A: the compiler model is correct for **every** pattern list

`Model/Compile.lean` mirrors the Rust compiler (Thompson construction with its state numbering,
multi-pattern NFA, closure construction, minimizer); on every run the driver checks that it
reproduces the real automata exactly. The theorems below need no per-program check. -/

/-- the Thompson NFA of a pattern AST accepts exactly the words the pattern matches -/
theorem thompson_language (a : CAst) (cm : Nat → Nat → Bool) (w : List Nat) :
    (thompson a).Accepts cm w ↔ Matches cm a.toRe w := thompson_correct a cm w

/-- the closure construction (one state per ε-closure of an NFA state) preserves the languages:
    for every well-formed multi-pattern NFA, every word, every terminal -/
theorem closure_construction_correct (m : MNfa) (hm : MWF m) (prio : List Nat) (cm : Nat → Nat → Bool)
    (w : List Nat) (tid : Nat) :
    acceptsTid (buildDfa m prio) cm w tid ↔ w ≠ [] ∧ ∃ p ∈ m, p.1 = tid ∧ p.2.Accepts cm w :=
  buildDfa_correct hm prio cm w tid

/-- **the compiled automaton of a mode** (Thompson, closure construction, minimizer) accepts a word
    for a terminal iff the word is not empty and a pattern with that terminal matches it — for every
    list of patterns, every class function, every word, every terminal -/
theorem compiler_model_correct (ps : List (Nat × CAst)) (cm : Nat → Nat → Bool) (w : List Nat) (tid : Nat) :
    acceptsTid (compileMode ps) cm w tid ↔ w ≠ [] ∧ ∃ q ∈ ps, q.1 = tid ∧ Matches cm q.2.toRe w :=
  compileMode_correct ps cm w tid

/-- **lookahead automata** -/
theorem lookahead_model_correct (a : CAst) (cm : Nat → Nat → Bool) (w : List Nat) (t : Nat) :
    acceptsTid (minimize (compileLaPre a)) cm w t ↔ w ≠ [] ∧ t = 0 ∧ Matches cm a.toRe w :=
  compileLa_correct a cm w t

/-- **track A as a decision procedure** (executed by the driver on every compiled mode): equality of
    the real automaton with the model's and leaf-wise agreement of the patterns decide C02 for that
    mode, for every word, with no exploration bound -/
theorem decided_by_compiler_theorem (T R : List (List (Nat × Nat))) (A : Dfa) (ps : List (Nat × CAst))
    (rs : List (Nat × Ast)) (hA : A = compileMode ps) (hag : agreePats T R ps rs = true) (w : List Nat) (t : Nat) :
    acceptsTid A (cmT T) w t ↔
      w ≠ [] ∧ ∃ r, (t, r) ∈ rs.map (fun p => (p.1, p.2.desugar)) ∧ Matches (cmT R) r w :=
  trackA_decides T R A ps rs hA hag w t

theorem lookahead_decided_by_compiler_theorem (T R : List (List (Nat × Nat))) (A : Dfa) (a : CAst) (r : Ast)
    (ht : A.trans = (minimize (compileLaPre a)).trans) (he : A.ends = (minimize (compileLaPre a)).ends)
    (hag : agree T R a r = true) (w : List Nat) (t : Nat) :
    acceptsTid A (cmT T) w t ↔ w ≠ [] ∧ t = 0 ∧ Matches (cmT R) r.desugar w :=
  trackA_decides_la T R A a r ht he hag w t

/-- the empty string is never accepted by the model's automata -/
theorem model_rejects_empty (ps : List (Nat × CAst)) (cm : Nat → Nat → Bool) (tid : Nat) :
    ¬ acceptsTid (compileMode ps) cm [] tid := by
  rw [compileMode_correct]; simp

/-- instance: `ab|a+` style pattern list, word "aab" is accepted for terminal 1 only if matched -/
example : acceptsTid (compileMode [(0, .concat [.leaf 0, .leaf 1]), (1, .plus (.leaf 0))])
    (fun cls c => (cls == 0 && c == 97) || (cls == 1 && c == 98)) [97, 97] 1 := by
  rw [compileMode_correct]
  refine ⟨by simp, (1, .plus (.leaf 0)), by simp, rfl, ?_⟩
  show Matches _ (.cat (.cls 0) (.star (.cls 0))) [97, 97]
  exact (Matches.cat (u := [97]) (v := [97]) (.cls (by decide))
    ((List.append_nil [97]) ▸ Matches.starCons (u := [97]) (v := []) (.cls (by decide)) .starNil))


/-! ## The class registry (E8): "every character class an automaton refers to is a registered one"

`Model/Registry.lean` mirrors `CharacterClassRegistry::add_character_class` and the order in which the
compiler registers the leaves of the pattern ASTs. For **every** scanner configuration: -/

/-- ids handed out are registered, the registry stays duplicate-free and only grows, and under the
    class function of any later registry the AST with ids denotes the language of the AST with keys -/
theorem class_ids_assigned_are_registered (a : CAst) (R : List Nat) (hR : R.Nodup) :
    R <+: (assign a R).2 ∧ (assign a R).2.Nodup ∧
    (assign a R).1.idsBelow (assign a R).2.length = true ∧
    ∀ R', (assign a R).2 <+: R' → ∀ sem : Nat → Nat → Bool,
      SameLang (regCm R' sem) sem (assign a R).1.toRe a.toRe :=
  assign_spec a R hR

/-- every compiled mode of a scanner accepts, under the class function of the scanner's registry,
    exactly the languages of its patterns read with the sets their class keys denote -/
theorem class_registry_faithful (ms : List (List CPat)) (sem : Nat → Nat → Bool) (i : Nat) (ps : List CPat)
    (h : ms[i]? = some ps) :
    ∃ ps', (assignModes ms []).1[i]? = some ps' ∧ (ps'.map (·.tid)) = (ps.map (·.tid)) ∧
      (∀ w t, acceptsTid (compileFull ps').dfa (regCm (assignModes ms []).2 sem) w t ↔
        w ≠ [] ∧ ∃ q ∈ ps, q.tid = t ∧ Matches sem q.ast.toRe w) ∧
      (∀ i0 w k, PCand (regCm (assignModes ms []).2 sem) ps' i0 w k ↔ PCand sem ps i0 w k) :=
  registry_mode_correct ms sem i ps h

/-- registry + compiler + finder: from pattern ASTs with class keys to the trailing-context rule -/
theorem whole_pipeline_from_class_keys (ms : List CMode) (hn : ∀ md ∈ ms, (md.pats.map (·.tid)).Nodup)
    (sem : Nat → Nat → Bool) (m : Nat) (w : List Nat) :
    match ms[m]? with
    | none => modelFinder (compileScanner (assignScanner ms).1) (regCm (assignScanner ms).2 sem) m w = none
    | some md => PFindOK sem md.pats w
        (modelFinder (compileScanner (assignScanner ms).1) (regCm (assignScanner ms).2 sem) m w) :=
  whole_scanner_from_keys ms hn sem m w

/-- two leaves with one key share an id, leaves with different keys get different ids -/
example : (assignList [.leaf 7, .leaf 3, .leaf 7, .star (.leaf 9)] []) =
    ([.leaf 0, .leaf 1, .leaf 0, .star (.leaf 2)], [7, 3, 9]) := by rfl

end Scnr.C02
