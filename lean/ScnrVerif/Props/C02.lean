import ScnrVerif.Proofs.Equiv
/-!
# C02 — the compiled automaton accepts exactly the pattern languages, for every string

`equiv_sound`: if the verified check `closedCheckH` accepts a candidate set for the dumped automaton
`A` (with the scanner's class tables `T`) against the pattern list `ps` (reference regular
expressions over reference tables `R`), then for **every non-empty word over all code points** and
every terminal `t`, the automaton accepts the word for `t` iff some pattern with terminal `t`
matches it. The check is run by `bin/check C02` on the automata the real compiler just produced
(every mode and every lookahead of this run's programs and of the repository corpora).
-/
namespace Scnr.C02
open Scnr

/-- The representatives computed from all tables cover both systems. -/
theorem reps_cover (T R : List (List (Nat × Nat))) (A : Dfa) :
    RepsCover (dfaSys A (cmT T)) (reSys (cmT R)) (mkReps (T ++ R)) := by
  intro c
  obtain ⟨r, hr, h⟩ := mkReps_cover (T ++ R) c
  refine ⟨r, hr, ?_, ?_⟩
  · intro S
    exact dfaSys_step_congr A (cmT T)
      (cmT_congr_of_tables (Ts := T ++ R) (fun t ht => List.mem_append_left _ ht) h) S
  · intro D
    exact reSys_step_congr (cmT R)
      (cmT_congr_of_tables (Ts := T ++ R) (fun t ht => List.mem_append_right _ ht) h) D

/-- **Soundness of the per-automaton verdict** (all non-empty words, all terminals). -/
theorem equiv_sound (T R : List (List (Nat × Nat))) (A : Dfa) (ps : List (Nat × Re))
    (V : Array (List Nat × List (Nat × Re))) (h0 : Array Nat) (hs : Array (Array Nat))
    (h : closedCheckH (dfaSys A (cmT T)) (reSys (cmT R)) (mkReps (T ++ R)) [0] (normP ps) false V h0 hs = true)
    (w : List Nat) (hw : w ≠ []) (t : Nat) :
    acceptsTid A (cmT T) w t ↔ ∃ r, (t, r) ∈ ps ∧ Matches (cmT R) r w := by
  have hc := (closedCheckH_closed h).1
  have := closed_sound hc (reps_cover T R A) w hw
  rw [← dfaSys_acc_run, this, reSys_acc_run]
  constructor
  · rintro ⟨r, hr, hm⟩; exact ⟨r, (mem_normP _ _).mp hr, hm⟩
  · rintro ⟨r, hr, hm⟩; exact ⟨r, (mem_normP _ _).mpr hr, hm⟩

/-- The same with the unhinted list check. -/
theorem equiv_sound_list (T R : List (List (Nat × Nat))) (A : Dfa) (ps : List (Nat × Re))
    (V : List (List Nat × List (Nat × Re)))
    (h : closedCheck (dfaSys A (cmT T)) (reSys (cmT R)) (mkReps (T ++ R)) [0] (normP ps) false V = true)
    (w : List Nat) (hw : w ≠ []) (t : Nat) :
    acceptsTid A (cmT T) w t ↔ ∃ r, (t, r) ∈ ps ∧ Matches (cmT R) r w := by
  have hc := (closedCheck_closed h).1
  have := closed_sound hc (reps_cover T R A) w hw
  rw [← dfaSys_acc_run, this, reSys_acc_run]
  constructor
  · rintro ⟨r, hr, hm⟩; exact ⟨r, (mem_normP _ _).mp hr, hm⟩
  · rintro ⟨r, hr, hm⟩; exact ⟨r, (mem_normP _ _).mpr hr, hm⟩

/-- The empty string is never accepted when the start state is not accepting. -/
theorem empty_not_accepted (A : Dfa) (cm : Nat → Nat → Bool) (h : startNotAccepting A = true) (t : Nat) :
    ¬ acceptsTid A cm [] t := by
  rintro ⟨s, hs, he, _⟩
  simp only [reach, List.mem_singleton] at hs
  subst hs
  simp [startNotAccepting, he] at h

/-- Every class id an automaton refers to is a registered one. -/
theorem class_ids_registered (A : Dfa) (n : Nat) (h : classIdsInRange A n = true) (s : Nat) (p : Nat × Nat)
    (hp : p ∈ A.outs s) : p.1 < n := by
  unfold classIdsInRange at h
  simp only [List.all_eq_true, decide_eq_true_eq] at h
  unfold Dfa.outs at hp
  by_cases hs : s < A.trans.length
  · have hm : A.trans.getD s [] ∈ A.trans := by
      rw [List.getD_eq_getElem?_getD, List.getElem?_eq_getElem hs]; simp
    exact h _ hm p hp
  · have : A.trans.getD s [] = [] := by
      rw [List.getD_eq_getElem?_getD, List.getElem?_eq_none (by omega)]; rfl
    rw [this] at hp; cases hp

/-- Derivative matching is the semantics (used by the executable pattern-level oracle). -/
theorem matches_by_derivatives (cm : Nat → Nat → Bool) (c : Nat) (r : Re) (w : List Nat) :
    Matches cm r (c :: w) ↔ ∃ r' ∈ pderiv cm c r, Matches cm r' w := matches_cons_iff

theorem nullable_is_empty_match (cm : Nat → Nat → Bool) (r : Re) :
    r.nullable = true ↔ Matches cm r [] := nullable_iff

/-! Non-vacuity: the automaton of `["ab", "a+"]` (terminals 0, 1) against its patterns, kernel
    checked with the list version of the check. Tables: class 0 = {a}, class 1 = {b}. -/
def exT : List (List (Nat × Nat)) := [[(97, 97)], [(98, 98)]]
def exA : Dfa :=
  { trans := [[(0, 1), (0, 2)], [(1, 3)], [(0, 2)], []],
    ends := [(false, 0), (false, 0), (true, 1), (true, 0)], prio := [0, 1] }
def exPs : List (Nat × Re) :=
  [(0, .cat (.cls 0) (.cls 1)), (1, .cat (.cls 0) (.star (.cls 0)))]
def exV : List (List Nat × List (Nat × Re)) :=
  (explore (dfaSys exA (cmT exT)) (reSys (cmT exT)) (mkReps (exT ++ exT)) 50
    [([0], normP exPs)] []).getD []
example : closedCheck (dfaSys exA (cmT exT)) (reSys (cmT exT)) (mkReps (exT ++ exT)) [0] (normP exPs)
    false exV = true := by decide
example : exV.length = 4 := by decide

end Scnr.C02
