import ScnrVerif.Proofs.Iter
/-!
# C10 — scanning resumes correctly from any offset

The tokens delivered by repeated `next` are `scanFrom cfg find mode rest cursor`: a function of the
finder, the configuration, the current mode, the remaining text and the cursor position only. After
`set_offset(o)` the remaining text is the input from `min o len` on and the cursor is `min o len`,
so the result neither depends on `line_offsets/last_char/last_position` nor on what was scanned
before; spans are absolute. `advance_to(p)` with the end of a peeked match puts the cursor at `p`.
-/
namespace Scnr.C10
open Scnr

/-- All tokens delivered from a state = the reference scan from its cursor. -/
theorem tokens_are_reference_scan (cfg : List ModeCfg) (find : Finder) (hf : FinderOK find) (n : Nat)
    (it : Iter) (hi : it.Inv) (hn : it.rest.length < n) :
    Iter.run cfg find n it = scanFrom cfg find it.mode it.rest it.cursor :=
  run_eq_scanFrom cfg find hf n it hi hn

/-- After `set_offset(o)` / `with_offset(o)` (o on a character boundary, or beyond the end) the
    iterator yields exactly the reference scan of the input from `min o len` in the current mode. -/
theorem setOffset_tokens (cfg : List ModeCfg) (find : Finder) (hf : FinderOK find) (it : Iter) (o n : Nat)
    (hb : isBoundary it.input o = true ∨ bytesLen it.input ≤ o) (hn : it.input.length < n) :
    ∃ u v, it.input = u ++ v ∧ bytesLen u = min o (bytesLen it.input) ∧
      Iter.run cfg find n (it.setOffset o) = scanFrom cfg find it.mode v (min o (bytesLen it.input)) := by
  obtain ⟨u, v, huv, hu, hrest, hrel, hoff, hmode, _, _, hinv⟩ := setOffset_spec it o hb
  refine ⟨u, v, huv, hu, ?_⟩
  rw [run_eq_scanFrom cfg find hf n _ hinv (by rw [hrest]; rw [huv] at hn; simp at hn; omega)]
  simp only [Iter.cursor, hrest, hrel, hoff, hmode, Nat.add_zero]

/-- Two iterators over the same input in the same mode deliver the same tokens after being set to
    the same offset, whatever their histories (line bookkeeping, previous cursor) were. -/
theorem setOffset_history_independent (cfg : List ModeCfg) (find : Finder) (hf : FinderOK find)
    (it₁ it₂ : Iter) (o n : Nat) (hin : it₁.input = it₂.input) (hm : it₁.mode = it₂.mode)
    (hb : isBoundary it₁.input o = true ∨ bytesLen it₁.input ≤ o) (hn : it₁.input.length < n) :
    Iter.run cfg find n (it₁.setOffset o) = Iter.run cfg find n (it₂.setOffset o) := by
  obtain ⟨u₁, v₁, h1, hu1, hr1, hrel1, hoff1, hmode1, _, _, hinv1⟩ := setOffset_spec it₁ o hb
  obtain ⟨u₂, v₂, h2, hu2, hr2, hrel2, hoff2, hmode2, _, _, hinv2⟩ := setOffset_spec it₂ o (hin ▸ hb)
  have hrest : (it₁.setOffset o).rest = (it₂.setOffset o).rest := by
    simp only [Iter.setOffset, hin]
  rw [run_eq_scanFrom cfg find hf n _ hinv1 (by rw [hr1]; rw [h1] at hn; simp at hn; omega),
    run_eq_scanFrom cfg find hf n _ hinv2 (by
      rw [← hrest, hr1]; rw [h1] at hn; simp at hn; omega)]
  simp only [Iter.cursor, hrest, hrel1, hrel2, hoff1, hoff2, hmode1, hmode2, hin, hm]

/-- `advance_to(p)`, `p` the absolute end of a non-empty prefix of the remaining text (the end of a
    match obtained from `peek_n`): the next tokens are the reference scan from `p`. -/
theorem advanceTo_tokens (cfg : List ModeCfg) (find : Finder) (hf : FinderOK find) (it : Iter)
    (hi : it.Inv) (u v : List Nat) (hu : u ≠ []) (hr : it.rest = u ++ v) (n : Nat) (hn : v.length < n) :
    Iter.run cfg find n (it.advanceTo (it.cursor + bytesLen u)) =
      scanFrom cfg find it.mode v (it.cursor + bytesLen u) := by
  obtain ⟨a1, a2, a3, a4⟩ := advanceTo_spec it hi u v hu hr
  rw [run_eq_scanFrom cfg find hf n _ a4 (by rw [a1]; exact hn), a1, a2, a3]

/-! Non-vacuity: finder `a` ↦ token 1 (one byte); input `xaéa`, reset to offset 3 (after `é`). -/
def exFind : Finder := fun _ w => match w with | 97 :: _ => some (1, 1) | _ => none
example : Iter.run [⟨[], []⟩] exFind 9 ((Iter.new [120, 97, 233, 97]).setOffset 4) = [⟨1, 4, 5⟩] := by decide
example : isBoundary [120, 97, 233, 97] 4 = true := by decide
example : isBoundary [120, 97, 233, 97] 3 = false := by decide

end Scnr.C10
