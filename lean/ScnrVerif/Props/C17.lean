import ScnrVerif.Props.C03
import ScnrVerif.Props.C01
/-!
# C17 — large automata compile correctly or not at all

* `matches_rep_lit`: closed form of the language of `x{n}y` (single-class `x`, `y`): exactly the
  words `xⁿy` — this gives the expected token streams of the property's inputs (exact length, one
  less, 2^16 less, one more) without exploring 66 001 states.
* `group_ids_do_not_wrap`: if the minimizer's group id type is at least as wide as the state id
  type, every group index (there are never more groups than states) survives the cast.
* The minimized automaton of the large build is compared with the automaton before minimization by
  C03's verified check (`C03.pair_sound`), and mid-size instances of the same pattern family go
  through C01/C02's complete machinery (`C02.equiv_sound`, `C01.scan_step`).
-/
namespace Scnr.C17
open Scnr

theorem matches_pow_cls (cm : Nat → Nat → Bool) (id n : Nat) (w : List Nat) :
    Matches cm (Re.pow (.cls id) n) w ↔ w.length = n ∧ ∀ c ∈ w, cm id c = true := by
  induction n generalizing w with
  | zero =>
    simp only [Re.pow]
    constructor
    · intro h; rw [matches_eps_nil h]; simp
    · rintro ⟨h, _⟩
      have : w = [] := List.length_eq_zero_iff.mp h
      subst this; exact .eps
  | succ n ih =>
    simp only [Re.pow]
    constructor
    · intro h
      cases h with
      | cat ha hb =>
        cases ha with
        | cls hc =>
          obtain ⟨h1, h2⟩ := (ih _).mp hb
          refine ⟨by simp [h1], ?_⟩
          intro c hc'
          rcases List.mem_cons.mp hc' with rfl | h'
          · exact hc
          · exact h2 c h'
    · rintro ⟨h1, h2⟩
      cases w with
      | nil => simp at h1
      | cons c w =>
        have : Matches cm (.cat (.cls id) (Re.pow (.cls id) n)) ([c] ++ w) :=
          .cat (.cls (h2 c (by simp))) ((ih w).mpr ⟨by simpa using h1, fun x hx => h2 x (by simp [hx])⟩)
        simpa using this

/-- The language of `x{n}y` as `regex-syntax` parses it and `Ast.desugar` reads it. -/
theorem matches_rep_lit (cm : Nat → Nat → Bool) (a b n : Nat) (w : List Nat) :
    Matches cm (Ast.concat [.rep n (some n) (.leaf a), .leaf b]).desugar w ↔
      ∃ u c, w = u ++ [c] ∧ u.length = n ∧ (∀ x ∈ u, cm a x = true) ∧ cm b c = true := by
  simp only [Ast.desugar, Ast.desugarList, Re.catList, Nat.sub_self, Re.pow]
  constructor
  · intro h
    cases h with
    | cat h1 h2 =>
      cases h2 with
      | cls hc =>
        cases h1 with
        | cat h3 h4 =>
          rw [matches_eps_nil h4]
          obtain ⟨g1, g2⟩ := (matches_pow_cls cm a n _).mp h3
          exact ⟨_, _, by simp, g1, g2, hc⟩
  · rintro ⟨u, c, rfl, h1, h2, h3⟩
    have hp := (matches_pow_cls cm a n u).mpr ⟨h1, h2⟩
    have : Matches cm (.cat (Re.pow (.cls a) n) .eps) (u ++ []) := .cat hp .eps
    simp only [List.append_nil] at this
    exact .cat this (.cls h3)

/-- No group index wraps when the group id type is at least as wide as the state id type. -/
theorem group_ids_do_not_wrap (stateBits groupBits numStates g : Nat) (hw : stateBits ≤ groupBits)
    (hs : numStates ≤ 2 ^ stateBits) (hg : g < numStates) : g % 2 ^ groupBits = g := by
  apply Nat.mod_eq_of_lt
  have : 2 ^ stateBits ≤ 2 ^ groupBits := Nat.pow_le_pow_right (by omega) hw
  omega

/-- with a 16 bit group id the 65 537th group collides with the first one (the shape of the
    defect that was repaired) -/
example : (65536 : Nat) % 2 ^ 16 = 0 % 2 ^ 16 := by decide

/-! Non-vacuity: `a{3}b` -/
example : Matches (cmT [[(97, 97)], [(98, 98)]]) (Ast.concat [.rep 3 (some 3) (.leaf 0), .leaf 1]).desugar
    [97, 97, 97, 98] :=
  (matches_rep_lit _ 0 1 3 _).mpr ⟨[97, 97, 97], 98, rfl, rfl, by decide, by decide⟩
example : matchesBool (cmT [[(97, 97)], [(98, 98)]]) (Ast.concat [.rep 3 (some 3) (.leaf 0), .leaf 1]).desugar
    [97, 97, 98] = false := by decide

end Scnr.C17
