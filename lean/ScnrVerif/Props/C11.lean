import ScnrVerif.Proofs.Iter
/-!
# C11 — `peek_n` previews the coming tokens without side effects

`peekN` in the model returns only a `Peek` value: the iterator state is not an output, so position,
mode and the outcome of later calls cannot change (in the Rust code `peek_n` takes `&mut self`; that
it leaves the iterator untouched is what the correspondence run checks at every point of every
history). The value is `peekSpec`: the first `n` tokens of the reference scan from the cursor in the
current mode, cut after the first token whose type has a transition, with the classification.
-/
namespace Scnr.C11
open Scnr

theorem peek_is_spec (cfg : List ModeCfg) (find : Finder) (hf : FinderOK find) (it : Iter) (n : Nat) :
    it.peekN cfg find n = peekSpec cfg find it.mode it.rest (it.rel + it.offset) n :=
  peekN_eq_peekSpec cfg find hf it n

/-- The peeked matches are a prefix of what `next` delivers (same tokens, same order). -/
theorem firstN_prefix (cfg : List ModeCfg) (m n : Nat) (ts : List Tok) :
    (firstN cfg m n ts).1 <+: ts := by
  induction n generalizing ts with
  | zero => simp [firstN]
  | succ n ih =>
    cases ts with
    | nil => simp [firstN]
    | cons t ts =>
      simp only [firstN]
      cases hasTransition (modeTrans cfg m) t.tid with
      | some m' => simp
      | none => simpa using ih ts

/-- The preview stops early only at the end of the token stream or after a switching token. -/
theorem firstN_length (cfg : List ModeCfg) (m n : Nat) (ts : List Tok) :
    (firstN cfg m n ts).1.length ≤ n ∧
    ((firstN cfg m n ts).2 = none → (firstN cfg m n ts).1.length = min n ts.length) := by
  induction n generalizing ts with
  | zero => simp [firstN]
  | succ n ih =>
    cases ts with
    | nil => simp [firstN]
    | cons t ts =>
      simp only [firstN]
      cases hasTransition (modeTrans cfg m) t.tid with
      | some m' => simp
      | none =>
        obtain ⟨h1, h2⟩ := ih ts
        simp only [List.length_cons]
        exact ⟨by omega, fun h => by have := h2 h; omega⟩

/-- A switch is reported exactly for the last peeked token, with its target mode. -/
theorem firstN_switch (cfg : List ModeCfg) (m n : Nat) (ts : List Tok) (m' : Nat)
    (h : (firstN cfg m n ts).2 = some m') :
    ∃ t, (firstN cfg m n ts).1.getLast? = some t ∧ hasTransition (modeTrans cfg m) t.tid = some m' := by
  induction n generalizing ts with
  | zero => simp [firstN] at h
  | succ n ih =>
    cases ts with
    | nil => simp [firstN] at h
    | cons t ts =>
      simp only [firstN] at h ⊢
      cases ht : hasTransition (modeTrans cfg m) t.tid with
      | some m'' =>
        simp only [ht] at h ⊢
        exact ⟨t, by simp, by rw [ht]; exact congrArg some (Option.some.inj h)⟩
      | none =>
        simp only [ht] at h ⊢
        obtain ⟨t', h1, h2⟩ := ih ts h
        refine ⟨t', ?_, h2⟩
        cases hl : (firstN cfg m n ts).1 with
        | nil => rw [hl] at h1; simp at h1
        | cons a r => rw [hl] at h1; simp [List.getLast?_cons_cons] at h1 ⊢; exact h1

/-! Non-vacuity: finder `a` ↦ 1, `b` ↦ 2 (switching), input `xa ab a`. -/
def exCfg : List ModeCfg := [⟨[], [(2, 1)]⟩, ⟨[], []⟩]
def exFind : Finder := fun _ w =>
  match w with | 97 :: _ => some (1, 1) | 98 :: _ => some (2, 1) | _ => none
example : (Iter.new [120, 97, 32, 97, 98, 32, 97]).peekN exCfg exFind 2 = .matches [⟨1, 1, 2⟩, ⟨1, 3, 4⟩] := by
  decide
example : (Iter.new [120, 97, 32, 97, 98, 32, 97]).peekN exCfg exFind 5 =
    .modeSwitch [⟨1, 1, 2⟩, ⟨1, 3, 4⟩, ⟨2, 4, 5⟩] 1 := by decide
example : (Iter.new [120, 120]).peekN exCfg exFind 2 = .notFound := by decide
example : (Iter.new [120, 97]).peekN exCfg exFind 2 = .reachedEnd [⟨1, 1, 2⟩] := by decide

end Scnr.C11
