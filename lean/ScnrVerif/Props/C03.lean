import ScnrVerif.Proofs.Equiv
import ScnrVerif.Proofs.Minimize
import ScnrVerif.Proofs.MinimizeTerm
/-!
# C03 — minimization preserves what is recognised

`pair_sound`: if the verified check accepts a candidate set for two automata over the same class
tables (including the initial pair), then for **every word** (the empty one included) and every
terminal both automata accept alike. `bin/check C03` runs it on every `(input, output)` pair of
`Minimizer::minimize` recorded while this run's scanners were built (hook `take_minimizer_log`), and
additionally checks that the output has no more states than the input. Both runs start in state 0,
so "the first state is still the start state" is part of the statement.
-/
namespace Scnr.C03
open Scnr

theorem reps_cover (T : List (List (Nat × Nat))) (A B : Dfa) :
    RepsCover (dfaSys A (cmT T)) (dfaSys B (cmT T)) (mkReps T) := by
  intro c
  obtain ⟨r, hr, h⟩ := mkReps_cover T c
  have hc := cmT_congr_of_tables (Ts := T) (T := T) (fun t ht => ht) h
  exact ⟨r, hr, fun S => dfaSys_step_congr A (cmT T) hc S, fun S => dfaSys_step_congr B (cmT T) hc S⟩

theorem acc_eq_iff (A B : Dfa) (cm) (w : List Nat)
    (h : (dfaSys A cm).acc ((dfaSys A cm).run [0] w) = (dfaSys B cm).acc ((dfaSys B cm).run [0] w)) (t : Nat) :
    acceptsTid A cm w t ↔ acceptsTid B cm w t := by
  rw [← dfaSys_acc_run, ← dfaSys_acc_run, h]

/-- **Soundness of the per-pair verdict**: equal behaviour on every word, for every terminal. -/
theorem pair_sound (T : List (List (Nat × Nat))) (A B : Dfa)
    (V : Array (List Nat × List Nat)) (h0 : Array Nat) (hs : Array (Array Nat))
    (h : closedCheckH (dfaSys A (cmT T)) (dfaSys B (cmT T)) (mkReps T) [0] [0] true V h0 hs = true)
    (w : List Nat) (t : Nat) :
    acceptsTid A (cmT T) w t ↔ acceptsTid B (cmT T) w t := by
  obtain ⟨hc, hi⟩ := closedCheckH_closed h
  apply acc_eq_iff
  by_cases hw : w = []
  · subst hw; exact hi rfl
  · exact closed_sound hc (reps_cover T A B) w hw

/-! ## Track A: the Lean model of `minimizer.rs` itself

`Model/Minimize.lean` mirrors `Minimizer::minimize` step by step; on every run it must reproduce the
logged output of the real minimizer *exactly* (state numbering, accepting flags, transition order).
`quotient_preserves`: for **every** automaton and every partition that covers the states, is
disjoint, homogeneous and stable, the quotient built by `create_from_partition` accepts every word
for the same terminals. `model_minimize_preserves`: hence the model of the whole minimizer preserves
acceptance for every automaton whose final partition passes the executable check (run per logged
automaton by `bin/check C03`; it fails only if the refinement loop ended in an unstable partition). -/

theorem quotient_preserves (A : Dfa) (P : List (List Nat)) (hp : GoodPartition A P) (hn : 0 < A.trans.length)
    (cm : Nat → Nat → Bool) (w : List Nat) (t : Nat) :
    acceptsTid (createFromPartition A P) cm w t ↔ acceptsTid A cm w t :=
  createFromPartition_preserves A P hp hn cm w t

theorem model_minimize_preserves (A : Dfa) (hc : goodPartitionCheck A (finalPartition A) = true)
    (hn : 0 < A.trans.length) (cm : Nat → Nat → Bool) (w : List Nat) (t : Nat) :
    acceptsTid (minimize A) cm w t ↔ acceptsTid A cm w t := minimize_preserves A hc hn cm w t

/-- **All automata, no side condition on the computation**: the model of `Minimizer::minimize`
    (initial partition, refinement to a fixpoint — reached within `numStates` rounds —, quotient)
    accepts every word for exactly the same terminals as its input, for every automaton whose
    transition targets are states and whose start state is not accepting. -/
theorem model_minimize_preserves_all (A : Dfa) (hn : 0 < A.trans.length) (h0 : A.isEnd 0 = false)
    (htar : ∀ s cc t, (cc, t) ∈ A.outs s → t < A.trans.length)
    (cm : Nat → Nat → Bool) (w : List Nat) (t : Nat) :
    acceptsTid (minimize A) cm w t ↔ acceptsTid A cm w t :=
  minimize_preserves_all A hn h0 htar cm w t

/-- executable form of the hypotheses (evaluated by the driver on every logged input) -/
def minimizeHyps (A : Dfa) : Bool :=
  decide (0 < A.trans.length) && !A.isEnd 0 && A.trans.all fun ts => ts.all fun p => decide (p.2 < A.trans.length)

/-- **decision by the minimizer theorem** (executed by the driver on every logged pair): if the
    logged output is, as data, what the model computes from the logged input, the pair preserves
    acceptance of every word and does not add states — no exploration, no bound -/
theorem decided_by_minimizer_theorem (A B : Dfa) (hB : B = minimize A) (hh : minimizeHyps A = true)
    (cm : Nat → Nat → Bool) (w : List Nat) (t : Nat) :
    (acceptsTid B cm w t ↔ acceptsTid A cm w t) ∧ B.trans.length ≤ A.trans.length := by
  simp only [minimizeHyps, Bool.and_eq_true, decide_eq_true_eq, Bool.not_eq_true', List.all_eq_true] at hh
  obtain ⟨⟨hn, h0⟩, htar⟩ := hh
  have htar' : ∀ s cc t', (cc, t') ∈ A.outs s → t' < A.trans.length := by
    intro s cc t' hm
    obtain ⟨ts, hts, hp⟩ := outs_mem_trans A s (cc, t') hm
    exact htar ts hts (cc, t') hp
  subst hB
  exact ⟨minimize_preserves_all A hn h0 htar' cm w t, minimize_states_le A hn h0⟩

/-- ... and never has more states. -/
theorem model_minimize_states_le (A : Dfa) (hn : 0 < A.trans.length) (h0 : A.isEnd 0 = false) :
    (minimize A).trans.length ≤ A.trans.length := minimize_states_le A hn h0

/-- the refinement loop of the model stops at a fixpoint -/
theorem model_loop_reaches_fixpoint (A : Dfa) (hn : 0 < A.trans.length) (h0 : A.isEnd 0 = false) :
    refine A (finalPartition A) = finalPartition A :=
  refineLoop_fixpoint A _ _ (initialPartition_inv2 A hn h0) (by omega)

theorem partition_check_sound (A : Dfa) (P : List (List Nat)) (h : goodPartitionCheck A P = true) :
    GoodPartition A P := goodPartitionCheck_sound A P h

/-! Non-vacuity: `a|aa*` style automaton with two equivalent accepting states and its quotient. -/
def exT : List (List (Nat × Nat)) := [[(97, 97)]]
def exA : Dfa := { trans := [[(0, 1)], [(0, 2)], [(0, 2)]], ends := [(false, 0), (true, 0), (true, 0)], prio := [0] }
def exB : Dfa := { trans := [[(0, 1)], [(0, 1)]], ends := [(false, 0), (true, 0)], prio := [0] }
def exV : List (List Nat × List Nat) :=
  (explore (dfaSys exA (cmT exT)) (dfaSys exB (cmT exT)) (mkReps exT) 50 [([0], [0])] []).getD []
example : closedCheck (dfaSys exA (cmT exT)) (dfaSys exB (cmT exT)) (mkReps exT) [0] [0] true exV = true := by
  decide
/-- a wrong merge (accepting and non-accepting state) is rejected -/
def exBad : Dfa := { trans := [[(0, 0)]], ends := [(true, 0)], prio := [0] }
example : closedCheck (dfaSys exA (cmT exT)) (dfaSys exBad (cmT exT)) (mkReps exT) [0] [0] true
    ((explore (dfaSys exA (cmT exT)) (dfaSys exBad (cmT exT)) (mkReps exT) 50 [([0], [0])] []).getD []) = false := by
  decide

example : minimize exA = exB := by decide
example : goodPartitionCheck exA (finalPartition exA) = true := by decide
example : finalPartition exA = [[0], [1, 2]] := by decide

end Scnr.C03
