import ScnrVerif.Proofs.Iter
/-!
# C07 — token streams are well-formed and scanning always makes progress

For the iterator model over **any** finder satisfying `FinderOK` (a reported match is a non-empty
prefix of the remaining text); `modelFinder_ok` shows that the model of `find_from` on any dumped
automata is such a finder, so nullable patterns never yield empty tokens. The model functions are
total: there is no panic outcome for any iterator state reachable through the API with offsets on
character boundaries. (Panics of the real crate are observed by `catch_unwind` in the
correspondence run; resource exhaustion is outside the model.)
-/
namespace Scnr.C07
open Scnr

theorem model_finder_is_ok (Ms : List ModeDfa) (cm : Nat → Nat → Bool) :
    FinderOK (modelFinder Ms cm) := modelFinder_ok Ms cm

/-- Every reported span is non-empty, lies within the input on character boundaries, starts at or
    after the cursor (hence after the end of the previous token) and the cursor moves to its end. -/
theorem next_token_wellformed (cfg : List ModeCfg) (find : Finder) (hf : FinderOK find) (it : Iter)
    (hi : it.Inv) (it' : Iter) (t : Tok) (h : it.next cfg find = (it', some t)) :
    t.start < t.stop ∧ t.stop ≤ bytesLen it.input ∧
    isBoundary it.input t.start = true ∧ isBoundary it.input t.stop = true ∧
    it.cursor ≤ t.start ∧ it'.cursor = t.stop ∧ it'.Inv ∧ it'.rest.length < it.rest.length := by
  have ho := next_outcome cfg find hf it hi.lastPos
  have hinv := next_inv cfg find hf it hi
  rw [h] at ho hinv
  obtain ⟨p, hp, hpl⟩ := hi.pre
  cases ho with
  | token _ sk u v tid hr hu _ _ hrest hrel _ hoff _ _ =>
    have hb := bytesLen_pos hu
    have hin : it.input = (p ++ sk) ++ (u ++ v) := by rw [hp, hr]; simp
    have hin2 : it.input = (p ++ sk ++ u) ++ v := by rw [hp, hr]; simp
    have hlen : bytesLen it.input = bytesLen p + bytesLen sk + bytesLen u + bytesLen v := by
      rw [hin2]; simp only [bytesLen_append]
    refine ⟨by simp only; omega, by simp only; omega, ?_, ?_, by simp only [Iter.cursor]; omega,
      by simp only [Iter.cursor]; omega, hinv, ?_⟩
    · have := isBoundary_append (p ++ sk) (u ++ v)
      rw [← hin, bytesLen_append] at this
      simp only; rw [← hpl]; exact this
    · have := isBoundary_append (p ++ sk ++ u) v
      rw [← hin2, bytesLen_append, bytesLen_append] at this
      simp only; rw [← hpl]; exact this
    · rw [hrest, hr]
      simp only [List.length_append]
      have : 0 < u.length := by
        cases u with
        | nil => exact absurd rfl hu
        | cons a u => simp
      omega

/-- After `None` the iterator keeps returning `None`. -/
theorem next_fused (cfg : List ModeCfg) (find : Finder) (hf : FinderOK find) (it : Iter)
    (hi : it.Inv) (it' : Iter) (h : it.next cfg find = (it', none)) :
    (it'.next cfg find).2 = none := by
  have ho := next_outcome cfg find hf it hi.lastPos
  have hinv := next_inv cfg find hf it hi
  rw [h] at ho hinv
  cases ho with
  | exhausted _ _ hrest _ _ _ _ _ =>
    have ho' := next_outcome cfg find hf it' hinv.lastPos
    generalize it'.next cfg find = r at ho'
    cases ho' with
    | exhausted _ _ _ _ _ _ _ _ => rfl
    | token _ sk u v tid hr hu _ _ _ _ _ _ _ _ =>
      rw [hrest] at hr
      have : u = [] := by
        cases sk <;> cases u <;> simp at hr ⊢
      exact absurd this hu

/-- Iteration yields at most one token per remaining input character. -/
theorem tokens_le_chars (cfg : List ModeCfg) (find : Finder) (hf : FinderOK find) (n : Nat) (it : Iter)
    (hi : it.Inv) : (Iter.run cfg find n it).length ≤ it.rest.length := by
  induction n generalizing it with
  | zero => simp [Iter.run]
  | succ n ih =>
    unfold Iter.run
    cases hn : it.next cfg find with
    | mk it' r =>
      cases r with
      | none => simp
      | some t =>
        obtain ⟨_, _, _, _, _, _, hinv, hlt⟩ := next_token_wellformed cfg find hf it hi it' t hn
        have := ih it' hinv
        simp only [List.length_cons]
        omega

/-- A fresh iterator satisfies the invariant. -/
theorem new_inv (input : List Nat) : (Iter.new input).Inv := Iter.new_inv input

/-! Non-vacuity: the nullable pattern `a*` (terminal 0; start state not accepting) on `ba`. -/
def exCm : Nat → Nat → Bool := cmT [[(97, 97)]]
def exModes : List ModeDfa :=
  [{ dfa := { trans := [[(0, 1)], [(0, 1)]], ends := [(false, 0), (true, 0)], prio := [0] }, las := [] }]
example : Iter.run [⟨[], []⟩] (modelFinder exModes exCm) 5 (Iter.new [98, 97]) = [⟨0, 1, 2⟩] := by decide

end Scnr.C07
