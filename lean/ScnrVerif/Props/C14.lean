import ScnrVerif.Proofs.World
import ScnrVerif.Proofs.Lock
/-!
# C14 — building and scanning are thread-safe (partial: bookkeeping only)

Model at lock granularity: `build` is one atomic step (the Rust code holds the exclusive `RwLock`
guard for the whole of `ScannerCache::get`), every other call touches components owned by the
calling thread. `interleaving_independent`: in **every** interleaving of a thread's operations with
operations of other threads (which use other scanner/iterator slots but the *same* cache), the
thread observes exactly the outputs of its own program run alone. No step of the model is ever
disabled (each `World.step` is a total function), so the model has no deadlock.

What the theorem cannot exhibit: the memory model, data races on shared memory, lock poisoning,
the soundness of the `unsafe` dereference in `ScannerCache::get`. These are exercised by the
N-thread stress run of `bin/check C14` (and the compile-time `Send + Sync` assertions).
-/
namespace Scnr.C14
open Scnr

theorem interleaving_independent (compile cfgOf findOf) (own : Nat → Bool) (ops : List Op)
    (hops : ∀ o ∈ ops, o.within own = true ∨ o.within (fun x => !own x) = true) :
    outputsOf own ops (World.run compile cfgOf findOf World.empty ops).2 =
      (World.run compile cfgOf findOf World.empty (ops.filter (·.within own))).2 :=
  Scnr.interleaving_independent compile cfgOf findOf own ops hops World.empty World.empty
    ⟨(fun p hp => by cases hp), (fun p hp => by cases hp), (fun _ _ => rfl), (fun _ _ => rfl)⟩

/-- every step is enabled: the step function is total (no blocking state exists in the model) -/
theorem no_deadlock (compile cfgOf findOf) (w : World) (o : Op) :
    ∃ w' out, World.step compile cfgOf findOf w o = (w', out) := ⟨_, _, rfl⟩

/-! Non-vacuity: thread A (slots < 10) builds config 1 and scans; thread B builds the same config. -/
def exFind : CompId → Finder := fun _ _ w => match w with | 97 :: _ => some (1, 1) | _ => none
def exOps : List Op :=
  [.build 10 1, .build 0 1, .findIter 10 10 [97], .findIter 0 0 [97, 97], .iter 10 .next, .iter 0 .next, .iter 0 .next]
example : outputsOf (fun s => s < 10) exOps
    (World.run (fun c => some c) (fun _ => [⟨[], []⟩]) exFind World.empty exOps).2 =
    [.built 1, .none, .tok (some ⟨1, 0, 1⟩), .tok (some ⟨1, 1, 2⟩)] := by decide


/-! ## Lock granularity (`Model/Lock.lean`)

`build` = block on `SCANNER_CACHE.write()`, run `ScannerCache::get` under the exclusive guard, drop
the guard. For every reachable state of the small-step model (any number of threads, any schedule): -/

/-- at most one thread is inside the critical section, and it is the one recorded as lock holder -/
theorem lock_mutual_exclusion {compile cfgOf findOf} (s : LState) (hr : Reachable compile cfgOf findOf s) :
    (∀ t, (s.phaseOf t).critical = true ↔ s.lock = some t) ∧
    (∀ t u, (s.phaseOf t).critical = true → (s.phaseOf u).critical = true → t = u) ∧
    (s.lock = none → ∀ t, (s.phaseOf t).critical = false) :=
  Scnr.lock_mutual_exclusion compile cfgOf findOf s hr

/-- linearizability: the shared world and all outputs are those of the *atomic* model run on the calls
    in the order of their linearization points, which lie between invocation and return of each call
    (per thread: observed ⊑ linearized ⊑ program, differing by at most the call in flight) -/
theorem lock_refines_atomic {compile cfgOf findOf} (s : LState) (hr : Reachable compile cfgOf findOf s) :
    s.world = (World.run compile cfgOf findOf World.empty s.linOps).1 ∧
    s.linOuts = (World.run compile cfgOf findOf World.empty s.linOps).2 ∧
    (∀ t, s.program t = (s.linearized t).map (·.1) ++ (s.phaseOf t).pendingCall) ∧
    (∀ t, s.linearized t = s.observed t ++ (s.phaseOf t).pendingRet) ∧
    (∀ e ∈ s.trace, e ∈ s.lin) :=
  Scnr.lock_refines_atomic compile cfgOf findOf s hr

/-- no deadlock: the holder can always continue; with the lock free every waiting thread can acquire -/
theorem lock_deadlock_free {compile cfgOf findOf} (s : LState) (hr : Reachable compile cfgOf findOf s) :
    (∀ h, s.lock = some h → s.enabled (.body h) = true ∨ s.enabled (.release h) = true) ∧
    (s.lock = none → ∀ t, s.phaseOf t ≠ .idle → s.enabled (.acquire t) = true) ∧
    ((∃ t, s.phaseOf t ≠ .idle) → ∃ e, e.isCall = false ∧ s.enabled e = true) :=
  Scnr.lock_deadlock_free compile cfgOf findOf s hr

/-- progress: at most three lock events per pending call bring every thread back to idle -/
theorem lock_progress {compile cfgOf findOf} (s : LState) (hr : Reachable compile cfgOf findOf s) :
    ∃ evs : List LEvent, evs.length ≤ 3 * s.nonIdle ∧ s.legal compile cfgOf findOf evs = true ∧
      (∀ e ∈ evs, e.isCall = false) ∧
      ∀ t, (s.runEvents compile cfgOf findOf evs).phaseOf t = .idle :=
  Scnr.lock_progress compile cfgOf findOf s hr

/-- every thread observes exactly the outputs of its own program run alone, in every lock-level
    execution (threads use their own scanner / iterator slots and share the cache) -/
theorem lock_thread_view {compile cfgOf findOf} (s : LState) (hr : Reachable compile cfgOf findOf s) (t : Nat)
    (own : Nat → Bool)
    (hown : ∀ u op, (u, op) ∈ s.calls →
      if u = t then op.within own = true else op.within (fun x => !own x) = true) :
    (s.observed t).map (·.2) =
      (World.run compile cfgOf findOf World.empty ((s.observed t).map (·.1))).2 ∧
    s.program t = (s.observed t).map (·.1) ++ (s.phaseOf t).pendingOps ∧
    (s.phaseOf t = .idle →
      (s.observed t).map (·.2) = (World.run compile cfgOf findOf World.empty (s.program t)).2) :=
  Scnr.lock_thread_view compile cfgOf findOf s hr t own hown

end Scnr.C14
