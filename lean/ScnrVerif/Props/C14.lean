import ScnrVerif.Proofs.World
/-!
# C14 — building and scanning are thread-safe (partial: bookkeeping only)

Model at lock granularity: `build` is one atomic step (the Rust code holds the exclusive `RwLock`
guard for the whole of `ScannerCache::get`), every other call touches components owned by the
calling thread. `interleaving_independent`: in **every** interleaving of a thread's operations with
operations of other threads (which use other scanner/iterator slots but the *same* cache), the
thread observes exactly the outputs of its own program run alone. No step of the model is ever
disabled (each `World.step` is a total function), so the model has no deadlock.

What the theorem cannot exhibit: the memory model, data races on shared memory, lock poisoning,
the soundness of the `unsafe` dereference in `ScannerCache::get`. These are exercised by the
N-thread stress run of `bin/check C14` (and the compile-time `Send + Sync` assertions).
-/
namespace Scnr.C14
open Scnr

theorem interleaving_independent (compile cfgOf findOf) (own : Nat → Bool) (ops : List Op)
    (hops : ∀ o ∈ ops, o.within own = true ∨ o.within (fun x => !own x) = true) :
    outputsOf own ops (World.run compile cfgOf findOf World.empty ops).2 =
      (World.run compile cfgOf findOf World.empty (ops.filter (·.within own))).2 :=
  Scnr.interleaving_independent compile cfgOf findOf own ops hops World.empty World.empty
    ⟨(fun p hp => by cases hp), (fun p hp => by cases hp), (fun _ _ => rfl), (fun _ _ => rfl)⟩

/-- every step is enabled: the step function is total (no blocking state exists in the model) -/
theorem no_deadlock (compile cfgOf findOf) (w : World) (o : Op) :
    ∃ w' out, World.step compile cfgOf findOf w o = (w', out) := ⟨_, _, rfl⟩

/-! Non-vacuity: thread A (slots < 10) builds config 1 and scans; thread B builds the same config. -/
def exFind : CompId → Finder := fun _ _ w => match w with | 97 :: _ => some (1, 1) | _ => none
def exOps : List Op :=
  [.build 10 1, .build 0 1, .findIter 10 10 [97], .findIter 0 0 [97, 97], .iter 10 .next, .iter 0 .next, .iter 0 .next]
example : outputsOf (fun s => s < 10) exOps
    (World.run (fun c => some c) (fun _ => [⟨[], []⟩]) exFind World.empty exOps).2 =
    [.built 1, .none, .tok (some ⟨1, 0, 1⟩), .tok (some ⟨1, 1, 2⟩)] := by decide

end Scnr.C14
