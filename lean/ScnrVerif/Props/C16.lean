import ScnrVerif.Model.Json
/-!
# C16 — scanner configurations and matches survive serialization unchanged (partial)

Round trips on JSON *value trees* for every list of modes (names, patterns with token types and
optional positive or negative lookaheads, transitions, any strings), `Match`, `MatchExt`, `Span`,
`Position`; `lookahead` is omitted exactly when absent; the README layout is accepted. PARTIAL: the
JSON text layer (escaping of quotes, backslashes, control and non-ASCII characters) and the derive
expansion are serde_json's / serde's; the correspondence run compares `to_value`/`from_value` of the
real types with these functions and checks `from_str(to_string(x)) == x` on the implementation.
-/
namespace Scnr.C16
open Scnr

theorem asUsize_num (n : Nat) (h : n < 18446744073709551616) : asUsize (.num n) = some n := by
  simp only [asUsize, h, if_true]

theorem key_beq (a b : Key) : (a == b) = decide (a = b) := rfl

theorem lookahead_roundtrip (l : LookaheadC) : fromJsonLookahead (toJsonLookahead l) = some l := by
  simp [fromJsonLookahead, toJsonLookahead, field, List.lookup, asBool, asStr, key_beq]

theorem pattern_roundtrip (p : PatternC) (h : p.tokenType < 18446744073709551616) :
    fromJsonPattern (toJsonPattern p) = some p := by
  obtain ⟨pat, t, la⟩ := p
  cases la with
  | none =>
    simp only [toJsonPattern, fromJsonPattern, List.append_nil, field, List.lookup]
    simp [asStr, asUsize_num t h, key_beq]
  | some l =>
    simp only [toJsonPattern, fromJsonPattern, field, List.lookup, List.cons_append, List.nil_append]
    simp only [key_beq, reduceCtorEq, decide_false, decide_true]
    simp [asStr, asUsize_num t h, toJsonLookahead, fromJsonLookahead, field, List.lookup, asBool, key_beq]

theorem transition_roundtrip (t : Nat × Nat) (h1 : t.1 < 18446744073709551616) (h2 : t.2 < 18446744073709551616) :
    fromJsonTransition (toJsonTransition t) = some t := by
  simp [fromJsonTransition, toJsonTransition, asUsize_num _ h1, asUsize_num _ h2]

theorem mapM_roundtrip {α : Type} (f : α → Json) (g : Json → Option α) (l : List α)
    (h : ∀ x ∈ l, g (f x) = some x) : (l.map f).mapM g = some l := by
  induction l with
  | nil => rfl
  | cons x xs ih =>
    simp only [List.map, List.mapM_cons]
    rw [h x (by simp), ih (fun y hy => h y (List.mem_cons_of_mem _ hy))]
    rfl

theorem mode_roundtrip (m : ModeC) (h : m.inRange = true) : fromJsonMode (toJsonMode m) = some m := by
  obtain ⟨n, ps, ts⟩ := m
  simp only [ModeC.inRange, Bool.and_eq_true, List.all_eq_true, decide_eq_true_eq] at h
  simp only [toJsonMode, fromJsonMode, field, List.lookup]
  simp only [key_beq, reduceCtorEq, decide_false, decide_true]
  simp only [Option.bind, asStr]
  rw [mapM_roundtrip toJsonPattern fromJsonPattern ps (fun p hp => pattern_roundtrip p (h.1 p hp)),
    mapM_roundtrip toJsonTransition fromJsonTransition ts (fun t ht => transition_roundtrip t (h.2 t ht).1 (h.2 t ht).2)]

/-- **Round trip** of every configuration whose numbers fit `usize`. -/
theorem modes_roundtrip (ms : List ModeC) (h : ∀ m ∈ ms, m.inRange = true) :
    fromJsonModes (toJsonModes ms) = some ms := by
  simp only [toJsonModes, fromJsonModes]
  exact mapM_roundtrip toJsonMode fromJsonMode ms (fun m hm => mode_roundtrip m (h m hm))

/-- `lookahead` is written exactly when present, and an absent or `null` key reads as `None`. -/
theorem lookahead_omitted (p : PatternC) :
    (field (match toJsonPattern p with | .obj kvs => kvs | _ => []) .lookahead).isSome = p.lookahead.isSome := by
  obtain ⟨pat, t, la⟩ := p
  cases la <;> simp [toJsonPattern, field, List.lookup, key_beq]

theorem span_roundtrip (s : SpanC) (h1 : s.start < 18446744073709551616) (h2 : s.stop < 18446744073709551616) :
    fromJsonSpan (toJsonSpan s) = some s := by
  simp only [toJsonSpan, fromJsonSpan, field, List.lookup]
  simp only [key_beq, reduceCtorEq, decide_false, decide_true]
  simp [asUsize_num _ h1, asUsize_num _ h2]

theorem position_roundtrip (p : PositionC) (h1 : p.line < 18446744073709551616) (h2 : p.column < 18446744073709551616) :
    fromJsonPosition (toJsonPosition p) = some p := by
  simp only [toJsonPosition, fromJsonPosition, field, List.lookup]
  simp only [key_beq, reduceCtorEq, decide_false, decide_true]
  simp [asUsize_num _ h1, asUsize_num _ h2]

theorem match_roundtrip (m : MatchC) (h0 : m.tokenType < 18446744073709551616)
    (h1 : m.span.start < 18446744073709551616) (h2 : m.span.stop < 18446744073709551616) :
    fromJsonMatch (toJsonMatch m) = some m := by
  simp only [toJsonMatch, fromJsonMatch, field, List.lookup]
  simp only [key_beq, reduceCtorEq, decide_false, decide_true]
  simp [asUsize_num _ h0, span_roundtrip m.span h1 h2]

theorem matchExt_roundtrip (m : MatchExtC) (h0 : m.tokenType < 18446744073709551616)
    (h1 : m.span.start < 18446744073709551616) (h2 : m.span.stop < 18446744073709551616)
    (h3 : m.startPosition.line < 18446744073709551616) (h4 : m.startPosition.column < 18446744073709551616)
    (h5 : m.endPosition.line < 18446744073709551616) (h6 : m.endPosition.column < 18446744073709551616) :
    fromJsonMatchExt (toJsonMatchExt m) = some m := by
  simp only [toJsonMatchExt, fromJsonMatchExt, field, List.lookup]
  simp only [key_beq, reduceCtorEq, decide_false, decide_true]
  simp [asUsize_num _ h0, span_roundtrip m.span h1 h2, position_roundtrip _ h3 h4, position_roundtrip _ h5 h6]

/-! The README layout (fields in README order, `lookahead` present on one pattern, an unknown extra
    field) is accepted. Strings abbreviated to single characters. -/
def readmeTree : Json :=
  .arr [.obj [(.name, .str [73]),
              (.patterns, .arr [.obj [(.pattern, .str [97]), (.tokenType, .num 1)],
                                .obj [(.pattern, .str [98]), (.tokenType, .num 2),
                                      (.lookahead, .obj [(.isPositive, .bool false), (.pattern, .str [99])])]]),
              (.transitions, .arr [.arr [.num 1, .num 1]]), (.other [120], .null)]]
example : fromJsonModes readmeTree =
    some [⟨[73], [⟨[97], 1, none⟩, ⟨[98], 2, some ⟨false, [99]⟩⟩], [(1, 1)]⟩] := by decide
example : fromJsonPattern (.obj [(.pattern, .str [97]), (.tokenType, .float)]) = none := by decide
example : fromJsonPattern (.obj [(.pattern, .str [97]), (.tokenType, .num 3), (.lookahead, .null)]) =
    some ⟨[97], 3, none⟩ := by decide

end Scnr.C16
