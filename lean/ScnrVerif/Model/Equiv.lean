import ScnrVerif.Model.Dfa
import ScnrVerif.Model.Regex
/-!
# The verified equivalence checker (executable part)

Two deterministic *acceptor systems* over code points — the dumped automaton run on state sets, and
the pattern list run on sets of Antimirov partial derivatives — are compared by checking that a
candidate set `V` of state pairs is closed under the representatives of the alphabet partition
induced by all class tables and that acceptance agrees on `V`. `explore` (untrusted) produces `V`;
`closedCheck` is the function whose soundness is proved in `Proofs/Equiv.lean`.
-/
namespace Scnr

structure Sys (σ : Type) where
  step : Nat → σ → σ
  /-- accepted terminals, in canonical (sorted, duplicate-free) form -/
  acc : σ → List Nat

def Sys.run {σ : Type} (X : Sys σ) : σ → List Nat → σ
  | s, [] => s
  | s, c :: w => Sys.run X (X.step c s) w

/-! ## canonical lists -/

def insertBy {α : Type} [DecidableEq α] (lt : α → α → Bool) (x : α) : List α → List α
  | [] => [x]
  | y :: r => if x = y then y :: r else if lt x y then x :: y :: r else y :: insertBy lt x r

def normBy {α : Type} [DecidableEq α] (lt : α → α → Bool) (l : List α) : List α :=
  l.foldl (fun acc x => insertBy lt x acc) []

def normNat (l : List Nat) : List Nat := normBy (fun a b => decide (a < b)) l

def ltP (a b : Nat × Re) : Bool :=
  match compare a.1 b.1 with
  | .lt => true
  | .gt => false
  | .eq => compare a.2 b.2 == .lt

def normP (l : List (Nat × Re)) : List (Nat × Re) := normBy ltP l

/-! ## the two systems -/

def dfaSys (A : Dfa) (cm : Nat → Nat → Bool) : Sys (List Nat) where
  step c S := normNat (stepStates A cm c S)
  acc S := normNat ((S.filter A.isEnd).map A.tidOf)

def reSys (cm : Nat → Nat → Bool) : Sys (List (Nat × Re)) where
  step c D := normP (D.flatMap fun p => (pderiv cm c p.2).map fun r => (p.1, r))
  acc D := normNat ((D.filter fun p => p.2.nullable).map (·.1))

/-! ## representatives of the alphabet partition -/

/-- `0` and both ends (`lo`, `hi + 1`) of every range of every table. -/
def boundariesOf (Ts : List (List (Nat × Nat))) : List Nat :=
  0 :: Ts.flatMap fun t => t.flatMap fun p => [p.1, p.2 + 1]

/-- membership vector of a code point -/
def sigOf (Ts : List (List (Nat × Nat))) (c : Nat) : List Bool := Ts.map fun t => inRanges t c

/-- keep the first representative of every membership vector (vectors computed once) -/
def dedupSig : List (Nat × List Bool) → List (Nat × List Bool) → List (Nat × List Bool)
  | [], acc => acc
  | r :: rs, acc =>
    if acc.any (fun a => a.2 == r.2) then dedupSig rs acc else dedupSig rs (r :: acc)

def mkReps (Ts : List (List (Nat × Nat))) : List Nat :=
  (dedupSig ((boundariesOf Ts).map fun b => (b, sigOf Ts b)) []).map (·.1)

/-! ## the check -/

/-- `V` is closed under the representatives from every pair and from the initial pair, and
    acceptance agrees on every pair of `V` (and on the initial pair if `initToo`). -/
def closedCheck {σ τ : Type} [DecidableEq σ] [DecidableEq τ] (X : Sys σ) (Y : Sys τ) (reps : List Nat)
    (x0 : σ) (y0 : τ) (initToo : Bool) (V : List (σ × τ)) : Bool :=
  reps.all (fun r => V.contains (X.step r x0, Y.step r y0)) &&
  V.all (fun p => X.acc p.1 == Y.acc p.2 &&
    reps.all (fun r => V.contains (X.step r p.1, Y.step r p.2))) &&
  (!initToo || X.acc x0 == Y.acc y0)

/-- The same check with *hints*: `V` is an array and for the initial pair (`h0`) and every pair
    (`hs[i]`) the position of the successor under the `k`-th representative is supplied by the
    untrusted explorer; one comparison per successor instead of a search. -/
def closedCheckH {σ τ : Type} [DecidableEq σ] [DecidableEq τ] (X : Sys σ) (Y : Sys τ) (reps : List Nat)
    (x0 : σ) (y0 : τ) (initToo : Bool) (V : Array (σ × τ)) (h0 : Array Nat) (hs : Array (Array Nat)) : Bool :=
  (reps.zipIdx.all fun rk => V[h0.getD rk.2 0]? == some (X.step rk.1 x0, Y.step rk.1 y0)) &&
  ((List.range V.size).all fun i =>
    match V[i]? with
    | none => false
    | some p => X.acc p.1 == Y.acc p.2 &&
      reps.zipIdx.all fun rk => V[(hs.getD i #[]).getD rk.2 0]? == some (X.step rk.1 p.1, Y.step rk.1 p.2)) &&
  (!initToo || X.acc x0 == Y.acc y0)

/-- Untrusted worklist exploration producing a candidate `V`; `none` when the fuel runs out. -/
def explore {σ τ : Type} [DecidableEq σ] [DecidableEq τ] (X : Sys σ) (Y : Sys τ) (reps : List Nat) :
    Nat → List (σ × τ) → List (σ × τ) → Option (List (σ × τ))
  | _, [], seen => some seen
  | 0, _ :: _, _ => none
  | fuel + 1, p :: work, seen =>
    let succs := reps.map fun r => (X.step r p.1, Y.step r p.2)
    let new := succs.foldl (fun acc q => if seen.contains q || acc.contains q then acc else acc ++ [q]) []
    explore X Y reps fuel (work ++ new) (seen ++ new)

/-- Shortest word (over the representatives) on which acceptance differs, for the replay. -/
def findDiff {σ τ : Type} [DecidableEq σ] [DecidableEq τ] (X : Sys σ) (Y : Sys τ) (reps : List Nat)
    (initToo : Bool) :
    Nat → List ((σ × τ) × List Nat) → List (σ × τ) → Option (List Nat)
  | _, [], _ => none
  | 0, _ :: _, _ => none
  | fuel + 1, (p, w) :: work, seen =>
    if (initToo || !w.isEmpty) && X.acc p.1 != Y.acc p.2 then some w.reverse
    else
      let succs := reps.map fun r => ((X.step r p.1, Y.step r p.2), r :: w)
      let new := succs.foldl (fun acc q =>
        if seen.contains q.1 || acc.any (fun a => a.1 == q.1) then acc else acc ++ [q]) []
      findDiff X Y reps initToo fuel (work ++ new) (seen ++ new.map (·.1))

/-- Decidable side conditions of C02 on a dumped automaton. -/
def startNotAccepting (A : Dfa) : Bool := !A.isEnd 0

def classIdsInRange (A : Dfa) (n : Nat) : Bool :=
  A.trans.all fun ts => ts.all fun p => decide (p.1 < n)

end Scnr
