/-!
# Basic vocabulary of the scnr model

Characters are Unicode code points as `Nat`, strings are `List Nat`; byte offsets are computed
with `utf8Len`. Character class tables are lists of inclusive ranges, as shipped by the harness
from an exhaustive enumeration of the real match function.
-/
namespace Scnr

/-- Number of bytes of the UTF-8 encoding of a code point (mirrors `char::len_utf8`). -/
def utf8Len (c : Nat) : Nat :=
  if c < 0x80 then 1 else if c < 0x800 then 2 else if c < 0x10000 then 3 else 4

/-- Byte length of a string of code points (mirrors `str::len`). -/
def bytesLen : List Nat → Nat
  | [] => 0
  | c :: w => utf8Len c + bytesLen w

/-- Membership of a code point in a list of inclusive ranges. -/
def inRanges (r : List (Nat × Nat)) (c : Nat) : Bool :=
  r.any fun p => p.1 ≤ c && c ≤ p.2

/-- The class match function induced by range tables (index = class id). Ids outside the table
    match nothing; the dump check `classIdsInRange` excludes them. -/
def cmT (T : List (List (Nat × Nat))) (id c : Nat) : Bool :=
  inRanges (T.getD id []) c

/-- Drop characters from the front until at least `n` bytes are dropped
    (on a character boundary exactly `n`). -/
def dropBytes : Nat → List Nat → List Nat
  | 0, w => w
  | _, [] => []
  | n + 1, c :: w => dropBytes (n + 1 - utf8Len c) w

/-- `isBoundary w n`: byte offset `n` is a character boundary of `w` (or its end). -/
def isBoundary : List Nat → Nat → Bool
  | _, 0 => true
  | [], _ + 1 => false
  | c :: w, n + 1 => utf8Len c ≤ n + 1 && isBoundary w (n + 1 - utf8Len c)

/-- The character preceding byte offset `n` (a boundary), `0` if there is none
    (mirrors `input[..offset].chars().next_back().unwrap_or('\0')`). -/
def charBefore : List Nat → Nat → Nat
  | _, 0 => 0
  | [], _ + 1 => 0
  | c :: w, n + 1 => if n + 1 ≤ utf8Len c then c else charBefore w (n + 1 - utf8Len c)

end Scnr
