import ScnrVerif.Model.Json
import ScnrVerif.Model.World
/-!
# The cache key, structurally (C13)

`ScannerCache` is a map from `Vec<ScannerMode>` to the compiled scanner; the key comparison is the
derived `PartialEq` of `ScannerMode` / `Pattern` / `Lookahead`: field by field, `&&`-chained, lists
element by element with equal lengths, `Option` by constructor. This file writes that comparison
out (`keyEq`) over the configuration structures of `Model/Json.lean` (`ModeC`, `PatternC`,
`LookaheadC`: the same fields as the Rust structs) and gives the cache over structural keys
(`cacheGetK`). `Proofs/CacheKey.lean` shows that `keyEq` is equality of the whole configuration
(every field counts) and that the cache over structural keys is the cache over identifiers of
`Model/World.lean` for every injective numbering of configurations — the numbering the harness uses.
-/
namespace Scnr

def laEq (a b : LookaheadC) : Bool := a.isPositive == b.isPositive && a.pattern == b.pattern

def optLaEq : Option LookaheadC → Option LookaheadC → Bool
  | none, none => true
  | some a, some b => laEq a b
  | _, _ => false

def patEq (a b : PatternC) : Bool :=
  a.pattern == b.pattern && a.tokenType == b.tokenType && optLaEq a.lookahead b.lookahead

/-- slice equality: equal lengths and element-wise equal -/
def listEq {α : Type} (eq : α → α → Bool) : List α → List α → Bool
  | [], [] => true
  | a :: as, b :: bs => eq a b && listEq eq as bs
  | _, _ => false

def modeEq (a b : ModeC) : Bool :=
  a.name == b.name && listEq patEq a.patterns b.patterns && a.transitions == b.transitions

/-- `<[ScannerMode] as PartialEq>::eq` -/
def keyEq (a b : List ModeC) : Bool := listEq modeEq a b

abbrev CfgKey := List ModeC

def lookupK : List (CfgKey × CompId) → CfgKey → Option CompId
  | [], _ => none
  | (k', c) :: r, k => if keyEq k k' then some c else lookupK r k

/-- `ScannerCache::get` over structural keys. -/
def cacheGetK (compileK : CfgKey → Option CompId) (cache : List (CfgKey × CompId)) (k : CfgKey) :
    List (CfgKey × CompId) × Option CompId :=
  match lookupK cache k with
  | some c => (cache, some c)
  | none =>
    match compileK k with
    | some c => ((k, c) :: cache, some c)
    | none => (cache, none)

/-- Runs a sequence of cached builds, returns the cache and the results in order. -/
def runK (compileK : CfgKey → Option CompId) : List (CfgKey × CompId) → List CfgKey → List (CfgKey × CompId) × List (Option CompId)
  | cache, [] => (cache, [])
  | cache, k :: ks =>
    let r := cacheGetK compileK cache k
    let rest := runK compileK r.1 ks
    (rest.1, r.2 :: rest.2)

end Scnr
