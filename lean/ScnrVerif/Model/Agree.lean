import ScnrVerif.Model.Compile
/-!
# The pattern as the compiler model sees it against the reference pattern (track A as a decision path)

`agree T R a r`: the compiler-level AST `a` (leaves = class ids of the real registry, tables `T`) and
the reference AST `r` (leaves = reference tables `R`) have the same shape and every pair of
corresponding leaves has the same table. Then both denote the same language (`agree_sound`).
-/
namespace Scnr

mutual
def agree (T R : List (List (Nat × Nat))) : CAst → Ast → Bool
  | .empty, .empty => true
  | .leaf c, .leaf c' => T.getD c [] == R.getD c' []
  | .concat xs, .concat ys => agreeList T R xs ys
  | .alt (x :: xs), .alt (y :: ys) => agree T R x y && agreeList T R xs ys
  | .opt x, .rep 0 (some 1) y => agree T R x y
  | .star x, .rep 0 none y => agree T R x y
  | .plus x, .rep 1 none y => agree T R x y
  | .exactly n x, .rep m (some k) y => n == m && n == k && agree T R x y
  | .atLeast n x, .rep m none y => n == m && agree T R x y
  | .bounded m n x, .rep m' (some n') y => m == m' && n == n' && agree T R x y
  | _, _ => false
def agreeList (T R : List (List (Nat × Nat))) : List CAst → List Ast → Bool
  | [], [] => true
  | x :: xs, y :: ys => agree T R x y && agreeList T R xs ys
  | _, _ => false
end

/-- all patterns of a mode: same terminals in the same order, agreeing ASTs -/
def agreePats (T R : List (List (Nat × Nat))) : List (Nat × CAst) → List (Nat × Ast) → Bool
  | [], [] => true
  | (t, a) :: ps, (t', r) :: rs => t == t' && agree T R a r && agreePats T R ps rs
  | _, _ => false

end Scnr
