import ScnrVerif.Model.World
/-!
# The scanner cache at lock granularity (C14)

`Model/World.lean` treats every API call as one atomic `World.step`.  For `ScannerBuilder::build`
this is an abstraction of the Rust code

```
pub fn build(self) -> Result<Scanner> {
    Ok(Scanner { inner: SCANNER_CACHE.write().unwrap().get(&self.scanner_modes)? })
}
```

which (1) blocks on `RwLock::write()` until the exclusive guard is granted, (2) runs
`ScannerCache::get` under the guard (lookup, and on a miss compile + insert; a failing compilation
returns `Err` through `?` and inserts nothing), (3) drops the guard at the end of the statement and
returns.  This file refines the atomic model to these three steps.  `Proofs/Lock.lean` proves that
the refinement is correct: mutual exclusion, linearizability with respect to the atomic model,
deadlock freedom / progress, and the per-thread view.

## What is modelled

* **The lock protocol.**  One exclusive lock (`LState.lock`, the id of the thread holding the
  guard).  A thread that called `build` is `waiting` (blocked in `write()`), then `holding` (guard
  granted, `get` not yet run), then `done` (`get` has run, the guard is not yet dropped), then idle
  again.  `acquire` is enabled only when the lock is free; nothing else ever blocks.
* **The cache bookkeeping.**  The body of the critical section is exactly the atomic
  `World.step … (.build s cfg)` of the shared world, i.e. `cacheGet` (hit: clone of the stored
  compilation; miss: compile, insert only on success) followed by storing the scanner in the
  caller's slot.  This step is the *linearization point* of the call.
* **All other API calls** (`build_uncached`, `set_mode`/`current_mode` of a `Scanner`, `find_iter`,
  the iterator operations, dropping an iterator) take no lock and only touch objects owned by the
  calling thread; they execute as one atomic `World.step` at the `call` event.
* **Histories** (ghost state, never read by the transitions): `calls` (invocations, in invocation
  order), `lin` (linearization points, with the output computed there), `trace` (completed calls
  with the output handed to the caller, in completion order).

## What is not modelled

* the memory model: the shared world is one sequentially consistent value and every event is
  atomic; data races inside `std::sync::RwLock` or on the `Arc` reference counts are out of scope;
* read guards: the crate only ever takes the write guard of `SCANNER_CACHE`;
* lock poisoning: `write().unwrap()` panics if another thread panicked while holding the guard;
  the model has no panics (a failing compilation is an `Err` value, not a panic), so a `holding`
  thread always reaches `done`;
* fairness of the lock: `acquire` may be granted to any waiting thread (std gives no fairness
  guarantee), so the progress theorem is about the system, not about one particular waiter;
* the `unsafe` dereference / the `Arc` cloning inside `ScannerCache::get`: a compilation is
  identified by its `CompId`, sharing and ownership of the heap object are not represented.
-/
namespace Scnr

/-- Where a thread is inside an API call.  Only `build` has intermediate phases. -/
inductive LPhase where
  /-- not inside a call -/
  | idle
  /-- called `build` of configuration `cfg` into slot `s`; blocked in `SCANNER_CACHE.write()` -/
  | waiting (s : Nat) (cfg : CfgId)
  /-- owns the exclusive guard, `ScannerCache::get` has not run yet -/
  | holding (s : Nat) (cfg : CfgId)
  /-- `get` has run under the guard and produced `out`; the guard is not yet released -/
  | done (s : Nat) (cfg : CfgId) (out : Out)
deriving Repr, DecidableEq, Inhabited

/-- the thread is inside the critical section (owns the guard) -/
def LPhase.critical : LPhase → Bool
  | .holding _ _ => true
  | .done _ _ _ => true
  | _ => false

/-- the call that is invoked but not yet linearized -/
def LPhase.pendingCall : LPhase → List Op
  | .waiting s cfg => [.build s cfg]
  | .holding s cfg => [.build s cfg]
  | _ => []

/-- the call that is linearized but has not yet returned, with its output -/
def LPhase.pendingRet : LPhase → List (Op × Out)
  | .done s cfg out => [(.build s cfg, out)]
  | _ => []

/-- the call the thread is currently inside (invoked, not yet returned) -/
def LPhase.pendingOps : LPhase → List Op
  | .idle => []
  | .waiting s cfg => [.build s cfg]
  | .holding s cfg => [.build s cfg]
  | .done s cfg _ => [.build s cfg]

/-- number of lock-level events the thread still needs to finish its call -/
def LPhase.weight : LPhase → Nat
  | .idle => 0
  | .waiting _ _ => 3
  | .holding _ _ => 2
  | .done _ _ _ => 1

/-- Lock-level events.  `t` is the id of the acting thread. -/
inductive LEvent where
  /-- thread `t` (idle) invokes API call `op` -/
  | call (t : Nat) (op : Op)
  /-- `write()` returns the guard to the waiting thread `t` -/
  | acquire (t : Nat)
  /-- thread `t` runs `ScannerCache::get` under the guard: the linearization point of `build` -/
  | body (t : Nat)
  /-- thread `t` drops the guard and `build` returns -/
  | release (t : Nat)
deriving Repr, DecidableEq, Inhabited

def LEvent.isCall : LEvent → Bool
  | .call _ _ => true
  | _ => false

/-- the invocation an event stands for, if any -/
def LEvent.invocation : LEvent → Option (Nat × Op)
  | .call t op => some (t, op)
  | _ => none

structure LState where
  /-- the shared world: cache, scanners, iterators -/
  world : World
  /-- the thread owning the exclusive guard of `SCANNER_CACHE` -/
  lock : Option Nat
  /-- phase per thread id; a thread without an entry is idle -/
  phase : List (Nat × LPhase)
  /-- ghost: invocations `(thread, op)` in invocation order -/
  calls : List (Nat × Op)
  /-- ghost: `(thread, op, output)` in the order of the linearization points -/
  lin : List (Nat × Op × Out)
  /-- ghost: completed calls `(thread, op, output returned)` in completion order -/
  trace : List (Nat × Op × Out)
deriving Repr, DecidableEq, Inhabited

def LState.init : LState := ⟨World.empty, none, [], [], [], []⟩

def phaseIn (l : List (Nat × LPhase)) (t : Nat) : LPhase :=
  match l.lookup t with
  | some p => p
  | none => .idle

def LState.phaseOf (st : LState) (t : Nat) : LPhase := phaseIn st.phase t

/-- the entries of thread `t` in a thread-tagged history -/
def proj {α : Type} (t : Nat) (l : List (Nat × α)) : List α :=
  (l.filter (fun p => p.1 == t)).map (·.2)

/-- the operations in linearization order: the sequential history the execution is equivalent to -/
def LState.linOps (st : LState) : List Op := st.lin.map (·.2.1)
/-- the outputs computed at the linearization points -/
def LState.linOuts (st : LState) : List Out := st.lin.map (·.2.2)
/-- the program of thread `t` so far: its invocations in program order -/
def LState.program (st : LState) (t : Nat) : List Op := proj t st.calls
/-- the calls of thread `t` that have been linearized, with the outputs computed there -/
def LState.linearized (st : LState) (t : Nat) : List (Op × Out) := proj t st.lin
/-- what thread `t` has observed: its completed calls with the outputs returned to it -/
def LState.observed (st : LState) (t : Nat) : List (Op × Out) := proj t st.trace

/-! ## transitions -/

/-- `build` was invoked: the thread blocks in `write()` -/
def LState.beginBuild (st : LState) (t s : Nat) (cfg : CfgId) : LState :=
  { st with phase := assocSet st.phase t (.waiting s cfg), calls := st.calls ++ [(t, .build s cfg)] }

/-- a lock-free call: invocation, effect `r` on the world and return happen in one event -/
def LState.recordAtomic (st : LState) (t : Nat) (op : Op) (r : World × Out) : LState :=
  { st with world := r.1, calls := st.calls ++ [(t, op)], lin := st.lin ++ [(t, op, r.2)],
            trace := st.trace ++ [(t, op, r.2)] }

/-- the guard is granted to `t` -/
def LState.grant (st : LState) (t s : Nat) (cfg : CfgId) : LState :=
  { st with lock := some t, phase := assocSet st.phase t (.holding s cfg) }

/-- `get` ran under the guard with effect `r` on the world -/
def LState.recordBody (st : LState) (t s : Nat) (cfg : CfgId) (r : World × Out) : LState :=
  { st with world := r.1, phase := assocSet st.phase t (.done s cfg r.2),
            lin := st.lin ++ [(t, .build s cfg, r.2)] }

/-- the guard is dropped, `build` returns `out` -/
def LState.finish (st : LState) (t s : Nat) (cfg : CfgId) (out : Out) : LState :=
  { st with lock := none, phase := assocSet st.phase t .idle,
            trace := st.trace ++ [(t, .build s cfg, out)] }

def Op.isBuild : Op → Bool
  | .build _ _ => true
  | _ => false

def LState.enabled (st : LState) : LEvent → Bool
  | .call t _ => match st.phaseOf t with
    | .idle => true
    | _ => false
  | .acquire t => match st.phaseOf t, st.lock with
    | .waiting _ _, none => true
    | _, _ => false
  | .body t => match st.phaseOf t with
    | .holding _ _ => true
    | _ => false
  | .release t => match st.phaseOf t with
    | .done _ _ _ => true
    | _ => false

section
variable (compile : CfgId → Option CompId) (cfgOf : CompId → List ModeCfg) (findOf : CompId → Finder)

def LState.startCall (st : LState) (t : Nat) : Op → LState
  | .build s cfg => st.beginBuild t s cfg
  | op => st.recordAtomic t op (World.step compile cfgOf findOf st.world op)

/-- Fires an event; a disabled event leaves the state unchanged. -/
def LState.fire (st : LState) : LEvent → LState
  | .call t op => match st.phaseOf t with
    | .idle => st.startCall compile cfgOf findOf t op
    | _ => st
  | .acquire t => match st.phaseOf t, st.lock with
    | .waiting s cfg, none => st.grant t s cfg
    | _, _ => st
  | .body t => match st.phaseOf t with
    | .holding s cfg => st.recordBody t s cfg (World.step compile cfgOf findOf st.world (.build s cfg))
    | _ => st
  | .release t => match st.phaseOf t with
    | .done s cfg out => st.finish t s cfg out
    | _ => st

def LState.runEvents : LState → List LEvent → LState
  | st, [] => st
  | st, e :: es => LState.runEvents (st.fire compile cfgOf findOf e) es

/-- every event of the schedule is enabled when it is fired -/
def LState.legal : LState → List LEvent → Bool
  | _, [] => true
  | st, e :: es => st.enabled e && LState.legal (st.fire compile cfgOf findOf e) es

/-- the states of lock-level executions: reachable from the initial state by enabled events -/
inductive Reachable : LState → Prop where
  | init : Reachable LState.init
  | step {s : LState} {e : LEvent} : Reachable s → s.enabled e = true →
      Reachable (s.fire compile cfgOf findOf e)

end

/-- remaining lock-level events until all pending calls have returned -/
def phaseWeight : List (Nat × LPhase) → Nat
  | [] => 0
  | p :: r => p.2.weight + phaseWeight r

def LState.measure (st : LState) : Nat := phaseWeight st.phase

/-- number of threads inside a call (the keys of `phase` are distinct in reachable states) -/
def LState.nonIdle (st : LState) : Nat := (st.phase.filter (fun p => p.2 != .idle)).length

end Scnr
