import ScnrVerif.Model.Iter
/-!
# Executable specifications of the iterator-level properties (C06, C07, C09, C10, C11)

Stated over the abstract finder. `scanFrom` is the reference tokenizer with an explicit mode
variable; `lineStartsOf`/`trueLineCol` are the true line/column of a byte offset; `firstN` is what
`peek_n` has to return.
-/
namespace Scnr

/-- The reference tokenizer: at the current position ask the finder of the current mode; a match
    becomes a token with absolute span, switches the mode if the token type has a transition and
    continues after the match; otherwise one character is skipped. -/
def scanFrom (cfg : List ModeCfg) (find : Finder) (m : Nat) (w : List Nat) (pos : Nat) : List Tok :=
  match find m w with
  | some (t, len) =>
    if h : (dropBytes len w).length < w.length then
      ⟨t, pos, pos + len⟩ ::
        scanFrom cfg find ((hasTransition (modeTrans cfg m) t).getD m) (dropBytes len w) (pos + len)
    else [⟨t, pos, pos + len⟩]
  | none =>
    match w with
    | [] => []
    | c :: w' => scanFrom cfg find m w' (pos + utf8Len c)
termination_by w.length

/-- Byte offsets at which a line starts: 0 and every offset directly after a line feed. -/
def lineStartsFrom : Nat → List Nat → List Nat
  | _, [] => []
  | p, c :: w => if c = 10 then (p + utf8Len c) :: lineStartsFrom (p + utf8Len c) w
                 else lineStartsFrom (p + utf8Len c) w

def lineStartsOf (input : List Nat) : List Nat := 0 :: lineStartsFrom 0 input

/-- True 1-based line (one plus the number of line feeds before `o`) and 1-based byte column. -/
def trueLineCol (input : List Nat) (o : Nat) : Nat × Nat := positionOf (lineStartsOf input) o

/-- The other acceptable answer for an offset directly after a line feed: the column after the
    line break on the line of the line feed. -/
def altLineCol (input : List Nat) (o : Nat) : Nat × Nat :=
  positionOf ((lineStartsOf input).filter (· ≠ o)) o

/-- Verdict for a position reported for offset `o`; `strict` demands the true position (token
    starts, scanned offsets), otherwise the alternative is accepted when `o` follows a line feed. -/
def positionOK (input : List Nat) (o : Nat) (strict : Bool) (p : Nat × Nat) : Bool :=
  p == trueLineCol input o ||
    (!strict && (lineStartsOf input).contains o && o != 0 && p == altLineCol input o)

/-- What `peek_n(n)` must return for the token sequence `ts` that `next()` would produce in mode
    `m`: at most `n` tokens, stopping after the first one whose type has a transition. -/
def firstN (cfg : List ModeCfg) (m : Nat) : Nat → List Tok → List Tok × Option Nat
  | 0, _ => ([], none)
  | _ + 1, [] => ([], none)
  | n + 1, t :: ts =>
    match hasTransition (modeTrans cfg m) t.tid with
    | some m' => ([t], some m')
    | none => ((t :: (firstN cfg m n ts).1), (firstN cfg m n ts).2)

/-- Classification of a peek result. -/
def peekSpec (cfg : List ModeCfg) (find : Finder) (m : Nat) (w : List Nat) (pos n : Nat) : Peek :=
  match firstN cfg m n (scanFrom cfg find m w pos) with
  | (ms, some m') => .modeSwitch ms m'
  | (ms, none) =>
    if ms.length = n then .matches ms else if ms.isEmpty then .notFound else .reachedEnd ms

end Scnr
