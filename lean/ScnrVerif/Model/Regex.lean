import ScnrVerif.Model.Basic
/-!
# Reference regular expressions

`Ast` has the shape of the `regex_syntax::ast::Ast` nodes the compiler accepts (the harness
serialises the AST that `regex-syntax` produced for the pattern string, node by node). Leaves are
indices into a table of *reference* character classes (each leaf carries its own table, built
independently of the scanner's class registry). `desugar` turns repetitions into the core operators;
`Matches` is the textbook semantics; `pderiv` are Antimirov partial derivatives.
-/
namespace Scnr

inductive Ast where
  | empty
  | leaf (cls : Nat)
  | concat (xs : List Ast)
  | alt (xs : List Ast)
  /-- `x{min,max}`; `max = none` is unbounded. `?` = (0, some 1), `*` = (0, none), `+` = (1, none). -/
  | rep (min : Nat) (max : Option Nat) (x : Ast)
deriving Repr, Inhabited

inductive Re where
  | void
  | eps
  | cls (id : Nat)
  | cat (a b : Re)
  | alt (a b : Re)
  | star (a : Re)
deriving Repr, DecidableEq, Inhabited, Ord, Hashable

namespace Re

/-- `r^n` -/
def pow (r : Re) : Nat → Re
  | 0 => eps
  | n + 1 => cat r (pow r n)

def opt (r : Re) : Re := alt r eps

def catList : List Re → Re
  | [] => eps
  | [r] => r
  | r :: rs => cat r (catList rs)

def altList : List Re → Re
  | [] => void
  | [r] => r
  | r :: rs => alt r (altList rs)

end Re

mutual
def Ast.desugar : Ast → Re
  | .empty => .eps
  | .leaf c => .cls c
  | .concat xs => Re.catList (Ast.desugarList xs)
  | .alt xs => Re.altList (Ast.desugarList xs)
  | .rep min none x => .cat (Re.pow (Ast.desugar x) min) (.star (Ast.desugar x))
  | .rep min (some max) x =>
      .cat (Re.pow (Ast.desugar x) min) (Re.pow (Re.opt (Ast.desugar x)) (max - min))
def Ast.desugarList : List Ast → List Re
  | [] => []
  | x :: xs => Ast.desugar x :: Ast.desugarList xs
end

/-- Semantics: `Matches cm r w` for a class function `cm` on the reference tables. -/
inductive Matches (cm : Nat → Nat → Bool) : Re → List Nat → Prop where
  | eps : Matches cm .eps []
  | cls {id c} : cm id c = true → Matches cm (.cls id) [c]
  | cat {a b u v} : Matches cm a u → Matches cm b v → Matches cm (.cat a b) (u ++ v)
  | altL {a b w} : Matches cm a w → Matches cm (.alt a b) w
  | altR {a b w} : Matches cm b w → Matches cm (.alt a b) w
  | starNil {a} : Matches cm (.star a) []
  | starCons {a u v} : Matches cm a u → Matches cm (.star a) v → Matches cm (.star a) (u ++ v)

def Re.nullable : Re → Bool
  | .void => false
  | .eps => true
  | .cls _ => false
  | .cat a b => a.nullable && b.nullable
  | .alt a b => a.nullable || b.nullable
  | .star _ => true

/-- smart concatenation: `eps · r = r` -/
def Re.seq (a b : Re) : Re :=
  match a with
  | .eps => b
  | _ => .cat a b

/-- Antimirov partial derivatives. -/
def pderiv (cm : Nat → Nat → Bool) (c : Nat) : Re → List Re
  | .void => []
  | .eps => []
  | .cls id => if cm id c then [.eps] else []
  | .cat a b => (pderiv cm c a).map (fun a' => Re.seq a' b) ++ (if a.nullable then pderiv cm c b else [])
  | .alt a b => pderiv cm c a ++ pderiv cm c b
  | .star a => (pderiv cm c a).map (fun a' => Re.seq a' (.star a))

/-- Executable matcher by derivatives (used as the pattern-level oracle). -/
def derivStep (cm : Nat → Nat → Bool) (c : Nat) (rs : List Re) : List Re :=
  (rs.flatMap (pderiv cm c)).eraseDups

def matchesBool (cm : Nat → Nat → Bool) (r : Re) (w : List Nat) : Bool :=
  (w.foldl (fun rs c => derivStep cm c rs) [r]).any Re.nullable

end Scnr
