import ScnrVerif.Model.FindFrom
/-!
# Executable specification of one scan step: the trailing-context rule (C04, C05, C01)

Declarative, by enumeration of all non-empty prefixes of the remaining text: a *candidate* is a
prefix after which the automaton is in an accepting state whose lookahead condition holds on the
text that follows. The reported match must be a candidate that maximises `end + lookahead length`
and, among those, has the smallest priority index. Nothing here refers to the loop of `find_from`.
-/
namespace Scnr

/-- All splits `w = u ++ v` with `u` non-empty, shortest prefix first. -/
def splits : List Nat → List (List Nat × List Nat)
  | [] => []
  | c :: w => ([c], w) :: (splits w).map fun p => (c :: p.1, p.2)

/-- Byte lengths of the non-empty prefixes of `v` accepted by `A` (any terminal). -/
def accLens (A : Dfa) (cm : Nat → Nat → Bool) (v : List Nat) : List Nat :=
  (splits v).filterMap fun p =>
    if (reach A cm [0] p.1).any A.isEnd then some (bytesLen p.1) else none

def maxList : List Nat → Nat
  | [] => 0
  | x :: r => max x (maxList r)

/-- The lookahead condition: positive holds iff some non-empty prefix of `v` is accepted, with
    the length of the longest one; negative holds iff none is, with length 0. -/
def laSpec (cm : Nat → Nat → Bool) (L : La) (v : List Nat) : Option Nat :=
  if (accLens L.dfa cm v).isEmpty then (if L.positive then none else some 0)
  else (if L.positive then some (maxList (accLens L.dfa cm v)) else none)

def ModeDfa.laSpec (M : ModeDfa) (cm : Nat → Nat → Bool) (t : Nat) (v : List Nat) : Option Nat :=
  match M.las.lookup t with
  | none => some 0
  | some L => Scnr.laSpec cm L v

/-- All candidates of a scan of `w` whose first character has index `i`. -/
def specCands (M : ModeDfa) (cm : Nat → Nat → Bool) (i : Nat) (w : List Nat) : List Cand :=
  (splits w).flatMap fun p =>
    (reach M.dfa cm [0] p.1).filterMap fun s =>
      if M.dfa.isEnd s then
        match M.laSpec cm (M.dfa.tidOf s) p.2 with
        | some l => some ⟨i + bytesLen p.1, i + bytesLen p.1 + l, M.dfa.tidOf s⟩
        | none => none
      else none

/-- `k` is at least as good as `k'`. -/
def candGe (A : Dfa) (k k' : Cand) : Bool :=
  decide (k'.extent < k.extent) || (k'.extent == k.extent && decide (A.prioOf k.tid ≤ A.prioOf k'.tid))

/-- The verdict on a reported result `(terminal, end)`. -/
def specFindOK (M : ModeDfa) (cm : Nat → Nat → Bool) (i : Nat) (w : List Nat) :
    Option (Nat × Nat) → Bool
  | none => (specCands M cm i w).isEmpty
  | some (t, e) =>
    (specCands M cm i w).any fun k =>
      k.tid == t && k.endPos == e && (specCands M cm i w).all fun k' => candGe M.dfa k k'

end Scnr
