import ScnrVerif.Model.Json
/-!
# JSON text: the printer of `serde_json::to_string` and an RFC 8259 parser

Texts are lists of Unicode code points (`List Nat`); the driver converts the UTF-8 of the real
crate to code points, so a text only ever contains Unicode scalar values.

* `printJson` writes a value tree exactly as `serde_json::to_string` does (compact form).
* `parseJson` reads any RFC 8259 text: insignificant whitespace, all escapes, surrogate pairs,
  every number syntax; it keeps duplicate keys in order, and demands that the whole input is used.
  A non-negative integer without fraction or exponent is `Json.num`, every other number `Json.float`.

Everything is structurally recursive (explicit fuel where the input is consumed in bigger steps), so
the functions evaluate in the kernel (`decide`, `rfl`). Round trip: `ScnrVerif/Proofs/JsonText.lean`.
-/
namespace Scnr

/-! ## Field names -/

/-- the field name as the crate writes it -/
def Key.text : Key → List Nat
  | .name => [110, 97, 109, 101]                                                      -- name
  | .patterns => [112, 97, 116, 116, 101, 114, 110, 115]                              -- patterns
  | .transitions => [116, 114, 97, 110, 115, 105, 116, 105, 111, 110, 115]            -- transitions
  | .pattern => [112, 97, 116, 116, 101, 114, 110]                                    -- pattern
  | .tokenType => [116, 111, 107, 101, 110, 95, 116, 121, 112, 101]                   -- token_type
  | .lookahead => [108, 111, 111, 107, 97, 104, 101, 97, 100]                         -- lookahead
  | .isPositive => [105, 115, 95, 112, 111, 115, 105, 116, 105, 118, 101]             -- is_positive
  | .span => [115, 112, 97, 110]                                                      -- span
  | .start => [115, 116, 97, 114, 116]                                                -- start
  | .stop => [101, 110, 100]                                                          -- end
  | .startPosition => [115, 116, 97, 114, 116, 95, 112, 111, 115, 105, 116, 105, 111, 110] -- start_position
  | .endPosition => [101, 110, 100, 95, 112, 111, 115, 105, 116, 105, 111, 110]       -- end_position
  | .line => [108, 105, 110, 101]                                                     -- line
  | .column => [99, 111, 108, 117, 109, 110]                                          -- column
  | .other s => s

/-- the keys with a reserved name -/
def Key.known : List Key :=
  [.name, .patterns, .transitions, .pattern, .tokenType, .lookahead, .isPositive,
   .span, .start, .stop, .startPosition, .endPosition, .line, .column]

/-- the key of a field name: the reserved names give their key, anything else `other` -/
def Key.ofText (s : List Nat) : Key :=
  match Key.known.find? (fun k => k.text == s) with
  | some k => k
  | none => .other s

/-- `other s` is only used for names that are not reserved -/
def Key.wf : Key → Bool
  | .other s => Key.known.all (fun k => k.text != s)
  | _ => true

/-! ## Characters -/

/-- a Unicode scalar value: a code point that is not a surrogate -/
def isScalar (c : Nat) : Bool := decide (c < 0xD800) || (decide (0xE000 ≤ c) && decide (c < 0x110000))

def jIsWs (c : Nat) : Bool := c == 32 || c == 9 || c == 10 || c == 13

def jIsDigit (c : Nat) : Bool := decide (48 ≤ c) && decide (c ≤ 57)

/-- lowercase hexadecimal digit of a number below 16 -/
def hexDigit (n : Nat) : Nat := if n < 10 then 48 + n else 87 + n

/-- value of a hexadecimal digit of either case -/
def hexVal (c : Nat) : Option Nat :=
  if 48 ≤ c ∧ c ≤ 57 then some (c - 48)
  else if 97 ≤ c ∧ c ≤ 102 then some (c - 87)
  else if 65 ≤ c ∧ c ≤ 70 then some (c - 55)
  else none

/-! ## Printer -/

/-- decimal digits (as characters) of a number, most significant first -/
def jNatDigits (n : Nat) : List Nat :=
  if h : n < 10 then [48 + n] else jNatDigits (n / 10) ++ [48 + n % 10]
decreasing_by omega

/-- one character of a string as serde_json writes it -/
def printChar (c : Nat) : List Nat :=
  if c = 34 then [92, 34]
  else if c = 92 then [92, 92]
  else if c = 8 then [92, 98]
  else if c = 12 then [92, 102]
  else if c = 10 then [92, 110]
  else if c = 13 then [92, 114]
  else if c = 9 then [92, 116]
  else if c < 32 then [92, 117, 48, 48, hexDigit (c / 16), hexDigit (c % 16)]
  else [c]

/-- the characters of a string and the closing quote -/
def printStrBody : List Nat → List Nat
  | [] => [34]
  | c :: cs => printChar c ++ printStrBody cs

def printStr (s : List Nat) : List Nat := 34 :: printStrBody s

mutual
/-- `serde_json::to_string` -/
def printJson : Json → List Nat
  | .null => [110, 117, 108, 108]
  | .bool true => [116, 114, 117, 101]
  | .bool false => [102, 97, 108, 115, 101]
  | .num n => jNatDigits n
  | .float => [45, 48, 46, 53]
  | .str s => printStr s
  | .arr xs => 91 :: printElems xs
  | .obj kvs => 123 :: printMembers kvs
/-- the elements of an array and the closing bracket -/
def printElems : List Json → List Nat
  | [] => [93]
  | x :: xs => printJson x ++ printTail xs
/-- the elements after the first one, each behind a comma, and the closing bracket -/
def printTail : List Json → List Nat
  | [] => [93]
  | x :: xs => 44 :: (printJson x ++ printTail xs)
/-- the members of an object and the closing brace -/
def printMembers : List (Key × Json) → List Nat
  | [] => [125]
  | (k, x) :: kvs => printStr k.text ++ 58 :: (printJson x ++ printMTail kvs)
def printMTail : List (Key × Json) → List Nat
  | [] => [125]
  | (k, x) :: kvs => 44 :: (printStr k.text ++ 58 :: (printJson x ++ printMTail kvs))
end

/-! ## Parser -/

def skipWs : List Nat → List Nat
  | [] => []
  | c :: cs => if jIsWs c then skipWs cs else c :: cs

/-- the input behind the given characters -/
def dropPrefix : List Nat → List Nat → Option (List Nat)
  | [], cs => some cs
  | _ :: _, [] => none
  | p :: ps, c :: cs => if p = c then dropPrefix ps cs else none

/-- the longest run of digits and the input behind it -/
def takeDigits : List Nat → List Nat × List Nat
  | [] => ([], [])
  | c :: cs =>
    if jIsDigit c then
      match takeDigits cs with
      | (ds, r) => (c :: ds, r)
    else ([], c :: cs)

def jDigitsVal (ds : List Nat) : Nat := ds.foldl (fun a c => a * 10 + (c - 48)) 0

/-- `int`: `0`, or a digit other than `0` followed by digits -/
def parseInt (cs : List Nat) : Option (List Nat × List Nat) :=
  match takeDigits cs with
  | ([], _) => none
  | (d :: ds, r) => if d = 48 ∧ ds ≠ [] then none else some (d :: ds, r)

/-- optional `frac`: whether there is one, and the input behind it -/
def parseFrac : List Nat → Option (Bool × List Nat)
  | [] => some (false, [])
  | c :: r =>
    if c = 46 then
      match takeDigits r with
      | ([], _) => none
      | (_ :: _, r') => some (true, r')
    else some (false, c :: r)

def skipSign : List Nat → List Nat
  | [] => []
  | s :: r => if s = 43 ∨ s = 45 then r else s :: r

/-- optional `exp` -/
def parseExp : List Nat → Option (Bool × List Nat)
  | [] => some (false, [])
  | c :: r =>
    if c = 101 ∨ c = 69 then
      match takeDigits (skipSign r) with
      | ([], _) => none
      | (_ :: _, r') => some (true, r')
    else some (false, c :: r)

/-- a number behind its optional minus sign -/
def parseNumberBody (neg : Bool) (cs : List Nat) : Option (Json × List Nat) :=
  match parseInt cs with
  | none => none
  | some (ds, r1) =>
    match parseFrac r1 with
    | none => none
    | some (f, r2) =>
      match parseExp r2 with
      | none => none
      | some (e, r3) => some (if neg || f || e then Json.float else Json.num (jDigitsVal ds), r3)

def parseNumber : List Nat → Option (Json × List Nat)
  | [] => none
  | c :: r => if c = 45 then parseNumberBody true r else parseNumberBody false (c :: r)

/-- four hexadecimal digits -/
def hex4 : List Nat → Option (Nat × List Nat)
  | a :: b :: c :: d :: rest =>
    match hexVal a, hexVal b, hexVal c, hexVal d with
    | some x, some y, some z, some w => some (((x * 16 + y) * 16 + z) * 16 + w, rest)
    | _, _, _, _ => none
  | _ => none

/-- the low half of a surrogate pair, written `\uXXXX` -/
def parseLowSurrogate (hi : Nat) : List Nat → Option (Nat × List Nat)
  | b :: u :: r =>
    if b = 92 ∧ u = 117 then
      match hex4 r with
      | none => none
      | some (lo, r') =>
        if 0xDC00 ≤ lo ∧ lo < 0xE000 then some (0x10000 + (hi - 0xD800) * 0x400 + (lo - 0xDC00), r')
        else none
    else none
  | _ => none

/-- an escape sequence behind its backslash: the code point and the input behind it -/
def parseEscape : List Nat → Option (Nat × List Nat)
  | [] => none
  | e :: cs =>
    if e = 34 then some (34, cs)
    else if e = 92 then some (92, cs)
    else if e = 47 then some (47, cs)
    else if e = 98 then some (8, cs)
    else if e = 102 then some (12, cs)
    else if e = 110 then some (10, cs)
    else if e = 114 then some (13, cs)
    else if e = 116 then some (9, cs)
    else if e = 117 then
      match hex4 cs with
      | none => none
      | some (u, r) =>
        if 0xD800 ≤ u ∧ u < 0xDC00 then parseLowSurrogate u r
        else if 0xDC00 ≤ u ∧ u < 0xE000 then none
        else some (u, r)
    else none

/-- a string behind its opening quote: the code points and the input behind the closing quote -/
def parseStrBody : Nat → List Nat → Option (List Nat × List Nat)
  | 0, _ => none
  | _ + 1, [] => none
  | fuel + 1, c :: cs =>
    if c = 34 then some ([], cs)
    else if c = 92 then
      match parseEscape cs with
      | none => none
      | some (u, r) =>
        match parseStrBody fuel r with
        | none => none
        | some (s, r') => some (u :: s, r')
    else if c < 32 then none
    else if isScalar c then
      match parseStrBody fuel cs with
      | none => none
      | some (s, r') => some (c :: s, r')
    else none

def parseString (cs : List Nat) : Option (List Nat × List Nat) := parseStrBody cs.length cs

/-- the elements of a non-empty array (`pv` reads one value) and the input behind `]` -/
def parseElems (pv : List Nat → Option (Json × List Nat)) : Nat → List Nat → Option (List Json × List Nat)
  | 0, _ => none
  | n + 1, cs =>
    match pv cs with
    | none => none
    | some (v, r) =>
      match skipWs r with
      | [] => none
      | c :: r' =>
        if c = 44 then
          match parseElems pv n r' with
          | none => none
          | some (vs, r'') => some (v :: vs, r'')
        else if c = 93 then some ([v], r')
        else none

/-- one member `"key" : value` -/
def parseMember (pv : List Nat → Option (Json × List Nat)) (cs : List Nat) : Option ((Key × Json) × List Nat) :=
  match skipWs cs with
  | [] => none
  | q :: r =>
    if q = 34 then
      match parseString r with
      | none => none
      | some (k, r1) =>
        match skipWs r1 with
        | [] => none
        | c :: r2 =>
          if c = 58 then
            match pv r2 with
            | none => none
            | some (v, r3) => some ((Key.ofText k, v), r3)
          else none
    else none

/-- the members of a non-empty object and the input behind `}` -/
def parseMembers (pv : List Nat → Option (Json × List Nat)) : Nat → List Nat → Option (List (Key × Json) × List Nat)
  | 0, _ => none
  | n + 1, cs =>
    match parseMember pv cs with
    | none => none
    | some (kv, r) =>
      match skipWs r with
      | [] => none
      | c :: r' =>
        if c = 44 then
          match parseMembers pv n r' with
          | none => none
          | some (kvs, r'') => some (kv :: kvs, r'')
        else if c = 125 then some ([kv], r')
        else none

/-- one value with leading whitespace, and the input behind it; the fuel bounds the nesting depth
    and the number of elements of one array or object -/
def parseValue : Nat → List Nat → Option (Json × List Nat)
  | 0, _ => none
  | fuel + 1, cs =>
    match skipWs cs with
    | [] => none
    | c :: r =>
      if jIsDigit c || c == 45 then parseNumber (c :: r)
      else if c = 110 then
        match dropPrefix [117, 108, 108] r with
        | none => none
        | some r' => some (Json.null, r')
      else if c = 116 then
        match dropPrefix [114, 117, 101] r with
        | none => none
        | some r' => some (Json.bool true, r')
      else if c = 102 then
        match dropPrefix [97, 108, 115, 101] r with
        | none => none
        | some r' => some (Json.bool false, r')
      else if c = 34 then
        match parseString r with
        | none => none
        | some (s, r') => some (Json.str s, r')
      else if c = 91 then
        match skipWs r with
        | [] => none
        | d :: r' =>
          if d = 93 then some (Json.arr [], r')
          else
            match parseElems (parseValue fuel) fuel (d :: r') with
            | none => none
            | some (xs, r'') => some (Json.arr xs, r'')
      else if c = 123 then
        match skipWs r with
        | [] => none
        | d :: r' =>
          if d = 125 then some (Json.obj [], r')
          else
            match parseMembers (parseValue fuel) fuel (d :: r') with
            | none => none
            | some (kvs, r'') => some (Json.obj kvs, r'')
      else none

/-- `serde_json::from_str::<Value>`: one value, whitespace around it, nothing else -/
def parseJson (cs : List Nat) : Option Json :=
  match parseValue (cs.length + 1) cs with
  | none => none
  | some (v, r) => if skipWs r = [] then some v else none

/-! ## The trees of the round-trip theorem -/

mutual
/-- no `float`, keys well-formed, strings and keys made of Unicode scalar values -/
def Json.textOK : Json → Bool
  | .null => true
  | .bool _ => true
  | .num _ => true
  | .float => false
  | .str s => s.all isScalar
  | .arr xs => textOKList xs
  | .obj kvs => textOKMembers kvs
def textOKList : List Json → Bool
  | [] => true
  | x :: xs => x.textOK && textOKList xs
def textOKMembers : List (Key × Json) → Bool
  | [] => true
  | (k, x) :: kvs => k.wf && k.text.all isScalar && x.textOK && textOKMembers kvs
end

end Scnr
