import ScnrVerif.Model.Dfa
/-!
# Model of `CompiledDfa::find_from` and `CompiledLookahead::satisfies_lookahead`

Mirrors the (repaired) Rust loop: for every character, for every current state, for every
transition whose class matches, remember the target and, if it is accepting and its lookahead is
satisfied, update the best candidate `(end, extent, terminal)`.
-/
namespace Scnr

structure Cand where
  endPos : Nat
  extent : Nat
  tid : Nat
deriving Repr, DecidableEq, Inhabited

abbrev Best := Option Cand

/-- The comparison of the candidate update. -/
def better (A : Dfa) (extent tid : Nat) : Best → Bool
  | none => true
  | some b => decide (b.extent < extent) ||
      (extent == b.extent && decide (A.prioOf tid < A.prioOf b.tid))

/-- One accepting hit: `la t = none` means the lookahead of terminal `t` is not satisfied,
    `some l` that it is satisfied with length `l` (0 for negative or absent lookahead). -/
def upd (A : Dfa) (la : Nat → Option Nat) (e : Nat) (best : Best) (nx : Nat) : Best :=
  if A.isEnd nx then
    match la (A.tidOf nx) with
    | none => best
    | some l =>
      if better A (e + l) (A.tidOf nx) best then some ⟨e, e + l, A.tidOf nx⟩ else best
  else best

/-- The `for (index, c) in char_indices` loop. `i` is the index of the head of the remaining
    characters; `la t w` evaluates the lookahead of terminal `t` on the text `w` that follows. -/
def loop (A : Dfa) (cm : Nat → Nat → Bool) (la : Nat → List Nat → Option Nat) :
    Nat → List Nat → List Nat → Best → Best
  | _, [], _, best => best
  | i, c :: w, S, best =>
    if (stepStates A cm c S).isEmpty then
      (hits A cm c S).foldl (upd A (fun t => la t w) (i + utf8Len c)) best
    else
      loop A cm la (i + utf8Len c) w (stepStates A cm c S)
        ((hits A cm c S).foldl (upd A (fun t => la t w) (i + utf8Len c)) best)

/-- No lookahead: every terminal passes with length 0. -/
def noLa : Nat → List Nat → Option Nat := fun _ _ => some 0

structure La where
  positive : Bool
  dfa : Dfa
deriving Repr, DecidableEq, Inhabited

/-- `satisfies_lookahead`: run the lookahead automaton (which has no lookaheads itself) on the
    following text. -/
def laEval (cm : Nat → Nat → Bool) (L : La) (w : List Nat) : Option Nat :=
  match loop L.dfa cm noLa 0 w [0] none with
  | some b => if L.positive then some b.endPos else none
  | none => if L.positive then none else some 0

structure ModeDfa where
  dfa : Dfa
  las : List (Nat × La)
deriving Repr, DecidableEq, Inhabited

def ModeDfa.la (M : ModeDfa) (cm : Nat → Nat → Bool) (t : Nat) (w : List Nat) : Option Nat :=
  match M.las.lookup t with
  | none => some 0
  | some L => laEval cm L w

/-- `find_from` started with the index `i` of the first remaining character. The match always
    starts at `i`; the result is `(terminal, end)`. -/
def findFrom (M : ModeDfa) (cm : Nat → Nat → Bool) (i : Nat) (w : List Nat) : Option (Nat × Nat) :=
  (loop M.dfa cm (M.la cm) i w [0] none).map fun b => (b.tid, b.endPos)

end Scnr
