/-!
# Classification of builds (C15)

`FAst` has the node kinds of `regex_syntax::ast::Ast` as far as `Nfa::try_from_ast` distinguishes
them (n-ary alternations/concatenations are nested to the right, which keeps the order in which
errors are detected). `tryFromAst` mirrors the error paths of `nfa.rs`; `build` mirrors the order of
`ScannerImpl::try_from` → `CompiledScannerMode` → `MultiPatternNfa::try_from_patterns` (all patterns
of a mode, then its lookaheads) and finally `create_match_char_class` (unsupported class names).
-/
namespace Scnr

inductive FAst where
  | empty
  | flags
  | literal
  | dot
  | assertion
  /-- a class; `supported = false`: it contains an unknown or valued Unicode name -/
  | cls (supported : Bool)
  | rep (greedy : Bool) (x : FAst)
  | group (flagged : Bool) (x : FAst)
  | alt (a b : FAst)
  | concat (a b : FAst)
deriving Repr, DecidableEq, Inhabited

inductive BuildResult where
  | ok
  | syntaxError
  | unsupported
deriving Repr, DecidableEq, Inhabited

/-- `Nfa::try_from_ast`: `none` = `UnsupportedFeature`, `some reg` = the class registry afterwards
    (one flag per registered class: is it supported). -/
def tryFromAst : FAst → List Bool → Option (List Bool)
  | .empty, reg => some reg
  | .flags, _ => none
  | .literal, reg => some (reg ++ [true])
  | .dot, reg => some (reg ++ [true])
  | .assertion, _ => none
  | .cls s, reg => some (reg ++ [s])
  | .rep greedy x, reg =>
    match tryFromAst x reg with
    | none => none
    | some reg' => if greedy then some reg' else none
  | .group flagged x, reg => if flagged then none else tryFromAst x reg
  | .alt a b, reg =>
    match tryFromAst a reg with
    | none => none
    | some reg' => tryFromAst b reg'
  | .concat a b, reg =>
    match tryFromAst a reg with
    | none => none
    | some reg' => tryFromAst b reg'

/-- A pattern as the builder sees it: `none` = regex-syntax reported a syntax error. -/
structure BPat where
  ast : Option FAst
  lookahead : Option (Option FAst)
deriving Repr, DecidableEq, Inhabited

/-- one stage: parse result, then `try_from_ast` -/
def stage (a : Option FAst) (reg : List Bool) : Except BuildResult (List Bool) :=
  match a with
  | none => .error .syntaxError
  | some x =>
    match tryFromAst x reg with
    | none => .error .unsupported
    | some reg' => .ok reg'

def stagePatterns : List BPat → List Bool → Except BuildResult (List Bool)
  | [], reg => .ok reg
  | p :: ps, reg =>
    match stage p.ast reg with
    | .error e => .error e
    | .ok reg' => stagePatterns ps reg'

def stageLookaheads : List BPat → List Bool → Except BuildResult (List Bool)
  | [], reg => .ok reg
  | p :: ps, reg =>
    match p.lookahead with
    | none => stageLookaheads ps reg
    | some la =>
      match stage la reg with
      | .error e => .error e
      | .ok reg' => stageLookaheads ps reg'

def stageModes : List (List BPat) → List Bool → Except BuildResult (List Bool)
  | [], reg => .ok reg
  | m :: ms, reg =>
    match stagePatterns m reg with
    | .error e => .error e
    | .ok r1 =>
      match stageLookaheads m r1 with
      | .error e => .error e
      | .ok r2 => stageModes ms r2

/-- `ScannerImpl::try_from`: a total function. -/
def build (modes : List (List BPat)) : BuildResult :=
  match stageModes modes [] with
  | .error e => e
  | .ok reg => if reg.all id then .ok else .unsupported

/-- an unsupported construct occurs somewhere in the AST -/
def FAst.hasUnsupported : FAst → Bool
  | .empty => false
  | .flags => true
  | .literal => false
  | .dot => false
  | .assertion => true
  | .cls s => !s
  | .rep greedy x => !greedy || x.hasUnsupported
  | .group flagged x => flagged || x.hasUnsupported
  | .alt a b => a.hasUnsupported || b.hasUnsupported
  | .concat a b => a.hasUnsupported || b.hasUnsupported

def BPat.parses (p : BPat) : Bool :=
  p.ast.isSome && (match p.lookahead with | some none => false | _ => true)

def BPat.hasUnsupported (p : BPat) : Bool :=
  (match p.ast with | some a => a.hasUnsupported | none => false) ||
  (match p.lookahead with | some (some a) => a.hasUnsupported | _ => false)

/-- all patterns and lookaheads of all modes parse and contain nothing unsupported -/
def allSupported (modes : List (List BPat)) : Bool :=
  modes.all fun m => m.all fun p => p.parses && !p.hasUnsupported

end Scnr
