import ScnrVerif.Model.Iter
/-!
# Scanners, iterators and the scanner cache as one world (C12, C13, C14)

`World` holds the cache, the scanners (each a compiled configuration id plus its own mode field) and
the iterators (each owns a clone of the scanner's configuration, its input and its cursor state).
Every API call is one atomic `step` (for C14: `build` runs under the exclusive lock, iterator
operations touch thread-owned components only). `compile` — the uncached compilation of a
configuration — is a parameter: the cache stores and returns its results.
-/
namespace Scnr

/-- A configuration is identified by a number assigned by structural equality of the mode list;
    a compilation result is `none` (error) or the identity of the compiled scanner. -/
abbrev CfgId := Nat
abbrev CompId := Nat

structure ScannerSt where
  comp : CompId
  mode : Nat
deriving Repr, DecidableEq, Inhabited

structure IterSt where
  comp : CompId
  it : Iter
deriving Repr, DecidableEq, Inhabited

structure World where
  cache : List (CfgId × CompId)
  scanners : List (Nat × ScannerSt)
  iters : List (Nat × IterSt)
deriving Repr, DecidableEq, Inhabited

def World.empty : World := ⟨[], [], []⟩

inductive IterOp where
  | next
  | peek (n : Nat)
  | advanceTo (p : Nat)
  | setOffset (o : Nat)
  | setMode (m : Nat)
  | currentMode
deriving Repr, DecidableEq, Inhabited

inductive Op where
  /-- `ScannerBuilder::build` of configuration `cfg` into scanner slot `s` -/
  | build (s : Nat) (cfg : CfgId)
  /-- `build_uncached` -/
  | buildUncached (s : Nat) (cfg : CfgId)
  | scannerSetMode (s : Nat) (m : Nat)
  | scannerCurrentMode (s : Nat)
  /-- `scanner.find_iter(input)` into iterator slot `k` -/
  | findIter (s : Nat) (k : Nat) (input : List Nat)
  | iter (k : Nat) (o : IterOp)
  | dropIter (k : Nat)
deriving Repr, DecidableEq, Inhabited

inductive Out where
  | none
  | built (c : CompId)
  | buildError
  | tok (t : Option Tok)
  | peeked (p : Peek)
  | num (n : Nat)
  | invalid
deriving Repr, DecidableEq, Inhabited

def assocSet {α : Type} (l : List (Nat × α)) (k : Nat) (v : α) : List (Nat × α) :=
  (k, v) :: l.filter (fun p => p.1 != k)

/-- `ScannerCache::get`: a hit returns a clone of the stored compilation; a miss compiles, stores
    the result only if it is `Ok`, and returns it. -/
def cacheGet (compile : CfgId → Option CompId) (cache : List (CfgId × CompId)) (cfg : CfgId) :
    List (CfgId × CompId) × Option CompId :=
  match cache.lookup cfg with
  | some c => (cache, some c)
  | none =>
    match compile cfg with
    | some c => ((cfg, c) :: cache, some c)
    | none => (cache, none)

/-- One iterator operation; configuration and finder belong to the iterator's own compilation. -/
def iterStep (cfgOf : CompId → List ModeCfg) (findOf : CompId → Finder) (st : IterSt) : IterOp → IterSt × Out
  | .next =>
    let r := st.it.next (cfgOf st.comp) (findOf st.comp)
    ({ st with it := r.1 }, .tok r.2)
  | .peek n => (st, .peeked (st.it.peekN (cfgOf st.comp) (findOf st.comp) n))
  | .advanceTo p => ({ st with it := st.it.advanceTo p }, .num (st.it.advanceToRet p))
  | .setOffset o => ({ st with it := st.it.setOffset o }, .none)
  | .setMode m => ({ st with it := st.it.setMode m }, .none)
  | .currentMode => (st, .num st.it.mode)

def World.step (compile : CfgId → Option CompId) (cfgOf : CompId → List ModeCfg) (findOf : CompId → Finder)
    (w : World) : Op → World × Out
  | .build s cfg =>
    match cacheGet compile w.cache cfg with
    | (cache', some c) => ({ w with cache := cache', scanners := assocSet w.scanners s ⟨c, 0⟩ }, .built c)
    | (cache', none) => ({ w with cache := cache' }, .buildError)
  | .buildUncached s cfg =>
    match compile cfg with
    | some c => ({ w with scanners := assocSet w.scanners s ⟨c, 0⟩ }, .built c)
    | none => (w, .buildError)
  | .scannerSetMode s m =>
    match w.scanners.lookup s with
    | some sc => ({ w with scanners := assocSet w.scanners s { sc with mode := m } }, .none)
    | none => (w, .invalid)
  | .scannerCurrentMode s =>
    match w.scanners.lookup s with
    | some sc => (w, .num sc.mode)
    | none => (w, .invalid)
  | .findIter s k input =>
    match w.scanners.lookup s with
    | some sc => ({ w with iters := assocSet w.iters k ⟨sc.comp, Iter.new input⟩ }, .none)
    | none => (w, .invalid)
  | .iter k o =>
    match w.iters.lookup k with
    | some st =>
      let r := iterStep cfgOf findOf st o
      ({ w with iters := assocSet w.iters k r.1 }, r.2)
    | none => (w, .invalid)
  | .dropIter k => ({ w with iters := w.iters.filter (fun p => p.1 != k) }, .none)

/-- Runs a history; returns the final world and the outputs in order. -/
def World.run (compile : CfgId → Option CompId) (cfgOf : CompId → List ModeCfg) (findOf : CompId → Finder) :
    World → List Op → World × List Out
  | w, [] => (w, [])
  | w, o :: os =>
    let r := World.step compile cfgOf findOf w o
    let rest := World.run compile cfgOf findOf r.1 os
    (rest.1, r.2 :: rest.2)

end Scnr
