import ScnrVerif.Model.Basic
/-!
# The compiled automaton (`CompiledDfa`) as data

States are indices; every state has an ordered list of `(class id, target)` transitions. The
automaton is non-deterministic with respect to overlapping character classes, exactly like the
Rust structure. `ends[s] = (accepting, terminal id)`, `prio` is `terminal_ids` in priority order.
-/
namespace Scnr

structure Dfa where
  trans : List (List (Nat × Nat))
  ends  : List (Bool × Nat)
  prio  : List Nat
deriving Repr, DecidableEq, Inhabited

namespace Dfa
def outs (A : Dfa) (s : Nat) : List (Nat × Nat) := A.trans.getD s []
def isEnd (A : Dfa) (s : Nat) : Bool := (A.ends.getD s (false, 0)).1
def tidOf (A : Dfa) (s : Nat) : Nat := (A.ends.getD s (false, 0)).2
/-- `priority_of`: position of the terminal in `terminal_ids` (length if absent; the dump check
    `wf` excludes that case, where the Rust code would panic). -/
def prioOf (A : Dfa) (t : Nat) : Nat := A.prio.idxOf t
def numStates (A : Dfa) : Nat := A.trans.length

/-- Well-formedness of a dumped automaton: what the Rust code relies on for indexing. -/
def wf (A : Dfa) : Bool :=
  A.ends.length == A.trans.length &&
  A.trans.all (fun ts => ts.all fun p => p.2 < A.trans.length) &&
  A.ends.all (fun e => !e.1 || A.prio.contains e.2) &&
  0 < A.trans.length
end Dfa

/-- Targets reached from one state on character `c` in transition order. -/
def hitsOf (A : Dfa) (cm : Nat → Nat → Bool) (c : Nat) (s : Nat) : List Nat :=
  (A.outs s).filterMap fun p => if cm p.1 c then some p.2 else none

/-- All targets hit from the current states, in the order the Rust loops visit them. -/
def hits (A : Dfa) (cm : Nat → Nat → Bool) (c : Nat) (S : List Nat) : List Nat :=
  S.flatMap (hitsOf A cm c)

/-- `if !next_states.contains(next) { next_states.push(*next) }` -/
def pushNew (acc : List Nat) (x : Nat) : List Nat :=
  if acc.contains x then acc else acc ++ [x]

def nextStates (H : List Nat) : List Nat := H.foldl pushNew []

/-- One simulation step on the state list. -/
def stepStates (A : Dfa) (cm : Nat → Nat → Bool) (c : Nat) (S : List Nat) : List Nat :=
  nextStates (hits A cm c S)

/-- States reached from `S` after reading `w`. -/
def reach (A : Dfa) (cm : Nat → Nat → Bool) : List Nat → List Nat → List Nat
  | S, [] => S
  | S, c :: w => reach A cm (stepStates A cm c S) w

/-- The automaton accepts `w` for terminal `t` (from the start state 0). -/
def acceptsTid (A : Dfa) (cm : Nat → Nat → Bool) (w : List Nat) (t : Nat) : Prop :=
  ∃ s ∈ reach A cm [0] w, A.isEnd s = true ∧ A.tidOf s = t

end Scnr
