import ScnrVerif.Model.Equiv
/-!
# Model of `minimizer.rs` (track A)

Mirrors `Minimizer::minimize`: the transition map (`BTreeMap<StateID, BTreeMap<CharClassID,
Vec<StateID>>>`, targets sorted and de-duplicated), the initial partition (non-accepting states, then
one group per terminal id in ascending order), the refinement loop (`split_group` keyed by the
signature vector `Vec<(class, group)>` in `BTreeMap` order) until nothing changes, and
`create_from_partition` (start group first, representative = first state of a group, transitions of
all members merged into it, renumbered to group indices, duplicates dropped).
-/
namespace Scnr

/-- per state: `(class, targets)` sorted by class, targets sorted and duplicate-free -/
def transMap (A : Dfa) (s : Nat) : List (Nat × List Nat) :=
  (normNat ((A.outs s).map (·.1))).map fun cc =>
    (cc, normNat (((A.outs s).filter (fun p => p.1 == cc)).map (·.2)))

/-- `find_group`: index of the first group containing the state -/
def findGroup (P : List (List Nat)) (s : Nat) : Nat := P.findIdx (fun g => g.contains s)

/-- `build_transitions_to_partition_group` -/
def signature (A : Dfa) (P : List (List Nat)) (s : Nat) : List (Nat × Nat) :=
  (transMap A s).flatMap fun p => p.2.map fun t => (p.1, findGroup P t)

/-- derived `Ord` of `Vec<(CharClassID, StateGroupID)>`: lexicographic, a proper prefix is smaller -/
def sigLt : List (Nat × Nat) → List (Nat × Nat) → Bool
  | [], [] => false
  | [], _ :: _ => true
  | _ :: _, [] => false
  | a :: as, b :: bs =>
    if a.1 < b.1 then true else if b.1 < a.1 then false
    else if a.2 < b.2 then true else if b.2 < a.2 then false
    else sigLt as bs

/-- a new key goes before the first larger key (`BTreeMap` keeps its keys in order) -/
def insertNew (sig : List (Nat × Nat)) (s : Nat) : List (List (Nat × Nat) × List Nat) → List (List (Nat × Nat) × List Nat)
  | [] => [(sig, [s])]
  | (k, g) :: r => if sigLt sig k then (sig, [s]) :: (k, g) :: r else (k, g) :: insertNew sig s r

/-- `transition_map_to_states.entry(sig).or_default().insert(state)`: an existing key gets the state
    added to its (sorted) set, otherwise a new entry is created in key order -/
def insertSig (sig : List (Nat × Nat)) (s : Nat) (m : List (List (Nat × Nat) × List Nat)) :
    List (List (Nat × Nat) × List Nat) :=
  if m.any (fun e => e.1 == sig) then
    m.map fun e => if e.1 == sig then (e.1, normNat (e.2 ++ [s])) else e
  else insertNew sig s m

/-- `split_group` -/
def splitGroup (A : Dfa) (P : List (List Nat)) (g : List Nat) : List (List Nat) :=
  if g.length = 1 then [g]
  else (g.foldl (fun m s => insertSig (signature A P s) s m) []).map (·.2)

/-- `calculate_new_partition` -/
def refine (A : Dfa) (P : List (List Nat)) : List (List Nat) := P.flatMap (splitGroup A P)

/-- the `while changed` loop; `fuel` bounds the iterations (the number of states suffices) -/
def refineLoop (A : Dfa) : Nat → List (List Nat) → List (List Nat)
  | 0, P => refine A P
  | f + 1, P => if refine A P = P then refine A P else refineLoop A f (refine A P)

/-- `calculate_initial_partition` -/
def initialPartition (A : Dfa) : List (List Nat) :=
  let states := List.range A.trans.length
  let tids := normNat ((states.filter A.isEnd).map A.tidOf)
  (states.filter fun s => !A.isEnd s) :: tids.map fun t => states.filter fun s => A.isEnd s && A.tidOf s == t

/-- the stable `sort_by` that moves the group of the start state to the front -/
def startFirst (P : List (List Nat)) : List (List Nat) :=
  (P.filter fun g => g.contains 0) ++ (P.filter fun g => !g.contains 0)

/-- `merge_transitions_of_state`: the transitions of a member are added to the representative's map -/
def insertCc (cc : Nat) (ts : List Nat) : List (Nat × List Nat) → List (Nat × List Nat)
  | [] => [(cc, ts)]
  | (k, e) :: r =>
    if k = cc then (k, ts.foldl pushNew e) :: r
    else if cc < k then (cc, ts) :: (k, e) :: r
    else (k, e) :: insertCc cc ts r

def mergeInto (rep other : List (Nat × List Nat)) : List (Nat × List Nat) :=
  other.foldl (fun acc p => insertCc p.1 p.2 acc) rep

def pushNewPair (acc : List (Nat × Nat)) (x : Nat × Nat) : List (Nat × Nat) :=
  if acc.contains x then acc else acc ++ [x]

/-- transitions of the representative state of a group in the minimized automaton -/
def groupTrans (A : Dfa) (P : List (List Nat)) : List Nat → List (Nat × Nat)
  | [] => []
  | r :: ms =>
    ((ms.foldl (fun acc m => mergeInto acc (transMap A m)) (transMap A r)).flatMap
      fun p => p.2.map fun t => (p.1, findGroup P t)).foldl pushNewPair []

/-- `add_representative_state`: accepting if any member is; the terminal of the last accepting member -/
def groupEnd (A : Dfa) (g : List Nat) : Bool × Nat :=
  g.foldl (fun acc s => if A.isEnd s then (true, A.tidOf s) else acc) (false, 0)

/-- `create_from_partition` -/
def createFromPartition (A : Dfa) (P : List (List Nat)) : Dfa :=
  { trans := (startFirst P).map (groupTrans A (startFirst P)),
    ends := (startFirst P).map (groupEnd A),
    prio := A.prio }

def minimize (A : Dfa) : Dfa :=
  createFromPartition A (refineLoop A A.trans.length (initialPartition A))

end Scnr

namespace Scnr

/-- the partition the refinement loop ends with -/
def finalPartition (A : Dfa) : List (List Nat) := refineLoop A A.trans.length (initialPartition A)

/-- Decidable form of the hypotheses of the quotient theorem (cover, targets in range, disjoint
    groups, homogeneous accepting flags/terminals, stability). -/
def goodPartitionCheck (A : Dfa) (P : List (List Nat)) : Bool :=
  (List.range A.trans.length).all (fun s => P.any fun g => g.contains s) &&
  A.trans.all (fun ts => ts.all fun p => decide (p.2 < A.trans.length)) &&
  P.all (fun g => P.all fun g' => g == g' || g.all fun s => !g'.contains s) &&
  P.all (fun g => g.all fun s => g.all fun s' =>
    A.isEnd s == A.isEnd s' && (!A.isEnd s || A.tidOf s == A.tidOf s')) &&
  P.all (fun g => g.all fun s => g.all fun s' => (A.outs s).all fun p =>
    (A.outs s').any fun p' => p'.1 == p.1 && P.any fun h => h.contains p.2 && h.contains p'.2)

end Scnr
