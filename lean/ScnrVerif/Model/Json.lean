/-!
# JSON value trees of configurations and matches (C16)

The serde layer is modelled on *value trees* (`serde_json::Value`): `toJson*` is what the derived
`Serialize` produces (field names and order, `lookahead` omitted when `None`, id newtypes as plain
numbers, tuples as two-element arrays), `fromJson*` what the derived `Deserialize` accepts (fields in
any order, unknown fields ignored, a missing or `null` `lookahead` is `None`, numbers must be
non-negative integers below 2^64). The JSON text layer is serde_json's.
-/
namespace Scnr

inductive Key where
  | name | patterns | transitions | pattern | tokenType | lookahead | isPositive
  | span | start | stop | startPosition | endPosition | line | column
  | other (s : List Nat)
deriving Repr, DecidableEq, Inhabited

inductive Json where
  | null
  | bool (b : Bool)
  | num (n : Nat)
  /-- a negative number or a number with a fraction/exponent: never a `usize` -/
  | float
  | str (s : List Nat)
  | arr (xs : List Json)
  | obj (kvs : List (Key × Json))
deriving Repr, Inhabited

structure LookaheadC where
  isPositive : Bool
  pattern : List Nat
deriving Repr, DecidableEq, Inhabited

structure PatternC where
  pattern : List Nat
  tokenType : Nat
  lookahead : Option LookaheadC
deriving Repr, DecidableEq, Inhabited

structure ModeC where
  name : List Nat
  patterns : List PatternC
  transitions : List (Nat × Nat)
deriving Repr, DecidableEq, Inhabited

structure SpanC where
  start : Nat
  stop : Nat
deriving Repr, DecidableEq, Inhabited

structure PositionC where
  line : Nat
  column : Nat
deriving Repr, DecidableEq, Inhabited

structure MatchC where
  tokenType : Nat
  span : SpanC
deriving Repr, DecidableEq, Inhabited

structure MatchExtC where
  tokenType : Nat
  span : SpanC
  startPosition : PositionC
  endPosition : PositionC
deriving Repr, DecidableEq, Inhabited

/-! ## Serialize -/

def toJsonLookahead (l : LookaheadC) : Json :=
  .obj [(.isPositive, .bool l.isPositive), (.pattern, .str l.pattern)]

def toJsonPattern (p : PatternC) : Json :=
  .obj ([(.pattern, .str p.pattern), (.tokenType, .num p.tokenType)] ++
    match p.lookahead with
    | none => []
    | some l => [(.lookahead, toJsonLookahead l)])

def toJsonTransition (t : Nat × Nat) : Json := .arr [.num t.1, .num t.2]

def toJsonMode (m : ModeC) : Json :=
  .obj [(.name, .str m.name), (.patterns, .arr (m.patterns.map toJsonPattern)),
        (.transitions, .arr (m.transitions.map toJsonTransition))]

def toJsonModes (ms : List ModeC) : Json := .arr (ms.map toJsonMode)

def toJsonSpan (s : SpanC) : Json := .obj [(.start, .num s.start), (.stop, .num s.stop)]
def toJsonPosition (p : PositionC) : Json := .obj [(.line, .num p.line), (.column, .num p.column)]
def toJsonMatch (m : MatchC) : Json := .obj [(.tokenType, .num m.tokenType), (.span, toJsonSpan m.span)]
def toJsonMatchExt (m : MatchExtC) : Json :=
  .obj [(.tokenType, .num m.tokenType), (.span, toJsonSpan m.span),
        (.startPosition, toJsonPosition m.startPosition), (.endPosition, toJsonPosition m.endPosition)]

/-! ## Deserialize -/

def field (kvs : List (Key × Json)) (k : Key) : Option Json := kvs.lookup k

/-- `usize`: a non-negative integer below 2^64 -/
def asUsize : Json → Option Nat
  | .num n => if n < 18446744073709551616 then some n else none
  | _ => none

def asStr : Json → Option (List Nat)
  | .str s => some s
  | _ => none

def asBool : Json → Option Bool
  | .bool b => some b
  | _ => none

def fromJsonLookahead : Json → Option LookaheadC
  | .obj kvs =>
    match (field kvs .isPositive).bind asBool, (field kvs .pattern).bind asStr with
    | some b, some p => some ⟨b, p⟩
    | _, _ => none
  | _ => none

def fromJsonPattern : Json → Option PatternC
  | .obj kvs =>
    match (field kvs .pattern).bind asStr, (field kvs .tokenType).bind asUsize with
    | some p, some t =>
      match field kvs .lookahead with
      | none => some ⟨p, t, none⟩
      | some .null => some ⟨p, t, none⟩
      | some j => (fromJsonLookahead j).map fun l => ⟨p, t, some l⟩
    | _, _ => none
  | _ => none

def fromJsonTransition : Json → Option (Nat × Nat)
  | .arr [a, b] =>
    match asUsize a, asUsize b with
    | some x, some y => some (x, y)
    | _, _ => none
  | _ => none

def fromJsonMode : Json → Option ModeC
  | .obj kvs =>
    match (field kvs .name).bind asStr, field kvs .patterns, field kvs .transitions with
    | some n, some (.arr ps), some (.arr ts) =>
      match ps.mapM fromJsonPattern, ts.mapM fromJsonTransition with
      | some ps', some ts' => some ⟨n, ps', ts'⟩
      | _, _ => none
    | _, _, _ => none
  | _ => none

def fromJsonModes : Json → Option (List ModeC)
  | .arr ms => ms.mapM fromJsonMode
  | _ => none

def fromJsonSpan : Json → Option SpanC
  | .obj kvs =>
    match (field kvs .start).bind asUsize, (field kvs .stop).bind asUsize with
    | some a, some b => some ⟨a, b⟩
    | _, _ => none
  | _ => none

def fromJsonPosition : Json → Option PositionC
  | .obj kvs =>
    match (field kvs .line).bind asUsize, (field kvs .column).bind asUsize with
    | some a, some b => some ⟨a, b⟩
    | _, _ => none
  | _ => none

def fromJsonMatch : Json → Option MatchC
  | .obj kvs =>
    match (field kvs .tokenType).bind asUsize, (field kvs .span).bind fromJsonSpan with
    | some t, some s => some ⟨t, s⟩
    | _, _ => none
  | _ => none

def fromJsonMatchExt : Json → Option MatchExtC
  | .obj kvs =>
    match (field kvs .tokenType).bind asUsize, (field kvs .span).bind fromJsonSpan,
          (field kvs .startPosition).bind fromJsonPosition, (field kvs .endPosition).bind fromJsonPosition with
    | some t, some s, some a, some b => some ⟨t, s, a, b⟩
    | _, _, _, _ => none
  | _ => none

/-- all numbers of a configuration fit `usize` -/
def ModeC.inRange (m : ModeC) : Bool :=
  m.patterns.all (fun p => decide (p.tokenType < 18446744073709551616)) &&
  m.transitions.all (fun t => decide (t.1 < 18446744073709551616) && decide (t.2 < 18446744073709551616))

end Scnr
