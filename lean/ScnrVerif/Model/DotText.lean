import ScnrVerif.Model.Dot
/-!
# The text layer of the DOT export (C18)

`Model/Dot.lean` models the *structure* of a DOT file written by `compiled_dfa_render`; this file
models the *text*: a lexer and a recursive-descent parser for the DOT language as far as it can
occur in such files (`lexDot`, `parseDot`; a superset of the harness' strict `dotparse.rs`, so
that a harmless rewrite of the crate's writer is not a false alarm), the extraction of the
structure from the parse tree (`decodeDot`: `dotparse.rs::decode` applied to the main graph and, as
the harness does, to every cluster with the node prefix `<tid>_` taken from the cluster label,
lenient about cosmetics), and the writer (`renderDot`: the text `dot-writer` produces for
`compiled_dfa_render`).

Code points are `Nat`, text is `List Nat`. Keywords are written as code-point lists (string literals
do not reduce well in the kernel); `Proofs/DotText.lean` checks each against its string, and lists
what is accepted, rejected and undecodable, and every difference from `dotparse.rs`.
-/
namespace Scnr

/-! ## Decimal numbers (`usize::to_string`, `str::parse::<usize>`) -/

def natDigitsGo : Nat → Nat → List Nat → List Nat
  | 0, _, acc => acc
  | f + 1, n, acc =>
    if n < 10 then (48 + n) :: acc else natDigitsGo f (n / 10) ((48 + n % 10) :: acc)

/-- the decimal digits (as code points) of a number, most significant first; `0` is `"0"` -/
def natDigits (n : Nat) : List Nat := natDigitsGo (n + 1) n []

def isDigit (c : Nat) : Bool := 48 ≤ c && c ≤ 57

def digitsVal : List Nat → Nat → Nat
  | [], acc => acc
  | c :: r, acc => digitsVal r (acc * 10 + (c - 48))

def dropPlus : List Nat → List Nat
  | [] => []
  | c :: r => if c = 43 then r else c :: r

def parseDigits (ds : List Nat) : Option Nat :=
  if ds.isEmpty then none else if ds.all isDigit then some (digitsVal ds 0) else none

/-- `s.parse::<usize>().ok()` (an optional `+`, then one or more ASCII digits), without overflow -/
def parseNat (s : List Nat) : Option Nat := parseDigits (dropPlus s)

/-! ## Lexer

The lexical level of the DOT language: bare identifiers, numerals, quoted strings, the punctuation
`{ } [ ] = , ;`, the edge operator `->`; whitespace and comments (`/* ... */`, `// ...`, lines
starting with `#`) are skipped. -/

inductive DTok where
  /-- a bare ID: identifier (`[A-Za-z_\x80-][A-Za-z_0-9\x80-]*`) or numeral
      (`-?(\.[0-9]+|[0-9]+(\.[0-9]*)?)`), with its text -/
  | id (s : List Nat)
  /-- a quoted string with its raw content (escapes are kept as written) -/
  | str (s : List Nat)
  | lbrace | rbrace | lbrack | rbrack | eq | comma | semi | arrow
deriving Repr, DecidableEq, Inhabited

/-- blank, tab, line feed, vertical tab, form feed, carriage return -/
def isWs (c : Nat) : Bool := (9 ≤ c && c ≤ 13) || c == 32

/-- first character of an identifier: a letter, `_`, or any code point from 0x80 on -/
def isIdStart (c : Nat) : Bool := (65 ≤ c && c ≤ 90) || (97 ≤ c && c ≤ 122) || c == 95 || 128 ≤ c

/-- further characters of an identifier: also digits -/
def isIdChar (c : Nat) : Bool := isIdStart c || isDigit c

def punct (c : Nat) : Option DTok :=
  if c = 123 then some .lbrace else if c = 125 then some .rbrace
  else if c = 91 then some .lbrack else if c = 93 then some .rbrack
  else if c = 61 then some .eq else if c = 44 then some .comma else if c = 59 then some .semi
  else none

/-- Where the lexer stands. Token texts are collected in reverse. -/
inductive LexSt where
  /-- at the beginning of a line (a `#` here starts a preprocessor line) -/
  | bol
  /-- between tokens -/
  | top
  | inStr (acc : List Nat)
  /-- after a backslash inside a string -/
  | inEsc (acc : List Nat)
  | inId (acc : List Nat)
  /-- after `-`: `>` completes the edge operator, a digit or `.` starts a negative numeral -/
  | dash
  /-- in a numeral after a leading `.` (or `-.`): a digit must follow -/
  | numNeed (acc : List Nat)
  /-- in the integer part of a numeral -/
  | numInt (acc : List Nat)
  /-- in the fraction of a numeral -/
  | numFrac (acc : List Nat)
  /-- after `/`: `*` or `/` must follow -/
  | slash
  /-- in a `// ...` comment or a `#` line -/
  | lineC
  /-- in a `/* ... */` comment -/
  | blockC
  /-- in a `/* ... */` comment after a `*` -/
  | blockStar
deriving Repr, DecidableEq, Inhabited

/-- one character between tokens -/
def stepTop (c : Nat) : Option (List DTok × LexSt) :=
  if c = 10 then some ([], .bol)
  else if c = 13 then some ([], .bol)
  else if isWs c then some ([], .top)
  else if c = 34 then some ([], .inStr [])
  else match punct c with
    | some t => some ([t], .top)
    | none =>
      if c = 45 then some ([], .dash)
      else if c = 47 then some ([], .slash)
      else if c = 46 then some ([], .numNeed [c])
      else if isDigit c then some ([], .numInt [c])
      else if isIdStart c then some ([], .inId [c])
      else none

/-- the end of a bare ID: the token, then the character is looked at as between tokens -/
def endTok (acc : List Nat) (c : Nat) : Option (List DTok × LexSt) :=
  match stepTop c with
  | some (out, st) => some (.id acc.reverse :: out, st)
  | none => none

def lexStep : LexSt → Nat → Option (List DTok × LexSt)
  | .bol, c => if c = 35 then some ([], .lineC) else stepTop c
  | .top, c => stepTop c
  | .inStr acc, c =>
    if c = 92 then some ([], .inEsc (c :: acc))
    else if c = 34 then some ([.str acc.reverse], .top)
    else some ([], .inStr (c :: acc))
  | .inEsc acc, c => some ([], .inStr (c :: acc))
  | .inId acc, c => if isIdChar c then some ([], .inId (c :: acc)) else endTok acc c
  | .dash, c =>
    if c = 62 then some ([.arrow], .top)
    else if c = 46 then some ([], .numNeed [c, 45])
    else if isDigit c then some ([], .numInt [c, 45])
    else none
  | .numNeed acc, c => if isDigit c then some ([], .numFrac (c :: acc)) else none
  | .numInt acc, c =>
    if isDigit c then some ([], .numInt (c :: acc))
    else if c = 46 then some ([], .numFrac (c :: acc))
    else if isIdStart c then none
    else endTok acc c
  | .numFrac acc, c =>
    if isDigit c then some ([], .numFrac (c :: acc))
    else if c = 46 then none
    else if isIdStart c then none
    else endTok acc c
  | .slash, c => if c = 42 then some ([], .blockC) else if c = 47 then some ([], .lineC) else none
  | .lineC, c => if c = 10 then some ([], .bol) else if c = 13 then some ([], .bol) else some ([], .lineC)
  | .blockC, c => if c = 42 then some ([], .blockStar) else some ([], .blockC)
  | .blockStar, c =>
    if c = 47 then some ([], .top) else if c = 42 then some ([], .blockStar) else some ([], .blockC)

/-- end of input: fine between tokens, at the end of a bare ID and in a line comment; an open
    string, an open `/*` comment, a lone `-`, `/` or `.` are errors -/
def lexFinish : LexSt → Option (List DTok)
  | .bol => some []
  | .top => some []
  | .lineC => some []
  | .inId acc => some [.id acc.reverse]
  | .numInt acc => some [.id acc.reverse]
  | .numFrac acc => some [.id acc.reverse]
  | _ => none

/-- the tokens are collected in reverse -/
def lexRun : LexSt → List DTok → List Nat → Option (List DTok)
  | st, out, [] =>
    match lexFinish st with
    | some l => some (out.reverse ++ l)
    | none => none
  | st, out, c :: r =>
    match lexStep st c with
    | none => none
    | some (o, st') => lexRun st' (o.reverse ++ out) r

def lexDot (cs : List Nat) : Option (List DTok) := lexRun .bol [] cs

/-! ## Parser

```
graph     : [ strict ] digraph [ ID ] '{' stmt_list '}'
stmt_list : [ stmt [ ';' ] stmt_list ]
stmt      : ID '=' ID | (graph | node | edge) attr_list | ID ( '->' ID )* [ attr_list ]
          | [ subgraph [ ID ] ] '{' stmt_list '}'
attr_list : '[' [ a_list ] ']' [ attr_list ]
a_list    : ID '=' ID [ (';' | ',') ] [ a_list ]
ID        : identifier | numeral | quoted string      (keywords are not IDs)
```
Keywords (`strict`, `graph`, `digraph`, `node`, `edge`, `subgraph`) are case-insensitive. -/

/-- The parse tree: the statements of a `{ ... }` body in order. -/
inductive DStmt where
  /-- graph attribute `k = v` -/
  | attr (k v : List Nat)
  /-- node statement `name [k=v ...]` (no attribute list: `[]`) -/
  | node (name : List Nat) (attrs : List (List Nat × List Nat))
  /-- edge statement `a -> b [k=v ...]`; a chain `a -> b -> c [..]` is the edges `a -> b [..]`,
      `b -> c [..]` -/
  | edge (src dst : List Nat) (attrs : List (List Nat × List Nat))
  /-- `subgraph name { ... }`, `subgraph { ... }`, `{ ... }` (no name: `[]`) -/
  | sub (name : List Nat) (body : List DStmt)
  /-- default attributes `node [..]` / `edge [..]` / `graph [..]` (keyword in lower case) -/
  | dflt (what : List Nat) (attrs : List (List Nat × List Nat))
deriving Inhabited

structure DGraphT where
  stmts : List DStmt
deriving Inhabited

def kwDigraph : List Nat := [100, 105, 103, 114, 97, 112, 104]
def kwSubgraph : List Nat := [115, 117, 98, 103, 114, 97, 112, 104]
def kwStrict : List Nat := [115, 116, 114, 105, 99, 116]
def kwCluster : List Nat := [99, 108, 117, 115, 116, 101, 114]
/-- `cluster_` (what the crate's writer puts in front of the cluster number) -/
def kwClusterPre : List Nat := [99, 108, 117, 115, 116, 101, 114, 95]
def kwLabel : List Nat := [108, 97, 98, 101, 108]
def kwColor : List Nat := [99, 111, 108, 111, 114]
def kwBlue : List Nat := [98, 108, 117, 101]
def kwRed : List Nat := [114, 101, 100]
def kwShape : List Nat := [115, 104, 97, 112, 101]
def kwCircle : List Nat := [99, 105, 114, 99, 108, 101]
def kwPenwidth : List Nat := [112, 101, 110, 119, 105, 100, 116, 104]
def kwThree : List Nat := [51]
def kwRankdir : List Nat := [114, 97, 110, 107, 100, 105, 114]
def kwLR : List Nat := [76, 82]
/-- `" (C#"` -/
def kwClassOpen : List Nat := [32, 40, 67, 35]
/-- `"LA for T"` -/
def kwLaFor : List Nat := [76, 65, 32, 102, 111, 114, 32, 84]
/-- `"Pos)"` -/
def kwPos : List Nat := [80, 111, 115, 41]
/-- `"Neg)"` -/
def kwNeg : List Nat := [78, 101, 103, 41]
def kwNode : List Nat := [110, 111, 100, 101]
def kwEdge : List Nat := [101, 100, 103, 101]
def kwGraph : List Nat := [103, 114, 97, 112, 104]

def lowerChar (c : Nat) : Nat := if 65 ≤ c && c ≤ 90 then c + 32 else c

/-- ASCII lower case (keywords are case-insensitive) -/
def lower (s : List Nat) : List Nat := s.map lowerChar

def isKw (s : List Nat) : Bool :=
  decide (lower s = kwStrict) || decide (lower s = kwGraph) || decide (lower s = kwDigraph)
    || decide (lower s = kwNode) || decide (lower s = kwEdge) || decide (lower s = kwSubgraph)

def isDfltKw (s : List Nat) : Bool :=
  decide (lower s = kwGraph) || decide (lower s = kwNode) || decide (lower s = kwEdge)

/-- an ID: a bare identifier or numeral that is not a keyword, or a quoted string -/
def tokID : DTok → Option (List Nat)
  | .id s => if isKw s then none else some s
  | .str s => some s
  | _ => none

def consAttr (kv : List Nat × List Nat) :
    Option (List (List Nat × List Nat) × List DTok) → Option (List (List Nat × List Nat) × List DTok)
  | some (as, r) => some (kv :: as, r)
  | none => none

/-- attribute lists after the first `[`: entries `ID = ID` separated by `,`, `;` or nothing, up to
    `]`; further lists `[...]` may follow directly and are appended. `sep` says whether a separator
    may come next (directly after an entry). -/
def pAList : Bool → List DTok → Option (List (List Nat × List Nat) × List DTok)
  | _, [] => none
  | _, .rbrack :: r =>
    match r with
    | .lbrack :: r' => pAList false r'
    | _ => some ([], r)
  | sep, .comma :: r => if sep then pAList false r else none
  | sep, .semi :: r => if sep then pAList false r else none
  | _, k :: .eq :: v :: r =>
    match tokID k, tokID v with
    | some key, some val => consAttr (key, val) (pAList true r)
    | _, _ => none
  | _, _ => none

/-- `[ attr_list ]` -/
def pOptAttrs : List DTok → Option (List (List Nat × List Nat) × List DTok)
  | .lbrack :: r => pAList false r
  | ts => some ([], ts)

/-- `( '->' ID )*` -/
def pTargets : List DTok → Option (List (List Nat) × List DTok)
  | .arrow :: r =>
    match r with
    | [] => none
    | t :: r' =>
      match tokID t with
      | none => none
      | some b =>
        match pTargets r' with
        | some (bs, r'') => some (b :: bs, r'')
        | none => none
  | ts => some ([], ts)

/-- the edges of a chain `a -> b -> c ...`, all with the same attributes -/
def chainEdges (a : List Nat) (attrs : List (List Nat × List Nat)) : List (List Nat) → List DStmt
  | [] => []
  | b :: bs => .edge a b attrs :: chainEdges b attrs bs

/-- after an ID `a`: `= ID` (graph attribute), or `( '->' ID )* [ attr_list ]` (node or edges) -/
def pNamed (a : List Nat) : List DTok → Option (List DStmt × List DTok)
  | .eq :: v :: r =>
    match tokID v with
    | some val => some ([.attr a val], r)
    | none => none
  | ts =>
    match pTargets ts with
    | none => none
    | some (bs, r1) =>
      match pOptAttrs r1 with
      | none => none
      | some (as, r2) => some (if bs.isEmpty then [.node a as] else chainEdges a as bs, r2)

/-- after `graph` / `node` / `edge`: an attribute list -/
def pDflt (what : List Nat) : List DTok → Option (List DStmt × List DTok)
  | .lbrack :: r =>
    match pAList false r with
    | some (as, r') => some ([.dflt what as], r')
    | none => none
  | _ => none

/-- a statement that is neither a subgraph nor a block, starting with token `t` -/
def pSimple (t : DTok) (r : List DTok) : Option (List DStmt × List DTok) :=
  match t with
  | .id s => if isDfltKw s then pDflt (lower s) r else if isKw s then none else pNamed s r
  | .str s => pNamed s r
  | _ => none

/-- after `subgraph`: `[ ID ] '{'` -/
def pSubHead : List DTok → Option (List Nat × List DTok)
  | .lbrace :: r => some ([], r)
  | t :: .lbrace :: r =>
    match tokID t with
    | some n => some (n, r)
    | none => none
  | _ => none

/-- the optional `;` after a statement -/
def dropSemi : List DTok → List DTok
  | .semi :: r => r
  | ts => ts

def isSubgraphKw : DTok → Bool
  | .id s => decide (lower s = kwSubgraph)
  | _ => false

/-- `n.starts_with(p)` -/
def startsWith : List Nat → List Nat → Bool
  | [], _ => true
  | _ :: _, [] => false
  | p :: ps, c :: s => p == c && startsWith ps s

/-- `stmt_list '}'`: statements up to and including the matching `}`; returns the rest of the
    tokens. Every call consumes a token, so fuel = number of tokens never runs out
    (`Proofs/DotText.lean`: `pStmts_fuel`). -/
def pStmts : Nat → List DTok → Option (List DStmt × List DTok)
  | 0, _ => none
  | _ + 1, [] => none
  | f + 1, t :: r =>
    match t with
    | .rbrace => some ([], r)
    | .lbrace =>
      match pStmts f r with
      | none => none
      | some (body, r2) =>
        match pStmts f (dropSemi r2) with
        | none => none
        | some (ss, r3) => some (.sub [] body :: ss, r3)
    | _ =>
      if isSubgraphKw t then
        match pSubHead r with
        | none => none
        | some (name, r1) =>
          match pStmts f r1 with
          | none => none
          | some (body, r2) =>
            match pStmts f (dropSemi r2) with
            | none => none
            | some (ss, r3) => some (.sub name body :: ss, r3)
      else
        match pSimple t r with
        | none => none
        | some (sts, r1) =>
          match pStmts f (dropSemi r1) with
          | none => none
          | some (ss, r2) => some (sts ++ ss, r2)

/-- the optional `strict` -/
def dropStrict : List DTok → List DTok
  | .id s :: r => if lower s = kwStrict then r else .id s :: r
  | ts => ts

/-- the optional graph ID before the `{` -/
def dropGraphId : List DTok → List DTok
  | [] => []
  | t :: r =>
    match tokID t with
    | some _ => r
    | none => t :: r

/-- `'{' stmt_list '}'` and nothing after it -/
def parseBody : List DTok → Option DGraphT
  | .lbrace :: r =>
    match pStmts (r.length + 2) r with
    | some (ss, []) => some ⟨ss⟩
    | _ => none
  | _ => none

def parseHeader : List DTok → Option DGraphT
  | .id s :: r => if lower s = kwDigraph then parseBody (dropGraphId r) else none
  | _ => none

/-- exactly one `[strict] digraph [ID] { stmts }` -/
def parseToks (ts : List DTok) : Option DGraphT := parseHeader (dropStrict ts)

def parseDot (cs : List Nat) : Option DGraphT :=
  match lexDot cs with
  | some ts => parseToks ts
  | none => none

/-! ## Decoding the parse tree -/

/-- `attr`: the first attribute with that name -/
def lookupAttr (k : List Nat) : List (List Nat × List Nat) → Option (List Nat)
  | [] => none
  | kv :: r => if kv.1 = k then some kv.2 else lookupAttr k r

/-- `s.strip_prefix(p)` -/
def stripPrefix : List Nat → List Nat → Option (List Nat)
  | [], s => some s
  | _ :: _, [] => none
  | p :: ps, c :: s => if p = c then stripPrefix ps s else none

/-- `id_of` -/
def idOf (pre name : List Nat) : Option Nat :=
  match stripPrefix pre name with
  | some s => parseNat s
  | none => none

/-- the token type of an accepting label `"<id> T<tid>"` -/
def acceptingTid (id : Nat) (label : List Nat) : Option Nat :=
  match stripPrefix (natDigits id ++ [32, 84]) label with
  | none => none
  | some s => parseNat s

/-- The kind of a node comes from its label and its number only: `"<id> T<tid>"` is an accepting
    node, otherwise the label must be `"<id>"`, and node 0 is the start node. All other attributes
    (`shape`, `color`, `penwidth`, anything unknown) are cosmetics and ignored. -/
def decodeNode (pre name : List Nat) (attrs : List (List Nat × List Nat)) : Option DNode :=
  match idOf pre name with
  | none => none
  | some id =>
    match lookupAttr kwLabel attrs with
    | none => none
    | some label =>
      match acceptingTid id label with
      | some t => some ⟨id, 2, t⟩
      | none =>
        if label = natDigits id then (if id = 0 then some ⟨id, 1, 0⟩ else some ⟨id, 0, 0⟩)
        else none

/-- what follows the last occurrence of `pat` in `s` (`s[s.rfind(pat)? + pat.len()..]`) -/
def afterLast (pat : List Nat) : List Nat → Option (List Nat)
  | [] => none
  | c :: r =>
    match afterLast pat r with
    | some x => some x
    | none => stripPrefix pat (c :: r)

/-- `s.strip_suffix(c)` -/
def stripSuffixChar (c : Nat) (s : List Nat) : Option (List Nat) :=
  match s.reverse with
  | [] => none
  | x :: r => if x = c then some r.reverse else none

/-- the class id of an edge label `"<class text> (C#<id>)"` -/
def edgeClass (label : List Nat) : Option Nat :=
  match afterLast kwClassOpen label with
  | none => none
  | some t =>
    match stripSuffixChar 41 t with
    | none => none
    | some ds => parseNat ds

def decodeEdge (pre src dst : List Nat) (attrs : List (List Nat × List Nat)) : Option DEdge :=
  match lookupAttr kwLabel attrs with
  | none => none
  | some label =>
    match edgeClass label with
    | none => none
    | some cc =>
      match idOf pre src, idOf pre dst with
      | some a, some b => some ⟨a, b, cc⟩
      | _, _ => none

/-- clusters are the subgraphs whose name starts with `cluster`; every other subgraph (and a
    bare `{ ... }` block) only groups statements of the enclosing graph -/
def isCluster (name : List Nat) : Bool := startsWith kwCluster name

mutual
/-- the nodes of a (sub)graph in the order of the file, including those inside non-cluster
    subgraphs; clusters are separate graphs and not looked into -/
def decodeNodes (pre : List Nat) : List DStmt → Option (List DNode)
  | [] => some []
  | s :: r =>
    match decodeNodesStmt pre s, decodeNodes pre r with
    | some a, some b => some (a ++ b)
    | _, _ => none
def decodeNodesStmt (pre : List Nat) : DStmt → Option (List DNode)
  | .node name attrs =>
    match decodeNode pre name attrs with
    | some n => some [n]
    | none => none
  | .sub name body => if isCluster name then some [] else decodeNodes pre body
  | _ => some []
end

mutual
def decodeEdges (pre : List Nat) : List DStmt → Option (List DEdge)
  | [] => some []
  | s :: r =>
    match decodeEdgesStmt pre s, decodeEdges pre r with
    | some a, some b => some (a ++ b)
    | _, _ => none
def decodeEdgesStmt (pre : List Nat) : DStmt → Option (List DEdge)
  | .edge src dst attrs =>
    match decodeEdge pre src dst attrs with
    | some e => some [e]
    | none => none
  | .sub name body => if isCluster name then some [] else decodeEdges pre body
  | _ => some []
end

/-- `decode(g, prefix)` on the statements of one (sub)graph; nested subgraphs are not looked at -/
def decodeGraph (pre : List Nat) (ss : List DStmt) : Option DGraph :=
  match decodeNodes pre ss, decodeEdges pre ss with
  | some ns, some es => some ⟨ns, es⟩
  | _, _ => none

/-- the last `label` of an attribute list, `cur` if there is none -/
def lastAttrLabel : List (List Nat × List Nat) → List Nat → List Nat
  | [], cur => cur
  | kv :: r, cur => if kv.1 = kwLabel then lastAttrLabel r kv.2 else lastAttrLabel r cur

/-- the label of a (sub)graph: the value of the last `label = ...` statement or
    `graph [label = ...]` entry among its own statements, `""` if there is none -/
def lastLabel : List DStmt → List Nat → List Nat
  | [], cur => cur
  | .attr k v :: r, cur => if k = kwLabel then lastLabel r v else lastLabel r cur
  | .dflt what as :: r, cur =>
    if what = kwGraph then lastLabel r (lastAttrLabel as cur) else lastLabel r cur
  | _ :: r, cur => lastLabel r cur

/-- `s.split_once(c)` -/
def splitOnce (c : Nat) : List Nat → Option (List Nat × List Nat)
  | [] => none
  | x :: r =>
    if x = c then some ([], r)
    else match splitOnce c r with
      | some (a, b) => some (x :: a, b)
      | none => none

/-- `"LA for T<tid>(Pos|Neg)"` -/
def clusterLabel (label : List Nat) : Option (Nat × Bool) :=
  match stripPrefix kwLaFor label with
  | none => none
  | some s =>
    match splitOnce 40 s with
    | none => none
    | some (t, pol) =>
      if pol = kwPos then (match parseNat t with | some n => some (n, true) | none => none)
      else if pol = kwNeg then (match parseNat t with | some n => some (n, false) | none => none)
      else none

def decodeCluster (body : List DStmt) : Option DCluster :=
  match clusterLabel (lastLabel body []) with
  | none => none
  | some (tid, pos) =>
    match decodeGraph (natDigits tid ++ [95]) body with
    | some g => some ⟨tid, pos, g⟩
    | none => none

mutual
/-- the clusters of the graph in the order of the file (also those inside non-cluster subgraphs;
    clusters inside clusters are not looked at) -/
def decodeClusters : List DStmt → Option (List DCluster)
  | [] => some []
  | s :: r =>
    match decodeClustersStmt s, decodeClusters r with
    | some a, some b => some (a ++ b)
    | _, _ => none
def decodeClustersStmt : DStmt → Option (List DCluster)
  | .sub name body =>
    if isCluster name then
      match decodeCluster body with
      | some c => some [c]
      | none => none
    else decodeClusters body
  | _ => some []
end

def decodeDot (t : DGraphT) : Option DotDoc :=
  match decodeGraph [] t.stmts, decodeClusters t.stmts with
  | some g, some cs => some ⟨g, cs⟩
  | _, _ => none

/-! ## Writer -/

def quoted (s : List Nat) : List Nat := 34 :: (s ++ [34])

/-- `shape=circle, color=` -/
def txtShapeColor : List Nat :=
  [115, 104, 97, 112, 101, 61, 99, 105, 114, 99, 108, 101, 44, 32, 99, 111, 108, 111, 114, 61]
/-- `, penwidth=3, label=` -/
def txtPenLabel : List Nat :=
  [44, 32, 112, 101, 110, 119, 105, 100, 116, 104, 61, 51, 44, 32, 108, 97, 98, 101, 108, 61]
/-- `label=` -/
def txtLabelEq : List Nat := [108, 97, 98, 101, 108, 61]

/-- the attribute list of a node (between `[` and `]`) -/
def renderNodeAttrs (n : DNode) : List Nat :=
  if n.kind = 1 then txtShapeColor ++ kwBlue ++ txtPenLabel ++ quoted (natDigits n.id)
  else if n.kind = 2 then
    txtShapeColor ++ kwRed ++ txtPenLabel ++ quoted (natDigits n.id ++ [32, 84] ++ natDigits n.tid)
  else txtLabelEq ++ quoted (natDigits n.id)

/-- `<indent>"<prefix><id>" [<attrs>];\n` -/
def renderNode (ind pre : List Nat) (n : DNode) : List Nat :=
  ind ++ quoted (pre ++ natDigits n.id) ++ [32, 91] ++ renderNodeAttrs n ++ [93, 59, 10]

/-- `<indent>"<prefix><src>" -> "<prefix><dst>" [label="<class> (C#<cc>)"];\n` -/
def renderEdge (ind pre : List Nat) (edgeText : Nat → List Nat) (e : DEdge) : List Nat :=
  ind ++ quoted (pre ++ natDigits e.src) ++ [32, 45, 62, 32] ++ quoted (pre ++ natDigits e.dst)
    ++ [32, 91] ++ txtLabelEq ++ quoted (edgeText e.cc ++ kwClassOpen ++ natDigits e.cc ++ [41])
    ++ [93, 59, 10]

def renderNodes (ind pre : List Nat) : List DNode → List Nat
  | [] => []
  | n :: r => renderNode ind pre n ++ renderNodes ind pre r

def renderEdges (ind pre : List Nat) (edgeText : Nat → List Nat) : List DEdge → List Nat
  | [] => []
  | e :: r => renderEdge ind pre edgeText e ++ renderEdges ind pre edgeText r

/-- `render_compiled_dfa`: all nodes, then all edges -/
def renderGraph (ind pre : List Nat) (edgeText : Nat → List Nat) (g : DGraph) : List Nat :=
  renderNodes ind pre g.nodes ++ renderEdges ind pre edgeText g.edges

def ind2 : List Nat := [32, 32]
def ind4 : List Nat := [32, 32, 32, 32]

/-- `LA for T<tid>(Pos|Neg)` -/
def clusterLabelText (c : DCluster) : List Nat :=
  kwLaFor ++ natDigits c.tid ++ [40] ++ (if c.positive then kwPos else kwNeg)

/-- ```
      subgraph cluster_<k> {
        label="LA for T<tid>(Pos|Neg)";
        ...
      }
    ``` -/
def renderCluster (edgeText : Nat → List Nat) (k : Nat) (c : DCluster) : List Nat :=
  ind2 ++ kwSubgraph ++ [32] ++ kwClusterPre ++ natDigits k ++ [32, 123, 10]
    ++ ind4 ++ txtLabelEq ++ quoted (clusterLabelText c) ++ [59, 10]
    ++ renderGraph ind4 (natDigits c.tid ++ [95]) edgeText c.g
    ++ ind2 ++ [125, 10]

def renderClusters (edgeText : Nat → List Nat) : Nat → List DCluster → List Nat
  | _, [] => []
  | k, c :: r => renderCluster edgeText k c ++ renderClusters edgeText (k + 1) r

/-- The file `compiled_dfa_render` writes for a document: `title` is the (escaped) graph label
    `<mode>: <pattern>...`, `edgeText cc` the (escaped) printed class `cc`. -/
def renderDot (title : List Nat) (edgeText : Nat → List Nat) (d : DotDoc) : List Nat :=
  kwDigraph ++ [32, 123, 10]
    ++ ind2 ++ txtLabelEq ++ quoted title ++ [59, 10]
    ++ ind2 ++ kwRankdir ++ [61] ++ kwLR ++ [59, 10]
    ++ renderGraph ind2 [] edgeText d.main
    ++ renderClusters edgeText 0 d.clusters
    ++ [125, 10]

/-! ## Side conditions of the round trip -/

def strSafeGo : Bool → List Nat → Bool
  | esc, [] => !esc
  | true, _ :: r => strSafeGo false r
  | false, c :: r => if c = 92 then strSafeGo true r else if c = 34 then false else strSafeGo false r

/-- The content of a quoted string is read back as written: no unescaped `"` and no backslash at
    the very end (it would escape the closing quote). Inside a quoted string the lexer accepts
    every other character, so there is no third condition. -/
def strSafe (s : List Nat) : Bool := strSafeGo false s

def nodesOKFrom : Nat → List DNode → Bool
  | _, [] => true
  | i, n :: r =>
    n.id == i && (n.kind == 0 || n.kind == 1 || n.kind == 2) && (i != 0 || n.kind == 1)
      && (n.kind != 1 || i == 0) && (n.kind == 2 || n.tid == 0) && nodesOKFrom (i + 1) r

/-- node ids are `0..n-1` in order, node 0 is the start node and the only one, kinds are 0 (plain),
    1 (start), 2 (accepting), only accepting nodes carry a token type, edges connect existing nodes -/
def DGraph.textOK (g : DGraph) : Bool :=
  nodesOKFrom 0 g.nodes
    && g.edges.all fun e => decide (e.src < g.nodes.length) && decide (e.dst < g.nodes.length)

/-- every graph of the document is well-formed; the token types of the clusters are arbitrary -/
def DotDoc.textOK (d : DotDoc) : Bool :=
  d.main.textOK && d.clusters.all fun c => c.g.textOK

end Scnr
