import ScnrVerif.Model.Dot
/-!
# The text layer of the DOT export (C18)

`Model/Dot.lean` models the *structure* of a DOT file written by `compiled_dfa_render`; this file
models the *text*: a lexer and a recursive-descent parser for the DOT subset (a port of the
harness' `dotparse.rs`: `lexDot` = `lex`, `parseDot` = `parse`), the extraction of the structure
from the parse tree (`decodeDot` = `decode` applied to the main graph and, as the harness does, to
every cluster with the node prefix `<tid>_` taken from the cluster label), and the writer
(`renderDot`: the text `dot-writer` produces for `compiled_dfa_render`).

Code points are `Nat`, text is `List Nat`. Keywords are written as code-point lists (string literals
do not reduce well in the kernel); `Proofs/DotText.lean` checks each against its string.

Deliberate differences from `dotparse.rs` (all listed again in `Proofs/DotText.lean`):
* `char::is_alphanumeric` is taken for ASCII only (outside of quoted strings a non-ASCII letter or
  digit is rejected here; the crate writes non-ASCII characters only inside quoted strings);
  `char::is_whitespace` is the full Unicode `White_Space` set;
* `str::parse::<usize>` has no overflow check here (numbers are unbounded `Nat`);
* `decode` sorts the nodes and the edges (and the harness sorts the clusters by token type) because
  it compares pictures as sets; `decodeDot` keeps the order of the document, which is finer;
* `Graph` keeps only the last `label` of a (sub)graph and drops all other graph attributes and the
  cluster names; the parse tree `DGraphT` keeps every statement in order, and `decodeDot` looks up
  the last `label`;
* `decodeDot` is lenient about cosmetics: the kind of a node is read from its label and number
  only (`"<id> T<tid>"` accepting, else `"<id>"` with start = node 0), where `decode` reads it from
  `color` (blue / red / none, anything else an error); `shape`, `color`, `penwidth` and unknown
  attributes are ignored;
* the parser additionally accepts default-attribute statements `node [..];`, `edge [..];`,
  `graph [..];` (`DStmt.dflt`, ignored by `decodeDot`), which `dotparse.rs` rejects.
-/
namespace Scnr

/-! ## Decimal numbers (`usize::to_string`, `str::parse::<usize>`) -/

def natDigitsGo : Nat → Nat → List Nat → List Nat
  | 0, _, acc => acc
  | f + 1, n, acc =>
    if n < 10 then (48 + n) :: acc else natDigitsGo f (n / 10) ((48 + n % 10) :: acc)

/-- the decimal digits (as code points) of a number, most significant first; `0` is `"0"` -/
def natDigits (n : Nat) : List Nat := natDigitsGo (n + 1) n []

def isDigit (c : Nat) : Bool := 48 ≤ c && c ≤ 57

def digitsVal : List Nat → Nat → Nat
  | [], acc => acc
  | c :: r, acc => digitsVal r (acc * 10 + (c - 48))

def dropPlus : List Nat → List Nat
  | [] => []
  | c :: r => if c = 43 then r else c :: r

def parseDigits (ds : List Nat) : Option Nat :=
  if ds.isEmpty then none else if ds.all isDigit then some (digitsVal ds 0) else none

/-- `s.parse::<usize>().ok()` (an optional `+`, then one or more ASCII digits), without overflow -/
def parseNat (s : List Nat) : Option Nat := parseDigits (dropPlus s)

/-! ## Lexer -/

inductive DTok where
  | id (s : List Nat)
  /-- a quoted string with its raw content (escapes are kept as written) -/
  | str (s : List Nat)
  | lbrace | rbrace | lbrack | rbrack | eq | comma | semi | arrow
deriving Repr, DecidableEq, Inhabited

/-- `char::is_whitespace` (Unicode `White_Space`) -/
def isWs (c : Nat) : Bool :=
  (9 ≤ c && c ≤ 13) || c == 32 || c == 0x85 || c == 0xA0 || c == 0x1680 || (0x2000 ≤ c && c ≤ 0x200A)
    || c == 0x2028 || c == 0x2029 || c == 0x202F || c == 0x205F || c == 0x3000

/-- `c.is_alphanumeric() || c == '_' || c == '.'`, alphanumerics restricted to ASCII -/
def isIdChar (c : Nat) : Bool :=
  (48 ≤ c && c ≤ 57) || (65 ≤ c && c ≤ 90) || (97 ≤ c && c ≤ 122) || c == 95 || c == 46

def punct (c : Nat) : Option DTok :=
  if c = 123 then some .lbrace else if c = 125 then some .rbrace
  else if c = 91 then some .lbrack else if c = 93 then some .rbrack
  else if c = 61 then some .eq else if c = 44 then some .comma else if c = 59 then some .semi
  else none

/-- Where the loops of `lex` stand: between tokens, inside a quoted string (content so far,
    reversed), after a backslash inside a string, inside an identifier, after a `-`. -/
inductive LexSt where
  | top
  | inStr (acc : List Nat)
  | inEsc (acc : List Nat)
  | inId (acc : List Nat)
  | dash
deriving Repr, DecidableEq, Inhabited

/-- one character between tokens: the `if` chain of `lex` -/
def stepTop (c : Nat) : Option (List DTok × LexSt) :=
  if isWs c then some ([], .top)
  else if c = 34 then some ([], .inStr [])
  else match punct c with
    | some t => some ([t], .top)
    | none =>
      if c = 45 then some ([], .dash)
      else if isIdChar c then some ([], .inId [c])
      else none

def lexStep : LexSt → Nat → Option (List DTok × LexSt)
  | .top, c => stepTop c
  | .inStr acc, c =>
    if c = 92 then some ([], .inEsc (c :: acc))
    else if c = 34 then some ([.str acc.reverse], .top)
    else some ([], .inStr (c :: acc))
  | .inEsc acc, c => some ([], .inStr (c :: acc))
  | .inId acc, c =>
    if isIdChar c then some ([], .inId (c :: acc))
    else match stepTop c with
      | some (out, st) => some (.id acc.reverse :: out, st)
      | none => none
  | .dash, c => if c = 62 then some ([.arrow], .top) else none

/-- end of input: fine between tokens and at the end of an identifier; an open string, a dangling
    backslash and a lone `-` are errors -/
def lexFinish : LexSt → Option (List DTok)
  | .top => some []
  | .inId acc => some [.id acc.reverse]
  | _ => none

/-- the tokens are collected in reverse -/
def lexRun : LexSt → List DTok → List Nat → Option (List DTok)
  | st, out, [] =>
    match lexFinish st with
    | some l => some (out.reverse ++ l)
    | none => none
  | st, out, c :: r =>
    match lexStep st c with
    | none => none
    | some (o, st') => lexRun st' (o.reverse ++ out) r

def lexDot (cs : List Nat) : Option (List DTok) := lexRun .top [] cs

/-! ## Parser -/

/-- The parse tree: the statements of a `{ ... }` body in order. -/
inductive DStmt where
  /-- graph attribute `k = v ;` -/
  | attr (k v : List Nat)
  /-- node statement `"name" [k=v, ...] ;` (no attribute list: `[]`) -/
  | node (name : List Nat) (attrs : List (List Nat × List Nat))
  /-- edge statement `"a" -> "b" [k=v, ...] ;` -/
  | edge (src dst : List Nat) (attrs : List (List Nat × List Nat))
  /-- `subgraph cluster_... { ... }` -/
  | sub (name : List Nat) (body : List DStmt)
  /-- default attributes `node [k=v, ...] ;` / `edge [...] ;` / `graph [...] ;` (not written by the
      crate and not accepted by `dotparse.rs`; accepted here so that restyled files still decode) -/
  | dflt (what : List Nat) (attrs : List (List Nat × List Nat))
deriving Inhabited

structure DGraphT where
  stmts : List DStmt
deriving Inhabited

def kwDigraph : List Nat := [100, 105, 103, 114, 97, 112, 104]
def kwSubgraph : List Nat := [115, 117, 98, 103, 114, 97, 112, 104]
def kwClusterPre : List Nat := [99, 108, 117, 115, 116, 101, 114, 95]
def kwLabel : List Nat := [108, 97, 98, 101, 108]
def kwColor : List Nat := [99, 111, 108, 111, 114]
def kwBlue : List Nat := [98, 108, 117, 101]
def kwRed : List Nat := [114, 101, 100]
def kwShape : List Nat := [115, 104, 97, 112, 101]
def kwCircle : List Nat := [99, 105, 114, 99, 108, 101]
def kwPenwidth : List Nat := [112, 101, 110, 119, 105, 100, 116, 104]
def kwThree : List Nat := [51]
def kwRankdir : List Nat := [114, 97, 110, 107, 100, 105, 114]
def kwLR : List Nat := [76, 82]
/-- `" (C#"` -/
def kwClassOpen : List Nat := [32, 40, 67, 35]
/-- `"LA for T"` -/
def kwLaFor : List Nat := [76, 65, 32, 102, 111, 114, 32, 84]
/-- `"Pos)"` -/
def kwPos : List Nat := [80, 111, 115, 41]
/-- `"Neg)"` -/
def kwNeg : List Nat := [78, 101, 103, 41]
def kwNode : List Nat := [110, 111, 100, 101]
def kwEdge : List Nat := [101, 100, 103, 101]
def kwGraph : List Nat := [103, 114, 97, 112, 104]

/-- `P::value`: an identifier or a quoted string -/
def tokValue : DTok → Option (List Nat)
  | .id s => some s
  | .str s => some s
  | _ => none

/-- `P::attrs` after the `[`: `k = v (, k = v)* ]` (at least one attribute) -/
def pAttrs : List DTok → Option (List (List Nat × List Nat) × List DTok)
  | .id k :: .eq :: v :: sep :: r =>
    match tokValue v with
    | none => none
    | some val =>
      match sep with
      | .comma =>
        match pAttrs r with
        | some (as, r') => some ((k, val) :: as, r')
        | none => none
      | .rbrack => some ([(k, val)], r)
      | _ => none
  | _ => none

/-- `if self.peek() == Some(&Tok::LBrack) { self.attrs()? } else { vec![] }` -/
def pOptAttrs : List DTok → Option (List (List Nat × List Nat) × List DTok)
  | .lbrack :: r => pAttrs r
  | ts => some ([], ts)

/-- after `id`: `= value ;` -/
def pAttrStmt (k : List Nat) : List DTok → Option (DStmt × List DTok)
  | .eq :: v :: .semi :: r =>
    match tokValue v with
    | some val => some (.attr k val, r)
    | none => none
  | _ => none

def pAttrsSemi (ts : List DTok) : Option (List (List Nat × List Nat) × List DTok) :=
  match pOptAttrs ts with
  | some (as, .semi :: r) => some (as, r)
  | _ => none

/-- after `node` / `edge` / `graph`: a non-empty attribute list and `;` (default attributes) -/
def pDfltStmt (k : List Nat) : List DTok → Option (DStmt × List DTok)
  | .lbrack :: r =>
    match pAttrs r with
    | some (as, .semi :: r') => some (.dflt k as, r')
    | _ => none
  | _ => none

def isDfltKw (k : List Nat) : Bool := k == kwNode || k == kwEdge || k == kwGraph

/-- a statement starting with an identifier other than `subgraph`: a graph attribute
    `id = value ;` (this is all `dotparse.rs` accepts here) or default attributes
    `node [..] ;` / `edge [..] ;` / `graph [..] ;` -/
def pIdStmt (k : List Nat) (ts : List DTok) : Option (DStmt × List DTok) :=
  match pAttrStmt k ts with
  | some x => some x
  | none => if isDfltKw k then pDfltStmt k ts else none

/-- after a quoted name: an edge (`-> "target" [attrs] ;`) or a node (`[attrs] ;`) -/
def pStrStmt (name : List Nat) : List DTok → Option (DStmt × List DTok)
  | .arrow :: .str dst :: r =>
    match pAttrsSemi r with
    | some (as, r') => some (.edge name dst as, r')
    | none => none
  | .arrow :: _ => none
  | ts =>
    match pAttrsSemi ts with
    | some (as, r') => some (.node name as, r')
    | none => none

/-- `n.starts_with(p)` -/
def startsWith : List Nat → List Nat → Bool
  | [], _ => true
  | _ :: _, [] => false
  | p :: ps, c :: s => p == c && startsWith ps s

/-- after `subgraph`: a name starting with `cluster_` and the `{` of the body -/
def pClusterHead : List DTok → Option (List Nat × List DTok)
  | .id n :: .lbrace :: r => if startsWith kwClusterPre n then some (n, r) else none
  | _ => none

/-- `P::body` after its `{`: statements up to and including the matching `}`; returns the rest of
    the tokens. Every call consumes a token, so fuel = number of tokens never runs out
    (`Proofs/DotText.lean`: `pStmts_fuel`). -/
def pStmts : Nat → List DTok → Option (List DStmt × List DTok)
  | 0, _ => none
  | _ + 1, [] => none
  | f + 1, t :: r =>
    match t with
    | .rbrace => some ([], r)
    | .id s =>
      if s = kwSubgraph then
        match pClusterHead r with
        | none => none
        | some (name, r1) =>
          match pStmts f r1 with
          | none => none
          | some (body, r2) =>
            match pStmts f r2 with
            | none => none
            | some (ss, r3) => some (.sub name body :: ss, r3)
      else
        match pIdStmt s r with
        | none => none
        | some (st, r1) =>
          match pStmts f r1 with
          | none => none
          | some (ss, r2) => some (st :: ss, r2)
    | .str name =>
      match pStrStmt name r with
      | none => none
      | some (st, r1) =>
        match pStmts f r1 with
        | none => none
        | some (ss, r2) => some (st :: ss, r2)
    | _ => none

/-- `parse` on tokens: exactly `digraph { stmts }` (no graph name, nothing after the `}`) -/
def parseToks : List DTok → Option DGraphT
  | .id s :: .lbrace :: r =>
    if s = kwDigraph then
      match pStmts (r.length + 2) r with
      | some (ss, []) => some ⟨ss⟩
      | _ => none
    else none
  | _ => none

def parseDot (cs : List Nat) : Option DGraphT :=
  match lexDot cs with
  | some ts => parseToks ts
  | none => none

/-! ## Decoding the parse tree -/

/-- `attr`: the first attribute with that name -/
def lookupAttr (k : List Nat) : List (List Nat × List Nat) → Option (List Nat)
  | [] => none
  | kv :: r => if kv.1 = k then some kv.2 else lookupAttr k r

/-- `s.strip_prefix(p)` -/
def stripPrefix : List Nat → List Nat → Option (List Nat)
  | [], s => some s
  | _ :: _, [] => none
  | p :: ps, c :: s => if p = c then stripPrefix ps s else none

/-- `id_of` -/
def idOf (pre name : List Nat) : Option Nat :=
  match stripPrefix pre name with
  | some s => parseNat s
  | none => none

/-- the token type of an accepting label `"<id> T<tid>"` -/
def acceptingTid (id : Nat) (label : List Nat) : Option Nat :=
  match stripPrefix (natDigits id ++ [32, 84]) label with
  | none => none
  | some s => parseNat s

/-- The kind of a node comes from its label and its number only: `"<id> T<tid>"` is an accepting
    node, otherwise the label must be `"<id>"`, and node 0 is the start node. All other attributes
    (`shape`, `color`, `penwidth`, anything unknown) are cosmetics and ignored. -/
def decodeNode (pre name : List Nat) (attrs : List (List Nat × List Nat)) : Option DNode :=
  match idOf pre name with
  | none => none
  | some id =>
    match lookupAttr kwLabel attrs with
    | none => none
    | some label =>
      match acceptingTid id label with
      | some t => some ⟨id, 2, t⟩
      | none =>
        if label = natDigits id then (if id = 0 then some ⟨id, 1, 0⟩ else some ⟨id, 0, 0⟩)
        else none

/-- what follows the last occurrence of `pat` in `s` (`s[s.rfind(pat)? + pat.len()..]`) -/
def afterLast (pat : List Nat) : List Nat → Option (List Nat)
  | [] => none
  | c :: r =>
    match afterLast pat r with
    | some x => some x
    | none => stripPrefix pat (c :: r)

/-- `s.strip_suffix(c)` -/
def stripSuffixChar (c : Nat) (s : List Nat) : Option (List Nat) :=
  match s.reverse with
  | [] => none
  | x :: r => if x = c then some r.reverse else none

/-- the class id of an edge label `"<class text> (C#<id>)"` -/
def edgeClass (label : List Nat) : Option Nat :=
  match afterLast kwClassOpen label with
  | none => none
  | some t =>
    match stripSuffixChar 41 t with
    | none => none
    | some ds => parseNat ds

def decodeEdge (pre src dst : List Nat) (attrs : List (List Nat × List Nat)) : Option DEdge :=
  match lookupAttr kwLabel attrs with
  | none => none
  | some label =>
    match edgeClass label with
    | none => none
    | some cc =>
      match idOf pre src, idOf pre dst with
      | some a, some b => some ⟨a, b, cc⟩
      | _, _ => none

def decodeNodes (pre : List Nat) : List DStmt → Option (List DNode)
  | [] => some []
  | .node name attrs :: r =>
    match decodeNode pre name attrs, decodeNodes pre r with
    | some n, some ns => some (n :: ns)
    | _, _ => none
  | _ :: r => decodeNodes pre r

def decodeEdges (pre : List Nat) : List DStmt → Option (List DEdge)
  | [] => some []
  | .edge src dst attrs :: r =>
    match decodeEdge pre src dst attrs, decodeEdges pre r with
    | some e, some es => some (e :: es)
    | _, _ => none
  | _ :: r => decodeEdges pre r

/-- `decode(g, prefix)` on the statements of one (sub)graph; nested subgraphs are not looked at -/
def decodeGraph (pre : List Nat) (ss : List DStmt) : Option DGraph :=
  match decodeNodes pre ss, decodeEdges pre ss with
  | some ns, some es => some ⟨ns, es⟩
  | _, _ => none

/-- `Graph::label`: the value of the last `label = ...` statement, `""` if there is none
    (`c.label.clone().unwrap_or_default()`) -/
def lastLabel : List DStmt → List Nat → List Nat
  | [], cur => cur
  | .attr k v :: r, cur => if k = kwLabel then lastLabel r v else lastLabel r cur
  | _ :: r, cur => lastLabel r cur

/-- `s.split_once(c)` -/
def splitOnce (c : Nat) : List Nat → Option (List Nat × List Nat)
  | [] => none
  | x :: r =>
    if x = c then some ([], r)
    else match splitOnce c r with
      | some (a, b) => some (x :: a, b)
      | none => none

/-- `"LA for T<tid>(Pos|Neg)"` -/
def clusterLabel (label : List Nat) : Option (Nat × Bool) :=
  match stripPrefix kwLaFor label with
  | none => none
  | some s =>
    match splitOnce 40 s with
    | none => none
    | some (t, pol) =>
      if pol = kwPos then (match parseNat t with | some n => some (n, true) | none => none)
      else if pol = kwNeg then (match parseNat t with | some n => some (n, false) | none => none)
      else none

def decodeCluster (body : List DStmt) : Option DCluster :=
  match clusterLabel (lastLabel body []) with
  | none => none
  | some (tid, pos) =>
    match decodeGraph (natDigits tid ++ [95]) body with
    | some g => some ⟨tid, pos, g⟩
    | none => none

def decodeClusters : List DStmt → Option (List DCluster)
  | [] => some []
  | .sub _ body :: r =>
    match decodeCluster body, decodeClusters r with
    | some c, some cs => some (c :: cs)
    | _, _ => none
  | _ :: r => decodeClusters r

def decodeDot (t : DGraphT) : Option DotDoc :=
  match decodeGraph [] t.stmts, decodeClusters t.stmts with
  | some g, some cs => some ⟨g, cs⟩
  | _, _ => none

/-! ## Writer -/

def quoted (s : List Nat) : List Nat := 34 :: (s ++ [34])

/-- `shape=circle, color=` -/
def txtShapeColor : List Nat :=
  [115, 104, 97, 112, 101, 61, 99, 105, 114, 99, 108, 101, 44, 32, 99, 111, 108, 111, 114, 61]
/-- `, penwidth=3, label=` -/
def txtPenLabel : List Nat :=
  [44, 32, 112, 101, 110, 119, 105, 100, 116, 104, 61, 51, 44, 32, 108, 97, 98, 101, 108, 61]
/-- `label=` -/
def txtLabelEq : List Nat := [108, 97, 98, 101, 108, 61]

/-- the attribute list of a node (between `[` and `]`) -/
def renderNodeAttrs (n : DNode) : List Nat :=
  if n.kind = 1 then txtShapeColor ++ kwBlue ++ txtPenLabel ++ quoted (natDigits n.id)
  else if n.kind = 2 then
    txtShapeColor ++ kwRed ++ txtPenLabel ++ quoted (natDigits n.id ++ [32, 84] ++ natDigits n.tid)
  else txtLabelEq ++ quoted (natDigits n.id)

/-- `<indent>"<prefix><id>" [<attrs>];\n` -/
def renderNode (ind pre : List Nat) (n : DNode) : List Nat :=
  ind ++ quoted (pre ++ natDigits n.id) ++ [32, 91] ++ renderNodeAttrs n ++ [93, 59, 10]

/-- `<indent>"<prefix><src>" -> "<prefix><dst>" [label="<class> (C#<cc>)"];\n` -/
def renderEdge (ind pre : List Nat) (edgeText : Nat → List Nat) (e : DEdge) : List Nat :=
  ind ++ quoted (pre ++ natDigits e.src) ++ [32, 45, 62, 32] ++ quoted (pre ++ natDigits e.dst)
    ++ [32, 91] ++ txtLabelEq ++ quoted (edgeText e.cc ++ kwClassOpen ++ natDigits e.cc ++ [41])
    ++ [93, 59, 10]

def renderNodes (ind pre : List Nat) : List DNode → List Nat
  | [] => []
  | n :: r => renderNode ind pre n ++ renderNodes ind pre r

def renderEdges (ind pre : List Nat) (edgeText : Nat → List Nat) : List DEdge → List Nat
  | [] => []
  | e :: r => renderEdge ind pre edgeText e ++ renderEdges ind pre edgeText r

/-- `render_compiled_dfa`: all nodes, then all edges -/
def renderGraph (ind pre : List Nat) (edgeText : Nat → List Nat) (g : DGraph) : List Nat :=
  renderNodes ind pre g.nodes ++ renderEdges ind pre edgeText g.edges

def ind2 : List Nat := [32, 32]
def ind4 : List Nat := [32, 32, 32, 32]

/-- `LA for T<tid>(Pos|Neg)` -/
def clusterLabelText (c : DCluster) : List Nat :=
  kwLaFor ++ natDigits c.tid ++ [40] ++ (if c.positive then kwPos else kwNeg)

/-- ```
      subgraph cluster_<k> {
        label="LA for T<tid>(Pos|Neg)";
        ...
      }
    ``` -/
def renderCluster (edgeText : Nat → List Nat) (k : Nat) (c : DCluster) : List Nat :=
  ind2 ++ kwSubgraph ++ [32] ++ kwClusterPre ++ natDigits k ++ [32, 123, 10]
    ++ ind4 ++ txtLabelEq ++ quoted (clusterLabelText c) ++ [59, 10]
    ++ renderGraph ind4 (natDigits c.tid ++ [95]) edgeText c.g
    ++ ind2 ++ [125, 10]

def renderClusters (edgeText : Nat → List Nat) : Nat → List DCluster → List Nat
  | _, [] => []
  | k, c :: r => renderCluster edgeText k c ++ renderClusters edgeText (k + 1) r

/-- The file `compiled_dfa_render` writes for a document: `title` is the (escaped) graph label
    `<mode>: <pattern>...`, `edgeText cc` the (escaped) printed class `cc`. -/
def renderDot (title : List Nat) (edgeText : Nat → List Nat) (d : DotDoc) : List Nat :=
  kwDigraph ++ [32, 123, 10]
    ++ ind2 ++ txtLabelEq ++ quoted title ++ [59, 10]
    ++ ind2 ++ kwRankdir ++ [61] ++ kwLR ++ [59, 10]
    ++ renderGraph ind2 [] edgeText d.main
    ++ renderClusters edgeText 0 d.clusters
    ++ [125, 10]

/-! ## Side conditions of the round trip -/

def strSafeGo : Bool → List Nat → Bool
  | esc, [] => !esc
  | true, _ :: r => strSafeGo false r
  | false, c :: r => if c = 92 then strSafeGo true r else if c = 34 then false else strSafeGo false r

/-- The content of a quoted string is read back as written: no unescaped `"` and no backslash at
    the very end (it would escape the closing quote). Inside a quoted string the lexer accepts
    every other character, so there is no third condition. -/
def strSafe (s : List Nat) : Bool := strSafeGo false s

def nodesOKFrom : Nat → List DNode → Bool
  | _, [] => true
  | i, n :: r =>
    n.id == i && (n.kind == 0 || n.kind == 1 || n.kind == 2) && (i != 0 || n.kind == 1)
      && (n.kind != 1 || i == 0) && (n.kind == 2 || n.tid == 0) && nodesOKFrom (i + 1) r

/-- node ids are `0..n-1` in order, node 0 is the start node and the only one, kinds are 0 (plain),
    1 (start), 2 (accepting), only accepting nodes carry a token type, edges connect existing nodes -/
def DGraph.textOK (g : DGraph) : Bool :=
  nodesOKFrom 0 g.nodes
    && g.edges.all fun e => decide (e.src < g.nodes.length) && decide (e.dst < g.nodes.length)

/-- every graph of the document is well-formed; the token types of the clusters are arbitrary -/
def DotDoc.textOK (d : DotDoc) : Bool :=
  d.main.textOK && d.clusters.all fun c => c.g.textOK

end Scnr
