import ScnrVerif.Model.FindFrom
/-!
# Model of `ScannerImpl` (mode switching) and `FindMatchesImpl` (the iterator)

The iterator is modelled over an abstract *finder* `find mode rest = some (tid, len)`: the result
of `CompiledDfa::find_from` of mode `mode` on the remaining text `rest`, with `len` the byte length
of the match (it always starts at the head of `rest`). Two finders are used: the model finder
(`findFrom` on the dumped automata) and a table of the real `find_from` results.
-/
namespace Scnr

abbrev Finder := Nat → List Nat → Option (Nat × Nat)

/-- The finder obtained from the model of `find_from` on dumped automata. -/
def modelFinder (Ms : List ModeDfa) (cm : Nat → Nat → Bool) : Finder := fun m w =>
  match Ms[m]? with
  | none => none
  | some M => (findFrom M cm 0 w).map fun r => (r.1, r.2)

/-- Static configuration of a scanner: per mode its name and its sorted transition list. -/
structure ModeCfg where
  name : List Nat
  trans : List (Nat × Nat)
deriving Repr, DecidableEq, Inhabited

/-- `CompiledScannerMode::has_transition`: early-exit search in a list sorted by token type. -/
def hasTransition : List (Nat × Nat) → Nat → Option Nat
  | [], _ => none
  | (t, m) :: r, tok =>
    if tok < t then none else if tok = t then some m else hasTransition r tok

def modeTrans (cfg : List ModeCfg) (m : Nat) : List (Nat × Nat) :=
  match cfg[m]? with
  | none => []
  | some c => c.trans

/-- A match as reported by the iterator: token type and absolute byte span. -/
structure Tok where
  tid : Nat
  start : Nat
  stop : Nat
deriving Repr, DecidableEq, Inhabited

structure Iter where
  input : List Nat
  offset : Nat
  /-- remaining characters of `char_indices` -/
  rest : List Nat
  /-- index (relative to `offset`) of the head of `rest` -/
  rel : Nat
  lastPosition : Nat
  lastChar : Nat
  lineOffsets : List Nat
  mode : Nat
deriving Repr, DecidableEq, Inhabited

/-- `FindMatchesImpl::new` (includes `scanner_impl.reset()`). -/
def Iter.new (input : List Nat) : Iter :=
  { input := input, offset := 0, rest := input, rel := 0, lastPosition := 0, lastChar := 0,
    lineOffsets := [0], mode := 0 }

/-- Insert into a strictly increasing list unless present (`binary_search` + `Vec::insert`). -/
def insertSorted (x : Nat) : List Nat → List Nat
  | [] => [x]
  | y :: r => if x < y then x :: y :: r else if x = y then y :: r else y :: insertSorted x r

def mergeLineOffsets (lo : List Nat) (xs : List Nat) : List Nat :=
  xs.foldl (fun acc x => insertSorted x acc) lo

/-- `record_line_offset` -/
def Iter.recordLineOffset (it : Iter) (i c : Nat) : Iter :=
  { it with
    lineOffsets := if it.lastChar = 10 then insertSorted i it.lineOffsets else it.lineOffsets,
    lastChar := c }

/-- `set_offset` (offset must be a character boundary; beyond the end it is clamped). -/
def Iter.setOffset (it : Iter) (o : Nat) : Iter :=
  { it with
    offset := min o (bytesLen it.input),
    rest := dropBytes (min o (bytesLen it.input)) it.input,
    rel := 0,
    lastPosition := 0,
    lastChar := charBefore it.input (min o (bytesLen it.input)) }

/-- State of the consuming loop of `advance_to_relative`. -/
structure AdvSt where
  rest : List Nat
  rel : Nat
  lastChar : Nat
  newPos : Nat
  starts : List Nat
deriving Repr, DecidableEq, Inhabited

/-- The `for (i, c) in self.char_indices.by_ref()` loop of `advance_to_relative`:
    consumes at least one character if there is one, stops after the character whose end
    reaches `position`. Collected line starts are in reverse order of discovery. -/
def advLoop (offset position : Nat) : List Nat → Nat → Nat → Nat → List Nat → AdvSt
  | [], rel, lc, np, st => ⟨[], rel, lc, np, st⟩
  | c :: w, rel, lc, _, st =>
    if rel + utf8Len c ≥ position then
      ⟨w, rel + utf8Len c, c, rel, if lc = 10 then (rel + offset) :: st else st⟩
    else
      advLoop offset position w (rel + utf8Len c) c rel
        (if lc = 10 then (rel + offset) :: st else st)

/-- `advance_to_relative` -/
def Iter.advanceToRel (it : Iter) (position : Nat) : Iter :=
  if position < it.lastPosition then it
  else
    match advLoop it.offset position it.rest it.rel it.lastChar 0 [] with
    | ⟨rest, rel, lc, np, st⟩ =>
      { it with rest := rest, rel := rel, lastChar := lc, lastPosition := np,
                lineOffsets := mergeLineOffsets it.lineOffsets st.reverse }

/-- `advance_to` (absolute position) -/
def Iter.advanceTo (it : Iter) (position : Nat) : Iter :=
  it.advanceToRel (position - it.offset)

/-- The return value of `advance_to`. -/
def Iter.advanceToRet (it : Iter) (position : Nat) : Nat :=
  if position - it.offset < it.lastPosition then it.lastPosition
  else (it.advanceTo position).lastPosition

/-- `offset()` -/
def Iter.totalOffset (it : Iter) : Nat := it.lastPosition + it.offset

/-- Result of the skip loop of `next_match`: the finder result and the cursor, last character and
    line offsets at that point. -/
structure SkipSt where
  found : Option (Nat × Nat)
  rest : List Nat
  rel : Nat
  lastChar : Nat
  lineOffsets : List Nat
deriving Repr, DecidableEq, Inhabited

/-- The skip loop of `next_match`: call the finder at the cursor; if nothing is found consume one
    character (recording a line start if the previous character was a line break) and retry; at
    the end of the haystack record its length as line start if the last character was a line
    break. -/
def skipLoop (find : List Nat → Option (Nat × Nat)) (offset inputLen : Nat) :
    List Nat → Nat → Nat → List Nat → SkipSt
  | [], rel, lc, lo =>
    match find [] with
    | some r => ⟨some r, [], rel, lc, lo⟩
    | none => ⟨none, [], rel, 0, if lc = 10 then insertSorted inputLen lo else lo⟩
  | c :: w, rel, lc, lo =>
    match find (c :: w) with
    | some r => ⟨some r, c :: w, rel, lc, lo⟩
    | none =>
      skipLoop find offset inputLen w (rel + utf8Len c) c
        (if lc = 10 then insertSorted (rel + offset) lo else lo)

/-- The iterator after the skip loop. -/
def Iter.afterSkip (it : Iter) (s : SkipSt) : Iter :=
  { it with rest := s.rest, rel := s.rel, lastChar := s.lastChar, lineOffsets := s.lineOffsets }

/-- Consume a found match: `execute_possible_mode_switch`, `advance_beyond_match`. -/
def Iter.consume (cfg : List ModeCfg) (it : Iter) (tid len : Nat) : Iter :=
  if len = 0 then
    { it with mode := (hasTransition (modeTrans cfg it.mode) tid).getD it.mode }
  else
    Iter.advanceToRel
      { it with mode := (hasTransition (modeTrans cfg it.mode) tid).getD it.mode } (it.rel + len)

/-- `next_match` -/
def Iter.next (cfg : List ModeCfg) (find : Finder) (it : Iter) : Iter × Option Tok :=
  match skipLoop (find it.mode) it.offset (bytesLen it.input) it.rest it.rel it.lastChar
      it.lineOffsets with
  | ⟨none, rest, rel, lc, lo⟩ => (it.afterSkip ⟨none, rest, rel, lc, lo⟩, none)
  | ⟨some (tid, len), rest, rel, lc, lo⟩ =>
    ((it.afterSkip ⟨some (tid, len), rest, rel, lc, lo⟩).consume cfg tid len,
     some ⟨tid, rel + it.offset, rel + len + it.offset⟩)

/-- `position`: line = number of recorded line starts `≤ o`, column from the last of them. -/
def positionOf (lo : List Nat) (o : Nat) : Nat × Nat :=
  let le := lo.filter (· ≤ o)
  (le.length, o - le.getLastD 0 + 1)

def Iter.position (it : Iter) (o : Nat) : Nat × Nat := positionOf it.lineOffsets o

/-- Result constructors of `peek_n`. -/
inductive Peek where
  | matches (ms : List Tok)
  | reachedEnd (ms : List Tok)
  | modeSwitch (ms : List Tok) (mode : Nat)
  | notFound
deriving Repr, DecidableEq, Inhabited

/-- Skip loop of `peek_n`: find at the cursor, else drop one character and retry. Returns the
    cursor at which the match was found. -/
def peekFind (find : Finder) (mode : Nat) : List Nat → Nat → Option (Nat × Nat × List Nat × Nat)
  | [], rel => (find mode []).map fun r => (r.1, r.2, [], rel)
  | c :: w, rel =>
    match find mode (c :: w) with
    | some (tid, len) => some (tid, len, c :: w, rel)
    | none => peekFind find mode w (rel + utf8Len c)

/-- `advance_char_indices_beyond_match` -/
def skipBeyond (stop : Nat) : List Nat → Nat → List Nat × Nat
  | [], rel => ([], rel)
  | c :: w, rel => if rel + utf8Len c ≥ stop then (w, rel + utf8Len c) else skipBeyond stop w (rel + utf8Len c)

/-- The `for _ in 0..n` loop of `peek_n`. Returns matches (in order) and the mode switch target. -/
def peekLoop (cfg : List ModeCfg) (find : Finder) (mode offset : Nat) :
    Nat → List Nat → Nat → List Tok → List Tok × Option Nat
  | 0, _, _, acc => (acc.reverse, none)
  | n + 1, rest, rel, acc =>
    match peekFind find mode rest rel with
    | none => (acc.reverse, none)
    | some (tid, len, rest1, rel1) =>
      let tok : Tok := ⟨tid, rel1 + offset, rel1 + len + offset⟩
      let cur := if len = 0 then (rest1, rel1) else skipBeyond (rel1 + len) rest1 rel1
      match hasTransition (modeTrans cfg mode) tid with
      | some m => ((tok :: acc).reverse, some m)
      | none => peekLoop cfg find mode offset n cur.1 cur.2 (tok :: acc)

def Iter.peekN (cfg : List ModeCfg) (find : Finder) (it : Iter) (n : Nat) : Peek :=
  match peekLoop cfg find it.mode it.offset n it.rest it.rel [] with
  | (ms, some m) => .modeSwitch ms m
  | (ms, none) =>
    if ms.length = n then .matches ms
    else if ms.isEmpty then .notFound
    else .reachedEnd ms

/-- `WithPositions::next` -/
def Iter.nextWithPos (cfg : List ModeCfg) (find : Finder) (it : Iter) :
    Iter × Option (Tok × (Nat × Nat) × (Nat × Nat)) :=
  match it.next cfg find with
  | (it', none) => (it', none)
  | (it', some t) => (it', some (t, it'.position t.start, it'.position t.stop))

def Iter.setMode (it : Iter) (m : Nat) : Iter := { it with mode := m }

def modeName (cfg : List ModeCfg) (i : Nat) : Option (List Nat) := cfg[i]?.map (·.name)

end Scnr
