import ScnrVerif.Model.Minimize
import ScnrVerif.Model.FindFrom
/-!
# Model of the regex compiler (track A): `nfa.rs`, `multi_pattern_nfa.rs`, `CompiledDfa::from`

`CAst` keeps the repetition operator kinds of `regex_syntax` (they decide the shape and numbering of
the Thompson NFA); leaves carry the class id the registry assigns. `thompson` mirrors
`Nfa::try_from_ast` with `shift_ids`, `concat`, `alternation`, `zero_or_one`, `one_or_more`,
`zero_or_more`; `MNfa` mirrors `MultiPatternNfa` (state 0 plus the shifted pattern NFAs);
`buildDfa` mirrors the closure construction of `impl From<MultiPatternNfa> for CompiledDfa`
(states = ε-closures of single NFA states in discovery order); `compileMode` ends with the model of
the minimizer.
-/
namespace Scnr

inductive CAst where
  | empty
  | leaf (cls : Nat)
  | concat (xs : List CAst)
  | alt (xs : List CAst)
  | opt (x : CAst)
  | star (x : CAst)
  | plus (x : CAst)
  | exactly (n : Nat) (x : CAst)
  | atLeast (n : Nat) (x : CAst)
  | bounded (m n : Nat) (x : CAst)
deriving Repr, Inhabited

structure NState where
  eps : List Nat
  trans : List (Nat × Nat)
deriving Repr, DecidableEq, Inhabited

/-- states `base .. base + states.length - 1`; all ids absolute -/
structure Nfa where
  base : Nat
  states : List NState
  start : Nat
  fin : Nat
deriving Repr, DecidableEq, Inhabited

namespace Nfa

def empty : Nfa := ⟨0, [⟨[], []⟩], 0, 0⟩

/-- `is_empty`: nothing built yet (start = end = 0, one state without transitions) -/
def isEmpty (n : Nfa) : Bool :=
  n.start == 0 && n.fin == 0 && n.states.length == 1 &&
    (match n.states with | [s] => s.eps.isEmpty && s.trans.isEmpty | _ => false)

def shift (k : Nat) (n : Nfa) : Nfa :=
  { base := n.base + k,
    states := n.states.map fun s => ⟨s.eps.map (· + k), s.trans.map fun p => (p.1, p.2 + k)⟩,
    start := n.start + k, fin := n.fin + k }

def modifyState (n : Nfa) (id : Nat) (f : NState → NState) : Nfa :=
  { n with states := n.states.modify (id - n.base) f }

def addEps (n : Nfa) (src dst : Nat) : Nfa := n.modifyState src fun s => { s with eps := s.eps ++ [dst] }
def addTrans (n : Nfa) (src cc dst : Nat) : Nfa :=
  n.modifyState src fun s => { s with trans := s.trans ++ [(cc, dst)] }

/-- `new_state` (only used before any shift: id = number of states) -/
def newState (n : Nfa) : Nfa × Nat := ({ n with states := n.states ++ [⟨[], []⟩] }, n.states.length)

def concat (a b : Nfa) : Nfa :=
  if a.isEmpty then { a with states := b.states, start := b.start, fin := b.fin }
  else
    let b' := b.shift a.states.length
    ({ a with states := a.states ++ b'.states }.addEps a.fin b'.start) |> fun r => { r with fin := b'.fin }

def alternation (a b : Nfa) : Nfa :=
  let b' := b.shift a.states.length
  let r0 : Nfa := { a with states := a.states ++ b'.states }
  let (r1, s) := r0.newState
  let r2 := (r1.addEps s a.start).addEps s b'.start
  let (r3, e) := r2.newState
  let r4 := (r3.addEps a.fin e).addEps b'.fin e
  { r4 with start := s, fin := e }

def zeroOrOne (a : Nfa) : Nfa :=
  let (r1, s) := a.newState
  { (r1.addEps s a.start).addEps s a.fin with start := s }

def oneOrMore (a : Nfa) : Nfa :=
  let (r1, s) := a.newState
  let r2 := r1.addEps s a.start
  let (r3, e) := r2.newState
  { (r3.addEps a.fin e).addEps a.fin a.start with start := s, fin := e }

def zeroOrMore (a : Nfa) : Nfa :=
  let (r1, s) := a.newState
  let r2 := (r1.addEps s a.start).addEps s a.fin
  let (r3, e) := r2.newState
  { (r3.addEps a.fin e).addEps a.fin a.start with start := s, fin := e }

def repeatConcat (acc : Nfa) (x : Nfa) : Nat → Nfa
  | 0 => acc
  | k + 1 => repeatConcat (acc.concat x) x k

end Nfa

mutual
/-- `Nfa::try_from_ast` (supported constructs only) -/
def thompson : CAst → Nfa
  | .empty => Nfa.empty
  | .leaf c =>
    let (n, e) := Nfa.empty.newState
    { n.addTrans 0 c e with fin := e }
  | .concat xs => thompsonConcat Nfa.empty xs
  | .alt [] => Nfa.empty
  | .alt (x :: xs) => thompsonAlt (thompson x) xs
  | .opt x => (thompson x).zeroOrOne
  | .star x => (thompson x).zeroOrMore
  | .plus x => (thompson x).oneOrMore
  | .exactly n x => Nfa.repeatConcat Nfa.empty (thompson x) n
  | .atLeast n x =>
    (Nfa.repeatConcat Nfa.empty (thompson x) n).concat (thompson x).zeroOrMore
  | .bounded m n x =>
    Nfa.repeatConcat (Nfa.repeatConcat Nfa.empty (thompson x) m) (thompson x).zeroOrOne (n - m)
def thompsonConcat : Nfa → List CAst → Nfa
  | acc, [] => acc
  | acc, x :: xs => thompsonConcat (acc.concat (thompson x)) xs
def thompsonAlt : Nfa → List CAst → Nfa
  | acc, [] => acc
  | acc, x :: xs => thompsonAlt (acc.alternation (thompson x)) xs
end

/-- `MultiPatternNfa`: the shifted pattern NFAs with their terminal ids, in pattern order -/
abbrev MNfa := List (Nat × Nfa)

/-- `try_from_patterns`: every NFA is shifted behind the highest state number used so far -/
def mkMNfa : Nat → List (Nat × CAst) → MNfa
  | _, [] => []
  | next, (tid, a) :: ps =>
    let n := (thompson a).shift next
    (tid, n) :: mkMNfa (n.base + n.states.length) ps

def Nfa.contains (n : Nfa) (s : Nat) : Bool := decide (n.base ≤ s) && decide (s < n.base + n.states.length)
def Nfa.state (n : Nfa) (s : Nat) : NState := n.states.getD (s - n.base) ⟨[], []⟩

/-- `Nfa::epsilon_closure`: worklist in discovery order, then sorted and de-duplicated -/
def Nfa.closureLoop (n : Nfa) : Nat → List Nat → Nat → List Nat
  | 0, acc, _ => acc
  | fuel + 1, acc, i =>
    match acc[i]? with
    | none => acc
    | some s => Nfa.closureLoop n fuel ((n.state s).eps.foldl pushNew acc) (i + 1)

def Nfa.epsClosure (n : Nfa) (s : Nat) : List Nat :=
  normNat (n.closureLoop (n.states.length + 1) [s] 0)

def MNfa.findNfa (m : MNfa) (s : Nat) : Option (Nat × Nfa) := m.find? fun p => p.2.contains s

/-- `MultiPatternNfa::epsilon_closure` -/
def MNfa.epsClosure (m : MNfa) (s : Nat) : List Nat :=
  if s = 0 then normNat (0 :: m.flatMap fun p => p.2.epsClosure p.2.start)
  else match m.findNfa s with
    | some p => p.2.epsClosure s
    | none => []

/-- insertion sort by target state, stable (`sort_by_key(|t| t.1)`) -/
def insertByTarget (x : Nat × Nat) : List (Nat × Nat) → List (Nat × Nat)
  | [] => [x]
  | y :: r => if x.2 < y.2 then x :: y :: r else y :: insertByTarget x r

def sortByTarget (l : List (Nat × Nat)) : List (Nat × Nat) := l.foldl (fun acc x => insertByTarget x acc) []

/-- `Vec::dedup`: consecutive duplicates -/
def dedupAdj : List (Nat × Nat) → List (Nat × Nat)
  | [] => []
  | [x] => [x]
  | x :: y :: r => if x = y then dedupAdj (y :: r) else x :: dedupAdj (y :: r)

/-- `MultiPatternNfa::get_match_transitions` -/
def MNfa.matchTransitions (m : MNfa) (closure : List Nat) : List (Nat × Nat) :=
  dedupAdj (sortByTarget (closure.flatMap fun s =>
    if s = 0 then m.flatMap fun p => (p.2.state p.2.start).trans
    else match m.findNfa s with
      | some p => (p.2.state s).trans
      | none => []))

/-- worklist state of the closure construction -/
structure BuildSt where
  map : List (List Nat × Nat)          -- closure ↦ state id, in insertion order
  trans : List (Nat × Nat × Nat)       -- (from, class, to)
  acc : List (Nat × Nat)               -- (state, terminal)
deriving Repr, Inhabited

def BuildSt.lookup (b : BuildSt) (c : List Nat) : Option Nat := (b.map.find? fun p => p.1 == c).map (·.2)
def BuildSt.closureOf (b : BuildSt) (id : Nat) : List Nat := ((b.map.find? fun p => p.2 == id).map (·.1)).getD []

/-- a closure containing the end state of some pattern -/
def MNfa.accepting (m : MNfa) (cl : List Nat) : Bool := cl.any fun s => m.any fun p => p.2.fin == s

/-- the terminal of the pattern whose NFA contains the state -/
def MNfa.tidOf (m : MNfa) (t : Nat) : Nat := match m.findNfa t with | some p => p.1 | none => 0

/-- the state id of a closure: the existing one or the next free id -/
def BuildSt.idFor (b : BuildSt) (cl : List Nat) : Nat := (b.lookup cl).getD b.map.length

/-- what the two closure constructions (`From<MultiPatternNfa>`, `From<Nfa>`) differ in: the closure
    of an NFA state, the match transitions of a closure, acceptance of a closure, terminal of a target -/
structure Gen where
  clos : Nat → List Nat
  tr : List Nat → List (Nat × Nat)
  accf : List Nat → Bool
  tidf : Nat → Nat

/-- one target of the state being expanded: register the closure of the target (if new), mark it
    accepting with the terminal of the target's pattern, add the transition -/
def genStep (g : Gen) (src : Nat) (b : BuildSt) (t : Nat × Nat) : BuildSt :=
  { map := if (b.lookup (g.clos t.2)).isSome then b.map
           else b.map ++ [(g.clos t.2, b.map.length)],
    acc := if g.accf (g.clos t.2) && !b.acc.contains (b.idFor (g.clos t.2), g.tidf t.2)
           then b.acc ++ [(b.idFor (g.clos t.2), g.tidf t.2)] else b.acc,
    trans := if b.trans.contains (src, t.1, b.idFor (g.clos t.2)) then b.trans
             else b.trans ++ [(src, t.1, b.idFor (g.clos t.2))] }

/-- the queue is the sequence of state ids in creation order -/
def genLoop (g : Gen) : Nat → Nat → BuildSt → BuildSt
  | 0, _, b => b
  | fuel + 1, cur, b =>
    if cur < b.map.length then
      genLoop g fuel (cur + 1) ((g.tr (b.closureOf cur)).foldl (genStep g cur) b)
    else b

/-- the automaton read off the final worklist state; transitions of a state in insertion order (the
    Rust code keeps them in a hash set: compared as sets) -/
def mkDfa (b : BuildSt) (prio : List Nat) : Dfa :=
  { trans := (List.range b.map.length).map fun s => (b.trans.filter fun t => t.1 == s).map fun t => (t.2.1, t.2.2),
    ends := (List.range b.map.length).map fun s =>
      match (b.acc.filter fun a => a.1 == s).getLast? with
      | some a => (true, a.2)
      | none => (false, 0),
    prio := prio }

def MNfa.gen (m : MNfa) : Gen := ⟨m.epsClosure, m.matchTransitions, m.accepting, m.tidOf⟩

def totalStates (m : MNfa) : Nat := 1 + (m.map fun p => p.2.states.length).sum

/-- `impl From<MultiPatternNfa> for CompiledDfa` without the final minimization -/
def buildDfa (m : MNfa) (prio : List Nat) : Dfa :=
  mkDfa (genLoop m.gen (totalStates m + 1) 0 ⟨[(m.epsClosure 0, 0)], [], []⟩) prio

/-! ### a single NFA (lookahead automata): `impl From<Nfa> for CompiledDfa` -/

/-- lexicographic insertion sort with removal of duplicates (`sort_unstable` + `dedup` on pairs) -/
def insertPair (x : Nat × Nat) : List (Nat × Nat) → List (Nat × Nat)
  | [] => [x]
  | y :: r =>
    if x = y then y :: r
    else if x.1 < y.1 || (x.1 == y.1 && x.2 < y.2) then x :: y :: r
    else y :: insertPair x r

def sortPairs (l : List (Nat × Nat)) : List (Nat × Nat) := l.foldl (fun acc x => insertPair x acc) []

def Nfa.gen (n : Nfa) (tid : Nat) : Gen :=
  ⟨n.epsClosure, fun cl => sortPairs (cl.flatMap fun s => (n.state s).trans), fun cl => cl.contains n.fin,
    fun _ => tid⟩

def buildDfa1 (n : Nfa) (tid : Nat) : Dfa :=
  mkDfa (genLoop (n.gen tid) (n.states.length + 2) 0 ⟨[(n.epsClosure n.start, 0)], [], []⟩) [tid]

/-- a lookahead pattern (terminal id 0 of `Pattern::default()`) -/
def compileLaPre (a : CAst) : Dfa := buildDfa1 (thompson a) 0

/-- a mode: patterns `(terminal, ast)` in priority order -/
def compilePre (ps : List (Nat × CAst)) : Dfa := buildDfa (mkMNfa 1 ps) (ps.map (·.1))

def compileMode (ps : List (Nat × CAst)) : Dfa := minimize (compilePre ps)

/-- a pattern of a mode: terminal, AST, optional lookahead (positive?, AST) -/
structure CPat where
  tid : Nat
  ast : CAst
  la : Option (Bool × CAst)
deriving Repr, Inhabited

/-- `CompiledDfa::try_from_patterns`: the minimized automaton of all patterns plus, per pattern with a
    lookahead, the minimized automaton of the lookahead expression with its polarity -/
def compileFull (ps : List CPat) : ModeDfa :=
  { dfa := compileMode (ps.map fun q => (q.tid, q.ast)),
    las := ps.filterMap fun q => q.la.map fun l => (q.tid, ⟨l.1, minimize (compileLaPre l.2)⟩) }

end Scnr
