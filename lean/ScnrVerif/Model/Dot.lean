import ScnrVerif.Model.FindFrom
/-!
# Structured DOT document of a compiled mode (C18)

What `render_compiled_dfa` / `compiled_dfa_render` write, as data: one node per state (kind:
0 plain, 1 start (state 0, blue), 2 accepting (red, label `<id> T<tid>`)), one edge per transition
with its class id, one cluster per lookahead with polarity and prefixed node names. `decodeGraph`
reads states, accepting flags, token types and transitions back.
-/
namespace Scnr

structure DNode where
  id : Nat
  kind : Nat
  tid : Nat
deriving Repr, DecidableEq, Inhabited

structure DEdge where
  src : Nat
  dst : Nat
  cc : Nat
deriving Repr, DecidableEq, Inhabited

structure DGraph where
  nodes : List DNode
  edges : List DEdge
deriving Repr, DecidableEq, Inhabited

structure DCluster where
  tid : Nat
  positive : Bool
  g : DGraph
deriving Repr, DecidableEq, Inhabited

structure DotDoc where
  main : DGraph
  clusters : List DCluster
deriving Repr, DecidableEq, Inhabited

def nodeOf (A : Dfa) (id : Nat) : DNode :=
  if id = 0 then ⟨0, 1, 0⟩
  else if A.isEnd id then ⟨id, 2, A.tidOf id⟩
  else ⟨id, 0, 0⟩

def edgesFrom (s : Nat) (ts : List (Nat × Nat)) : List DEdge := ts.map fun p => ⟨s, p.2, p.1⟩

def edgesOf : Nat → List (List (Nat × Nat)) → List DEdge
  | _, [] => []
  | s, ts :: rest => edgesFrom s ts ++ edgesOf (s + 1) rest

def dotGraph (A : Dfa) : DGraph :=
  ⟨(List.range A.trans.length).map (nodeOf A), edgesOf 0 A.trans⟩

def dotDoc (M : ModeDfa) : DotDoc :=
  ⟨dotGraph M.dfa, M.las.map fun p => ⟨p.1, p.2.positive, dotGraph p.2.dfa⟩⟩

/-- reading the picture back: per state its transitions `(class id, target)` in drawn order and
    its accepting flag / token type (the start node never shows a token type) -/
def decodeTrans (g : DGraph) : List (List (Nat × Nat)) :=
  (List.range g.nodes.length).map fun s => (g.edges.filter (fun e => e.src == s)).map fun e => (e.cc, e.dst)

def decodeEnds (g : DGraph) : List (Bool × Nat) :=
  g.nodes.map fun n => (n.kind == 2, if n.kind == 2 then n.tid else 0)

/-- what the picture is supposed to show of an automaton: transitions, and accepting flag with
    token type of every state (non-accepting states normalised to `(false, 0)`) -/
def Dfa.shown (A : Dfa) : List (List (Nat × Nat)) × List (Bool × Nat) :=
  (A.trans, (List.range A.trans.length).map fun s => (A.isEnd s, if A.isEnd s then A.tidOf s else 0))

end Scnr
