import ScnrVerif.Model.Compile
/-!
# The character class registry (`character_class_registry.rs`, `comparable_ast.rs`)

While the patterns of a scanner are translated (`Nfa::try_from_ast`), every leaf of a pattern AST (a
literal, `.`, a Perl / Unicode / bracketed class) is handed to
`CharacterClassRegistry::add_character_class`, which returns the position of the first registered
class that is *equal as a `ComparableAst`* or appends the class and returns the new position. The
automata refer to classes by these positions only.

Here a leaf of the incoming AST carries a **key**: a number that identifies the `ComparableAst`
equality class of the leaf (two leaves get the same key iff `ComparableAst::eq` holds; the harness
derives it from the comparison the Rust code makes: `(char, kind)` of a literal, the printed text of
a class, `dot`). The numbering of the keys is arbitrary (it is *not* the registration order), so the
first-occurrence numbering below is computed by the model and compared with the real registry.

Order of registration (mirrors `ScannerImpl::try_from`, `CompiledDfa::try_from_patterns`): mode by
mode; within a mode first the pattern ASTs in pattern order, then the lookahead ASTs in pattern order;
within an AST left to right (a counted repetition registers its operand's leaves again, which changes
nothing, so visiting the operand once is the same).
-/
namespace Scnr

/-- `add_character_class`: position of the key if present, else append -/
def regAdd (R : List Nat) (k : Nat) : List Nat × Nat :=
  if k ∈ R then (R, R.idxOf k) else (R ++ [k], R.length)

mutual
/-- replaces every key by its registry position, registering keys in visiting order -/
def assign : CAst → List Nat → CAst × List Nat
  | .empty, R => (.empty, R)
  | .leaf k, R => (.leaf (regAdd R k).2, (regAdd R k).1)
  | .concat xs, R => (.concat (assignList xs R).1, (assignList xs R).2)
  | .alt xs, R => (.alt (assignList xs R).1, (assignList xs R).2)
  | .opt x, R => (.opt (assign x R).1, (assign x R).2)
  | .star x, R => (.star (assign x R).1, (assign x R).2)
  | .plus x, R => (.plus (assign x R).1, (assign x R).2)
  | .exactly n x, R => (.exactly n (assign x R).1, (assign x R).2)
  | .atLeast n x, R => (.atLeast n (assign x R).1, (assign x R).2)
  | .bounded m n x, R => (.bounded m n (assign x R).1, (assign x R).2)
def assignList : List CAst → List Nat → List CAst × List Nat
  | [], R => ([], R)
  | x :: xs, R => ((assign x R).1 :: (assignList xs (assign x R).2).1, (assignList xs (assign x R).2).2)
end

/-- the pattern ASTs of a mode, in order -/
def assignPatAsts : List CPat → List Nat → List CPat × List Nat
  | [], R => ([], R)
  | p :: ps, R =>
    ({ p with ast := (assign p.ast R).1 } :: (assignPatAsts ps (assign p.ast R).2).1,
      (assignPatAsts ps (assign p.ast R).2).2)

/-- then the lookahead ASTs of the mode, in pattern order -/
def assignLaAsts : List CPat → List Nat → List CPat × List Nat
  | [], R => ([], R)
  | p :: ps, R =>
    match p.la with
    | none => (p :: (assignLaAsts ps R).1, (assignLaAsts ps R).2)
    | some (pos, a) =>
      ({ p with la := some (pos, (assign a R).1) } :: (assignLaAsts ps (assign a R).2).1,
        (assignLaAsts ps (assign a R).2).2)

def assignMode (ps : List CPat) (R : List Nat) : List CPat × List Nat :=
  assignLaAsts (assignPatAsts ps R).1 (assignPatAsts ps R).2

/-- all modes of a scanner, one registry -/
def assignModes : List (List CPat) → List Nat → List (List CPat) × List Nat
  | [], R => ([], R)
  | m :: ms, R => ((assignMode m R).1 :: (assignModes ms (assignMode m R).2).1, (assignModes ms (assignMode m R).2).2)

/-- the class function of a scanner: class id ↦ the set of the registered key (`sem`: what the match
    function built from a class AST with that key accepts, C08) -/
def regCm (R : List Nat) (sem : Nat → Nat → Bool) : Nat → Nat → Bool := fun id c =>
  match R[id]? with
  | some k => sem k c
  | none => false

end Scnr

namespace Scnr
mutual
/-- every class id of the AST is below `n` (refers to a registered class) -/
def CAst.idsBelow (n : Nat) : CAst → Bool
  | .empty => true
  | .leaf c => decide (c < n)
  | .concat xs => CAst.idsBelowList n xs
  | .alt xs => CAst.idsBelowList n xs
  | .opt x => CAst.idsBelow n x
  | .star x => CAst.idsBelow n x
  | .plus x => CAst.idsBelow n x
  | .exactly _ x => CAst.idsBelow n x
  | .atLeast _ x => CAst.idsBelow n x
  | .bounded _ _ x => CAst.idsBelow n x
def CAst.idsBelowList (n : Nat) : List CAst → Bool
  | [] => true
  | x :: xs => CAst.idsBelow n x && CAst.idsBelowList n xs
end
end Scnr
