import ScnrVerif.Model.Equiv
/-!
# Character classes (C08)

`CItem/CSet` have the shape of `regex_syntax::ast::{ClassSetItem, ClassSet}` (a union of `n` items is
serialised as left-nested binary unions, which is how the Rust `try_fold` combines them). Named
primitives (`\d \s \w`, `[:alpha:]`, `\p{..}`) are parameters: `env id` is the set the item denotes
when used alone. `evalItem/evalSetN` mirror `match_function.rs` including the `(item, negated)`
plumbing and the verbatim-`.` special case; `denItem/denSet` are the textbook set algebra.
-/
namespace Scnr

inductive BinOp where
  | inter | diff | symdiff
deriving Repr, DecidableEq, Inhabited

mutual
inductive CItem where
  | empty
  /-- literal; `verbDot`: the literal is a verbatim `.` (special-cased by the Rust code) -/
  | lit (c : Nat) (verbDot : Bool)
  | range (lo hi : Nat)
  /-- Perl / ASCII / Unicode primitive `id` with its own negation flag (`\D`, `[:^alpha:]`, `\P{..}`) -/
  | named (id : Nat) (neg : Bool)
  | bracketed (neg : Bool) (s : CSet)
  | union (a b : CItem)
inductive CSet where
  | item (i : CItem)
  | binop (k : BinOp) (l r : CSet)
end

def BinOp.combine : BinOp → Bool → Bool → Bool
  | .inter, a, b => a && b
  | .diff, a, b => a && !b
  | .symdiff, a, b => a != b

/-! ## mirror of `match_function.rs` -/
mutual
/-- `TryFrom<(&ClassSetItem, bool)>`: the item's function, then the `negated` wrapper. -/
def evalItem (env : Nat → Nat → Bool) : CItem → Bool → Nat → Bool
  | .empty, n, _ => false != n
  | .lit c vd, n, ch => (if vd then (ch != 10 && ch != 13) else ch == c) != n
  | .range lo hi, n, ch => (decide (lo ≤ ch) && decide (ch ≤ hi)) != n
  | .named id neg, n, ch => (env id ch != neg) != n
  | .bracketed neg s, n, ch => evalSetN env neg s ch != n
  | .union a b, n, ch => (evalItem env a false ch || evalItem env b false ch) != n
/-- `TryFrom<&ClassBracketed>` / `TryFrom<&ClassSet>` (`neg = false`) / `TryFrom<(&ClassSetBinaryOp, bool)>` -/
def evalSetN (env : Nat → Nat → Bool) : Bool → CSet → Nat → Bool
  | neg, .item i, ch => evalItem env i neg ch
  | neg, .binop k l r, ch => k.combine (evalSetN env false l ch) (evalSetN env false r ch) != neg
end

/-! ## the set algebra -/
mutual
def denItem (env : Nat → Nat → Bool) : CItem → Nat → Bool
  | .empty, _ => false
  | .lit c _, ch => inRanges [(c, c)] ch
  | .range lo hi, ch => inRanges [(lo, hi)] ch
  | .named id neg, ch => env id ch != neg
  | .bracketed neg s, ch => denSet env s ch != neg
  | .union a b, ch => denItem env a ch || denItem env b ch
def denSet (env : Nat → Nat → Bool) : CSet → Nat → Bool
  | .item i, ch => denItem env i ch
  | .binop k l r, ch => k.combine (denSet env l ch) (denSet env r ch)
end

-- no verbatim `.` literal anywhere (finding F3: the Rust code treats it as "any but `\n`, `\r`")
mutual
def CItem.noVerbDot : CItem → Bool
  | .empty => true
  | .lit _ vd => !vd
  | .range _ _ => true
  | .named _ _ => true
  | .bracketed _ s => s.noVerbDot
  | .union a b => a.noVerbDot && b.noVerbDot
def CSet.noVerbDot : CSet → Bool
  | .item i => i.noVerbDot
  | .binop _ l r => l.noVerbDot && r.noVerbDot
end

-- tables of the literals and ranges occurring in an expression
mutual
def CItem.tables : CItem → List (List (Nat × Nat))
  | .empty => []
  | .lit c _ => [[(c, c)]]
  | .range lo hi => [[(lo, hi)]]
  | .named _ _ => []
  | .bracketed _ s => s.tables
  | .union a b => a.tables ++ b.tables
def CSet.tables : CSet → List (List (Nat × Nat))
  | .item i => i.tables
  | .binop _ l r => l.tables ++ r.tables
end

/-- Unicode scalar values -/
def scalarTable : List (Nat × Nat) := [(0, 0xD7FF), (0xE000, 0x10FFFF)]

/-- The check run per class expression: on every representative of the partition induced by the
    primitive tables `E`, the literals and ranges of the expression, the scalar range and the real
    table, the real table agrees with the denotation (restricted to scalar values). -/
def classCheck (E : List (List (Nat × Nat))) (neg : Bool) (s : CSet) (real : List (Nat × Nat)) : Bool :=
  (mkReps (real :: scalarTable :: (s.tables ++ E))).all fun b =>
    inRanges real b == (inRanges scalarTable b && (denSet (cmT E) s b != neg))

end Scnr
