import ScnrVerif.Model.SpecFind
import ScnrVerif.Model.Regex
/-!
# Pattern-level specification of one scan step without lookaheads (C01)

At the current position take the longest non-empty prefix that some pattern matches in full; ties go
to the pattern listed first, whose token type is reported. Stated on the reference regular
expressions (`Matches` decided by derivatives), not on any automaton.
-/
namespace Scnr

/-- `(k, len)`: pattern number `k` matches the non-empty prefix of byte length `len`. -/
def patCands (cm : Nat → Nat → Bool) (ps : List (Nat × Re)) (w : List Nat) : List (Nat × Nat) :=
  (splits w).flatMap fun p =>
    ps.zipIdx.filterMap fun q => if matchesBool cm q.1.2 p.1 then some (q.2, bytesLen p.1) else none

/-- Verdict on a reported `(token type, length)`: it is the token type of a pattern `k` matching a
    prefix of that length, no pattern matches a longer prefix, and no earlier pattern matches a
    prefix of the same length; `none` only if no pattern matches any non-empty prefix. -/
def patFindOK (cm : Nat → Nat → Bool) (ps : List (Nat × Re)) (w : List Nat) : Option (Nat × Nat) → Bool
  | none => (patCands cm ps w).isEmpty
  | some (t, len) =>
    (patCands cm ps w).any fun c =>
      c.2 == len && (ps[c.1]?.map (·.1)) == some t &&
        (patCands cm ps w).all fun c' => decide (c'.2 < len) || (c'.2 == len && decide (c.1 ≤ c'.1))

end Scnr
