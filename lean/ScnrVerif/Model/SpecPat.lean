import ScnrVerif.Model.SpecFind
import ScnrVerif.Model.Regex
/-!
# Pattern-level specification of one scan step without lookaheads (C01)

At the current position take the longest non-empty prefix that some pattern matches in full; ties go
to the pattern listed first, whose token type is reported. Stated on the reference regular
expressions (`Matches` decided by derivatives), not on any automaton.
-/
namespace Scnr

/-- `(k, len)`: pattern number `k` matches the non-empty prefix of byte length `len`. -/
def patCands (cm : Nat → Nat → Bool) (ps : List (Nat × Re)) (w : List Nat) : List (Nat × Nat) :=
  (splits w).flatMap fun p =>
    ps.zipIdx.filterMap fun q => if matchesBool cm q.1.2 p.1 then some (q.2, bytesLen p.1) else none

/-- Verdict on a reported `(token type, length)`: it is the token type of a pattern `k` matching a
    prefix of that length, no pattern matches a longer prefix, and no earlier pattern matches a
    prefix of the same length; `none` only if no pattern matches any non-empty prefix. -/
def patFindOK (cm : Nat → Nat → Bool) (ps : List (Nat × Re)) (w : List Nat) : Option (Nat × Nat) → Bool
  | none => (patCands cm ps w).isEmpty
  | some (t, len) =>
    (patCands cm ps w).any fun c =>
      c.2 == len && (ps[c.1]?.map (·.1)) == some t &&
        (patCands cm ps w).all fun c' => decide (c'.2 < len) || (c'.2 == len && decide (c.1 ≤ c'.1))

end Scnr

namespace Scnr

/-- Position of the first pattern carrying token type `t` (what `priority_of` of the crate computes). -/
def firstIdxOfType (ps : List (Nat × Re)) (t : Nat) : Nat := (ps.map (·.1)).idxOf t

/-- The rule the crate follows when token types are shared within a mode (DESIGN F2): the longest
    match wins; among the longest matches the token type whose *first occurrence in the pattern list*
    comes first is reported. With pairwise distinct token types this is `patFindOK`
    (`sharedTypeRule_eq_patFindOK`); with shared ones it differs exactly when a pattern ties with
    an earlier-listed pattern of another type while its own type already occurred before that one.
    Used only to classify a failure of `patFindOK` as the recorded finding F2. -/
def sharedTypeRule (cm : Nat → Nat → Bool) (ps : List (Nat × Re)) (w : List Nat) : Option (Nat × Nat) → Bool
  | none => (patCands cm ps w).isEmpty
  | some (t, len) =>
    (patCands cm ps w).any fun c =>
      c.2 == len && (ps[c.1]?.map (·.1)) == some t &&
        (patCands cm ps w).all fun c' => decide (c'.2 < len) ||
          (c'.2 == len && decide (firstIdxOfType ps t ≤ firstIdxOfType ps ((ps[c'.1]?.map (·.1)).getD 0)))

/-- Token types of a mode are pairwise distinct. -/
def distinctTypes (ps : List (Nat × Re)) : Bool := decide (ps.map (·.1)).Nodup

end Scnr
