import ScnrVerif.Proofs.FindFrom
import ScnrVerif.Model.SpecFind
/-!
# `find_from` meets the trailing-context specification

`findFrom_specFindOK`: for every automaton with lookaheads, class function and text, the result of
the model of `find_from` passes the declarative verdict `specFindOK`.
-/
namespace Scnr

theorem reach_single (A : Dfa) (cm) (S : List Nat) (c : Nat) :
    reach A cm S [c] = stepStates A cm c S := rfl

theorem reach_cons (A : Dfa) (cm) (S : List Nat) (c : Nat) (u : List Nat) :
    reach A cm S (c :: u) = reach A cm (stepStates A cm c S) u := rfl

/-- Readable form of `CandAt`: a non-empty prefix `u`, an accepting state reached after it whose
    lookahead holds on the rest `v`. -/
theorem candAt_iff (A : Dfa) (cm) (la : Nat → List Nat → Option Nat) (i : Nat) (w S : List Nat)
    (k : Cand) :
    CandAt A cm la i w S k ↔
      ∃ p ∈ splits w, ∃ s ∈ reach A cm S p.1, A.isEnd s = true ∧ ∃ l, la (A.tidOf s) p.2 = some l ∧
        k = ⟨i + bytesLen p.1, i + bytesLen p.1 + l, A.tidOf s⟩ := by
  induction w generalizing i S with
  | nil => simp [CandAt, splits]
  | cons c w ih =>
    unfold CandAt
    rw [ih]
    simp only [splits, List.mem_cons, List.mem_map]
    constructor
    · rintro (⟨nx, hm, he, l, hl, rfl⟩ | ⟨p, hp, s, hs, he, l, hl, rfl⟩)
      · refine ⟨([c], w), Or.inl rfl, nx, ?_, he, l, hl, ?_⟩
        · rw [reach_single]; exact mem_stepStates.mpr hm
        · simp [bytesLen]
      · refine ⟨(c :: p.1, p.2), Or.inr ⟨p, hp, rfl⟩, s, ?_, he, l, hl, ?_⟩
        · rw [reach_cons]; exact hs
        · simp [bytesLen]; omega
    · rintro ⟨p, (rfl | ⟨q, hq, rfl⟩), s, hs, he, l, hl, rfl⟩
      · left
        refine ⟨s, ?_, he, l, hl, ?_⟩
        · rw [reach_single] at hs; exact mem_stepStates.mp hs
        · simp [bytesLen]
      · right
        refine ⟨q, hq, s, ?_, he, l, hl, ?_⟩
        · rw [reach_cons] at hs; exact hs
        · simp [bytesLen]; omega

theorem mem_accLens {A : Dfa} {cm v x} :
    x ∈ accLens A cm v ↔ ∃ p ∈ splits v, (∃ s ∈ reach A cm [0] p.1, A.isEnd s = true) ∧ x = bytesLen p.1 := by
  unfold accLens
  simp only [List.mem_filterMap]
  constructor
  · rintro ⟨p, hp, h⟩
    by_cases ha : (reach A cm [0] p.1).any A.isEnd = true
    · simp [ha] at h
      refine ⟨p, hp, ?_, h.symm⟩
      simpa [List.any_eq_true] using ha
    · simp [ha] at h
  · rintro ⟨p, hp, ⟨s, hs, he⟩, rfl⟩
    refine ⟨p, hp, ?_⟩
    have ha : (reach A cm [0] p.1).any A.isEnd = true := by
      simp only [List.any_eq_true]; exact ⟨s, hs, he⟩
    simp [ha]

theorem maxList_le {L : List Nat} {m : Nat} (hle : ∀ x ∈ L, x ≤ m) : maxList L ≤ m := by
  induction L with
  | nil => simp [maxList]
  | cons x r ih =>
    simp only [maxList]
    have hx : x ≤ m := hle x List.mem_cons_self
    have := ih (fun z hz => hle z (List.mem_cons_of_mem _ hz))
    omega

theorem le_maxList {L : List Nat} {m : Nat} (hm : m ∈ L) : m ≤ maxList L := by
  induction L with
  | nil => cases hm
  | cons x r ih =>
    simp only [maxList]
    rcases List.mem_cons.mp hm with rfl | hm'
    · omega
    · have := ih hm'; omega

theorem maxList_eq {L : List Nat} {m : Nat} (hm : m ∈ L) (hle : ∀ x ∈ L, x ≤ m) : maxList L = m :=
  Nat.le_antisymm (maxList_le hle) (le_maxList hm)

/-- The model of `satisfies_lookahead` computes the declarative lookahead condition. -/
theorem laEval_eq_laSpec (cm) (L : La) (v : List Nat) : laEval cm L v = laSpec cm L v := by
  unfold laEval laSpec
  obtain ⟨h1, h2⟩ := loop_spec L.dfa cm noLa 0 v [0] none
  have hcand : ∀ k, CandAt L.dfa cm noLa 0 v [0] k ↔
      ∃ p ∈ splits v, ∃ s ∈ reach L.dfa cm [0] p.1, L.dfa.isEnd s = true ∧
        k = ⟨bytesLen p.1, bytesLen p.1, L.dfa.tidOf s⟩ := by
    intro k
    rw [candAt_iff]
    constructor
    · rintro ⟨p, hp, s, hs, he, l, hl, rfl⟩
      have : l = 0 := by simpa [noLa] using hl.symm
      subst this
      exact ⟨p, hp, s, hs, he, by simp⟩
    · rintro ⟨p, hp, s, hs, he, rfl⟩
      exact ⟨p, hp, s, hs, he, 0, rfl, by simp⟩
  by_cases hE : (accLens L.dfa cm v).isEmpty = true
  · -- no accepted prefix: the loop returns none
    have hnil : accLens L.dfa cm v = [] := by simpa using hE
    have hnone : loop L.dfa cm noLa 0 v [0] none = none := by
      rcases h2 with h | ⟨k, _, hc⟩
      · exact h
      · obtain ⟨p, hp, s, hs, he, _⟩ := (hcand k).mp hc
        have : bytesLen p.1 ∈ accLens L.dfa cm v := mem_accLens.mpr ⟨p, hp, ⟨s, hs, he⟩, rfl⟩
        rw [hnil] at this; cases this
    simp [hnone, hE]
  · have hne : accLens L.dfa cm v ≠ [] := by simpa using hE
    obtain ⟨x, hx⟩ := List.exists_mem_of_ne_nil _ hne
    obtain ⟨p, hp, ⟨s, hs, he⟩, rfl⟩ := mem_accLens.mp hx
    have hd := h1 ⟨bytesLen p.1, bytesLen p.1, L.dfa.tidOf s⟩
      (Or.inr ((hcand _).mpr ⟨p, hp, s, hs, he, rfl⟩))
    obtain ⟨b', hb', _⟩ := hd
    rcases h2 with h | ⟨k, hk, hc⟩
    · rw [h] at hb'; cases hb'
    · have hkb : k = b' := by rw [hk] at hb'; exact Option.some.inj hb'
      subst hkb
      obtain ⟨q, hq, t, ht, hte, hkq⟩ := (hcand k).mp hc
      have hmem : k.endPos ∈ accLens L.dfa cm v := by
        rw [hkq]; exact mem_accLens.mpr ⟨q, hq, ⟨t, ht, hte⟩, rfl⟩
      have hmax : ∀ y ∈ accLens L.dfa cm v, y ≤ k.endPos := by
        intro y hy
        obtain ⟨r, hr, ⟨u, hu, hue⟩, rfl⟩ := mem_accLens.mp hy
        have := h1 ⟨bytesLen r.1, bytesLen r.1, L.dfa.tidOf u⟩
          (Or.inr ((hcand _).mpr ⟨r, hr, u, hu, hue, rfl⟩))
        obtain ⟨b'', hb'', hdom⟩ := this
        have : b'' = k := by rw [hk] at hb''; exact (Option.some.inj hb'').symm
        subst this
        have hext : b''.extent = b''.endPos := by rw [hkq]
        simp only at hdom
        omega
      have := maxList_eq hmem hmax
      simp [hk, hE, this]

theorem la_eq_laSpec (M : ModeDfa) (cm) : M.la cm = M.laSpec cm := by
  funext t v
  unfold ModeDfa.la ModeDfa.laSpec
  cases M.las.lookup t with
  | none => rfl
  | some L => exact laEval_eq_laSpec cm L v

theorem mem_specCands (M : ModeDfa) (cm) (i : Nat) (w : List Nat) (k : Cand) :
    k ∈ specCands M cm i w ↔ CandAt M.dfa cm (M.laSpec cm) i w [0] k := by
  rw [candAt_iff]
  unfold specCands
  simp only [List.mem_flatMap, List.mem_filterMap]
  constructor
  · rintro ⟨p, hp, s, hs, h⟩
    by_cases he : M.dfa.isEnd s = true
    · simp only [he, if_true] at h
      cases hl : M.laSpec cm (M.dfa.tidOf s) p.2 with
      | none => simp [hl] at h
      | some l =>
        simp only [hl, Option.some.injEq] at h
        exact ⟨p, hp, s, hs, he, l, hl, h.symm⟩
    · simp [he] at h
  · rintro ⟨p, hp, s, hs, he, l, hl, rfl⟩
    exact ⟨p, hp, s, hs, by simp [he, hl]⟩

/-- **Main theorem of the scan step** (C04, C05; with no lookaheads C01's longest-match rule):
    the result of `find_from` is a candidate of the trailing-context rule that no candidate beats,
    and `None` is returned only if there is no candidate at all. -/
theorem findFrom_specFindOK (M : ModeDfa) (cm : Nat → Nat → Bool) (i : Nat) (w : List Nat) :
    specFindOK M cm i w (findFrom M cm i w) = true := by
  unfold findFrom
  rw [la_eq_laSpec]
  obtain ⟨h1, h2⟩ := loop_spec M.dfa cm (M.laSpec cm) i w [0] none
  cases hr : loop M.dfa cm (M.laSpec cm) i w [0] none with
  | none =>
    simp only [Option.map_none, specFindOK]
    cases hc : specCands M cm i w with
    | nil => rfl
    | cons k r =>
      have hk : k ∈ specCands M cm i w := by rw [hc]; simp
      have := h1 k (Or.inr ((mem_specCands M cm i w k).mp hk))
      rw [hr] at this
      obtain ⟨b', hb', _⟩ := this
      cases hb'
  | some k =>
    simp only [Option.map_some, specFindOK, List.any_eq_true, Bool.and_eq_true, beq_iff_eq,
      List.all_eq_true]
    rcases h2 with h | ⟨k', hk', hc⟩
    · rw [hr] at h; cases h
    · rw [hr] at hk'
      have : k' = k := (Option.some.inj hk').symm
      subst this
      refine ⟨k', (mem_specCands M cm i w k').mpr hc, ⟨⟨rfl, rfl⟩, ?_⟩⟩
      intro x hx
      have := h1 x (Or.inr ((mem_specCands M cm i w x).mp hx))
      rw [hr] at this
      obtain ⟨b', hb', hd⟩ := this
      have : b' = k' := (Option.some.inj hb').symm
      subst this
      unfold candGe
      simp only [Bool.or_eq_true, Bool.and_eq_true, decide_eq_true_eq, beq_iff_eq]
      rcases hd with hd | ⟨hd1, hd2⟩
      · exact Or.inl hd
      · exact Or.inr ⟨hd1.symm, hd2⟩

end Scnr

namespace Scnr

theorem mem_splits {w : List Nat} {p : List Nat × List Nat} :
    p ∈ splits w ↔ p.1 ≠ [] ∧ w = p.1 ++ p.2 := by
  induction w generalizing p with
  | nil =>
    simp only [splits, List.not_mem_nil, false_iff]
    rintro ⟨h1, h2⟩
    have : p.1 = [] := by
      cases hp : p.1 with
      | nil => rfl
      | cons a b => rw [hp] at h2; simp at h2
    exact h1 this
  | cons c w ih =>
    simp only [splits, List.mem_cons, List.mem_map]
    constructor
    · rintro (rfl | ⟨q, hq, rfl⟩)
      · simp
      · obtain ⟨h1, h2⟩ := ih.mp hq
        exact ⟨by simp, by simp [← h2]⟩
    · rintro ⟨h1, h2⟩
      obtain ⟨u, v⟩ := p
      simp only at h1 h2
      cases u with
      | nil => exact absurd rfl h1
      | cons a u =>
        simp only [List.cons_append, List.cons.injEq] at h2
        obtain ⟨rfl, rfl⟩ := h2
        cases u with
        | nil => left; simp
        | cons b u =>
          right
          exact ⟨(b :: u, v), ih.mpr ⟨by simp, rfl⟩, rfl⟩

theorem bytesLen_append (u v : List Nat) : bytesLen (u ++ v) = bytesLen u + bytesLen v := by
  induction u with
  | nil => simp [bytesLen]
  | cons a u ih => simp [bytesLen, ih]; omega

theorem utf8Len_pos (c : Nat) : 0 < utf8Len c := by
  unfold utf8Len; split <;> (try split) <;> (try split) <;> omega

theorem bytesLen_pos {u : List Nat} (h : u ≠ []) : 0 < bytesLen u := by
  cases u with
  | nil => exact absurd rfl h
  | cons a u => simp only [bytesLen]; have := utf8Len_pos a; omega

end Scnr
