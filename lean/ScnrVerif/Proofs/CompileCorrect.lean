import ScnrVerif.Proofs.EpsElim1
import ScnrVerif.Proofs.ThompsonStart
import ScnrVerif.Proofs.MinimizeTerm
/-!
# The model of the regex compiler is correct for every pattern list (track A)

`compileMode ps` (Thompson construction per pattern, shifted side by side behind state 0, closure
construction, minimizer) accepts a word for a terminal iff the word is not empty and some pattern
with that terminal matches it.
-/
namespace Scnr

theorem shift_base_len (n : Nfa) (k : Nat) :
    (n.shift k).base = n.base + k ∧ (n.shift k).states.length = n.states.length := by
  simp [Nfa.shift]

theorem mkMNfa_spec (ps : List (Nat × CAst)) : ∀ next : Nat,
    (∀ p ∈ mkMNfa next ps, p.2.WF ∧ next ≤ p.2.base ∧
      p.2.base + p.2.states.length ≤ next + ((mkMNfa next ps).map fun p => p.2.states.length).sum) ∧
    (mkMNfa next ps).Pairwise (fun p q => p.2.base + p.2.states.length ≤ q.2.base) := by
  induction ps with
  | nil => intro next; simp [mkMNfa]
  | cons a ps ih =>
    intro next
    obtain ⟨tid, ast⟩ := a
    simp only [mkMNfa]
    have hwf := thompson_wf ast
    have hb := shift_base_len (thompson ast) next
    obtain ⟨ih1, ih2⟩ := ih (((thompson ast).shift next).base + ((thompson ast).shift next).states.length)
    constructor
    · intro p hp
      rcases List.mem_cons.mp hp with rfl | hp
      · refine ⟨shift_wf _ _ hwf.1, ?_, ?_⟩
        · simp only [hb.1]; omega
        · simp only [List.map_cons, List.sum_cons]; omega
      · obtain ⟨h1, h2, h3⟩ := ih1 p hp
        refine ⟨h1, ?_, ?_⟩
        · rw [hb.1] at h2; omega
        · simp only [List.map_cons, List.sum_cons]
          rw [hb.1, hb.2, hwf.2] at h3
          rw [hb.1, hb.2, hwf.2]
          omega
    · rw [List.pairwise_cons]
      refine ⟨?_, ih2⟩
      intro q hq
      exact (ih1 q hq).2.1

theorem mkMNfa_wf (ps : List (Nat × CAst)) : MWF (mkMNfa 1 ps) := by
  obtain ⟨h1, h2⟩ := mkMNfa_spec ps 1
  refine ⟨fun p hp => (h1 p hp).1, fun p hp => (h1 p hp).2.1, ?_, h2⟩
  intro p hp
  have := (h1 p hp).2.2
  simp only [totalStates]
  omega

theorem mkMNfa_accepts (ps : List (Nat × CAst)) (cm : Nat → Nat → Bool) (w : List Nat) (tid : Nat) :
    ∀ next : Nat, (∃ p ∈ mkMNfa next ps, p.1 = tid ∧ p.2.Accepts cm w) ↔
      ∃ q ∈ ps, q.1 = tid ∧ Matches cm q.2.toRe w := by
  induction ps with
  | nil => intro next; simp [mkMNfa]
  | cons a ps ih =>
    intro next
    obtain ⟨t, ast⟩ := a
    simp only [mkMNfa, List.mem_cons, exists_eq_or_imp]
    rw [ih, shift_accepts _ _ (thompson_wf ast).1, thompson_correct]

/-- the automaton before minimization -/
theorem compilePre_correct (ps : List (Nat × CAst)) (cm : Nat → Nat → Bool) (w : List Nat) (tid : Nat) :
    acceptsTid (compilePre ps) cm w tid ↔ w ≠ [] ∧ ∃ q ∈ ps, q.1 = tid ∧ Matches cm q.2.toRe w := by
  rw [compilePre, buildDfa_correct (mkMNfa_wf ps), mkMNfa_accepts]

/-- **the compiler model is correct**: for every list of patterns, every class function, every word
    and every terminal -/
theorem compileMode_correct (ps : List (Nat × CAst)) (cm : Nat → Nat → Bool) (w : List Nat) (tid : Nat) :
    acceptsTid (compileMode ps) cm w tid ↔ w ≠ [] ∧ ∃ q ∈ ps, q.1 = tid ∧ Matches cm q.2.toRe w := by
  have h := minimize_preserves_all (compilePre ps) (buildDfa_nonempty (mkMNfa_wf ps) _)
    (buildDfa_start (mkMNfa_wf ps) _) (buildDfa_targets (mkMNfa_wf ps) _) cm w tid
  rw [compileMode, h]
  exact compilePre_correct ps cm w tid

/-- a lookahead automaton before minimization (terminal 0) -/
theorem compileLaPre_correct (a : CAst) (cm : Nat → Nat → Bool) (w : List Nat) (t : Nat) :
    acceptsTid (compileLaPre a) cm w t ↔ w ≠ [] ∧ t = 0 ∧ Matches cm a.toRe w := by
  rw [compileLaPre, buildDfa1_correct _ 0 (thompson_wf a).1 (thompson_start_fresh a) (thompson_wf a).2,
    thompson_correct]

/-- **lookahead automata**: the minimized automaton of a lookahead pattern accepts exactly the
    non-empty words the pattern matches -/
theorem compileLa_correct (a : CAst) (cm : Nat → Nat → Bool) (w : List Nat) (t : Nat) :
    acceptsTid (minimize (compileLaPre a)) cm w t ↔ w ≠ [] ∧ t = 0 ∧ Matches cm a.toRe w := by
  have hw := (thompson_wf a).1
  have hf := thompson_start_fresh a
  have hb := (thompson_wf a).2
  have h := minimize_preserves_all (compileLaPre a) (buildDfa1_nonempty _ 0 hw hf hb)
    (buildDfa1_start _ 0 hw hf hb) (buildDfa1_targets _ 0 hw hf hb) cm w t
  rw [h]
  exact compileLaPre_correct a cm w t

end Scnr
