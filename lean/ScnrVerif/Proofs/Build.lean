import ScnrVerif.Model.Build
/-!
# Build classification theorems (C15)
-/
namespace Scnr

/-- `try_from_ast` succeeds iff no structurally unsupported node occurs; the classes of the AST are
    appended to the registry; an unsupported class leaves a `false` in the registry. -/
theorem tryFromAst_spec (a : FAst) (reg : List Bool) :
    match tryFromAst a reg with
    | none => a.hasUnsupported = true
    | some reg' => ∃ cs, reg' = reg ++ cs ∧ (cs.all id = !a.hasUnsupported) := by
  induction a generalizing reg with
  | empty => exact ⟨[], by simp, rfl⟩
  | flags => rfl
  | literal => exact ⟨[true], rfl, rfl⟩
  | dot => exact ⟨[true], rfl, rfl⟩
  | assertion => rfl
  | cls s => exact ⟨[s], rfl, by cases s <;> rfl⟩
  | rep greedy x ih =>
    simp only [tryFromAst]
    have := ih reg
    cases hx : tryFromAst x reg with
    | none => rw [hx] at this; simp [FAst.hasUnsupported, this]
    | some reg' =>
      rw [hx] at this
      obtain ⟨cs, h1, h2⟩ := this
      cases greedy with
      | true => exact ⟨cs, h1, by simp [FAst.hasUnsupported, h2]⟩
      | false => simp [FAst.hasUnsupported]
  | group flagged x ih =>
    simp only [tryFromAst]
    cases flagged with
    | true => simp [FAst.hasUnsupported]
    | false =>
      have := ih reg
      simp only [Bool.false_eq_true, if_false]
      cases hx : tryFromAst x reg with
      | none => rw [hx] at this; simp [FAst.hasUnsupported, this]
      | some reg' =>
        rw [hx] at this
        obtain ⟨cs, h1, h2⟩ := this
        exact ⟨cs, h1, by simp [FAst.hasUnsupported, h2]⟩
  | alt a b iha ihb =>
    have ha := iha reg
    cases hx : tryFromAst a reg with
    | none =>
      rw [hx] at ha
      simp only [tryFromAst, hx]
      simp [FAst.hasUnsupported, ha]
    | some r1 =>
      rw [hx] at ha
      obtain ⟨c1, h1, h2⟩ := ha
      have hb := ihb r1
      cases hy : tryFromAst b r1 with
      | none =>
        rw [hy] at hb
        simp only [tryFromAst, hx, hy]
        simp [FAst.hasUnsupported, hb]
      | some r2 =>
        rw [hy] at hb
        obtain ⟨c2, g1, g2⟩ := hb
        simp only [tryFromAst, hx, hy]
        refine ⟨c1 ++ c2, by rw [g1, h1]; simp, ?_⟩
        simp only [List.all_append, h2, g2, FAst.hasUnsupported, Bool.not_or]

  | concat a b iha ihb =>
    have ha := iha reg
    cases hx : tryFromAst a reg with
    | none =>
      rw [hx] at ha
      simp only [tryFromAst, hx]
      simp [FAst.hasUnsupported, ha]
    | some r1 =>
      rw [hx] at ha
      obtain ⟨c1, h1, h2⟩ := ha
      have hb := ihb r1
      cases hy : tryFromAst b r1 with
      | none =>
        rw [hy] at hb
        simp only [tryFromAst, hx, hy]
        simp [FAst.hasUnsupported, hb]
      | some r2 =>
        rw [hy] at hb
        obtain ⟨c2, g1, g2⟩ := hb
        simp only [tryFromAst, hx, hy]
        refine ⟨c1 ++ c2, by rw [g1, h1]; simp, ?_⟩
        simp only [List.all_append, h2, g2, FAst.hasUnsupported, Bool.not_or]

/-- Invariant threaded through the stages: `reg.all id` is false as soon as an unsupported class was
    registered, and stays false. -/
theorem stage_spec (a : Option FAst) (reg : List Bool) :
    match stage a reg with
    | .error .syntaxError => a = none
    | .error .unsupported => ∃ x, a = some x ∧ x.hasUnsupported = true
    | .error .ok => False
    | .ok reg' => ∃ x cs, a = some x ∧ reg' = reg ++ cs ∧ cs.all id = !x.hasUnsupported := by
  cases a with
  | none => simp [stage]
  | some x =>
    simp only [stage]
    have := tryFromAst_spec x reg
    cases hx : tryFromAst x reg with
    | none => rw [hx] at this; exact ⟨x, rfl, this⟩
    | some reg' => rw [hx] at this; obtain ⟨cs, h1, h2⟩ := this; exact ⟨x, cs, rfl, h1, h2⟩

theorem stagePatterns_ok (m : List BPat) (reg : List Bool)
    (h : m.all (fun p => p.parses && !p.hasUnsupported) = true) (hr : reg.all id = true) :
    ∃ reg', stagePatterns m reg = .ok reg' ∧ reg'.all id = true := by
  induction m generalizing reg with
  | nil => exact ⟨reg, rfl, hr⟩
  | cons p ps ih =>
    simp only [List.all_cons, Bool.and_eq_true] at h
    obtain ⟨⟨hp, hu⟩, hps⟩ := h
    simp only [stagePatterns]
    have hs := stage_spec p.ast reg
    cases hp' : p.ast with
    | none => simp [BPat.parses, hp'] at hp
    | some x =>
      have hux : x.hasUnsupported = false := by
        simp only [BPat.hasUnsupported, hp', Bool.not_eq_true', Bool.or_eq_false_iff] at hu
        exact hu.1
      rw [hp'] at hs
      cases hst : stage (some x) reg with
      | error e =>
        rw [hst] at hs
        cases e with
        | ok => exact absurd hs id
        | syntaxError => cases hs
        | unsupported => obtain ⟨y, hy, hyu⟩ := hs; cases hy; rw [hux] at hyu; cases hyu
      | ok reg' =>
        rw [hst] at hs
        obtain ⟨y, cs, hy, h1, h2⟩ := hs
        cases hy
        simp only
        apply ih reg' hps
        rw [h1, List.all_append, hr, h2, hux]; rfl

theorem stageLookaheads_ok (m : List BPat) (reg : List Bool)
    (h : m.all (fun p => p.parses && !p.hasUnsupported) = true) (hr : reg.all id = true) :
    ∃ reg', stageLookaheads m reg = .ok reg' ∧ reg'.all id = true := by
  induction m generalizing reg with
  | nil => exact ⟨reg, rfl, hr⟩
  | cons p ps ih =>
    simp only [List.all_cons, Bool.and_eq_true] at h
    obtain ⟨⟨hp, hu⟩, hps⟩ := h
    simp only [stageLookaheads]
    cases hl : p.lookahead with
    | none => exact ih reg hps hr
    | some la =>
      cases la with
      | none => simp [BPat.parses, hl] at hp
      | some x =>
        have hux : x.hasUnsupported = false := by
          simp only [BPat.hasUnsupported, hl, Bool.not_eq_true', Bool.or_eq_false_iff] at hu
          exact hu.2
        simp only
        have hs := stage_spec (some x) reg
        cases hst : stage (some x) reg with
        | error e =>
          rw [hst] at hs
          cases e with
          | ok => exact absurd hs id
          | syntaxError => cases hs
          | unsupported => obtain ⟨y, hy, hyu⟩ := hs; cases hy; rw [hux] at hyu; cases hyu
        | ok reg' =>
          rw [hst] at hs
          obtain ⟨y, cs, hy, h1, h2⟩ := hs
          cases hy
          simp only
          apply ih reg' hps
          rw [h1, List.all_append, hr, h2, hux]; rfl

/-- **Supported configurations always build.** -/
theorem supported_builds (modes : List (List BPat)) (h : allSupported modes = true) : build modes = .ok := by
  unfold build
  suffices ∀ reg, reg.all id = true → ∃ reg', stageModes modes reg = .ok reg' ∧ reg'.all id = true by
    obtain ⟨reg', h1, h2⟩ := this [] rfl
    rw [h1]; simp [h2]
  unfold allSupported at h
  induction modes with
  | nil => intro reg hr; exact ⟨reg, rfl, hr⟩
  | cons m ms ih =>
    intro reg hr
    simp only [List.all_cons, Bool.and_eq_true] at h
    obtain ⟨r1, e1, a1⟩ := stagePatterns_ok m reg h.1 hr
    obtain ⟨r2, e2, a2⟩ := stageLookaheads_ok m r1 h.1 a1
    simp only [stageModes, e1, e2]
    exact ih h.2 r2 a2

/-! ### rejection -/

theorem stagePatterns_reg (m : List BPat) (reg reg' : List Bool) (h : stagePatterns m reg = .ok reg') :
    (∀ p ∈ m, p.ast.isSome = true) ∧
    (reg'.all id = (reg.all id && m.all fun p => match p.ast with | some a => !a.hasUnsupported | none => true)) := by
  induction m generalizing reg with
  | nil => simp only [stagePatterns, Except.ok.injEq] at h; subst h; simp
  | cons p ps ih =>
    simp only [stagePatterns] at h
    have hs := stage_spec p.ast reg
    cases hst : stage p.ast reg with
    | error e => rw [hst] at h; cases h
    | ok r1 =>
      rw [hst] at h hs
      simp only at h
      obtain ⟨x, cs, hx, h1, h2⟩ := hs
      obtain ⟨i1, i2⟩ := ih r1 h
      refine ⟨?_, ?_⟩
      · intro q hq
        rcases List.mem_cons.mp hq with rfl | hq
        · simp [hx]
        · exact i1 q hq
      · rw [i2, h1, List.all_append, h2]
        simp only [List.all_cons, hx, Bool.and_assoc]

theorem stageLookaheads_reg (m : List BPat) (reg reg' : List Bool) (h : stageLookaheads m reg = .ok reg') :
    (∀ p ∈ m, p.lookahead ≠ some none) ∧
    (reg'.all id = (reg.all id && m.all fun p => match p.lookahead with | some (some a) => !a.hasUnsupported | _ => true)) := by
  induction m generalizing reg with
  | nil => simp only [stageLookaheads, Except.ok.injEq] at h; subst h; simp
  | cons p ps ih =>
    simp only [stageLookaheads] at h
    cases hl : p.lookahead with
    | none =>
      rw [hl] at h
      simp only at h
      obtain ⟨i1, i2⟩ := ih reg h
      refine ⟨?_, ?_⟩
      · intro q hq
        rcases List.mem_cons.mp hq with rfl | hq
        · simp [hl]
        · exact i1 q hq
      · rw [i2]; simp [hl]
    | some la =>
      rw [hl] at h
      simp only at h
      have hs := stage_spec la reg
      cases hst : stage la reg with
      | error e => rw [hst] at h; cases h
      | ok r1 =>
        rw [hst] at h hs
        simp only at h
        obtain ⟨x, cs, hx, h1, h2⟩ := hs
        obtain ⟨i1, i2⟩ := ih r1 h
        refine ⟨?_, ?_⟩
        · intro q hq
          rcases List.mem_cons.mp hq with rfl | hq
          · simp [hl, hx]
          · exact i1 q hq
        · rw [i2, h1, List.all_append, h2]
          simp only [List.all_cons, hl, hx, Bool.and_assoc]

/-- **Anything unsupported or unparsable is rejected**: if the build succeeds, every pattern and
    lookahead of every mode parses and contains no unsupported construct. -/
theorem ok_only_if_supported (modes : List (List BPat)) (h : build modes = .ok) : allSupported modes = true := by
  unfold build at h
  cases hs : stageModes modes [] with
  | error e => rw [hs] at h; simp only at h; subst h; exact absurd hs (by
      -- an error result is never `.ok`
      intro hs'
      have : ∀ (ms : List (List BPat)) reg, stageModes ms reg ≠ .error .ok := by
        intro ms
        induction ms with
        | nil => intro reg h; cases h
        | cons m ms ih =>
          intro reg h
          simp only [stageModes] at h
          cases h1 : stagePatterns m reg with
          | error e =>
            rw [h1] at h; simp only [Except.error.injEq] at h; subst h
            have : ∀ (l : List BPat) r, stagePatterns l r ≠ .error .ok := by
              intro l
              induction l with
              | nil => intro r h; cases h
              | cons p ps ihp =>
                intro r h
                simp only [stagePatterns] at h
                have := stage_spec p.ast r
                cases h2 : stage p.ast r with
                | error e => rw [h2] at h this; simp only [Except.error.injEq] at h; subst h; exact this
                | ok r' => rw [h2] at h; exact ihp r' h
            exact this m reg h1
          | ok r1 =>
            rw [h1] at h; simp only at h
            cases h2 : stageLookaheads m r1 with
            | error e =>
              rw [h2] at h; simp only [Except.error.injEq] at h; subst h
              have : ∀ (l : List BPat) r, stageLookaheads l r ≠ .error .ok := by
                intro l
                induction l with
                | nil => intro r h; cases h
                | cons p ps ihp =>
                  intro r h
                  simp only [stageLookaheads] at h
                  cases hl : p.lookahead with
                  | none => rw [hl] at h; exact ihp r h
                  | some la =>
                    rw [hl] at h; simp only at h
                    have := stage_spec la r
                    cases h3 : stage la r with
                    | error e => rw [h3] at h this; simp only [Except.error.injEq] at h; subst h; exact this
                    | ok r' => rw [h3] at h; exact ihp r' h
              exact this m r1 h2
            | ok r2 => rw [h2] at h; exact ih r2 h
      exact this modes [] hs')
  | ok reg =>
    rw [hs] at h
    simp only at h
    have hall : reg.all id = true := by
      by_cases hr : reg.all id = true
      · exact hr
      · simp [hr] at h
    -- thread the registry facts through the modes
    have key : ∀ (ms : List (List BPat)) (r r' : List Bool), stageModes ms r = .ok r' → r'.all id = true →
        r.all id = true ∧ allSupported ms = true := by
      intro ms
      induction ms with
      | nil =>
        intro r r' h1 h2
        simp only [stageModes, Except.ok.injEq] at h1; subst h1
        exact ⟨h2, rfl⟩
      | cons m ms ih =>
        intro r r' h1 h2
        simp only [stageModes] at h1
        cases e1 : stagePatterns m r with
        | error e => rw [e1] at h1; cases h1
        | ok r1 =>
          rw [e1] at h1; simp only at h1
          cases e2 : stageLookaheads m r1 with
          | error e => rw [e2] at h1; cases h1
          | ok r2 =>
            rw [e2] at h1; simp only at h1
            obtain ⟨a2, s2⟩ := ih r2 r' h1 h2
            obtain ⟨l1, l2⟩ := stageLookaheads_reg m r1 r2 e2
            obtain ⟨p1, p2⟩ := stagePatterns_reg m r r1 e1
            rw [a2] at l2
            have hl : r1.all id = true ∧ (m.all fun p => match p.lookahead with | some (some a) => !a.hasUnsupported | _ => true) = true := by
              have := l2.symm; simpa [Bool.and_eq_true] using this
            rw [hl.1] at p2
            have hp : r.all id = true ∧ (m.all fun p => match p.ast with | some a => !a.hasUnsupported | none => true) = true := by
              have := p2.symm; simpa [Bool.and_eq_true] using this
            refine ⟨hp.1, ?_⟩
            unfold allSupported at s2 ⊢
            simp only [List.all_cons, Bool.and_eq_true]
            refine ⟨?_, s2⟩
            rw [List.all_eq_true]
            intro q hq
            have q1 := p1 q hq
            have q2 := l1 q hq
            have q3 := (List.all_eq_true.mp hp.2) q hq
            have q4 := (List.all_eq_true.mp hl.2) q hq
            cases hqa : q.ast with
            | none => simp [hqa] at q1
            | some a =>
              rw [hqa] at q3
              cases hql : q.lookahead with
              | none => simp [BPat.parses, BPat.hasUnsupported, hqa, hql] at q3 ⊢; exact q3
              | some la =>
                cases la with
                | none => exact absurd hql q2
                | some x =>
                  rw [hql] at q4
                  simp [BPat.parses, BPat.hasUnsupported, hqa, hql] at q3 q4 ⊢
                  exact ⟨q3, q4⟩
    exact (key modes [] reg hs hall).2

end Scnr
