import ScnrVerif.Model.Minimize
import ScnrVerif.Proofs.Equiv
/-!
# The quotient by a stable partition preserves the language (track A, minimizer)

`createFromPartition_preserves`: for every automaton `A` (transition targets in range) and every
partition `P` of its states that covers them, has disjoint groups, is homogeneous in (accepting,
terminal) and is *stable* (states of one group reach the same groups on every class),
`createFromPartition A P` accepts every word for exactly the same terminals as `A`.
-/
namespace Scnr

/-! ## membership in the merged transition maps -/

/-- `(cc, t)` occurs in a class-indexed map -/
def InMap (M : List (Nat × List Nat)) (cc t : Nat) : Prop := ∃ ts, (cc, ts) ∈ M ∧ t ∈ ts

theorem inMap_transMap (A : Dfa) (s cc t : Nat) : InMap (transMap A s) cc t ↔ (cc, t) ∈ A.outs s := by
  unfold InMap transMap
  constructor
  · rintro ⟨ts, hm, ht⟩
    simp only [List.mem_map, mem_normNat] at hm
    obtain ⟨c, _, hc⟩ := hm
    simp only [Prod.mk.injEq] at hc
    obtain ⟨rfl, rfl⟩ := hc
    simp only [mem_normNat, List.mem_map, List.mem_filter, beq_iff_eq] at ht
    obtain ⟨p, ⟨hp, hpc⟩, rfl⟩ := ht
    rw [← hpc]; exact hp
  · intro h
    refine ⟨normNat (((A.outs s).filter (fun p => p.1 == cc)).map (·.2)), ?_, ?_⟩
    · simp only [List.mem_map, mem_normNat]
      exact ⟨cc, ⟨(cc, t), h, rfl⟩, rfl⟩
    · simp only [mem_normNat, List.mem_map, List.mem_filter, beq_iff_eq]
      exact ⟨(cc, t), ⟨h, rfl⟩, rfl⟩

theorem mem_foldl_pushNew' (ts e : List Nat) (y : Nat) : y ∈ ts.foldl pushNew e ↔ y ∈ e ∨ y ∈ ts :=
  mem_foldl_pushNew

theorem inMap_insertCc (cc : Nat) (ts : List Nat) (M : List (Nat × List Nat)) (c t : Nat) :
    InMap (insertCc cc ts M) c t ↔ InMap M c t ∨ (c = cc ∧ t ∈ ts) := by
  induction M with
  | nil =>
    simp only [insertCc, InMap, List.mem_singleton, Prod.mk.injEq, List.not_mem_nil, false_and, exists_false,
      false_or]
    constructor
    · rintro ⟨ts', ⟨rfl, rfl⟩, ht⟩; exact ⟨rfl, ht⟩
    · rintro ⟨rfl, ht⟩; exact ⟨ts, ⟨rfl, rfl⟩, ht⟩
  | cons p r ih =>
    obtain ⟨k, e⟩ := p
    unfold insertCc
    by_cases h1 : k = cc
    · subst h1
      simp only [if_true, InMap, List.mem_cons, Prod.mk.injEq]
      constructor
      · rintro ⟨ts', (⟨rfl, rfl⟩ | hm), ht⟩
        · rcases (mem_foldl_pushNew' ts e t).mp ht with h | h
          · exact Or.inl ⟨e, Or.inl ⟨rfl, rfl⟩, h⟩
          · exact Or.inr ⟨rfl, h⟩
        · exact Or.inl ⟨ts', Or.inr hm, ht⟩
      · rintro (⟨ts', (⟨rfl, rfl⟩ | hm), ht⟩ | ⟨rfl, ht⟩)
        · exact ⟨_, Or.inl ⟨rfl, rfl⟩, (mem_foldl_pushNew' ts ts' t).mpr (Or.inl ht)⟩
        · exact ⟨ts', Or.inr hm, ht⟩
        · exact ⟨_, Or.inl ⟨rfl, rfl⟩, (mem_foldl_pushNew' ts e t).mpr (Or.inr ht)⟩
    · simp only [h1, if_false]
      by_cases h2 : cc < k
      · simp only [h2, if_true, InMap, List.mem_cons, Prod.mk.injEq]
        constructor
        · rintro ⟨ts', (⟨rfl, rfl⟩ | hm), ht⟩
          · exact Or.inr ⟨rfl, ht⟩
          · exact Or.inl ⟨ts', hm, ht⟩
        · rintro (⟨ts', hm, ht⟩ | ⟨rfl, ht⟩)
          · exact ⟨ts', Or.inr hm, ht⟩
          · exact ⟨ts, Or.inl ⟨rfl, rfl⟩, ht⟩
      · simp only [h2, if_false]
        have : ∀ M' : List (Nat × List Nat), InMap ((k, e) :: M') c t ↔ (c = k ∧ t ∈ e) ∨ InMap M' c t := by
          intro M'
          simp only [InMap, List.mem_cons, Prod.mk.injEq]
          constructor
          · rintro ⟨ts', (⟨rfl, rfl⟩ | hm), ht⟩
            · exact Or.inl ⟨rfl, ht⟩
            · exact Or.inr ⟨ts', hm, ht⟩
          · rintro (⟨rfl, ht⟩ | ⟨ts', hm, ht⟩)
            · exact ⟨e, Or.inl ⟨rfl, rfl⟩, ht⟩
            · exact ⟨ts', Or.inr hm, ht⟩
        rw [this, this, ih]
        constructor
        · rintro (h | h | h)
          · exact Or.inl (Or.inl h)
          · exact Or.inl (Or.inr h)
          · exact Or.inr h
        · rintro ((h | h) | h)
          · exact Or.inl h
          · exact Or.inr (Or.inl h)
          · exact Or.inr (Or.inr h)

theorem inMap_mergeInto (rep other : List (Nat × List Nat)) (c t : Nat) :
    InMap (mergeInto rep other) c t ↔ InMap rep c t ∨ InMap other c t := by
  unfold mergeInto
  induction other generalizing rep with
  | nil => simp [InMap]
  | cons p r ih =>
    simp only [List.foldl_cons]
    rw [ih, inMap_insertCc]
    have : InMap (p :: r) c t ↔ (c = p.1 ∧ t ∈ p.2) ∨ InMap r c t := by
      obtain ⟨k, e⟩ := p
      simp only [InMap, List.mem_cons, Prod.mk.injEq]
      constructor
      · rintro ⟨ts', (⟨rfl, rfl⟩ | hm), ht⟩
        · exact Or.inl ⟨rfl, ht⟩
        · exact Or.inr ⟨ts', hm, ht⟩
      · rintro (⟨rfl, ht⟩ | ⟨ts', hm, ht⟩)
        · exact ⟨e, Or.inl ⟨rfl, rfl⟩, ht⟩
        · exact ⟨ts', Or.inr hm, ht⟩
    rw [this]
    constructor
    · rintro ((h | h) | h)
      · exact Or.inl h
      · exact Or.inr (Or.inl h)
      · exact Or.inr (Or.inr h)
    · rintro (h | h | h)
      · exact Or.inl (Or.inl h)
      · exact Or.inl (Or.inr h)
      · exact Or.inr h

theorem inMap_foldl_merge (A : Dfa) (ms : List Nat) (M : List (Nat × List Nat)) (c t : Nat) :
    InMap (ms.foldl (fun acc m => mergeInto acc (transMap A m)) M) c t ↔
      InMap M c t ∨ ∃ m ∈ ms, (c, t) ∈ A.outs m := by
  induction ms generalizing M with
  | nil => simp
  | cons m r ih =>
    simp only [List.foldl_cons]
    rw [ih, inMap_mergeInto, inMap_transMap]
    simp only [List.mem_cons]
    constructor
    · rintro ((h | h) | ⟨m', hm', h⟩)
      · exact Or.inl h
      · exact Or.inr ⟨m, Or.inl rfl, h⟩
      · exact Or.inr ⟨m', Or.inr hm', h⟩
    · rintro (h | ⟨m', (rfl | hm'), h⟩)
      · exact Or.inl (Or.inl h)
      · exact Or.inl (Or.inr h)
      · exact Or.inr ⟨m', hm', h⟩

theorem mem_foldl_pushNewPair (l acc : List (Nat × Nat)) (y : Nat × Nat) :
    y ∈ l.foldl pushNewPair acc ↔ y ∈ acc ∨ y ∈ l := by
  induction l generalizing acc with
  | nil => simp
  | cons x r ih =>
    simp only [List.foldl_cons, ih, List.mem_cons]
    have : y ∈ pushNewPair acc x ↔ y ∈ acc ∨ y = x := by
      unfold pushNewPair
      by_cases h : x ∈ acc
      · simp only [List.contains_iff_mem, h, if_true]
        constructor
        · exact Or.inl
        · rintro (h' | rfl)
          · exact h'
          · exact h
      · simp [h]
    rw [this]
    constructor
    · rintro ((h | h) | h)
      · exact Or.inl h
      · exact Or.inr (Or.inl h)
      · exact Or.inr (Or.inr h)
    · rintro (h | h | h)
      · exact Or.inl (Or.inl h)
      · exact Or.inl (Or.inr h)
      · exact Or.inr h

/-- The transitions of a group's representative: every transition of every member, with the
    target replaced by its group. -/
theorem mem_groupTrans (A : Dfa) (P : List (List Nat)) (g : List Nat) (cc k : Nat) :
    (cc, k) ∈ groupTrans A P g ↔ ∃ s ∈ g, ∃ t, (cc, t) ∈ A.outs s ∧ findGroup P t = k := by
  cases g with
  | nil => simp [groupTrans]
  | cons r ms =>
    simp only [groupTrans]
    rw [mem_foldl_pushNewPair]
    simp only [List.not_mem_nil, false_or, List.mem_flatMap, List.mem_map, Prod.mk.injEq]
    constructor
    · rintro ⟨p, hp, t, ht, rfl, rfl⟩
      have hin : InMap (ms.foldl (fun acc m => mergeInto acc (transMap A m)) (transMap A r)) p.1 t :=
        ⟨p.2, hp, ht⟩
      rcases (inMap_foldl_merge A ms _ p.1 t).mp hin with h | ⟨m, hm, h⟩
      · exact ⟨r, by simp, t, (inMap_transMap A r p.1 t).mp h, rfl⟩
      · exact ⟨m, by simp [hm], t, h, rfl⟩
    · rintro ⟨s, hs, t, ht, rfl⟩
      have hin : InMap (ms.foldl (fun acc m => mergeInto acc (transMap A m)) (transMap A r)) cc t := by
        apply (inMap_foldl_merge A ms _ cc t).mpr
        rcases List.mem_cons.mp hs with rfl | hs'
        · exact Or.inl ((inMap_transMap A s cc t).mpr ht)
        · exact Or.inr ⟨s, hs', ht⟩
      obtain ⟨ts, h1, h2⟩ := hin
      exact ⟨(cc, ts), h1, t, h2, rfl, rfl⟩

end Scnr

namespace Scnr

/-! ## partitions -/

/-- The hypotheses on a partition `Q` of the states of `A` (all invariant under reordering of the
    groups). -/
structure GoodPartition (A : Dfa) (Q : List (List Nat)) : Prop where
  /-- every state and every transition target lies in some group -/
  covers : ∀ s, s < A.trans.length → ∃ g ∈ Q, s ∈ g
  targets : ∀ s cc t, (cc, t) ∈ A.outs s → t < A.trans.length
  /-- groups are disjoint -/
  disjoint : ∀ g ∈ Q, ∀ g' ∈ Q, ∀ s, s ∈ g → s ∈ g' → g = g'
  /-- all members of a group agree on (accepting, terminal) -/
  homog : ∀ g ∈ Q, ∀ s ∈ g, ∀ s' ∈ g, A.isEnd s = A.isEnd s' ∧ (A.isEnd s = true → A.tidOf s = A.tidOf s')
  /-- members of a group reach the same groups on every class -/
  stable : ∀ g ∈ Q, ∀ s ∈ g, ∀ s' ∈ g, ∀ cc t, (cc, t) ∈ A.outs s →
    ∃ t', (cc, t') ∈ A.outs s' ∧ ∃ h ∈ Q, t ∈ h ∧ t' ∈ h

theorem findIdx_spec {α : Type} (p : α → Bool) (l : List α) (x : α) (hx : x ∈ l) (hp : p x = true) :
    ∃ y, l[l.findIdx p]? = some y ∧ p y = true := by
  have hlt : l.findIdx p < l.length := List.findIdx_lt_length_of_exists ⟨x, hx, hp⟩
  exact ⟨l[l.findIdx p], by simp [hlt], List.findIdx_getElem (w := hlt)⟩

theorem findIdx_le_of_getElem? {α : Type} (p : α → Bool) (l : List α) (i : Nat) (y : α)
    (h : l[i]? = some y) (hp : p y = true) : l.findIdx p ≤ i := by
  rcases Nat.lt_or_ge i (l.findIdx p) with hlt | hge
  · have := List.not_of_lt_findIdx hlt
    have hi : i < l.length := Nat.lt_of_lt_of_le hlt List.findIdx_le_length
    rw [List.getElem?_eq_getElem hi] at h
    simp only [Option.some.injEq] at h
    rw [h, hp] at this
    cases this
  · exact hge

/-- the group found for a covered state contains it -/
theorem findGroup_mem (Q : List (List Nat)) (s : Nat) (h : ∃ g ∈ Q, s ∈ g) :
    ∃ g, Q[findGroup Q s]? = some g ∧ s ∈ g := by
  obtain ⟨g, hg, hs⟩ := h
  obtain ⟨y, h1, h2⟩ := findIdx_spec (fun g => g.contains s) Q g hg (by simpa using hs)
  exact ⟨y, h1, by simpa using h2⟩

/-- under disjointness, two states of one group are found in the same group index -/
theorem findGroup_same {A : Dfa} {Q : List (List Nat)} (hq : GoodPartition A Q) {t t' : Nat} {h : List Nat}
    (hh : h ∈ Q) (ht : t ∈ h) (ht' : t' ∈ h) : findGroup Q t = findGroup Q t' := by
  obtain ⟨g, hg, hgt⟩ := findGroup_mem Q t ⟨h, hh, ht⟩
  obtain ⟨g', hg', hgt'⟩ := findGroup_mem Q t' ⟨h, hh, ht'⟩
  have hgQ : g ∈ Q := List.mem_of_getElem? hg
  have hg'Q : g' ∈ Q := List.mem_of_getElem? hg'
  have e1 : g = h := hq.disjoint g hgQ h hh t hgt ht
  have e2 : g' = h := hq.disjoint g' hg'Q h hh t' hgt' ht'
  -- both indices are the first index of a group containing the respective state
  have le1 : findGroup Q t ≤ findGroup Q t' := by
    unfold findGroup
    exact findIdx_le_of_getElem? _ Q _ g' hg' (by rw [e2]; simpa using ht)
  have le2 : findGroup Q t' ≤ findGroup Q t := by
    unfold findGroup
    exact findIdx_le_of_getElem? _ Q _ g hg (by rw [e1]; simpa using ht')
  omega

end Scnr

namespace Scnr

theorem mem_startFirst (P : List (List Nat)) (g : List Nat) : g ∈ startFirst P ↔ g ∈ P := by
  unfold startFirst
  simp only [List.mem_append, List.mem_filter]
  constructor
  · rintro (⟨h, _⟩ | ⟨h, _⟩) <;> exact h
  · intro h
    by_cases hc : g.contains 0 = true
    · exact Or.inl ⟨h, hc⟩
    · exact Or.inr ⟨h, by simpa using hc⟩

theorem goodPartition_startFirst {A : Dfa} {P : List (List Nat)} (h : GoodPartition A P) :
    GoodPartition A (startFirst P) where
  covers s hs := by
    obtain ⟨g, hg, hsg⟩ := h.covers s hs
    exact ⟨g, (mem_startFirst P g).mpr hg, hsg⟩
  targets := h.targets
  disjoint g hg g' hg' := h.disjoint g ((mem_startFirst P g).mp hg) g' ((mem_startFirst P g').mp hg')
  homog g hg := h.homog g ((mem_startFirst P g).mp hg)
  stable g hg s hs s' hs' cc t ht := by
    obtain ⟨t', h1, k, hk, h2, h3⟩ := h.stable g ((mem_startFirst P g).mp hg) s hs s' hs' cc t ht
    exact ⟨t', h1, k, (mem_startFirst P k).mpr hk, h2, h3⟩

/-- the start state is found in group 0 of the reordered partition -/
theorem findGroup_start {A : Dfa} {P : List (List Nat)} (h : GoodPartition A P) (hn : 0 < A.trans.length) :
    findGroup (startFirst P) 0 = 0 := by
  obtain ⟨g, hg, h0⟩ := h.covers 0 hn
  unfold findGroup startFirst
  have hm : g ∈ P.filter (fun g => g.contains 0) := List.mem_filter.mpr ⟨hg, by simpa using h0⟩
  cases hf : P.filter (fun g => g.contains 0) with
  | nil => rw [hf] at hm; cases hm
  | cons x r =>
    have hx : x ∈ P.filter (fun g => g.contains 0) := by rw [hf]; simp
    have : x.contains 0 = true := (List.mem_filter.mp hx).2
    have h0x : 0 ∈ x := by simpa using this
    simp [List.findIdx_cons, h0x]

/-! ## accepting flags of the quotient -/

theorem groupEnd_spec (A : Dfa) (g : List Nat) (acc : Bool × Nat) :
    ((g.foldl (fun acc s => if A.isEnd s then (true, A.tidOf s) else acc) acc).1 = true ↔
      (acc.1 = true ∨ ∃ s ∈ g, A.isEnd s = true)) ∧
    ((∃ s ∈ g, A.isEnd s = true) →
      ∃ s ∈ g, A.isEnd s = true ∧ (g.foldl (fun acc s => if A.isEnd s then (true, A.tidOf s) else acc) acc).2 = A.tidOf s) := by
  induction g generalizing acc with
  | nil => simp
  | cons x r ih =>
    simp only [List.foldl_cons]
    obtain ⟨i1, i2⟩ := ih (if A.isEnd x then (true, A.tidOf x) else acc)
    constructor
    · rw [i1]
      by_cases hx : A.isEnd x = true
      · simp [hx]
      · simp only [hx, List.mem_cons]
        constructor
        · rintro (h | ⟨s, hs, he⟩)
          · exact Or.inl h
          · exact Or.inr ⟨s, Or.inr hs, he⟩
        · rintro (h | ⟨s, (rfl | hs), he⟩)
          · exact Or.inl h
          · exact absurd he hx
          · exact Or.inr ⟨s, hs, he⟩
    · rintro ⟨s, hs, he⟩
      by_cases hr : ∃ s' ∈ r, A.isEnd s' = true
      · obtain ⟨s', hs', he', ht'⟩ := i2 hr
        exact ⟨s', List.mem_cons_of_mem _ hs', he', ht'⟩
      · -- no accepting state in the rest: the fold keeps what `x` set
        have hx : A.isEnd x = true := by
          rcases List.mem_cons.mp hs with rfl | hs'
          · exact he
          · exact absurd ⟨s, hs', he⟩ hr
        refine ⟨x, by simp, hx, ?_⟩
        have keep : ∀ (l : List Nat) (a : Bool × Nat), (∀ y ∈ l, A.isEnd y = false) →
            l.foldl (fun acc s => if A.isEnd s then (true, A.tidOf s) else acc) a = a := by
          intro l
          induction l with
          | nil => intro a _; rfl
          | cons y l ihl =>
            intro a hall
            simp only [List.foldl_cons, hall y (by simp)]
            exact ihl a (fun z hz => hall z (List.mem_cons_of_mem _ hz))
        rw [keep r _ (fun y hy => by
          by_cases hy' : A.isEnd y = true
          · exact absurd ⟨y, hy, hy'⟩ hr
          · simpa using hy')]
        simp [hx]

/-! ## the quotient theorem -/

theorem quotient_outs (A : Dfa) (Q : List (List Nat)) (j : Nat) (g : List Nat) (h : Q[j]? = some g) :
    ({ trans := Q.map (groupTrans A Q), ends := Q.map (groupEnd A), prio := A.prio } : Dfa).outs j =
      groupTrans A Q g := by
  simp only [Dfa.outs, List.getD_eq_getElem?_getD, List.getElem?_map, h]; rfl

theorem quotient_end (A : Dfa) (Q : List (List Nat)) (j : Nat) (g : List Nat) (h : Q[j]? = some g) :
    ({ trans := Q.map (groupTrans A Q), ends := Q.map (groupEnd A), prio := A.prio } : Dfa).isEnd j = (groupEnd A g).1 ∧
    ({ trans := Q.map (groupTrans A Q), ends := Q.map (groupEnd A), prio := A.prio } : Dfa).tidOf j = (groupEnd A g).2 := by
  simp only [Dfa.isEnd, Dfa.tidOf, List.getD_eq_getElem?_getD, List.getElem?_map, h]; exact ⟨rfl, rfl⟩

/-- image of a state set under "group of" -/
def Img (Q : List (List Nat)) (S G : List Nat) : Prop := ∀ k, k ∈ G ↔ ∃ s ∈ S, findGroup Q s = k

theorem step_img (A : Dfa) (Q : List (List Nat)) (hq : GoodPartition A Q) (cm : Nat → Nat → Bool) (c : Nat)
    (S G : List Nat) (hS : ∀ s ∈ S, s < A.trans.length) (hi : Img Q S G) :
    Img Q (stepStates A cm c S)
      (stepStates { trans := Q.map (groupTrans A Q), ends := Q.map (groupEnd A), prio := A.prio } cm c G) ∧
    (∀ t ∈ stepStates A cm c S, t < A.trans.length) := by
  constructor
  · intro k'
    simp only [mem_stepStates, mem_hits, mem_hitsOf]
    constructor
    · rintro ⟨k, hk, cc, hout, hc⟩
      obtain ⟨s, hs, rfl⟩ := (hi k).mp hk
      obtain ⟨g, hg, hsg⟩ := findGroup_mem Q s (hq.covers s (hS s hs))
      rw [quotient_outs A Q _ g hg] at hout
      obtain ⟨s', hs', t', ht', rfl⟩ := (mem_groupTrans A Q g cc k').mp hout
      have hgQ : g ∈ Q := List.mem_of_getElem? hg
      obtain ⟨t, ht, h, hh, h1, h2⟩ := hq.stable g hgQ s' hs' s hsg cc t' ht'
      exact ⟨t, ⟨s, hs, cc, ht, hc⟩, (findGroup_same hq hh h2 h1)⟩
    · rintro ⟨t, ⟨s, hs, cc, ht, hc⟩, rfl⟩
      obtain ⟨g, hg, hsg⟩ := findGroup_mem Q s (hq.covers s (hS s hs))
      refine ⟨findGroup Q s, (hi _).mpr ⟨s, hs, rfl⟩, cc, ?_, hc⟩
      rw [quotient_outs A Q _ g hg]
      exact (mem_groupTrans A Q g cc _).mpr ⟨s, hsg, t, ht, rfl⟩
  · intro t ht
    simp only [mem_stepStates, mem_hits, mem_hitsOf] at ht
    obtain ⟨s, _, cc, hout, _⟩ := ht
    exact hq.targets s cc t hout

theorem reach_img (A : Dfa) (Q : List (List Nat)) (hq : GoodPartition A Q) (cm : Nat → Nat → Bool) (w : List Nat)
    (S G : List Nat) (hS : ∀ s ∈ S, s < A.trans.length) (hi : Img Q S G) :
    Img Q (reach A cm S w)
      (reach { trans := Q.map (groupTrans A Q), ends := Q.map (groupEnd A), prio := A.prio } cm G w) ∧
    (∀ t ∈ reach A cm S w, t < A.trans.length) := by
  induction w generalizing S G with
  | nil => exact ⟨hi, hS⟩
  | cons c w ih =>
    obtain ⟨h1, h2⟩ := step_img A Q hq cm c S G hS hi
    exact ih _ _ h2 h1

/-- **The quotient of an automaton by a good partition accepts the same words for the same
    terminals.** -/
theorem createFromPartition_preserves (A : Dfa) (P : List (List Nat)) (hp : GoodPartition A P)
    (hn : 0 < A.trans.length) (cm : Nat → Nat → Bool) (w : List Nat) (t : Nat) :
    acceptsTid (createFromPartition A P) cm w t ↔ acceptsTid A cm w t := by
  have hq := goodPartition_startFirst hp
  have h0 := findGroup_start hp hn
  have hi0 : Img (startFirst P) [0] [0] := by
    intro k
    simp only [List.mem_singleton]
    constructor
    · rintro rfl; exact ⟨0, rfl, h0⟩
    · rintro ⟨s, rfl, rfl⟩; exact h0
  obtain ⟨himg, hlt⟩ := reach_img A (startFirst P) hq cm w [0] [0] (by simp [hn]) hi0
  unfold acceptsTid createFromPartition
  constructor
  · rintro ⟨k, hk, hke, hkt⟩
    obtain ⟨s, hs, rfl⟩ := (himg k).mp hk
    obtain ⟨g, hg, hsg⟩ := findGroup_mem (startFirst P) s (hq.covers s (hlt s hs))
    obtain ⟨e1, e2⟩ := quotient_end A (startFirst P) _ g hg
    rw [e1] at hke
    rw [e2] at hkt
    have hgQ : g ∈ startFirst P := List.mem_of_getElem? hg
    obtain ⟨g1, g2⟩ := groupEnd_spec A g (false, 0)
    have hex : ∃ s' ∈ g, A.isEnd s' = true := by
      rcases g1.mp hke with h | h
      · cases h
      · exact h
    obtain ⟨s', hs', he', ht'⟩ := g2 hex
    obtain ⟨a1, a2⟩ := hq.homog g hgQ s' hs' s hsg
    refine ⟨s, hs, by rw [← a1]; exact he', ?_⟩
    rw [← a2 he', ← hkt]
    exact ht'.symm
  · rintro ⟨s, hs, hse, hst⟩
    obtain ⟨g, hg, hsg⟩ := findGroup_mem (startFirst P) s (hq.covers s (hlt s hs))
    obtain ⟨e1, e2⟩ := quotient_end A (startFirst P) _ g hg
    have hgQ : g ∈ startFirst P := List.mem_of_getElem? hg
    obtain ⟨g1, g2⟩ := groupEnd_spec A g (false, 0)
    refine ⟨findGroup (startFirst P) s, (himg _).mpr ⟨s, hs, rfl⟩, ?_, ?_⟩
    · rw [e1]; exact g1.mpr (Or.inr ⟨s, hsg, hse⟩)
    · rw [e2]
      obtain ⟨s', hs', he', ht'⟩ := g2 ⟨s, hsg, hse⟩
      obtain ⟨_, a2⟩ := hq.homog g hgQ s' hs' s hsg
      rw [← hst, ← a2 he']
      exact ht'

end Scnr

namespace Scnr

theorem outs_mem_trans (A : Dfa) (s : Nat) (p : Nat × Nat) (h : p ∈ A.outs s) : ∃ ts ∈ A.trans, p ∈ ts := by
  unfold Dfa.outs at h
  by_cases hs : s < A.trans.length
  · refine ⟨A.trans[s], List.getElem_mem hs, ?_⟩
    rw [List.getD_eq_getElem?_getD, List.getElem?_eq_getElem hs] at h
    exact h
  · rw [List.getD_eq_getElem?_getD, List.getElem?_eq_none (by omega)] at h
    cases h

/-- the executable check establishes the hypotheses of the quotient theorem -/
theorem goodPartitionCheck_sound (A : Dfa) (P : List (List Nat)) (h : goodPartitionCheck A P = true) :
    GoodPartition A P := by
  unfold goodPartitionCheck at h
  simp only [Bool.and_eq_true, List.all_eq_true, List.any_eq_true, List.mem_range, decide_eq_true_eq,
    List.contains_iff_mem, Bool.or_eq_true, beq_iff_eq, Bool.not_eq_true', decide_eq_false_iff_not] at h
  obtain ⟨⟨⟨⟨h1, h2⟩, h3⟩, h4⟩, h5⟩ := h
  refine ⟨h1, ?_, ?_, ?_, ?_⟩
  · intro s cc t hout
    obtain ⟨ts, hts, hp⟩ := outs_mem_trans A s (cc, t) hout
    exact h2 ts hts (cc, t) hp
  · intro g hg g' hg' s hs hs'
    rcases h3 g hg g' hg' with h | h
    · exact h
    · have := h s hs; simp at this; exact absurd hs' this
  · intro g hg s hs s' hs'
    obtain ⟨a, b⟩ := h4 g hg s hs s' hs'
    refine ⟨a, fun he => ?_⟩
    rcases b with b | b
    · rw [he] at b; cases b
    · exact b
  · intro g hg s hs s' hs' cc t hout
    obtain ⟨p', hp', hcc, k, hk, hk1, hk2⟩ := h5 g hg s hs s' hs' (cc, t) hout
    refine ⟨p'.2, ?_, k, hk, hk1, hk2⟩
    have : p' = (cc, p'.2) := by
      obtain ⟨a, b⟩ := p'
      simp only at hcc
      rw [hcc]
    rw [← this]; exact hp'

/-- **Track A**: for every automaton, if the partition the model of the refinement loop ends with
    passes the executable check, the model of `Minimizer::minimize` preserves acceptance of every
    word for every terminal. -/
theorem minimize_preserves (A : Dfa) (hc : goodPartitionCheck A (finalPartition A) = true)
    (hn : 0 < A.trans.length) (cm : Nat → Nat → Bool) (w : List Nat) (t : Nat) :
    acceptsTid (minimize A) cm w t ↔ acceptsTid A cm w t :=
  createFromPartition_preserves A (finalPartition A) (goodPartitionCheck_sound A _ hc) hn cm w t

end Scnr
