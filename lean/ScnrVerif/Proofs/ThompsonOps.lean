import ScnrVerif.Proofs.ThompsonBase
/-!
# The Thompson operations on NFAs with base 0: well-formedness and language
-/
namespace Scnr

namespace Nfa

def addE (dst : Nat) (s : NState) : NState := { s with eps := s.eps ++ [dst] }
def stAt (l : List NState) (s : Nat) : NState := l[s]?.getD ⟨[], []⟩

theorem state0 {n : Nfa} (h0 : n.base = 0) (s : Nat) : n.state s = stAt n.states s := by
  simp only [Nfa.state, stAt, h0, Nat.sub_zero, List.getD_eq_getElem?_getD]

theorem contains0 {n : Nfa} (h0 : n.base = 0) (s : Nat) : n.contains s = true ↔ s < n.states.length := by
  rw [contains_iff, h0]; omega

theorem stAt_append_left {l1 l2 : List NState} {s : Nat} (h : s < l1.length) : stAt (l1 ++ l2) s = stAt l1 s := by
  simp only [stAt, List.getElem?_append_left h]

theorem stAt_append_right {l1 l2 : List NState} {s : Nat} (h : l1.length ≤ s) :
    stAt (l1 ++ l2) s = stAt l2 (s - l1.length) := by
  simp only [stAt, List.getElem?_append_right h]

theorem stAt_ge {l : List NState} {s : Nat} (h : l.length ≤ s) : stAt l s = ⟨[], []⟩ := by
  simp only [stAt, List.getElem?_eq_none h, Option.getD_none]

theorem stAt_snoc (l : List NState) (s : Nat) : stAt (l ++ [(⟨[], []⟩ : NState)]) s = stAt l s := by
  by_cases h : s < l.length
  · simp only [stAt, List.getElem?_append_left h]
  · rw [stAt_ge (l := l) (by omega)]
    simp only [stAt, List.getElem?_append_right (Nat.le_of_not_lt h)]
    cases s - l.length <;> rfl

theorem stAt_modify_ne {l : List NState} {f : NState → NState} {i s : Nat} (h : s ≠ i) :
    stAt (l.modify i f) s = stAt l s := by
  simp only [stAt, List.getElem?_modify, if_neg (Ne.symm h)]
  cases l[s]? <;> rfl

theorem stAt_modify_eq {l : List NState} {f : NState → NState} {i : Nat} (h : i < l.length) :
    stAt (l.modify i f) i = f (stAt l i) := by
  simp only [stAt, List.getElem?_modify, if_pos, List.getElem?_eq_getElem h]
  rfl

theorem shift_len (b : Nfa) (k : Nat) : (b.shift k).states.length = b.states.length := by
  simp only [Nfa.shift, List.length_map]

theorem stAt_shift (b : Nfa) (hb0 : b.base = 0) (k i : Nat) :
    stAt (b.shift k).states i = (b.shift k).state (i + k) := by
  simp only [Nfa.state, stAt, Nfa.shift, hb0, List.getD_eq_getElem?_getD]
  congr 2; omega

theorem shift_contains0 {b : Nfa} (hb0 : b.base = 0) (k s : Nat) :
    (b.shift k).contains s = true ↔ k ≤ s ∧ s < k + b.states.length := by
  rw [contains_iff, shift_len]
  show b.base + k ≤ s ∧ s < b.base + k + _ ↔ _
  rw [hb0]; omega

theorem fin_lt {a : Nfa} (ha : a.WF) (ha0 : a.base = 0) : a.fin < a.states.length :=
  (contains0 ha0 _).mp ha.fin_in

theorem start_lt {a : Nfa} (ha : a.WF) (ha0 : a.base = 0) : a.start < a.states.length :=
  (contains0 ha0 _).mp ha.start_in

theorem state_fin {a : Nfa} (ha : a.WF) : a.state a.fin = ⟨[], []⟩ := by
  have := ha.fin_out
  cases h : a.state a.fin with
  | mk e t => rw [h] at this; simp only at this; rw [this.1, this.2]

theorem wf_of0 {r : Nfa} (h0 : r.base = 0) (hs : r.start < r.states.length) (hf : r.fin < r.states.length)
    (hedge : ∀ s, s < r.states.length →
      (∀ t ∈ (r.state s).eps, r.contains t = true) ∧ (∀ p ∈ (r.state s).trans, r.contains p.2 = true))
    (hfo : r.state r.fin = ⟨[], []⟩) : r.WF := by
  refine ⟨(contains0 h0 _).mpr hs, (contains0 h0 _).mpr hf, ?_, ?_, by rw [hfo]; exact ⟨rfl, rfl⟩⟩
  · intro s hs t ht; exact (hedge s ((contains0 h0 _).mp hs)).1 t ht
  · intro s hs p hp; exact (hedge s ((contains0 h0 _).mp hs)).2 p hp

theorem Ext.edges {r a : Nfa} (hx : Ext r a) (hwf : a.WF) {s : Nat} (hs : a.contains s = true) (hsf : s ≠ a.fin) :
    (∀ t ∈ (r.state s).eps, r.contains t = true) ∧ (∀ p ∈ (r.state s).trans, r.contains p.2 = true) := by
  rw [hx.same _ hs hsf]
  exact ⟨fun t ht => hx.cont _ (hwf.eps_in _ hs _ ht), fun p hp => hx.cont _ (hwf.trans_in _ hs _ hp)⟩

theorem Path.from_eps_only {n : Nfa} {cm : Nat → Nat → Bool} {s t : Nat} {w : List Nat}
    (ht : (n.state s).trans = []) (hne : s ≠ t) (h : n.Path cm s w t) :
    ∃ x, x ∈ (n.state s).eps ∧ n.Path cm x w t := by
  cases h with
  | nil => exact absurd rfl hne
  | eps _ hm hp => exact ⟨_, hm, hp⟩
  | step _ hm _ _ => rw [ht] at hm; cases hm

/-- all ε-edges added at `a.fin` lead to a dead end `e` outside `a` -/
theorem Ext.exit_to {r a : Nfa} {cm : Nat → Nat → Bool} {e : Nat} (hx : Ext r a) (hwf : a.WF)
    (hfin : ∀ x, x ∈ (r.state a.fin).eps → x = e)
    (he : r.state e = ⟨[], []⟩) (hne : a.contains e = false)
    {s : Nat} {w : List Nat} (hs : a.contains s = true) (h : r.Path cm s w e) : a.Path cm s w a.fin := by
  rcases hx.exit hwf hs h with h | ⟨u, v, x, rfl, h1, h2, h3⟩
  · have := Path.contains_end hwf hs h; rw [hne] at this; cases this
  · have := hfin x h2; subst this
    obtain ⟨rfl, _⟩ := Path.of_no_edges (by rw [he]) (by rw [he]) h3
    rw [List.append_nil]; exact h1

/-! ### explicit forms of the operations (base 0) -/

theorem concat_eq (a b : Nfa) (ha0 : a.base = 0) (hne : a.isEmpty = false) :
    a.concat b = ⟨0, (a.states ++ (b.shift a.states.length).states).modify a.fin (addE (b.start + a.states.length)),
      a.start, b.fin + a.states.length⟩ := by
  simp only [Nfa.concat, hne, Nfa.addEps, Nfa.modifyState, ha0, Nat.sub_zero]
  rfl

theorem zeroOrOne_eq (a : Nfa) (ha0 : a.base = 0) :
    a.zeroOrOne = ⟨0, ((a.states ++ [(⟨[], []⟩ : NState)]).modify a.states.length (addE a.start)).modify
        a.states.length (addE a.fin),
      a.states.length, a.fin⟩ := by
  simp only [Nfa.zeroOrOne, Nfa.newState, Nfa.addEps, Nfa.modifyState, ha0, Nat.sub_zero]
  rfl

theorem oneOrMore_eq (a : Nfa) (ha0 : a.base = 0) :
    a.oneOrMore = ⟨0, (((((a.states ++ [(⟨[], []⟩ : NState)]).modify a.states.length (addE a.start)) ++
        [(⟨[], []⟩ : NState)]).modify a.fin (addE (a.states.length + 1))).modify a.fin (addE a.start)),
      a.states.length, a.states.length + 1⟩ := by
  simp only [Nfa.oneOrMore, Nfa.newState, Nfa.addEps, Nfa.modifyState, ha0, Nat.sub_zero, List.length_modify,
    List.length_append, List.length_singleton]
  rfl

theorem zeroOrMore_eq (a : Nfa) (ha0 : a.base = 0) :
    a.zeroOrMore = ⟨0, ((((((a.states ++ [(⟨[], []⟩ : NState)]).modify a.states.length (addE a.start)).modify
        a.states.length (addE a.fin)) ++ [(⟨[], []⟩ : NState)]).modify a.fin
          (addE (a.states.length + 1))).modify a.fin (addE a.start)),
      a.states.length, a.states.length + 1⟩ := by
  simp only [Nfa.zeroOrMore, Nfa.newState, Nfa.addEps, Nfa.modifyState, ha0, Nat.sub_zero, List.length_modify,
    List.length_append, List.length_singleton]
  rfl

theorem alternation_eq (a b : Nfa) (ha0 : a.base = 0) :
    a.alternation b = ⟨0,
      ((((((a.states ++ (b.shift a.states.length).states) ++ [(⟨[], []⟩ : NState)]).modify
        (a.states.length + b.states.length) (addE a.start)).modify (a.states.length + b.states.length)
          (addE (b.start + a.states.length))) ++ [(⟨[], []⟩ : NState)]).modify a.fin
            (addE (a.states.length + b.states.length + 1))).modify (b.fin + a.states.length)
              (addE (a.states.length + b.states.length + 1)),
      a.states.length + b.states.length, a.states.length + b.states.length + 1⟩ := by
  have hl : (b.shift a.states.length).states.length = b.states.length := shift_len _ _
  simp only [Nfa.alternation, Nfa.newState, Nfa.addEps, Nfa.modifyState, ha0, Nat.sub_zero, List.length_modify,
    List.length_append, List.length_singleton, hl]
  rfl

/-! ### the empty automaton -/

theorem empty_wf : Nfa.empty.WF := by
  refine wf_of0 rfl (by decide) (by decide) ?_ rfl
  intro s hs
  have : s = 0 := by simp only [Nfa.empty, List.length_singleton] at hs; omega
  subst this
  exact ⟨fun t ht => (by cases ht), fun p hp => (by cases hp)⟩

theorem empty_accepts (cm : Nat → Nat → Bool) (w : List Nat) : Nfa.empty.Accepts cm w ↔ w = [] := by
  constructor
  · intro h; exact (Path.of_no_edges rfl rfl h).1
  · rintro rfl; exact .nil _

theorem eq_empty_of_isEmpty {a : Nfa} (h : a.isEmpty = true) (ha0 : a.base = 0) : a = Nfa.empty := by
  obtain ⟨base, states, start, fin⟩ := a
  simp only at ha0
  subst ha0
  simp only [Nfa.isEmpty, Bool.and_eq_true, beq_iff_eq] at h
  obtain ⟨⟨⟨rfl, rfl⟩, _⟩, h4⟩ := h
  match states, h4 with
  | [⟨e, t⟩], h4 =>
    simp only [Bool.and_eq_true, List.isEmpty_iff] at h4
    obtain ⟨rfl, rfl⟩ := h4
    rfl

theorem concat_of_isEmpty {a b : Nfa} (h : a.isEmpty = true) (ha0 : a.base = 0) (hb0 : b.base = 0) :
    a.concat b = b := by
  simp only [Nfa.concat, h, if_true, ha0]
  obtain ⟨base, states, start, fin⟩ := b
  simp only at hb0
  subst hb0
  rfl

/-! ### concatenation -/

section Concat
variable {a b : Nfa}

theorem concat_len (ha0 : a.base = 0) (hne : a.isEmpty = false) :
    (a.concat b).states.length = a.states.length + b.states.length := by
  rw [concat_eq a b ha0 hne]
  simp only [List.length_modify, List.length_append, shift_len]

theorem concat_state_left (ha0 : a.base = 0) (hne : a.isEmpty = false) {s : Nat}
    (hs : s < a.states.length) (hsf : s ≠ a.fin) : (a.concat b).state s = a.state s := by
  rw [concat_eq a b ha0 hne, state0 rfl, state0 ha0]
  simp (disch := omega) only [stAt_modify_ne, stAt_append_left]

theorem concat_state_fin (ha : a.WF) (ha0 : a.base = 0) (hne : a.isEmpty = false) :
    (a.concat b).state a.fin = ⟨[b.start + a.states.length], []⟩ := by
  have hf := fin_lt ha ha0
  rw [concat_eq a b ha0 hne, state0 rfl]
  rw [stAt_modify_eq (by simp only [List.length_append]; omega), stAt_append_left hf, ← state0 ha0, state_fin ha]
  rfl

theorem concat_state_right (ha : a.WF) (ha0 : a.base = 0) (hb0 : b.base = 0) (hne : a.isEmpty = false) {s : Nat}
    (hs : a.states.length ≤ s) : (a.concat b).state s = (b.shift a.states.length).state s := by
  have hf := fin_lt ha ha0
  rw [concat_eq a b ha0 hne, state0 rfl]
  simp (disch := omega) only [stAt_modify_ne, stAt_append_right, stAt_shift _ hb0]
  congr 1; omega

theorem concat_ext_left (ha : a.WF) (ha0 : a.base = 0) (hne : a.isEmpty = false) : Ext (a.concat b) a where
  cont := fun s hs => by
    rw [contains0 (by rw [concat_eq a b ha0 hne]), concat_len ha0 hne]
    have := (contains0 ha0 s).mp hs; omega
  same := fun s hs hsf => concat_state_left ha0 hne ((contains0 ha0 s).mp hs) hsf
  fin_trans := by rw [concat_state_fin ha ha0 hne]

theorem concat_ext_right (ha : a.WF) (ha0 : a.base = 0) (hb : b.WF) (hb0 : b.base = 0) (hne : a.isEmpty = false) :
    Ext (a.concat b) (b.shift a.states.length) where
  cont := fun s hs => by
    rw [contains0 (by rw [concat_eq a b ha0 hne]), concat_len ha0 hne]
    have := (shift_contains0 hb0 _ s).mp hs; omega
  same := fun s hs _ => concat_state_right ha ha0 hb0 hne ((shift_contains0 hb0 _ s).mp hs).1
  fin_trans := by
    rw [concat_state_right ha ha0 hb0 hne (by show a.states.length ≤ b.fin + a.states.length; omega)]
    exact (shift_wf b _ hb).fin_out.2

theorem concat_wf_ne (ha : a.WF) (ha0 : a.base = 0) (hb : b.WF) (hb0 : b.base = 0) (hne : a.isEmpty = false) :
    (a.concat b).WF := by
  have hf := fin_lt ha ha0
  have hst := start_lt ha ha0
  have hbf := fin_lt hb hb0
  have hbs := start_lt hb hb0
  have hb' := shift_wf b a.states.length hb
  have hr0 : (a.concat b).base = 0 := by rw [concat_eq a b ha0 hne]
  have hrs : (a.concat b).start = a.start := by rw [concat_eq a b ha0 hne]
  have hrf : (a.concat b).fin = b.fin + a.states.length := by rw [concat_eq a b ha0 hne]
  have hxl := concat_ext_left (b := b) ha ha0 hne
  have hxr := concat_ext_right ha ha0 hb hb0 hne
  refine wf_of0 hr0 ?_ ?_ ?_ ?_
  · rw [concat_len ha0 hne, hrs]; omega
  · rw [concat_len ha0 hne, hrf]; omega
  · intro s hs
    rw [concat_len ha0 hne] at hs
    by_cases hsa : s < a.states.length
    · by_cases hsf : s = a.fin
      · subst hsf
        rw [concat_state_fin ha ha0 hne]
        refine ⟨fun t ht => ?_, fun p hp => by cases hp⟩
        simp only [List.mem_singleton] at ht
        subst ht
        rw [contains0 hr0, concat_len ha0 hne]; omega
      · exact hxl.edges ha ((contains0 ha0 s).mpr hsa) hsf
    · have hsb : (b.shift a.states.length).contains s = true := (shift_contains0 hb0 _ s).mpr ⟨by omega, hs⟩
      rw [concat_state_right ha ha0 hb0 hne (by omega)]
      exact ⟨fun t ht => hxr.cont _ (hb'.eps_in _ hsb _ ht), fun p hp => hxr.cont _ (hb'.trans_in _ hsb _ hp)⟩
  · rw [hrf, concat_state_right ha ha0 hb0 hne (by omega)]
    exact state_fin hb'

theorem concat_accepts_ne (ha : a.WF) (ha0 : a.base = 0) (hb : b.WF) (hb0 : b.base = 0) (hne : a.isEmpty = false)
    (cm : Nat → Nat → Bool) (w : List Nat) :
    (a.concat b).Accepts cm w ↔ ∃ u v, w = u ++ v ∧ a.Accepts cm u ∧ b.Accepts cm v := by
  have hf := fin_lt ha ha0
  have hb' := shift_wf b a.states.length hb
  have hrs : (a.concat b).start = a.start := by rw [concat_eq a b ha0 hne]
  have hrf : (a.concat b).fin = (b.shift a.states.length).fin := by rw [concat_eq a b ha0 hne]; rfl
  have hxl := concat_ext_left (b := b) ha ha0 hne
  have hxr := concat_ext_right ha ha0 hb hb0 hne
  have hfr : (b.shift a.states.length).contains (b.shift a.states.length).fin = true := hb'.fin_in
  have hfe : ((a.concat b).state (b.shift a.states.length).fin).eps = [] := by
    rw [concat_state_right ha ha0 hb0 hne ((shift_contains0 hb0 _ _).mp hfr).1]
    exact hb'.fin_out.1
  unfold Nfa.Accepts
  rw [hrs, hrf]
  constructor
  · intro h
    rcases hxl.exit ha ha.start_in h with h | ⟨u, v, x, rfl, h1, h2, h3⟩
    · have h1 := Path.contains_end ha ha.start_in h
      have h2 := (shift_contains0 hb0 _ _).mp hfr
      rw [contains0 ha0] at h1
      omega
    · rw [concat_state_fin ha ha0 hne, List.mem_singleton] at h2
      subst h2
      have h4 := hxr.closed hb' hfe hb'.start_in h3
      exact ⟨u, v, rfl, h1, (shift_accepts b _ hb cm v).mp h4⟩
  · rintro ⟨u, v, rfl, h1, h2⟩
    have h2' := (shift_accepts b a.states.length hb cm v).mpr h2
    refine Path.trans (hxl.embed ha h1) (.eps (hxl.cont _ ha.fin_in) ?_ (hxr.embed hb' h2'))
    rw [concat_state_fin ha ha0 hne]
    exact List.mem_singleton.mpr rfl

end Concat

theorem concat_base {a b : Nfa} (ha0 : a.base = 0) : (a.concat b).base = 0 := by
  unfold Nfa.concat
  split
  · exact ha0
  · exact ha0

theorem concat_wf {a b : Nfa} (ha : a.WF) (ha0 : a.base = 0) (hb : b.WF) (hb0 : b.base = 0) : (a.concat b).WF := by
  cases hne : a.isEmpty with
  | true => rw [concat_of_isEmpty hne ha0 hb0]; exact hb
  | false => exact concat_wf_ne ha ha0 hb hb0 hne

theorem concat_accepts {a b : Nfa} (ha : a.WF) (ha0 : a.base = 0) (hb : b.WF) (hb0 : b.base = 0)
    (cm : Nat → Nat → Bool) (w : List Nat) :
    (a.concat b).Accepts cm w ↔ ∃ u v, w = u ++ v ∧ a.Accepts cm u ∧ b.Accepts cm v := by
  cases hne : a.isEmpty with
  | true =>
    rw [concat_of_isEmpty hne ha0 hb0, eq_empty_of_isEmpty hne ha0]
    constructor
    · intro h; exact ⟨[], w, rfl, .nil _, h⟩
    · rintro ⟨u, v, rfl, h1, h2⟩
      rw [(empty_accepts cm u).mp h1]; exact h2
  | false => exact concat_accepts_ne ha ha0 hb hb0 hne cm w

end Nfa

end Scnr
