import ScnrVerif.Proofs.NfaSem
/-!
# Generic facts about runs of the NFA model: shifting, sub-automata, first exit
-/
namespace Scnr

namespace Nfa

/-! ### elementary facts about `Path` -/

theorem Path.trans {n : Nfa} {cm : Nat → Nat → Bool} {s t x : Nat} {u v : List Nat}
    (h1 : n.Path cm s u t) (h2 : n.Path cm t v x) : n.Path cm s (u ++ v) x := by
  induction h1 with
  | nil s => exact h2
  | eps hc he _ ih => exact .eps hc he (ih h2)
  | step hc ht hcm _ ih => exact .step hc ht hcm (ih h2)

theorem Path.epsEdge {n : Nfa} {cm : Nat → Nat → Bool} {s t : Nat}
    (hc : n.contains s = true) (he : t ∈ (n.state s).eps) : n.Path cm s [] t :=
  .eps hc he (.nil t)

/-- a state without outgoing edges is only left by the empty run -/
theorem Path.of_no_edges {n : Nfa} {cm : Nat → Nat → Bool} {s t : Nat} {w : List Nat}
    (he : (n.state s).eps = []) (ht : (n.state s).trans = []) (h : n.Path cm s w t) : w = [] ∧ t = s := by
  cases h with
  | nil => exact ⟨rfl, rfl⟩
  | eps _ hm _ => rw [he] at hm; cases hm
  | step _ hm _ _ => rw [ht] at hm; cases hm

theorem Path.contains_end {n : Nfa} {cm : Nat → Nat → Bool} (hwf : n.WF) {s t : Nat} {w : List Nat}
    (hs : n.contains s = true) (h : n.Path cm s w t) : n.contains t = true := by
  induction h with
  | nil s => exact hs
  | eps hc he _ ih => exact ih (hwf.eps_in _ hc _ he)
  | step hc ht _ _ ih => exact ih (hwf.trans_in _ hc _ ht)

theorem Path.from_fin {n : Nfa} {cm : Nat → Nat → Bool} (hwf : n.WF) {t : Nat} {w : List Nat}
    (h : n.Path cm n.fin w t) : w = [] ∧ t = n.fin :=
  Path.of_no_edges hwf.fin_out.1 hwf.fin_out.2 h

/-! ### shifting -/

def shiftState (k : Nat) (s : NState) : NState := ⟨s.eps.map (· + k), s.trans.map fun p => (p.1, p.2 + k)⟩

theorem contains_iff (n : Nfa) (s : Nat) : n.contains s = true ↔ n.base ≤ s ∧ s < n.base + n.states.length := by
  simp [Nfa.contains]

theorem shift_contains (n : Nfa) (k s : Nat) : (n.shift k).contains (s + k) = n.contains s := by
  rw [Bool.eq_iff_iff, contains_iff, contains_iff]
  simp only [Nfa.shift, List.length_map]
  omega

theorem shift_contains' (n : Nfa) (k s : Nat) (h : (n.shift k).contains s = true) :
    ∃ s', s = s' + k ∧ n.contains s' = true := by
  have h' := h
  rw [contains_iff] at h'
  simp only [Nfa.shift, List.length_map] at h'
  have : s = (s - k) + k := by omega
  refine ⟨s - k, this, ?_⟩
  rw [this, shift_contains] at h; exact h

theorem shift_state (n : Nfa) (k s : Nat) : (n.shift k).state (s + k) = shiftState k (n.state s) := by
  have h : s + k - (n.base + k) = s - n.base := by omega
  simp only [Nfa.state, Nfa.shift, h, List.getD_eq_getElem?_getD, List.getElem?_map]
  cases n.states[s - n.base]? with
  | none => rfl
  | some x => rfl

theorem shift_path_aux (n : Nfa) (k : Nat) (cm : Nat → Nat → Bool) (x y : Nat) (w : List Nat) :
    (n.shift k).Path cm (x + k) w (y + k) ↔ n.Path cm x w y := by
  constructor
  · intro h
    generalize hx' : x + k = x' at h
    generalize hy' : y + k = y' at h
    induction h generalizing x with
    | nil s => subst hx'; have : x = y := by omega
               subst this; exact .nil _
    | @eps s t u w hc he _ ih =>
      subst hx' hy'
      rw [shift_contains] at hc
      rw [shift_state] at he
      simp only [shiftState, List.mem_map] at he
      obtain ⟨t', ht', rfl⟩ := he
      exact .eps hc ht' (ih t' rfl rfl)
    | @step s t u c cc w hc ht hcm _ ih =>
      subst hx' hy'
      rw [shift_contains] at hc
      rw [shift_state] at ht
      simp only [shiftState, List.mem_map, Prod.mk.injEq] at ht
      obtain ⟨⟨c', t'⟩, ht', rfl, rfl⟩ := ht
      exact .step hc ht' hcm (ih t' rfl rfl)
  · intro h
    induction h with
    | nil s => exact .nil _
    | @eps s t u w hc he _ ih =>
      refine .eps (t := t + k) (by rw [shift_contains]; exact hc) ?_ ih
      rw [shift_state]; simp only [shiftState, List.mem_map]; exact ⟨t, he, rfl⟩
    | @step s t u c cc w hc ht hcm _ ih =>
      refine .step (t := t + k) (cc := cc) (by rw [shift_contains]; exact hc) ?_ hcm ih
      rw [shift_state]; simp only [shiftState, List.mem_map]; exact ⟨(cc, t), ht, rfl⟩

end Nfa

theorem shift_path (n : Nfa) (k : Nat) (cm : Nat → Nat → Bool) (x y : Nat) (w : List Nat)
    (hx : n.contains x = true) :
    (n.shift k).Path cm (x + k) w (y + k) ↔ n.Path cm x w y :=
  have _ := hx
  Nfa.shift_path_aux n k cm x y w

theorem shift_accepts (n : Nfa) (k : Nat) (h : n.WF) (cm : Nat → Nat → Bool) (w : List Nat) :
    (n.shift k).Accepts cm w ↔ n.Accepts cm w :=
  have _ := h
  Nfa.shift_path_aux n k cm n.start n.fin w

theorem shift_wf (n : Nfa) (k : Nat) (h : n.WF) : (n.shift k).WF := by
  refine ⟨?_, ?_, ?_, ?_, ?_⟩
  · show (n.shift k).contains (n.start + k) = true
    rw [Nfa.shift_contains]; exact h.start_in
  · show (n.shift k).contains (n.fin + k) = true
    rw [Nfa.shift_contains]; exact h.fin_in
  · intro s hs t ht
    obtain ⟨s', rfl, hs'⟩ := Nfa.shift_contains' n k s hs
    rw [Nfa.shift_state] at ht
    simp only [Nfa.shiftState, List.mem_map] at ht
    obtain ⟨t', ht', rfl⟩ := ht
    rw [Nfa.shift_contains]; exact h.eps_in _ hs' _ ht'
  · intro s hs p hp
    obtain ⟨s', rfl, hs'⟩ := Nfa.shift_contains' n k s hs
    rw [Nfa.shift_state] at hp
    simp only [Nfa.shiftState, List.mem_map] at hp
    obtain ⟨p', hp', rfl⟩ := hp
    show (n.shift k).contains (p'.2 + k) = true
    rw [Nfa.shift_contains]; exact h.trans_in _ hs' _ hp'
  · show ((n.shift k).state (n.fin + k)).eps = [] ∧ ((n.shift k).state (n.fin + k)).trans = []
    rw [Nfa.shift_state]
    simp only [Nfa.shiftState, h.fin_out.1, h.fin_out.2, List.map_nil, and_self]

namespace Nfa

/-! ### a sub-automaton `a` of `r`: all states of `a` keep their edges, only `a.fin` may gain ε-edges -/

structure Ext (r a : Nfa) : Prop where
  cont : ∀ s, a.contains s = true → r.contains s = true
  same : ∀ s, a.contains s = true → s ≠ a.fin → r.state s = a.state s
  fin_trans : (r.state a.fin).trans = []

theorem Ext.embed {r a : Nfa} {cm : Nat → Nat → Bool} (hx : Ext r a) (hwf : a.WF) {s t : Nat} {w : List Nat}
    (h : a.Path cm s w t) : r.Path cm s w t := by
  induction h with
  | nil s => exact .nil _
  | @eps s t u w hc he _ ih =>
    by_cases hf : s = a.fin
    · subst hf; rw [hwf.fin_out.1] at he; cases he
    · exact .eps (hx.cont _ hc) (by rw [hx.same _ hc hf]; exact he) ih
  | @step s t u c cc w hc ht hcm _ ih =>
    by_cases hf : s = a.fin
    · subst hf; rw [hwf.fin_out.2] at ht; cases ht
    · exact .step (hx.cont _ hc) (by rw [hx.same _ hc hf]; exact ht) hcm ih

/-- first exit: a run of `r` that starts inside `a` stays in `a`, or reaches `a.fin` inside `a` and
    leaves by one of the ε-edges of `a.fin` in `r` -/
theorem Ext.exit {r a : Nfa} {cm : Nat → Nat → Bool} (hx : Ext r a) (hwf : a.WF) {s t : Nat} {w : List Nat}
    (hs : a.contains s = true) (h : r.Path cm s w t) :
    a.Path cm s w t ∨ ∃ u v x, w = u ++ v ∧ a.Path cm s u a.fin ∧ x ∈ (r.state a.fin).eps ∧ r.Path cm x v t := by
  induction h with
  | nil s => exact .inl (.nil _)
  | @eps s t u w hc he hp ih =>
    by_cases hf : s = a.fin
    · subst hf
      exact .inr ⟨[], w, t, rfl, .nil _, he, hp⟩
    · rw [hx.same _ hs hf] at he
      rcases ih (hwf.eps_in _ hs _ he) with h | ⟨u', v', x, rfl, h1, h2, h3⟩
      · exact .inl (.eps hs he h)
      · exact .inr ⟨u', v', x, rfl, .eps hs he h1, h2, h3⟩
  | @step s t u c cc w hc ht hcm hp ih =>
    by_cases hf : s = a.fin
    · subst hf; rw [hx.fin_trans] at ht; cases ht
    · rw [hx.same _ hs hf] at ht
      rcases ih (hwf.trans_in _ hs _ ht) with h | ⟨u', v', x, rfl, h1, h2, h3⟩
      · exact .inl (.step hs ht hcm h)
      · exact .inr ⟨c :: u', v', x, rfl, .step hs ht hcm h1, h2, h3⟩

/-- no edge added at `a.fin`: runs of `r` from inside `a` are runs of `a` -/
theorem Ext.closed {r a : Nfa} {cm : Nat → Nat → Bool} (hx : Ext r a) (hwf : a.WF)
    (hfe : (r.state a.fin).eps = []) {s t : Nat} {w : List Nat}
    (hs : a.contains s = true) (h : r.Path cm s w t) : a.Path cm s w t := by
  rcases hx.exit hwf hs h with h | ⟨_, _, x, _, _, h2, _⟩
  · exact h
  · rw [hfe] at h2; cases h2

/-- the loop of `+` and `*`: `a.fin` has exactly the ε-edges to a dead-end state `e` outside `a` and
    back to `a.start` -/
theorem Ext.loop {r a : Nfa} {cm : Nat → Nat → Bool} {R : Re} {e : Nat} (hx : Ext r a) (hwf : a.WF)
    (hlang : ∀ w, a.Accepts cm w → Matches cm R w)
    (hfin : ∀ x, x ∈ (r.state a.fin).eps → x = e ∨ x = a.start)
    (he1 : (r.state e).eps = []) (he2 : (r.state e).trans = []) (hne : a.contains e = false)
    {s t : Nat} {w : List Nat} (hs : a.contains s = true) (h : r.Path cm s w t) (ht : t = e) :
    ∃ u v, w = u ++ v ∧ a.Path cm s u a.fin ∧ Matches cm (.star R) v := by
  induction h with
  | nil s => subst ht; rw [hs] at hne; cases hne
  | @eps s t u w hc he hp ih =>
    by_cases hf : s = a.fin
    · subst hf
      rcases hfin _ he with rfl | rfl
      · subst ht
        obtain ⟨rfl, _⟩ := Path.of_no_edges he1 he2 hp
        exact ⟨[], [], rfl, .nil _, .starNil⟩
      · obtain ⟨u', v', rfl, h1, h2⟩ := ih hwf.start_in ht
        exact ⟨[], u' ++ v', rfl, .nil _, .starCons (hlang _ h1) h2⟩
    · rw [hx.same _ hs hf] at he
      obtain ⟨u', v', rfl, h1, h2⟩ := ih (hwf.eps_in _ hs _ he) ht
      exact ⟨u', v', rfl, .eps hs he h1, h2⟩
  | @step s t u c cc w hc htr hcm hp ih =>
    by_cases hf : s = a.fin
    · subst hf; rw [hx.fin_trans] at htr; cases htr
    · rw [hx.same _ hs hf] at htr
      obtain ⟨u', v', rfl, h1, h2⟩ := ih (hwf.trans_in _ hs _ htr) ht
      exact ⟨c :: u', v', rfl, .step hs htr hcm h1, h2⟩

/-- conversely the loop accepts every iteration -/
theorem Ext.loop_conv {r a : Nfa} {cm : Nat → Nat → Bool} {R : Re} {e : Nat} (hx : Ext r a) (hwf : a.WF)
    (hlang : ∀ w, Matches cm R w → a.Accepts cm w)
    (hfe : e ∈ (r.state a.fin).eps) (hfs : a.start ∈ (r.state a.fin).eps)
    {w : List Nat} (h : Matches cm (.star R) w) : r.Path cm a.fin w e := by
  generalize hr : Re.star R = R' at h
  induction h with
  | eps => cases hr
  | cls _ => cases hr
  | cat _ _ _ _ => cases hr
  | altL _ _ => cases hr
  | altR _ _ => cases hr
  | starNil => exact Path.epsEdge (hx.cont _ hwf.fin_in) hfe
  | @starCons a' u v hu _ _ ih2 =>
    cases hr
    exact .eps (hx.cont _ hwf.fin_in) hfs (Path.trans (hx.embed hwf (hlang _ hu)) (ih2 rfl))

end Nfa

end Scnr
