import ScnrVerif.Model.Compile
import ScnrVerif.Proofs.Regex
/-!
# Semantics of the Thompson NFAs of the compiler model (track A, interface of the correctness proofs)

`Nfa.Path n cm s w t`: a run of the NFA from state `s` to state `t` reading `w` (ε-moves and class
transitions of states that belong to `n`). `Nfa.Accepts` = a run from `start` to `fin`.
`Nfa.WF`: what the Rust code relies on (ids inside the NFA's range) plus the Thompson invariant that
the end state has no outgoing edges. `CAst.toRe`: the language of a pattern AST.
-/
namespace Scnr

mutual
/-- the regular expression denoted by a pattern AST (`regex-syntax` never produces an alternation
    without branches; the compiler yields the empty NFA for it, like for the empty pattern) -/
def CAst.toRe : CAst → Re
  | .empty => .eps
  | .leaf c => .cls c
  | .concat xs => Re.catList (CAst.toReList xs)
  | .alt [] => .eps
  | .alt (x :: xs) => Re.altList (CAst.toRe x :: CAst.toReList xs)
  | .opt x => Re.opt (CAst.toRe x)
  | .star x => .star (CAst.toRe x)
  | .plus x => .cat (CAst.toRe x) (.star (CAst.toRe x))
  | .exactly n x => Re.pow (CAst.toRe x) n
  | .atLeast n x => .cat (Re.pow (CAst.toRe x) n) (.star (CAst.toRe x))
  | .bounded m n x => .cat (Re.pow (CAst.toRe x) m) (Re.pow (Re.opt (CAst.toRe x)) (n - m))
def CAst.toReList : List CAst → List Re
  | [] => []
  | x :: xs => CAst.toRe x :: CAst.toReList xs
end

/-- a run of the NFA: only states of the NFA have edges -/
inductive Nfa.Path (n : Nfa) (cm : Nat → Nat → Bool) : Nat → List Nat → Nat → Prop where
  | nil (s : Nat) : Nfa.Path n cm s [] s
  | eps {s t u : Nat} {w : List Nat} : n.contains s = true → t ∈ (n.state s).eps →
      Nfa.Path n cm t w u → Nfa.Path n cm s w u
  | step {s t u c cc : Nat} {w : List Nat} : n.contains s = true → (cc, t) ∈ (n.state s).trans →
      cm cc c = true → Nfa.Path n cm t w u → Nfa.Path n cm s (c :: w) u

def Nfa.Accepts (n : Nfa) (cm : Nat → Nat → Bool) (w : List Nat) : Prop := Nfa.Path n cm n.start w n.fin

/-- ε-reachability inside the NFA -/
inductive Nfa.EpsReach (n : Nfa) : Nat → Nat → Prop where
  | refl (s : Nat) : Nfa.EpsReach n s s
  | step {s t u : Nat} : n.contains s = true → t ∈ (n.state s).eps → Nfa.EpsReach n t u → Nfa.EpsReach n s u

structure Nfa.WF (n : Nfa) : Prop where
  start_in : n.contains n.start = true
  fin_in : n.contains n.fin = true
  eps_in : ∀ s, n.contains s = true → ∀ t ∈ (n.state s).eps, n.contains t = true
  trans_in : ∀ s, n.contains s = true → ∀ p ∈ (n.state s).trans, n.contains p.2 = true
  fin_out : (n.state n.fin).eps = [] ∧ (n.state n.fin).trans = []

/-- no edge of the NFA leads to its start state -/
def Nfa.StartFresh (n : Nfa) : Prop :=
  ∀ s, n.contains s = true → n.start ∉ (n.state s).eps ∧ ∀ p ∈ (n.state s).trans, p.2 ≠ n.start

end Scnr
