import ScnrVerif.Model.Lock
import ScnrVerif.Proofs.World
/-!
# The lock-level model refines the atomic model (C14)

See `Model/Lock.lean` for what is (not) modelled.  Main results, for every state reachable from
`LState.init` by enabled events:

* `lock_mutual_exclusion` — the threads inside the critical section are exactly the thread in
  `lock`; at most one;
* `lock_refines_atomic` — the shared world and the recorded outputs are those of the *sequential*
  `World.run` of the calls in linearization order, and per thread this order is program order with
  the linearization point between invocation and return (`lock_history_monotone` adds the
  cross-thread real-time order);
* `lock_deadlock_free`, `lock_measure_decreases`, `lock_progress` — some lock event is always
  enabled while a call is pending, every lock event decreases a measure bounded by
  `3 * #non-idle threads`, hence all pending calls return after at most that many events;
* `lock_thread_view` — with `interleaving_independent`: each thread observes the outputs of its own
  program run alone on the empty world.
-/
namespace Scnr

/-! ## lists -/

def tag {α : Type} (t : Nat) (l : List α) : List (Nat × α) := l.map (fun x => (t, x))

theorem proj_append {α : Type} (t : Nat) (a b : List (Nat × α)) :
    proj t (a ++ b) = proj t a ++ proj t b := by
  simp [proj]

theorem proj_tag_self {α : Type} (t : Nat) (l : List α) : proj t (tag t l) = l := by
  induction l with
  | nil => rfl
  | cons x r ih =>
    simp only [proj, tag, List.map, List.filter, beq_self_eq_true] at ih ⊢
    rw [ih]

theorem proj_tag_ne {α : Type} {t u : Nat} (l : List α) (h : u ≠ t) : proj u (tag t l) = [] := by
  induction l with
  | nil => rfl
  | cons x r ih =>
    have e : (t == u) = false := by simp; exact fun e => h e.symm
    simp only [proj, tag, List.map, List.filter, e] at ih ⊢
    exact ih

theorem mem_proj {α : Type} {t : Nat} {x : α} {l : List (Nat × α)} : x ∈ proj t l ↔ (t, x) ∈ l := by
  simp only [proj, List.mem_map, List.mem_filter]
  constructor
  · rintro ⟨⟨u, y⟩, ⟨hm, hu⟩, rfl⟩
    have : u = t := by simpa using hu
    subst this; exact hm
  · intro h; exact ⟨(t, x), ⟨h, by simp⟩, rfl⟩

theorem phaseIn_cons (a : Nat) (b : LPhase) (r : List (Nat × LPhase)) (t : Nat) :
    phaseIn ((a, b) :: r) t = if t = a then b else phaseIn r t := by
  by_cases h : t = a
  · subst h; simp [phaseIn, List.lookup]
  · have e : (t == a) = false := by simp [h]
    simp [phaseIn, List.lookup, e, h]

theorem phaseIn_set_self (l : List (Nat × LPhase)) (t : Nat) (p : LPhase) :
    phaseIn (assocSet l t p) t = p := by
  simp only [phaseIn, lookup_assocSet_self]

theorem phaseIn_set_ne (l : List (Nat × LPhase)) {t u : Nat} (p : LPhase) (h : u ≠ t) :
    phaseIn (assocSet l t p) u = phaseIn l u := by
  simp only [phaseIn, lookup_assocSet_ne _ _ _ _ h]

/-- the effect of a phase update on `phaseOf` -/
theorem phaseOf_set (s s' : LState) (t : Nat) (p : LPhase) (h : s'.phase = assocSet s.phase t p) :
    s'.phaseOf t = p ∧ ∀ u, u ≠ t → s'.phaseOf u = s.phaseOf u := by
  refine ⟨?_, fun u hu => ?_⟩
  · simp only [LState.phaseOf, h, phaseIn_set_self]
  · simp only [LState.phaseOf, h, phaseIn_set_ne _ _ hu]

section
variable (compile : CfgId → Option CompId) (cfgOf : CompId → List ModeCfg) (findOf : CompId → Finder)

/-! ## sequential runs -/

theorem run_append (w : World) (a b : List Op) :
    World.run compile cfgOf findOf w (a ++ b) =
      ((World.run compile cfgOf findOf (World.run compile cfgOf findOf w a).1 b).1,
       (World.run compile cfgOf findOf w a).2 ++
         (World.run compile cfgOf findOf (World.run compile cfgOf findOf w a).1 b).2) := by
  induction a generalizing w with
  | nil => simp [World.run]
  | cons o os ih => simp only [List.cons_append, World.run, ih]

theorem run_length (w : World) (a : List Op) :
    (World.run compile cfgOf findOf w a).2.length = a.length := by
  induction a generalizing w with
  | nil => rfl
  | cons o os ih => simp only [World.run, List.length_cons, ih]

/-! ## the five transitions -/

/-- Case analysis of an enabled event: which transition fires and what it needs. -/
theorem fire_cases (s : LState) (e : LEvent) (he : s.enabled e = true) :
    (∃ t a cfg, e = .call t (.build a cfg) ∧ s.phaseOf t = .idle ∧
        s.fire compile cfgOf findOf e = s.beginBuild t a cfg) ∨
    (∃ t op, e = .call t op ∧ op.isBuild = false ∧ s.phaseOf t = .idle ∧
        s.fire compile cfgOf findOf e =
          s.recordAtomic t op (World.step compile cfgOf findOf s.world op)) ∨
    (∃ t a cfg, e = .acquire t ∧ s.phaseOf t = .waiting a cfg ∧ s.lock = none ∧
        s.fire compile cfgOf findOf e = s.grant t a cfg) ∨
    (∃ t a cfg, e = .body t ∧ s.phaseOf t = .holding a cfg ∧
        s.fire compile cfgOf findOf e =
          s.recordBody t a cfg (World.step compile cfgOf findOf s.world (.build a cfg))) ∨
    (∃ t a cfg out, e = .release t ∧ s.phaseOf t = .done a cfg out ∧
        s.fire compile cfgOf findOf e = s.finish t a cfg out) := by
  cases e with
  | call t op =>
    cases hp : s.phaseOf t <;> simp only [LState.enabled, hp] at he <;> try cases he
    by_cases hb : op.isBuild = true
    · left
      cases op <;> simp only [Op.isBuild] at hb <;> try cases hb
      exact ⟨t, _, _, rfl, hp, by simp only [LState.fire, hp, LState.startCall]⟩
    · right; left
      have hb' : op.isBuild = false := by simpa using hb
      refine ⟨t, op, rfl, hb', hp, ?_⟩
      cases op <;> simp only [Op.isBuild] at hb' <;> try cases hb'
      all_goals simp only [LState.fire, hp, LState.startCall]
  | acquire t =>
    right; right; left
    cases hp : s.phaseOf t <;> cases hl : s.lock <;> simp only [LState.enabled, hp, hl] at he <;>
      try cases he
    exact ⟨t, _, _, rfl, hp, rfl, by simp only [LState.fire, hp, hl]⟩
  | body t =>
    right; right; right; left
    cases hp : s.phaseOf t <;> simp only [LState.enabled, hp] at he <;> try cases he
    exact ⟨t, _, _, rfl, hp, by simp only [LState.fire, hp]⟩
  | release t =>
    right; right; right; right
    cases hp : s.phaseOf t <;> simp only [LState.enabled, hp] at he <;> try cases he
    exact ⟨t, _, _, _, rfl, hp, by simp only [LState.fire, hp]⟩

/-! ## invariant 1: mutual exclusion -/

/-- the threads inside the critical section are exactly the thread recorded in `lock` -/
def Mutex (s : LState) : Prop := ∀ u, (s.phaseOf u).critical = true ↔ s.lock = some u

theorem mutex_step (s s' : LState) (t : Nat) (p : LPhase)
    (hph : s'.phaseOf t = p ∧ ∀ u, u ≠ t → s'.phaseOf u = s.phaseOf u)
    (m1 : p.critical = true ↔ s'.lock = some t)
    (m2 : ∀ u, u ≠ t → (s.lock = some u ↔ s'.lock = some u)) (h : Mutex s) : Mutex s' := by
  intro u
  by_cases hu : u = t
  · subst hu; rw [hph.1]; exact m1
  · rw [hph.2 u hu]; exact (h u).trans (m2 u hu)

theorem mutex_fire (s : LState) (e : LEvent) (he : s.enabled e = true) (h : Mutex s) :
    Mutex (s.fire compile cfgOf findOf e) := by
  rcases fire_cases compile cfgOf findOf s e he with
    ⟨t, a, cfg, -, hp, hf⟩ | ⟨t, op, -, -, hp, hf⟩ | ⟨t, a, cfg, -, hp, hl, hf⟩ |
    ⟨t, a, cfg, -, hp, hf⟩ | ⟨t, a, cfg, out, -, hp, hf⟩ <;> rw [hf]
  · -- begin build: idle → waiting, lock unchanged
    refine mutex_step s _ t (.waiting a cfg) (phaseOf_set s _ t _ rfl) ?_ (fun u _ => Iff.rfl) h
    have := h t; rw [hp] at this
    exact this
  · -- lock-free call: phases and lock unchanged
    exact h
  · -- acquire
    refine mutex_step s _ t (.holding a cfg) (phaseOf_set s _ t _ rfl) ⟨fun _ => rfl, fun _ => rfl⟩ ?_ h
    intro u hu
    simp only [LState.grant, hl, Option.some.injEq]
    constructor
    · intro x; cases x
    · intro x; exact absurd x.symm hu
  · -- body: holding → done, lock unchanged
    refine mutex_step s _ t (.done a cfg _) (phaseOf_set s _ t _ rfl) ?_ (fun u _ => Iff.rfl) h
    have := h t; rw [hp] at this
    exact this
  · -- release
    refine mutex_step s _ t .idle (phaseOf_set s _ t _ rfl) ?_ ?_ h
    · simp [LState.finish, LPhase.critical]
    · intro u hu
      have ht := (h t).mp (by rw [hp]; rfl)
      simp only [LState.finish, ht, Option.some.injEq]
      constructor
      · intro x; exact absurd x.symm hu
      · intro x; cases x

/-! ## invariant 2: the world is the sequential run of the linearization -/

def Refines (s : LState) : Prop :=
  World.run compile cfgOf findOf World.empty s.linOps = (s.world, s.linOuts)

theorem refines_snoc (s s' : LState) (t : Nat) (op : Op)
    (hw : s'.world = (World.step compile cfgOf findOf s.world op).1)
    (hl : s'.lin = s.lin ++ [(t, op, (World.step compile cfgOf findOf s.world op).2)])
    (h : Refines compile cfgOf findOf s) : Refines compile cfgOf findOf s' := by
  unfold Refines LState.linOps LState.linOuts at h ⊢
  rw [hl, hw, List.map_append, List.map_append, run_append, h]
  simp only [World.run, List.map]

theorem refines_fire (s : LState) (e : LEvent) (he : s.enabled e = true)
    (h : Refines compile cfgOf findOf s) :
    Refines compile cfgOf findOf (s.fire compile cfgOf findOf e) := by
  rcases fire_cases compile cfgOf findOf s e he with
    ⟨t, a, cfg, -, hp, hf⟩ | ⟨t, op, -, -, hp, hf⟩ | ⟨t, a, cfg, -, hp, hl, hf⟩ |
    ⟨t, a, cfg, -, hp, hf⟩ | ⟨t, a, cfg, out, -, hp, hf⟩ <;> rw [hf]
  · exact h
  · exact refines_snoc compile cfgOf findOf s _ t op rfl rfl h
  · exact h
  · exact refines_snoc compile cfgOf findOf s _ t (.build a cfg) rfl rfl h
  · exact h

/-! ## invariant 3: per thread, invocation – linearization – return happen in program order -/

/-- The linearized calls of a thread are its invoked calls minus the one still waiting for the
    guard; its completed calls are the linearized ones minus the one that has not yet released the
    guard (whose output is the one stored in phase `done`). -/
def Ordered (s : LState) : Prop :=
  (∀ u, s.program u = (s.linearized u).map (·.1) ++ (s.phaseOf u).pendingCall) ∧
  (∀ u, s.linearized u = s.observed u ++ (s.phaseOf u).pendingRet)

theorem ordered_step (s s' : LState) (t : Nat) (p : LPhase) (dc : List Op) (dl dt : List (Op × Out))
    (hph : s'.phaseOf t = p ∧ ∀ u, u ≠ t → s'.phaseOf u = s.phaseOf u)
    (hc : s'.calls = s.calls ++ tag t dc) (hl : s'.lin = s.lin ++ tag t dl)
    (ht : s'.trace = s.trace ++ tag t dt)
    (o1 : (s.phaseOf t).pendingCall ++ dc = dl.map (·.1) ++ p.pendingCall)
    (o2 : (s.phaseOf t).pendingRet ++ dl = dt ++ p.pendingRet)
    (h : Ordered s) : Ordered s' := by
  obtain ⟨h1, h2⟩ := h
  simp only [LState.program, LState.linearized, LState.observed] at h1 h2
  simp only [Ordered, LState.program, LState.linearized, LState.observed]
  constructor
  · intro u
    by_cases hu : u = t
    · subst hu
      rw [hc, hl, hph.1, proj_append, proj_append, proj_tag_self, proj_tag_self, List.map_append,
        h1 u, List.append_assoc, List.append_assoc, o1]
    · rw [hc, hl, hph.2 u hu, proj_append, proj_append, proj_tag_ne _ hu, proj_tag_ne _ hu,
        List.append_nil, List.append_nil]
      exact h1 u
  · intro u
    by_cases hu : u = t
    · subst hu
      rw [hl, ht, hph.1, proj_append, proj_append, proj_tag_self, proj_tag_self,
        h2 u, List.append_assoc, List.append_assoc, o2]
    · rw [hl, ht, hph.2 u hu, proj_append, proj_append, proj_tag_ne _ hu, proj_tag_ne _ hu,
        List.append_nil, List.append_nil]
      exact h2 u

theorem ordered_fire (s : LState) (e : LEvent) (he : s.enabled e = true) (h : Ordered s) :
    Ordered (s.fire compile cfgOf findOf e) := by
  rcases fire_cases compile cfgOf findOf s e he with
    ⟨t, a, cfg, -, hp, hf⟩ | ⟨t, op, -, -, hp, hf⟩ | ⟨t, a, cfg, -, hp, hl, hf⟩ |
    ⟨t, a, cfg, -, hp, hf⟩ | ⟨t, a, cfg, out, -, hp, hf⟩ <;> rw [hf]
  · exact ordered_step s _ t (.waiting a cfg) [.build a cfg] [] [] (phaseOf_set s _ t _ rfl)
      rfl (List.append_nil _).symm (List.append_nil _).symm (by rw [hp]; rfl) (by rw [hp]; rfl) h
  · exact ordered_step s _ t .idle [op] [(op, _)] [(op, _)] ⟨hp, fun _ _ => rfl⟩
      rfl rfl rfl (by rw [hp]; rfl) (by rw [hp]; rfl) h
  · exact ordered_step s _ t (.holding a cfg) [] [] [] (phaseOf_set s _ t _ rfl)
      (List.append_nil _).symm (List.append_nil _).symm (List.append_nil _).symm
      (by rw [hp]; rfl) (by rw [hp]; rfl) h
  · exact ordered_step s _ t (.done a cfg _) [] [(.build a cfg, _)] [] (phaseOf_set s _ t _ rfl)
      (List.append_nil _).symm rfl (List.append_nil _).symm (by rw [hp]; rfl) (by rw [hp]; rfl) h
  · exact ordered_step s _ t .idle [] [] [(.build a cfg, out)] (phaseOf_set s _ t _ rfl)
      (List.append_nil _).symm (List.append_nil _).symm rfl (by rw [hp]; rfl) (by rw [hp]; rfl) h

/-! ## reachable states satisfy the invariants -/

theorem reachable_inv (s : LState) (hr : Reachable compile cfgOf findOf s) :
    Mutex s ∧ Refines compile cfgOf findOf s ∧ Ordered s := by
  induction hr with
  | init =>
    refine ⟨?_, rfl, ?_, ?_⟩
    · intro u; simp [LState.init, LState.phaseOf, phaseIn, LPhase.critical]
    · intro u; rfl
    · intro u; rfl
  | step _ he ih =>
    exact ⟨mutex_fire compile cfgOf findOf _ _ he ih.1, refines_fire compile cfgOf findOf _ _ he ih.2.1,
      ordered_fire compile cfgOf findOf _ _ he ih.2.2⟩

/-! ## 1. mutual exclusion -/

/-- **Mutual exclusion.**  In every reachable state the threads inside the critical section
    (`holding` or `done`) are exactly the thread recorded in `lock`; hence at most one thread is
    inside, and none if the lock is free. -/
theorem lock_mutual_exclusion (s : LState) (hr : Reachable compile cfgOf findOf s) :
    (∀ t, (s.phaseOf t).critical = true ↔ s.lock = some t) ∧
    (∀ t u, (s.phaseOf t).critical = true → (s.phaseOf u).critical = true → t = u) ∧
    (s.lock = none → ∀ t, (s.phaseOf t).critical = false) := by
  have h := (reachable_inv compile cfgOf findOf s hr).1
  refine ⟨h, ?_, ?_⟩
  · intro t u ht hu
    have a := (h t).mp ht
    have b := (h u).mp hu
    rw [a] at b
    exact Option.some.inj b
  · intro hl t
    cases hc : (s.phaseOf t).critical with
    | false => rfl
    | true => have := (h t).mp hc; rw [hl] at this; cases this

/-! ## 2. linearizability -/

/-- **The lock-level model refines the atomic model.**  In every reachable state
    * the shared world is the world after the *sequential* execution `World.run` of the calls in
      the order `linOps` of their linearization points, and the outputs computed at the
      linearization points are the outputs of that sequential execution;
    * for every thread, the linearized calls are its program (invocations in program order) minus
      the call still waiting for the guard, and its completed calls (with the outputs returned)
      are its linearized calls minus the one that has not yet released the guard: the
      linearization point of every call lies between its invocation and its return;
    * every completed call, with the output returned to the caller, is a linearized call. -/
theorem lock_refines_atomic (s : LState) (hr : Reachable compile cfgOf findOf s) :
    s.world = (World.run compile cfgOf findOf World.empty s.linOps).1 ∧
    s.linOuts = (World.run compile cfgOf findOf World.empty s.linOps).2 ∧
    (∀ t, s.program t = (s.linearized t).map (·.1) ++ (s.phaseOf t).pendingCall) ∧
    (∀ t, s.linearized t = s.observed t ++ (s.phaseOf t).pendingRet) ∧
    (∀ e ∈ s.trace, e ∈ s.lin) := by
  obtain ⟨_, h2, h3, h4⟩ := reachable_inv compile cfgOf findOf s hr
  unfold Refines at h2
  refine ⟨by rw [h2], by rw [h2], h3, h4, ?_⟩
  rintro ⟨t, x⟩ he
  have : x ∈ s.linearized t := by
    rw [h4 t]; exact List.mem_append_left _ (mem_proj.mpr he)
  exact mem_proj.mp this

/-- Histories only grow: the histories of a state are prefixes of the histories of every later
    state.  With `lock_refines_atomic` (a call completed in `s` is in `s.lin`; a call invoked after
    `s` is not in `s.calls`, hence not in `s.lin`) this is the real-time order across threads: a
    call that returned before another call was invoked is linearized before it. -/
theorem lock_history_monotone (s : LState) (evs : List LEvent)
    (hl : s.legal compile cfgOf findOf evs = true) :
    s.calls <+: (s.runEvents compile cfgOf findOf evs).calls ∧
    s.lin <+: (s.runEvents compile cfgOf findOf evs).lin ∧
    s.trace <+: (s.runEvents compile cfgOf findOf evs).trace := by
  induction evs generalizing s with
  | nil => exact ⟨List.prefix_refl _, List.prefix_refl _, List.prefix_refl _⟩
  | cons e es ih =>
    simp only [LState.legal, Bool.and_eq_true] at hl
    obtain ⟨a, b, c⟩ := ih _ hl.2
    simp only [LState.runEvents]
    have key : s.calls <+: (s.fire compile cfgOf findOf e).calls ∧
        s.lin <+: (s.fire compile cfgOf findOf e).lin ∧
        s.trace <+: (s.fire compile cfgOf findOf e).trace := by
      rcases fire_cases compile cfgOf findOf s e hl.1 with
        ⟨t, a, cfg, -, hp, hf⟩ | ⟨t, op, -, -, hp, hf⟩ | ⟨t, a, cfg, -, hp, hl, hf⟩ |
        ⟨t, a, cfg, -, hp, hf⟩ | ⟨t, a, cfg, out, -, hp, hf⟩ <;> rw [hf]
      · exact ⟨List.prefix_append _ _, List.prefix_refl _, List.prefix_refl _⟩
      · exact ⟨List.prefix_append _ _, List.prefix_append _ _, List.prefix_append _ _⟩
      · exact ⟨List.prefix_refl _, List.prefix_refl _, List.prefix_refl _⟩
      · exact ⟨List.prefix_refl _, List.prefix_append _ _, List.prefix_refl _⟩
      · exact ⟨List.prefix_refl _, List.prefix_refl _, List.prefix_append _ _⟩
    exact ⟨key.1.trans a, key.2.1.trans b, key.2.2.trans c⟩

/-! ## 3. deadlock freedom and progress -/

/-- **Deadlock freedom.**  In every reachable state the holder of the guard can always continue
    (`body` or `release`), and if nobody holds the guard every thread inside a call can `acquire`;
    so whenever some thread is not idle, a lock-level event other than a new `call` is enabled. -/
theorem lock_deadlock_free (s : LState) (hr : Reachable compile cfgOf findOf s) :
    (∀ h, s.lock = some h → s.enabled (.body h) = true ∨ s.enabled (.release h) = true) ∧
    (s.lock = none → ∀ t, s.phaseOf t ≠ .idle → s.enabled (.acquire t) = true) ∧
    ((∃ t, s.phaseOf t ≠ .idle) → ∃ e, e.isCall = false ∧ s.enabled e = true) := by
  have hm := (reachable_inv compile cfgOf findOf s hr).1
  have h1 : ∀ h, s.lock = some h → s.enabled (.body h) = true ∨ s.enabled (.release h) = true := by
    intro h hl
    have hc := (hm h).mpr hl
    cases hp : s.phaseOf h <;> rw [hp] at hc <;> simp only [LPhase.critical] at hc <;> try cases hc
    · left; simp only [LState.enabled, hp]
    · right; simp only [LState.enabled, hp]
  have h2 : s.lock = none → ∀ t, s.phaseOf t ≠ .idle → s.enabled (.acquire t) = true := by
    intro hl t ht
    have hc : (s.phaseOf t).critical = false := by
      cases hc : (s.phaseOf t).critical with
      | false => rfl
      | true => have := (hm t).mp hc; rw [hl] at this; cases this
    cases hp : s.phaseOf t <;> rw [hp] at hc <;> simp only [LPhase.critical] at hc <;> try cases hc
    · exact absurd hp ht
    · simp only [LState.enabled, hp, hl]
  refine ⟨h1, h2, ?_⟩
  rintro ⟨t, ht⟩
  cases hl : s.lock with
  | none => exact ⟨.acquire t, rfl, h2 hl t ht⟩
  | some h =>
    rcases h1 h hl with hb | hb
    · exact ⟨.body h, rfl, hb⟩
    · exact ⟨.release h, rfl, hb⟩

theorem phaseWeight_filter_le (l : List (Nat × LPhase)) (f : Nat × LPhase → Bool) :
    phaseWeight (l.filter f) ≤ phaseWeight l := by
  induction l with
  | nil => exact Nat.le_refl _
  | cons p r ih =>
    cases hf : f p <;> simp only [List.filter, hf, phaseWeight] <;> omega

theorem phaseWeight_remove (l : List (Nat × LPhase)) (t : Nat) :
    phaseWeight (l.filter (fun p => p.1 != t)) + (phaseIn l t).weight ≤ phaseWeight l := by
  induction l with
  | nil => exact Nat.le_refl _
  | cons p r ih =>
    obtain ⟨a, b⟩ := p
    rw [phaseIn_cons]
    by_cases h : t = a
    · subst h
      have := phaseWeight_filter_le r (fun p => p.1 != t)
      simp only [List.filter, bne_self_eq_false, phaseWeight, if_true]
      omega
    · have e : (a != t) = true := by simp; exact fun e => h e.symm
      simp only [List.filter, e, phaseWeight, h, if_false]
      omega

theorem phaseWeight_assocSet (l : List (Nat × LPhase)) (t : Nat) (p : LPhase) :
    phaseWeight (assocSet l t p) + (phaseIn l t).weight ≤ phaseWeight l + p.weight := by
  have := phaseWeight_remove l t
  simp only [assocSet, phaseWeight]
  omega

/-- **Every lock event makes progress**: firing any enabled event other than a new `call`
    decreases the measure (the number of lock events the pending calls still need). -/
theorem lock_measure_decreases (s : LState) (e : LEvent) (he : s.enabled e = true)
    (hc : e.isCall = false) : (s.fire compile cfgOf findOf e).measure < s.measure := by
  rcases fire_cases compile cfgOf findOf s e he with
    ⟨t, a, cfg, rfl, hp, hf⟩ | ⟨t, op, rfl, -, hp, hf⟩ | ⟨t, a, cfg, -, hp, hl, hf⟩ |
    ⟨t, a, cfg, -, hp, hf⟩ | ⟨t, a, cfg, out, -, hp, hf⟩
  · cases hc
  · cases hc
  · rw [hf]
    have := phaseWeight_assocSet s.phase t (.holding a cfg)
    simp only [LState.phaseOf] at hp
    rw [hp] at this
    simp only [LPhase.weight] at this
    simp only [LState.measure, LState.grant]
    omega
  · rw [hf]
    have := phaseWeight_assocSet s.phase t
      (.done a cfg (World.step compile cfgOf findOf s.world (.build a cfg)).2)
    simp only [LState.phaseOf] at hp
    rw [hp] at this
    simp only [LPhase.weight] at this
    simp only [LState.measure, LState.recordBody]
    omega
  · rw [hf]
    have := phaseWeight_assocSet s.phase t .idle
    simp only [LState.phaseOf] at hp
    rw [hp] at this
    simp only [LPhase.weight] at this
    simp only [LState.measure, LState.finish]
    omega

theorem weight_le_three (b : LPhase) : b.weight ≤ 3 := by
  cases b <;> simp [LPhase.weight]

theorem weight_of_idle (b : LPhase) (h : (b != LPhase.idle) = false) : b.weight = 0 := by
  cases b <;> first | rfl | simp at h

theorem measure_le (s : LState) : s.measure ≤ 3 * s.nonIdle := by
  unfold LState.measure LState.nonIdle
  induction s.phase with
  | nil => exact Nat.le_refl _
  | cons p r ih =>
    cases h : (p.2 != LPhase.idle)
    · have := weight_of_idle p.2 h
      simp only [phaseWeight, List.filter, h]
      omega
    · have := weight_le_three p.2
      simp only [phaseWeight, List.filter, h, List.length_cons]
      omega

/-- the thread ids in `phase` are distinct, so `nonIdle` counts threads -/
theorem phase_keys_nodup (s : LState) (hr : Reachable compile cfgOf findOf s) :
    (s.phase.map (·.1)).Nodup := by
  have set : ∀ (l : List (Nat × LPhase)) (t : Nat) (p : LPhase), (l.map (·.1)).Nodup →
      ((assocSet l t p).map (·.1)).Nodup := by
    intro l t p h
    simp only [assocSet, List.map_cons, List.nodup_cons]
    constructor
    · simp only [List.mem_map, List.mem_filter]
      rintro ⟨⟨a, b⟩, ⟨_, h1⟩, h2⟩
      simp at h1 h2
      exact h1 h2
    · exact h.sublist ((List.filter_sublist).map _)
  induction hr with
  | init => exact List.nodup_nil
  | @step s e _ he ih =>
    rcases fire_cases compile cfgOf findOf s e he with
      ⟨t, a, cfg, -, hp, hf⟩ | ⟨t, op, -, -, hp, hf⟩ | ⟨t, a, cfg, -, hp, hl, hf⟩ |
      ⟨t, a, cfg, -, hp, hf⟩ | ⟨t, a, cfg, out, -, hp, hf⟩ <;> rw [hf]
    · exact set _ _ _ ih
    · exact ih
    · exact set _ _ _ ih
    · exact set _ _ _ ih
    · exact set _ _ _ ih

theorem progress_aux (n : Nat) (s : LState) (hr : Reachable compile cfgOf findOf s)
    (hn : s.measure ≤ n) :
    ∃ evs : List LEvent, evs.length ≤ n ∧ s.legal compile cfgOf findOf evs = true ∧
      (∀ e ∈ evs, e.isCall = false) ∧
      ∀ t, (s.runEvents compile cfgOf findOf evs).phaseOf t = .idle := by
  induction n generalizing s with
  | zero =>
    by_cases hall : ∀ t, s.phaseOf t = .idle
    · exact ⟨[], Nat.le_refl _, rfl, (fun _ h => by cases h), hall⟩
    · have ⟨t, ht⟩ := Classical.not_forall.mp hall
      obtain ⟨e, hc, he⟩ := (lock_deadlock_free compile cfgOf findOf s hr).2.2 ⟨t, ht⟩
      have := lock_measure_decreases compile cfgOf findOf s e he hc
      omega
  | succ n ih =>
    by_cases hall : ∀ t, s.phaseOf t = .idle
    · exact ⟨[], Nat.zero_le _, rfl, (fun _ h => by cases h), hall⟩
    · have ⟨t, ht⟩ := Classical.not_forall.mp hall
      obtain ⟨e, hc, he⟩ := (lock_deadlock_free compile cfgOf findOf s hr).2.2 ⟨t, ht⟩
      have hd := lock_measure_decreases compile cfgOf findOf s e he hc
      obtain ⟨evs, h1, h2, h3, h4⟩ := ih (s.fire compile cfgOf findOf e) (.step hr he) (by omega)
      refine ⟨e :: evs, by simp only [List.length_cons]; omega, ?_, ?_, h4⟩
      · simp only [LState.legal, he, h2, Bool.and_self]
      · intro x hx
        rcases List.mem_cons.mp hx with rfl | hx
        · exact hc
        · exact h3 x hx

/-- **Progress.**  From every reachable state there is a schedule of at most
    `3 * (number of threads inside a call)` enabled lock events (`acquire`/`body`/`release`, no new
    calls) after which every thread is idle: every pending `build` returns.  By
    `lock_measure_decreases` *every* enabled lock event is a step of such a schedule, so no
    scheduler that keeps firing enabled lock events can avoid completing the pending calls. -/
theorem lock_progress (s : LState) (hr : Reachable compile cfgOf findOf s) :
    ∃ evs : List LEvent, evs.length ≤ 3 * s.nonIdle ∧ s.legal compile cfgOf findOf evs = true ∧
      (∀ e ∈ evs, e.isCall = false) ∧
      ∀ t, (s.runEvents compile cfgOf findOf evs).phaseOf t = .idle :=
  progress_aux compile cfgOf findOf (3 * s.nonIdle) s hr (measure_le s)

/-! ## 4. the view of one thread -/

/-- an operation cannot use both only owned and only foreign slots (every operation uses a slot) -/
theorem within_exclusive (own : Nat → Bool) (o : Op) (h : o.within (fun x => !own x) = true) :
    o.within own = false := by
  cases o <;> simp_all [Op.within, Op.scannerSlot, Op.iterSlot]

/-- If the operations of thread `t` in a tagged history are exactly those within `own`, then
    filtering the history by `own` is projecting it to `t`. -/
theorem filter_own_eq_proj (own : Nat → Bool) (t : Nat) (lin : List (Nat × Op × Out))
    (h : ∀ e ∈ lin, e.2.1.within own = (e.1 == t)) :
    (lin.map (·.2.1)).filter (·.within own) = (proj t lin).map (·.1) ∧
    outputsOf own (lin.map (·.2.1)) (lin.map (·.2.2)) = (proj t lin).map (·.2) := by
  induction lin with
  | nil => exact ⟨rfl, rfl⟩
  | cons e r ih =>
    obtain ⟨ih1, ih2⟩ := ih (fun x hx => h x (List.mem_cons_of_mem _ hx))
    have he := h e (by simp)
    simp only [proj] at ih1 ih2
    cases hb : (e.1 == t)
    · rw [hb] at he
      simp only [List.map, List.filter, outputsOf, he, hb, proj]
      exact ⟨ih1, by simpa using ih2⟩
    · rw [hb] at he
      simp only [List.map, List.filter, outputsOf, he, hb, proj, if_true]
      exact ⟨by rw [ih1], by rw [ih2]⟩

theorem pendingOps_eq (p : LPhase) : p.pendingRet.map (·.1) ++ p.pendingCall = p.pendingOps := by
  cases p <;> rfl

/-- **The view of one thread.**  Let `own` be the scanner/iterator slots of thread `t`: all
    invocations of `t` only use slots in `own`, all invocations of other threads only use other
    slots (the cache is shared by everybody).  Then in every lock-level execution
    * the outputs `t` has observed for its completed calls are exactly the outputs of running these
      calls alone, sequentially, on the empty world (empty cache, no other thread);
    * the completed calls are the program of `t` so far, minus the call `t` is currently inside;
    * so whenever `t` is idle it has observed exactly the outputs of its own program run alone.
    No further side condition is needed (the initial cache is empty, hence contains only genuine
    compilations). -/
theorem lock_thread_view (s : LState) (hr : Reachable compile cfgOf findOf s) (t : Nat)
    (own : Nat → Bool)
    (hown : ∀ u op, (u, op) ∈ s.calls →
      if u = t then op.within own = true else op.within (fun x => !own x) = true) :
    (s.observed t).map (·.2) =
      (World.run compile cfgOf findOf World.empty ((s.observed t).map (·.1))).2 ∧
    s.program t = (s.observed t).map (·.1) ++ (s.phaseOf t).pendingOps ∧
    (s.phaseOf t = .idle →
      (s.observed t).map (·.2) = (World.run compile cfgOf findOf World.empty (s.program t)).2) := by
  obtain ⟨_, h2, h3, h4⟩ := reachable_inv compile cfgOf findOf s hr
  unfold Refines at h2
  -- every linearized call was invoked
  have hmem : ∀ e ∈ s.lin, (e.1, e.2.1) ∈ s.calls := by
    rintro ⟨u, op, out⟩ he
    have h1 : (op, out) ∈ s.linearized u := mem_proj.mpr he
    have h5 : op ∈ s.program u := by
      rw [h3 u]; exact List.mem_append_left _ (List.mem_map.mpr ⟨_, h1, rfl⟩)
    exact mem_proj.mp h5
  -- the calls of `t` in `lin` are those within `own`
  have htag : ∀ e ∈ s.lin, e.2.1.within own = (e.1 == t) := by
    intro e he
    have := hown e.1 e.2.1 (hmem e he)
    by_cases hu : e.1 = t
    · simp only [hu, if_true] at this; simp [this, hu]
    · simp only [hu, if_false] at this
      rw [within_exclusive own _ this]; simp [hu]
  have hops : ∀ o ∈ s.linOps, o.within own = true ∨ o.within (fun x => !own x) = true := by
    intro o ho
    obtain ⟨e, he, rfl⟩ := List.mem_map.mp ho
    have := hown e.1 e.2.1 (hmem e he)
    by_cases hu : e.1 = t
    · simp only [hu, if_true] at this; exact Or.inl this
    · simp only [hu, if_false] at this; exact Or.inr this
  have hsim : SimOwn compile own World.empty World.empty :=
    ⟨(fun p hp => by cases hp), (fun p hp => by cases hp), (fun _ _ => rfl), (fun _ _ => rfl)⟩
  have hii := interleaving_independent compile cfgOf findOf own s.linOps hops _ _ hsim
  rw [h2] at hii
  obtain ⟨f1, f2⟩ := filter_own_eq_proj own t s.lin htag
  simp only [LState.linOps, LState.linOuts] at hii
  rw [f1, f2] at hii
  -- `hii`: the outputs at the linearization points of `t` are those of `t` alone
  have hlin : s.linearized t = s.observed t ++ (s.phaseOf t).pendingRet := h4 t
  simp only [LState.linearized] at hlin
  rw [hlin, List.map_append, List.map_append, run_append] at hii
  have hlen : ((s.observed t).map (·.2)).length =
      (World.run compile cfgOf findOf World.empty ((s.observed t).map (·.1))).2.length := by
    rw [run_length, List.length_map, List.length_map]
  have hobs := (List.append_inj hii hlen).1
  have hprog : s.program t = (s.observed t).map (·.1) ++ (s.phaseOf t).pendingOps := by
    rw [h3 t, h4 t, List.map_append, List.append_assoc, pendingOps_eq]
  refine ⟨hobs, hprog, ?_⟩
  intro hidle
  rw [hprog, hidle]
  simp only [LPhase.pendingOps, List.append_nil]
  exact hobs

/-! ## executions as event lists -/

theorem reachable_of_legal (s : LState) (hr : Reachable compile cfgOf findOf s) (evs : List LEvent)
    (hl : s.legal compile cfgOf findOf evs = true) :
    Reachable compile cfgOf findOf (s.runEvents compile cfgOf findOf evs) := by
  induction evs generalizing s with
  | nil => exact hr
  | cons e es ih =>
    simp only [LState.legal, Bool.and_eq_true] at hl
    exact ih _ (.step hr hl.1) hl.2

theorem legal_of_reachable (s : LState) (hr : Reachable compile cfgOf findOf s) :
    ∃ evs, LState.init.legal compile cfgOf findOf evs = true ∧
      LState.init.runEvents compile cfgOf findOf evs = s := by
  have snoc : ∀ (evs : List LEvent) (s0 : LState) (e : LEvent),
      s0.legal compile cfgOf findOf evs = true →
      (s0.runEvents compile cfgOf findOf evs).enabled e = true →
      s0.legal compile cfgOf findOf (evs ++ [e]) = true ∧
      s0.runEvents compile cfgOf findOf (evs ++ [e]) =
        (s0.runEvents compile cfgOf findOf evs).fire compile cfgOf findOf e := by
    intro evs
    induction evs with
    | nil => intro s0 e _ he; simp only [List.nil_append, LState.legal, LState.runEvents] at he ⊢; simp [he]
    | cons x xs ih =>
      intro s0 e hl he
      simp only [LState.legal, Bool.and_eq_true, List.cons_append, LState.runEvents] at hl he ⊢
      obtain ⟨a, b⟩ := ih _ e hl.2 he
      exact ⟨⟨hl.1, a⟩, b⟩
  induction hr with
  | init => exact ⟨[], rfl, rfl⟩
  | @step s e _ he ih =>
    obtain ⟨evs, h1, h2⟩ := ih
    subst h2
    obtain ⟨a, b⟩ := snoc evs _ e h1 he
    exact ⟨evs ++ [e], a, b⟩

/-- the invocations recorded in `calls` are exactly the `call` events of the schedule -/
theorem calls_runEvents (s : LState) (evs : List LEvent)
    (hl : s.legal compile cfgOf findOf evs = true) :
    (s.runEvents compile cfgOf findOf evs).calls = s.calls ++ evs.filterMap LEvent.invocation := by
  induction evs generalizing s with
  | nil => simp [LState.runEvents]
  | cons e es ih =>
    simp only [LState.legal, Bool.and_eq_true] at hl
    simp only [LState.runEvents]
    rw [ih _ hl.2]
    rcases fire_cases compile cfgOf findOf s e hl.1 with
      ⟨t, a, cfg, rfl, hp, hf⟩ | ⟨t, op, rfl, -, hp, hf⟩ | ⟨t, a, cfg, rfl, hp, hl, hf⟩ |
      ⟨t, a, cfg, rfl, hp, hf⟩ | ⟨t, a, cfg, out, rfl, hp, hf⟩ <;> rw [hf] <;>
      simp [LState.beginBuild, LState.recordAtomic, LState.grant, LState.recordBody, LState.finish,
        LEvent.invocation, List.filterMap]

/-- `lock_thread_view` for schedules: the ownership hypothesis is about the `call` events. -/
theorem lock_thread_view_events (evs : List LEvent)
    (hl : LState.init.legal compile cfgOf findOf evs = true) (t : Nat) (own : Nat → Bool)
    (hown : ∀ u op, LEvent.call u op ∈ evs →
      if u = t then op.within own = true else op.within (fun x => !own x) = true) :
    let s := LState.init.runEvents compile cfgOf findOf evs
    (s.observed t).map (·.2) =
      (World.run compile cfgOf findOf World.empty ((s.observed t).map (·.1))).2 ∧
    s.program t = (s.observed t).map (·.1) ++ (s.phaseOf t).pendingOps ∧
    (s.phaseOf t = .idle →
      (s.observed t).map (·.2) = (World.run compile cfgOf findOf World.empty (s.program t)).2) := by
  intro s
  refine lock_thread_view compile cfgOf findOf s
    (reachable_of_legal compile cfgOf findOf _ .init evs hl) t own ?_
  intro u op hm
  apply hown
  have hc := calls_runEvents compile cfgOf findOf LState.init evs hl
  change s.calls = _ at hc
  rw [hc] at hm
  simp only [LState.init, List.nil_append, List.mem_filterMap] at hm
  obtain ⟨e, he, hi⟩ := hm
  cases e with
  | call u' op' =>
    simp only [LEvent.invocation, Option.some.injEq, Prod.mk.injEq] at hi
    obtain ⟨rfl, rfl⟩ := hi
    exact he
  | _ => simp [LEvent.invocation] at hi

end

/-! ## non-vacuity

Two threads build the same configuration 7 (slots 0 and 10).  Thread 2 calls while thread 1 holds
the guard, so it has to wait (`acquire 2` is disabled until thread 1 released); the body of thread 1
compiles and inserts, the body of thread 2 hits the cache; both return the same compilation and the
cache holds one entry. -/

def lockExEvents : List LEvent :=
  [.call 1 (.build 0 7), .acquire 1, .call 2 (.build 10 7), .body 1, .release 1,
   .acquire 2, .body 2, .release 2]

def lockExRun (evs : List LEvent) : LState :=
  LState.init.runEvents (fun c => some (c + 100)) (fun _ => []) (fun _ _ _ => none) evs

example :
    LState.init.legal (fun c => some (c + 100)) (fun _ => []) (fun _ _ _ => none) lockExEvents = true ∧
    -- after the third event thread 1 holds the guard and thread 2 is blocked
    (lockExRun (lockExEvents.take 3)).lock = some 1 ∧
    (lockExRun (lockExEvents.take 3)).phaseOf 1 = .holding 0 7 ∧
    (lockExRun (lockExEvents.take 3)).phaseOf 2 = .waiting 10 7 ∧
    (lockExRun (lockExEvents.take 3)).enabled (.acquire 2) = false ∧
    -- both calls complete with the same compilation; one cache entry; the lock is free again
    (lockExRun lockExEvents).trace = [(1, .build 0 7, .built 107), (2, .build 10 7, .built 107)] ∧
    (lockExRun lockExEvents).lin = (lockExRun lockExEvents).trace ∧
    (lockExRun lockExEvents).world.cache = [(7, 107)] ∧
    (lockExRun lockExEvents).world.scanners = [(10, ⟨107, 0⟩), (0, ⟨107, 0⟩)] ∧
    (lockExRun lockExEvents).lock = none ∧
    (lockExRun lockExEvents).phaseOf 1 = .idle ∧ (lockExRun lockExEvents).phaseOf 2 = .idle := by
  decide

end Scnr
