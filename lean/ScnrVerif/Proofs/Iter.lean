import ScnrVerif.Proofs.SpecFind
import ScnrVerif.Model.SpecIter
/-!
# The iterator over an abstract finder

`FinderOK`: a reported match is a non-empty prefix of the remaining text, with `len` its byte
length. `Iter.Inv`: the cursor invariant of `FindMatchesImpl`. Main results: `next_some`,
`next_none` (shape of one `next_match` call), `next_scanFrom` (the tokens delivered by repeated
`next` are exactly `scanFrom`, a function of mode, remaining text and cursor only), `advanceTo`
and `setOffset` lemmas, `peekN_eq_peekSpec`.
-/
namespace Scnr

def FinderOK (find : Finder) : Prop :=
  ∀ m w t len, find m w = some (t, len) → ∃ u v, u ≠ [] ∧ w = u ++ v ∧ len = bytesLen u

/-- The absolute byte position of the cursor. -/
def Iter.cursor (it : Iter) : Nat := it.offset + it.rel

structure Iter.Inv (it : Iter) : Prop where
  pre : ∃ p, it.input = p ++ it.rest ∧ bytesLen p = it.offset + it.rel
  lastPos : it.lastPosition ≤ it.rel

theorem Iter.new_inv (input : List Nat) : (Iter.new input).Inv :=
  ⟨⟨[], by simp [Iter.new], by simp [Iter.new, bytesLen]⟩, by simp [Iter.new]⟩

/-! ## bytes, boundaries -/

theorem dropBytes_append (u v : List Nat) : dropBytes (bytesLen u) (u ++ v) = v := by
  induction u with
  | nil => simp [bytesLen, dropBytes]
  | cons a u ih =>
    have ha := utf8Len_pos a
    simp only [bytesLen, List.cons_append]
    have : utf8Len a + bytesLen u = (utf8Len a + bytesLen u - 1) + 1 := by omega
    rw [this, dropBytes]
    have : utf8Len a + bytesLen u - 1 + 1 - utf8Len a = bytesLen u := by omega
    rw [this]; exact ih

theorem isBoundary_append (u v : List Nat) : isBoundary (u ++ v) (bytesLen u) = true := by
  induction u with
  | nil => simp [bytesLen, isBoundary]
  | cons a u ih =>
    have ha := utf8Len_pos a
    simp only [bytesLen, List.cons_append]
    have : utf8Len a + bytesLen u = (utf8Len a + bytesLen u - 1) + 1 := by omega
    rw [this, isBoundary]
    have h2 : utf8Len a + bytesLen u - 1 + 1 - utf8Len a = bytesLen u := by omega
    rw [h2, ih]; simp; omega

/-- Every boundary splits the text. -/
theorem isBoundary_split {w : List Nat} {n : Nat} (h : isBoundary w n = true) :
    ∃ u v, w = u ++ v ∧ bytesLen u = n := by
  induction w generalizing n with
  | nil =>
    cases n with
    | zero => exact ⟨[], [], rfl, rfl⟩
    | succ n => simp [isBoundary] at h
  | cons a w ih =>
    cases n with
    | zero => exact ⟨[], a :: w, rfl, rfl⟩
    | succ n =>
      simp only [isBoundary, Bool.and_eq_true, decide_eq_true_eq] at h
      obtain ⟨u, v, rfl, hu⟩ := ih h.2
      exact ⟨a :: u, v, rfl, by simp only [bytesLen]; omega⟩

theorem dropBytes_length_lt {w : List Nat} {n : Nat} (hn : 0 < n) (hw : w ≠ []) :
    (dropBytes n w).length < w.length := by
  induction w generalizing n with
  | nil => exact absurd rfl hw
  | cons a w ih =>
    cases n with
    | zero => omega
    | succ n =>
      simp only [dropBytes, List.length_cons]
      by_cases h0 : n + 1 - utf8Len a = 0
      · rw [h0]; simp [dropBytes]
      · by_cases hw' : w = []
        · subst hw'
          have : dropBytes (n + 1 - utf8Len a) [] = [] := by
            cases (n + 1 - utf8Len a) <;> rfl
          rw [this]; simp
        · have := ih (n := n + 1 - utf8Len a) (by omega) hw'
          omega

theorem charBefore_pos (c : Nat) (w : List Nat) {n : Nat} (hn : 0 < n) :
    charBefore (c :: w) n = if n ≤ utf8Len c then c else charBefore w (n - utf8Len c) := by
  cases n with
  | zero => omega
  | succ n => rfl

theorem charBefore_append_single (p : List Nat) (c : Nat) (r : List Nat) :
    charBefore (p ++ c :: r) (bytesLen p + utf8Len c) = c := by
  induction p with
  | nil =>
    have hc := utf8Len_pos c
    simp only [List.nil_append, bytesLen, Nat.zero_add]
    rw [charBefore_pos c r hc]; simp
  | cons a p ih =>
    have ha := utf8Len_pos a
    have hc := utf8Len_pos c
    simp only [List.cons_append, bytesLen]
    rw [charBefore_pos a _ (by omega)]
    have h1 : ¬ (utf8Len a + bytesLen p + utf8Len c ≤ utf8Len a) := by omega
    simp only [h1, if_false]
    have h2 : utf8Len a + bytesLen p + utf8Len c - utf8Len a = bytesLen p + utf8Len c := by omega
    rw [h2]; exact ih

/-! ## `has_transition` on sorted lists -/

def SortedKeys : List (Nat × Nat) → Prop
  | [] => True
  | (t, _) :: r => (∀ p ∈ r, t < p.1) ∧ SortedKeys r

/-- On a list strictly sorted by token type the early-exit search is the plain lookup. -/
theorem hasTransition_eq_lookup {l : List (Nat × Nat)} (hs : SortedKeys l) (tok : Nat) :
    hasTransition l tok = l.lookup tok := by
  induction l with
  | nil => rfl
  | cons p r ih =>
    obtain ⟨t, m⟩ := p
    simp only [hasTransition, List.lookup]
    obtain ⟨h1, h2⟩ := hs
    by_cases hlt : tok < t
    · simp only [hlt, if_true]
      have hne : (tok == t) = false := by simp; omega
      simp only [hne]
      -- tok is smaller than every remaining key
      clear ih
      induction r with
      | nil => rfl
      | cons q r ihr =>
        have hq := h1 q (by simp)
        have hne2 : (tok == q.1) = false := by simp; omega
        simp only [List.lookup, hne2]
        exact ihr (fun p hp => h1 p (by simp [hp])) h2.2
    · simp only [hlt, if_false]
      by_cases heq : tok = t
      · subst heq; simp
      · have hne : (tok == t) = false := by simp [heq]
        simp only [heq, if_false, hne]
        exact ih h2

end Scnr

namespace Scnr

/-! ## the skip loop of `next_match` -/

/-- Characterisation of the skip loop (cursor part): it stops at the first suffix on which the
    finder answers, or at the end of the text; every suffix skipped had no match. -/
theorem skipLoop_spec (find : List Nat → Option (Nat × Nat)) (off n : Nat) (rest : List Nat)
    (rel lc : Nat) (lo : List Nat) :
    ∃ sk, rest = sk ++ (skipLoop find off n rest rel lc lo).rest ∧
      (skipLoop find off n rest rel lc lo).rel = rel + bytesLen sk ∧
      (skipLoop find off n rest rel lc lo).found = find (skipLoop find off n rest rel lc lo).rest ∧
      ((skipLoop find off n rest rel lc lo).found = none → (skipLoop find off n rest rel lc lo).rest = []) ∧
      (∀ a b, sk = a ++ b → b ≠ [] → find (b ++ (skipLoop find off n rest rel lc lo).rest) = none) := by
  induction rest generalizing rel lc lo with
  | nil =>
    refine ⟨[], ?_⟩
    unfold skipLoop
    cases hf : find [] with
    | some r => simp [hf, bytesLen]
    | none => simp [hf, bytesLen]
  | cons c w ih =>
    unfold skipLoop
    cases hf : find (c :: w) with
    | some r =>
      refine ⟨[], ?_⟩
      simp [hf, bytesLen]
    | none =>
      simp only
      obtain ⟨sk, h1, h2, h3, h4, h5⟩ := ih (rel + utf8Len c) c
        (if lc = 10 then insertSorted (rel + off) lo else lo)
      refine ⟨c :: sk, ?_, ?_, h3, h4, ?_⟩
      · simp only [List.cons_append]; rw [← h1]
      · rw [h2]; simp only [bytesLen]; omega
      · intro a b hab hb
        cases a with
        | nil =>
          simp only [List.nil_append] at hab
          subst hab
          simp only [List.cons_append]
          rw [← h1]; exact hf
        | cons a0 a =>
          simp only [List.cons_append, List.cons.injEq] at hab
          exact h5 a b hab.2 hb

/-! ## the consuming loop of `advance_to` -/

theorem advLoop_spec (off : Nat) (u v : List Nat) (hu : u ≠ []) (rel lc np : Nat) (st : List Nat) :
    (advLoop off (rel + bytesLen u) (u ++ v) rel lc np st).rest = v ∧
    (advLoop off (rel + bytesLen u) (u ++ v) rel lc np st).rel = rel + bytesLen u ∧
    (advLoop off (rel + bytesLen u) (u ++ v) rel lc np st).newPos < rel + bytesLen u ∧
    rel ≤ (advLoop off (rel + bytesLen u) (u ++ v) rel lc np st).newPos := by
  induction u generalizing rel lc np st with
  | nil => exact absurd rfl hu
  | cons c u ih =>
    have hc := utf8Len_pos c
    cases u with
    | nil =>
      simp only [List.cons_append, List.nil_append, bytesLen, Nat.add_zero]
      unfold advLoop
      simp
      omega
    | cons d u =>
      have hd := bytesLen_pos (u := d :: u) (by simp)
      simp only [List.cons_append]
      unfold advLoop
      have hlt : ¬ (rel + utf8Len c ≥ rel + bytesLen (c :: d :: u)) := by
        simp only [bytesLen] at hd ⊢; omega
      simp only [hlt, if_false]
      have hpos : rel + bytesLen (c :: d :: u) = (rel + utf8Len c) + bytesLen (d :: u) := by
        simp only [bytesLen]; omega
      rw [hpos]
      have := ih (by simp) (rel + utf8Len c) c rel (if lc = 10 then (rel + off) :: st else st)
      simp only [List.cons_append] at this
      obtain ⟨h1, h2, h3, h4⟩ := this
      exact ⟨h1, h2, h3, by omega⟩

/-- `advance_to_relative` to the end of a non-empty prefix of the remaining text moves the cursor
    exactly there. -/
theorem advanceToRel_spec (it : Iter) (u v : List Nat) (hu : u ≠ []) (hr : it.rest = u ++ v)
    (hl : it.lastPosition ≤ it.rel) :
    (it.advanceToRel (it.rel + bytesLen u)).rest = v ∧
    (it.advanceToRel (it.rel + bytesLen u)).rel = it.rel + bytesLen u ∧
    (it.advanceToRel (it.rel + bytesLen u)).lastPosition ≤ it.rel + bytesLen u ∧
    (it.advanceToRel (it.rel + bytesLen u)).input = it.input ∧
    (it.advanceToRel (it.rel + bytesLen u)).offset = it.offset ∧
    (it.advanceToRel (it.rel + bytesLen u)).mode = it.mode := by
  have hb := bytesLen_pos hu
  unfold Iter.advanceToRel
  have h0 : ¬ (it.rel + bytesLen u < it.lastPosition) := by omega
  simp only [h0, if_false]
  obtain ⟨h1, h2, h3, _⟩ := advLoop_spec it.offset u v hu it.rel it.lastChar 0 []
  rw [hr]
  generalize advLoop it.offset (it.rel + bytesLen u) (u ++ v) it.rel it.lastChar 0 [] = r at *
  obtain ⟨r1, r2, r3, r4, r5⟩ := r
  simp only at h1 h2 h3 ⊢
  exact ⟨h1, h2, by omega, trivial, trivial, trivial⟩

end Scnr

namespace Scnr

/-! ## one `next_match` call -/

theorem finderOK_nil {find : Finder} (hf : FinderOK find) (m : Nat) : find m [] = none := by
  cases h : find m [] with
  | none => rfl
  | some r =>
    obtain ⟨t, len⟩ := r
    obtain ⟨u, v, hu, huv, _⟩ := hf m [] t len h
    cases u with
    | nil => exact absurd rfl hu
    | cons a u => simp at huv

/-- Outcome of one `next_match` call, in terms of the text: some characters `sk` without any match
    are skipped, then either the text ends, or the finder reports a non-empty prefix `u`, which
    becomes the token and is consumed. -/
inductive NextOutcome (cfg : List ModeCfg) (find : Finder) (it : Iter) : Iter × Option Tok → Prop
  | exhausted (it' : Iter) :
      (∀ a b, it.rest = a ++ b → b ≠ [] → find it.mode b = none) →
      it'.rest = [] → it'.rel = it.rel + bytesLen it.rest → it'.mode = it.mode →
      it'.offset = it.offset → it'.input = it.input → it'.lastPosition = it.lastPosition →
      NextOutcome cfg find it (it', none)
  | token (it' : Iter) (sk u v : List Nat) (tid : Nat) :
      it.rest = sk ++ (u ++ v) → u ≠ [] →
      (∀ a b, sk = a ++ b → b ≠ [] → find it.mode (b ++ (u ++ v)) = none) →
      find it.mode (u ++ v) = some (tid, bytesLen u) →
      it'.rest = v → it'.rel = it.rel + bytesLen sk + bytesLen u →
      it'.mode = (hasTransition (modeTrans cfg it.mode) tid).getD it.mode →
      it'.offset = it.offset → it'.input = it.input → it'.lastPosition ≤ it'.rel →
      NextOutcome cfg find it
        (it', some ⟨tid, it.offset + it.rel + bytesLen sk, it.offset + it.rel + bytesLen sk + bytesLen u⟩)

theorem next_outcome (cfg : List ModeCfg) (find : Finder) (hf : FinderOK find) (it : Iter)
    (hl : it.lastPosition ≤ it.rel) : NextOutcome cfg find it (it.next cfg find) := by
  obtain ⟨sk, h1, h2, h3, h4, h5⟩ := skipLoop_spec (find it.mode) it.offset (bytesLen it.input)
    it.rest it.rel it.lastChar it.lineOffsets
  unfold Iter.next
  generalize skipLoop (find it.mode) it.offset (bytesLen it.input) it.rest it.rel it.lastChar
    it.lineOffsets = s at *
  obtain ⟨found, rest, rel, lc, lo⟩ := s
  simp only at h1 h2 h3 h4 h5
  cases found with
  | none =>
    simp only
    have hrest : rest = [] := h4 rfl
    subst hrest
    simp only [List.append_nil] at h1 h5
    refine NextOutcome.exhausted _ ?_ rfl ?_ rfl rfl rfl rfl
    · intro a b hab hb
      rw [h1] at hab
      exact h5 a b hab hb
    · simp only [Iter.afterSkip]; rw [h2, h1]
  | some r =>
    obtain ⟨tid, len⟩ := r
    simp only
    obtain ⟨u, v, hu, huv, hlen⟩ := hf it.mode rest tid len h3.symm
    subst huv hlen
    have hb := bytesLen_pos hu
    have hne : bytesLen u ≠ 0 := by omega
    -- the iterator after the skip loop, with the mode already switched
    have hadv := advanceToRel_spec
      { (it.afterSkip ⟨some (tid, bytesLen u), u ++ v, rel, lc, lo⟩) with
        mode := (hasTransition (modeTrans cfg it.mode) tid).getD it.mode } u v hu rfl
      (by simp only [Iter.afterSkip]; omega)
    simp only [Iter.afterSkip] at hadv
    obtain ⟨a1, a2, a3, a4, a5, a6⟩ := hadv
    have htok : (⟨tid, rel + it.offset, rel + bytesLen u + it.offset⟩ : Tok) =
        ⟨tid, it.offset + it.rel + bytesLen sk, it.offset + it.rel + bytesLen sk + bytesLen u⟩ := by
      rw [h2]; congr 1 <;> omega
    rw [htok]
    refine NextOutcome.token _ sk u v tid h1 hu h5 h3.symm ?_ ?_ ?_ ?_ ?_ ?_
    all_goals simp only [Iter.consume, Iter.afterSkip, hne, if_false]
    · exact a1
    · rw [a2, h2]
    · exact a6
    · exact a5
    · exact a4
    · rw [a2]; exact a3

end Scnr

namespace Scnr

/-! ## `next` delivers exactly `scanFrom` -/

theorem scanFrom_nil (cfg : List ModeCfg) (find : Finder) (hf : FinderOK find) (m pos : Nat) :
    scanFrom cfg find m [] pos = [] := by
  unfold scanFrom; simp [finderOK_nil hf m]

theorem scanFrom_skip (cfg : List ModeCfg) (find : Finder) (m : Nat) (sk r : List Nat) (pos : Nat)
    (h : ∀ a b, sk = a ++ b → b ≠ [] → find m (b ++ r) = none) :
    scanFrom cfg find m (sk ++ r) pos = scanFrom cfg find m r (pos + bytesLen sk) := by
  induction sk generalizing pos with
  | nil => simp [bytesLen]
  | cons c sk ih =>
    have h0 := h [] (c :: sk) rfl (by simp)
    conv => lhs; unfold scanFrom
    simp only [List.cons_append] at h0 ⊢
    simp only [h0]
    rw [ih (pos + utf8Len c) (fun a b hab hb => h (c :: a) b (by simp [hab]) hb)]
    simp only [bytesLen]
    congr 1; omega

theorem scanFrom_match (cfg : List ModeCfg) (find : Finder) (m : Nat) (u v : List Nat) (pos tid : Nat)
    (hu : u ≠ []) (h : find m (u ++ v) = some (tid, bytesLen u)) :
    scanFrom cfg find m (u ++ v) pos =
      ⟨tid, pos, pos + bytesLen u⟩ ::
        scanFrom cfg find ((hasTransition (modeTrans cfg m) tid).getD m) v (pos + bytesLen u) := by
  conv => lhs; unfold scanFrom
  simp only [h, dropBytes_append]
  have : v.length < (u ++ v).length := by
    cases u with
    | nil => exact absurd rfl hu
    | cons a u => simp; omega
  rw [dif_pos this]

/-- **One-step unfolding**: what `next` returns is the head of the reference scan from the cursor,
    and the reference scan from the new cursor is its tail. Only mode, remaining text and cursor
    position enter; line bookkeeping and scan history do not. -/
theorem next_scanFrom (cfg : List ModeCfg) (find : Finder) (hf : FinderOK find) (it : Iter)
    (hl : it.lastPosition ≤ it.rel) :
    scanFrom cfg find it.mode it.rest it.cursor =
      match it.next cfg find with
      | (it', some t) => t :: scanFrom cfg find it'.mode it'.rest it'.cursor
      | (_, none) => [] := by
  have ho := next_outcome cfg find hf it hl
  generalize it.next cfg find = r at ho
  cases ho with
  | exhausted it' hnone hrest _ _ _ _ _ =>
    simp only
    have := scanFrom_skip cfg find it.mode it.rest [] it.cursor
      (by intro a b hab hb; simp only [List.append_nil]; exact hnone a b hab hb)
    simp only [List.append_nil] at this
    rw [this, scanFrom_nil cfg find hf]
  | token it' sk u v tid hr hu hsk hfind hrest hrel hmode hoff _ _ =>
    simp only
    rw [hr, scanFrom_skip cfg find it.mode sk (u ++ v) it.cursor hsk,
      scanFrom_match cfg find it.mode u v _ tid hu hfind, hrest, hmode]
    simp only [Iter.cursor, hoff, hrel]
    congr 2 <;> omega

/-- Running `next` with enough fuel. -/
def Iter.run (cfg : List ModeCfg) (find : Finder) : Nat → Iter → List Tok
  | 0, _ => []
  | n + 1, it =>
    match it.next cfg find with
    | (it', some t) => t :: Iter.run cfg find n it'
    | (_, none) => []

theorem next_inv (cfg : List ModeCfg) (find : Finder) (hf : FinderOK find) (it : Iter) (hi : it.Inv) :
    (it.next cfg find).1.Inv := by
  have ho := next_outcome cfg find hf it hi.lastPos
  obtain ⟨p, hp, hpl⟩ := hi.pre
  generalize it.next cfg find = r at ho
  cases ho with
  | exhausted it' _ hrest hrel _ hoff hin hlp =>
    refine ⟨⟨p ++ it.rest, ?_, ?_⟩, ?_⟩
    · rw [hin, hrest, hp]; simp
    · rw [bytesLen_append, hoff, hrel]; omega
    · simp only; rw [hlp, hrel]; have := hi.lastPos; omega
  | token it' sk u v tid hr hu _ _ hrest hrel _ hoff hin hlp =>
    refine ⟨⟨p ++ sk ++ u, ?_, ?_⟩, hlp⟩
    · rw [hin, hrest, hp, hr]; simp
    · rw [bytesLen_append, bytesLen_append, hoff, hrel]; omega

/-- With fuel exceeding the number of remaining characters, `run` is the reference scan. -/
theorem run_eq_scanFrom (cfg : List ModeCfg) (find : Finder) (hf : FinderOK find) (n : Nat) (it : Iter)
    (hi : it.Inv) (hn : it.rest.length < n) :
    Iter.run cfg find n it = scanFrom cfg find it.mode it.rest it.cursor := by
  induction n generalizing it with
  | zero => omega
  | succ n ih =>
    rw [next_scanFrom cfg find hf it hi.lastPos]
    have ho := next_outcome cfg find hf it hi.lastPos
    have hinv := next_inv cfg find hf it hi
    unfold Iter.run
    generalize it.next cfg find = r at ho hinv
    cases ho with
    | exhausted it' _ _ _ _ _ _ _ => rfl
    | token it' sk u v tid hr hu _ _ hrest _ _ _ _ _ =>
      simp only
      rw [ih it' hinv (by
        rw [hrest]
        have : it.rest.length = sk.length + (u.length + v.length) := by rw [hr]; simp
        have : 0 < u.length := by cases u with
          | nil => exact absurd rfl hu
          | cons a u => simp
        omega)]

end Scnr

namespace Scnr

/-! ## `set_offset`, `advance_to` -/

theorem dropBytes_ge_len (w : List Nat) (n : Nat) (h : bytesLen w ≤ n) : dropBytes n w = [] := by
  induction w generalizing n with
  | nil => cases n <;> rfl
  | cons a w ih =>
    have ha := utf8Len_pos a
    simp only [bytesLen] at h
    cases n with
    | zero => omega
    | succ n => simp only [dropBytes]; exact ih _ (by omega)

/-- `set_offset(o)` for `o` on a character boundary (or beyond the end: clamped) puts the cursor at
    `min o len` with the text from there on remaining; nothing else of the scan history matters. -/
theorem setOffset_spec (it : Iter) (o : Nat)
    (hb : isBoundary it.input o = true ∨ bytesLen it.input ≤ o) :
    ∃ u v, it.input = u ++ v ∧ bytesLen u = min o (bytesLen it.input) ∧
      (it.setOffset o).rest = v ∧ (it.setOffset o).rel = 0 ∧
      (it.setOffset o).offset = min o (bytesLen it.input) ∧ (it.setOffset o).mode = it.mode ∧
      (it.setOffset o).input = it.input ∧ (it.setOffset o).lineOffsets = it.lineOffsets ∧
      (it.setOffset o).Inv := by
  by_cases hle : bytesLen it.input ≤ o
  · have hmin : min o (bytesLen it.input) = bytesLen it.input := by omega
    refine ⟨it.input, [], by simp, hmin.symm, ?_, rfl, rfl, rfl, rfl, rfl, ?_⟩
    · simp only [Iter.setOffset, hmin]; exact dropBytes_ge_len _ _ (Nat.le_refl _)
    · refine ⟨⟨it.input, ?_, ?_⟩, by simp [Iter.setOffset]⟩
      · simp only [Iter.setOffset, hmin, dropBytes_ge_len _ _ (Nat.le_refl _)]; simp
      · simp [Iter.setOffset, hmin]
  · have hb' : isBoundary it.input o = true := by
      rcases hb with h | h
      · exact h
      · omega
    have hmin : min o (bytesLen it.input) = o := by omega
    obtain ⟨u, v, huv, hu⟩ := isBoundary_split hb'
    refine ⟨u, v, huv, by omega, ?_, rfl, rfl, rfl, rfl, rfl, ?_⟩
    · simp only [Iter.setOffset, hmin]; rw [huv, ← hu, dropBytes_append]
    · refine ⟨⟨u, ?_, ?_⟩, by simp [Iter.setOffset]⟩
      · simp only [Iter.setOffset, hmin]; rw [huv, ← hu, dropBytes_append]
      · simp [Iter.setOffset, hmin, hu]

/-- `advance_to(p)` with `p` the (absolute) end of a non-empty prefix `u` of the remaining text,
    e.g. the end of a match obtained from `peek_n`: the cursor is exactly at `p` afterwards. -/
theorem advanceTo_spec (it : Iter) (hi : it.Inv) (u v : List Nat) (hu : u ≠ []) (hr : it.rest = u ++ v) :
    (it.advanceTo (it.cursor + bytesLen u)).rest = v ∧
    (it.advanceTo (it.cursor + bytesLen u)).cursor = it.cursor + bytesLen u ∧
    (it.advanceTo (it.cursor + bytesLen u)).mode = it.mode ∧
    (it.advanceTo (it.cursor + bytesLen u)).Inv := by
  unfold Iter.advanceTo
  have hpos : it.cursor + bytesLen u - it.offset = it.rel + bytesLen u := by
    simp only [Iter.cursor]; omega
  rw [hpos]
  obtain ⟨a1, a2, a3, a4, a5, a6⟩ := advanceToRel_spec it u v hu hr hi.lastPos
  refine ⟨a1, ?_, a6, ⟨?_, ?_⟩⟩
  · simp only [Iter.cursor]; rw [a5, a2]; omega
  · obtain ⟨p, hp, hpl⟩ := hi.pre
    refine ⟨p ++ u, ?_, ?_⟩
    · rw [a4, a1, hp, hr]; simp
    · rw [bytesLen_append, a5, a2]; omega
  · rw [a2]; exact a3

/-! ## `peek_n` -/

theorem peekFind_spec (find : Finder) (hf : FinderOK find) (mode : Nat) (rest : List Nat) (rel : Nat) :
    match peekFind find mode rest rel with
    | none => ∀ a b, rest = a ++ b → b ≠ [] → find mode b = none
    | some (tid, len, r1, rel1) =>
      ∃ sk, rest = sk ++ r1 ∧ rel1 = rel + bytesLen sk ∧ find mode r1 = some (tid, len) ∧
        (∀ a b, sk = a ++ b → b ≠ [] → find mode (b ++ r1) = none) := by
  induction rest generalizing rel with
  | nil =>
    simp only [peekFind, finderOK_nil hf mode, Option.map_none]
    intro a b hab hb
    have : b = [] := by
      cases a <;> cases b <;> simp at hab ⊢
    exact absurd this hb
  | cons c w ih =>
    unfold peekFind
    cases hfc : find mode (c :: w) with
    | some r =>
      obtain ⟨tid, len⟩ := r
      exact ⟨[], by simp, by simp [bytesLen], hfc, by intro a b hab hb; cases a <;> cases b <;> simp at hab hb⟩
    | none =>
      simp only
      have := ih (rel + utf8Len c)
      cases hp : peekFind find mode w (rel + utf8Len c) with
      | none =>
        rw [hp] at this
        simp only at this ⊢
        intro a b hab hb
        cases a with
        | nil => simp only [List.nil_append] at hab; subst hab; exact hfc
        | cons a0 a =>
          simp only [List.cons_append, List.cons.injEq] at hab
          exact this a b hab.2 hb
      | some r =>
        obtain ⟨tid, len, r1, rel1⟩ := r
        rw [hp] at this
        simp only at this ⊢
        obtain ⟨sk, h1, h2, h3, h4⟩ := this
        refine ⟨c :: sk, by simp [h1], by simp only [bytesLen]; omega, h3, ?_⟩
        intro a b hab hb
        cases a with
        | nil =>
          simp only [List.nil_append] at hab; subst hab
          simp only [List.cons_append]; rw [← h1]; exact hfc
        | cons a0 a =>
          simp only [List.cons_append, List.cons.injEq] at hab
          exact h4 a b hab.2 hb

theorem skipBeyond_spec (u v : List Nat) (hu : u ≠ []) (rel : Nat) :
    skipBeyond (rel + bytesLen u) (u ++ v) rel = (v, rel + bytesLen u) := by
  induction u generalizing rel with
  | nil => exact absurd rfl hu
  | cons c u ih =>
    cases u with
    | nil => simp [skipBeyond, bytesLen]
    | cons d u =>
      have hd := bytesLen_pos (u := d :: u) (by simp)
      simp only [List.cons_append]
      unfold skipBeyond
      have hlt : ¬ (rel + utf8Len c ≥ rel + bytesLen (c :: d :: u)) := by
        simp only [bytesLen] at hd ⊢; omega
      simp only [hlt, if_false]
      have hpos : rel + bytesLen (c :: d :: u) = (rel + utf8Len c) + bytesLen (d :: u) := by
        simp only [bytesLen]; omega
      rw [hpos]
      have := ih (by simp) (rel + utf8Len c)
      simp only [List.cons_append] at this
      exact this

theorem peekLoop_spec (cfg : List ModeCfg) (find : Finder) (hf : FinderOK find) (mode offset : Nat)
    (n : Nat) (rest : List Nat) (rel : Nat) (acc : List Tok) :
    peekLoop cfg find mode offset n rest rel acc =
      (acc.reverse ++ (firstN cfg mode n (scanFrom cfg find mode rest (rel + offset))).1,
       (firstN cfg mode n (scanFrom cfg find mode rest (rel + offset))).2) := by
  induction n generalizing rest rel acc with
  | zero => simp [peekLoop, firstN]
  | succ n ih =>
    unfold peekLoop
    have hp := peekFind_spec find hf mode rest rel
    cases hpf : peekFind find mode rest rel with
    | none =>
      rw [hpf] at hp
      simp only at hp ⊢
      have := scanFrom_skip cfg find mode rest [] (rel + offset)
        (by intro a b hab hb; simp only [List.append_nil]; exact hp a b hab hb)
      simp only [List.append_nil] at this
      rw [this, scanFrom_nil cfg find hf]
      simp [firstN]
    | some r =>
      obtain ⟨tid, len, r1, rel1⟩ := r
      rw [hpf] at hp
      simp only at hp ⊢
      obtain ⟨sk, h1, h2, h3, h4⟩ := hp
      obtain ⟨u, v, hu, huv, hlen⟩ := hf mode r1 tid len h3
      subst huv hlen
      have hb := bytesLen_pos hu
      have hne : bytesLen u ≠ 0 := by omega
      have hscan : scanFrom cfg find mode rest (rel + offset) =
          ⟨tid, rel1 + offset, rel1 + bytesLen u + offset⟩ ::
            scanFrom cfg find ((hasTransition (modeTrans cfg mode) tid).getD mode) v
              (rel1 + bytesLen u + offset) := by
        rw [h1, scanFrom_skip cfg find mode sk (u ++ v) (rel + offset) h4,
          scanFrom_match cfg find mode u v _ tid hu h3, h2]
        congr 2 <;> omega
      rw [hscan]
      simp only [hne, if_false, skipBeyond_spec u v hu rel1]
      cases ht : hasTransition (modeTrans cfg mode) tid with
      | some m' => simp [firstN, ht]
      | none =>
        simp only [firstN, ht, Option.getD_none]
        rw [ih v (rel1 + bytesLen u) _]
        simp

/-- **`peek_n` is the specification**: the first `n` tokens of the reference scan from the cursor
    in the current mode, cut after the first mode-switching token, classified accordingly. -/
theorem peekN_eq_peekSpec (cfg : List ModeCfg) (find : Finder) (hf : FinderOK find) (it : Iter) (n : Nat) :
    it.peekN cfg find n = peekSpec cfg find it.mode it.rest (it.rel + it.offset) n := by
  unfold Iter.peekN peekSpec
  rw [peekLoop_spec cfg find hf]
  simp only [List.reverse_nil, List.nil_append]
  generalize firstN cfg it.mode n (scanFrom cfg find it.mode it.rest (it.rel + it.offset)) = r
  obtain ⟨ms, sw⟩ := r
  rfl

/-! ## the model finder satisfies `FinderOK` -/

theorem modelFinder_ok (Ms : List ModeDfa) (cm : Nat → Nat → Bool) : FinderOK (modelFinder Ms cm) := by
  intro m w t len h
  unfold modelFinder at h
  cases hM : Ms[m]? with
  | none => simp [hM] at h
  | some M =>
    simp only [hM] at h
    cases hr : findFrom M cm 0 w with
    | none => simp [hr] at h
    | some r =>
      obtain ⟨t', e⟩ := r
      simp only [hr, Option.map_some, Option.some.injEq, Prod.mk.injEq] at h
      obtain ⟨rfl, rfl⟩ := h
      have := findFrom_specFindOK M cm 0 w
      rw [hr] at this
      simp only [specFindOK, List.any_eq_true, Bool.and_eq_true, beq_iff_eq] at this
      obtain ⟨k, hk, ⟨_, he⟩, _⟩ := this
      obtain ⟨p, hp, s, _, _, l, _, rfl⟩ := (candAt_iff _ _ _ _ _ _ _).mp ((mem_specCands M cm 0 w k).mp hk)
      obtain ⟨h1, h2⟩ := mem_splits.mp hp
      exact ⟨p.1, p.2, h1, h2, by simp at he; omega⟩

end Scnr
