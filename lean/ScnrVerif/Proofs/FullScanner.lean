import ScnrVerif.Proofs.FullMode
import ScnrVerif.Proofs.Iter
import ScnrVerif.Props.C04
/-!
# The whole scanner, end to end (compiler + finder + iterator + modes)

`compileScanner ms` compiles every mode of a configuration (`compileFull`: mode automaton plus
lookahead automata, minimized), `scannerCfg ms` keeps names and transitions. For **every**
configuration with distinct token types per mode, every class function and every input:

* `scanner_finder_spec`: in every mode, at every remaining input, the finder of the compiled scanner
  reports a pattern-level trailing-context candidate (`PCand`: a non-empty prefix matched by a pattern
  of *that mode* whose lookahead condition holds on the rest) that maximises end + lookahead length
  and is listed first among those — or nothing iff no candidate exists;
* `scanner_end_to_end`: iterating the model of the crate from a fresh iterator yields exactly the
  reference scan `scanFrom` driven by that finder: take the reported token (absolute span, mode
  switch iff the token type has a transition in the current mode), else skip one character.
-/
namespace Scnr

structure CMode where
  name : List Nat
  pats : List CPat
  trans : List (Nat × Nat)
deriving Repr, Inhabited

def compileScanner (ms : List CMode) : List ModeDfa := ms.map fun m => compileFull m.pats

def scannerCfg (ms : List CMode) : List ModeCfg := ms.map fun m => ⟨m.name, m.trans⟩

/-- pattern-level verdict on a finder result `(token type, end)` for the remaining input `w` -/
def PFindOK (cm : Nat → Nat → Bool) (ps : List CPat) (w : List Nat) : Option (Nat × Nat) → Prop
  | none => ∀ k, ¬ PCand cm ps 0 w k
  | some (t, e) => ∃ k, PCand cm ps 0 w k ∧ k.tid = t ∧ k.endPos = e ∧
      ∀ k', PCand cm ps 0 w k' → k'.extent < k.extent ∨
        (k'.extent = k.extent ∧ (ps.map (·.tid)).idxOf k.tid ≤ (ps.map (·.tid)).idxOf k'.tid)

theorem scanner_finder_spec (ms : List CMode) (hn : ∀ md ∈ ms, (md.pats.map (·.tid)).Nodup)
    (cm : Nat → Nat → Bool) (m : Nat) (w : List Nat) :
    match ms[m]? with
    | none => modelFinder (compileScanner ms) cm m w = none
    | some md => PFindOK cm md.pats w (modelFinder (compileScanner ms) cm m w) := by
  cases hm : ms[m]? with
  | none =>
    simp only [modelFinder, compileScanner, List.getElem?_map, hm, Option.map_none]
  | some md =>
    have hmem : md ∈ ms := List.mem_of_getElem? hm
    have h := C04.end_to_end_lookahead md.pats (hn md hmem) cm w
    simp only [modelFinder, compileScanner, List.getElem?_map, hm, Option.map_some]
    cases hr : findFrom (compileFull md.pats) cm 0 w with
    | none => rw [hr] at h; exact h
    | some r => obtain ⟨t, e⟩ := r; rw [hr] at h; exact h

theorem scanner_end_to_end (ms : List CMode) (cm : Nat → Nat → Bool) (input : List Nat) (n : Nat)
    (hlen : input.length < n) :
    Iter.run (scannerCfg ms) (modelFinder (compileScanner ms) cm) n (Iter.new input) =
      scanFrom (scannerCfg ms) (modelFinder (compileScanner ms) cm) 0 input 0 := by
  rw [run_eq_scanFrom (scannerCfg ms) _ (modelFinder_ok _ cm) n (Iter.new input) (Iter.new_inv input)
    (by simpa [Iter.new] using hlen)]
  rfl

end Scnr
