import ScnrVerif.Model.Agree
import ScnrVerif.Proofs.CompileCorrect
/-!
# `agree` is sound: agreeing ASTs denote the same language; track A as a decision path for C02
-/
namespace Scnr

/-- two (class function, expression) pairs with the same language -/
def SameLang (cm1 cm2 : Nat → Nat → Bool) (a b : Re) : Prop := ∀ w, Matches cm1 a w ↔ Matches cm2 b w

theorem sameLang_cat {cm1 cm2 : Nat → Nat → Bool} {a a' b b' : Re} (h1 : SameLang cm1 cm2 a a') (h2 : SameLang cm1 cm2 b b') :
    SameLang cm1 cm2 (.cat a b) (.cat a' b') := by
  intro w
  rw [matches_cat_iff, matches_cat_iff]
  constructor
  · rintro ⟨u, v, rfl, ha, hb⟩; exact ⟨u, v, rfl, (h1 u).mp ha, (h2 v).mp hb⟩
  · rintro ⟨u, v, rfl, ha, hb⟩; exact ⟨u, v, rfl, (h1 u).mpr ha, (h2 v).mpr hb⟩

theorem sameLang_alt {cm1 cm2 : Nat → Nat → Bool} {a a' b b' : Re} (h1 : SameLang cm1 cm2 a a') (h2 : SameLang cm1 cm2 b b') :
    SameLang cm1 cm2 (.alt a b) (.alt a' b') := by
  intro w
  rw [matches_alt_iff, matches_alt_iff, h1 w, h2 w]

theorem star_mono {cm1 cm2 : Nat → Nat → Bool} {a a' : Re} (h : ∀ w, Matches cm1 a w → Matches cm2 a' w) :
    ∀ w, Matches cm1 (.star a) w → Matches cm2 (.star a') w := by
  intro w hw
  generalize hr : Re.star a = r at hw
  induction hw with
  | eps => cases hr
  | cls _ => cases hr
  | cat _ _ _ _ => cases hr
  | altL _ _ => cases hr
  | altR _ _ => cases hr
  | starNil => exact .starNil
  | starCons h1 _ _ ih2 =>
    cases hr
    exact .starCons (h _ h1) (ih2 rfl)

theorem sameLang_star {cm1 cm2 : Nat → Nat → Bool} {a a' : Re} (h : SameLang cm1 cm2 a a') :
    SameLang cm1 cm2 (.star a) (.star a') :=
  fun w => ⟨star_mono (fun u => (h u).mp) w, star_mono (fun u => (h u).mpr) w⟩

theorem sameLang_eps (cm1 cm2 : Nat → Nat → Bool) : SameLang cm1 cm2 .eps .eps := by
  intro w; rw [matches_eps_iff, matches_eps_iff]

theorem sameLang_pow {cm1 cm2 : Nat → Nat → Bool} {a a' : Re} (h : SameLang cm1 cm2 a a') (n : Nat) :
    SameLang cm1 cm2 (Re.pow a n) (Re.pow a' n) := by
  induction n with
  | zero => exact sameLang_eps cm1 cm2
  | succ n ih => exact sameLang_cat h ih

theorem sameLang_opt {cm1 cm2 : Nat → Nat → Bool} {a a' : Re} (h : SameLang cm1 cm2 a a') :
    SameLang cm1 cm2 (Re.opt a) (Re.opt a') := sameLang_alt h (sameLang_eps cm1 cm2)

theorem sameLang_eps_cat {cm1 cm2 : Nat → Nat → Bool} {a b : Re} (h : SameLang cm1 cm2 a b) :
    SameLang cm1 cm2 a (.cat .eps b) := by
  intro w
  rw [matches_cat_iff, h w]
  constructor
  · intro hb; exact ⟨[], w, rfl, .eps, hb⟩
  · rintro ⟨u, v, rfl, hu, hv⟩; rw [matches_eps_nil hu]; exact hv

theorem sameLang_cat_eps {cm1 cm2 : Nat → Nat → Bool} {a b : Re} (h : SameLang cm1 cm2 a b) :
    SameLang cm1 cm2 a (.cat b .eps) := by
  intro w
  rw [matches_cat_iff, h w]
  constructor
  · intro hb; exact ⟨w, [], (List.append_nil w).symm, hb, .eps⟩
  · rintro ⟨u, v, rfl, hu, hv⟩; rw [matches_eps_nil hv, List.append_nil]; exact hu

/-- pointwise `SameLang` -/
inductive AllSame (cm1 cm2 : Nat → Nat → Bool) : List Re → List Re → Prop where
  | nil : AllSame cm1 cm2 [] []
  | cons {x y : Re} {xs ys : List Re} : SameLang cm1 cm2 x y → AllSame cm1 cm2 xs ys → AllSame cm1 cm2 (x :: xs) (y :: ys)

theorem sameLang_catList {cm1 cm2 : Nat → Nat → Bool} : ∀ {xs ys : List Re},
    AllSame cm1 cm2 xs ys → SameLang cm1 cm2 (Re.catList xs) (Re.catList ys)
  | [], [], _ => sameLang_eps cm1 cm2
  | x :: xs, y :: ys, .cons h hs => by
    intro w
    rw [matches_catList_cons, matches_catList_cons]
    have ih := sameLang_catList hs
    constructor
    · rintro ⟨u, v, rfl, ha, hb⟩; exact ⟨u, v, rfl, (h u).mp ha, (ih v).mp hb⟩
    · rintro ⟨u, v, rfl, ha, hb⟩; exact ⟨u, v, rfl, (h u).mpr ha, (ih v).mpr hb⟩

theorem sameLang_altList {cm1 cm2 : Nat → Nat → Bool} : ∀ {xs ys : List Re},
    AllSame cm1 cm2 xs ys → SameLang cm1 cm2 (Re.altList xs) (Re.altList ys)
  | [], [], _ => fun w => ⟨fun h => absurd h matches_void, fun h => absurd h matches_void⟩
  | x :: xs, y :: ys, .cons h hs => by
    intro w
    rw [matches_altList_cons, matches_altList_cons, h w, sameLang_altList hs w]

/-! ### soundness of `agree` -/

theorem sameLang_leaf {T R : List (List (Nat × Nat))} {c c' : Nat} (h : (T.getD c [] == R.getD c' []) = true) :
    SameLang (cmT T) (cmT R) (.cls c) (.cls c') := by
  have he : T.getD c [] = R.getD c' [] := by simpa using h
  have hf : ∀ ch, cmT T c ch = cmT R c' ch := by intro ch; simp only [cmT, he]
  intro w
  constructor
  · intro hm
    cases hm with
    | cls hc => exact .cls (by rw [← hf]; exact hc)
  · intro hm
    cases hm with
    | cls hc => exact .cls (by rw [hf]; exact hc)

mutual
theorem agree_sound (T R : List (List (Nat × Nat))) : (a : CAst) → (r : Ast) → agree T R a r = true →
    SameLang (cmT T) (cmT R) a.toRe r.desugar
  | .empty, r, h => by
    cases r <;> simp [agree] at h
    simp only [CAst.toRe, Ast.desugar]; exact sameLang_eps _ _
  | .leaf c, r, h => by
    cases r <;> simp only [agree, Bool.false_eq_true] at h
    simp only [CAst.toRe, Ast.desugar]; exact sameLang_leaf h
  | .concat xs, r, h => by
    cases r <;> simp only [agree, Bool.false_eq_true] at h
    simp only [CAst.toRe, Ast.desugar]
    exact sameLang_catList (agreeList_sound T R xs _ h)
  | .alt [], r, h => by
    cases r <;> simp [agree] at h
  | .alt (x :: xs), r, h => by
    cases r with
    | alt ys =>
      cases ys with
      | nil => simp [agree] at h
      | cons y ys =>
        simp only [agree, Bool.and_eq_true] at h
        simp only [CAst.toRe, Ast.desugar, Ast.desugarList]
        exact sameLang_altList (.cons (agree_sound T R x y h.1) (agreeList_sound T R xs ys h.2))
    | _ => simp [agree] at h
  | .opt x, r, h => by
    cases r with
    | rep mn mx y =>
      cases mn with
      | zero =>
        cases mx with
        | none => simp [agree] at h
        | some k =>
          cases k with
          | zero => simp [agree] at h
          | succ k =>
            cases k with
            | zero =>
              have h' : agree T R x y = true := by simpa [agree] using h
              simp only [CAst.toRe, Ast.desugar, Re.pow]
              exact sameLang_eps_cat (sameLang_cat_eps (sameLang_opt (agree_sound T R x y h')))
            | succ k => simp [agree] at h
      | succ n => simp [agree] at h
    | _ => simp [agree] at h
  | .star x, r, h => by
    cases r with
    | rep mn mx y =>
      cases mn with
      | zero =>
        cases mx with
        | none =>
          simp only [agree] at h
          simp only [CAst.toRe, Ast.desugar, Re.pow]
          exact sameLang_eps_cat (sameLang_star (agree_sound T R x y h))
        | some k => simp [agree] at h
      | succ n => simp [agree] at h
    | _ => simp [agree] at h
  | .plus x, r, h => by
    cases r with
    | rep mn mx y =>
      cases mn with
      | zero => simp [agree] at h
      | succ n =>
        cases n with
        | zero =>
          cases mx with
          | none =>
            have h' : agree T R x y = true := by simpa [agree] using h
            simp only [CAst.toRe, Ast.desugar, Re.pow]
            have hs := agree_sound T R x y h'
            exact sameLang_cat (sameLang_cat_eps hs) (sameLang_star hs)
          | some k => simp [agree] at h
        | succ n => simp [agree] at h
    | _ => simp [agree] at h
  | .exactly n x, r, h => by
    cases r with
    | rep mn mx y =>
      cases mx with
      | none => simp [agree] at h
      | some k =>
        simp only [agree, Bool.and_eq_true, beq_iff_eq] at h
        obtain ⟨⟨rfl, rfl⟩, h3⟩ := h
        simp only [CAst.toRe, Ast.desugar, Nat.sub_self, Re.pow]
        exact sameLang_cat_eps (sameLang_pow (agree_sound T R x y h3) _)
    | _ => simp [agree] at h
  | .atLeast n x, r, h => by
    cases r with
    | rep mn mx y =>
      cases mx with
      | some k => simp [agree] at h
      | none =>
        simp only [agree, Bool.and_eq_true, beq_iff_eq] at h
        obtain ⟨rfl, h3⟩ := h
        simp only [CAst.toRe, Ast.desugar]
        have hs := agree_sound T R x y h3
        exact sameLang_cat (sameLang_pow hs _) (sameLang_star hs)
    | _ => simp [agree] at h
  | .bounded m n x, r, h => by
    cases r with
    | rep mn mx y =>
      cases mx with
      | none => simp [agree] at h
      | some k =>
        simp only [agree, Bool.and_eq_true, beq_iff_eq] at h
        obtain ⟨⟨rfl, rfl⟩, h3⟩ := h
        simp only [CAst.toRe, Ast.desugar]
        have hs := agree_sound T R x y h3
        exact sameLang_cat (sameLang_pow hs _) (sameLang_pow (sameLang_opt hs) _)
    | _ => simp [agree] at h
theorem agreeList_sound (T R : List (List (Nat × Nat))) : (xs : List CAst) → (ys : List Ast) →
    agreeList T R xs ys = true → AllSame (cmT T) (cmT R) (CAst.toReList xs) (Ast.desugarList ys)
  | [], ys, h => by
    cases ys with
    | nil => simp only [CAst.toReList, Ast.desugarList]; exact .nil
    | cons y ys => simp [agreeList] at h
  | x :: xs, ys, h => by
    cases ys with
    | nil => simp [agreeList] at h
    | cons y ys =>
      simp only [agreeList, Bool.and_eq_true] at h
      simp only [CAst.toReList, Ast.desugarList]
      exact .cons (agree_sound T R x y h.1) (agreeList_sound T R xs ys h.2)
end

/-! ### track A as a decision procedure -/

theorem reach_trans_congr {A B : Dfa} (ht : A.trans = B.trans) (cm : Nat → Nat → Bool) (w : List Nat) :
    ∀ S, reach A cm S w = reach B cm S w := by
  induction w with
  | nil => intro S; rfl
  | cons c w ih =>
    intro S
    have hh : hitsOf A cm c = hitsOf B cm c := by
      funext s; simp only [hitsOf, Dfa.outs, ht]
    have : stepStates A cm c S = stepStates B cm c S := by
      simp only [stepStates, hits, hh]
    simp only [reach, this, ih]

theorem acceptsTid_congr {A B : Dfa} (ht : A.trans = B.trans) (he : A.ends = B.ends) (cm : Nat → Nat → Bool)
    (w : List Nat) (t : Nat) : acceptsTid A cm w t ↔ acceptsTid B cm w t := by
  simp only [acceptsTid, reach_trans_congr ht, Dfa.isEnd, Dfa.tidOf, he]

theorem agreePats_sound (T R : List (List (Nat × Nat))) : ∀ (ps : List (Nat × CAst)) (rs : List (Nat × Ast)),
    agreePats T R ps rs = true → ∀ (t : Nat) (w : List Nat),
      (∃ q ∈ ps, q.1 = t ∧ Matches (cmT T) q.2.toRe w) ↔
        ∃ r, (t, r) ∈ rs.map (fun p => (p.1, p.2.desugar)) ∧ Matches (cmT R) r w
  | [], [], _, t, w => by simp
  | [], _ :: _, h, _, _ => by simp [agreePats] at h
  | _ :: _, [], h, _, _ => by simp [agreePats] at h
  | (t1, a) :: ps, (t2, r) :: rs, h, t, w => by
    simp only [agreePats, Bool.and_eq_true, beq_iff_eq] at h
    obtain ⟨⟨rfl, ha⟩, hrest⟩ := h
    have ih := agreePats_sound T R ps rs hrest t w
    have hs := agree_sound T R a r ha w
    simp only [List.mem_cons, exists_eq_or_imp, List.map_cons, Prod.mk.injEq]
    rw [ih, hs]
    constructor
    · rintro (⟨rfl, hm⟩ | ⟨r', hr', hm⟩)
      · exact ⟨_, .inl ⟨rfl, rfl⟩, hm⟩
      · exact ⟨r', .inr hr', hm⟩
    · rintro ⟨r', (⟨rfl, rfl⟩ | hr'), hm⟩
      · exact .inl ⟨rfl, hm⟩
      · exact .inr ⟨r', hr', hm⟩

/-- **decision by the compiler theorem**: if the compiled automaton of a mode is, as data, the
    automaton the compiler model produces for the mode's patterns, and the leaves of these patterns
    carry the tables of the corresponding reference leaves, then the compiled automaton accepts a
    word for a terminal iff the word is not empty and a reference pattern with that terminal
    matches it — for every word, without exploring the automaton -/
theorem trackA_decides (T R : List (List (Nat × Nat))) (A : Dfa) (ps : List (Nat × CAst)) (rs : List (Nat × Ast))
    (hA : A = compileMode ps) (hag : agreePats T R ps rs = true) (w : List Nat) (t : Nat) :
    acceptsTid A (cmT T) w t ↔
      w ≠ [] ∧ ∃ r, (t, r) ∈ rs.map (fun p => (p.1, p.2.desugar)) ∧ Matches (cmT R) r w := by
  rw [hA, compileMode_correct, agreePats_sound T R ps rs hag]

/-- the same for a lookahead automaton (compared on transitions and end states) -/
theorem trackA_decides_la (T R : List (List (Nat × Nat))) (A : Dfa) (a : CAst) (r : Ast)
    (ht : A.trans = (minimize (compileLaPre a)).trans) (he : A.ends = (minimize (compileLaPre a)).ends)
    (hag : agree T R a r = true) (w : List Nat) (t : Nat) :
    acceptsTid A (cmT T) w t ↔ w ≠ [] ∧ t = 0 ∧ Matches (cmT R) r.desugar w := by
  rw [acceptsTid_congr ht he, compileLa_correct, agree_sound T R a r hag w]

end Scnr
