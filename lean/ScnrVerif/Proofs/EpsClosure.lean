import ScnrVerif.Proofs.NfaSem
import ScnrVerif.Proofs.Equiv
import ScnrVerif.Proofs.Minimize
/-!
# Correctness of the ε-closure worklist of the NFA model (track A)

`Nfa.epsClosure n x` (the model of `Nfa::epsilon_closure`) contains exactly the states that are
ε-reachable from `x` (`Nfa.EpsReach`), for a well-formed NFA and a start state inside it. The fuel
`states.length + 1` of the model suffices by a pigeonhole argument: the worklist is duplicate-free
and only holds states of the NFA.
-/
namespace Scnr

/-! ## pigeonhole -/

/-- pigeonhole: a duplicate-free list inside the image of `{0..N-1}` under `f` has at most `N` elements -/
theorem nodup_length_le_of_image {α : Type} [DecidableEq α] (l : List α) (f : Nat → α) (N : Nat)
    (hnd : l.Nodup) (h : ∀ x ∈ l, ∃ q, q < N ∧ f q = x) : l.length ≤ N := by
  induction N generalizing l with
  | zero =>
    cases l with
    | nil => simp
    | cons a r =>
      obtain ⟨q, hq, _⟩ := h a (List.mem_cons_self)
      omega
  | succ N ih =>
    have hnd' : (l.erase (f N)).Nodup := hnd.erase (f N)
    have hb' : ∀ x ∈ l.erase (f N), ∃ q, q < N ∧ f q = x := by
      intro x hx
      have hx' := (hnd.mem_erase_iff).1 hx
      obtain ⟨q, hq, hfq⟩ := h x hx'.2
      refine ⟨q, ?_, hfq⟩
      have hne : q ≠ N := by
        intro e
        subst e
        exact hx'.1 hfq.symm
      omega
    have hlen := ih (l.erase (f N)) hnd' hb'
    have hle : l.length ≤ (l.erase (f N)).length + 1 := by
      rw [List.length_erase]
      split <;> omega
    omega

/-- pigeonhole: a duplicate-free list of numbers from an interval of length n has at most n elements -/
theorem nodup_length_le_of_bounded (l : List Nat) (lo n : Nat) (hnd : l.Nodup)
    (hb : ∀ x ∈ l, lo ≤ x ∧ x < lo + n) : l.length ≤ n := by
  apply nodup_length_le_of_image l (fun q => lo + q) n hnd
  intro x hx
  have := hb x hx
  exact ⟨x - lo, by omega, by show lo + (x - lo) = x; omega⟩

/-! ## ε-reachability -/

theorem epsReach_contains (n : Nfa) (h : n.WF) (x y : Nat) (hx : n.contains x = true)
    (hr : n.EpsReach x y) : n.contains y = true := by
  induction hr with
  | refl s => exact hx
  | step hs ht _ ih => exact ih (h.eps_in _ hs _ ht)

theorem epsReach_trans (n : Nfa) {a b c : Nat} (h1 : n.EpsReach a b) (h2 : n.EpsReach b c) :
    n.EpsReach a c := by
  induction h1 with
  | refl s => exact h2
  | step hs ht _ ih => exact Nfa.EpsReach.step hs ht (ih h2)

theorem epsReach_snoc (n : Nfa) {a b c : Nat} (h1 : n.EpsReach a b) (hb : n.contains b = true)
    (hc : c ∈ (n.state b).eps) : n.EpsReach a c :=
  epsReach_trans n h1 (Nfa.EpsReach.step hb hc (Nfa.EpsReach.refl c))

theorem path_nil_iff_epsReach (n : Nfa) (cm : Nat → Nat → Bool) (x y : Nat) :
    n.Path cm x [] y ↔ n.EpsReach x y := by
  constructor
  · intro hp
    generalize hw : ([] : List Nat) = w at hp
    induction hp with
    | nil s => exact Nfa.EpsReach.refl s
    | eps hs ht _ ih => exact Nfa.EpsReach.step hs ht (ih hw)
    | step _ _ _ _ _ => cases hw
  · intro hr
    induction hr with
    | refl s => exact Nfa.Path.nil s
    | step hs ht _ ih => exact Nfa.Path.eps hs ht ih

/-! ## `pushNew` only appends and keeps the list duplicate-free -/

theorem pushNew_nodup (acc : List Nat) (t : Nat) (h : acc.Nodup) : (pushNew acc t).Nodup := by
  unfold pushNew
  split
  · exact h
  · rename_i hc
    rw [List.nodup_append]
    refine ⟨h, by simp, ?_⟩
    intro a ha b hb
    have hb' : b = t := by simpa using hb
    subst hb'
    intro e
    subst e
    exact hc (by simpa using ha)

theorem foldl_pushNew_nodup (ts acc : List Nat) (h : acc.Nodup) : (ts.foldl pushNew acc).Nodup := by
  induction ts generalizing acc with
  | nil => exact h
  | cons t r ih => exact ih _ (pushNew_nodup acc t h)

theorem pushNew_prefix (acc : List Nat) (t : Nat) : ∃ e, pushNew acc t = acc ++ e := by
  unfold pushNew
  split
  · exact ⟨[], by simp⟩
  · exact ⟨[t], rfl⟩

theorem foldl_pushNew_prefix (ts acc : List Nat) : ∃ e, ts.foldl pushNew acc = acc ++ e := by
  induction ts generalizing acc with
  | nil => exact ⟨[], by simp⟩
  | cons t r ih =>
    obtain ⟨e1, h1⟩ := pushNew_prefix acc t
    obtain ⟨e2, h2⟩ := ih (pushNew acc t)
    exact ⟨e1 ++ e2, by rw [List.foldl_cons, h2, h1, List.append_assoc]⟩

/-! ## the worklist -/

/-- invariant of `closureLoop` started with `[x]` at index `0` -/
structure ClosureInv (n : Nfa) (x : Nat) (acc : List Nat) (i : Nat) : Prop where
  nodup : acc.Nodup
  reach : ∀ y ∈ acc, n.contains y = true ∧ n.EpsReach x y
  start : x ∈ acc
  closed : ∀ j, j < i → ∀ s, acc[j]? = some s → ∀ t ∈ (n.state s).eps, t ∈ acc

/-- what the result of the worklist satisfies -/
structure ClosureFinal (n : Nfa) (x : Nat) (L : List Nat) : Prop where
  reach : ∀ y ∈ L, n.EpsReach x y
  start : x ∈ L
  closed : ∀ s ∈ L, ∀ t ∈ (n.state s).eps, t ∈ L

theorem ClosureInv.length_le {n : Nfa} {x : Nat} {acc : List Nat} {i : Nat}
    (hi : ClosureInv n x acc i) : acc.length ≤ n.states.length := by
  apply nodup_length_le_of_bounded acc n.base n.states.length hi.nodup
  intro y hy
  have hc := (hi.reach y hy).1
  unfold Nfa.contains at hc
  rw [Bool.and_eq_true, decide_eq_true_eq, decide_eq_true_eq] at hc
  exact hc

theorem ClosureInv.final {n : Nfa} {x : Nat} {acc : List Nat} {i : Nat}
    (hi : ClosureInv n x acc i) (hlen : acc.length ≤ i) : ClosureFinal n x acc := by
  refine ⟨fun y hy => (hi.reach y hy).2, hi.start, ?_⟩
  intro s hs t ht
  obtain ⟨j, hj⟩ := List.mem_iff_getElem?.1 hs
  have hjl : j < acc.length := by
    apply Classical.byContradiction
    intro hn
    rw [List.getElem?_eq_none (by omega)] at hj
    cases hj
  exact hi.closed j (by omega) s hj t ht

theorem ClosureInv.step {n : Nfa} (h : n.WF) {x : Nat} {acc : List Nat} {i s : Nat}
    (hi : ClosureInv n x acc i) (hs : acc[i]? = some s) :
    ClosureInv n x ((n.state s).eps.foldl pushNew acc) (i + 1) := by
  have hsm : s ∈ acc := List.mem_iff_getElem?.2 ⟨i, hs⟩
  have hsr := hi.reach s hsm
  have hil : i < acc.length := by
    apply Classical.byContradiction
    intro hn
    rw [List.getElem?_eq_none (by omega)] at hs
    cases hs
  obtain ⟨e, he⟩ := foldl_pushNew_prefix (n.state s).eps acc
  refine ⟨foldl_pushNew_nodup _ _ hi.nodup, ?_, ?_, ?_⟩
  · intro y hy
    rcases (mem_foldl_pushNew' _ _ y).1 hy with hy | hy
    · exact hi.reach y hy
    · exact ⟨h.eps_in s hsr.1 y hy, epsReach_snoc n hsr.2 hsr.1 hy⟩
  · exact (mem_foldl_pushNew' _ _ x).2 (Or.inl hi.start)
  · intro j hj s' hs' t ht
    have hjl : j < acc.length := by omega
    have hs'' : acc[j]? = some s' := by
      rw [he, List.getElem?_append_left hjl] at hs'
      exact hs'
    by_cases hji : j = i
    · subst hji
      rw [hs] at hs''
      cases hs''
      exact (mem_foldl_pushNew' _ _ t).2 (Or.inr ht)
    · exact (mem_foldl_pushNew' _ _ t).2 (Or.inl (hi.closed j (by omega) s' hs'' t ht))

theorem closureLoop_final (n : Nfa) (h : n.WF) (x : Nat) (fuel : Nat) (acc : List Nat) (i : Nat)
    (hi : ClosureInv n x acc i) (hf : n.states.length < fuel + i) :
    ClosureFinal n x (n.closureLoop fuel acc i) := by
  induction fuel generalizing acc i with
  | zero =>
    have := hi.length_le
    exact hi.final (by omega)
  | succ fuel ih =>
    unfold Nfa.closureLoop
    split
    · rename_i hn
      have hl : acc.length ≤ i := by
        apply Classical.byContradiction
        intro hc
        have hlt : i < acc.length := by omega
        rw [List.getElem?_eq_getElem hlt] at hn
        cases hn
      exact hi.final hl
    · rename_i s hs
      exact ih _ _ (hi.step h hs) (by omega)

theorem closureInv_init (n : Nfa) (x : Nat) (hx : n.contains x = true) : ClosureInv n x [x] 0 := by
  refine ⟨by simp, ?_, by simp, ?_⟩
  · intro y hy
    have : y = x := by simpa using hy
    subst this
    exact ⟨hx, Nfa.EpsReach.refl y⟩
  · intro j hj
    omega

theorem ClosureFinal.complete {n : Nfa} {x : Nat} {L : List Nat} (hf : ClosureFinal n x L)
    {a b : Nat} (ha : a ∈ L) (hr : n.EpsReach a b) : b ∈ L := by
  induction hr with
  | refl s => exact ha
  | step _ ht _ ih => exact ih (hf.closed _ ha _ ht)

/-- the worklist computes exactly the ε-reachable states (the fuel `states.length + 1` suffices) -/
theorem mem_epsClosure (n : Nfa) (h : n.WF) (x : Nat) (hx : n.contains x = true) (y : Nat) :
    y ∈ n.epsClosure x ↔ n.EpsReach x y := by
  have hf := closureLoop_final n h x (n.states.length + 1) [x] 0 (closureInv_init n x hx) (by omega)
  unfold Nfa.epsClosure
  rw [mem_normNat]
  exact ⟨fun hy => hf.reach y hy, fun hr => hf.complete hf.start hr⟩

end Scnr
