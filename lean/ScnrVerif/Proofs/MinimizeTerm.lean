import ScnrVerif.Proofs.MinimizeInv
import ScnrVerif.Proofs.Lines
/-!
# The refinement loop reaches a fixpoint (track A)

With `fuel` = number of states the loop of the model always stops at a fixpoint: groups are
strictly sorted lists (`BTreeSet`s), an unsplit group is returned unchanged, every proper split
lengthens the partition, and a partition of `n` states into non-empty disjoint groups has at most
`n` groups. Hence `minimize_preserves_all`: no hypothesis about the computed partition remains.
-/
namespace Scnr

theorem strictSorted_iff_pairwise (l : List Nat) : StrictSorted l ↔ l.Pairwise (· < ·) := by
  induction l with
  | nil => simp [StrictSorted]
  | cons a r ih => simp only [StrictSorted, List.pairwise_cons, ih]

theorem strictSorted_nodup {l : List Nat} (h : StrictSorted l) : l.Nodup := by
  rw [strictSorted_iff_pairwise] at h
  exact h.imp (fun hab => Nat.ne_of_lt hab)

theorem nodup_map_of_inj_on {α β : Type} (f : α → β) (l : List α) (hnd : l.Nodup)
    (hinj : ∀ x ∈ l, ∀ y ∈ l, f x = f y → x = y) : (l.map f).Nodup := by
  induction l with
  | nil => simp
  | cons a r ih =>
    have h := List.nodup_cons.mp hnd
    simp only [List.map_cons, List.nodup_cons, List.mem_map, not_exists, not_and]
    refine ⟨?_, ih h.2 (fun x hx y hy => hinj x (List.mem_cons_of_mem _ hx) y (List.mem_cons_of_mem _ hy))⟩
    intro y hy heq
    have := hinj y (List.mem_cons_of_mem _ hy) a (by simp) heq
    subst this
    exact h.1 hy

/-! ## canonical lists are sorted -/

theorem insertBy_lt_sorted (x : Nat) (l : List Nat) (h : StrictSorted l) :
    StrictSorted (insertBy (fun a b => decide (a < b)) x l) := by
  induction l with
  | nil => exact ⟨by simp, trivial⟩
  | cons a r ih =>
    obtain ⟨ha, hr⟩ := h
    unfold insertBy
    by_cases h1 : x = a
    · simp only [h1, if_true]; exact ⟨ha, hr⟩
    · simp only [h1, if_false]
      by_cases h2 : x < a
      · simp only [h2, decide_true, if_true]
        refine ⟨?_, ha, hr⟩
        intro y hy
        rcases List.mem_cons.mp hy with rfl | hy'
        · exact h2
        · have := ha y hy'; omega
      · simp only [h2, decide_false, Bool.false_eq_true, if_false]
        refine ⟨?_, ih hr⟩
        intro y hy
        rcases (mem_insertBy _ x y r).mp hy with rfl | hy'
        · omega
        · exact ha y hy'

theorem normNat_sorted (l : List Nat) : StrictSorted (normNat l) := by
  unfold normNat normBy
  suffices ∀ acc, StrictSorted acc → StrictSorted (l.foldl (fun acc x => insertBy (fun a b => decide (a < b)) x acc) acc) from
    this [] trivial
  induction l with
  | nil => intro acc h; exact h
  | cons a r ih => intro acc h; exact ih _ (insertBy_lt_sorted a acc h)

/-! ## sortedness of the computed groups -/

theorem mapInv_sorted_insert (A : Dfa) (P : List (List Nat)) (m : SigMap) (s : Nat)
    (h : ∀ e ∈ m, StrictSorted e.2) : ∀ e ∈ insertSig (signature A P s) s m, StrictSorted e.2 := by
  unfold insertSig
  split
  · intro e he
    obtain ⟨e0, he0, rfl⟩ := List.mem_map.mp he
    split
    · exact normNat_sorted _
    · exact h e0 he0
  · intro e he
    rcases (mem_insertNew _ s m e).mp he with rfl | he'
    · exact ⟨by simp, trivial⟩
    · exact h e he'

theorem splitGroup_sorted (A : Dfa) (P : List (List Nat)) (g : List Nat) (hg : StrictSorted g) :
    ∀ p ∈ splitGroup A P g, StrictSorted p := by
  unfold splitGroup
  split
  · intro p hp; simp only [List.mem_singleton] at hp; subst hp; exact hg
  · intro p hp
    obtain ⟨e, he, rfl⟩ := List.mem_map.mp hp
    have : ∀ (l : List Nat) (m : SigMap), (∀ e ∈ m, StrictSorted e.2) →
        ∀ e ∈ l.foldl (fun m s => insertSig (signature A P s) s m) m, StrictSorted e.2 := by
      intro l
      induction l with
      | nil => intro m hm; exact hm
      | cons a r ih => intro m hm; exact ih _ (mapInv_sorted_insert A P m a hm)
    exact this g [] (by simp) e he

/-- the extended invariant: groups are strictly sorted, contain only states, and no group occurs twice -/
structure PartInv2 (A : Dfa) (P : List (List Nat)) : Prop extends PartInv A P where
  sorted : ∀ g ∈ P, StrictSorted g
  inRange : ∀ g ∈ P, ∀ s ∈ g, s < A.trans.length
  nodup : P.Nodup

theorem filter_range_sorted (n : Nat) (p : Nat → Bool) : StrictSorted ((List.range n).filter p) :=
  (strictSorted_iff_pairwise _).mpr (List.pairwise_lt_range.filter p)

theorem initialPartition_inv2 (A : Dfa) (hn : 0 < A.trans.length) (h0 : A.isEnd 0 = false) :
    PartInv2 A (initialPartition A) := by
  have hinv := initialPartition_inv A hn h0
  refine ⟨hinv, ?_, ?_, ?_⟩
  · intro g hg
    unfold initialPartition at hg
    rcases List.mem_cons.mp hg with rfl | hg'
    · exact filter_range_sorted _ _
    · obtain ⟨t, _, rfl⟩ := List.mem_map.mp hg'
      exact filter_range_sorted _ _
  · intro g hg s hs
    unfold initialPartition at hg
    rcases List.mem_cons.mp hg with rfl | hg'
    · exact List.mem_range.mp (List.mem_filter.mp hs).1
    · obtain ⟨t, _, rfl⟩ := List.mem_map.mp hg'
      exact List.mem_range.mp (List.mem_filter.mp hs).1
  · -- distinct groups: the non-accepting group differs from every terminal group, and the terminal
    -- groups of distinct terminals differ (all groups are non-empty)
    unfold initialPartition
    simp only
    rw [List.nodup_cons]
    constructor
    · intro hm
      obtain ⟨t, ht, heq⟩ := List.mem_map.mp hm
      have hne := hinv.nonempty _ (by unfold initialPartition; exact List.mem_cons_self)
      obtain ⟨s, hs⟩ := List.exists_mem_of_ne_nil _ hne
      have a := (List.mem_filter.mp hs).2
      rw [← heq] at hs
      have b := (List.mem_filter.mp hs).2
      simp only [Bool.not_eq_true', Bool.and_eq_true] at a b
      rw [a] at b; cases b.1
    · have hnd : (normNat (((List.range A.trans.length).filter A.isEnd).map A.tidOf)).Nodup :=
        strictSorted_nodup (normNat_sorted _)
      refine nodup_map_of_inj_on _ _ hnd ?_
      intro t ht t' ht' heq
      have hg : (List.range A.trans.length).filter (fun s => A.isEnd s && A.tidOf s == t) ∈ initialPartition A := by
        unfold initialPartition
        exact List.mem_cons_of_mem _ (List.mem_map.mpr ⟨t, ht, rfl⟩)
      obtain ⟨s, hs⟩ := List.exists_mem_of_ne_nil _ (hinv.nonempty _ hg)
      have a := (List.mem_filter.mp hs).2
      rw [heq] at hs
      have b := (List.mem_filter.mp hs).2
      simp only [Bool.and_eq_true, beq_iff_eq] at a b
      rw [← a.2, ← b.2]

theorem refine_inv2 (A : Dfa) (P : List (List Nat)) (h : PartInv2 A P) : PartInv2 A (refine A P) := by
  have hinv := refine_inv A P h.toPartInv
  refine ⟨hinv, ?_, ?_, ?_⟩
  · intro p hp
    unfold refine at hp
    obtain ⟨g, hg, hpg⟩ := List.mem_flatMap.mp hp
    exact splitGroup_sorted A P g (h.sorted g hg) p hpg
  · intro p hp s hs
    unfold refine at hp
    obtain ⟨g, hg, hpg⟩ := List.mem_flatMap.mp hp
    exact h.inRange g hg s ((splitGroup_spec A P g (h.nonempty g hg)).sub p hpg s hs)
  · -- no part occurs twice: within one split by `splitGroup_nodup`, across groups by disjointness
    unfold refine
    have : ∀ (L : List (List Nat)), (∀ g ∈ L, g ∈ P) → L.Nodup → (L.flatMap (splitGroup A P)).Nodup := by
      intro L
      induction L with
      | nil => intro _ _; simp
      | cons g L' ih =>
        intro hL hnd
        simp only [List.flatMap_cons]
        rw [List.nodup_append]
        have hnd' := List.nodup_cons.mp hnd
        refine ⟨splitGroup_nodup A P g, ih (fun x hx => hL x (List.mem_cons_of_mem _ hx)) hnd'.2, ?_⟩
        intro p hp q hq heq
        subst heq
        obtain ⟨g', hg', hpg'⟩ := List.mem_flatMap.mp hq
        have sg := splitGroup_spec A P g (h.nonempty g (hL g (by simp)))
        have sg' := splitGroup_spec A P g' (h.nonempty g' (hL g' (List.mem_cons_of_mem _ hg')))
        obtain ⟨s, hs⟩ := List.exists_mem_of_ne_nil _ (sg.nonempty p hp)
        have : g = g' := h.disjoint g (hL g (by simp)) g' (hL g' (List.mem_cons_of_mem _ hg')) s
          (sg.sub p hp s hs) (sg'.sub p hpg' s hs)
        subst this
        exact hnd'.1 hg'
    exact this P (fun g hg => hg) h.nodup

/-- an unsplit group comes back unchanged (groups are sorted sets) -/
theorem splitGroup_single (A : Dfa) (P : List (List Nat)) (g : List Nat) (hne : g ≠ []) (hs : StrictSorted g)
    (h1 : (splitGroup A P g).length = 1) : splitGroup A P g = [g] := by
  have sg := splitGroup_spec A P g hne
  have hsorted := splitGroup_sorted A P g hs
  match hf : splitGroup A P g, h1 with
  | [p], _ =>
    rw [hf] at sg hsorted
    have : p = g := by
      apply strictSorted_ext (hsorted p (by simp)) hs
      intro x
      constructor
      · exact sg.sub p (by simp) x
      · intro hx
        obtain ⟨q, hq, hxq⟩ := sg.all x hx
        simp only [List.mem_singleton] at hq
        subst hq; exact hxq
    rw [this]

theorem refine_length (A : Dfa) (P L : List (List Nat)) (hne : ∀ g ∈ L, g ≠ []) (hs : ∀ g ∈ L, StrictSorted g) :
    L.length ≤ (L.flatMap (splitGroup A P)).length ∧
    ((L.flatMap (splitGroup A P)).length = L.length → L.flatMap (splitGroup A P) = L) := by
  induction L with
  | nil => simp
  | cons g L' ih =>
    obtain ⟨i1, i2⟩ := ih (fun x hx => hne x (List.mem_cons_of_mem _ hx)) (fun x hx => hs x (List.mem_cons_of_mem _ hx))
    have sg := splitGroup_spec A P g (hne g (by simp))
    have hpos : 1 ≤ (splitGroup A P g).length := by
      obtain ⟨s, hsg⟩ := List.exists_mem_of_ne_nil _ (hne g (by simp))
      obtain ⟨p, hp, _⟩ := sg.all s hsg
      cases hf : splitGroup A P g with
      | nil => rw [hf] at hp; cases hp
      | cons a r => simp
    simp only [List.flatMap_cons, List.length_append, List.length_cons]
    refine ⟨by omega, ?_⟩
    intro heq
    have h1 : (splitGroup A P g).length = 1 := by omega
    have h2 : (L'.flatMap (splitGroup A P)).length = L'.length := by omega
    rw [splitGroup_single A P g (hne g (by simp)) (hs g (by simp)) h1, i2 h2]
    rfl

/-- a partition into non-empty disjoint duplicate-free groups of states has at most `n` groups -/
theorem partition_length_le (A : Dfa) (P : List (List Nat)) (h : PartInv2 A P) : P.length ≤ A.trans.length := by
  have hheads : (P.map (fun g => g.headD 0)).Nodup := by
    have : ∀ (L : List (List Nat)), (∀ g ∈ L, g ∈ P) → L.Nodup → (L.map (fun g => g.headD 0)).Nodup := by
      intro L
      induction L with
      | nil => intro _ _; simp
      | cons g L' ih =>
        intro hL hnd
        have hnd' := List.nodup_cons.mp hnd
        simp only [List.map_cons, List.nodup_cons, List.mem_map, not_exists, not_and]
        refine ⟨?_, ih (fun x hx => hL x (List.mem_cons_of_mem _ hx)) hnd'.2⟩
        intro g' hg' heq
        have hgP := hL g (by simp)
        have hg'P := hL g' (List.mem_cons_of_mem _ hg')
        have m1 : g.headD 0 ∈ g := by
          cases g with
          | nil => exact absurd rfl (h.nonempty [] hgP)
          | cons a r => simp
        have m2 : g'.headD 0 ∈ g' := by
          cases g' with
          | nil => exact absurd rfl (h.nonempty [] hg'P)
          | cons a r => simp
        rw [heq] at m2
        have : g = g' := h.disjoint g hgP g' hg'P _ m1 m2
        subst this
        exact hnd'.1 hg'
    exact this P (fun g hg => hg) h.nodup
  have hsub : P.map (fun g => g.headD 0) ⊆ List.range A.trans.length := by
    intro x hx
    obtain ⟨g, hg, rfl⟩ := List.mem_map.mp hx
    have : g.headD 0 ∈ g := by
      cases g with
      | nil => exact absurd rfl (h.nonempty [] hg)
      | cons a r => simp
    exact List.mem_range.mpr (h.inRange g hg _ this)
  have := hheads.length_le_of_subset hsub
  simpa using this

theorem refineLoop_inv2 (A : Dfa) (fuel : Nat) (P : List (List Nat)) (h : PartInv2 A P) :
    PartInv2 A (refineLoop A fuel P) := by
  induction fuel generalizing P with
  | zero => exact refine_inv2 A P h
  | succ f ih =>
    unfold refineLoop
    split
    · exact refine_inv2 A P h
    · exact ih _ (refine_inv2 A P h)

/-- **The loop stops at a fixpoint** when the fuel covers the possible growth of the partition. -/
theorem refineLoop_fixpoint (A : Dfa) (fuel : Nat) (P : List (List Nat)) (h : PartInv2 A P)
    (hf : A.trans.length ≤ P.length + fuel) :
    refine A (refineLoop A fuel P) = refineLoop A fuel P := by
  induction fuel generalizing P with
  | zero =>
    simp only [refineLoop]
    have hle := partition_length_le A P h
    have hle' := partition_length_le A (refine A P) (refine_inv2 A P h)
    obtain ⟨l1, l2⟩ := refine_length A P P h.nonempty h.sorted
    have heq : refine A P = P := l2 (by unfold refine at hle'; omega)
    rw [heq, heq]
  | succ f ih =>
    unfold refineLoop
    by_cases hfix : refine A P = P
    · simp only [hfix, if_true]
    · simp only [hfix, if_false]
      obtain ⟨l1, l2⟩ := refine_length A P P h.nonempty h.sorted
      have hlt : P.length < (refine A P).length := by
        unfold refine
        rcases Nat.lt_or_ge P.length (P.flatMap (splitGroup A P)).length with hl | hl
        · exact hl
        · exact absurd (l2 (by omega)) hfix
      exact ih _ (refine_inv2 A P h) (by omega)

/-- **Track A, all automata, no hypothesis on the computed partition**: the model of
    `Minimizer::minimize` preserves acceptance of every word for every terminal, for every automaton
    whose transition targets are states and whose start state is not accepting. -/
theorem minimize_preserves_all (A : Dfa) (hn : 0 < A.trans.length) (h0 : A.isEnd 0 = false)
    (htar : ∀ s cc t, (cc, t) ∈ A.outs s → t < A.trans.length)
    (cm : Nat → Nat → Bool) (w : List Nat) (t : Nat) :
    acceptsTid (minimize A) cm w t ↔ acceptsTid A cm w t :=
  minimize_preserves_of_fixpoint A hn h0 htar
    (refineLoop_fixpoint A _ _ (initialPartition_inv2 A hn h0) (by omega)) cm w t

/-- the minimized automaton never has more states than the original -/
theorem minimize_states_le (A : Dfa) (hn : 0 < A.trans.length) (h0 : A.isEnd 0 = false) :
    (minimize A).trans.length ≤ A.trans.length := by
  have h2 := refineLoop_inv2 A A.trans.length _ (initialPartition_inv2 A hn h0)
  have := partition_length_le A _ h2
  simp only [minimize, createFromPartition, List.length_map, startFirst, List.length_append]
  have hlen : ∀ (l : List (List Nat)) (p : List Nat → Bool),
      (l.filter p).length + (l.filter (fun g => !p g)).length = l.length := by
    intro l p
    induction l with
    | nil => rfl
    | cons a r ih => cases hp : p a <;> simp [List.filter, hp] <;> omega
  have := hlen (refineLoop A A.trans.length (initialPartition A)) (fun g => g.contains 0)
  unfold finalPartition at *
  omega

end Scnr
