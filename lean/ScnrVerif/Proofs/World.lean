import ScnrVerif.Model.World
/-!
# Cache transparency, isolation of iterators, interleaving independence
-/
namespace Scnr

/-! ## association lists -/

theorem lookup_assocSet_self {α : Type} (l : List (Nat × α)) (k : Nat) (v : α) :
    (assocSet l k v).lookup k = some v := by
  simp [assocSet, List.lookup]

theorem lookup_filter_ne {α : Type} (l : List (Nat × α)) (k j : Nat) (h : j ≠ k) :
    (l.filter (fun p => p.1 != k)).lookup j = l.lookup j := by
  induction l with
  | nil => rfl
  | cons p r ih =>
    obtain ⟨a, b⟩ := p
    by_cases hak : a = k
    · subst hak
      have hja : (j == a) = false := by simp [h]
      simp only [List.filter, bne_self_eq_false, List.lookup, hja]
      exact ih
    · have : (a != k) = true := by simp [hak]
      simp only [List.filter, this, List.lookup]
      cases hj : (j == a) with
      | true => rfl
      | false => exact ih

theorem lookup_assocSet_ne {α : Type} (l : List (Nat × α)) (k j : Nat) (v : α) (h : j ≠ k) :
    (assocSet l k v).lookup j = l.lookup j := by
  have hjk : (j == k) = false := by simp [h]
  simp only [assocSet, List.lookup, hjk]
  exact lookup_filter_ne l k j h

theorem lookup_filter_self {α : Type} (l : List (Nat × α)) (k : Nat) :
    (l.filter (fun p => p.1 != k)).lookup k = none := by
  induction l with
  | nil => rfl
  | cons p r ih =>
    obtain ⟨a, b⟩ := p
    by_cases hak : a = k
    · subst hak; simp only [List.filter, bne_self_eq_false]; exact ih
    · have : (a != k) = true := by simp [hak]
      have hka : (k == a) = false := by simp; exact fun h => hak h.symm
      simp only [List.filter, this, List.lookup, hka]
      exact ih

/-! ## C13: the cache is transparent -/

/-- Every cache entry is the compilation of its key. -/
def CacheInv (compile : CfgId → Option CompId) (cache : List (CfgId × CompId)) : Prop :=
  ∀ p ∈ cache, compile p.1 = some p.2

theorem lookup_of_inv {compile} {cache : List (CfgId × CompId)} (h : CacheInv compile cache) {cfg c}
    (hl : cache.lookup cfg = some c) : compile cfg = some c := by
  induction cache with
  | nil => cases hl
  | cons p r ih =>
    obtain ⟨a, b⟩ := p
    simp only [List.lookup] at hl
    cases hab : (cfg == a) with
    | true =>
      simp only [hab] at hl
      have : cfg = a := by simpa using hab
      subst this
      cases hl
      exact h (cfg, c) (by simp)
    | false =>
      simp only [hab] at hl
      exact ih (fun q hq => h q (List.mem_cons_of_mem _ hq)) hl

/-- `get` returns what the uncached compilation returns, keeps the invariant, and a failing build
    leaves the cache unchanged. -/
theorem cacheGet_spec (compile : CfgId → Option CompId) (cache : List (CfgId × CompId))
    (h : CacheInv compile cache) (cfg : CfgId) :
    (cacheGet compile cache cfg).2 = compile cfg ∧ CacheInv compile (cacheGet compile cache cfg).1 ∧
    (compile cfg = none → (cacheGet compile cache cfg).1 = cache) := by
  unfold cacheGet
  cases hl : cache.lookup cfg with
  | some c =>
    simp only
    exact ⟨(lookup_of_inv h hl).symm, h, fun _ => trivial⟩
  | none =>
    simp only
    cases hc : compile cfg with
    | some c =>
      simp only
      refine ⟨trivial, ?_, fun h' => by cases h'⟩
      intro p hp
      rcases List.mem_cons.mp hp with rfl | hp
      · exact hc
      · exact h p hp
    | none => exact ⟨rfl, h, fun _ => rfl⟩

/-- A cached build and an uncached build of the same configuration give the same result and the
    same scanner, whatever was built before. -/
theorem build_eq_uncached (compile cfgOf findOf) (w : World) (h : CacheInv compile w.cache) (s : Nat) (cfg : CfgId) :
    (World.step compile cfgOf findOf w (.build s cfg)).2 =
      (World.step compile cfgOf findOf w (.buildUncached s cfg)).2 ∧
    (World.step compile cfgOf findOf w (.build s cfg)).1.scanners =
      (World.step compile cfgOf findOf w (.buildUncached s cfg)).1.scanners ∧
    (World.step compile cfgOf findOf w (.build s cfg)).1.iters = w.iters ∧
    CacheInv compile (World.step compile cfgOf findOf w (.build s cfg)).1.cache := by
  obtain ⟨h1, h2, _⟩ := cacheGet_spec compile w.cache h cfg
  simp only [World.step]
  generalize hg : cacheGet compile w.cache cfg = g at h1 h2
  obtain ⟨cache', r⟩ := g
  simp only at h1 h2
  subst h1
  cases hc : compile cfg with
  | some c => simp [h2]
  | none => simp [h2]

theorem step_cacheInv (compile cfgOf findOf) (w : World) (h : CacheInv compile w.cache) (o : Op) :
    CacheInv compile (World.step compile cfgOf findOf w o).1.cache := by
  cases o with
  | build s cfg => exact (build_eq_uncached compile cfgOf findOf w h s cfg).2.2.2
  | buildUncached s cfg =>
    simp only [World.step]; cases compile cfg <;> exact h
  | scannerSetMode s m => simp only [World.step]; cases w.scanners.lookup s <;> exact h
  | scannerCurrentMode s => simp only [World.step]; cases w.scanners.lookup s <;> exact h
  | findIter s k input => simp only [World.step]; cases w.scanners.lookup s <;> exact h
  | iter k o => simp only [World.step]; cases w.iters.lookup k <;> exact h
  | dropIter k => exact h

theorem run_cacheInv (compile cfgOf findOf) (w : World) (h : CacheInv compile w.cache) (ops : List Op) :
    CacheInv compile (World.run compile cfgOf findOf w ops).1.cache := by
  induction ops generalizing w with
  | nil => exact h
  | cons o os ih =>
    simp only [World.run]
    exact ih _ (step_cacheInv compile cfgOf findOf w h o)

/-! ## C12 / C14: operations of one owner are independent of everybody else's -/

/-- slots used by an operation: `(scanner slots, iterator slots)` -/
def Op.scannerSlot : Op → Option Nat
  | .build s _ | .buildUncached s _ | .scannerSetMode s _ | .scannerCurrentMode s | .findIter s _ _ => some s
  | _ => none

def Op.iterSlot : Op → Option Nat
  | .findIter _ k _ | .iter k _ | .dropIter k => some k
  | _ => none

/-- the operation only uses slots for which `own` holds -/
def Op.within (own : Nat → Bool) (o : Op) : Bool :=
  (match o.scannerSlot with | some s => own s | none => true) &&
  (match o.iterSlot with | some k => own k | none => true)

/-- Two worlds look the same to the owner of the slots `own`: same owned scanners and iterators;
    the caches may differ but both only hold genuine compilations. -/
structure SimOwn (compile : CfgId → Option CompId) (own : Nat → Bool) (w w' : World) : Prop where
  inv : CacheInv compile w.cache
  inv' : CacheInv compile w'.cache
  sc : ∀ s, own s = true → w.scanners.lookup s = w'.scanners.lookup s
  it : ∀ k, own k = true → w.iters.lookup k = w'.iters.lookup k

theorem step_mine (compile cfgOf findOf) (own : Nat → Bool) (w w' : World) (h : SimOwn compile own w w')
    (o : Op) (ho : o.within own = true) :
    (World.step compile cfgOf findOf w o).2 = (World.step compile cfgOf findOf w' o).2 ∧
    SimOwn compile own (World.step compile cfgOf findOf w o).1 (World.step compile cfgOf findOf w' o).1 := by
  have i1 := step_cacheInv compile cfgOf findOf w h.inv o
  have i2 := step_cacheInv compile cfgOf findOf w' h.inv' o
  cases o with
  | build s cfg =>
    simp only [Op.within, Op.scannerSlot, Op.iterSlot, Bool.and_true] at ho
    obtain ⟨a1, a2, a3, _⟩ := build_eq_uncached compile cfgOf findOf w h.inv s cfg
    obtain ⟨b1, b2, b3, _⟩ := build_eq_uncached compile cfgOf findOf w' h.inv' s cfg
    refine ⟨?_, ⟨i1, i2, ?_, ?_⟩⟩
    · rw [a1, b1]; simp only [World.step]; cases compile cfg <;> rfl
    · intro s' hs'
      rw [a2, b2]; simp only [World.step]
      cases compile cfg with
      | none => exact h.sc s' hs'
      | some c =>
        simp only
        by_cases e : s' = s
        · subst e; rw [lookup_assocSet_self, lookup_assocSet_self]
        · rw [lookup_assocSet_ne _ _ _ _ e, lookup_assocSet_ne _ _ _ _ e]; exact h.sc s' hs'
    · intro k hk; rw [a3, b3]; exact h.it k hk
  | buildUncached s cfg =>
    simp only [World.step]
    cases compile cfg with
    | none => exact ⟨rfl, h⟩
    | some c =>
      refine ⟨rfl, ⟨h.inv, h.inv', ?_, h.it⟩⟩
      intro s' hs'
      simp only
      by_cases e : s' = s
      · subst e; rw [lookup_assocSet_self, lookup_assocSet_self]
      · rw [lookup_assocSet_ne _ _ _ _ e, lookup_assocSet_ne _ _ _ _ e]; exact h.sc s' hs'
  | scannerSetMode s m =>
    simp only [Op.within, Op.scannerSlot, Op.iterSlot, Bool.and_true] at ho
    simp only [World.step]
    rw [← h.sc s ho]
    cases hl : w.scanners.lookup s with
    | none => exact ⟨rfl, h⟩
    | some sc =>
      refine ⟨rfl, ⟨h.inv, h.inv', ?_, h.it⟩⟩
      intro s' hs'
      simp only
      by_cases e : s' = s
      · subst e; rw [lookup_assocSet_self, lookup_assocSet_self]
      · rw [lookup_assocSet_ne _ _ _ _ e, lookup_assocSet_ne _ _ _ _ e]; exact h.sc s' hs'
  | scannerCurrentMode s =>
    simp only [Op.within, Op.scannerSlot, Op.iterSlot, Bool.and_true] at ho
    simp only [World.step]
    rw [← h.sc s ho]
    cases w.scanners.lookup s <;> exact ⟨rfl, h⟩
  | findIter s k input =>
    simp only [Op.within, Op.scannerSlot, Op.iterSlot, Bool.and_eq_true] at ho
    simp only [World.step]
    rw [← h.sc s ho.1]
    cases hl : w.scanners.lookup s with
    | none => exact ⟨rfl, h⟩
    | some sc =>
      refine ⟨rfl, ⟨h.inv, h.inv', h.sc, ?_⟩⟩
      intro k' hk'
      simp only
      by_cases e : k' = k
      · subst e; rw [lookup_assocSet_self, lookup_assocSet_self]
      · rw [lookup_assocSet_ne _ _ _ _ e, lookup_assocSet_ne _ _ _ _ e]; exact h.it k' hk'
  | iter k op =>
    simp only [Op.within, Op.scannerSlot, Op.iterSlot, Bool.true_and] at ho
    simp only [World.step]
    rw [← h.it k ho]
    cases hl : w.iters.lookup k with
    | none => exact ⟨rfl, h⟩
    | some st =>
      refine ⟨rfl, ⟨h.inv, h.inv', h.sc, ?_⟩⟩
      intro k' hk'
      simp only
      by_cases e : k' = k
      · subst e; rw [lookup_assocSet_self, lookup_assocSet_self]
      · rw [lookup_assocSet_ne _ _ _ _ e, lookup_assocSet_ne _ _ _ _ e]; exact h.it k' hk'
  | dropIter k =>
    simp only [World.step]
    refine ⟨trivial, ⟨h.inv, h.inv', h.sc, ?_⟩⟩
    intro k' hk'
    simp only
    by_cases e : k' = k
    · subst e; rw [lookup_filter_self, lookup_filter_self]
    · rw [lookup_filter_ne _ _ _ e, lookup_filter_ne _ _ _ e]; exact h.it k' hk'

theorem step_other (compile cfgOf findOf) (own : Nat → Bool) (w w' : World) (h : SimOwn compile own w w')
    (o : Op) (ho : o.within (fun x => !own x) = true) :
    SimOwn compile own (World.step compile cfgOf findOf w o).1 w' := by
  have i1 := step_cacheInv compile cfgOf findOf w h.inv o
  refine ⟨i1, h.inv', ?_, ?_⟩
  · intro s' hs'
    rw [← h.sc s' hs']
    cases o with
    | build s cfg =>
      simp only [Op.within, Op.scannerSlot, Op.iterSlot, Bool.and_true, Bool.not_eq_true'] at ho
      have e : s' ≠ s := by intro e; subst e; rw [hs'] at ho; cases ho
      simp only [World.step]
      cases cacheGet compile w.cache cfg with
      | mk c r => cases r with
        | none => rfl
        | some c' => simp only; exact lookup_assocSet_ne _ _ _ _ e
    | buildUncached s cfg =>
      simp only [Op.within, Op.scannerSlot, Op.iterSlot, Bool.and_true, Bool.not_eq_true'] at ho
      have e : s' ≠ s := by intro e; subst e; rw [hs'] at ho; cases ho
      simp only [World.step]
      cases compile cfg with
      | none => rfl
      | some c => simp only; exact lookup_assocSet_ne _ _ _ _ e
    | scannerSetMode s m =>
      simp only [Op.within, Op.scannerSlot, Op.iterSlot, Bool.and_true, Bool.not_eq_true'] at ho
      have e : s' ≠ s := by intro e; subst e; rw [hs'] at ho; cases ho
      simp only [World.step]
      cases w.scanners.lookup s with
      | none => rfl
      | some sc => simp only; exact lookup_assocSet_ne _ _ _ _ e
    | scannerCurrentMode s => simp only [World.step]; cases w.scanners.lookup s <;> rfl
    | findIter s k input => simp only [World.step]; cases w.scanners.lookup s <;> rfl
    | iter k op => simp only [World.step]; cases w.iters.lookup k <;> rfl
    | dropIter k => rfl
  · intro k' hk'
    rw [← h.it k' hk']
    cases o with
    | build s cfg =>
      simp only [World.step]
      cases cacheGet compile w.cache cfg with
      | mk c r => cases r <;> rfl
    | buildUncached s cfg => simp only [World.step]; cases compile cfg <;> rfl
    | scannerSetMode s m => simp only [World.step]; cases w.scanners.lookup s <;> rfl
    | scannerCurrentMode s => simp only [World.step]; cases w.scanners.lookup s <;> rfl
    | findIter s k input =>
      simp only [Op.within, Op.scannerSlot, Op.iterSlot, Bool.and_eq_true, Bool.not_eq_true'] at ho
      have e : k' ≠ k := by intro e; subst e; rw [hk'] at ho; cases ho.2
      simp only [World.step]
      cases w.scanners.lookup s with
      | none => rfl
      | some sc => simp only; exact lookup_assocSet_ne _ _ _ _ e
    | iter k op =>
      simp only [Op.within, Op.scannerSlot, Op.iterSlot, Bool.true_and, Bool.not_eq_true'] at ho
      have e : k' ≠ k := by intro e; subst e; rw [hk'] at ho; cases ho
      simp only [World.step]
      cases w.iters.lookup k with
      | none => rfl
      | some st => simp only; exact lookup_assocSet_ne _ _ _ _ e
    | dropIter k =>
      simp only [Op.within, Op.scannerSlot, Op.iterSlot, Bool.true_and, Bool.not_eq_true'] at ho
      have e : k' ≠ k := by intro e; subst e; rw [hk'] at ho; cases ho
      simp only [World.step]
      exact lookup_filter_ne _ _ _ e

/-- Outputs of the owner's operations in a history (in order). -/
def outputsOf (own : Nat → Bool) : List Op → List Out → List Out
  | o :: os, r :: rs => if o.within own then r :: outputsOf own os rs else outputsOf own os rs
  | _, _ => []

/-- **Interleaving independence**: in any interleaving of the owner's operations with operations
    that only use other slots, the owner observes exactly the outputs of its own operations run
    alone. -/
theorem interleaving_independent (compile cfgOf findOf) (own : Nat → Bool) (ops : List Op)
    (hops : ∀ o ∈ ops, o.within own = true ∨ o.within (fun x => !own x) = true)
    (w w' : World) (h : SimOwn compile own w w') :
    outputsOf own ops (World.run compile cfgOf findOf w ops).2 =
      (World.run compile cfgOf findOf w' (ops.filter (·.within own))).2 := by
  induction ops generalizing w w' with
  | nil => rfl
  | cons o os ih =>
    simp only [World.run]
    by_cases hm : o.within own = true
    · obtain ⟨e, hs⟩ := step_mine compile cfgOf findOf own w w' h o hm
      simp only [outputsOf, hm, if_true, List.filter, World.run]
      rw [e, ih (fun x hx => hops x (List.mem_cons_of_mem _ hx)) _ _ hs]
    · have ho := (hops o (by simp)).resolve_left hm
      have hs := step_other compile cfgOf findOf own w w' h o ho
      have hmf : o.within own = false := by simpa using hm
      simp only [outputsOf, hmf, List.filter]
      exact ih (fun x hx => hops x (List.mem_cons_of_mem _ hx)) _ _ hs

end Scnr

namespace Scnr

/-! ## C12: an iterator only depends on its scanner's compilation, its input and its own calls -/

/-- operations that can influence iterator `k`: its own calls, its creation and drop, and builds
    (which decide the compilation a later `find_iter` clones) -/
def affectsIter (k : Nat) : Op → Bool
  | .findIter _ j _ => j == k
  | .iter j _ => j == k
  | .dropIter j => j == k
  | .build _ _ => true
  | .buildUncached _ _ => true
  | .scannerSetMode _ _ => false
  | .scannerCurrentMode _ => false

def isIterCall (k : Nat) : Op → Bool
  | .iter j _ => j == k
  | _ => false

structure SimIt (compile : CfgId → Option CompId) (k : Nat) (w w' : World) : Prop where
  inv : CacheInv compile w.cache
  inv' : CacheInv compile w'.cache
  comp : ∀ s, (w.scanners.lookup s).map (·.comp) = (w'.scanners.lookup s).map (·.comp)
  it : w.iters.lookup k = w'.iters.lookup k

theorem map_comp_assocSet (l l' : List (Nat × ScannerSt)) (s s' : Nat) (v v' : ScannerSt)
    (hv : v.comp = v'.comp)
    (h : (l.lookup s').map (·.comp) = (l'.lookup s').map (·.comp)) :
    ((assocSet l s v).lookup s').map (·.comp) = ((assocSet l' s v').lookup s').map (·.comp) := by
  by_cases e : s' = s
  · subst e; rw [lookup_assocSet_self, lookup_assocSet_self]; simp [hv]
  · rw [lookup_assocSet_ne _ _ _ _ e, lookup_assocSet_ne _ _ _ _ e]; exact h

theorem step_affecting (compile cfgOf findOf) (k : Nat) (w w' : World) (h : SimIt compile k w w')
    (o : Op) (ho : affectsIter k o = true) :
    (isIterCall k o = true →
      (World.step compile cfgOf findOf w o).2 = (World.step compile cfgOf findOf w' o).2) ∧
    SimIt compile k (World.step compile cfgOf findOf w o).1 (World.step compile cfgOf findOf w' o).1 := by
  have i1 := step_cacheInv compile cfgOf findOf w h.inv o
  have i2 := step_cacheInv compile cfgOf findOf w' h.inv' o
  cases o with
  | build s cfg =>
    obtain ⟨_, a2, a3, _⟩ := build_eq_uncached compile cfgOf findOf w h.inv s cfg
    obtain ⟨_, b2, b3, _⟩ := build_eq_uncached compile cfgOf findOf w' h.inv' s cfg
    refine ⟨fun hc => by simp [isIterCall] at hc, ⟨i1, i2, ?_, ?_⟩⟩
    · intro s'
      rw [a2, b2]; simp only [World.step]
      cases compile cfg with
      | none => exact h.comp s'
      | some c => exact map_comp_assocSet _ _ s s' _ _ rfl (h.comp s')
    · rw [a3, b3]; exact h.it
  | buildUncached s cfg =>
    refine ⟨fun hc => by simp [isIterCall] at hc, ?_⟩
    simp only [World.step]
    cases compile cfg with
    | none => exact h
    | some c => exact ⟨h.inv, h.inv', fun s' => map_comp_assocSet _ _ s s' _ _ rfl (h.comp s'), h.it⟩
  | scannerSetMode s m => simp [affectsIter] at ho
  | scannerCurrentMode s => simp [affectsIter] at ho
  | findIter s j input =>
    simp only [affectsIter, beq_iff_eq] at ho
    subst ho
    refine ⟨fun hc => by simp [isIterCall] at hc, ?_⟩
    simp only [World.step]
    have hc := h.comp s
    cases hl : w.scanners.lookup s with
    | none =>
      rw [hl] at hc
      cases hl' : w'.scanners.lookup s with
      | none => exact h
      | some sc' => rw [hl'] at hc; simp at hc
    | some sc =>
      rw [hl] at hc
      cases hl' : w'.scanners.lookup s with
      | none => rw [hl'] at hc; simp at hc
      | some sc' =>
        rw [hl'] at hc
        simp only [Option.map_some, Option.some.injEq] at hc
        refine ⟨h.inv, h.inv', h.comp, ?_⟩
        simp only
        rw [lookup_assocSet_self, lookup_assocSet_self, hc]
  | iter j op =>
    simp only [affectsIter, beq_iff_eq] at ho
    subst ho
    simp only [World.step]
    rw [← h.it]
    cases hl : w.iters.lookup j with
    | none => exact ⟨fun _ => rfl, h⟩
    | some st =>
      refine ⟨fun _ => rfl, ⟨h.inv, h.inv', h.comp, ?_⟩⟩
      simp only
      rw [lookup_assocSet_self, lookup_assocSet_self]
  | dropIter j =>
    simp only [affectsIter, beq_iff_eq] at ho
    subst ho
    refine ⟨fun hc => by simp [isIterCall] at hc, ⟨h.inv, h.inv', h.comp, ?_⟩⟩
    simp only [World.step]
    rw [lookup_filter_self, lookup_filter_self]

theorem step_not_affecting (compile cfgOf findOf) (k : Nat) (w w' : World) (h : SimIt compile k w w')
    (o : Op) (ho : affectsIter k o = false) :
    SimIt compile k (World.step compile cfgOf findOf w o).1 w' := by
  have i1 := step_cacheInv compile cfgOf findOf w h.inv o
  cases o with
  | build s cfg => simp [affectsIter] at ho
  | buildUncached s cfg => simp [affectsIter] at ho
  | scannerSetMode s m =>
    simp only [World.step]
    cases hl : w.scanners.lookup s with
    | none => exact h
    | some sc =>
      refine ⟨h.inv, h.inv', ?_, h.it⟩
      intro s'
      simp only
      rw [← h.comp s']
      by_cases e : s' = s
      · subst e; rw [lookup_assocSet_self, hl]; rfl
      · rw [lookup_assocSet_ne _ _ _ _ e]
  | scannerCurrentMode s => simp only [World.step]; cases w.scanners.lookup s <;> exact h
  | findIter s j input =>
    simp only [affectsIter, beq_eq_false_iff_ne, ne_eq] at ho
    simp only [World.step]
    cases w.scanners.lookup s with
    | none => exact h
    | some sc =>
      refine ⟨h.inv, h.inv', h.comp, ?_⟩
      simp only
      rw [lookup_assocSet_ne _ _ _ _ (fun e => ho e.symm)]; exact h.it
  | iter j op =>
    simp only [affectsIter, beq_eq_false_iff_ne, ne_eq] at ho
    simp only [World.step]
    cases w.iters.lookup j with
    | none => exact h
    | some st =>
      refine ⟨h.inv, h.inv', h.comp, ?_⟩
      simp only
      rw [lookup_assocSet_ne _ _ _ _ (fun e => ho e.symm)]; exact h.it
  | dropIter j =>
    simp only [affectsIter, beq_eq_false_iff_ne, ne_eq] at ho
    refine ⟨h.inv, h.inv', h.comp, ?_⟩
    simp only [World.step]
    rw [lookup_filter_ne _ _ _ (fun e => ho e.symm)]; exact h.it

def outputsOfIter (k : Nat) : List Op → List Out → List Out
  | o :: os, r :: rs => if isIterCall k o then r :: outputsOfIter k os rs else outputsOfIter k os rs
  | _, _ => []

/-- **Isolation**: what iterator `k` returns in any history equals what it returns in the history
    with every operation on other iterators and every `set_mode/current_mode` on scanners removed. -/
theorem iterator_isolated (compile cfgOf findOf) (k : Nat) (ops : List Op) (w w' : World)
    (h : SimIt compile k w w') :
    outputsOfIter k ops (World.run compile cfgOf findOf w ops).2 =
      outputsOfIter k (ops.filter (affectsIter k))
        (World.run compile cfgOf findOf w' (ops.filter (affectsIter k))).2 := by
  induction ops generalizing w w' with
  | nil => rfl
  | cons o os ih =>
    simp only [World.run]
    by_cases ha : affectsIter k o = true
    · obtain ⟨e, hs⟩ := step_affecting compile cfgOf findOf k w w' h o ha
      simp only [List.filter, ha, World.run, outputsOfIter]
      by_cases hc : isIterCall k o = true
      · simp only [hc, if_true]; rw [e hc, ih _ _ hs]
      · simp only [hc]; exact ih _ _ hs
    · have ha' : affectsIter k o = false := by simpa using ha
      have hs := step_not_affecting compile cfgOf findOf k w w' h o ha'
      have hc : isIterCall k o = false := by
        cases o <;> simp_all [affectsIter, isIterCall]
      simp only [List.filter, ha', outputsOfIter, hc]
      exact ih _ _ hs

end Scnr
