import ScnrVerif.Proofs.Registry
import ScnrVerif.Proofs.FullScanner
/-!
# From pattern ASTs with class *keys* to tokens: registry + compiler + finder

`assignScanner ms` runs the class registry over all modes of a configuration whose AST leaves are
keys (equality classes of `ComparableAst`) and returns the configuration with registry ids plus the
registry. `whole_scanner_from_keys`: under the class function of that registry, the finder of the
compiled scanner follows, in every mode, the pattern-level trailing-context rule of the *key-level*
patterns under `sem` (the set each key denotes, C08) — for every configuration and every input.
-/
namespace Scnr

def assignScanner (ms : List CMode) : List CMode × List Nat :=
  (List.zipWith (fun (m : CMode) ps => { m with pats := ps }) ms (assignModes (ms.map (·.pats)) []).1,
    (assignModes (ms.map (·.pats)) []).2)

theorem pfindOK_transfer {cm sem : Nat → Nat → Bool} {ps' ps : List CPat}
    (htid : ps'.map (·.tid) = ps.map (·.tid))
    (hc : ∀ i0 w k, PCand cm ps' i0 w k ↔ PCand sem ps i0 w k) (w : List Nat) (r : Option (Nat × Nat))
    (h : PFindOK cm ps' w r) : PFindOK sem ps w r := by
  cases r with
  | none => intro k hk; exact h k ((hc 0 w k).mpr hk)
  | some te =>
    obtain ⟨t, e⟩ := te
    obtain ⟨k, hk, ht, he, hall⟩ := h
    refine ⟨k, (hc 0 w k).mp hk, ht, he, ?_⟩
    intro k' hk'
    have := hall k' ((hc 0 w k').mpr hk')
    rw [htid] at this
    exact this

theorem whole_scanner_from_keys (ms : List CMode) (hn : ∀ md ∈ ms, (md.pats.map (·.tid)).Nodup)
    (sem : Nat → Nat → Bool) (m : Nat) (w : List Nat) :
    match ms[m]? with
    | none => modelFinder (compileScanner (assignScanner ms).1) (regCm (assignScanner ms).2 sem) m w = none
    | some md => PFindOK sem md.pats w
        (modelFinder (compileScanner (assignScanner ms).1) (regCm (assignScanner ms).2 sem) m w) := by
  have hlen : (assignModes (ms.map (·.pats)) []).1.length = ms.length := by
    have := (assignModes_spec (ms.map (·.pats)) [] List.nodup_nil).2.2.1
    simpa using this
  cases hm : ms[m]? with
  | none =>
    have hge : ms.length ≤ m := by
      rcases Nat.lt_or_ge m ms.length with h | h
      · rw [List.getElem?_eq_getElem h] at hm; cases hm
      · exact h
    simp only [modelFinder, compileScanner, assignScanner, List.getElem?_map]
    have : (List.zipWith (fun (m : CMode) ps => { m with pats := ps }) ms
        (assignModes (ms.map (·.pats)) []).1)[m]? = none := by
      apply List.getElem?_eq_none
      simp only [List.length_zipWith, hlen]; omega
    simp [this]
  | some md =>
    have hmp : (ms.map (·.pats))[m]? = some md.pats := by simp [List.getElem?_map, hm]
    obtain ⟨ps', hps', htid, _, hc⟩ := registry_mode_correct (ms.map (·.pats)) sem m md.pats hmp
    have hz : (assignScanner ms).1[m]? = some { md with pats := ps' } := by
      simp only [assignScanner, List.getElem?_zipWith, hm, hps']
    have hn' : ∀ md' ∈ (assignScanner ms).1, (md'.pats.map (·.tid)).Nodup := by
      intro md' hmd'
      obtain ⟨j, hj, hget⟩ := List.getElem_of_mem hmd'
      have hj' : j < ms.length := by
        simp only [assignScanner, List.length_zipWith, hlen] at hj; omega
      have hjm : ms[j]? = some ms[j] := List.getElem?_eq_getElem hj'
      have hmpj : (ms.map (·.pats))[j]? = some ms[j].pats := by simp [List.getElem?_map, hjm]
      obtain ⟨psj, hpsj, htidj, _, _⟩ := registry_mode_correct (ms.map (·.pats)) sem j ms[j].pats hmpj
      have : (assignScanner ms).1[j]? = some { ms[j] with pats := psj } := by
        simp only [assignScanner, List.getElem?_zipWith, hjm, hpsj]
      rw [List.getElem?_eq_getElem hj, hget] at this
      have hmd : md' = { ms[j] with pats := psj } := Option.some.inj this
      rw [hmd]
      simp only
      rw [htidj]
      exact hn ms[j] (List.getElem_mem hj')
    have h := scanner_finder_spec (assignScanner ms).1 hn' (regCm (assignScanner ms).2 sem) m w
    rw [hz] at h
    simp only at h
    exact pfindOK_transfer htid hc w _ h

end Scnr
