import ScnrVerif.Proofs.Thompson
/-!
# The start state of a Thompson NFA has no incoming edges

`Nfa.StartFresh n`: no ε-edge and no class transition of a state of `n` leads to `n.start`.
Proved for every `thompson a` (`thompson_start_fresh`) and preserved by `shift` (`shift_start_fresh`).
-/
namespace Scnr

namespace Nfa

/-- the edges of a state of a well-formed NFA never lead to a state outside of it -/
theorem wf_avoid {n : Nfa} (hn : n.WF) {s x : Nat} (hs : n.contains s = true) (hx : n.contains x = false) :
    x ∉ (n.state s).eps ∧ ∀ p ∈ (n.state s).trans, p.2 ≠ x := by
  refine ⟨fun h => ?_, fun p hp h => ?_⟩
  · have := hn.eps_in _ hs _ h
    rw [hx] at this; cases this
  · have := hn.trans_in _ hs _ hp
    rw [h, hx] at this; cases this

theorem startFresh_of0 {r : Nfa} (h0 : r.base = 0)
    (h : ∀ s, s < r.states.length → r.start ∉ (r.state s).eps ∧ ∀ p ∈ (r.state s).trans, p.2 ≠ r.start) :
    r.StartFresh :=
  fun s hs => h s ((contains0 h0 s).mp hs)

theorem not_contains0 {n : Nfa} (h0 : n.base = 0) {x : Nat} (hx : n.states.length ≤ x) : n.contains x = false := by
  rw [Bool.eq_false_iff, Ne, contains0 h0]; omega

theorem not_shift_contains0 {b : Nfa} (hb0 : b.base = 0) {k x : Nat} (hx : x < k ∨ k + b.states.length ≤ x) :
    (b.shift k).contains x = false := by
  rw [Bool.eq_false_iff, Ne, shift_contains0 hb0]; omega

theorem avoid_nil (x : Nat) :
    x ∉ (⟨[], []⟩ : NState).eps ∧ ∀ p ∈ (⟨[], []⟩ : NState).trans, p.2 ≠ x :=
  ⟨fun h => (by cases h), fun p hp => (by cases hp)⟩

theorem avoid_one {x t : Nat} (h : t ≠ x) :
    x ∉ (⟨[t], []⟩ : NState).eps ∧ ∀ p ∈ (⟨[t], []⟩ : NState).trans, p.2 ≠ x := by
  refine ⟨fun hm => ?_, fun p hp => by cases hp⟩
  have hm' : x ∈ [t] := hm
  rw [List.mem_singleton] at hm'
  exact h hm'.symm

theorem avoid_two {x t u : Nat} (h1 : t ≠ x) (h2 : u ≠ x) :
    x ∉ (⟨[t, u], []⟩ : NState).eps ∧ ∀ p ∈ (⟨[t, u], []⟩ : NState).trans, p.2 ≠ x := by
  refine ⟨fun hm => ?_, fun p hp => by cases hp⟩
  have hm' : x ∈ [t, u] := hm
  simp only [List.mem_cons, List.not_mem_nil, or_false] at hm'
  rcases hm' with rfl | rfl
  · exact h1 rfl
  · exact h2 rfl

/-! ### the empty automaton and the leaf -/

theorem empty_start_fresh : Nfa.empty.StartFresh := by
  refine startFresh_of0 rfl ?_
  intro s hs
  have : s = 0 := by simp only [Nfa.empty, List.length_singleton] at hs; omega
  subst this
  exact avoid_nil _

/-! ### concatenation -/

theorem concat_start_fresh_ne {a b : Nfa} (ha : a.WF) (ha0 : a.base = 0) (hb : b.WF) (hb0 : b.base = 0)
    (hne : a.isEmpty = false) (hsa : a.StartFresh) : (a.concat b).StartFresh := by
  have hf := fin_lt ha ha0
  have hst := start_lt ha ha0
  have hbs := start_lt hb hb0
  have hb' := shift_wf b a.states.length hb
  have hr0 : (a.concat b).base = 0 := by rw [concat_eq a b ha0 hne]
  have hrs : (a.concat b).start = a.start := by rw [concat_eq a b ha0 hne]
  refine startFresh_of0 hr0 ?_
  intro s hs
  rw [concat_len ha0 hne] at hs
  rw [hrs]
  by_cases hsl : s < a.states.length
  · by_cases hsf : s = a.fin
    · subst hsf
      rw [concat_state_fin ha ha0 hne]
      exact avoid_one (by omega)
    · rw [concat_state_left ha0 hne hsl hsf]
      exact hsa s ((contains0 ha0 s).mpr hsl)
  · have hsb : (b.shift a.states.length).contains s = true := (shift_contains0 hb0 _ s).mpr ⟨by omega, hs⟩
    rw [concat_state_right ha ha0 hb0 hne (by omega)]
    exact wf_avoid hb' hsb (not_shift_contains0 hb0 (.inl hst))

theorem concat_start_fresh {a b : Nfa} (ha : a.WF) (ha0 : a.base = 0) (hb : b.WF) (hb0 : b.base = 0)
    (hsa : a.StartFresh) (hsb : b.StartFresh) : (a.concat b).StartFresh := by
  cases hne : a.isEmpty with
  | true => rw [concat_of_isEmpty hne ha0 hb0]; exact hsb
  | false => exact concat_start_fresh_ne ha ha0 hb hb0 hne hsa

theorem repeatConcat_start_fresh {acc x : Nfa} (ha : acc.WF) (ha0 : acc.base = 0) (hx : x.WF) (hx0 : x.base = 0)
    (hsa : acc.StartFresh) (hsx : x.StartFresh) (k : Nat) : (repeatConcat acc x k).StartFresh := by
  induction k generalizing acc with
  | zero => exact hsa
  | succ k ih =>
    exact ih (concat_wf ha ha0 hx hx0) (concat_base ha0) (concat_start_fresh ha ha0 hx hx0 hsa hsx)

/-! ### `?`, `+`, `*` -/

theorem zeroOrOne_start_fresh {a : Nfa} (ha : a.WF) (ha0 : a.base = 0) : a.zeroOrOne.StartFresh := by
  have hf := fin_lt ha ha0
  have hst := start_lt ha ha0
  refine startFresh_of0 (zeroOrOne_base ha0) ?_
  intro s hs
  rw [zeroOrOne_len ha0] at hs
  rw [zeroOrOne_start ha0]
  by_cases hsl : s < a.states.length
  · rw [zeroOrOne_state_old ha0 hsl]
    exact wf_avoid ha ((contains0 ha0 s).mpr hsl) (not_contains0 ha0 (Nat.le_refl _))
  · have : s = a.states.length := by omega
    subst this
    rw [zeroOrOne_state_start ha0]
    exact avoid_two (by omega) (by omega)

theorem oneOrMore_start_fresh {a : Nfa} (ha : a.WF) (ha0 : a.base = 0) : a.oneOrMore.StartFresh := by
  have hf := fin_lt ha ha0
  have hst := start_lt ha ha0
  refine startFresh_of0 (oneOrMore_base ha0) ?_
  intro s hs
  rw [oneOrMore_len ha0] at hs
  rw [oneOrMore_start ha0]
  by_cases hsl : s < a.states.length
  · by_cases hsf : s = a.fin
    · subst hsf
      rw [oneOrMore_state_afin ha ha0]
      exact avoid_two (by omega) (by omega)
    · rw [oneOrMore_state_old ha0 hsl hsf]
      exact wf_avoid ha ((contains0 ha0 s).mpr hsl) (not_contains0 ha0 (Nat.le_refl _))
  · by_cases hs1 : s = a.states.length
    · subst hs1
      rw [oneOrMore_state_start ha ha0]
      exact avoid_one (by omega)
    · have : s = a.states.length + 1 := by omega
      subst this
      rw [oneOrMore_state_end ha ha0]
      exact avoid_nil _

theorem zeroOrMore_start_fresh {a : Nfa} (ha : a.WF) (ha0 : a.base = 0) : a.zeroOrMore.StartFresh := by
  have hf := fin_lt ha ha0
  have hst := start_lt ha ha0
  refine startFresh_of0 (zeroOrMore_base ha0) ?_
  intro s hs
  rw [zeroOrMore_len ha0] at hs
  rw [zeroOrMore_start ha0]
  by_cases hsl : s < a.states.length
  · by_cases hsf : s = a.fin
    · subst hsf
      rw [zeroOrMore_state_afin ha ha0]
      exact avoid_two (by omega) (by omega)
    · rw [zeroOrMore_state_old ha0 hsl hsf]
      exact wf_avoid ha ((contains0 ha0 s).mpr hsl) (not_contains0 ha0 (Nat.le_refl _))
  · by_cases hs1 : s = a.states.length
    · subst hs1
      rw [zeroOrMore_state_start ha ha0]
      exact avoid_two (by omega) (by omega)
    · have : s = a.states.length + 1 := by omega
      subst this
      rw [zeroOrMore_state_end ha ha0]
      exact avoid_nil _

/-! ### alternation -/

theorem alternation_start_fresh {a b : Nfa} (ha : a.WF) (ha0 : a.base = 0) (hb : b.WF) (hb0 : b.base = 0) :
    (a.alternation b).StartFresh := by
  have hf := fin_lt ha ha0
  have hst := start_lt ha ha0
  have hbf := fin_lt hb hb0
  have hbs := start_lt hb hb0
  have hb' := shift_wf b a.states.length hb
  refine startFresh_of0 (alternation_base ha0) ?_
  intro s hs
  rw [alternation_len ha0] at hs
  rw [alternation_start ha0]
  by_cases hsl : s < a.states.length
  · by_cases hsf : s = a.fin
    · subst hsf
      rw [alternation_state_afin ha ha0]
      exact avoid_one (by omega)
    · rw [alternation_state_left ha0 hsl hsf]
      exact wf_avoid ha ((contains0 ha0 s).mpr hsl) (not_contains0 ha0 (by omega))
  · by_cases hsb : s < a.states.length + b.states.length
    · by_cases hsf : s = b.fin + a.states.length
      · subst hsf
        rw [alternation_state_bfin ha ha0 hb hb0]
        exact avoid_one (by omega)
      · rw [alternation_state_right ha ha0 hb0 (by omega) hsb hsf]
        exact wf_avoid hb' ((shift_contains0 hb0 _ s).mpr ⟨by omega, hsb⟩)
          (not_shift_contains0 hb0 (.inr (Nat.le_refl _)))
    · by_cases hs1 : s = a.states.length + b.states.length
      · subst hs1
        rw [alternation_state_start ha ha0 hb hb0]
        exact avoid_two (by omega) (by omega)
      · have : s = a.states.length + b.states.length + 1 := by omega
        subst this
        rw [alternation_state_end ha ha0 hb hb0]
        exact avoid_nil _

end Nfa

/-! ### shifting -/

theorem shift_start_fresh (n : Nfa) (k : Nat) (h : n.StartFresh) : (n.shift k).StartFresh := by
  intro s hs
  obtain ⟨s', rfl, hs'⟩ := Nfa.shift_contains' n k s hs
  obtain ⟨h1, h2⟩ := h s' hs'
  show n.start + k ∉ ((n.shift k).state (s' + k)).eps ∧
    ∀ p ∈ ((n.shift k).state (s' + k)).trans, p.2 ≠ n.start + k
  rw [Nfa.shift_state]
  refine ⟨fun hm => ?_, fun p hp hpe => ?_⟩
  · simp only [Nfa.shiftState, List.mem_map] at hm
    obtain ⟨t, ht, hte⟩ := hm
    have : t = n.start := by omega
    subst this
    exact h1 ht
  · simp only [Nfa.shiftState, List.mem_map] at hp
    obtain ⟨p', hp', rfl⟩ := hp
    have hpe' : p'.2 + k = n.start + k := hpe
    exact h2 p' hp' (by omega)

/-! ### the induction over the AST -/

theorem leaf_start_fresh (c : Nat) : (thompson (.leaf c)).StartFresh := by
  rw [thompson_leaf]
  refine Nfa.startFresh_of0 rfl ?_
  intro s hs
  match s, hs with
  | 0, _ =>
    refine ⟨fun h => (by cases h), fun p hp => ?_⟩
    have hp' : p ∈ [(c, 1)] := hp
    rw [List.mem_singleton] at hp'
    subst hp'
    show (1 : Nat) ≠ 0
    omega
  | 1, _ => exact Nfa.avoid_nil _
  | n + 2, h => simp only [List.length_cons, List.length_nil] at h; omega

theorem thompsonConcat_start_fresh (xs : List CAst) (hxs : ∀ x ∈ xs, (thompson x).StartFresh) (acc : Nfa)
    (ha : acc.WF) (ha0 : acc.base = 0) (hsa : acc.StartFresh) : (thompsonConcat acc xs).StartFresh := by
  induction xs generalizing acc with
  | nil => rw [thompsonConcat]; exact hsa
  | cons x xs ih =>
    obtain ⟨hx, hx0⟩ := thompson_wf x
    rw [thompsonConcat]
    exact ih (fun y hy => hxs y (List.mem_cons_of_mem _ hy)) (acc.concat (thompson x))
      (Nfa.concat_wf ha ha0 hx hx0) (Nfa.concat_base ha0)
      (Nfa.concat_start_fresh ha ha0 hx hx0 hsa (hxs x List.mem_cons_self))

theorem thompsonAlt_start_fresh (xs : List CAst) (acc : Nfa)
    (ha : acc.WF) (ha0 : acc.base = 0) (hsa : acc.StartFresh) : (thompsonAlt acc xs).StartFresh := by
  induction xs generalizing acc with
  | nil => rw [thompsonAlt]; exact hsa
  | cons x xs ih =>
    obtain ⟨hx, hx0⟩ := thompson_wf x
    rw [thompsonAlt]
    exact ih (acc.alternation (thompson x)) (Nfa.alternation_wf ha ha0 hx hx0) (Nfa.alternation_base ha0)
      (Nfa.alternation_start_fresh ha ha0 hx hx0)

mutual
theorem thompson_start_fresh : (a : CAst) → (thompson a).StartFresh
  | .empty => by rw [thompson]; exact Nfa.empty_start_fresh
  | .leaf c => leaf_start_fresh c
  | .concat xs => by
    rw [thompson]
    exact thompsonConcat_start_fresh xs (thompson_start_fresh_list xs) Nfa.empty Nfa.empty_wf rfl
      Nfa.empty_start_fresh
  | .alt [] => by rw [thompson]; exact Nfa.empty_start_fresh
  | .alt (x :: xs) => by
    rw [thompson]
    exact thompsonAlt_start_fresh xs (thompson x) (thompson_wf x).1 (thompson_wf x).2 (thompson_start_fresh x)
  | .opt x => by
    rw [thompson]; exact Nfa.zeroOrOne_start_fresh (thompson_wf x).1 (thompson_wf x).2
  | .star x => by
    rw [thompson]; exact Nfa.zeroOrMore_start_fresh (thompson_wf x).1 (thompson_wf x).2
  | .plus x => by
    rw [thompson]; exact Nfa.oneOrMore_start_fresh (thompson_wf x).1 (thompson_wf x).2
  | .exactly n x => by
    rw [thompson]
    exact Nfa.repeatConcat_start_fresh Nfa.empty_wf rfl (thompson_wf x).1 (thompson_wf x).2
      Nfa.empty_start_fresh (thompson_start_fresh x) n
  | .atLeast n x => by
    rw [thompson]
    obtain ⟨hx1, hx0⟩ := thompson_wf x
    obtain ⟨h1, h2⟩ := Nfa.repeatConcat_wf Nfa.empty_wf rfl hx1 hx0 n
    exact Nfa.concat_start_fresh h1 h2 (Nfa.zeroOrMore_wf hx1 hx0) (Nfa.zeroOrMore_base hx0)
      (Nfa.repeatConcat_start_fresh Nfa.empty_wf rfl hx1 hx0 Nfa.empty_start_fresh (thompson_start_fresh x) n)
      (Nfa.zeroOrMore_start_fresh hx1 hx0)
  | .bounded m n x => by
    rw [thompson]
    obtain ⟨hx1, hx0⟩ := thompson_wf x
    obtain ⟨h1, h2⟩ := Nfa.repeatConcat_wf Nfa.empty_wf rfl hx1 hx0 m
    exact Nfa.repeatConcat_start_fresh h1 h2 (Nfa.zeroOrOne_wf hx1 hx0) (Nfa.zeroOrOne_base hx0)
      (Nfa.repeatConcat_start_fresh Nfa.empty_wf rfl hx1 hx0 Nfa.empty_start_fresh (thompson_start_fresh x) m)
      (Nfa.zeroOrOne_start_fresh hx1 hx0) (n - m)
theorem thompson_start_fresh_list : (xs : List CAst) → ∀ y ∈ xs, (thompson y).StartFresh
  | [] => fun _ h => nomatch h
  | x :: xs => fun y hy =>
    (List.mem_cons.mp hy).elim (fun h => h ▸ thompson_start_fresh x) (fun h => thompson_start_fresh_list xs y h)
end

end Scnr
