import ScnrVerif.Model.Regex
/-!
# Partial derivatives are sound and complete for `Matches`
-/
namespace Scnr

theorem matches_eps_nil {cm : Nat → Nat → Bool} {w : List Nat} (h : Matches cm .eps w) : w = [] := by
  cases h; rfl

theorem nullable_of_matches_nil {cm : Nat → Nat → Bool} {r : Re} {w : List Nat} (h : Matches cm r w) (hw : w = []) :
    r.nullable = true := by
  induction h with
  | eps => rfl
  | cls _ => cases hw
  | cat _ _ iha ihb =>
    have := List.append_eq_nil_iff.mp hw
    simp [Re.nullable, iha this.1, ihb this.2]
  | altL _ ih => simp [Re.nullable, ih hw]
  | altR _ ih => simp [Re.nullable, ih hw]
  | starNil => rfl
  | starCons _ _ _ _ => rfl

theorem matches_nil_of_nullable {cm : Nat → Nat → Bool} {r : Re} (h : r.nullable = true) : Matches cm r [] := by
  induction r with
  | void => simp [Re.nullable] at h
  | eps => exact .eps
  | cls _ => simp [Re.nullable] at h
  | cat a b iha ihb =>
    simp only [Re.nullable, Bool.and_eq_true] at h
    exact (List.append_nil ([] : List Nat)) ▸ Matches.cat (iha h.1) (ihb h.2)
  | alt a b iha ihb =>
    simp only [Re.nullable, Bool.or_eq_true] at h
    rcases h with h | h
    · exact .altL (iha h)
    · exact .altR (ihb h)
  | star a _ => exact .starNil

theorem nullable_iff {cm : Nat → Nat → Bool} {r : Re} : r.nullable = true ↔ Matches cm r [] :=
  ⟨matches_nil_of_nullable, fun h => nullable_of_matches_nil h rfl⟩

theorem matches_seq {cm : Nat → Nat → Bool} {a b : Re} {w : List Nat} :
    Matches cm (Re.seq a b) w ↔ Matches cm (.cat a b) w := by
  cases a with
  | eps =>
    simp only [Re.seq]
    constructor
    · intro h; exact (List.nil_append w) ▸ Matches.cat .eps h
    · intro h
      cases h with
      | cat ha hb => rw [matches_eps_nil ha]; exact hb
  | void => exact Iff.rfl
  | cls _ => exact Iff.rfl
  | cat _ _ => exact Iff.rfl
  | alt _ _ => exact Iff.rfl
  | star _ => exact Iff.rfl

theorem pderiv_sound {cm : Nat → Nat → Bool} {c : Nat} {r r' : Re} {w : List Nat}
    (hm : r' ∈ pderiv cm c r) (h : Matches cm r' w) : Matches cm r (c :: w) := by
  induction r generalizing r' w with
  | void => simp [pderiv] at hm
  | eps => simp [pderiv] at hm
  | cls id =>
    simp only [pderiv] at hm
    by_cases hc : cm id c = true
    · simp only [hc, if_true, List.mem_singleton] at hm
      subst hm
      rw [matches_eps_nil h]
      exact .cls hc
    · simp [hc] at hm
  | cat a b iha ihb =>
    simp only [pderiv, List.mem_append, List.mem_map] at hm
    rcases hm with ⟨a', ha', rfl⟩ | hm
    · have := matches_seq.mp h
      cases this with
      | cat hu hv => exact Matches.cat (iha ha' hu) hv
    · by_cases hn : a.nullable = true
      · simp only [hn, if_true] at hm
        exact (List.nil_append (c :: w)) ▸ Matches.cat (matches_nil_of_nullable hn) (ihb hm h)
      · simp [hn] at hm
  | alt a b iha ihb =>
    simp only [pderiv, List.mem_append] at hm
    rcases hm with hm | hm
    · exact .altL (iha hm h)
    · exact .altR (ihb hm h)
  | star a iha =>
    simp only [pderiv, List.mem_map] at hm
    obtain ⟨a', ha', rfl⟩ := hm
    have := matches_seq.mp h
    cases this with
    | cat hu hv => exact Matches.starCons (iha ha' hu) hv

theorem pderiv_complete {cm : Nat → Nat → Bool} {c : Nat} {r : Re} {w x : List Nat}
    (h : Matches cm r x) (hx : x = c :: w) : ∃ r' ∈ pderiv cm c r, Matches cm r' w := by
  induction h generalizing c w with
  | eps => cases hx
  | @cls id c' hc =>
    simp only [List.cons.injEq] at hx
    obtain ⟨rfl, rfl⟩ := hx
    exact ⟨.eps, by simp [pderiv, hc], .eps⟩
  | @cat a b u v ha hb iha ihb =>
    cases u with
    | nil =>
      simp only [List.nil_append] at hx
      obtain ⟨r', hr', hm⟩ := ihb hx
      refine ⟨r', ?_, hm⟩
      simp only [pderiv, List.mem_append]
      right
      simp [nullable_of_matches_nil ha rfl, hr']
    | cons c' u' =>
      simp only [List.cons_append, List.cons.injEq] at hx
      obtain ⟨rfl, rfl⟩ := hx
      obtain ⟨a', ha', hm⟩ := iha rfl
      refine ⟨Re.seq a' b, ?_, matches_seq.mpr (Matches.cat hm hb)⟩
      simp only [pderiv, List.mem_append, List.mem_map]
      exact Or.inl ⟨a', ha', rfl⟩
  | altL _ ih =>
    obtain ⟨r', hr', hm⟩ := ih hx
    exact ⟨r', by simp [pderiv, hr'], hm⟩
  | altR _ ih =>
    obtain ⟨r', hr', hm⟩ := ih hx
    exact ⟨r', by simp [pderiv, hr'], hm⟩
  | starNil => cases hx
  | @starCons a u v ha hs iha ihs =>
    cases u with
    | nil =>
      simp only [List.nil_append] at hx
      exact ihs hx
    | cons c' u' =>
      simp only [List.cons_append, List.cons.injEq] at hx
      obtain ⟨rfl, rfl⟩ := hx
      obtain ⟨a', ha', hm⟩ := iha rfl
      refine ⟨Re.seq a' (.star a), ?_, matches_seq.mpr (Matches.cat hm hs)⟩
      simp only [pderiv, List.mem_map]
      exact ⟨a', ha', rfl⟩

theorem matches_cons_iff {cm : Nat → Nat → Bool} {c : Nat} {r : Re} {w : List Nat} :
    Matches cm r (c :: w) ↔ ∃ r' ∈ pderiv cm c r, Matches cm r' w :=
  ⟨fun h => pderiv_complete h rfl, fun ⟨_, hr', hm⟩ => pderiv_sound hr' hm⟩

/-- `pderiv` only looks at the class function at the character. -/
theorem pderiv_congr {cm : Nat → Nat → Bool} {c d : Nat} (h : ∀ id, cm id c = cm id d) (r : Re) :
    pderiv cm c r = pderiv cm d r := by
  induction r with
  | void => rfl
  | eps => rfl
  | cls id => simp [pderiv, h id]
  | cat a b iha ihb => simp [pderiv, iha, ihb]
  | alt a b iha ihb => simp [pderiv, iha, ihb]
  | star a iha => simp [pderiv, iha]

end Scnr
