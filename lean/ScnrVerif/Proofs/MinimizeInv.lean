import ScnrVerif.Proofs.Minimize
/-!
# Invariants of the refinement loop (track A)

The partitions the model of `minimizer.rs` computes consist of non-empty, pairwise disjoint,
homogeneous groups covering all states (`PartInv`); a fixpoint of `refine` is stable. Hence the
partition the loop stops at is a `GoodPartition`.
-/
namespace Scnr

/-! ## signatures -/

theorem mem_signature (A : Dfa) (P : List (List Nat)) (s cc k : Nat) :
    (cc, k) ∈ signature A P s ↔ ∃ t, (cc, t) ∈ A.outs s ∧ findGroup P t = k := by
  unfold signature
  simp only [List.mem_flatMap, List.mem_map, Prod.mk.injEq]
  constructor
  · rintro ⟨p, hp, t, ht, rfl, rfl⟩
    exact ⟨t, (inMap_transMap A s p.1 t).mp ⟨p.2, hp, ht⟩, rfl⟩
  · rintro ⟨t, ht, rfl⟩
    obtain ⟨ts, h1, h2⟩ := (inMap_transMap A s cc t).mpr ht
    exact ⟨(cc, ts), h1, t, h2, rfl, rfl⟩

/-! ## the map built by `split_group` -/

abbrev SigMap := List (List (Nat × Nat) × List Nat)

theorem mem_insertNew (sig : List (Nat × Nat)) (s : Nat) (m : SigMap) (e : List (Nat × Nat) × List Nat) :
    e ∈ insertNew sig s m ↔ e = (sig, [s]) ∨ e ∈ m := by
  induction m with
  | nil => simp [insertNew]
  | cons p r ih =>
    obtain ⟨k, g⟩ := p
    unfold insertNew
    cases sigLt sig k with
    | true => simp
    | false =>
      simp only [Bool.false_eq_true, if_false, List.mem_cons, ih]
      constructor
      · rintro (h | h | h)
        · exact Or.inr (Or.inl h)
        · exact Or.inl h
        · exact Or.inr (Or.inr h)
      · rintro (h | h | h)
        · exact Or.inr (Or.inl h)
        · exact Or.inl h
        · exact Or.inr (Or.inr h)

theorem keys_insertNew (sig : List (Nat × Nat)) (s : Nat) (m : SigMap)
    (hn : (m.map (·.1)).Nodup) (hk : ∀ e ∈ m, e.1 ≠ sig) : ((insertNew sig s m).map (·.1)).Nodup := by
  induction m with
  | nil => simp [insertNew]
  | cons p r ih =>
    obtain ⟨k, g⟩ := p
    simp only [List.map_cons, List.nodup_cons] at hn
    unfold insertNew
    cases sigLt sig k with
    | true =>
      simp only [if_true, List.map_cons, List.nodup_cons, List.mem_cons, List.mem_map, not_or]
      refine ⟨⟨fun h => hk (k, g) (by simp) h.symm, ?_⟩, ?_, hn.2⟩
      · rintro ⟨e, he, hke⟩; exact hk e (List.mem_cons_of_mem _ he) hke
      · simpa [List.mem_map] using hn.1
    | false =>
      simp only [Bool.false_eq_true, if_false, List.map_cons, List.nodup_cons]
      refine ⟨?_, ih hn.2 (fun e he => hk e (List.mem_cons_of_mem _ he))⟩
      simp only [List.mem_map]
      rintro ⟨e, he, hke⟩
      rcases (mem_insertNew sig s r e).mp he with rfl | he'
      · exact hk (k, g) (by simp) hke.symm
      · exact hn.1 (List.mem_map.mpr ⟨e, he', hke⟩)

theorem eq_of_key_eq (m : SigMap) (hnd : (m.map (·.1)).Nodup) (e : List (Nat × Nat) × List Nat) (he : e ∈ m)
    (e' : List (Nat × Nat) × List Nat) (he' : e' ∈ m) (hk : e.1 = e'.1) : e = e' := by
  induction m with
  | nil => cases he
  | cons x r ih =>
    simp only [List.map_cons, List.nodup_cons, List.mem_map, not_exists, not_and] at hnd
    rcases List.mem_cons.mp he with rfl | he1 <;> rcases List.mem_cons.mp he' with rfl | he2
    · rfl
    · exact absurd hk.symm (hnd.1 e' he2)
    · exact absurd hk (hnd.1 e he1)
    · exact ih hnd.2 he1 he2

/-- Invariant of the map while the states `done` of a group have been inserted. -/
structure MapInv (A : Dfa) (P : List (List Nat)) (done : List Nat) (m : SigMap) : Prop where
  nonempty : ∀ e ∈ m, e.2 ≠ []
  sub : ∀ e ∈ m, ∀ s ∈ e.2, s ∈ done
  sig : ∀ e ∈ m, ∀ s ∈ e.2, signature A P s = e.1
  keys : (m.map (·.1)).Nodup
  all : ∀ s ∈ done, ∃ e ∈ m, s ∈ e.2

theorem mapInv_insert (A : Dfa) (P : List (List Nat)) (done : List Nat) (m : SigMap) (s : Nat)
    (h : MapInv A P done m) : MapInv A P (done ++ [s]) (insertSig (signature A P s) s m) := by
  unfold insertSig
  by_cases hany : m.any (fun e => e.1 == signature A P s) = true
  · simp only [hany, if_true]
    refine ⟨?_, ?_, ?_, ?_, ?_⟩
    · intro e he
      obtain ⟨e0, he0, rfl⟩ := List.mem_map.mp he
      by_cases hk : (e0.1 == signature A P s) = true
      · simp only [hk, if_true]
        intro hnil
        have : s ∈ normNat (e0.2 ++ [s]) := (mem_normNat s _).mpr (by simp)
        rw [hnil] at this; cases this
      · simp only [hk]; exact h.nonempty e0 he0
    · intro e he x hx
      obtain ⟨e0, he0, rfl⟩ := List.mem_map.mp he
      by_cases hk : (e0.1 == signature A P s) = true
      · simp only [hk, if_true] at hx
        have := (mem_normNat x _).mp hx
        rcases List.mem_append.mp this with h1 | h1
        · exact List.mem_append_left _ (h.sub e0 he0 x h1)
        · exact List.mem_append_right _ h1
      · simp only [hk] at hx; exact List.mem_append_left _ (h.sub e0 he0 x hx)
    · intro e he x hx
      obtain ⟨e0, he0, rfl⟩ := List.mem_map.mp he
      by_cases hk : (e0.1 == signature A P s) = true
      · simp only [hk, if_true] at hx ⊢
        have := (mem_normNat x _).mp hx
        rcases List.mem_append.mp this with h1 | h1
        · exact h.sig e0 he0 x h1
        · have : x = s := by simpa using h1
          subst this
          exact (by simpa using hk : e0.1 = signature A P x).symm
      · simp only [hk] at hx ⊢; exact h.sig e0 he0 x hx
    · have : (m.map fun e => if (e.1 == signature A P s) = true then (e.1, normNat (e.2 ++ [s])) else e).map (·.1)
          = m.map (·.1) := by
        rw [List.map_map]
        apply List.map_congr_left
        intro e _
        simp only [Function.comp]
        split <;> rfl
      rw [this]; exact h.keys
    · intro x hx
      rcases List.mem_append.mp hx with h1 | h1
      · obtain ⟨e0, he0, hx0⟩ := h.all x h1
        by_cases hk : (e0.1 == signature A P s) = true
        · exact ⟨(e0.1, normNat (e0.2 ++ [s])), List.mem_map.mpr ⟨e0, he0, by simp [hk]⟩,
            (mem_normNat x _).mpr (List.mem_append_left _ hx0)⟩
        · exact ⟨e0, List.mem_map.mpr ⟨e0, he0, by simp [hk]⟩, hx0⟩
      · have hxs : x = s := by simpa using h1
        subst hxs
        simp only [List.any_eq_true] at hany
        obtain ⟨e0, he0, hk⟩ := hany
        exact ⟨(e0.1, normNat (e0.2 ++ [x])), List.mem_map.mpr ⟨e0, he0, by simp [hk]⟩,
          (mem_normNat x _).mpr (by simp)⟩
  · simp only [hany]
    have hno : ∀ e ∈ m, e.1 ≠ signature A P s := by
      intro e he hk
      apply hany
      simp only [List.any_eq_true]
      exact ⟨e, he, by simp [hk]⟩
    refine ⟨?_, ?_, ?_, keys_insertNew _ s m h.keys hno, ?_⟩
    · intro e he
      rcases (mem_insertNew _ s m e).mp he with rfl | he'
      · simp
      · exact h.nonempty e he'
    · intro e he x hx
      rcases (mem_insertNew _ s m e).mp he with rfl | he'
      · simp only [List.mem_singleton] at hx; subst hx; simp
      · exact List.mem_append_left _ (h.sub e he' x hx)
    · intro e he x hx
      rcases (mem_insertNew _ s m e).mp he with rfl | he'
      · simp only [List.mem_singleton] at hx; subst hx; rfl
      · exact h.sig e he' x hx
    · intro x hx
      rcases List.mem_append.mp hx with h1 | h1
      · obtain ⟨e0, he0, hx0⟩ := h.all x h1
        exact ⟨e0, (mem_insertNew _ s m e0).mpr (Or.inr he0), hx0⟩
      · have hxs : x = s := by simpa using h1
        subst hxs
        exact ⟨(signature A P x, [x]), (mem_insertNew _ x m _).mpr (Or.inl rfl), by simp⟩

theorem mapInv_foldl (A : Dfa) (P : List (List Nat)) (g : List Nat) (done : List Nat) (m : SigMap)
    (h : MapInv A P done m) :
    MapInv A P (done ++ g) (g.foldl (fun m s => insertSig (signature A P s) s m) m) := by
  induction g generalizing done m with
  | nil => simpa using h
  | cons s r ih =>
    simp only [List.foldl_cons]
    have := ih (done ++ [s]) _ (mapInv_insert A P done m s h)
    simpa using this

/-- The parts `split_group` produces for a group. -/
structure SplitSpec (A : Dfa) (P : List (List Nat)) (g : List Nat) (parts : List (List Nat)) : Prop where
  nonempty : ∀ p ∈ parts, p ≠ []
  sub : ∀ p ∈ parts, ∀ s ∈ p, s ∈ g
  all : ∀ s ∈ g, ∃ p ∈ parts, s ∈ p
  sameSig : ∀ p ∈ parts, ∀ s ∈ p, ∀ s' ∈ p, signature A P s = signature A P s'
  disjoint : ∀ p ∈ parts, ∀ p' ∈ parts, ∀ s, s ∈ p → s ∈ p' → p = p'

theorem splitGroup_spec (A : Dfa) (P : List (List Nat)) (g : List Nat) (hg : g ≠ []) :
    SplitSpec A P g (splitGroup A P g) := by
  unfold splitGroup
  by_cases h1 : g.length = 1
  · simp only [h1, if_true]
    refine ⟨by simp [hg], by simp, fun s hs => ⟨g, by simp, hs⟩, ?_, by simp⟩
    intro p hp s hs s' hs'
    simp only [List.mem_singleton] at hp
    subst hp
    match p, h1 with
    | [x], _ =>
      simp only [List.mem_singleton] at hs hs'
      rw [hs, hs']
  · simp only [h1, if_false]
    have hm := mapInv_foldl A P g [] [] ⟨by simp, by simp, by simp, by simp, by simp⟩
    simp only [List.nil_append] at hm
    refine ⟨?_, ?_, ?_, ?_, ?_⟩
    · intro p hp
      obtain ⟨e, he, rfl⟩ := List.mem_map.mp hp
      exact hm.nonempty e he
    · intro p hp s hs
      obtain ⟨e, he, rfl⟩ := List.mem_map.mp hp
      exact hm.sub e he s hs
    · intro s hs
      obtain ⟨e, he, hse⟩ := hm.all s hs
      exact ⟨e.2, List.mem_map.mpr ⟨e, he, rfl⟩, hse⟩
    · intro p hp s hs s' hs'
      obtain ⟨e, he, rfl⟩ := List.mem_map.mp hp
      rw [hm.sig e he s hs, hm.sig e he s' hs']
    · intro p hp p' hp' s hs hs'
      obtain ⟨e, he, rfl⟩ := List.mem_map.mp hp
      obtain ⟨e', he', rfl⟩ := List.mem_map.mp hp'
      have hk : e.1 = e'.1 := by rw [← hm.sig e he s hs, ← hm.sig e' he' s hs']
      -- equal keys of a map with distinct keys: the same entry
      have : e = e' := eq_of_key_eq _ hm.keys e he e' he' hk
      rw [this]

end Scnr

namespace Scnr

theorem nodup_values (A : Dfa) (P : List (List Nat)) (m : SigMap) (hk : (m.map (·.1)).Nodup)
    (hne : ∀ e ∈ m, e.2 ≠ []) (hsig : ∀ e ∈ m, ∀ s ∈ e.2, signature A P s = e.1) : (m.map (·.2)).Nodup := by
  induction m with
  | nil => simp
  | cons x r ih =>
    simp only [List.map_cons, List.nodup_cons, List.mem_map, not_exists, not_and] at hk ⊢
    refine ⟨?_, ih hk.2 (fun e he => hne e (List.mem_cons_of_mem _ he))
      (fun e he => hsig e (List.mem_cons_of_mem _ he))⟩
    intro e he heq
    have hx := hne x (by simp)
    obtain ⟨s, hs⟩ := List.exists_mem_of_ne_nil _ hx
    have h1 := hsig x (by simp) s hs
    have h2 := hsig e (List.mem_cons_of_mem _ he) s (by rw [heq]; exact hs)
    exact hk.1 e he (by rw [← h1, ← h2])

theorem splitGroup_nodup (A : Dfa) (P : List (List Nat)) (g : List Nat) : (splitGroup A P g).Nodup := by
  unfold splitGroup
  by_cases h1 : g.length = 1
  · simp [h1]
  · simp only [h1, if_false]
    have hm := mapInv_foldl A P g [] [] ⟨by simp, by simp, by simp, by simp, by simp⟩
    exact nodup_values A P _ hm.keys hm.nonempty hm.sig

/-- Invariant of the partitions computed by the minimizer. -/
structure PartInv (A : Dfa) (P : List (List Nat)) : Prop where
  nonempty : ∀ g ∈ P, g ≠ []
  covers : ∀ s, s < A.trans.length → ∃ g ∈ P, s ∈ g
  disjoint : ∀ g ∈ P, ∀ g' ∈ P, ∀ s, s ∈ g → s ∈ g' → g = g'
  homog : ∀ g ∈ P, ∀ s ∈ g, ∀ s' ∈ g, A.isEnd s = A.isEnd s' ∧ (A.isEnd s = true → A.tidOf s = A.tidOf s')

theorem initialPartition_inv (A : Dfa) (hn : 0 < A.trans.length) (h0 : A.isEnd 0 = false) :
    PartInv A (initialPartition A) := by
  unfold initialPartition
  refine ⟨?_, ?_, ?_, ?_⟩
  · intro g hg
    rcases List.mem_cons.mp hg with rfl | hg'
    · intro hnil
      have : (0 : Nat) ∈ (List.range A.trans.length).filter (fun s => !A.isEnd s) :=
        List.mem_filter.mpr ⟨List.mem_range.mpr hn, by simp [h0]⟩
      rw [hnil] at this; cases this
    · obtain ⟨t, ht, rfl⟩ := List.mem_map.mp hg'
      have := (mem_normNat t _).mp ht
      obtain ⟨s, hs, rfl⟩ := List.mem_map.mp this
      obtain ⟨hs1, hs2⟩ := List.mem_filter.mp hs
      intro hnil
      have : s ∈ (List.range A.trans.length).filter (fun x => A.isEnd x && A.tidOf x == A.tidOf s) :=
        List.mem_filter.mpr ⟨hs1, by simp [hs2]⟩
      rw [hnil] at this; cases this
  · intro s hs
    by_cases he : A.isEnd s = true
    · refine ⟨(List.range A.trans.length).filter (fun x => A.isEnd x && A.tidOf x == A.tidOf s), ?_, ?_⟩
      · apply List.mem_cons_of_mem
        apply List.mem_map.mpr
        refine ⟨A.tidOf s, (mem_normNat _ _).mpr (List.mem_map.mpr ⟨s, List.mem_filter.mpr ⟨List.mem_range.mpr hs, he⟩, rfl⟩), rfl⟩
      · exact List.mem_filter.mpr ⟨List.mem_range.mpr hs, by simp [he]⟩
    · exact ⟨_, List.mem_cons_self, List.mem_filter.mpr ⟨List.mem_range.mpr hs, by simpa using he⟩⟩
  · intro g hg g' hg' s hs hs'
    rcases List.mem_cons.mp hg with rfl | hg1 <;> rcases List.mem_cons.mp hg' with rfl | hg2
    · rfl
    · obtain ⟨t, _, rfl⟩ := List.mem_map.mp hg2
      have a := (List.mem_filter.mp hs).2
      have b := (List.mem_filter.mp hs').2
      simp only [Bool.not_eq_true', Bool.and_eq_true] at a b
      rw [a] at b; cases b.1
    · obtain ⟨t, _, rfl⟩ := List.mem_map.mp hg1
      have a := (List.mem_filter.mp hs).2
      have b := (List.mem_filter.mp hs').2
      simp only [Bool.not_eq_true', Bool.and_eq_true] at a b
      rw [b] at a; cases a.1
    · obtain ⟨t, _, rfl⟩ := List.mem_map.mp hg1
      obtain ⟨t', _, rfl⟩ := List.mem_map.mp hg2
      have a := (List.mem_filter.mp hs).2
      have b := (List.mem_filter.mp hs').2
      simp only [Bool.and_eq_true, beq_iff_eq] at a b
      rw [← a.2, ← b.2]
  · intro g hg s hs s' hs'
    rcases List.mem_cons.mp hg with rfl | hg1
    · have a := (List.mem_filter.mp hs).2
      have b := (List.mem_filter.mp hs').2
      simp only [Bool.not_eq_true'] at a b
      exact ⟨by rw [a, b], fun h => by rw [a] at h; cases h⟩
    · obtain ⟨t, _, rfl⟩ := List.mem_map.mp hg1
      have a := (List.mem_filter.mp hs).2
      have b := (List.mem_filter.mp hs').2
      simp only [Bool.and_eq_true, beq_iff_eq] at a b
      exact ⟨by rw [a.1, b.1], fun _ => by rw [a.2, b.2]⟩

theorem refine_inv (A : Dfa) (P : List (List Nat)) (h : PartInv A P) : PartInv A (refine A P) := by
  unfold refine
  refine ⟨?_, ?_, ?_, ?_⟩
  · intro p hp
    obtain ⟨g, hg, hpg⟩ := List.mem_flatMap.mp hp
    exact (splitGroup_spec A P g (h.nonempty g hg)).nonempty p hpg
  · intro s hs
    obtain ⟨g, hg, hsg⟩ := h.covers s hs
    obtain ⟨p, hp, hsp⟩ := (splitGroup_spec A P g (h.nonempty g hg)).all s hsg
    exact ⟨p, List.mem_flatMap.mpr ⟨g, hg, hp⟩, hsp⟩
  · intro p hp p' hp' s hs hs'
    obtain ⟨g, hg, hpg⟩ := List.mem_flatMap.mp hp
    obtain ⟨g', hg', hpg'⟩ := List.mem_flatMap.mp hp'
    have sg := splitGroup_spec A P g (h.nonempty g hg)
    have sg' := splitGroup_spec A P g' (h.nonempty g' hg')
    have : g = g' := h.disjoint g hg g' hg' s (sg.sub p hpg s hs) (sg'.sub p' hpg' s hs')
    subst this
    exact sg.disjoint p hpg p' hpg' s hs hs'
  · intro p hp s hs s' hs'
    obtain ⟨g, hg, hpg⟩ := List.mem_flatMap.mp hp
    have sg := splitGroup_spec A P g (h.nonempty g hg)
    exact h.homog g hg s (sg.sub p hpg s hs) s' (sg.sub p hpg s' hs')

theorem refineLoop_inv (A : Dfa) (fuel : Nat) (P : List (List Nat)) (h : PartInv A P) :
    PartInv A (refineLoop A fuel P) := by
  induction fuel generalizing P with
  | zero => exact refine_inv A P h
  | succ f ih =>
    unfold refineLoop
    split
    · exact refine_inv A P h
    · exact ih _ (refine_inv A P h)

/-- At a fixpoint of the refinement every group is left unsplit. -/
theorem fixpoint_unsplit (A : Dfa) (P : List (List Nat)) (L : List (List Nat))
    (hL : ∀ g ∈ L, g ≠ []) (hfix : L.flatMap (splitGroup A P) = L) :
    ∀ g ∈ L, splitGroup A P g = [g] := by
  induction L with
  | nil => intro g hg; cases hg
  | cons g L' ih =>
    have sg := splitGroup_spec A P g (hL g (by simp))
    have hnd := splitGroup_nodup A P g
    simp only [List.flatMap_cons] at hfix
    cases hf : splitGroup A P g with
    | nil =>
      obtain ⟨s, hs⟩ := List.exists_mem_of_ne_nil _ (hL g (by simp))
      obtain ⟨p, hp, _⟩ := sg.all s hs
      rw [hf] at hp; cases hp
    | cons p ps =>
      rw [hf] at hfix sg hnd
      simp only [List.cons_append, List.cons.injEq] at hfix
      obtain ⟨rfl, hrest⟩ := hfix
      have hps : ps = [] := by
        cases ps with
        | nil => rfl
        | cons q qs =>
          have hq := sg.nonempty q (by simp)
          obtain ⟨s, hs⟩ := List.exists_mem_of_ne_nil _ hq
          have hsg := sg.sub q (by simp) s hs
          have : p = q := sg.disjoint p (by simp) q (by simp) s hsg hs
          subst this
          simp at hnd
      subst hps
      simp only [List.nil_append] at hrest
      intro g' hg'
      rcases List.mem_cons.mp hg' with rfl | hg''
      · exact hf
      · exact ih (fun x hx => hL x (List.mem_cons_of_mem _ hx)) hrest g' hg''

/-- A fixpoint of the refinement (with the basic invariant) is a good partition. -/
theorem fixpoint_good (A : Dfa) (P : List (List Nat)) (hinv : PartInv A P)
    (htar : ∀ s cc t, (cc, t) ∈ A.outs s → t < A.trans.length) (hfix : refine A P = P) :
    GoodPartition A P := by
  refine ⟨hinv.covers, htar, hinv.disjoint, hinv.homog, ?_⟩
  intro g hg s hs s' hs' cc t ht
  have hun := fixpoint_unsplit A P P hinv.nonempty hfix g hg
  have sg := splitGroup_spec A P g (hinv.nonempty g hg)
  rw [hun] at sg
  have hsig := sg.sameSig g (by simp) s hs s' hs'
  have hm : (cc, findGroup P t) ∈ signature A P s := (mem_signature A P s cc _).mpr ⟨t, ht, rfl⟩
  rw [hsig] at hm
  obtain ⟨t', ht', hk⟩ := (mem_signature A P s' cc _).mp hm
  refine ⟨t', ht', ?_⟩
  obtain ⟨h1, hh1, hth1⟩ := findGroup_mem P t (hinv.covers t (htar s cc t ht))
  obtain ⟨h2, hh2, hth2⟩ := findGroup_mem P t' (hinv.covers t' (htar s' cc t' ht'))
  rw [hk] at hh2
  rw [hh1] at hh2
  have : h1 = h2 := Option.some.inj hh2
  subst this
  exact ⟨h1, List.mem_of_getElem? hh1, hth1, hth2⟩

/-- **Track A, all automata**: for every automaton with transition targets in range and a
    non-accepting start state, if the refinement loop stopped at a fixpoint (its exit condition),
    the model of `Minimizer::minimize` accepts every word for exactly the same terminals. -/
theorem minimize_preserves_of_fixpoint (A : Dfa) (hn : 0 < A.trans.length) (h0 : A.isEnd 0 = false)
    (htar : ∀ s cc t, (cc, t) ∈ A.outs s → t < A.trans.length)
    (hfix : refine A (finalPartition A) = finalPartition A)
    (cm : Nat → Nat → Bool) (w : List Nat) (t : Nat) :
    acceptsTid (minimize A) cm w t ↔ acceptsTid A cm w t := by
  have hinv : PartInv A (finalPartition A) :=
    refineLoop_inv A _ _ (initialPartition_inv A hn h0)
  exact createFromPartition_preserves A (finalPartition A) (fixpoint_good A _ hinv htar hfix) hn cm w t

end Scnr
