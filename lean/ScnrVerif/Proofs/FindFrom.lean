import ScnrVerif.Model.FindFrom
/-!
# Candidate selection of `find_from`

`loop_spec`: the result of the character loop is a genuine candidate (soundness: span and token
type come from the same candidate) and dominates every candidate (completeness), for every
automaton, class function, lookahead function, state list and input.
-/
namespace Scnr

/-! ## membership lemmas for the list-producing functions -/

theorem mem_hitsOf {A : Dfa} {cm c s x} :
    x ∈ hitsOf A cm c s ↔ ∃ cc, (cc, x) ∈ A.outs s ∧ cm cc c = true := by
  unfold hitsOf
  simp only [List.mem_filterMap]
  constructor
  · rintro ⟨⟨cc, y⟩, hm, h⟩
    by_cases hc : cm cc c = true
    · simp [hc] at h; subst h; exact ⟨cc, hm, hc⟩
    · simp [hc] at h
  · rintro ⟨cc, hm, hc⟩
    exact ⟨(cc, x), hm, by simp [hc]⟩

theorem mem_hits {A : Dfa} {cm c S x} :
    x ∈ hits A cm c S ↔ ∃ s ∈ S, x ∈ hitsOf A cm c s := by
  unfold hits; simp [List.mem_flatMap]

theorem hits_nil {A : Dfa} {cm c} : hits A cm c [] = [] := rfl

theorem mem_pushNew {acc : List Nat} {x y : Nat} : y ∈ pushNew acc x ↔ y ∈ acc ∨ y = x := by
  unfold pushNew
  by_cases h : x ∈ acc
  · simp only [List.contains_iff_mem, h, if_true]
    constructor
    · intro hy; exact Or.inl hy
    · rintro (hy | rfl)
      · exact hy
      · exact h
  · simp [h]

theorem mem_foldl_pushNew {H acc : List Nat} {y : Nat} :
    y ∈ H.foldl pushNew acc ↔ y ∈ acc ∨ y ∈ H := by
  induction H generalizing acc with
  | nil => simp
  | cons h t ih =>
    simp only [List.foldl_cons, ih, mem_pushNew, List.mem_cons]
    constructor
    · rintro ((h1 | h1) | h1)
      · exact Or.inl h1
      · exact Or.inr (Or.inl h1)
      · exact Or.inr (Or.inr h1)
    · rintro (h1 | h1 | h1)
      · exact Or.inl (Or.inl h1)
      · exact Or.inl (Or.inr h1)
      · exact Or.inr h1

theorem mem_nextStates {H : List Nat} {y : Nat} : y ∈ nextStates H ↔ y ∈ H := by
  unfold nextStates; simp [mem_foldl_pushNew]

theorem mem_stepStates {A : Dfa} {cm c S y} : y ∈ stepStates A cm c S ↔ y ∈ hits A cm c S := by
  unfold stepStates; exact mem_nextStates

theorem stepStates_nil {A : Dfa} {cm c} : stepStates A cm c [] = [] := rfl

theorem stepStates_isEmpty {A : Dfa} {cm c S} :
    (stepStates A cm c S).isEmpty = true → hits A cm c S = [] := by
  intro h
  have h' : stepStates A cm c S = [] := by simpa using h
  cases hh : hits A cm c S with
  | nil => rfl
  | cons x t =>
    have : x ∈ stepStates A cm c S := mem_stepStates.mpr (by rw [hh]; simp)
    rw [h'] at this; simp at this

/-! ## candidates and domination -/

/-- `k` is a candidate of the scan of `w` from states `S` with index `i` of the first character:
    defined along the loop. -/
def CandAt (A : Dfa) (cm : Nat → Nat → Bool) (la : Nat → List Nat → Option Nat) :
    Nat → List Nat → List Nat → Cand → Prop
  | _, [], _, _ => False
  | i, c :: w, S, k =>
    (∃ nx ∈ hits A cm c S, A.isEnd nx = true ∧ ∃ l, la (A.tidOf nx) w = some l ∧
        k = ⟨i + utf8Len c, i + utf8Len c + l, A.tidOf nx⟩)
    ∨ CandAt A cm la (i + utf8Len c) w (stepStates A cm c S) k

/-- `b` dominates `k`: larger extent, or equal extent and priority index not larger. -/
def Dom (A : Dfa) (b : Best) (k : Cand) : Prop :=
  ∃ b', b = some b' ∧ (k.extent < b'.extent ∨ (b'.extent = k.extent ∧ A.prioOf b'.tid ≤ A.prioOf k.tid))

theorem better_cases (A : Dfa) (ext tid : Nat) (b : Best) :
    (better A ext tid b = true ↔
      (b = none ∨ ∃ b', b = some b' ∧ (b'.extent < ext ∨ (ext = b'.extent ∧ A.prioOf tid < A.prioOf b'.tid)))) := by
  cases b with
  | none => simp [better]
  | some b' =>
    simp only [better, Bool.or_eq_true, Bool.and_eq_true, decide_eq_true_eq, beq_iff_eq]
    constructor
    · intro h; exact Or.inr ⟨b', rfl, h⟩
    · rintro (h | ⟨b'', hb, h⟩)
      · cases h
      · cases hb; exact h

/-- One update keeps domination of everything dominated before. -/
theorem upd_dom_mono {A : Dfa} {la e best nx k} (h : Dom A best k) : Dom A (upd A la e best nx) k := by
  unfold upd
  by_cases he : A.isEnd nx = true
  · simp only [he, if_true]
    cases hl : la (A.tidOf nx) with
    | none => exact h
    | some l =>
      simp only
      by_cases hb : better A (e + l) (A.tidOf nx) best = true
      · simp only [hb, if_true]
        obtain ⟨b', rfl, hd⟩ := h
        rcases (better_cases A _ _ _).mp hb with h0 | ⟨b'', hb'', hc⟩
        · cases h0
        · cases hb''
          refine ⟨_, rfl, ?_⟩
          simp only
          rcases hc with hc | ⟨hc1, hc2⟩ <;> rcases hd with hd | ⟨hd1, hd2⟩
          · exact Or.inl (by omega)
          · exact Or.inl (by omega)
          · exact Or.inl (by omega)
          · exact Or.inr ⟨by omega, by omega⟩
      · simp only [hb]; exact h
  · simp only [he]; exact h

/-- After the update the new hit (if it is a candidate) is dominated. -/
theorem upd_dom_new {A : Dfa} {la e best nx l} (he : A.isEnd nx = true) (hl : la (A.tidOf nx) = some l) :
    Dom A (upd A la e best nx) ⟨e, e + l, A.tidOf nx⟩ := by
  unfold upd
  simp only [he, if_true, hl]
  by_cases hb : better A (e + l) (A.tidOf nx) best = true
  · simp only [hb, if_true]
    exact ⟨_, rfl, Or.inr ⟨rfl, Nat.le_refl _⟩⟩
  · simp only [hb]
    have hnb := mt (better_cases A (e + l) (A.tidOf nx) best).mpr hb
    cases best with
    | none => exact absurd (Or.inl rfl) hnb
    | some b' =>
      refine ⟨b', rfl, ?_⟩
      simp only
      by_cases h1 : e + l < b'.extent
      · exact Or.inl h1
      · by_cases h2 : b'.extent < e + l
        · exact absurd (Or.inr ⟨b', rfl, Or.inl h2⟩) hnb
        · have heq : b'.extent = e + l := by omega
          refine Or.inr ⟨heq, ?_⟩
          by_cases h3 : A.prioOf (A.tidOf nx) < A.prioOf b'.tid
          · exact absurd (Or.inr ⟨b', rfl, Or.inr ⟨heq.symm, h3⟩⟩) hnb
          · omega

theorem foldl_upd_dom_mono {A : Dfa} {la e} {H : List Nat} {best k} (h : Dom A best k) :
    Dom A (H.foldl (upd A la e) best) k := by
  induction H generalizing best with
  | nil => exact h
  | cons x t ih => exact ih (upd_dom_mono h)

theorem foldl_upd_dom_new {A : Dfa} {la e} {H : List Nat} {best nx l}
    (hm : nx ∈ H) (he : A.isEnd nx = true) (hl : la (A.tidOf nx) = some l) :
    Dom A (H.foldl (upd A la e) best) ⟨e, e + l, A.tidOf nx⟩ := by
  induction H generalizing best with
  | nil => cases hm
  | cons x t ih =>
    simp only [List.foldl_cons]
    rcases List.mem_cons.mp hm with rfl | hm'
    · exact foldl_upd_dom_mono (upd_dom_new he hl)
    · exact ih hm'

/-- The fold either keeps the old best or ends in a genuine hit of the list. -/
theorem foldl_upd_sound {A : Dfa} {la e} {H : List Nat} {best} :
    H.foldl (upd A la e) best = best ∨
    ∃ nx ∈ H, A.isEnd nx = true ∧ ∃ l, la (A.tidOf nx) = some l ∧
      H.foldl (upd A la e) best = some ⟨e, e + l, A.tidOf nx⟩ := by
  induction H generalizing best with
  | nil => exact Or.inl rfl
  | cons x t ih =>
    simp only [List.foldl_cons]
    rcases ih (best := upd A la e best x) with h | ⟨nx, hm, he, l, hl, h⟩
    · -- fold over t keeps `upd best x`
      rw [h]
      unfold upd
      by_cases hx : A.isEnd x = true
      · simp only [hx, if_true]
        cases hl : la (A.tidOf x) with
        | none => exact Or.inl rfl
        | some l =>
          simp only
          by_cases hb : better A (e + l) (A.tidOf x) best = true
          · simp only [hb, if_true]
            exact Or.inr ⟨x, List.mem_cons_self, hx, l, hl, rfl⟩
          · simp only [hb]; exact Or.inl rfl
      · simp only [hx]; exact Or.inl rfl
    · exact Or.inr ⟨nx, List.mem_cons_of_mem _ hm, he, l, hl, h⟩

/-! ## the loop -/

theorem candAt_nil_states {A : Dfa} {cm la} (j : Nat) (w : List Nat) {k : Cand} :
    ¬ CandAt A cm la j w [] k := by
  induction w generalizing j with
  | nil => intro h; cases h
  | cons d w ihw =>
    intro h
    unfold CandAt at h
    rcases h with ⟨nx, hm, _⟩ | h
    · simp [hits_nil] at hm
    · rw [stepStates_nil] at h; exact ihw _ h

theorem loop_spec (A : Dfa) (cm : Nat → Nat → Bool) (la : Nat → List Nat → Option Nat)
    (i : Nat) (w : List Nat) (S : List Nat) (b : Best) :
    (∀ k, (Dom A b k ∨ CandAt A cm la i w S k) → Dom A (loop A cm la i w S b) k) ∧
    (loop A cm la i w S b = b ∨ ∃ k, loop A cm la i w S b = some k ∧ CandAt A cm la i w S k) := by
  induction w generalizing i S b with
  | nil =>
    constructor
    · intro k h
      rcases h with h | h
      · simpa [loop] using h
      · cases h
    · left; simp [loop]
  | cons c w ih =>
    have hfold := @foldl_upd_sound A (fun t => la t w) (i + utf8Len c) (hits A cm c S) b
    by_cases hE : (stepStates A cm c S).isEmpty = true
    · -- the loop stops after this character; there are no hits at all
      have hH : hits A cm c S = [] := stepStates_isEmpty hE
      have hS : stepStates A cm c S = [] := by simpa using hE
      have hloop : loop A cm la i (c :: w) S b = b := by
        simp [loop, hE, hH]
      constructor
      · intro k h
        rw [hloop]
        rcases h with h | h
        · exact h
        · unfold CandAt at h
          rcases h with ⟨nx, hm, _⟩ | h
          · rw [hH] at hm; cases hm
          · -- no candidates from the empty state list
            rw [hS] at h
            exact absurd h (candAt_nil_states _ _)
      · left; exact hloop
    · have hloop : loop A cm la i (c :: w) S b =
          loop A cm la (i + utf8Len c) w (stepStates A cm c S)
            ((hits A cm c S).foldl (upd A (fun t => la t w) (i + utf8Len c)) b) := by
        simp [loop, hE]
      obtain ⟨ih1, ih2⟩ := ih (i + utf8Len c) (stepStates A cm c S)
        ((hits A cm c S).foldl (upd A (fun t => la t w) (i + utf8Len c)) b)
      constructor
      · intro k h
        rw [hloop]
        apply ih1
        rcases h with h | h
        · exact Or.inl (foldl_upd_dom_mono h)
        · unfold CandAt at h
          rcases h with ⟨nx, hm, he, l, hl, rfl⟩ | h
          · exact Or.inl (foldl_upd_dom_new (la := fun t => la t w) hm he hl)
          · exact Or.inr h
      · rw [hloop]
        rcases ih2 with h | ⟨k, hk, hc⟩
        · rw [h]
          rcases hfold with h' | ⟨nx, hm, he, l, hl, h'⟩
          · exact Or.inl h'
          · right
            refine ⟨_, h', ?_⟩
            unfold CandAt
            exact Or.inl ⟨nx, hm, he, l, hl, rfl⟩
        · right
          refine ⟨k, hk, ?_⟩
          unfold CandAt
          exact Or.inr hc

end Scnr
