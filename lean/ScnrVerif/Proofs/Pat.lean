import ScnrVerif.Proofs.SpecFind
import ScnrVerif.Proofs.Regex
import ScnrVerif.Model.SpecPat
/-!
# From the automaton-level rule to the pattern-level rule (C01)

Given language equivalence between a lookahead-free mode automaton and its pattern list (what
C02's verified check establishes per program), terminals in pattern order and distinct token types,
the result of the model of `find_from` satisfies the pattern-level longest-match verdict
`patFindOK`, and that verdict determines the result uniquely.
-/
namespace Scnr

theorem derivFold_spec (cm) (w : List Nat) (rs : List Re) :
    (w.foldl (fun rs c => derivStep cm c rs) rs).any Re.nullable = true ↔ ∃ r ∈ rs, Matches cm r w := by
  induction w generalizing rs with
  | nil =>
    simp only [List.foldl_nil, List.any_eq_true]
    constructor
    · rintro ⟨r, hr, hn⟩; exact ⟨r, hr, nullable_iff.mp hn⟩
    · rintro ⟨r, hr, hm⟩; exact ⟨r, hr, nullable_iff.mpr hm⟩
  | cons c w ih =>
    simp only [List.foldl_cons]
    rw [ih]
    simp only [derivStep, List.mem_eraseDups, List.mem_flatMap]
    constructor
    · rintro ⟨r', ⟨r, hr, hd⟩, hm⟩
      exact ⟨r, hr, matches_cons_iff.mpr ⟨r', hd, hm⟩⟩
    · rintro ⟨r, hr, hm⟩
      obtain ⟨r', hd, hm'⟩ := matches_cons_iff.mp hm
      exact ⟨r', ⟨r, hr, hd⟩, hm'⟩

/-- The executable matcher decides `Matches`. -/
theorem matchesBool_iff (cm) (r : Re) (w : List Nat) : matchesBool cm r w = true ↔ Matches cm r w := by
  unfold matchesBool
  rw [derivFold_spec]
  simp

theorem mem_patCands (cm) (ps : List (Nat × Re)) (w : List Nat) (k len : Nat) :
    (k, len) ∈ patCands cm ps w ↔
      ∃ u v, u ≠ [] ∧ w = u ++ v ∧ len = bytesLen u ∧ ∃ q, ps[k]? = some q ∧ Matches cm q.2 u := by
  unfold patCands
  simp only [List.mem_flatMap, List.mem_filterMap]
  constructor
  · rintro ⟨p, hp, ⟨q, j⟩, hq, h⟩
    obtain ⟨h1, h2⟩ := mem_splits.mp hp
    by_cases hm : matchesBool cm q.2 p.1 = true
    · simp only [hm, if_true, Option.some.injEq, Prod.mk.injEq] at h
      obtain ⟨rfl, rfl⟩ := h
      refine ⟨p.1, p.2, h1, h2, rfl, q, ?_, (matchesBool_iff _ _ _).mp hm⟩
      exact (List.mem_zipIdx_iff_getElem?.mp hq)
    · simp [hm] at h
  · rintro ⟨u, v, h1, h2, rfl, q, hq, hm⟩
    refine ⟨(u, v), mem_splits.mpr ⟨h1, h2⟩, (q, k), List.mem_zipIdx_iff_getElem?.mpr hq, ?_⟩
    simp [(matchesBool_iff _ _ _).mpr hm]

/-- Language equivalence between automaton and patterns, as established per program by C02. -/
def LangEquiv (A : Dfa) (cm : Nat → Nat → Bool) (cmR : Nat → Nat → Bool) (ps : List (Nat × Re)) : Prop :=
  ∀ u, u ≠ [] → ∀ t, acceptsTid A cm u t ↔ ∃ r, (t, r) ∈ ps ∧ Matches cmR r u

theorem laSpec_nolas (M : ModeDfa) (cm) (h : M.las = []) (t : Nat) (v : List Nat) : M.laSpec cm t v = some 0 := by
  simp [ModeDfa.laSpec, h]

/-- Candidates of a lookahead-free mode are exactly the accepted non-empty prefixes. -/
theorem mem_specCands_nolas (M : ModeDfa) (cm) (h : M.las = []) (w : List Nat) (k : Cand) :
    k ∈ specCands M cm 0 w ↔
      ∃ u v, u ≠ [] ∧ w = u ++ v ∧ acceptsTid M.dfa cm u k.tid ∧ k.endPos = bytesLen u ∧ k.extent = bytesLen u := by
  rw [mem_specCands, candAt_iff]
  constructor
  · rintro ⟨p, hp, s, hs, he, l, hl, rfl⟩
    obtain ⟨h1, h2⟩ := mem_splits.mp hp
    rw [laSpec_nolas M cm h] at hl
    have : l = 0 := by simpa using hl.symm
    subst this
    exact ⟨p.1, p.2, h1, h2, ⟨s, hs, he, rfl⟩, by simp, by simp⟩
  · rintro ⟨u, v, h1, h2, ⟨s, hs, he, ht⟩, h3, h4⟩
    refine ⟨(u, v), mem_splits.mpr ⟨h1, h2⟩, s, hs, he, 0, laSpec_nolas M cm h _ _, ?_⟩
    obtain ⟨e, x, t⟩ := k
    simp only at ht h3 h4 ⊢
    subst ht h3 h4
    simp

theorem idx_of_pattern {ps : List (Nat × Re)} (hn : (ps.map (·.1)).Nodup) {k : Nat} {q : Nat × Re}
    (hq : ps[k]? = some q) : (ps.map (·.1)).idxOf q.1 = k := by
  have hk : k < ps.length := by
    rcases Nat.lt_or_ge k ps.length with h | h
    · exact h
    · rw [List.getElem?_eq_none h] at hq; cases hq
  have hk' : k < (ps.map (·.1)).length := by simpa using hk
  have := hn.idxOf_getElem k hk'
  have hq' : (ps.map (·.1))[k] = q.1 := by
    simp only [List.getElem_map]
    rw [List.getElem?_eq_getElem hk] at hq
    exact congrArg (·.1) (Option.some.inj hq)
  rw [hq'] at this
  exact this

theorem pattern_of_mem {ps : List (Nat × Re)} (hn : (ps.map (·.1)).Nodup) {t : Nat} {r : Re}
    (h : (t, r) ∈ ps) : ps[(ps.map (·.1)).idxOf t]? = some (t, r) := by
  obtain ⟨i, hi, hget⟩ := List.getElem_of_mem h
  have hq : ps[i]? = some (t, r) := by rw [List.getElem?_eq_getElem hi, hget]
  have := idx_of_pattern hn hq
  simp only at this
  rw [this]; exact hq

/-- **C01, one scan step**: the model of `find_from` on a lookahead-free mode whose automaton is
    language-equivalent to the pattern list reports the longest non-empty prefix some pattern
    matches, with the token type of the first listed pattern matching it. -/
theorem findFrom_patFindOK (M : ModeDfa) (cm cmR : Nat → Nat → Bool) (ps : List (Nat × Re))
    (hlas : M.las = []) (hprio : M.dfa.prio = ps.map (·.1)) (hn : (ps.map (·.1)).Nodup)
    (heq : LangEquiv M.dfa cm cmR ps) (w : List Nat) :
    patFindOK cmR ps w (findFrom M cm 0 w) = true := by
  have hspec := findFrom_specFindOK M cm 0 w
  -- a pattern candidate gives an automaton candidate
  have toSpec : ∀ k len, (k, len) ∈ patCands cmR ps w → ∃ q, ps[k]? = some q ∧
      (⟨len, len, q.1⟩ : Cand) ∈ specCands M cm 0 w := by
    intro k len hk
    obtain ⟨u, v, h1, h2, rfl, q, hq, hm⟩ := (mem_patCands cmR ps w k _).mp hk
    refine ⟨q, hq, (mem_specCands_nolas M cm hlas w _).mpr ⟨u, v, h1, h2, ?_, rfl, rfl⟩⟩
    exact (heq u h1 q.1).mpr ⟨q.2, List.mem_of_getElem? hq, hm⟩
  cases hr : findFrom M cm 0 w with
  | none =>
    rw [hr] at hspec
    simp only [specFindOK, List.isEmpty_iff] at hspec
    simp only [patFindOK, List.isEmpty_iff]
    cases hc : patCands cmR ps w with
    | nil => rfl
    | cons c r =>
      obtain ⟨q, _, hmem⟩ := toSpec c.1 c.2 (by rw [hc]; simp)
      rw [hspec] at hmem; cases hmem
  | some r =>
    obtain ⟨t, e⟩ := r
    rw [hr] at hspec
    simp only [specFindOK, List.any_eq_true, Bool.and_eq_true, beq_iff_eq, List.all_eq_true] at hspec
    obtain ⟨k0, hk0, ⟨ht, he⟩, hbest⟩ := hspec
    obtain ⟨u, v, h1, h2, hacc, h3, h4⟩ := (mem_specCands_nolas M cm hlas w k0).mp hk0
    obtain ⟨re, hre, hm⟩ := (heq u h1 k0.tid).mp hacc
    have hpat := pattern_of_mem hn hre
    simp only [patFindOK, List.any_eq_true, Bool.and_eq_true, beq_iff_eq, List.all_eq_true,
      Bool.or_eq_true, decide_eq_true_eq]
    refine ⟨((ps.map (·.1)).idxOf k0.tid, e), ?_, ⟨⟨rfl, ?_⟩, ?_⟩⟩
    · apply (mem_patCands cmR ps w _ _).mpr
      exact ⟨u, v, h1, h2, by omega, (k0.tid, re), hpat, hm⟩
    · simp only; rw [hpat]; simp [ht]
    · intro c' hc'
      obtain ⟨q', hq', hmem'⟩ := toSpec c'.1 c'.2 hc'
      have := hbest _ hmem'
      simp only [candGe, Bool.or_eq_true, Bool.and_eq_true, decide_eq_true_eq, beq_iff_eq] at this
      have hidx' := idx_of_pattern hn hq'
      simp only [Dfa.prioOf, hprio] at this
      rw [hidx'] at this
      rcases this with h | ⟨h5, h6⟩
      · left; omega
      · right; exact ⟨by omega, h6⟩

/-- The verdict determines the result: two results passing it are equal (distinct token types). -/
theorem patFindOK_unique (cmR : Nat → Nat → Bool) (ps : List (Nat × Re)) (w : List Nat)
    (r1 r2 : Option (Nat × Nat)) (h1 : patFindOK cmR ps w r1 = true) (h2 : patFindOK cmR ps w r2 = true) :
    r1 = r2 := by
  cases r1 with
  | none =>
    cases r2 with
    | none => rfl
    | some b =>
      obtain ⟨t, l⟩ := b
      simp only [patFindOK, List.isEmpty_iff] at h1
      simp [patFindOK, h1] at h2
  | some a =>
    obtain ⟨t1, l1⟩ := a
    cases r2 with
    | none =>
      simp only [patFindOK, List.isEmpty_iff] at h2
      simp [patFindOK, h2] at h1
    | some b =>
      obtain ⟨t2, l2⟩ := b
      simp only [patFindOK, List.any_eq_true, Bool.and_eq_true, beq_iff_eq, List.all_eq_true,
        Bool.or_eq_true, decide_eq_true_eq] at h1 h2
      obtain ⟨c1, hc1, ⟨e1, g1⟩, b1⟩ := h1
      obtain ⟨c2, hc2, ⟨e2, g2⟩, b2⟩ := h2
      have x1 := b1 c2 hc2
      have x2 := b2 c1 hc1
      have hl : l1 = l2 := by
        rcases x1 with x1 | ⟨x1, _⟩ <;> rcases x2 with x2 | ⟨x2, _⟩ <;> omega
      have hk : c1.1 = c2.1 := by
        rcases x1 with x1 | ⟨_, y1⟩ <;> rcases x2 with x2 | ⟨_, y2⟩ <;> omega
      rw [hk] at g1
      rw [g1] at g2
      simp only [Option.some.injEq] at g2
      rw [g2, hl]


theorem firstIdx_of_cand (cm : Nat → Nat → Bool) (ps : List (Nat × Re)) (hn : (ps.map (·.1)).Nodup)
    (w : List Nat) (c : Nat × Nat) (hc : c ∈ patCands cm ps w) :
    firstIdxOfType ps ((ps[c.1]?.map (·.1)).getD 0) = c.1 := by
  obtain ⟨k, len⟩ := c
  obtain ⟨u, v, _, _, _, q, hq, _⟩ := (mem_patCands cm ps w k len).mp hc
  simp only [hq, Option.map_some, Option.getD_some]
  exact idx_of_pattern hn hq

/-- With pairwise distinct token types the classification rule for finding F2 is the property's
    rule: it can reclassify nothing when token types are unique. -/
theorem sharedTypeRule_eq_patFindOK (cm : Nat → Nat → Bool) (ps : List (Nat × Re))
    (hn : (ps.map (·.1)).Nodup) (w : List Nat) (r : Option (Nat × Nat)) :
    sharedTypeRule cm ps w r = patFindOK cm ps w r := by
  cases r with
  | none => rfl
  | some tl =>
    obtain ⟨t, len⟩ := tl
    have key : ∀ c ∈ patCands cm ps w, (ps[c.1]?.map (·.1)) = some t → firstIdxOfType ps t = c.1 := by
      intro c hc h
      have := firstIdx_of_cand cm ps hn w c hc
      rw [h] at this
      simpa using this
    unfold sharedTypeRule patFindOK
    rw [Bool.eq_iff_iff]
    simp only [List.any_eq_true, List.all_eq_true, Bool.and_eq_true, Bool.or_eq_true,
      decide_eq_true_eq, beq_iff_eq]
    constructor
    · rintro ⟨c, hc, ⟨h1, h2⟩, h3⟩
      refine ⟨c, hc, ⟨h1, h2⟩, fun c' hc' => ?_⟩
      rcases h3 c' hc' with h | ⟨h4, h5⟩
      · exact Or.inl h
      · refine Or.inr ⟨h4, ?_⟩
        rw [key c hc h2, firstIdx_of_cand cm ps hn w c' hc'] at h5
        exact h5
    · rintro ⟨c, hc, ⟨h1, h2⟩, h3⟩
      refine ⟨c, hc, ⟨h1, h2⟩, fun c' hc' => ?_⟩
      rcases h3 c' hc' with h | ⟨h4, h5⟩
      · exact Or.inl h
      · refine Or.inr ⟨h4, ?_⟩
        rw [key c hc h2, firstIdx_of_cand cm ps hn w c' hc']
        exact h5


/-- **What the crate does when token types are shared (finding F2), for all inputs**: the model of
    `find_from` on a lookahead-free mode that is language-equivalent to the pattern list — with *no*
    assumption on the token types — reports the longest match, and among the longest matches the
    token type whose first occurrence in the pattern list comes first. -/
theorem findFrom_sharedTypeRule (M : ModeDfa) (cm cmR : Nat → Nat → Bool) (ps : List (Nat × Re))
    (hlas : M.las = []) (hprio : M.dfa.prio = ps.map (·.1))
    (heq : LangEquiv M.dfa cm cmR ps) (w : List Nat) :
    sharedTypeRule cmR ps w (findFrom M cm 0 w) = true := by
  have hspec := findFrom_specFindOK M cm 0 w
  have toSpec : ∀ k len, (k, len) ∈ patCands cmR ps w → ∃ q, ps[k]? = some q ∧
      (⟨len, len, q.1⟩ : Cand) ∈ specCands M cm 0 w := by
    intro k len hk
    obtain ⟨u, v, h1, h2, rfl, q, hq, hm⟩ := (mem_patCands cmR ps w k _).mp hk
    refine ⟨q, hq, (mem_specCands_nolas M cm hlas w _).mpr ⟨u, v, h1, h2, ?_, rfl, rfl⟩⟩
    exact (heq u h1 q.1).mpr ⟨q.2, List.mem_of_getElem? hq, hm⟩
  cases hr : findFrom M cm 0 w with
  | none =>
    rw [hr] at hspec
    simp only [specFindOK, List.isEmpty_iff] at hspec
    simp only [sharedTypeRule, List.isEmpty_iff]
    cases hc : patCands cmR ps w with
    | nil => rfl
    | cons c r =>
      obtain ⟨q, _, hmem⟩ := toSpec c.1 c.2 (by rw [hc]; simp)
      rw [hspec] at hmem; cases hmem
  | some r =>
    obtain ⟨t, e⟩ := r
    rw [hr] at hspec
    simp only [specFindOK, List.any_eq_true, Bool.and_eq_true, beq_iff_eq, List.all_eq_true] at hspec
    obtain ⟨k0, hk0, ⟨ht, he⟩, hbest⟩ := hspec
    obtain ⟨u, v, h1, h2, hacc, h3, h4⟩ := (mem_specCands_nolas M cm hlas w k0).mp hk0
    obtain ⟨re, hre, hm⟩ := (heq u h1 k0.tid).mp hacc
    obtain ⟨i, hi, hget⟩ := List.getElem_of_mem hre
    have hpat : ps[i]? = some (k0.tid, re) := by rw [List.getElem?_eq_getElem hi, hget]
    simp only [sharedTypeRule, List.any_eq_true, Bool.and_eq_true, beq_iff_eq, List.all_eq_true,
      Bool.or_eq_true, decide_eq_true_eq]
    refine ⟨(i, e), ?_, ⟨⟨rfl, ?_⟩, ?_⟩⟩
    · apply (mem_patCands cmR ps w _ _).mpr
      exact ⟨u, v, h1, h2, by omega, (k0.tid, re), hpat, hm⟩
    · simp only; rw [hpat]; simp [ht]
    · intro c' hc'
      obtain ⟨q', hq', hmem'⟩ := toSpec c'.1 c'.2 hc'
      have := hbest _ hmem'
      simp only [candGe, Bool.or_eq_true, Bool.and_eq_true, decide_eq_true_eq, beq_iff_eq] at this
      simp only [Dfa.prioOf, hprio] at this
      simp only [hq', Option.map_some, Option.getD_some, firstIdxOfType]
      rcases this with h | ⟨h5, h6⟩
      · left; omega
      · right; exact ⟨by omega, by rw [← ht]; exact h6⟩

end Scnr
