import ScnrVerif.Model.JsonText
import ScnrVerif.Props.C16
/-!
# JSON text round trip (C16, text layer)

* `Key.ofText_text`: the field names are read back as the keys they were written from.
* `parseValue_printJson`: the value parser reads back a printed tree whatever follows it (as long
  as that cannot continue a number), with fuel for the length of the printed text.
* `parseJson_printJson`: **`parseJson (printJson v) = some v`** for every tree without `float`
  whose keys are well-formed and whose strings and keys are Unicode text (`Json.textOK`).
* `printJson_injective`: two such trees with the same text are equal.
* `modes_text_roundtrip`: with C16's value-tree round trip, `from_str (to_string cfg) = cfg` for
  every configuration whose numbers fit `usize`.
* Examples evaluated by the kernel: a README-style text with whitespace, `\u` escapes and a
  surrogate pair; numbers beyond 2^64; `float`s; the rejections of RFC 8259.

The parser accepts much more than the printer writes (whitespace, `\/`, `\uXXXX` for any
character, upper-case hex digits, fractions and exponents): that part is covered by the examples
and by the driver's differential runs, not by a theorem.
-/
namespace Scnr

/-! ## Field names -/


theorem Key.ofText_text (k : Key) (h : k.wf = true) : Key.ofText (Key.text k) = k := by
  cases k with
  | other s =>
    have hn : Key.known.find? (fun k => k.text == s) = none := by
      rw [List.find?_eq_none]
      intro x hx
      have := (List.all_eq_true.mp h) x hx
      simpa using this
    show Key.ofText s = Key.other s
    unfold Key.ofText
    rw [hn]
  | _ => rfl

/-! ## numbers -/
theorem natDigits_lt (n : Nat) (h : n < 10) : jNatDigits n = [48 + n] := by
  rw [jNatDigits]; simp [h]
theorem natDigits_ge (n : Nat) (h : ¬ n < 10) : jNatDigits n = jNatDigits (n / 10) ++ [48 + n % 10] := by
  rw [jNatDigits]; simp [h]

theorem digitsVal_snoc (ds : List Nat) (d : Nat) : jDigitsVal (ds ++ [d]) = jDigitsVal ds * 10 + (d - 48) := by
  simp [jDigitsVal, List.foldl_append]

theorem jDigitsVal_natDigits (n : Nat) : jDigitsVal (jNatDigits n) = n := by
  induction n using Nat.strongRecOn with
  | ind n ih =>
    by_cases h : n < 10
    · rw [natDigits_lt n h]; simp [jDigitsVal]
    · rw [natDigits_ge n h, digitsVal_snoc, ih (n / 10) (by omega)]; omega

theorem natDigits_digits (n : Nat) : ∀ c ∈ jNatDigits n, jIsDigit c = true := by
  induction n using Nat.strongRecOn with
  | ind n ih =>
    by_cases h : n < 10
    · rw [natDigits_lt n h]; intro c hc
      simp only [List.mem_singleton] at hc; subst hc
      simp only [jIsDigit, Bool.and_eq_true, decide_eq_true_eq]; omega
    · rw [natDigits_ge n h]; intro c hc
      rcases List.mem_append.mp hc with hc | hc
      · exact ih (n / 10) (by omega) c hc
      · simp only [List.mem_singleton] at hc; subst hc
        simp only [jIsDigit, Bool.and_eq_true, decide_eq_true_eq]; omega

theorem natDigits_head (n : Nat) (hn : 0 < n) : ∃ d ds, jNatDigits n = d :: ds ∧ d ≠ 48 := by
  induction n using Nat.strongRecOn with
  | ind n ih =>
    by_cases h : n < 10
    · exact ⟨48 + n, [], natDigits_lt n h, by omega⟩
    · obtain ⟨d, ds, hd, hne⟩ := ih (n / 10) (by omega) (by omega)
      exact ⟨d, ds ++ [48 + n % 10], by rw [natDigits_ge n h, hd]; rfl, hne⟩

theorem natDigits_shape (n : Nat) :
    ∃ d ds, jNatDigits n = d :: ds ∧ jIsDigit d = true ∧ ¬(d = 48 ∧ ds ≠ []) := by
  by_cases hn : n = 0
  · subst hn; exact ⟨48, [], natDigits_lt 0 (by omega), by decide, by simp⟩
  · obtain ⟨d, ds, hd, hne⟩ := natDigits_head n (by omega)
    refine ⟨d, ds, hd, ?_, fun h => hne h.1⟩
    exact natDigits_digits n d (by rw [hd]; simp)


/-- what may follow a number: nothing that would continue it -/
def numEnd : List Nat → Bool
  | [] => true
  | c :: _ => !jIsDigit c && c != 46 && c != 101 && c != 69

theorem takeDigits_append (ds rest : List Nat) (hds : ∀ c ∈ ds, jIsDigit c = true)
    (hrest : numEnd rest = true) : takeDigits (ds ++ rest) = (ds, rest) := by
  induction ds with
  | nil =>
    cases rest with
    | nil => rfl
    | cons c r =>
      have : jIsDigit c = false := by
        simp only [numEnd, Bool.and_eq_true, Bool.not_eq_true'] at hrest
        exact hrest.1.1.1
      simp [takeDigits, this]
  | cons d ds ih =>
    have hd : jIsDigit d = true := hds d (by simp)
    have := ih (fun c hc => hds c (List.mem_cons_of_mem _ hc))
    simp [takeDigits, hd, this]

theorem parseFrac_numEnd (rest : List Nat) (h : numEnd rest = true) : parseFrac rest = some (false, rest) := by
  cases rest with
  | nil => rfl
  | cons c r =>
    have : c ≠ 46 := by
      simp only [numEnd, Bool.and_eq_true, bne_iff_ne, ne_eq] at h
      exact h.1.1.2
    simp [parseFrac, this]

theorem parseExp_numEnd (rest : List Nat) (h : numEnd rest = true) : parseExp rest = some (false, rest) := by
  cases rest with
  | nil => rfl
  | cons c r =>
    have : c ≠ 101 ∧ c ≠ 69 := by
      simp only [numEnd, Bool.and_eq_true, bne_iff_ne, ne_eq] at h
      exact ⟨h.1.2, h.2⟩
    simp [parseExp, this]

theorem parseNumber_natDigits (n : Nat) (rest : List Nat) (h : numEnd rest = true) :
    parseNumber (jNatDigits n ++ rest) = some (Json.num n, rest) := by
  obtain ⟨d, ds, hd, hdig, hz⟩ := natDigits_shape n
  have h45 : d ≠ 45 := by
    simp only [jIsDigit, Bool.and_eq_true, decide_eq_true_eq] at hdig; omega
  have htd := takeDigits_append (jNatDigits n) rest (natDigits_digits n) h
  have hint : parseInt (jNatDigits n ++ rest) = some (jNatDigits n, rest) := by
    unfold parseInt
    rw [htd, hd]
    simp only [hz, if_false]
  have hbody : parseNumberBody false (jNatDigits n ++ rest) = some (Json.num n, rest) := by
    unfold parseNumberBody
    rw [hint]
    simp only [parseFrac_numEnd rest h, parseExp_numEnd rest h, jDigitsVal_natDigits]
    rfl
  rw [← hbody, hd]
  simp [parseNumber, h45]


/-! ## strings -/

theorem hexVal_hexDigit : ∀ a, a < 16 → hexVal (hexDigit a) = some a := by decide

theorem hex4_ctrl (c : Nat) (hc : c < 32) (rest : List Nat) :
    hex4 (48 :: 48 :: hexDigit (c / 16) :: hexDigit (c % 16) :: rest) = some (c, rest) := by
  have h0 : hexVal 48 = some 0 := by decide
  have h1 := hexVal_hexDigit (c / 16) (by omega)
  have h2 := hexVal_hexDigit (c % 16) (by omega)
  have hv : ((0 * 16 + 0) * 16 + c / 16) * 16 + c % 16 = c := by omega
  simp only [hex4, h0, h1, h2, hv]

theorem printChar_length_pos (c : Nat) : 1 ≤ (printChar c).length := by
  unfold printChar
  repeat' split
  all_goals simp

theorem parseStrBody_char (c : Nat) (hc : isScalar c = true) (fuel : Nat) (rest s r' : List Nat)
    (h : parseStrBody fuel rest = some (s, r')) :
    parseStrBody (fuel + 1) (printChar c ++ rest) = some (c :: s, r') := by
  by_cases h34 : c = 34
  · subst h34; simp [printChar, parseStrBody, parseEscape, h]
  by_cases h92 : c = 92
  · subst h92; simp [printChar, parseStrBody, parseEscape, h]
  by_cases h8 : c = 8
  · subst h8; simp [printChar, parseStrBody, parseEscape, h]
  by_cases h12 : c = 12
  · subst h12; simp [printChar, parseStrBody, parseEscape, h]
  by_cases h10 : c = 10
  · subst h10; simp [printChar, parseStrBody, parseEscape, h]
  by_cases h13 : c = 13
  · subst h13; simp [printChar, parseStrBody, parseEscape, h]
  by_cases h9 : c = 9
  · subst h9; simp [printChar, parseStrBody, parseEscape, h]
  by_cases hlt : c < 32
  · have hs1 : ¬(55296 ≤ c ∧ c < 56320) := by omega
    have hs2 : ¬(56320 ≤ c ∧ c < 57344) := by omega
    simp [printChar, h34, h92, h8, h12, h10, h13, h9, hlt, parseStrBody, parseEscape, hex4_ctrl c hlt, hs1, hs2, h]
  · simp [printChar, h34, h92, h8, h12, h10, h13, h9, hlt, parseStrBody, hc, h]

theorem parseStrBody_print (s : List Nat) (hs : s.all isScalar = true) :
    ∀ (fuel : Nat) (rest : List Nat), s.length + 1 ≤ fuel →
      parseStrBody fuel (printStrBody s ++ rest) = some (s, rest) := by
  induction s with
  | nil =>
    intro fuel rest hf
    cases fuel with
    | zero => omega
    | succ f => simp [printStrBody, parseStrBody]
  | cons c cs ih =>
    intro fuel rest hf
    simp only [List.all_cons, Bool.and_eq_true] at hs
    cases fuel with
    | zero => omega
    | succ f =>
      simp only [printStrBody, List.append_assoc]
      exact parseStrBody_char c hs.1 f _ cs rest
        (ih hs.2 f rest (by simp only [List.length_cons] at hf; omega))

theorem printStrBody_length (s : List Nat) : s.length + 1 ≤ (printStrBody s).length := by
  induction s with
  | nil => simp [printStrBody]
  | cons c cs ih =>
    have := printChar_length_pos c
    simp only [printStrBody, List.length_append, List.length_cons]; omega

theorem parseString_print (s : List Nat) (hs : s.all isScalar = true) (rest : List Nat) :
    parseString (printStrBody s ++ rest) = some (s, rest) := by
  unfold parseString
  apply parseStrBody_print s hs
  have := printStrBody_length s
  simp only [List.length_append]; omega


/-! ## values -/

theorem skipWs_cons (c : Nat) (r : List Nat) (h : jIsWs c = false) : skipWs (c :: r) = c :: r := by
  simp [skipWs, h]

/-- a printed value starts with a character that is neither whitespace nor a closing bracket -/
theorem printJson_head (v : Json) (rest : List Nat) :
    ∃ c tl, printJson v ++ rest = c :: tl ∧ jIsWs c = false ∧ c ≠ 93 ∧ c ≠ 125 := by
  cases v with
  | null => exact ⟨110, _, by simp only [printJson]; rfl, by decide, by decide, by decide⟩
  | bool b =>
    cases b
    · exact ⟨102, _, by simp only [printJson]; rfl, by decide, by decide, by decide⟩
    · exact ⟨116, _, by simp only [printJson]; rfl, by decide, by decide, by decide⟩
  | num n =>
    obtain ⟨d, ds, hd, hdig, _⟩ := natDigits_shape n
    simp only [jIsDigit, Bool.and_eq_true, decide_eq_true_eq] at hdig
    refine ⟨d, ds ++ rest, by simp only [printJson, hd]; rfl, ?_, by omega, by omega⟩
    have h1 : d ≠ 32 := by omega
    have h2 : d ≠ 9 := by omega
    have h3 : d ≠ 10 := by omega
    have h4 : d ≠ 13 := by omega
    simp [jIsWs, h1, h2, h3, h4]
  | float => exact ⟨45, _, by simp only [printJson]; rfl, by decide, by decide, by decide⟩
  | str s => exact ⟨34, _, by simp only [printJson, printStr]; rfl, by decide, by decide, by decide⟩
  | arr xs => exact ⟨91, _, by simp only [printJson]; rfl, by decide, by decide, by decide⟩
  | obj kvs => exact ⟨123, _, by simp only [printJson]; rfl, by decide, by decide, by decide⟩

theorem numEnd_printTail (xs : List Json) (rest : List Nat) : numEnd (printTail xs ++ rest) = true := by
  cases xs <;> simp only [printTail] <;> rfl

theorem numEnd_printMTail (kvs : List (Key × Json)) (rest : List Nat) : numEnd (printMTail kvs ++ rest) = true := by
  cases kvs with
  | nil => simp only [printMTail]; rfl
  | cons kv kvs => obtain ⟨k, x⟩ := kv; simp only [printMTail]; rfl

/-- the array loop, for any value parser that is right on the elements -/
theorem parseElems_print (pv : List Nat → Option (Json × List Nat)) (xs : List Json) :
    ∀ (x : Json) (n : Nat) (rest : List Nat), xs.length + 1 ≤ n →
      (∀ y ∈ x :: xs, ∀ r, numEnd r = true → pv (printJson y ++ r) = some (y, r)) →
      parseElems pv n (printJson x ++ printTail xs ++ rest) = some (x :: xs, rest) := by
  induction xs with
  | nil =>
    intro x n rest hn hpv
    cases n with
    | zero => omega
    | succ m =>
      have h1 := hpv x (by simp) (printTail [] ++ rest) (numEnd_printTail [] rest)
      rw [List.append_assoc]
      simp only [parseElems, h1]
      simp [printTail, skipWs, jIsWs]
  | cons y ys ih =>
    intro x n rest hn hpv
    cases n with
    | zero => omega
    | succ m =>
      have h1 := hpv x (by simp) (printTail (y :: ys) ++ rest) (numEnd_printTail (y :: ys) rest)
      have h2 := ih y m rest (by simp only [List.length_cons] at hn; omega)
        (fun z hz => hpv z (List.mem_cons_of_mem _ hz))
      rw [List.append_assoc]
      simp only [parseElems, h1]
      simp only [printTail, List.cons_append]
      rw [skipWs_cons 44 _ (by decide)]
      simp only [if_true]
      rw [h2]


/-- one member -/
theorem parseMember_print (pv : List Nat → Option (Json × List Nat)) (k : Key) (x : Json) (r : List Nat)
    (hk : k.wf = true) (hs : k.text.all isScalar = true)
    (hpv : pv (printJson x ++ r) = some (x, r)) :
    parseMember pv (printStr k.text ++ 58 :: (printJson x ++ r)) = some ((k, x), r) := by
  unfold parseMember
  simp only [printStr, List.cons_append]
  rw [skipWs_cons 34 _ (by decide)]
  simp only [if_true, parseString_print k.text hs]
  rw [skipWs_cons 58 _ (by decide)]
  simp only [if_true, hpv, Key.ofText_text k hk]

/-- the object loop -/
theorem parseMembers_print (pv : List Nat → Option (Json × List Nat)) (kvs : List (Key × Json)) :
    ∀ (k : Key) (x : Json) (n : Nat) (rest : List Nat), kvs.length + 1 ≤ n →
      (∀ kv ∈ (k, x) :: kvs, kv.1.wf = true ∧ kv.1.text.all isScalar = true ∧
        ∀ r, numEnd r = true → pv (printJson kv.2 ++ r) = some (kv.2, r)) →
      parseMembers pv n (printStr k.text ++ 58 :: (printJson x ++ printMTail kvs) ++ rest) =
        some ((k, x) :: kvs, rest) := by
  induction kvs with
  | nil =>
    intro k x n rest hn hpv
    cases n with
    | zero => omega
    | succ m =>
      obtain ⟨hk, hs, hx⟩ := hpv (k, x) (by simp)
      have h1 := parseMember_print pv k x (printMTail [] ++ rest) hk hs
        (hx _ (numEnd_printMTail [] rest))
      simp only [List.append_assoc, List.cons_append]
      simp only [parseMembers, h1]
      simp [printMTail, skipWs, jIsWs]
  | cons kv kvs ih =>
    obtain ⟨k', x'⟩ := kv
    intro k x n rest hn hpv
    cases n with
    | zero => omega
    | succ m =>
      obtain ⟨hk, hs, hx⟩ := hpv (k, x) (by simp)
      have h1 := parseMember_print pv k x (printMTail ((k', x') :: kvs) ++ rest) hk hs
        (hx _ (numEnd_printMTail _ rest))
      have h2 := ih k' x' m rest (by simp only [List.length_cons] at hn; omega)
        (fun z hz => hpv z (List.mem_cons_of_mem _ hz))
      simp only [List.append_assoc, List.cons_append]
      simp only [parseMembers, h1]
      simp only [printMTail, List.cons_append]
      rw [skipWs_cons 44 _ (by decide)]
      simp only [if_true]
      rw [h2]

/-! ### the cases of `parseValue` -/

theorem parseValue_null (fuel : Nat) (rest : List Nat) :
    parseValue (fuel + 1) (printJson .null ++ rest) = some (.null, rest) := by
  simp [printJson, parseValue, skipWs, jIsWs, jIsDigit, dropPrefix]

theorem parseValue_bool (fuel : Nat) (b : Bool) (rest : List Nat) :
    parseValue (fuel + 1) (printJson (.bool b) ++ rest) = some (.bool b, rest) := by
  cases b <;> simp [printJson, parseValue, skipWs, jIsWs, jIsDigit, dropPrefix]

theorem parseValue_num (fuel n : Nat) (rest : List Nat) (h : numEnd rest = true) :
    parseValue (fuel + 1) (printJson (.num n) ++ rest) = some (.num n, rest) := by
  obtain ⟨d, ds, hd, hdig, _⟩ := natDigits_shape n
  obtain ⟨c, tl, hc, hws, _, _⟩ := printJson_head (.num n) rest
  have hcd : c = d := by
    simp only [printJson, hd, List.cons_append, List.cons.injEq] at hc; exact hc.1.symm
  subst hcd
  have := parseNumber_natDigits n rest h
  simp only [printJson] at hc this ⊢
  rw [hc] at this ⊢
  simp only [parseValue, skipWs_cons c tl hws, hdig, Bool.true_or, if_true, this]

theorem parseValue_str (fuel : Nat) (s : List Nat) (hs : s.all isScalar = true) (rest : List Nat) :
    parseValue (fuel + 1) (printJson (.str s) ++ rest) = some (.str s, rest) := by
  simp only [printJson, printStr, List.cons_append, parseValue]
  rw [skipWs_cons 34 _ (by decide)]
  simp [jIsDigit, parseString_print s hs]

theorem parseValue_arr (fuel : Nat) (xs : List Json) (rest : List Nat) (hn : xs.length ≤ fuel)
    (hpv : ∀ y ∈ xs, ∀ r, numEnd r = true → parseValue fuel (printJson y ++ r) = some (y, r)) :
    parseValue (fuel + 1) (printJson (.arr xs) ++ rest) = some (.arr xs, rest) := by
  simp only [printJson, List.cons_append, parseValue]
  rw [skipWs_cons 91 _ (by decide)]
  cases xs with
  | nil => simp [jIsDigit, printElems, skipWs, jIsWs]
  | cons x xs =>
    obtain ⟨c, tl, hc, hws, h93, _⟩ := printJson_head x (printTail xs ++ rest)
    have hl := parseElems_print (parseValue fuel) xs x fuel rest
      (by simp only [List.length_cons] at hn; omega) hpv
    simp only [printElems, List.append_assoc] at hl ⊢
    rw [hc] at hl ⊢
    rw [skipWs_cons c tl hws]
    simp [jIsDigit, h93, hl]

theorem parseValue_obj (fuel : Nat) (kvs : List (Key × Json)) (rest : List Nat) (hn : kvs.length ≤ fuel)
    (hpv : ∀ kv ∈ kvs, kv.1.wf = true ∧ kv.1.text.all isScalar = true ∧
        ∀ r, numEnd r = true → parseValue fuel (printJson kv.2 ++ r) = some (kv.2, r)) :
    parseValue (fuel + 1) (printJson (.obj kvs) ++ rest) = some (.obj kvs, rest) := by
  simp only [printJson, List.cons_append, parseValue]
  rw [skipWs_cons 123 _ (by decide)]
  cases kvs with
  | nil => simp [jIsDigit, printMembers, skipWs, jIsWs]
  | cons kv kvs =>
    obtain ⟨k, x⟩ := kv
    have hl := parseMembers_print (parseValue fuel) kvs k x fuel rest
      (by simp only [List.length_cons] at hn; omega) hpv
    simp only [printMembers, printStr, List.append_assoc, List.cons_append] at hl ⊢
    rw [skipWs_cons 34 _ (by decide)]
    simp [jIsDigit, hl]


/-! ### lengths: the fuel `parseJson` gives is enough -/

theorem printTail_length (xs : List Json) : xs.length + 1 ≤ (printTail xs).length := by
  induction xs with
  | nil => simp [printTail]
  | cons x xs ih => simp only [printTail, List.length_cons, List.length_append]; omega

theorem printElems_length (xs : List Json) : xs.length ≤ (printElems xs).length := by
  cases xs with
  | nil => simp
  | cons x xs =>
    have := printTail_length xs
    simp only [printElems, List.length_cons, List.length_append]; omega

theorem printTail_mem (xs : List Json) : ∀ y ∈ xs, (printJson y).length + 1 ≤ (printTail xs).length := by
  induction xs with
  | nil => intro y hy; cases hy
  | cons x xs ih =>
    intro y hy
    simp only [printTail, List.length_cons, List.length_append]
    rcases List.mem_cons.mp hy with rfl | hy
    · omega
    · have := ih y hy; omega

theorem printElems_mem (xs : List Json) : ∀ y ∈ xs, (printJson y).length + 1 ≤ (printElems xs).length := by
  cases xs with
  | nil => intro y hy; cases hy
  | cons x xs =>
    intro y hy
    simp only [printElems, List.length_append]
    rcases List.mem_cons.mp hy with rfl | hy
    · have := printTail_length xs; omega
    · have := printTail_mem xs y hy; omega

theorem printMTail_length (kvs : List (Key × Json)) : kvs.length + 1 ≤ (printMTail kvs).length := by
  induction kvs with
  | nil => simp [printMTail]
  | cons kv kvs ih =>
    obtain ⟨k, x⟩ := kv
    simp only [printMTail, List.length_cons, List.length_append]; omega

theorem printMembers_length (kvs : List (Key × Json)) : kvs.length ≤ (printMembers kvs).length := by
  cases kvs with
  | nil => simp
  | cons kv kvs =>
    obtain ⟨k, x⟩ := kv
    have := printMTail_length kvs
    simp only [printMembers, List.length_cons, List.length_append]; omega

theorem printMTail_mem (kvs : List (Key × Json)) :
    ∀ kv ∈ kvs, (printJson kv.2).length + 1 ≤ (printMTail kvs).length := by
  induction kvs with
  | nil => intro y hy; cases hy
  | cons kv kvs ih =>
    obtain ⟨k, x⟩ := kv
    intro y hy
    simp only [printMTail, List.length_cons, List.length_append]
    rcases List.mem_cons.mp hy with rfl | hy
    · simp only; omega
    · have := ih y hy; omega

theorem printMembers_mem (kvs : List (Key × Json)) :
    ∀ kv ∈ kvs, (printJson kv.2).length + 1 ≤ (printMembers kvs).length := by
  cases kvs with
  | nil => intro y hy; cases hy
  | cons kv kvs =>
    obtain ⟨k, x⟩ := kv
    intro y hy
    simp only [printMembers, List.length_cons, List.length_append]
    rcases List.mem_cons.mp hy with rfl | hy
    · have := printMTail_length kvs; simp only; omega
    · have := printMTail_mem kvs y hy; omega

theorem textOKList_mem (xs : List Json) (h : textOKList xs = true) : ∀ y ∈ xs, y.textOK = true := by
  induction xs with
  | nil => intro y hy; cases hy
  | cons x xs ih =>
    simp only [textOKList, Bool.and_eq_true] at h
    intro y hy
    rcases List.mem_cons.mp hy with rfl | hy
    · exact h.1
    · exact ih h.2 y hy

theorem textOKMembers_mem (kvs : List (Key × Json)) (h : textOKMembers kvs = true) :
    ∀ kv ∈ kvs, kv.1.wf = true ∧ kv.1.text.all isScalar = true ∧ kv.2.textOK = true := by
  induction kvs with
  | nil => intro y hy; cases hy
  | cons kv kvs ih =>
    obtain ⟨k, x⟩ := kv
    simp only [textOKMembers, Bool.and_eq_true] at h
    intro y hy
    rcases List.mem_cons.mp hy with rfl | hy
    · exact ⟨h.1.1.1, h.1.1.2, h.1.2⟩
    · exact ih h.2 y hy

/-- **The value parser reads back every printed tree**, whatever follows it (if that cannot
    continue a number), given fuel for the length of the printed text. -/
theorem parseValue_printJson (fuel : Nat) :
    ∀ (v : Json) (rest : List Nat), v.textOK = true → (printJson v).length ≤ fuel →
      numEnd rest = true → parseValue (fuel + 1) (printJson v ++ rest) = some (v, rest) := by
  induction fuel using Nat.strongRecOn with
  | ind fuel ih =>
    intro v rest hv hlen hrest
    cases v with
    | null => exact parseValue_null fuel rest
    | bool b => exact parseValue_bool fuel b rest
    | num n => exact parseValue_num fuel n rest hrest
    | float => simp [Json.textOK] at hv
    | str s => exact parseValue_str fuel s (by simpa [Json.textOK] using hv) rest
    | arr xs =>
      simp only [Json.textOK] at hv
      simp only [printJson, List.length_cons] at hlen
      have hl := printElems_length xs
      apply parseValue_arr fuel xs rest (by omega)
      intro y hy r hr
      cases fuel with
      | zero => omega
      | succ f =>
        have := printElems_mem xs y hy
        exact ih f (by omega) y r (textOKList_mem xs hv y hy) (by omega) hr
    | obj kvs =>
      simp only [Json.textOK] at hv
      simp only [printJson, List.length_cons] at hlen
      have hl := printMembers_length kvs
      apply parseValue_obj fuel kvs rest (by omega)
      intro kv hkv
      obtain ⟨h1, h2, h3⟩ := textOKMembers_mem kvs hv kv hkv
      refine ⟨h1, h2, ?_⟩
      intro r hr
      cases fuel with
      | zero => omega
      | succ f =>
        have := printMembers_mem kvs kv hkv
        exact ih f (by omega) kv.2 r h3 (by omega) hr

/-- **Round trip**: `from_str (to_string v) = v` for every tree without `float` whose keys are
    well-formed and whose strings are Unicode text. -/
theorem parseJson_printJson (v : Json) (h : v.textOK = true) : parseJson (printJson v) = some v := by
  have := parseValue_printJson (printJson v).length v [] h (Nat.le_refl _) rfl
  rw [List.append_nil] at this
  simp [parseJson, this, skipWs]

/-- the printer is injective on these trees -/
theorem printJson_injective (a b : Json) (ha : a.textOK = true) (hb : b.textOK = true)
    (h : printJson a = printJson b) : a = b := by
  have h1 := parseJson_printJson a ha
  rw [h, parseJson_printJson b hb] at h1
  exact (Option.some.inj h1).symm


/-! ## Decidable equality of value trees (for the examples) -/

mutual
def Json.beq : Json → Json → Bool
  | .null, .null => true
  | .bool a, .bool b => a == b
  | .num a, .num b => a == b
  | .float, .float => true
  | .str a, .str b => a == b
  | .arr a, .arr b => beqList a b
  | .obj a, .obj b => beqMembers a b
  | _, _ => false
def beqList : List Json → List Json → Bool
  | [], [] => true
  | x :: xs, y :: ys => x.beq y && beqList xs ys
  | _, _ => false
def beqMembers : List (Key × Json) → List (Key × Json) → Bool
  | [], [] => true
  | (k, x) :: xs, (l, y) :: ys => k == l && x.beq y && beqMembers xs ys
  | _, _ => false
end

mutual
theorem Json.eq_of_beq : ∀ (a b : Json), a.beq b = true → a = b
  | .null, b, h => by cases b <;> simp [Json.beq] at h ⊢
  | .bool x, b, h => by cases b <;> simp [Json.beq] at h ⊢; exact h
  | .num x, b, h => by cases b <;> simp [Json.beq] at h ⊢; exact h
  | .float, b, h => by cases b <;> simp [Json.beq] at h ⊢
  | .str x, b, h => by cases b <;> simp [Json.beq] at h ⊢; exact h
  | .arr xs, b, h => by
    cases b with
    | arr ys => simp only [Json.beq] at h; rw [eqList_of_beq xs ys h]
    | _ => simp [Json.beq] at h
  | .obj xs, b, h => by
    cases b with
    | obj ys => simp only [Json.beq] at h; rw [eqMembers_of_beq xs ys h]
    | _ => simp [Json.beq] at h
theorem eqList_of_beq : ∀ (a b : List Json), beqList a b = true → a = b
  | [], b, h => by cases b <;> simp [beqList] at h ⊢
  | x :: xs, b, h => by
    cases b with
    | nil => simp [beqList] at h
    | cons y ys =>
      simp only [beqList, Bool.and_eq_true] at h
      rw [Json.eq_of_beq x y h.1, eqList_of_beq xs ys h.2]
theorem eqMembers_of_beq : ∀ (a b : List (Key × Json)), beqMembers a b = true → a = b
  | [], b, h => by cases b <;> simp [beqMembers] at h ⊢
  | (k, x) :: xs, b, h => by
    cases b with
    | nil => simp [beqMembers] at h
    | cons y ys =>
      obtain ⟨l, y⟩ := y
      simp only [beqMembers, Bool.and_eq_true, beq_iff_eq] at h
      rw [h.1.1, Json.eq_of_beq x y h.1.2, eqMembers_of_beq xs ys h.2]
end

mutual
theorem Json.beq_refl : ∀ (a : Json), a.beq a = true
  | .null => by simp [Json.beq]
  | .bool x => by simp [Json.beq]
  | .num x => by simp [Json.beq]
  | .float => by simp [Json.beq]
  | .str x => by simp [Json.beq]
  | .arr xs => by simp only [Json.beq]; exact beqList_refl xs
  | .obj xs => by simp only [Json.beq]; exact beqMembers_refl xs
theorem beqList_refl : ∀ (a : List Json), beqList a a = true
  | [] => by simp [beqList]
  | x :: xs => by simp only [beqList, Json.beq_refl x, beqList_refl xs]; rfl
theorem beqMembers_refl : ∀ (a : List (Key × Json)), beqMembers a a = true
  | [] => by simp [beqMembers]
  | (k, x) :: xs => by simp only [beqMembers, Json.beq_refl x, beqMembers_refl xs]; simp
end

instance : DecidableEq Json := fun a b =>
  decidable_of_iff (a.beq b = true) ⟨Json.eq_of_beq a b, fun h => h ▸ Json.beq_refl a⟩


/-! ## Configurations: text round trip on top of the value-tree round trip (C16) -/

theorem textOKList_of_forall (xs : List Json) (h : ∀ y ∈ xs, y.textOK = true) : textOKList xs = true := by
  induction xs with
  | nil => rfl
  | cons x xs ih =>
    simp only [textOKList, Bool.and_eq_true]
    exact ⟨h x (by simp), ih (fun y hy => h y (List.mem_cons_of_mem _ hy))⟩

/-- the strings of a pattern are Unicode text (always so for a Rust `String`) -/
def PatternC.textOK (p : PatternC) : Bool :=
  p.pattern.all isScalar &&
    match p.lookahead with
    | none => true
    | some l => l.pattern.all isScalar

def ModeC.textOK (m : ModeC) : Bool := m.name.all isScalar && m.patterns.all PatternC.textOK

theorem toJsonPattern_textOK (p : PatternC) (h : p.textOK = true) : (toJsonPattern p).textOK = true := by
  obtain ⟨pat, t, la⟩ := p
  cases la with
  | none =>
    simp only [PatternC.textOK, Bool.and_true] at h
    simp only [toJsonPattern, List.append_nil, Json.textOK, textOKMembers, h, Bool.and_true]
    decide
  | some l =>
    simp only [PatternC.textOK, Bool.and_eq_true] at h
    simp only [toJsonPattern, toJsonLookahead, List.cons_append, List.nil_append, Json.textOK, textOKMembers,
      h.1, h.2, Bool.and_true]
    decide

theorem toJsonTransition_textOK (t : Nat × Nat) : (toJsonTransition t).textOK = true := by
  simp [toJsonTransition, Json.textOK, textOKList]

theorem toJsonMode_textOK (m : ModeC) (h : m.textOK = true) : (toJsonMode m).textOK = true := by
  obtain ⟨n, ps, ts⟩ := m
  simp only [ModeC.textOK, Bool.and_eq_true, List.all_eq_true] at h
  have h1 : textOKList (ps.map toJsonPattern) = true := by
    apply textOKList_of_forall
    intro y hy
    obtain ⟨p, hp, rfl⟩ := List.mem_map.mp hy
    exact toJsonPattern_textOK p (h.2 p hp)
  have h2 : textOKList (ts.map toJsonTransition) = true := by
    apply textOKList_of_forall
    intro y hy
    obtain ⟨t, _, rfl⟩ := List.mem_map.mp hy
    exact toJsonTransition_textOK t
  have h0 : n.all isScalar = true := List.all_eq_true.mpr h.1
  simp only [toJsonMode, Json.textOK, textOKMembers, h0, h1, h2, Bool.and_true]
  decide

theorem toJsonModes_textOK (ms : List ModeC) (h : ∀ m ∈ ms, m.textOK = true) :
    (toJsonModes ms).textOK = true := by
  simp only [toJsonModes, Json.textOK]
  apply textOKList_of_forall
  intro y hy
  obtain ⟨m, hm, rfl⟩ := List.mem_map.mp hy
  exact toJsonMode_textOK m (h m hm)

/-- **`from_str (to_string cfg) = cfg`** in the model, text layer included: every configuration
    whose numbers fit `usize` and whose strings are Unicode text. -/
theorem modes_text_roundtrip (ms : List ModeC) (hr : ∀ m ∈ ms, m.inRange = true)
    (ht : ∀ m ∈ ms, m.textOK = true) :
    (parseJson (printJson (toJsonModes ms))).bind fromJsonModes = some ms := by
  rw [parseJson_printJson _ (toJsonModes_textOK ms ht)]
  exact C16.modes_roundtrip ms hr


/-! ## Examples

The parser is evaluated by the kernel (`decide +kernel`: plain kernel reduction of the `Decidable`
instance, no compiler, no additional axioms); the elaborator's own evaluator is too slow for
the fuel-driven functions. -/

namespace JsonTextEx

/-- the code points of a string literal -/
def cp (s : String) : List Nat := s.toList.map Char.toNat

/-- the field names are the ones of the crate -/
example : Key.known.map Key.text =
    ["name", "patterns", "transitions", "pattern", "token_type", "lookahead", "is_positive", "span",
     "start", "end", "start_position", "end_position", "line", "column"].map cp := by decide
example : Key.known.map (fun k => Key.ofText k.text) = Key.known := by decide
example : Key.ofText (cp "stop") = .other (cp "stop") := by decide
example : Key.wf (.other (cp "stop")) = true ∧ Key.wf (.other (cp "end")) = false := by decide

/-- A configuration in the layout of the README: spaces, a tab and newlines, `\u` escapes of either
    case, a surrogate pair, an escaped solidus, raw non-ASCII characters, a token type beyond 2^64,
    an unknown field. -/
def readmeLines : List String := [
  "[",
  "  {",
  "    \"name\": \"INITIAL\",",
  "    \"patterns\": [",
  "      { \"pattern\": \"\\\\r\\\\n|\\\\r|\\\\n\", \"token_type\": 1 },",
  "      { \"pattern\": \"\\u0041\\u00e9\\u20AC\\/é\", \"token_type\": 2 },",
  "      { \"pattern\": \"\\ud83d\\uDE00\\\"\",",
  "        \"token_type\": 18446744073709551617,",
  "        \"lookahead\": { \"is_positive\": false,",
  "                       \"pattern\": \"\\\\s\" } }",
  "    ],",
  "    \"transitions\": [ [2, 1] ,\t[ 3,0 ] ],",
  "    \"comment\" : null",
  "  }",
  "]"]
/-- the lines, each followed by a newline -/
def readmeText : List Nat := (readmeLines.map fun l => cp l ++ [10]).flatten

def readmeTree : Json :=
  .arr [.obj [(.name, .str (cp "INITIAL")),
    (.patterns, .arr [
      .obj [(.pattern, .str (cp "\\r\\n|\\r|\\n")), (.tokenType, .num 1)],
      .obj [(.pattern, .str [0x41, 0xE9, 0x20AC, 47, 0xE9]), (.tokenType, .num 2)],
      .obj [(.pattern, .str [0x1F600, 34]), (.tokenType, .num 18446744073709551617),
            (.lookahead, .obj [(.isPositive, .bool false), (.pattern, .str (cp "\\s"))])]]),
    (.transitions, .arr [.arr [.num 2, .num 1], .arr [.num 3, .num 0]]),
    (.other (cp "comment"), .null)]]


example : parseJson readmeText = some readmeTree := by decide +kernel

/-- the tree is one of the round-trip theorem -/
example : readmeTree.textOK = true := by decide +kernel

/-- the compact text that `to_string` writes for it reads back as well -/
example : parseJson (cp "[{\"name\":\"INITIAL\",\"patterns\":[{\"pattern\":\"\\\\r\\\\n|\\\\r|\\\\n\"," ++
    cp "\"token_type\":1},{\"pattern\":\"Aé€/é\",\"token_type\":2},{\"pattern\":\"😀\\\"\"," ++
    cp "\"token_type\":18446744073709551617,\"lookahead\":{\"is_positive\":false," ++
    cp "\"pattern\":\"\\\\s\"}}],\"transitions\":[[2,1],[3,0]],\"comment\":null}]") = some readmeTree := by
  decide +kernel

/-! numbers -/
example : parseJson (cp "340282366920938463463374607431768211456") =
    some (.num 340282366920938463463374607431768211456) := by decide +kernel
example : parseJson (cp "18446744073709551616") = some (.num (2 ^ 64)) := by decide +kernel
example : parseJson (cp "0") = some (.num 0) := by decide +kernel
example : parseJson (cp "-1") = some .float := by decide +kernel
example : parseJson (cp "-0") = some .float := by decide +kernel
example : parseJson (cp "1.5e3") = some .float := by decide +kernel
example : parseJson (cp "1E-2") = some .float := by decide +kernel
example : parseJson (cp " [ 10 , 2.0 ] ") = some (.arr [.num 10, .float]) := by decide +kernel
example : parseJson (cp "01") = none := by decide +kernel
example : parseJson (cp "-") = none := by decide +kernel
example : parseJson (cp "1.") = none := by decide +kernel
example : parseJson (cp ".5") = none := by decide +kernel
example : parseJson (cp "1e") = none := by decide +kernel
example : parseJson (cp "+1") = none := by decide +kernel

/-! structure -/
example : parseJson (cp "[1,]") = none := by decide +kernel
example : parseJson (cp "{\"a\":1,}") = none := by decide +kernel
example : parseJson (cp "[1 2]") = none := by decide +kernel
example : parseJson (cp "{\"a\" 1}") = none := by decide +kernel
example : parseJson (cp "[1") = none := by decide +kernel
example : parseJson (cp "[] x") = none := by decide +kernel
example : parseJson (cp "nulll") = none := by decide +kernel
example : parseJson (cp "{} {}") = none := by decide +kernel
example : parseJson (cp "") = none := by decide +kernel
example : parseJson (cp " {\n} ") = some (.obj []) := by decide +kernel
example : parseJson (cp "[[[[]]]]") = some (.arr [.arr [.arr [.arr []]]]) := by decide +kernel
/-- duplicate keys are kept in order; `end` is the key `stop`, `stop` is not -/
example : parseJson (cp "{\"end\":1,\"end\":2,\"stop\":3}") =
    some (.obj [(.stop, .num 1), (.stop, .num 2), (.other (cp "stop"), .num 3)]) := by decide +kernel

/-! strings -/
example : parseJson (cp "\"\\ud83d\\ude00\"") = some (.str [0x1F600]) := by decide +kernel
example : parseJson (cp "\"\\uD83D\"") = none := by decide +kernel
example : parseJson (cp "\"\\ude00\"") = none := by decide +kernel
example : parseJson (cp "\"\\ud83d\\u0041\"") = none := by decide +kernel
example : parseJson (cp "\"\\ud83dx\"") = none := by decide +kernel
example : parseJson (cp "\"a\nb\"") = none := by decide +kernel
example : parseJson (cp "\"a\\nb\"") = some (.str [97, 10, 98]) := by decide +kernel
example : parseJson (cp "\"\\x\"") = none := by decide +kernel
example : parseJson (cp "\"\\u12g4\"") = none := by decide +kernel
example : parseJson (cp "\"abc") = none := by decide +kernel
example : parseJson (cp "\"\\\"\\\\\\/\\b\\f\\n\\r\\t\"") = some (.str [34, 92, 47, 8, 12, 10, 13, 9]) := by
  decide +kernel
/-- a surrogate code point cannot occur in the text itself -/
example : parseJson [34, 0xD800, 34] = none := by decide +kernel

/-! the printer -/
example : printJson (.obj [(.stop, .str [34, 92, 8, 12, 10, 13, 9, 0, 31, 127, 233, 0x1F600]),
      (.other [107], .arr [.null, .bool true])]) =
    cp "{\"end\":\"\\\"\\\\\\b\\f\\n\\r\\t\\u0000\\u001f\x7fé😀\",\"k\":[null,true]}" := by decide +kernel
example : printJson (.arr []) = cp "[]" ∧ printJson (.obj []) = cp "{}" ∧ printJson .float = cp "-0.5" := by
  decide +kernel
example : jNatDigits 18446744073709551617 = cp "18446744073709551617" := by
  simp [jNatDigits]; decide +kernel
/-- without the side condition the round trip fails: `other "end"` comes back as `stop` -/
example : parseJson (printJson (.obj [(.other (cp "end"), .null)])) = some (.obj [(.stop, .null)]) := by
  decide +kernel
/-- and a string with a surrogate code point is not read back -/
example : parseJson (printJson (.str [0xD800])) = none := by decide +kernel

end JsonTextEx

end Scnr
