import ScnrVerif.Proofs.CompileCorrect
import ScnrVerif.Proofs.SpecFind
/-!
# A compiled mode with lookaheads against the pattern-level trailing-context rule (track A, C04)

`compileFull ps` is the model of `CompiledDfa::try_from_patterns`. The candidates of the declarative
automaton-level specification `specCands` are exactly the pattern-level candidates `PCand`: a
non-empty prefix matched by a pattern whose lookahead condition holds on the rest.
-/
namespace Scnr

/-- the lookahead condition on the rest `v`, with the lookahead length `l` (bytes): positive: the
    longest non-empty prefix of `v` the lookahead pattern matches; negative: none matches, `l = 0` -/
def LaHolds (cm : Nat → Nat → Bool) (la : Option (Bool × CAst)) (v : List Nat) (l : Nat) : Prop :=
  match la with
  | none => l = 0
  | some (true, a) =>
    (∃ u x, u ≠ [] ∧ v = u ++ x ∧ Matches cm a.toRe u ∧ l = bytesLen u) ∧
      ∀ u x, u ≠ [] → v = u ++ x → Matches cm a.toRe u → bytesLen u ≤ l
  | some (false, a) => l = 0 ∧ ¬ ∃ u x, u ≠ [] ∧ v = u ++ x ∧ Matches cm a.toRe u

/-- pattern-level candidate of a scan of `w` starting at byte `i` -/
def PCand (cm : Nat → Nat → Bool) (ps : List CPat) (i : Nat) (w : List Nat) (k : Cand) : Prop :=
  ∃ u v q, u ≠ [] ∧ w = u ++ v ∧ q ∈ ps ∧ q.tid = k.tid ∧ Matches cm q.ast.toRe u ∧
    k.endPos = i + bytesLen u ∧ ∃ l, LaHolds cm q.la v l ∧ k.extent = i + bytesLen u + l

theorem lookup_las (ps : List CPat) (hn : (ps.map (·.tid)).Nodup) (q : CPat) (hq : q ∈ ps) :
    (compileFull ps).las.lookup q.tid = q.la.map fun l => ⟨l.1, minimize (compileLaPre l.2)⟩ := by
  simp only [compileFull]
  induction ps with
  | nil => cases hq
  | cons p r ih =>
    simp only [List.map_cons, List.nodup_cons] at hn
    rcases List.mem_cons.mp hq with rfl | hq'
    · cases hla : q.la with
      | none =>
        simp only [List.filterMap_cons, hla, Option.map_none]
        -- no later pattern has this terminal
        have : ∀ r' : List CPat, (∀ x ∈ r', x.tid ≠ q.tid) →
            (r'.filterMap fun q => q.la.map fun l => (q.tid, (⟨l.1, minimize (compileLaPre l.2)⟩ : La))).lookup q.tid = none := by
          intro r' hr'
          induction r' with
          | nil => rfl
          | cons y ys ihy =>
            have hy := hr' y List.mem_cons_self
            cases hyl : y.la with
            | none => simp only [List.filterMap_cons, hyl, Option.map_none]; exact ihy (fun x hx => hr' x (List.mem_cons_of_mem _ hx))
            | some l =>
              simp only [List.filterMap_cons, hyl, Option.map_some, List.lookup_cons]
              have : (q.tid == y.tid) = false := by simp; exact fun h => hy h.symm
              simp only [this]
              exact ihy (fun x hx => hr' x (List.mem_cons_of_mem _ hx))
        exact this r (fun x hx he => hn.1 (List.mem_map.mpr ⟨x, hx, he⟩))
      | some l => simp [List.filterMap_cons, hla, List.lookup_cons]
    · have hne : p.tid ≠ q.tid := fun he => hn.1 (List.mem_map.mpr ⟨q, hq', he.symm⟩)
      cases hpl : p.la with
      | none => simp only [List.filterMap_cons, hpl, Option.map_none]; exact ih hn.2 hq'
      | some l =>
        simp only [List.filterMap_cons, hpl, Option.map_some, List.lookup_cons]
        have : (q.tid == p.tid) = false := by simp; exact fun h => hne h.symm
        simp only [this]
        exact ih hn.2 hq'

/-- the byte lengths collected for a lookahead automaton are those of the matched non-empty prefixes -/
theorem mem_accLens_la (cm : Nat → Nat → Bool) (a : CAst) (v : List Nat) (x : Nat) :
    x ∈ accLens (minimize (compileLaPre a)) cm v ↔
      ∃ u y, u ≠ [] ∧ v = u ++ y ∧ Matches cm a.toRe u ∧ x = bytesLen u := by
  rw [mem_accLens]
  constructor
  · rintro ⟨p, hp, ⟨s, hs, he⟩, rfl⟩
    obtain ⟨h1, h2⟩ := mem_splits.mp hp
    have hacc : acceptsTid (minimize (compileLaPre a)) cm p.1 ((minimize (compileLaPre a)).tidOf s) := ⟨s, hs, he, rfl⟩
    have := (compileLa_correct a cm p.1 _).mp hacc
    exact ⟨p.1, p.2, h1, h2, this.2.2, rfl⟩
  · rintro ⟨u, y, hu, hv, hm, rfl⟩
    obtain ⟨s, hs, he, _⟩ := (compileLa_correct a cm u 0).mpr ⟨hu, rfl, hm⟩
    exact ⟨(u, y), mem_splits.mpr ⟨hu, hv⟩, ⟨s, hs, he⟩, rfl⟩

theorem laSpec_iff (cm : Nat → Nat → Bool) (pos : Bool) (a : CAst) (v : List Nat) (l : Nat) :
    laSpec cm ⟨pos, minimize (compileLaPre a)⟩ v = some l ↔ LaHolds cm (some (pos, a)) v l := by
  simp only [laSpec]
  cases pos with
  | true =>
    simp only [LaHolds, if_true]
    by_cases hemp : (accLens (minimize (compileLaPre a)) cm v).isEmpty = true
    · simp only [hemp, if_true, reduceCtorEq, false_iff]
      rintro ⟨⟨u, x, hu, hv, hm, _⟩, _⟩
      have : bytesLen u ∈ accLens (minimize (compileLaPre a)) cm v :=
        (mem_accLens_la cm a v _).mpr ⟨u, x, hu, hv, hm, rfl⟩
      rw [List.isEmpty_iff.mp hemp] at this; cases this
    · simp only [hemp, Bool.false_eq_true, if_false, Option.some.injEq]
      have hne : accLens (minimize (compileLaPre a)) cm v ≠ [] := fun h => hemp (by simp [h])
      constructor
      · rintro rfl
        -- the maximum is attained and bounds every element
        have hmax : maxList (accLens (minimize (compileLaPre a)) cm v) ∈ accLens (minimize (compileLaPre a)) cm v := by
          generalize accLens (minimize (compileLaPre a)) cm v = L at hne
          induction L with
          | nil => exact absurd rfl hne
          | cons y r ih =>
            cases r with
            | nil => simp [maxList]
            | cons z zs =>
              have := ih (by simp)
              simp only [maxList] at this ⊢
              rcases Nat.le_total y (max z (maxList zs)) with h | h
              · rw [Nat.max_eq_right h]; exact List.mem_cons_of_mem _ this
              · rw [Nat.max_eq_left h]; exact List.mem_cons_self
        obtain ⟨u, x, hu, hv, hm, he⟩ := (mem_accLens_la cm a v _).mp hmax
        refine ⟨⟨u, x, hu, hv, hm, he⟩, ?_⟩
        intro u' x' hu' hv' hm'
        exact le_maxList ((mem_accLens_la cm a v _).mpr ⟨u', x', hu', hv', hm', rfl⟩)
      · rintro ⟨⟨u, x, hu, hv, hm, rfl⟩, hall⟩
        apply maxList_eq ((mem_accLens_la cm a v _).mpr ⟨u, x, hu, hv, hm, rfl⟩)
        intro y hy
        obtain ⟨u', x', hu', hv', hm', rfl⟩ := (mem_accLens_la cm a v _).mp hy
        exact hall u' x' hu' hv' hm'
  | false =>
    simp only [LaHolds, Bool.false_eq_true, if_false]
    by_cases hemp : (accLens (minimize (compileLaPre a)) cm v).isEmpty = true
    · simp only [hemp, if_true, Option.some.injEq]
      constructor
      · rintro rfl
        refine ⟨rfl, ?_⟩
        rintro ⟨u, x, hu, hv, hm⟩
        have : bytesLen u ∈ accLens (minimize (compileLaPre a)) cm v :=
          (mem_accLens_la cm a v _).mpr ⟨u, x, hu, hv, hm, rfl⟩
        rw [List.isEmpty_iff.mp hemp] at this; cases this
      · rintro ⟨rfl, _⟩; rfl
    · simp only [hemp, Bool.false_eq_true, if_false, reduceCtorEq, false_iff]
      rintro ⟨_, hno⟩
      apply hno
      cases hL : accLens (minimize (compileLaPre a)) cm v with
      | nil => simp [hL] at hemp
      | cons y r =>
        have : y ∈ accLens (minimize (compileLaPre a)) cm v := by rw [hL]; exact List.mem_cons_self
        obtain ⟨u, x, hu, hv, hm, _⟩ := (mem_accLens_la cm a v _).mp this
        exact ⟨u, x, hu, hv, hm⟩

theorem mode_laSpec_iff (ps : List CPat) (hn : (ps.map (·.tid)).Nodup) (cm : Nat → Nat → Bool) (q : CPat)
    (hq : q ∈ ps) (v : List Nat) (l : Nat) :
    (compileFull ps).laSpec cm q.tid v = some l ↔ LaHolds cm q.la v l := by
  simp only [ModeDfa.laSpec, lookup_las ps hn q hq]
  cases hla : q.la with
  | none => simp [LaHolds]; exact eq_comm
  | some pa =>
    obtain ⟨pos, a⟩ := pa
    simp only [Option.map_some]
    exact laSpec_iff cm pos a v l

/-- **candidates of a compiled mode are the pattern-level candidates** -/
theorem mem_specCands_full (ps : List CPat) (hn : (ps.map (·.tid)).Nodup) (cm : Nat → Nat → Bool) (i : Nat)
    (w : List Nat) (k : Cand) : k ∈ specCands (compileFull ps) cm i w ↔ PCand cm ps i w k := by
  rw [mem_specCands, candAt_iff]
  have hdfa : (compileFull ps).dfa = compileMode (ps.map fun q => (q.tid, q.ast)) := rfl
  constructor
  · rintro ⟨p, hp, s, hs, he, l, hl, rfl⟩
    obtain ⟨h1, h2⟩ := mem_splits.mp hp
    have hacc : acceptsTid (compileFull ps).dfa cm p.1 ((compileFull ps).dfa.tidOf s) := ⟨s, hs, he, rfl⟩
    rw [hdfa, compileMode_correct] at hacc
    obtain ⟨_, x, hx, hxt, hm⟩ := hacc
    obtain ⟨q, hq, rfl⟩ := List.mem_map.mp hx
    simp only at hxt hm
    rw [← hdfa] at hxt
    rw [← hxt] at hl
    exact ⟨p.1, p.2, q, h1, h2, hq, hxt, hm, rfl, l, (mode_laSpec_iff ps hn cm q hq _ _).mp hl, rfl⟩
  · rintro ⟨u, v, q, hu, hw, hq, ht, hm, he, l, hl, hx⟩
    have hacc : acceptsTid (compileFull ps).dfa cm u q.tid := by
      rw [hdfa, compileMode_correct]
      exact ⟨hu, (q.tid, q.ast), List.mem_map.mpr ⟨q, hq, rfl⟩, rfl, hm⟩
    obtain ⟨s, hs, hend, htid⟩ := hacc
    refine ⟨(u, v), mem_splits.mpr ⟨hu, hw⟩, s, hs, hend, l, ?_, ?_⟩
    · rw [htid]; exact (mode_laSpec_iff ps hn cm q hq _ _).mpr hl
    · cases k
      simp only at ht he hx
      simp only [Cand.mk.injEq]
      exact ⟨he, hx, by rw [htid, ht]⟩

end Scnr
