import ScnrVerif.Model.Equiv
import ScnrVerif.Proofs.Regex
import ScnrVerif.Proofs.FindFrom
/-!
# Soundness of the equivalence checker

`closed_sound`: for deterministic acceptor systems whose steps only depend on the membership vector
of the character, a candidate set closed under the representatives with agreeing acceptance proves
agreement of acceptance on **every** word. Instances: the dumped automaton (`dfaSys`, whose
acceptance is `acceptsTid`) and the pattern list (`reSys`, whose acceptance is `Matches`).
-/
namespace Scnr

/-! ## canonical lists keep membership -/

theorem mem_insertBy {α : Type} [DecidableEq α] (lt : α → α → Bool) (x y : α) (l : List α) :
    y ∈ insertBy lt x l ↔ y = x ∨ y ∈ l := by
  induction l with
  | nil => simp [insertBy]
  | cons a r ih =>
    unfold insertBy
    by_cases h1 : x = a
    · subst h1; simp
    · simp only [h1, if_false]
      cases h2 : lt x a with
      | true => simp
      | false =>
        simp only [Bool.false_eq_true, if_false, List.mem_cons, ih]
        constructor
        · rintro (h | h | h)
          · exact Or.inr (Or.inl h)
          · exact Or.inl h
          · exact Or.inr (Or.inr h)
        · rintro (h | h | h)
          · exact Or.inr (Or.inl h)
          · exact Or.inl h
          · exact Or.inr (Or.inr h)

theorem mem_normBy {α : Type} [DecidableEq α] (lt : α → α → Bool) (y : α) (l : List α) :
    y ∈ normBy lt l ↔ y ∈ l := by
  unfold normBy
  suffices ∀ acc, y ∈ l.foldl (fun acc x => insertBy lt x acc) acc ↔ y ∈ acc ∨ y ∈ l by simpa using this []
  induction l with
  | nil => intro acc; simp
  | cons a r ih =>
    intro acc
    simp only [List.foldl_cons, ih, mem_insertBy, List.mem_cons]
    constructor
    · rintro ((h | h) | h)
      · exact Or.inr (Or.inl h)
      · exact Or.inl h
      · exact Or.inr (Or.inr h)
    · rintro (h | h | h)
      · exact Or.inl (Or.inr h)
      · exact Or.inl (Or.inl h)
      · exact Or.inr h

theorem mem_normNat (y : Nat) (l : List Nat) : y ∈ normNat l ↔ y ∈ l := mem_normBy _ y l
theorem mem_normP (y : Nat × Re) (l : List (Nat × Re)) : y ∈ normP l ↔ y ∈ l := mem_normBy _ y l

/-! ## the generic argument -/

/-- Propositional content of `closedCheck`/`closedCheckH`. -/
structure Closed {σ τ : Type} (X : Sys σ) (Y : Sys τ) (reps : List Nat) (x0 : σ) (y0 : τ)
    (V : List (σ × τ)) : Prop where
  init : ∀ r ∈ reps, (X.step r x0, Y.step r y0) ∈ V
  acc : ∀ p ∈ V, X.acc p.1 = Y.acc p.2
  step : ∀ p ∈ V, ∀ r ∈ reps, (X.step r p.1, Y.step r p.2) ∈ V

/-- Every character behaves like one of the representatives, in both systems. -/
def RepsCover {σ τ : Type} (X : Sys σ) (Y : Sys τ) (reps : List Nat) : Prop :=
  ∀ c, ∃ r ∈ reps, (∀ s, X.step c s = X.step r s) ∧ (∀ s, Y.step c s = Y.step r s)

theorem closed_run {σ τ : Type} {X : Sys σ} {Y : Sys τ} {reps x0 y0 V} (hc : Closed X Y reps x0 y0 V)
    (hr : RepsCover X Y reps) (p : σ × τ) (hp : p ∈ V) (w : List Nat) :
    (X.run p.1 w, Y.run p.2 w) ∈ V := by
  induction w generalizing p with
  | nil => exact hp
  | cons c w ih =>
    obtain ⟨r, hrm, h1, h2⟩ := hr c
    simp only [Sys.run]
    rw [h1, h2]
    exact ih (X.step r p.1, Y.step r p.2) (hc.step p hp r hrm)

/-- **Soundness of the closure check**: acceptance agrees after every non-empty word. -/
theorem closed_sound {σ τ : Type} {X : Sys σ} {Y : Sys τ} {reps x0 y0 V} (hc : Closed X Y reps x0 y0 V)
    (hr : RepsCover X Y reps) (w : List Nat) (hw : w ≠ []) :
    X.acc (X.run x0 w) = Y.acc (Y.run y0 w) := by
  cases w with
  | nil => exact absurd rfl hw
  | cons c w =>
    obtain ⟨r, hrm, h1, h2⟩ := hr c
    simp only [Sys.run]
    rw [h1, h2]
    exact hc.acc _ (closed_run hc hr _ (hc.init r hrm) w)

theorem closedCheck_closed {σ τ : Type} [DecidableEq σ] [DecidableEq τ] {X : Sys σ} {Y : Sys τ}
    {reps x0 y0 initToo V} (h : closedCheck X Y reps x0 y0 initToo V = true) :
    Closed X Y reps x0 y0 V ∧ (initToo = true → X.acc x0 = Y.acc y0) := by
  unfold closedCheck at h
  simp only [Bool.and_eq_true, List.all_eq_true, List.contains_iff_mem, beq_iff_eq, Bool.or_eq_true,
    Bool.not_eq_true'] at h
  obtain ⟨⟨h1, h2⟩, h3⟩ := h
  refine ⟨⟨h1, fun p hp => (h2 p hp).1, fun p hp => (h2 p hp).2⟩, ?_⟩
  intro hi
  rcases h3 with h3 | h3
  · rw [hi] at h3; cases h3
  · exact h3

theorem mem_zipIdx_of_mem {α : Type} (l : List α) (x : α) (h : x ∈ l) : ∃ k, (x, k) ∈ l.zipIdx := by
  obtain ⟨i, hi, rfl⟩ := List.getElem_of_mem h
  exact ⟨i, by
    rw [List.mem_zipIdx_iff_getElem?]
    simp [hi]⟩

theorem closedCheckH_closed {σ τ : Type} [DecidableEq σ] [DecidableEq τ] {X : Sys σ} {Y : Sys τ}
    {reps x0 y0 initToo} {V : Array (σ × τ)} {h0 : Array Nat} {hs : Array (Array Nat)}
    (h : closedCheckH X Y reps x0 y0 initToo V h0 hs = true) :
    Closed X Y reps x0 y0 V.toList ∧ (initToo = true → X.acc x0 = Y.acc y0) := by
  unfold closedCheckH at h
  simp only [Bool.and_eq_true, List.all_eq_true, Bool.or_eq_true, Bool.not_eq_true', beq_iff_eq] at h
  obtain ⟨⟨h1, h2⟩, h3⟩ := h
  have memOf : ∀ (j : Nat) (q : σ × τ), V[j]? = some q → q ∈ V.toList := by
    intro j q hq
    have := Array.mem_of_getElem? hq
    exact Array.mem_toList_iff.mpr this
  have hpair : ∀ p ∈ V.toList, X.acc p.1 = Y.acc p.2 ∧
      ∀ r ∈ reps, (X.step r p.1, Y.step r p.2) ∈ V.toList := by
    intro p hp
    obtain ⟨i, hi, hpi⟩ := List.getElem_of_mem hp
    have hi' : i < V.size := by simpa using hi
    have := h2 i (List.mem_range.mpr hi')
    have hV : V[i]? = some p := by
      rw [Array.getElem?_eq_getElem hi']; simp [← hpi]
    rw [hV] at this
    simp only [Bool.and_eq_true, beq_iff_eq, List.all_eq_true] at this
    refine ⟨this.1, ?_⟩
    intro r hr
    obtain ⟨k, hk⟩ := mem_zipIdx_of_mem reps r hr
    exact memOf _ _ (this.2 (r, k) hk)
  refine ⟨⟨?_, fun p hp => (hpair p hp).1, fun p hp => (hpair p hp).2⟩, ?_⟩
  · intro r hr
    obtain ⟨k, hk⟩ := mem_zipIdx_of_mem reps r hr
    exact memOf _ _ (h1 (r, k) hk)
  · intro hi
    rcases h3 with h3 | h3
    · rw [hi] at h3; cases h3
    · exact h3

end Scnr

namespace Scnr

/-! ## the automaton system -/

theorem hits_congr_mem {A : Dfa} {cm c} {S S' : List Nat} (h : ∀ x, x ∈ S ↔ x ∈ S') (y : Nat) :
    y ∈ hits A cm c S ↔ y ∈ hits A cm c S' := by
  simp only [mem_hits]
  constructor
  · rintro ⟨s, hs, hy⟩; exact ⟨s, (h s).mp hs, hy⟩
  · rintro ⟨s, hs, hy⟩; exact ⟨s, (h s).mpr hs, hy⟩

theorem reach_congr {A : Dfa} {cm} (w : List Nat) {S S' : List Nat} (h : ∀ x, x ∈ S ↔ x ∈ S') (y : Nat) :
    y ∈ reach A cm S w ↔ y ∈ reach A cm S' w := by
  induction w generalizing S S' with
  | nil => exact h y
  | cons c w ih =>
    simp only [reach]
    apply ih
    intro x
    rw [mem_stepStates, mem_stepStates]
    exact hits_congr_mem h x

theorem dfaSys_run_mem (A : Dfa) (cm) (S : List Nat) (w : List Nat) (y : Nat) :
    y ∈ (dfaSys A cm).run S w ↔ y ∈ reach A cm S w := by
  induction w generalizing S with
  | nil => exact Iff.rfl
  | cons c w ih =>
    simp only [Sys.run, reach]
    rw [ih]
    apply reach_congr
    intro x
    simp only [dfaSys]
    exact mem_normNat x _

theorem mem_dfaSys_acc (A : Dfa) (cm) (S : List Nat) (t : Nat) :
    t ∈ (dfaSys A cm).acc S ↔ ∃ s ∈ S, A.isEnd s = true ∧ A.tidOf s = t := by
  simp only [dfaSys, mem_normNat, List.mem_map, List.mem_filter]
  constructor
  · rintro ⟨s, ⟨hs, he⟩, rfl⟩; exact ⟨s, hs, he, rfl⟩
  · rintro ⟨s, hs, he, rfl⟩; exact ⟨s, ⟨hs, he⟩, rfl⟩

/-- Acceptance of the automaton system is `acceptsTid`. -/
theorem dfaSys_acc_run (A : Dfa) (cm) (w : List Nat) (t : Nat) :
    t ∈ (dfaSys A cm).acc ((dfaSys A cm).run [0] w) ↔ acceptsTid A cm w t := by
  rw [mem_dfaSys_acc]
  unfold acceptsTid
  constructor
  · rintro ⟨s, hs, h⟩; exact ⟨s, (dfaSys_run_mem A cm [0] w s).mp hs, h⟩
  · rintro ⟨s, hs, h⟩; exact ⟨s, (dfaSys_run_mem A cm [0] w s).mpr hs, h⟩

theorem dfaSys_step_congr (A : Dfa) (cm) {c d : Nat} (h : ∀ id, cm id c = cm id d) (S : List Nat) :
    (dfaSys A cm).step c S = (dfaSys A cm).step d S := by
  simp only [dfaSys, stepStates, hits]
  have : hitsOf A cm c = hitsOf A cm d := by
    funext s
    simp only [hitsOf, h]
  rw [this]

/-! ## the pattern system -/

theorem mem_reSys_step (cm) (c : Nat) (D : List (Nat × Re)) (t : Nat) (r' : Re) :
    (t, r') ∈ (reSys cm).step c D ↔ ∃ r, (t, r) ∈ D ∧ r' ∈ pderiv cm c r := by
  simp only [reSys, mem_normP, List.mem_flatMap, List.mem_map]
  constructor
  · rintro ⟨p, hp, q, hq, heq⟩
    simp only [Prod.mk.injEq] at heq
    obtain ⟨rfl, rfl⟩ := heq
    exact ⟨p.2, hp, hq⟩
  · rintro ⟨r, hr, hq⟩
    exact ⟨(t, r), hr, r', hq, rfl⟩

/-- Acceptance of the pattern system is `Matches`. -/
theorem reSys_acc_run (cm) (D : List (Nat × Re)) (w : List Nat) (t : Nat) :
    t ∈ (reSys cm).acc ((reSys cm).run D w) ↔ ∃ r, (t, r) ∈ D ∧ Matches cm r w := by
  induction w generalizing D with
  | nil =>
    simp only [Sys.run, reSys, mem_normNat, List.mem_map, List.mem_filter]
    constructor
    · rintro ⟨p, ⟨hp, hn⟩, rfl⟩; exact ⟨p.2, hp, nullable_iff.mp hn⟩
    · rintro ⟨r, hr, hm⟩; exact ⟨(t, r), ⟨hr, nullable_iff.mpr hm⟩, rfl⟩
  | cons c w ih =>
    simp only [Sys.run]
    rw [ih]
    constructor
    · rintro ⟨r', hr', hm⟩
      obtain ⟨r, hr, hd⟩ := (mem_reSys_step cm c D t r').mp hr'
      exact ⟨r, hr, matches_cons_iff.mpr ⟨r', hd, hm⟩⟩
    · rintro ⟨r, hr, hm⟩
      obtain ⟨r', hd, hm'⟩ := matches_cons_iff.mp hm
      exact ⟨r', (mem_reSys_step cm c D t r').mpr ⟨r, hr, hd⟩, hm'⟩

theorem reSys_step_congr (cm) {c d : Nat} (h : ∀ id, cm id c = cm id d) (D : List (Nat × Re)) :
    (reSys cm).step c D = (reSys cm).step d D := by
  simp only [reSys]
  have : (fun p : Nat × Re => (pderiv cm c p.2).map fun r => (p.1, r)) =
      (fun p : Nat × Re => (pderiv cm d p.2).map fun r => (p.1, r)) := by
    funext p; rw [pderiv_congr h]
  rw [this]

/-! ## representatives -/

/-- the largest element of the list that is `≤ c` (0 if none) -/
def maxLe (c : Nat) : List Nat → Nat
  | [] => 0
  | x :: r => if x ≤ c ∧ maxLe c r ≤ x then x else maxLe c r

theorem maxLe_le (c : Nat) (l : List Nat) : maxLe c l ≤ c := by
  induction l with
  | nil => simp [maxLe]
  | cons x r ih =>
    simp only [maxLe]
    split
    · rename_i h; exact h.1
    · exact ih

theorem maxLe_mem (c : Nat) (l : List Nat) : maxLe c l = 0 ∨ maxLe c l ∈ l := by
  induction l with
  | nil => simp [maxLe]
  | cons x r ih =>
    simp only [maxLe]
    split
    · right; simp
    · rcases ih with h | h
      · exact Or.inl h
      · right; simp [h]

theorem maxLe_max (c : Nat) (l : List Nat) : ∀ x ∈ l, x ≤ c → x ≤ maxLe c l := by
  induction l with
  | nil => intro x hx; cases hx
  | cons a r ih =>
    intro x hx hle
    simp only [maxLe]
    rcases List.mem_cons.mp hx with rfl | hx
    · split
      · exact Nat.le_refl _
      · rename_i h; simp only [not_and, Nat.not_le] at h; have := h hle; omega
    · have := ih x hx hle
      split
      · rename_i h; omega
      · exact this

theorem inRanges_eq_of_boundaries (t : List (Nat × Nat)) (c b : Nat) (hbc : b ≤ c)
    (hlo : ∀ p ∈ t, p.1 ≤ c → p.1 ≤ b) (hhi : ∀ p ∈ t, p.2 + 1 ≤ c → p.2 + 1 ≤ b) :
    inRanges t c = inRanges t b := by
  unfold inRanges
  induction t with
  | nil => rfl
  | cons p r ih =>
    simp only [List.any_cons]
    rw [ih (fun q hq => hlo q (by simp [hq])) (fun q hq => hhi q (by simp [hq]))]
    congr 1
    have h1 := hlo p (by simp)
    have h2 := hhi p (by simp)
    by_cases hc : p.1 ≤ c ∧ c ≤ p.2
    · have : p.1 ≤ b ∧ b ≤ p.2 := ⟨h1 hc.1, by omega⟩
      simp [hc.1, hc.2, this.1, this.2]
    · have : ¬ (p.1 ≤ b ∧ b ≤ p.2) := by
        intro hb
        apply hc
        refine ⟨by omega, ?_⟩
        by_cases hh : p.2 + 1 ≤ c
        · have := h2 hh; omega
        · omega
      by_cases a1 : p.1 ≤ c <;> by_cases a2 : c ≤ p.2 <;> by_cases a3 : p.1 ≤ b <;> by_cases a4 : b ≤ p.2 <;>
        simp [a1, a2, a3, a4] <;> simp_all

theorem mem_boundariesOf {Ts : List (List (Nat × Nat))} {t : List (Nat × Nat)} {p : Nat × Nat}
    (ht : t ∈ Ts) (hp : p ∈ t) : p.1 ∈ boundariesOf Ts ∧ p.2 + 1 ∈ boundariesOf Ts := by
  unfold boundariesOf
  simp only [List.mem_cons, List.mem_flatMap]
  exact ⟨Or.inr ⟨t, ht, p, hp, by simp⟩, Or.inr ⟨t, ht, p, hp, by simp⟩⟩

/-- Some boundary has the same membership vector as the character. -/
theorem boundaries_cover (Ts : List (List (Nat × Nat))) (c : Nat) :
    ∃ b ∈ boundariesOf Ts, sigOf Ts c = sigOf Ts b := by
  refine ⟨maxLe c (boundariesOf Ts), ?_, ?_⟩
  · rcases maxLe_mem c (boundariesOf Ts) with h | h
    · rw [h]; simp [boundariesOf]
    · exact h
  · unfold sigOf
    apply List.map_congr_left
    intro t ht
    apply inRanges_eq_of_boundaries t c _ (maxLe_le c _)
    · intro p hp hle
      exact maxLe_max c _ _ (mem_boundariesOf ht hp).1 hle
    · intro p hp hle
      exact maxLe_max c _ _ (mem_boundariesOf ht hp).2 hle

theorem dedupSig_cover (l acc : List (Nat × List Bool)) :
    (∀ x ∈ acc, ∃ y ∈ dedupSig l acc, y.2 = x.2) ∧ (∀ x ∈ l, ∃ y ∈ dedupSig l acc, y.2 = x.2) := by
  induction l generalizing acc with
  | nil =>
    simp only [dedupSig]
    exact ⟨fun x hx => ⟨x, hx, rfl⟩, fun x hx => by cases hx⟩
  | cons r rs ih =>
    simp only [dedupSig]
    by_cases h : acc.any (fun a => a.2 == r.2) = true
    · simp only [h, if_true]
      obtain ⟨i1, i2⟩ := ih acc
      refine ⟨i1, ?_⟩
      intro x hx
      rcases List.mem_cons.mp hx with rfl | hx
      · simp only [List.any_eq_true, beq_iff_eq] at h
        obtain ⟨a, ha, hae⟩ := h
        obtain ⟨y, hy, hye⟩ := i1 a ha
        exact ⟨y, hy, by rw [hye, hae]⟩
      · exact i2 x hx
    · simp only [h]
      obtain ⟨i1, i2⟩ := ih (r :: acc)
      refine ⟨fun x hx => i1 x (List.mem_cons_of_mem _ hx), ?_⟩
      intro x hx
      rcases List.mem_cons.mp hx with rfl | hx
      · exact i1 x (by simp)
      · exact i2 x hx

/-- **Representatives cover the alphabet**: every code point has a representative with the same
    membership in every table. -/
theorem mkReps_cover (Ts : List (List (Nat × Nat))) (c : Nat) :
    ∃ r ∈ mkReps Ts, ∀ t ∈ Ts, inRanges t c = inRanges t r := by
  obtain ⟨b, hb, hsig⟩ := boundaries_cover Ts c
  have := (dedupSig_cover ((boundariesOf Ts).map fun b => (b, sigOf Ts b)) []).2 (b, sigOf Ts b)
    (List.mem_map.mpr ⟨b, hb, rfl⟩)
  obtain ⟨y, hy, hye⟩ := this
  have hysig : y.2 = sigOf Ts y.1 := by
    -- every element of the result comes from the mapped list
    have hall : ∀ (l acc : List (Nat × List Bool)), (∀ x ∈ l, x.2 = sigOf Ts x.1) →
        (∀ x ∈ acc, x.2 = sigOf Ts x.1) → ∀ x ∈ dedupSig l acc, x.2 = sigOf Ts x.1 := by
      intro l
      induction l with
      | nil => intro acc _ h2 x hx; exact h2 x hx
      | cons r rs ih =>
        intro acc h1 h2 x hx
        simp only [dedupSig] at hx
        split at hx
        · exact ih acc (fun z hz => h1 z (List.mem_cons_of_mem _ hz)) h2 x hx
        · exact ih (r :: acc) (fun z hz => h1 z (List.mem_cons_of_mem _ hz))
            (fun z hz => by
              rcases List.mem_cons.mp hz with rfl | hz
              · exact h1 z (by simp)
              · exact h2 z hz) x hx
    exact hall _ [] (fun x hx => by
      obtain ⟨b', _, rfl⟩ := List.mem_map.mp hx; rfl) (fun x hx => by cases hx) y hy
  refine ⟨y.1, List.mem_map.mpr ⟨y, hy, rfl⟩, ?_⟩
  intro t ht
  have h1 : sigOf Ts c = sigOf Ts y.1 := by rw [hsig, ← hysig, hye]
  unfold sigOf at h1
  have := List.map_inj_left.mp h1
  exact this t ht

theorem cmT_congr_of_tables {Ts T : List (List (Nat × Nat))} (hsub : ∀ t ∈ T, t ∈ Ts) {c r : Nat}
    (h : ∀ t ∈ Ts, inRanges t c = inRanges t r) (id : Nat) : cmT T id c = cmT T id r := by
  unfold cmT
  by_cases hid : id < T.length
  · have hm : T.getD id [] ∈ T := by
      rw [List.getD_eq_getElem?_getD, List.getElem?_eq_getElem hid]; simp
    exact h _ (hsub _ hm)
  · have : T.getD id [] = [] := by
      rw [List.getD_eq_getElem?_getD, List.getElem?_eq_none (by omega)]; rfl
    rw [this]; rfl

end Scnr
