import ScnrVerif.Model.Class
import ScnrVerif.Proofs.Equiv
/-!
# Class evaluation is the set algebra; the per-expression check is exhaustive
-/
namespace Scnr

theorem xor_ff (a : Bool) : (a != false) = a := by cases a <;> rfl

mutual
theorem evalItem_eq_den (env : Nat → Nat → Bool) (i : CItem) (h : i.noVerbDot = true) (n : Bool) (ch : Nat) :
    evalItem env i n ch = (denItem env i ch != n) := by
  cases i with
  | empty => simp [evalItem, denItem]
  | lit c vd =>
    simp only [CItem.noVerbDot, Bool.not_eq_true'] at h
    subst h
    simp only [evalItem, denItem, inRanges, Bool.false_eq_true, if_false, List.any_cons, List.any_nil,
      Bool.or_false]
    congr 1
    by_cases hc : ch = c
    · simp [hc]
    · have : ¬ (c ≤ ch ∧ ch ≤ c) := by omega
      have h1 : (ch == c) = false := by simp [hc]
      rw [h1]
      by_cases a1 : c ≤ ch <;> by_cases a2 : ch ≤ c <;> simp [a1, a2] <;> omega
  | range lo hi => simp [evalItem, denItem, inRanges]
  | named id neg => simp [evalItem, denItem]
  | bracketed neg s =>
    simp only [CItem.noVerbDot] at h
    simp only [evalItem, denItem]
    rw [evalSetN_eq_den env s h neg ch]
  | union a b =>
    simp only [CItem.noVerbDot, Bool.and_eq_true] at h
    simp only [evalItem, denItem]
    rw [evalItem_eq_den env a h.1 false ch, evalItem_eq_den env b h.2 false ch, xor_ff, xor_ff]
theorem evalSetN_eq_den (env : Nat → Nat → Bool) (s : CSet) (h : s.noVerbDot = true) (n : Bool) (ch : Nat) :
    evalSetN env n s ch = (denSet env s ch != n) := by
  cases s with
  | item i =>
    simp only [CSet.noVerbDot] at h
    simp only [evalSetN, denSet]
    exact evalItem_eq_den env i h n ch
  | binop k l r =>
    simp only [CSet.noVerbDot, Bool.and_eq_true] at h
    simp only [evalSetN, denSet]
    rw [evalSetN_eq_den env l h.1 false ch, evalSetN_eq_den env r h.2 false ch, xor_ff, xor_ff]
end

/-! ## denotation only depends on the membership vector -/
mutual
theorem denItem_congr (E : List (List (Nat × Nat))) (i : CItem) (c b : Nat)
    (h : ∀ t ∈ i.tables ++ E, inRanges t c = inRanges t b) :
    denItem (cmT E) i c = denItem (cmT E) i b := by
  cases i with
  | empty => rfl
  | lit x vd => simp only [denItem]; exact h _ (by simp [CItem.tables])
  | range lo hi => simp only [denItem]; exact h _ (by simp [CItem.tables])
  | named id neg =>
    simp only [denItem]
    rw [cmT_congr_of_tables (Ts := E) (T := E) (fun t ht => ht) (fun t ht => h t (by simp [ht])) id]
  | bracketed neg s =>
    simp only [denItem]
    rw [denSet_congr E s c b (fun t ht => h t (by simpa [CItem.tables] using ht))]
  | union x y =>
    simp only [denItem]
    rw [denItem_congr E x c b (fun t ht => h t (by
          simp only [CItem.tables, List.mem_append] at ht ⊢
          rcases ht with ht | ht
          · exact Or.inl (Or.inl ht)
          · exact Or.inr ht)),
      denItem_congr E y c b (fun t ht => h t (by
          simp only [CItem.tables, List.mem_append] at ht ⊢
          rcases ht with ht | ht
          · exact Or.inl (Or.inr ht)
          · exact Or.inr ht))]
theorem denSet_congr (E : List (List (Nat × Nat))) (s : CSet) (c b : Nat)
    (h : ∀ t ∈ s.tables ++ E, inRanges t c = inRanges t b) :
    denSet (cmT E) s c = denSet (cmT E) s b := by
  cases s with
  | item i =>
    simp only [denSet]
    exact denItem_congr E i c b (fun t ht => h t (by simpa [CSet.tables] using ht))
  | binop k l r =>
    simp only [denSet]
    rw [denSet_congr E l c b (fun t ht => h t (by
          simp only [CSet.tables, List.mem_append] at ht ⊢
          rcases ht with ht | ht
          · exact Or.inl (Or.inl ht)
          · exact Or.inr ht)),
      denSet_congr E r c b (fun t ht => h t (by
          simp only [CSet.tables, List.mem_append] at ht ⊢
          rcases ht with ht | ht
          · exact Or.inl (Or.inr ht)
          · exact Or.inr ht))]
end

/-- **The per-expression check is exhaustive**: if it passes, the real table agrees with the
    denotation on every code point (the real table holds scalar values only). -/
theorem classCheck_sound (E : List (List (Nat × Nat))) (neg : Bool) (s : CSet) (real : List (Nat × Nat))
    (h : classCheck E neg s real = true) (c : Nat) :
    inRanges real c = (inRanges scalarTable c && (denSet (cmT E) s c != neg)) := by
  unfold classCheck at h
  simp only [List.all_eq_true, beq_iff_eq] at h
  obtain ⟨b, hb, hsame⟩ := mkReps_cover (real :: scalarTable :: (s.tables ++ E)) c
  rw [hsame real (by simp), hsame scalarTable (by simp), h b hb]
  congr 2
  exact (denSet_congr E s c b (fun t ht => hsame t (by simp only [List.mem_cons]; exact Or.inr (Or.inr ht)))).symm

end Scnr
