import ScnrVerif.Model.Registry
import ScnrVerif.Proofs.Agree
import ScnrVerif.Proofs.FullMode
/-!
# The class registry assigns ids faithfully (for every scanner)

`assign_spec`: translating an AST whose leaves are keys into one whose leaves are registry positions
keeps the registry duplicate-free and only appends to it; every id it hands out is registered; and
under the class function of any later registry (`regCm R' sem`, `R'` an extension) the translated AST
denotes the language of the key-level AST under `sem`.
-/
namespace Scnr

theorem regAdd_prefix (R : List Nat) (k : Nat) : R <+: (regAdd R k).1 := by
  unfold regAdd; split
  · exact List.prefix_refl R
  · exact List.prefix_append R [k]

theorem regAdd_nodup (R : List Nat) (k : Nat) (h : R.Nodup) : (regAdd R k).1.Nodup := by
  unfold regAdd; split
  · exact h
  · rename_i hk
    rw [List.nodup_append]
    refine ⟨h, by simp, ?_⟩
    intro a ha b hb
    simp only [List.mem_singleton] at hb
    subst hb
    intro he; subst he; exact hk ha

theorem regAdd_get (R : List Nat) (k : Nat) : (regAdd R k).1[(regAdd R k).2]? = some k := by
  unfold regAdd; split
  · rename_i hk
    have hlt : R.idxOf k < R.length := List.idxOf_lt_length_of_mem hk
    exact List.getElem?_eq_some_iff.mpr ⟨hlt, List.getElem_idxOf hlt⟩
  · simp

theorem prefix_getElem? {R R' : List Nat} (h : R <+: R') {i k : Nat} (hi : R[i]? = some k) : R'[i]? = some k := by
  obtain ⟨t, rfl⟩ := h
  obtain ⟨hlt, _⟩ := List.getElem?_eq_some_iff.mp hi
  rw [List.getElem?_append_left hlt]; exact hi

/-- a registered position keeps its key in every extension -/
theorem regCm_prefix {R R' : List Nat} (h : R <+: R') (sem : Nat → Nat → Bool) {id : Nat} (hid : id < R.length) :
    regCm R' sem id = regCm R sem id := by
  obtain ⟨t, rfl⟩ := h
  funext c
  simp only [regCm, List.getElem?_append_left hid]

theorem sameLang_regLeaf {R' : List Nat} {id k : Nat} (h : R'[id]? = some k) (sem : Nat → Nat → Bool) :
    SameLang (regCm R' sem) sem (.cls id) (.cls k) := by
  have hf : ∀ ch, regCm R' sem id ch = sem k ch := by intro ch; simp only [regCm, h]
  intro w
  constructor
  · intro hm
    cases hm with
    | cls hc => exact .cls (by rw [← hf]; exact hc)
  · intro hm
    cases hm with
    | cls hc => exact .cls (by rw [hf]; exact hc)

mutual
theorem idsBelow_mono {n m : Nat} (hnm : n ≤ m) : (a : CAst) → a.idsBelow n = true → a.idsBelow m = true
  | .empty, _ => by simp only [CAst.idsBelow]
  | .leaf c, h => by
    simp only [CAst.idsBelow, decide_eq_true_eq] at h ⊢; omega
  | .concat xs, h => by
    simp only [CAst.idsBelow] at h ⊢; exact idsBelowList_mono hnm xs h
  | .alt xs, h => by
    simp only [CAst.idsBelow] at h ⊢; exact idsBelowList_mono hnm xs h
  | .opt x, h => by
    simp only [CAst.idsBelow] at h ⊢; exact idsBelow_mono hnm x h
  | .star x, h => by
    simp only [CAst.idsBelow] at h ⊢; exact idsBelow_mono hnm x h
  | .plus x, h => by
    simp only [CAst.idsBelow] at h ⊢; exact idsBelow_mono hnm x h
  | .exactly _ x, h => by
    simp only [CAst.idsBelow] at h ⊢; exact idsBelow_mono hnm x h
  | .atLeast _ x, h => by
    simp only [CAst.idsBelow] at h ⊢; exact idsBelow_mono hnm x h
  | .bounded _ _ x, h => by
    simp only [CAst.idsBelow] at h ⊢; exact idsBelow_mono hnm x h
theorem idsBelowList_mono {n m : Nat} (hnm : n ≤ m) : (xs : List CAst) → CAst.idsBelowList n xs = true →
    CAst.idsBelowList m xs = true
  | [], _ => by simp only [CAst.idsBelowList]
  | x :: xs, h => by
    simp only [CAst.idsBelowList, Bool.and_eq_true] at h ⊢
    exact ⟨idsBelow_mono hnm x h.1, idsBelowList_mono hnm xs h.2⟩
end

mutual
theorem assign_spec_aux : (a : CAst) → (R : List Nat) → R.Nodup →
    R <+: (assign a R).2 ∧ (assign a R).2.Nodup ∧
    (assign a R).1.idsBelow (assign a R).2.length = true ∧
    ∀ R', (assign a R).2 <+: R' → ∀ sem : Nat → Nat → Bool,
      SameLang (regCm R' sem) sem (assign a R).1.toRe a.toRe
  | .empty, R, hR => by
    simp only [assign, CAst.idsBelow, CAst.toRe]
    exact ⟨List.prefix_refl R, hR, trivial, fun _ _ _ => sameLang_eps _ _⟩
  | .leaf k, R, hR => by
    simp only [assign, CAst.idsBelow, CAst.toRe, decide_eq_true_eq]
    refine ⟨regAdd_prefix R k, regAdd_nodup R k hR, ?_, ?_⟩
    · exact (List.getElem?_eq_some_iff.mp (regAdd_get R k)).1
    · intro R' hR' sem
      exact sameLang_regLeaf (prefix_getElem? hR' (regAdd_get R k)) sem
  | .concat xs, R, hR => by
    obtain ⟨h1, h2, h3, h4⟩ := assignList_spec_aux xs R hR
    simp only [assign, CAst.idsBelow, CAst.toRe]
    exact ⟨h1, h2, h3, fun R' hR' sem => sameLang_catList (h4 R' hR' sem)⟩
  | .alt [], R, hR => by
    simp only [assign, assignList, CAst.idsBelow, CAst.idsBelowList, CAst.toRe]
    exact ⟨List.prefix_refl R, hR, trivial, fun _ _ _ => sameLang_eps _ _⟩
  | .alt (x :: xs), R, hR => by
    obtain ⟨h1, h2, h3, h4⟩ := assignList_spec_aux (x :: xs) R hR
    simp only [assign, CAst.idsBelow]
    refine ⟨h1, h2, h3, ?_⟩
    intro R' hR' sem
    have := h4 R' hR' sem
    simp only [assignList, CAst.toReList] at this hR'
    simp only [assignList, CAst.toRe]
    exact sameLang_altList this
  | .opt x, R, hR => by
    obtain ⟨h1, h2, h3, h4⟩ := assign_spec_aux x R hR
    simp only [assign, CAst.idsBelow, CAst.toRe]
    exact ⟨h1, h2, h3, fun R' hR' sem => sameLang_opt (h4 R' hR' sem)⟩
  | .star x, R, hR => by
    obtain ⟨h1, h2, h3, h4⟩ := assign_spec_aux x R hR
    simp only [assign, CAst.idsBelow, CAst.toRe]
    exact ⟨h1, h2, h3, fun R' hR' sem => sameLang_star (h4 R' hR' sem)⟩
  | .plus x, R, hR => by
    obtain ⟨h1, h2, h3, h4⟩ := assign_spec_aux x R hR
    simp only [assign, CAst.idsBelow, CAst.toRe]
    exact ⟨h1, h2, h3, fun R' hR' sem => sameLang_cat (h4 R' hR' sem) (sameLang_star (h4 R' hR' sem))⟩
  | .exactly n x, R, hR => by
    obtain ⟨h1, h2, h3, h4⟩ := assign_spec_aux x R hR
    simp only [assign, CAst.idsBelow, CAst.toRe]
    exact ⟨h1, h2, h3, fun R' hR' sem => sameLang_pow (h4 R' hR' sem) _⟩
  | .atLeast n x, R, hR => by
    obtain ⟨h1, h2, h3, h4⟩ := assign_spec_aux x R hR
    simp only [assign, CAst.idsBelow, CAst.toRe]
    exact ⟨h1, h2, h3, fun R' hR' sem =>
      sameLang_cat (sameLang_pow (h4 R' hR' sem) _) (sameLang_star (h4 R' hR' sem))⟩
  | .bounded m n x, R, hR => by
    obtain ⟨h1, h2, h3, h4⟩ := assign_spec_aux x R hR
    simp only [assign, CAst.idsBelow, CAst.toRe]
    exact ⟨h1, h2, h3, fun R' hR' sem =>
      sameLang_cat (sameLang_pow (h4 R' hR' sem) _) (sameLang_pow (sameLang_opt (h4 R' hR' sem)) _)⟩
theorem assignList_spec_aux : (xs : List CAst) → (R : List Nat) → R.Nodup →
    R <+: (assignList xs R).2 ∧ (assignList xs R).2.Nodup ∧
    CAst.idsBelowList (assignList xs R).2.length (assignList xs R).1 = true ∧
    ∀ R', (assignList xs R).2 <+: R' → ∀ sem : Nat → Nat → Bool,
      AllSame (regCm R' sem) sem (CAst.toReList (assignList xs R).1) (CAst.toReList xs)
  | [], R, hR => by
    simp only [assignList, CAst.idsBelowList, CAst.toReList]
    exact ⟨List.prefix_refl R, hR, trivial, fun _ _ _ => .nil⟩
  | x :: xs, R, hR => by
    obtain ⟨h1, h2, h3, h4⟩ := assign_spec_aux x R hR
    obtain ⟨g1, g2, g3, g4⟩ := assignList_spec_aux xs (assign x R).2 h2
    simp only [assignList, CAst.idsBelowList, CAst.toReList, Bool.and_eq_true]
    refine ⟨h1.trans g1, g2, ⟨idsBelow_mono g1.length_le _ h3, g3⟩, ?_⟩
    intro R' hR' sem
    exact .cons (h4 R' (g1.trans hR') sem) (g4 R' hR' sem)
end

theorem assign_spec (a : CAst) (R : List Nat) (hR : R.Nodup) :
    R <+: (assign a R).2 ∧ (assign a R).2.Nodup ∧
    (assign a R).1.idsBelow (assign a R).2.length = true ∧
    ∀ R', (assign a R).2 <+: R' → ∀ sem : Nat → Nat → Bool,
      SameLang (regCm R' sem) sem (assign a R).1.toRe a.toRe :=
  assign_spec_aux a R hR

/-- a translated pattern against the key-level pattern: same token type, same languages, same
    lookahead polarity -/
def PatAgrees (cm sem : Nat → Nat → Bool) (p' p : CPat) : Prop :=
  p'.tid = p.tid ∧ SameLang cm sem p'.ast.toRe p.ast.toRe ∧
  match p'.la, p.la with
  | none, none => True
  | some (pos', a'), some (pos, a) => pos' = pos ∧ SameLang cm sem a'.toRe a.toRe
  | _, _ => False

def ModeAgrees (cm sem : Nat → Nat → Bool) (ps' ps : List CPat) : Prop :=
  ps'.length = ps.length ∧ ∀ (j : Nat) (p' p : CPat), ps'[j]? = some p' → ps[j]? = some p → PatAgrees cm sem p' p

/-- the lookahead part of `PatAgrees` -/
def LaAgrees (cm sem : Nat → Nat → Bool) (l' l : Option (Bool × CAst)) : Prop :=
  match l', l with
  | none, none => True
  | some (pos', a'), some (pos, a) => pos' = pos ∧ SameLang cm sem a'.toRe a.toRe
  | _, _ => False

theorem patAgrees_iff (cm sem : Nat → Nat → Bool) (p' p : CPat) :
    PatAgrees cm sem p' p ↔ p'.tid = p.tid ∧ SameLang cm sem p'.ast.toRe p.ast.toRe ∧ LaAgrees cm sem p'.la p.la := by
  unfold PatAgrees LaAgrees
  cases p'.la <;> cases p.la <;> simp

theorem assignPatAsts_spec : (ps : List CPat) → (R : List Nat) → R.Nodup →
    R <+: (assignPatAsts ps R).2 ∧ (assignPatAsts ps R).2.Nodup ∧
    (assignPatAsts ps R).1.length = ps.length ∧
    ∀ R', (assignPatAsts ps R).2 <+: R' → ∀ sem : Nat → Nat → Bool, ∀ (j : Nat) (p' p : CPat),
      (assignPatAsts ps R).1[j]? = some p' → ps[j]? = some p →
        p'.tid = p.tid ∧ p'.la = p.la ∧ SameLang (regCm R' sem) sem p'.ast.toRe p.ast.toRe
  | [], R, hR => by
    simp only [assignPatAsts]
    refine ⟨List.prefix_refl R, hR, by trivial, ?_⟩
    intro R' _ sem j p' p h; simp at h
  | q :: qs, R, hR => by
    obtain ⟨h1, h2, _, h4⟩ := assign_spec q.ast R hR
    obtain ⟨g1, g2, g3, g4⟩ := assignPatAsts_spec qs (assign q.ast R).2 h2
    simp only [assignPatAsts]
    refine ⟨h1.trans g1, g2, by simp only [List.length_cons, g3], ?_⟩
    intro R' hR' sem j p' p hp' hp
    cases j with
    | zero =>
      simp only [List.getElem?_cons_zero, Option.some.injEq] at hp' hp
      subst hp' hp
      exact ⟨rfl, rfl, h4 R' (g1.trans hR') sem⟩
    | succ j =>
      simp only [List.getElem?_cons_succ] at hp' hp
      exact g4 R' hR' sem j p' p hp' hp

theorem assignLaAsts_spec : (ps : List CPat) → (R : List Nat) → R.Nodup →
    R <+: (assignLaAsts ps R).2 ∧ (assignLaAsts ps R).2.Nodup ∧
    (assignLaAsts ps R).1.length = ps.length ∧
    ∀ R', (assignLaAsts ps R).2 <+: R' → ∀ sem : Nat → Nat → Bool, ∀ (j : Nat) (p' p : CPat),
      (assignLaAsts ps R).1[j]? = some p' → ps[j]? = some p →
        p'.tid = p.tid ∧ p'.ast = p.ast ∧ LaAgrees (regCm R' sem) sem p'.la p.la
  | [], R, hR => by
    simp only [assignLaAsts]
    refine ⟨List.prefix_refl R, hR, by trivial, ?_⟩
    intro R' _ sem j p' p h; simp at h
  | q :: qs, R, hR => by
    cases hla : q.la with
    | none =>
      obtain ⟨g1, g2, g3, g4⟩ := assignLaAsts_spec qs R hR
      simp only [assignLaAsts, hla]
      refine ⟨g1, g2, by simp only [List.length_cons, g3], ?_⟩
      intro R' hR' sem j p' p hp' hp
      cases j with
      | zero =>
        simp only [List.getElem?_cons_zero, Option.some.injEq] at hp' hp
        subst hp' hp
        refine ⟨rfl, rfl, ?_⟩
        simp only [hla, LaAgrees]
      | succ j =>
        simp only [List.getElem?_cons_succ] at hp' hp
        exact g4 R' hR' sem j p' p hp' hp
    | some pa =>
      obtain ⟨pos, a⟩ := pa
      obtain ⟨h1, h2, _, h4⟩ := assign_spec a R hR
      obtain ⟨g1, g2, g3, g4⟩ := assignLaAsts_spec qs (assign a R).2 h2
      simp only [assignLaAsts, hla]
      refine ⟨h1.trans g1, g2, by simp only [List.length_cons, g3], ?_⟩
      intro R' hR' sem j p' p hp' hp
      cases j with
      | zero =>
        simp only [List.getElem?_cons_zero, Option.some.injEq] at hp' hp
        subst hp' hp
        refine ⟨rfl, rfl, ?_⟩
        simp only [hla, LaAgrees]
        exact ⟨trivial, h4 R' (g1.trans hR') sem⟩
      | succ j =>
        simp only [List.getElem?_cons_succ] at hp' hp
        exact g4 R' hR' sem j p' p hp' hp

theorem assignMode_spec (ps : List CPat) (R : List Nat) (hR : R.Nodup) :
    R <+: (assignMode ps R).2 ∧ (assignMode ps R).2.Nodup ∧
    ∀ R', (assignMode ps R).2 <+: R' → ∀ sem : Nat → Nat → Bool,
      ModeAgrees (regCm R' sem) sem (assignMode ps R).1 ps := by
  obtain ⟨h1, h2, h3, h4⟩ := assignPatAsts_spec ps R hR
  obtain ⟨g1, g2, g3, g4⟩ := assignLaAsts_spec (assignPatAsts ps R).1 (assignPatAsts ps R).2 h2
  simp only [assignMode]
  refine ⟨h1.trans g1, g2, ?_⟩
  intro R' hR' sem
  refine ⟨g3.trans h3, ?_⟩
  intro j p' p hp' hp
  have hj : j < (assignPatAsts ps R).1.length := by
    rw [h3]; exact (List.getElem?_eq_some_iff.mp hp).1
  obtain ⟨q, hq⟩ : ∃ q, (assignPatAsts ps R).1[j]? = some q :=
    ⟨_, List.getElem?_eq_some_iff.mpr ⟨hj, rfl⟩⟩
  obtain ⟨a1, a2, a3⟩ := g4 R' hR' sem j p' q hp' hq
  obtain ⟨b1, b2, b3⟩ := h4 R' (g1.trans hR') sem j q p hq hp
  rw [patAgrees_iff]
  refine ⟨a1.trans b1, ?_, ?_⟩
  · rw [a2]; exact b3
  · rw [← b2]; exact a3

theorem assignModes_spec (ms : List (List CPat)) (R : List Nat) (hR : R.Nodup) :
    R <+: (assignModes ms R).2 ∧ (assignModes ms R).2.Nodup ∧
    (assignModes ms R).1.length = ms.length ∧
    ∀ R', (assignModes ms R).2 <+: R' → ∀ sem : Nat → Nat → Bool, ∀ (i : Nat) (ps' ps : List CPat),
      (assignModes ms R).1[i]? = some ps' → ms[i]? = some ps → ModeAgrees (regCm R' sem) sem ps' ps := by
  induction ms generalizing R with
  | nil =>
    simp only [assignModes]
    refine ⟨List.prefix_refl R, hR, by trivial, ?_⟩
    intro R' _ sem i ps' ps h; simp at h
  | cons m ms ih =>
    obtain ⟨h1, h2, h4⟩ := assignMode_spec m R hR
    obtain ⟨g1, g2, g3, g4⟩ := ih (assignMode m R).2 h2
    simp only [assignModes]
    refine ⟨h1.trans g1, g2, by simp only [List.length_cons, g3], ?_⟩
    intro R' hR' sem i ps' ps hp' hp
    cases i with
    | zero =>
      simp only [List.getElem?_cons_zero, Option.some.injEq] at hp' hp
      subst hp' hp
      exact h4 R' (g1.trans hR') sem
    | succ i =>
      simp only [List.getElem?_cons_succ] at hp' hp
      exact g4 R' hR' sem i ps' ps hp' hp

theorem laHolds_congr {cm sem : Nat → Nat → Bool} {a' a : CAst} (h : SameLang cm sem a'.toRe a.toRe)
    (pos : Bool) (v : List Nat) (l : Nat) :
    LaHolds cm (some (pos, a')) v l ↔ LaHolds sem (some (pos, a)) v l := by
  have h' : ∀ w, Matches cm a'.toRe w ↔ Matches sem a.toRe w := h
  cases pos <;> simp only [LaHolds, h']

theorem laHolds_of_laAgrees {cm sem : Nat → Nat → Bool} {l' l0 : Option (Bool × CAst)} (h : LaAgrees cm sem l' l0)
    (v : List Nat) (l : Nat) : LaHolds cm l' v l ↔ LaHolds sem l0 v l := by
  cases l' with
  | none =>
    cases l0 with
    | none => simp only [LaHolds]
    | some x => simp only [LaAgrees] at h
  | some x' =>
    cases l0 with
    | none => simp only [LaAgrees] at h
    | some x =>
      obtain ⟨pos', a'⟩ := x'
      obtain ⟨pos, a⟩ := x
      simp only [LaAgrees] at h
      obtain ⟨rfl, hs⟩ := h
      exact laHolds_congr hs _ v l

theorem modeAgrees_mem_left {cm sem : Nat → Nat → Bool} {ps' ps : List CPat} (h : ModeAgrees cm sem ps' ps)
    {p' : CPat} (hp' : p' ∈ ps') : ∃ p ∈ ps, PatAgrees cm sem p' p := by
  obtain ⟨j, hj⟩ := List.mem_iff_getElem?.mp hp'
  have hlt : j < ps.length := by rw [← h.1]; exact (List.getElem?_eq_some_iff.mp hj).1
  have hp : ps[j]? = some ps[j] := List.getElem?_eq_some_iff.mpr ⟨hlt, rfl⟩
  exact ⟨ps[j], List.mem_of_getElem? hp, h.2 j p' _ hj hp⟩

theorem modeAgrees_mem_right {cm sem : Nat → Nat → Bool} {ps' ps : List CPat} (h : ModeAgrees cm sem ps' ps)
    {p : CPat} (hp : p ∈ ps) : ∃ p' ∈ ps', PatAgrees cm sem p' p := by
  obtain ⟨j, hj⟩ := List.mem_iff_getElem?.mp hp
  have hlt : j < ps'.length := by rw [h.1]; exact (List.getElem?_eq_some_iff.mp hj).1
  have hp' : ps'[j]? = some ps'[j] := List.getElem?_eq_some_iff.mpr ⟨hlt, rfl⟩
  exact ⟨ps'[j], List.mem_of_getElem? hp', h.2 j _ p hp' hj⟩

theorem modeAgrees_tids {cm sem : Nat → Nat → Bool} {ps' ps : List CPat} (h : ModeAgrees cm sem ps' ps) :
    ps'.map (·.tid) = ps.map (·.tid) := by
  apply List.ext_getElem?
  intro j
  simp only [List.getElem?_map]
  cases h1 : ps'[j]? with
  | none =>
    have : ps[j]? = none := by
      rw [List.getElem?_eq_none_iff] at h1 ⊢; rw [← h.1]; exact h1
    rw [this]
  | some p' =>
    have hlt : j < ps.length := by rw [← h.1]; exact (List.getElem?_eq_some_iff.mp h1).1
    have hp : ps[j]? = some ps[j] := List.getElem?_eq_some_iff.mpr ⟨hlt, rfl⟩
    rw [hp]
    simp only [Option.map_some, Option.some.injEq]
    exact (h.2 j p' _ h1 hp).1

/-- pattern-level candidates are invariant under agreeing modes -/
theorem pcand_of_modeAgrees {cm sem : Nat → Nat → Bool} {ps' ps : List CPat} (h : ModeAgrees cm sem ps' ps)
    (i : Nat) (w : List Nat) (k : Cand) : PCand cm ps' i w k ↔ PCand sem ps i w k := by
  constructor
  · rintro ⟨u, v, q', hu, hw, hq', ht, hm, he, l, hl, hx⟩
    obtain ⟨q, hq, hag⟩ := modeAgrees_mem_left h hq'
    obtain ⟨a1, a2, a3⟩ := (patAgrees_iff _ _ _ _).mp hag
    exact ⟨u, v, q, hu, hw, hq, a1 ▸ ht, (a2 u).mp hm, he, l, (laHolds_of_laAgrees a3 v l).mp hl, hx⟩
  · rintro ⟨u, v, q, hu, hw, hq, ht, hm, he, l, hl, hx⟩
    obtain ⟨q', hq', hag⟩ := modeAgrees_mem_right h hq
    obtain ⟨a1, a2, a3⟩ := (patAgrees_iff _ _ _ _).mp hag
    exact ⟨u, v, q', hu, hw, hq', a1.symm ▸ ht, (a2 u).mpr hm, he, l, (laHolds_of_laAgrees a3 v l).mpr hl, hx⟩

/-- **a whole scanner through the registry**: compile the modes of any scanner whose AST leaves are
    keys; under the class function of the final registry every compiled mode accepts exactly the
    languages of its key-level patterns under `sem` -/
theorem registry_mode_correct (ms : List (List CPat)) (sem : Nat → Nat → Bool) (i : Nat) (ps : List CPat)
    (h : ms[i]? = some ps) :
    ∃ ps', (assignModes ms []).1[i]? = some ps' ∧ (ps'.map (·.tid)) = (ps.map (·.tid)) ∧
      (∀ w t, acceptsTid (compileFull ps').dfa (regCm (assignModes ms []).2 sem) w t ↔
        w ≠ [] ∧ ∃ q ∈ ps, q.tid = t ∧ Matches sem q.ast.toRe w) ∧
      (∀ i0 w k, PCand (regCm (assignModes ms []).2 sem) ps' i0 w k ↔ PCand sem ps i0 w k) := by
  obtain ⟨_, _, h3, h4⟩ := assignModes_spec ms [] List.nodup_nil
  have hlt : i < (assignModes ms []).1.length := by
    rw [h3]; exact (List.getElem?_eq_some_iff.mp h).1
  have hp' : (assignModes ms []).1[i]? = some (assignModes ms []).1[i] :=
    List.getElem?_eq_some_iff.mpr ⟨hlt, rfl⟩
  have hag := h4 _ (List.prefix_refl _) sem i _ ps hp' h
  refine ⟨_, hp', modeAgrees_tids hag, ?_, fun i0 w k => pcand_of_modeAgrees hag i0 w k⟩
  intro w t
  have hdfa : (compileFull (assignModes ms []).1[i]).dfa =
      compileMode ((assignModes ms []).1[i].map fun q => (q.tid, q.ast)) := rfl
  rw [hdfa, compileMode_correct]
  apply and_congr_right
  intro _
  constructor
  · rintro ⟨x, hx, hxt, hm⟩
    obtain ⟨q', hq', rfl⟩ := List.mem_map.mp hx
    obtain ⟨q, hq, hpa⟩ := modeAgrees_mem_left hag hq'
    exact ⟨q, hq, hpa.1 ▸ hxt, (hpa.2.1 w).mp hm⟩
  · rintro ⟨q, hq, hqt, hm⟩
    obtain ⟨q', hq', hpa⟩ := modeAgrees_mem_right hag hq
    exact ⟨(q'.tid, q'.ast), List.mem_map.mpr ⟨q', hq', rfl⟩, hpa.1.symm ▸ hqt, (hpa.2.1 w).mpr hm⟩

end Scnr
