import ScnrVerif.Proofs.ThompsonOps
/-!
# `?`, `+`, `*` and alternation on NFAs with base 0
-/
namespace Scnr

namespace Nfa

local macro "st_disch" : tactic =>
  `(tactic| first
    | omega
    | (simp only [List.length_modify, List.length_append, List.length_singleton, shift_len]; omega))

local macro "st_simp" : tactic =>
  `(tactic| simp (disch := st_disch) only [stAt_modify_ne, stAt_modify_eq, stAt_snoc, stAt_append_left, stAt_ge])

/-! ### zero or one -/

section ZeroOrOne
variable {a : Nfa}

theorem zeroOrOne_len (ha0 : a.base = 0) : a.zeroOrOne.states.length = a.states.length + 1 := by
  rw [zeroOrOne_eq a ha0]
  simp only [List.length_modify, List.length_append, List.length_singleton]

theorem zeroOrOne_state_old (ha0 : a.base = 0) {s : Nat} (hs : s < a.states.length) :
    a.zeroOrOne.state s = a.state s := by
  rw [zeroOrOne_eq a ha0, state0 rfl, state0 ha0]
  st_simp

theorem zeroOrOne_state_start (ha0 : a.base = 0) :
    a.zeroOrOne.state a.states.length = ⟨[a.start, a.fin], []⟩ := by
  rw [zeroOrOne_eq a ha0, state0 rfl]
  st_simp
  rfl

theorem zeroOrOne_base (ha0 : a.base = 0) : a.zeroOrOne.base = 0 := by rw [zeroOrOne_eq a ha0]
theorem zeroOrOne_start (ha0 : a.base = 0) : a.zeroOrOne.start = a.states.length := by rw [zeroOrOne_eq a ha0]
theorem zeroOrOne_fin (ha0 : a.base = 0) : a.zeroOrOne.fin = a.fin := by rw [zeroOrOne_eq a ha0]

theorem zeroOrOne_ext (ha : a.WF) (ha0 : a.base = 0) : Ext a.zeroOrOne a where
  cont := fun s hs => by
    rw [contains0 (zeroOrOne_base ha0), zeroOrOne_len ha0]
    have := (contains0 ha0 s).mp hs; omega
  same := fun s hs _ => zeroOrOne_state_old ha0 ((contains0 ha0 s).mp hs)
  fin_trans := by rw [zeroOrOne_state_old ha0 (fin_lt ha ha0)]; exact ha.fin_out.2

theorem zeroOrOne_wf (ha : a.WF) (ha0 : a.base = 0) : a.zeroOrOne.WF := by
  have hf := fin_lt ha ha0
  have hst := start_lt ha ha0
  have hr0 := zeroOrOne_base ha0
  have hx := zeroOrOne_ext ha ha0
  refine wf_of0 hr0 ?_ ?_ ?_ ?_
  · rw [zeroOrOne_len ha0, zeroOrOne_start ha0]; omega
  · rw [zeroOrOne_len ha0, zeroOrOne_fin ha0]; omega
  · intro s hs
    rw [zeroOrOne_len ha0] at hs
    by_cases hsa : s < a.states.length
    · have hc := (contains0 ha0 s).mpr hsa
      rw [zeroOrOne_state_old ha0 hsa]
      exact ⟨fun t ht => hx.cont _ (ha.eps_in _ hc _ ht), fun p hp => hx.cont _ (ha.trans_in _ hc _ hp)⟩
    · have : s = a.states.length := by omega
      subst this
      rw [zeroOrOne_state_start ha0]
      refine ⟨fun t ht => ?_, fun p hp => (by cases hp)⟩
      simp only [List.mem_cons, List.not_mem_nil, or_false] at ht
      rw [contains0 hr0, zeroOrOne_len ha0]
      rcases ht with rfl | rfl <;> omega
  · rw [zeroOrOne_fin ha0, zeroOrOne_state_old ha0 hf]
    exact state_fin ha

theorem zeroOrOne_accepts (ha : a.WF) (ha0 : a.base = 0) (cm : Nat → Nat → Bool) (w : List Nat) :
    a.zeroOrOne.Accepts cm w ↔ a.Accepts cm w ∨ w = [] := by
  have hf := fin_lt ha ha0
  have hx := zeroOrOne_ext ha ha0
  have hfe : (a.zeroOrOne.state a.fin).eps = [] := by
    rw [zeroOrOne_state_old ha0 hf]; exact ha.fin_out.1
  have hsc : a.zeroOrOne.contains a.states.length = true := by
    rw [contains0 (zeroOrOne_base ha0), zeroOrOne_len ha0]; omega
  unfold Nfa.Accepts
  rw [zeroOrOne_start ha0, zeroOrOne_fin ha0]
  constructor
  · intro h
    obtain ⟨x, hx1, hx2⟩ := Path.from_eps_only (by rw [zeroOrOne_state_start ha0]) (by omega) h
    rw [zeroOrOne_state_start ha0] at hx1
    simp only [List.mem_cons, List.not_mem_nil, or_false] at hx1
    rcases hx1 with rfl | rfl
    · exact .inl (hx.closed ha hfe ha.start_in hx2)
    · exact .inr (Path.from_fin ha (hx.closed ha hfe ha.fin_in hx2)).1
  · rintro (h | rfl)
    · refine .eps hsc ?_ (hx.embed ha h)
      rw [zeroOrOne_state_start ha0]; exact List.mem_cons_self
    · refine Path.epsEdge hsc ?_
      rw [zeroOrOne_state_start ha0]; exact List.mem_cons_of_mem _ List.mem_cons_self

end ZeroOrOne

/-! ### one or more -/

section OneOrMore
variable {a : Nfa}

theorem oneOrMore_len (ha0 : a.base = 0) : a.oneOrMore.states.length = a.states.length + 2 := by
  rw [oneOrMore_eq a ha0]
  simp only [List.length_modify, List.length_append, List.length_singleton]

theorem oneOrMore_base (ha0 : a.base = 0) : a.oneOrMore.base = 0 := by rw [oneOrMore_eq a ha0]
theorem oneOrMore_start (ha0 : a.base = 0) : a.oneOrMore.start = a.states.length := by rw [oneOrMore_eq a ha0]
theorem oneOrMore_fin (ha0 : a.base = 0) : a.oneOrMore.fin = a.states.length + 1 := by rw [oneOrMore_eq a ha0]

theorem oneOrMore_state_old (ha0 : a.base = 0) {s : Nat} (hs : s < a.states.length) (hsf : s ≠ a.fin) :
    a.oneOrMore.state s = a.state s := by
  rw [oneOrMore_eq a ha0, state0 rfl, state0 ha0]
  st_simp

theorem oneOrMore_state_afin (ha : a.WF) (ha0 : a.base = 0) :
    a.oneOrMore.state a.fin = ⟨[a.states.length + 1, a.start], []⟩ := by
  have hf := fin_lt ha ha0
  rw [oneOrMore_eq a ha0, state0 rfl]
  st_simp
  rw [← state0 ha0, state_fin ha]
  rfl

theorem oneOrMore_state_start (ha : a.WF) (ha0 : a.base = 0) :
    a.oneOrMore.state a.states.length = ⟨[a.start], []⟩ := by
  have hf := fin_lt ha ha0
  rw [oneOrMore_eq a ha0, state0 rfl]
  st_simp
  rfl

theorem oneOrMore_state_end (ha : a.WF) (ha0 : a.base = 0) :
    a.oneOrMore.state (a.states.length + 1) = ⟨[], []⟩ := by
  have hf := fin_lt ha ha0
  rw [oneOrMore_eq a ha0, state0 rfl]
  st_simp

theorem oneOrMore_ext (ha : a.WF) (ha0 : a.base = 0) : Ext a.oneOrMore a where
  cont := fun s hs => by
    rw [contains0 (oneOrMore_base ha0), oneOrMore_len ha0]
    have := (contains0 ha0 s).mp hs; omega
  same := fun s hs hsf => oneOrMore_state_old ha0 ((contains0 ha0 s).mp hs) hsf
  fin_trans := by rw [oneOrMore_state_afin ha ha0]

theorem oneOrMore_wf (ha : a.WF) (ha0 : a.base = 0) : a.oneOrMore.WF := by
  have hf := fin_lt ha ha0
  have hst := start_lt ha ha0
  have hr0 := oneOrMore_base ha0
  have hx := oneOrMore_ext ha ha0
  refine wf_of0 hr0 ?_ ?_ ?_ ?_
  · rw [oneOrMore_len ha0, oneOrMore_start ha0]; omega
  · rw [oneOrMore_len ha0, oneOrMore_fin ha0]; omega
  · intro s hs
    rw [oneOrMore_len ha0] at hs
    by_cases hsa : s < a.states.length
    · by_cases hsf : s = a.fin
      · subst hsf
        rw [oneOrMore_state_afin ha ha0]
        refine ⟨fun t ht => ?_, fun p hp => (by cases hp)⟩
        simp only [List.mem_cons, List.not_mem_nil, or_false] at ht
        rw [contains0 hr0, oneOrMore_len ha0]
        rcases ht with rfl | rfl <;> omega
      · exact hx.edges ha ((contains0 ha0 s).mpr hsa) hsf
    · by_cases hs1 : s = a.states.length
      · subst hs1
        rw [oneOrMore_state_start ha ha0]
        refine ⟨fun t ht => ?_, fun p hp => (by cases hp)⟩
        simp only [List.mem_cons, List.not_mem_nil, or_false] at ht
        rw [contains0 hr0, oneOrMore_len ha0]
        subst ht; omega
      · have : s = a.states.length + 1 := by omega
        subst this
        rw [oneOrMore_state_end ha ha0]
        exact ⟨fun t ht => (by cases ht), fun p hp => (by cases hp)⟩
  · rw [oneOrMore_fin ha0]
    exact oneOrMore_state_end ha ha0

theorem oneOrMore_accepts (ha : a.WF) (ha0 : a.base = 0) (cm : Nat → Nat → Bool) (R : Re)
    (hlang : ∀ w, a.Accepts cm w ↔ Matches cm R w) (w : List Nat) :
    a.oneOrMore.Accepts cm w ↔ Matches cm (.cat R (.star R)) w := by
  have hf := fin_lt ha ha0
  have hx := oneOrMore_ext ha ha0
  have hsc : a.oneOrMore.contains a.states.length = true := by
    rw [contains0 (oneOrMore_base ha0), oneOrMore_len ha0]; omega
  have hne : a.contains (a.states.length + 1) = false := by
    rw [Bool.eq_false_iff, Ne, contains0 ha0]; omega
  unfold Nfa.Accepts
  rw [oneOrMore_start ha0, oneOrMore_fin ha0]
  constructor
  · intro h
    obtain ⟨x, hx1, hx2⟩ := Path.from_eps_only (by rw [oneOrMore_state_start ha ha0]) (by omega) h
    rw [oneOrMore_state_start ha ha0, List.mem_singleton] at hx1
    subst hx1
    obtain ⟨u, v, rfl, h1, h2⟩ := hx.loop (R := R) (e := a.states.length + 1) ha (fun w hw => (hlang w).mp hw)
      (by
        intro x hx
        rw [oneOrMore_state_afin ha ha0] at hx
        simp only [List.mem_cons, List.not_mem_nil, or_false] at hx
        exact hx)
      (by rw [oneOrMore_state_end ha ha0]) (by rw [oneOrMore_state_end ha ha0]) hne ha.start_in hx2 rfl
    exact .cat ((hlang u).mp h1) h2
  · intro h
    cases h with
    | @cat _ _ u v hu hv =>
      have h1 := (hlang u).mpr hu
      have h2 := hx.loop_conv (cm := cm) (R := R) (e := a.states.length + 1) ha (fun w hw => (hlang w).mpr hw)
        (by rw [oneOrMore_state_afin ha ha0]; exact List.mem_cons_self)
        (by rw [oneOrMore_state_afin ha ha0]; exact List.mem_cons_of_mem _ List.mem_cons_self) hv
      refine .eps hsc ?_ (Path.trans (hx.embed ha h1) h2)
      rw [oneOrMore_state_start ha ha0]; exact List.mem_cons_self

end OneOrMore

/-! ### zero or more -/

section ZeroOrMore
variable {a : Nfa}

theorem zeroOrMore_len (ha0 : a.base = 0) : a.zeroOrMore.states.length = a.states.length + 2 := by
  rw [zeroOrMore_eq a ha0]
  simp only [List.length_modify, List.length_append, List.length_singleton]

theorem zeroOrMore_base (ha0 : a.base = 0) : a.zeroOrMore.base = 0 := by rw [zeroOrMore_eq a ha0]
theorem zeroOrMore_start (ha0 : a.base = 0) : a.zeroOrMore.start = a.states.length := by rw [zeroOrMore_eq a ha0]
theorem zeroOrMore_fin (ha0 : a.base = 0) : a.zeroOrMore.fin = a.states.length + 1 := by rw [zeroOrMore_eq a ha0]

theorem zeroOrMore_state_old (ha0 : a.base = 0) {s : Nat} (hs : s < a.states.length) (hsf : s ≠ a.fin) :
    a.zeroOrMore.state s = a.state s := by
  rw [zeroOrMore_eq a ha0, state0 rfl, state0 ha0]
  st_simp

theorem zeroOrMore_state_afin (ha : a.WF) (ha0 : a.base = 0) :
    a.zeroOrMore.state a.fin = ⟨[a.states.length + 1, a.start], []⟩ := by
  have hf := fin_lt ha ha0
  rw [zeroOrMore_eq a ha0, state0 rfl]
  st_simp
  rw [← state0 ha0, state_fin ha]
  rfl

theorem zeroOrMore_state_start (ha : a.WF) (ha0 : a.base = 0) :
    a.zeroOrMore.state a.states.length = ⟨[a.start, a.fin], []⟩ := by
  have hf := fin_lt ha ha0
  rw [zeroOrMore_eq a ha0, state0 rfl]
  st_simp
  rfl

theorem zeroOrMore_state_end (ha : a.WF) (ha0 : a.base = 0) :
    a.zeroOrMore.state (a.states.length + 1) = ⟨[], []⟩ := by
  have hf := fin_lt ha ha0
  rw [zeroOrMore_eq a ha0, state0 rfl]
  st_simp

theorem zeroOrMore_ext (ha : a.WF) (ha0 : a.base = 0) : Ext a.zeroOrMore a where
  cont := fun s hs => by
    rw [contains0 (zeroOrMore_base ha0), zeroOrMore_len ha0]
    have := (contains0 ha0 s).mp hs; omega
  same := fun s hs hsf => zeroOrMore_state_old ha0 ((contains0 ha0 s).mp hs) hsf
  fin_trans := by rw [zeroOrMore_state_afin ha ha0]

theorem zeroOrMore_wf (ha : a.WF) (ha0 : a.base = 0) : a.zeroOrMore.WF := by
  have hf := fin_lt ha ha0
  have hst := start_lt ha ha0
  have hr0 := zeroOrMore_base ha0
  have hx := zeroOrMore_ext ha ha0
  refine wf_of0 hr0 ?_ ?_ ?_ ?_
  · rw [zeroOrMore_len ha0, zeroOrMore_start ha0]; omega
  · rw [zeroOrMore_len ha0, zeroOrMore_fin ha0]; omega
  · intro s hs
    rw [zeroOrMore_len ha0] at hs
    by_cases hsa : s < a.states.length
    · by_cases hsf : s = a.fin
      · subst hsf
        rw [zeroOrMore_state_afin ha ha0]
        refine ⟨fun t ht => ?_, fun p hp => (by cases hp)⟩
        simp only [List.mem_cons, List.not_mem_nil, or_false] at ht
        rw [contains0 hr0, zeroOrMore_len ha0]
        rcases ht with rfl | rfl <;> omega
      · exact hx.edges ha ((contains0 ha0 s).mpr hsa) hsf
    · by_cases hs1 : s = a.states.length
      · subst hs1
        rw [zeroOrMore_state_start ha ha0]
        refine ⟨fun t ht => ?_, fun p hp => (by cases hp)⟩
        simp only [List.mem_cons, List.not_mem_nil, or_false] at ht
        rw [contains0 hr0, zeroOrMore_len ha0]
        rcases ht with rfl | rfl <;> omega
      · have : s = a.states.length + 1 := by omega
        subst this
        rw [zeroOrMore_state_end ha ha0]
        exact ⟨fun t ht => (by cases ht), fun p hp => (by cases hp)⟩
  · rw [zeroOrMore_fin ha0]
    exact zeroOrMore_state_end ha ha0

theorem zeroOrMore_accepts (ha : a.WF) (ha0 : a.base = 0) (cm : Nat → Nat → Bool) (R : Re)
    (hlang : ∀ w, a.Accepts cm w ↔ Matches cm R w) (w : List Nat) :
    a.zeroOrMore.Accepts cm w ↔ Matches cm (.star R) w := by
  have hf := fin_lt ha ha0
  have hx := zeroOrMore_ext ha ha0
  have hsc : a.zeroOrMore.contains a.states.length = true := by
    rw [contains0 (zeroOrMore_base ha0), zeroOrMore_len ha0]; omega
  have hne : a.contains (a.states.length + 1) = false := by
    rw [Bool.eq_false_iff, Ne, contains0 ha0]; omega
  unfold Nfa.Accepts
  rw [zeroOrMore_start ha0, zeroOrMore_fin ha0]
  constructor
  · intro h
    obtain ⟨x, hx1, hx2⟩ := Path.from_eps_only (by rw [zeroOrMore_state_start ha ha0]) (by omega) h
    rw [zeroOrMore_state_start ha ha0] at hx1
    simp only [List.mem_cons, List.not_mem_nil, or_false] at hx1
    have hxc : a.contains x = true := by rcases hx1 with rfl | rfl; exact ha.start_in; exact ha.fin_in
    obtain ⟨u, v, rfl, h1, h2⟩ := hx.loop (R := R) (e := a.states.length + 1) ha (fun w hw => (hlang w).mp hw)
      (by
        intro x hx
        rw [zeroOrMore_state_afin ha ha0] at hx
        simp only [List.mem_cons, List.not_mem_nil, or_false] at hx
        exact hx)
      (by rw [zeroOrMore_state_end ha ha0]) (by rw [zeroOrMore_state_end ha ha0]) hne hxc hx2 rfl
    rcases hx1 with rfl | rfl
    · exact .starCons ((hlang u).mp h1) h2
    · obtain ⟨rfl, _⟩ := Path.from_fin ha h1
      exact h2
  · intro h
    have h2 := hx.loop_conv (cm := cm) (R := R) (e := a.states.length + 1) ha (fun w hw => (hlang w).mpr hw)
      (by rw [zeroOrMore_state_afin ha ha0]; exact List.mem_cons_self)
      (by rw [zeroOrMore_state_afin ha ha0]; exact List.mem_cons_of_mem _ List.mem_cons_self) h
    refine .eps hsc ?_ h2
    rw [zeroOrMore_state_start ha ha0]; exact List.mem_cons_of_mem _ List.mem_cons_self

end ZeroOrMore

/-! ### alternation -/

section Alternation
variable {a b : Nfa}

theorem alternation_len (ha0 : a.base = 0) :
    (a.alternation b).states.length = a.states.length + b.states.length + 2 := by
  rw [alternation_eq a b ha0]
  simp only [List.length_modify, List.length_append, List.length_singleton, shift_len]

theorem alternation_base (ha0 : a.base = 0) : (a.alternation b).base = 0 := by rw [alternation_eq a b ha0]
theorem alternation_start (ha0 : a.base = 0) : (a.alternation b).start = a.states.length + b.states.length := by
  rw [alternation_eq a b ha0]
theorem alternation_fin (ha0 : a.base = 0) : (a.alternation b).fin = a.states.length + b.states.length + 1 := by
  rw [alternation_eq a b ha0]

theorem alternation_state_left (ha0 : a.base = 0) {s : Nat} (hs : s < a.states.length) (hsf : s ≠ a.fin) :
    (a.alternation b).state s = a.state s := by
  rw [alternation_eq a b ha0, state0 rfl, state0 ha0]
  st_simp

theorem alternation_state_afin (ha : a.WF) (ha0 : a.base = 0) :
    (a.alternation b).state a.fin = ⟨[a.states.length + b.states.length + 1], []⟩ := by
  have hf := fin_lt ha ha0
  rw [alternation_eq a b ha0, state0 rfl]
  st_simp
  rw [← state0 ha0, state_fin ha]
  rfl

theorem alternation_state_right (ha : a.WF) (ha0 : a.base = 0) (hb0 : b.base = 0) {s : Nat}
    (hs1 : a.states.length ≤ s) (hs2 : s < a.states.length + b.states.length) (hsf : s ≠ b.fin + a.states.length) :
    (a.alternation b).state s = (b.shift a.states.length).state s := by
  have hf := fin_lt ha ha0
  rw [alternation_eq a b ha0, state0 rfl]
  st_simp
  rw [stAt_append_right hs1, stAt_shift _ hb0]
  congr 1; omega

theorem alternation_state_bfin (ha : a.WF) (ha0 : a.base = 0) (hb : b.WF) (hb0 : b.base = 0) :
    (a.alternation b).state (b.fin + a.states.length) = ⟨[a.states.length + b.states.length + 1], []⟩ := by
  have hf := fin_lt ha ha0
  have hbf := fin_lt hb hb0
  have hb' := state_fin (shift_wf b a.states.length hb)
  rw [alternation_eq a b ha0, state0 rfl]
  st_simp
  rw [stAt_append_right (by omega), stAt_shift _ hb0]
  have : b.fin + a.states.length - a.states.length + a.states.length = (b.shift a.states.length).fin := by
    show _ = b.fin + a.states.length; omega
  rw [this, hb']
  rfl

theorem alternation_state_start (ha : a.WF) (ha0 : a.base = 0) (hb : b.WF) (hb0 : b.base = 0) :
    (a.alternation b).state (a.states.length + b.states.length) = ⟨[a.start, b.start + a.states.length], []⟩ := by
  have hf := fin_lt ha ha0
  have hbf := fin_lt hb hb0
  rw [alternation_eq a b ha0, state0 rfl]
  st_simp
  rfl

theorem alternation_state_end (ha : a.WF) (ha0 : a.base = 0) (hb : b.WF) (hb0 : b.base = 0) :
    (a.alternation b).state (a.states.length + b.states.length + 1) = ⟨[], []⟩ := by
  have hf := fin_lt ha ha0
  have hbf := fin_lt hb hb0
  rw [alternation_eq a b ha0, state0 rfl]
  st_simp

theorem alternation_ext_left (ha : a.WF) (ha0 : a.base = 0) : Ext (a.alternation b) a where
  cont := fun s hs => by
    rw [contains0 (alternation_base ha0), alternation_len ha0]
    have := (contains0 ha0 s).mp hs; omega
  same := fun s hs hsf => alternation_state_left ha0 ((contains0 ha0 s).mp hs) hsf
  fin_trans := by rw [alternation_state_afin ha ha0]

theorem alternation_ext_right (ha : a.WF) (ha0 : a.base = 0) (hb : b.WF) (hb0 : b.base = 0) :
    Ext (a.alternation b) (b.shift a.states.length) where
  cont := fun s hs => by
    rw [contains0 (alternation_base ha0), alternation_len ha0]
    have := (shift_contains0 hb0 _ s).mp hs; omega
  same := fun s hs hsf => by
    have := (shift_contains0 hb0 _ s).mp hs
    exact alternation_state_right ha ha0 hb0 this.1 this.2 hsf
  fin_trans := by
    show ((a.alternation b).state (b.fin + a.states.length)).trans = []
    rw [alternation_state_bfin ha ha0 hb hb0]

theorem alternation_wf (ha : a.WF) (ha0 : a.base = 0) (hb : b.WF) (hb0 : b.base = 0) : (a.alternation b).WF := by
  have hf := fin_lt ha ha0
  have hst := start_lt ha ha0
  have hbf := fin_lt hb hb0
  have hbs := start_lt hb hb0
  have hb' := shift_wf b a.states.length hb
  have hr0 : (a.alternation b).base = 0 := alternation_base ha0
  have hxl := alternation_ext_left (b := b) ha ha0
  have hxr := alternation_ext_right ha ha0 hb hb0
  refine wf_of0 hr0 ?_ ?_ ?_ ?_
  · rw [alternation_len ha0, alternation_start ha0]; omega
  · rw [alternation_len ha0, alternation_fin ha0]; omega
  · intro s hs
    rw [alternation_len ha0] at hs
    by_cases hsa : s < a.states.length
    · by_cases hsf : s = a.fin
      · subst hsf
        rw [alternation_state_afin ha ha0]
        refine ⟨fun t ht => ?_, fun p hp => (by cases hp)⟩
        simp only [List.mem_singleton] at ht
        subst ht
        rw [contains0 hr0, alternation_len ha0]; omega
      · exact hxl.edges ha ((contains0 ha0 s).mpr hsa) hsf
    · by_cases hsb : s < a.states.length + b.states.length
      · by_cases hsf : s = b.fin + a.states.length
        · subst hsf
          rw [alternation_state_bfin ha ha0 hb hb0]
          refine ⟨fun t ht => ?_, fun p hp => (by cases hp)⟩
          simp only [List.mem_singleton] at ht
          subst ht
          rw [contains0 hr0, alternation_len ha0]; omega
        · exact hxr.edges hb' ((shift_contains0 hb0 _ s).mpr ⟨by omega, hsb⟩) hsf
      · by_cases hs1 : s = a.states.length + b.states.length
        · subst hs1
          rw [alternation_state_start ha ha0 hb hb0]
          refine ⟨fun t ht => ?_, fun p hp => (by cases hp)⟩
          simp only [List.mem_cons, List.not_mem_nil, or_false] at ht
          rw [contains0 hr0, alternation_len ha0]
          rcases ht with rfl | rfl <;> omega
        · have : s = a.states.length + b.states.length + 1 := by omega
          subst this
          rw [alternation_state_end ha ha0 hb hb0]
          exact ⟨fun t ht => (by cases ht), fun p hp => (by cases hp)⟩
  · rw [alternation_fin ha0]
    exact alternation_state_end ha ha0 hb hb0

theorem alternation_accepts (ha : a.WF) (ha0 : a.base = 0) (hb : b.WF) (hb0 : b.base = 0)
    (cm : Nat → Nat → Bool) (w : List Nat) :
    (a.alternation b).Accepts cm w ↔ a.Accepts cm w ∨ b.Accepts cm w := by
  have hf := fin_lt ha ha0
  have hbf := fin_lt hb hb0
  have hb' := shift_wf b a.states.length hb
  have hxl := alternation_ext_left (b := b) ha ha0
  have hxr := alternation_ext_right ha ha0 hb hb0
  have hsc : (a.alternation b).contains (a.states.length + b.states.length) = true := by
    rw [contains0 (alternation_base ha0), alternation_len ha0]; omega
  have hnel : a.contains (a.states.length + b.states.length + 1) = false := by
    rw [Bool.eq_false_iff, Ne, contains0 ha0]; omega
  have hner : (b.shift a.states.length).contains (a.states.length + b.states.length + 1) = false := by
    rw [Bool.eq_false_iff, Ne, shift_contains0 hb0]; omega
  have hend := alternation_state_end ha ha0 hb hb0
  unfold Nfa.Accepts
  rw [alternation_start ha0, alternation_fin ha0]
  constructor
  · intro h
    obtain ⟨x, hx1, hx2⟩ := Path.from_eps_only (by rw [alternation_state_start ha ha0 hb hb0]) (by omega) h
    rw [alternation_state_start ha ha0 hb hb0] at hx1
    simp only [List.mem_cons, List.not_mem_nil, or_false] at hx1
    rcases hx1 with rfl | rfl
    · refine .inl (hxl.exit_to ha ?_ hend hnel ha.start_in hx2)
      intro x hx
      rw [alternation_state_afin ha ha0, List.mem_singleton] at hx
      exact hx
    · refine .inr ((shift_accepts b a.states.length hb cm w).mp (hxr.exit_to hb' ?_ hend hner hb'.start_in hx2))
      intro x hx
      have : (b.shift a.states.length).fin = b.fin + a.states.length := rfl
      rw [this, alternation_state_bfin ha ha0 hb hb0, List.mem_singleton] at hx
      exact hx
  · rintro (h | h)
    · refine .eps hsc (t := a.start) ?_ ?_
      · rw [alternation_state_start ha ha0 hb hb0]; exact List.mem_cons_self
      · have h1 := hxl.embed ha h
        have h2 : (a.alternation b).Path cm a.fin [] (a.states.length + b.states.length + 1) :=
          Path.epsEdge (hxl.cont _ ha.fin_in) (by rw [alternation_state_afin ha ha0]; exact List.mem_cons_self)
        have := Path.trans h1 h2
        rw [List.append_nil] at this
        exact this
    · have h' := (shift_accepts b a.states.length hb cm w).mpr h
      refine .eps hsc (t := b.start + a.states.length) ?_ ?_
      · rw [alternation_state_start ha ha0 hb hb0]; exact List.mem_cons_of_mem _ List.mem_cons_self
      · have h1 := hxr.embed hb' h'
        have h2 : (a.alternation b).Path cm (b.fin + a.states.length) []
            (a.states.length + b.states.length + 1) :=
          Path.epsEdge (hxr.cont _ hb'.fin_in)
            (by rw [alternation_state_bfin ha ha0 hb hb0]; exact List.mem_cons_self)
        have := Path.trans h1 h2
        rw [List.append_nil] at this
        exact this

end Alternation

end Nfa

end Scnr
