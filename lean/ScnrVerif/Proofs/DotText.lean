import ScnrVerif.Model.DotText
/-!
# Round trip of the DOT text layer (C18)

`Model/DotText.lean` brings the text of a DOT file into the model: `lexDot`/`parseDot` (port of the
harness' strict DOT-subset parser `dotparse.rs`), `decodeDot` (its `decode`, applied to the main
graph and to every cluster as the harness does) and `renderDot` (the text `compiled_dfa_render`
writes through `dot-writer`). This file proves

* `decodeDot_parseDot_renderDot`: for every well-formed document (`DotDoc.textOK`) and string-safe
  title / class texts (`strSafe`), `(parseDot (renderDot title edgeText d)).bind decodeDot = some d`;
  `decodeDot_parseDot_renderDot_of_docOK` is the same under the weaker condition the proof really
  needs (`DocOK`: every node is accepting, or the start node with number 0, or a plain node with
  another number; token types only on accepting nodes), and
  `decodeDot_parseDot_renderDot_dotDoc` instantiates it to the documents `dotDoc M` of
  `Model/Dot.lean` / `Props/C18.lean`, for every mode `M`;
* `parseDot_wellformed_only`: malformed texts are rejected;
* non-vacuity: a literal document with five nodes and a cluster (`exText_decodes`,
  `exDoc_renders`, `exDoc_roundtrip`) and the real file `example1.dot` (`example1_decodes`,
  `example1_renders`: `renderDot` reproduces it character by character);
* leniency: restyled variants of the literal document (other colours and shapes, extra attributes,
  extra graph statements, default-attribute statements) decode to the same document
  (`exRestyled_decodes`, `exDefaults_decodes`); what is not cosmetic is still checked
  (`decodeDot_still_strict`);
* `pStmts_fuel` / `parseToks_fuel`: the fuel of the parser (number of tokens) is never exhausted:
  any larger amount gives the same result.

The proof is layered: characters → tokens (`lexDot_renderDot`, built from "remaining input" lemmas
`lexRun_scan` / `Lexes.append`), tokens → statements (`parseToks_docToks`, built from `ParsesTo`),
statements → document (`decodeDot_docStmts`).

Where the Lean functions deliberately differ from `dotparse.rs`:
1. `char::is_alphanumeric` is ASCII-only here (`isIdChar`); outside of quoted strings a non-ASCII
   letter/digit is an error here and part of an identifier there. The crate writes non-ASCII text
   only inside quoted strings, where every character is accepted by both.
2. `parse::<usize>` has no overflow check here (`parseNat` is unbounded; the optional leading `+`
   and leading zeros are accepted as in Rust).
3. `decode` sorts nodes and edges, the harness sorts clusters by token type (it compares pictures as
   sets); `decodeDot` keeps the order of the file, which is finer (the round trip holds with order).
4. The Rust `Graph` keeps only the last `label` of each (sub)graph, drops the other graph
   attributes and the cluster names, and sorts statements by kind; `DGraphT` keeps all statements in
   order, `decodeDot` extracts the same information (`lastLabel`, node/edge/cluster statements).
5. `decodeDot` reads the kind of a node from its label and number only (`"<id> T<tid>"` accepting,
   else the label must be `"<id>"` and node 0 is the start node) and ignores `shape`, `color`,
   `penwidth` and unknown attributes; `decode` reads the kind from `color` (blue/red/none, any
   other colour an error).
6. The parser also accepts `node [..];`, `edge [..];`, `graph [..];` (`DStmt.dflt`, ignored by
   `decodeDot`); `dotparse.rs` rejects them.
7. The loops of `lex` are one state machine (`lexStep`/`lexRun`) instead of nested loops; the
   recursion of `P::body` is bounded by fuel, which `pStmts_fuel` shows to be immaterial.
-/
namespace Scnr

/-! ## Decimal numbers -/

/-- the textbook recursion, used only to reason about `natDigits` -/
def natDigitsSpec (n : Nat) : List Nat :=
  if n < 10 then [48 + n] else natDigitsSpec (n / 10) ++ [48 + n % 10]
decreasing_by omega

theorem natDigitsGo_eq : ∀ f n acc, n < f → natDigitsGo f n acc = natDigitsSpec n ++ acc := by
  intro f
  induction f with
  | zero => intro n acc h; omega
  | succ f ih =>
    intro n acc h
    unfold natDigitsGo
    rw [natDigitsSpec]
    by_cases h10 : n < 10
    · simp [h10]
    · simp only [h10, if_false]
      rw [ih (n / 10) _ (by omega)]
      simp [List.append_assoc]

theorem natDigits_eq (n : Nat) : natDigits n = natDigitsSpec n := by
  unfold natDigits
  rw [natDigitsGo_eq (n + 1) n [] (by omega)]
  simp

theorem natDigits_unfold (n : Nat) :
    natDigits n = if n < 10 then [48 + n] else natDigits (n / 10) ++ [48 + n % 10] := by
  rw [natDigits_eq, natDigits_eq, natDigitsSpec]

theorem natDigits_digit (n : Nat) : ∀ c ∈ natDigits n, isDigit c = true := by
  induction n using Nat.strongRecOn with
  | _ n ih =>
    rw [natDigits_unfold]
    by_cases h10 : n < 10
    · simp only [h10, if_true, List.mem_singleton]
      intro c hc
      subst hc
      simp [isDigit]; omega
    · simp only [h10, if_false, List.mem_append, List.mem_singleton]
      intro c hc
      cases hc with
      | inl h => exact ih (n / 10) (by omega) c h
      | inr h => subst h; simp [isDigit]; omega

theorem natDigits_ne_nil (n : Nat) : natDigits n ≠ [] := by
  rw [natDigits_unfold]
  by_cases h10 : n < 10 <;> simp [h10]

theorem digitsVal_append (a b : List Nat) (acc : Nat) :
    digitsVal (a ++ b) acc = digitsVal b (digitsVal a acc) := by
  induction a generalizing acc with
  | nil => rfl
  | cons c r ih => simp only [List.cons_append, digitsVal]; exact ih _

theorem digitsVal_natDigits (n : Nat) : digitsVal (natDigits n) 0 = n := by
  induction n using Nat.strongRecOn with
  | _ n ih =>
    rw [natDigits_unfold]
    by_cases h10 : n < 10
    · simp only [h10, if_true, digitsVal]; omega
    · simp only [h10, if_false, digitsVal_append, ih (n / 10) (by omega), digitsVal]; omega

theorem parseNat_natDigits (n : Nat) : parseNat (natDigits n) = some n := by
  have hne := natDigits_ne_nil n
  have hd := natDigits_digit n
  have hv := digitsVal_natDigits n
  cases hs : natDigits n with
  | nil => exact absurd hs hne
  | cons c r =>
    rw [hs] at hd hv
    have hc : isDigit c = true := hd c (by simp)
    have hc43 : c ≠ 43 := by
      intro h; subst h; simp [isDigit] at hc
    have hall : (c :: r).all isDigit = true := by
      rw [List.all_eq_true]; exact hd
    simp only [parseNat, dropPlus, hc43, if_false, parseDigits, List.isEmpty_cons, hall, if_true, hv]
    simp

/-! ## Character classes of the pieces the writer emits -/

/-- neither a quote nor a backslash -/
def Plain (s : List Nat) : Prop := ∀ c ∈ s, c ≠ 34 ∧ c ≠ 92

theorem Plain.append {a b : List Nat} (ha : Plain a) (hb : Plain b) : Plain (a ++ b) := by
  intro c hc
  rw [List.mem_append] at hc
  cases hc with
  | inl h => exact ha c h
  | inr h => exact hb c h

theorem plain_natDigits (n : Nat) : Plain (natDigits n) := by
  intro c hc
  have := natDigits_digit n c hc
  simp [isDigit] at this
  omega

theorem strSafeGo_append_plain (a b : List Nat) (hb : Plain b) :
    ∀ esc, strSafeGo esc a = true → strSafeGo esc (a ++ b) = true := by
  induction a with
  | nil =>
    intro esc h
    cases esc with
    | true => simp [strSafeGo] at h
    | false =>
      clear h
      simp only [List.nil_append]
      induction b with
      | nil => rfl
      | cons c r ih =>
        have hc := hb c (by simp)
        simp only [strSafeGo, hc.1, hc.2, if_false]
        exact ih (fun x hx => hb x (by simp [hx]))
  | cons c r ih =>
    intro esc h
    cases esc with
    | true => simp only [List.cons_append, strSafeGo] at h ⊢; exact ih _ h
    | false =>
      simp only [List.cons_append, strSafeGo] at h ⊢
      by_cases h92 : c = 92
      · simp only [h92, if_true] at h ⊢; exact ih _ h
      · by_cases h34 : c = 34
        · simp [h34] at h
        · simp only [h92, h34, if_false] at h ⊢; exact ih _ h

theorem strSafe_append_plain {a b : List Nat} (ha : strSafe a = true) (hb : Plain b) :
    strSafe (a ++ b) = true := strSafeGo_append_plain a b hb false ha

theorem strSafe_of_plain {s : List Nat} (h : Plain s) : strSafe s = true := by
  have := strSafe_append_plain (a := []) (b := s) rfl h
  simpa using this

/-! ## Lexer: scanning a piece of text -/

/-- the tokens completed inside a piece of text and the state after it -/
def lexScan : LexSt → List Nat → Option (List DTok × LexSt)
  | st, [] => some ([], st)
  | st, c :: r =>
    match lexStep st c with
    | none => none
    | some (o, st') =>
      match lexScan st' r with
      | none => none
      | some (ts, st'') => some (o ++ ts, st'')

/-- "remaining input" lemma of the lexer -/
theorem lexRun_scan (a r : List Nat) : ∀ (st : LexSt) (out ts : List DTok) (st' : LexSt),
    lexScan st a = some (ts, st') → lexRun st out (a ++ r) = lexRun st' (ts.reverse ++ out) r := by
  induction a with
  | nil =>
    intro st out ts st' h
    simp only [lexScan, Option.some.injEq, Prod.mk.injEq] at h
    rw [← h.1, ← h.2]; rfl
  | cons c a ih =>
    intro st out ts st' h
    simp only [lexScan] at h
    simp only [List.cons_append, lexRun]
    cases hs : lexStep st c with
    | none => simp [hs] at h
    | some p =>
      obtain ⟨o, st1⟩ := p
      simp only [hs] at h ⊢
      cases hr : lexScan st1 a with
      | none => simp [hr] at h
      | some q =>
        obtain ⟨ts1, st2⟩ := q
        simp only [hr, Option.some.injEq, Prod.mk.injEq] at h
        rw [ih st1 _ ts1 st2 hr, ← h.1, ← h.2]
        simp [List.reverse_append, List.append_assoc]

def Lexes (st : LexSt) (a : List Nat) (ts : List DTok) (st' : LexSt) : Prop :=
  lexScan st a = some (ts, st')

theorem Lexes.append {st st1 st2 : LexSt} {a b : List Nat} {ta tb : List DTok}
    (ha : Lexes st a ta st1) (hb : Lexes st1 b tb st2) : Lexes st (a ++ b) (ta ++ tb) st2 := by
  unfold Lexes at *
  induction a generalizing st ta with
  | nil =>
    simp only [lexScan, Option.some.injEq, Prod.mk.injEq] at ha
    obtain ⟨rfl, rfl⟩ := ha
    simpa using hb
  | cons c a ih =>
    simp only [lexScan, List.cons_append] at ha ⊢
    cases hs : lexStep st c with
    | none => simp [hs] at ha
    | some p =>
      obtain ⟨o, st'⟩ := p
      simp only [hs] at ha ⊢
      cases hr : lexScan st' a with
      | none => simp [hr] at ha
      | some q =>
        obtain ⟨ts1, st''⟩ := q
        simp only [hr, Option.some.injEq, Prod.mk.injEq] at ha
        obtain ⟨rfl, rfl⟩ := ha
        rw [ih hr]
        simp [List.append_assoc]

theorem lexDot_of_lexes {a : List Nat} {ts : List DTok} (h : Lexes .top a ts .top) :
    lexDot a = some ts := by
  have := lexRun_scan a [] .top [] ts .top h
  simp only [List.append_nil] at this
  rw [lexDot, this]
  simp [lexRun, lexFinish]

/-- a quoted string is one token carrying its raw content -/
theorem lexScan_str (s : List Nat) : ∀ acc : List Nat,
    (strSafeGo false s = true →
      lexScan (.inStr acc) (s ++ [34]) = some ([.str (acc.reverse ++ s)], .top)) ∧
    (strSafeGo true s = true →
      lexScan (.inEsc acc) (s ++ [34]) = some ([.str (acc.reverse ++ s)], .top)) := by
  induction s with
  | nil =>
    intro acc
    constructor
    · intro _; simp [lexScan, lexStep]
    · intro h; simp [strSafeGo] at h
  | cons c s ih =>
    intro acc
    constructor
    · intro h
      simp only [strSafeGo] at h
      simp only [List.cons_append, lexScan, lexStep]
      by_cases h92 : c = 92
      · simp only [h92, if_true] at h ⊢
        rw [(ih (92 :: acc)).2 h]; simp
      · by_cases h34 : c = 34
        · simp [h34] at h
        · simp only [h92, h34, if_false] at h ⊢
          rw [(ih (c :: acc)).1 h]; simp
    · intro h
      simp only [strSafeGo] at h
      simp only [List.cons_append, lexScan, lexStep]
      rw [(ih (c :: acc)).1 h]; simp

theorem lexes_quoted {s : List Nat} (h : strSafe s = true) : Lexes .top (quoted s) [.str s] .top := by
  unfold Lexes quoted
  have := (lexScan_str s []).1 h
  simp only [lexScan, lexStep, stepTop]
  simp only [show isWs 34 = false by decide, if_true, Bool.false_eq_true, if_false]
  rw [this]; simp

/-- identifier characters extend the identifier being read -/
theorem lexScan_idChars (ds : List Nat) (h : ∀ c ∈ ds, isIdChar c = true) : ∀ acc : List Nat,
    lexScan (.inId acc) ds = some ([], .inId (ds.reverse ++ acc)) := by
  induction ds with
  | nil => intro acc; rfl
  | cons c r ih =>
    intro acc
    have hc := h c (by simp)
    simp only [lexScan, lexStep, hc, if_true]
    rw [ih (fun x hx => h x (by simp [hx]))]
    simp

theorem idChar_of_digit {c : Nat} (h : isDigit c = true) : isIdChar c = true := by
  simp [isDigit] at h
  simp [isIdChar]; omega

/-! ## The tokens of a rendered document -/

def nodeAttrToks (n : DNode) : List DTok :=
  if n.kind = 1 then
    [.id kwShape, .eq, .id kwCircle, .comma, .id kwColor, .eq, .id kwBlue, .comma,
      .id kwPenwidth, .eq, .id kwThree, .comma, .id kwLabel, .eq, .str (natDigits n.id)]
  else if n.kind = 2 then
    [.id kwShape, .eq, .id kwCircle, .comma, .id kwColor, .eq, .id kwRed, .comma,
      .id kwPenwidth, .eq, .id kwThree, .comma, .id kwLabel, .eq,
      .str (natDigits n.id ++ [32, 84] ++ natDigits n.tid)]
  else [.id kwLabel, .eq, .str (natDigits n.id)]

def nodeToks (pre : List Nat) (n : DNode) : List DTok :=
  .str (pre ++ natDigits n.id) :: .lbrack :: (nodeAttrToks n ++ [.rbrack, .semi])

def edgeLabel (edgeText : Nat → List Nat) (e : DEdge) : List Nat :=
  edgeText e.cc ++ kwClassOpen ++ natDigits e.cc ++ [41]

def edgeToks (pre : List Nat) (edgeText : Nat → List Nat) (e : DEdge) : List DTok :=
  [.str (pre ++ natDigits e.src), .arrow, .str (pre ++ natDigits e.dst), .lbrack, .id kwLabel, .eq,
    .str (edgeLabel edgeText e), .rbrack, .semi]

def nodesToks (pre : List Nat) : List DNode → List DTok
  | [] => []
  | n :: r => nodeToks pre n ++ nodesToks pre r

def edgesToks (pre : List Nat) (edgeText : Nat → List Nat) : List DEdge → List DTok
  | [] => []
  | e :: r => edgeToks pre edgeText e ++ edgesToks pre edgeText r

def graphToks (pre : List Nat) (edgeText : Nat → List Nat) (g : DGraph) : List DTok :=
  nodesToks pre g.nodes ++ edgesToks pre edgeText g.edges

def clusterPre (c : DCluster) : List Nat := natDigits c.tid ++ [95]

def clusterToks (edgeText : Nat → List Nat) (k : Nat) (c : DCluster) : List DTok :=
  .id kwSubgraph :: .id (kwClusterPre ++ natDigits k) :: .lbrace ::
    .id kwLabel :: .eq :: .str (clusterLabelText c) :: .semi ::
    (graphToks (clusterPre c) edgeText c.g ++ [.rbrace])

def clustersToks (edgeText : Nat → List Nat) : Nat → List DCluster → List DTok
  | _, [] => []
  | k, c :: r => clusterToks edgeText k c ++ clustersToks edgeText (k + 1) r

/-- the tokens between the outer braces, and the closing brace -/
def docBodyToks (title : List Nat) (edgeText : Nat → List Nat) (d : DotDoc) : List DTok :=
  .id kwLabel :: .eq :: .str title :: .semi :: .id kwRankdir :: .eq :: .id kwLR :: .semi ::
    (graphToks [] edgeText d.main ++ (clustersToks edgeText 0 d.clusters ++ [.rbrace]))

def docToks (title : List Nat) (edgeText : Nat → List Nat) (d : DotDoc) : List DTok :=
  .id kwDigraph :: .lbrace :: docBodyToks title edgeText d

/-! ## Lexing the rendered text -/

theorem Lexes.of_eq {st st' : LexSt} {a : List Nat} {ts : List DTok}
    (h : lexScan st a = some (ts, st')) : Lexes st a ts st' := h

theorem plain_name (pre : List Nat) (hpre : Plain pre) (n : Nat) : strSafe (pre ++ natDigits n) = true :=
  strSafe_of_plain (hpre.append (plain_natDigits n))

theorem lexes_nodeAttrs (n : DNode) : Lexes .top (renderNodeAttrs n) (nodeAttrToks n) .top := by
  unfold renderNodeAttrs nodeAttrToks
  by_cases h1 : n.kind = 1
  · simp only [h1, if_true]
    exact (Lexes.of_eq (st := .top) (st' := .top) (a := txtShapeColor ++ kwBlue ++ txtPenLabel)
      (ts := [.id kwShape, .eq, .id kwCircle, .comma, .id kwColor, .eq, .id kwBlue, .comma,
        .id kwPenwidth, .eq, .id kwThree, .comma, .id kwLabel, .eq]) (by decide)).append
      (lexes_quoted (strSafe_of_plain (plain_natDigits n.id)))
  · by_cases h2 : n.kind = 2
    · simp only [h2, if_true]
      have hl : Plain (natDigits n.id ++ [32, 84] ++ natDigits n.tid) :=
        ((plain_natDigits _).append (by intro c hc; simp at hc; omega)).append (plain_natDigits _)
      exact (Lexes.of_eq (st := .top) (st' := .top) (a := txtShapeColor ++ kwRed ++ txtPenLabel)
        (ts := [.id kwShape, .eq, .id kwCircle, .comma, .id kwColor, .eq, .id kwRed, .comma,
          .id kwPenwidth, .eq, .id kwThree, .comma, .id kwLabel, .eq]) (by decide)).append
        (lexes_quoted (strSafe_of_plain hl))
    · simp only [h1, h2, if_false]
      exact (Lexes.of_eq (st := .top) (st' := .top) (a := txtLabelEq) (ts := [.id kwLabel, .eq]) (by decide)).append
        (lexes_quoted (strSafe_of_plain (plain_natDigits n.id)))

theorem lexes_node {ind pre : List Nat} (hind : Lexes .top ind [] .top) (hpre : Plain pre) (n : DNode) :
    Lexes .top (renderNode ind pre n) (nodeToks pre n) .top := by
  unfold renderNode
  have h := (((hind.append (lexes_quoted (plain_name pre hpre n.id))).append
    (Lexes.of_eq (st := .top) (st' := .top) (a := [32, 91]) (ts := [.lbrack]) (by decide))).append
    (lexes_nodeAttrs n)).append
    (Lexes.of_eq (st := .top) (st' := .top) (a := [93, 59, 10]) (ts := [.rbrack, .semi]) (by decide))
  simpa [nodeToks] using h

theorem strSafe_edgeLabel (edgeText : Nat → List Nat) (he : ∀ cc, strSafe (edgeText cc) = true) (e : DEdge) :
    strSafe (edgeLabel edgeText e) = true := by
  unfold edgeLabel
  have hp : Plain (kwClassOpen ++ natDigits e.cc ++ [41]) :=
    (Plain.append (by intro c hc; simp [kwClassOpen] at hc; omega) (plain_natDigits _)).append
      (by intro c hc; simp at hc; omega)
  have := strSafe_append_plain (he e.cc) hp
  simpa [List.append_assoc] using this

theorem lexes_edge {ind pre : List Nat} (hind : Lexes .top ind [] .top) (hpre : Plain pre)
    (edgeText : Nat → List Nat) (he : ∀ cc, strSafe (edgeText cc) = true) (e : DEdge) :
    Lexes .top (renderEdge ind pre edgeText e) (edgeToks pre edgeText e) .top := by
  unfold renderEdge
  have h := ((((((hind.append (lexes_quoted (plain_name pre hpre e.src))).append
    (Lexes.of_eq (st := .top) (st' := .top) (a := [32, 45, 62, 32]) (ts := [.arrow]) (by decide))).append
    (lexes_quoted (plain_name pre hpre e.dst))).append
    (Lexes.of_eq (st := .top) (st' := .top) (a := [32, 91]) (ts := [.lbrack]) (by decide))).append
    (Lexes.of_eq (st := .top) (st' := .top) (a := txtLabelEq) (ts := [.id kwLabel, .eq]) (by decide))).append
    (lexes_quoted (strSafe_edgeLabel edgeText he e))).append
    (Lexes.of_eq (st := .top) (st' := .top) (a := [93, 59, 10]) (ts := [.rbrack, .semi]) (by decide))
  simpa [edgeToks, edgeLabel] using h

theorem lexes_nodes {ind pre : List Nat} (hind : Lexes .top ind [] .top) (hpre : Plain pre) (ns : List DNode) :
    Lexes .top (renderNodes ind pre ns) (nodesToks pre ns) .top := by
  induction ns with
  | nil => exact Lexes.of_eq rfl
  | cons n r ih => exact (lexes_node hind hpre n).append ih

theorem lexes_edges {ind pre : List Nat} (hind : Lexes .top ind [] .top) (hpre : Plain pre)
    (edgeText : Nat → List Nat) (he : ∀ cc, strSafe (edgeText cc) = true) (es : List DEdge) :
    Lexes .top (renderEdges ind pre edgeText es) (edgesToks pre edgeText es) .top := by
  induction es with
  | nil => exact Lexes.of_eq rfl
  | cons e r ih => exact (lexes_edge hind hpre edgeText he e).append ih

theorem lexes_graph {ind pre : List Nat} (hind : Lexes .top ind [] .top) (hpre : Plain pre)
    (edgeText : Nat → List Nat) (he : ∀ cc, strSafe (edgeText cc) = true) (g : DGraph) :
    Lexes .top (renderGraph ind pre edgeText g) (graphToks pre edgeText g) .top :=
  (lexes_nodes hind hpre g.nodes).append (lexes_edges hind hpre edgeText he g.edges)

theorem plain_clusterPre (c : DCluster) : Plain (clusterPre c) :=
  (plain_natDigits _).append (by intro x hx; simp at hx; omega)

theorem plain_clusterLabelText (c : DCluster) : Plain (clusterLabelText c) := by
  unfold clusterLabelText
  refine ((Plain.append ?_ (plain_natDigits _)).append ?_).append ?_
  · intro x hx; simp [kwLaFor] at hx; omega
  · intro x hx; simp at hx; omega
  · cases c.positive
    · intro x hx; simp [kwNeg] at hx; omega
    · intro x hx; simp [kwPos] at hx; omega

theorem lexes_cluster (edgeText : Nat → List Nat) (he : ∀ cc, strSafe (edgeText cc) = true)
    (k : Nat) (c : DCluster) :
    Lexes .top (renderCluster edgeText k c) (clusterToks edgeText k c) .top := by
  unfold renderCluster
  have hk : Lexes (.inId kwClusterPre.reverse) (natDigits k) []
      (.inId ((natDigits k).reverse ++ kwClusterPre.reverse)) :=
    lexScan_idChars _ (fun x hx => idChar_of_digit (natDigits_digit k x hx)) _
  have hopen : Lexes (.inId ((natDigits k).reverse ++ kwClusterPre.reverse)) [32, 123, 10]
      [.id (kwClusterPre ++ natDigits k), .lbrace] .top := by
    unfold Lexes
    simp [lexScan, lexStep, stepTop, isIdChar, isWs, punct]
  have hind4 : Lexes .top ind4 [] .top := Lexes.of_eq (by decide)
  have h := ((((((Lexes.of_eq (st := .top) (st' := .inId kwClusterPre.reverse)
      (a := ind2 ++ kwSubgraph ++ [32] ++ kwClusterPre) (ts := [.id kwSubgraph]) (by decide)).append hk).append
    hopen).append
    (Lexes.of_eq (st := .top) (st' := .top) (a := ind4 ++ txtLabelEq) (ts := [.id kwLabel, .eq]) (by decide))).append
    (lexes_quoted (strSafe_of_plain (plain_clusterLabelText c)))).append
    (Lexes.of_eq (st := .top) (st' := .top) (a := [59, 10]) (ts := [.semi]) (by decide))).append
    ((lexes_graph hind4 (plain_clusterPre c) edgeText he c.g).append
      (Lexes.of_eq (st := .top) (st' := .top) (a := ind2 ++ [125, 10]) (ts := [.rbrace]) (by decide)))
  simpa [clusterToks, clusterPre, List.append_assoc] using h

theorem lexes_clusters (edgeText : Nat → List Nat) (he : ∀ cc, strSafe (edgeText cc) = true)
    (cs : List DCluster) : ∀ k,
    Lexes .top (renderClusters edgeText k cs) (clustersToks edgeText k cs) .top := by
  induction cs with
  | nil => intro k; exact Lexes.of_eq rfl
  | cons c r ih => intro k; exact (lexes_cluster edgeText he k c).append (ih (k + 1))

/-- the lexer reads the written file as the expected tokens -/
theorem lexDot_renderDot (title : List Nat) (edgeText : Nat → List Nat) (d : DotDoc)
    (ht : strSafe title = true) (he : ∀ cc, strSafe (edgeText cc) = true) :
    lexDot (renderDot title edgeText d) = some (docToks title edgeText d) := by
  apply lexDot_of_lexes
  unfold renderDot
  have hind2 : Lexes .top ind2 [] .top := Lexes.of_eq (by decide)
  have h := (((((Lexes.of_eq (st := .top) (st' := .top) (a := kwDigraph ++ [32, 123, 10] ++ ind2 ++ txtLabelEq)
      (ts := [.id kwDigraph, .lbrace, .id kwLabel, .eq]) (by decide)).append
    (lexes_quoted ht)).append
    (Lexes.of_eq (st := .top) (st' := .top) (a := [59, 10] ++ ind2 ++ kwRankdir ++ [61] ++ kwLR ++ [59, 10])
      (ts := [.semi, .id kwRankdir, .eq, .id kwLR, .semi]) (by decide))).append
    (lexes_graph hind2 (pre := []) (fun x hx => nomatch hx) edgeText he d.main)).append
    (lexes_clusters edgeText he d.clusters 0)).append
    (Lexes.of_eq (st := .top) (st' := .top) (a := [125, 10]) (ts := [.rbrace]) (by decide))
  simpa [docToks, docBodyToks, List.append_assoc] using h

/-! ## The parse tree of a rendered document -/

def nodeAttrs (n : DNode) : List (List Nat × List Nat) :=
  if n.kind = 1 then
    [(kwShape, kwCircle), (kwColor, kwBlue), (kwPenwidth, kwThree), (kwLabel, natDigits n.id)]
  else if n.kind = 2 then
    [(kwShape, kwCircle), (kwColor, kwRed), (kwPenwidth, kwThree),
      (kwLabel, natDigits n.id ++ [32, 84] ++ natDigits n.tid)]
  else [(kwLabel, natDigits n.id)]

def nodeStmt (pre : List Nat) (n : DNode) : DStmt := .node (pre ++ natDigits n.id) (nodeAttrs n)

def edgeStmt (pre : List Nat) (edgeText : Nat → List Nat) (e : DEdge) : DStmt :=
  .edge (pre ++ natDigits e.src) (pre ++ natDigits e.dst) [(kwLabel, edgeLabel edgeText e)]

def graphStmts (pre : List Nat) (edgeText : Nat → List Nat) (g : DGraph) : List DStmt :=
  g.nodes.map (nodeStmt pre) ++ g.edges.map (edgeStmt pre edgeText)

def clusterStmt (edgeText : Nat → List Nat) (k : Nat) (c : DCluster) : DStmt :=
  .sub (kwClusterPre ++ natDigits k)
    (.attr kwLabel (clusterLabelText c) :: graphStmts (clusterPre c) edgeText c.g)

def clustersStmts (edgeText : Nat → List Nat) : Nat → List DCluster → List DStmt
  | _, [] => []
  | k, c :: r => clusterStmt edgeText k c :: clustersStmts edgeText (k + 1) r

def docStmts (title : List Nat) (edgeText : Nat → List Nat) (d : DotDoc) : List DStmt :=
  .attr kwLabel title :: .attr kwRankdir kwLR ::
    (graphStmts [] edgeText d.main ++ clustersStmts edgeText 0 d.clusters)

/-! ## Parsing the tokens -/

/-- with at least `b` units of fuel the statements up to the closing brace are `res.1`, and
    `res.2` is what follows the brace -/
def ParsesTo (b : Nat) (toks : List DTok) (res : List DStmt × List DTok) : Prop :=
  ∀ f, b ≤ f → pStmts f toks = some res

theorem ParsesTo.mono {b b' : Nat} {toks : List DTok} {res : List DStmt × List DTok}
    (h : ParsesTo b toks res) (hb : b ≤ b') : ParsesTo b' toks res :=
  fun f hf => h f (Nat.le_trans hb hf)

theorem parsesTo_rbrace (r : List DTok) : ParsesTo 1 (.rbrace :: r) ([], r) := by
  intro f hf
  obtain ⟨f', rfl⟩ : ∃ f', f = f' + 1 := ⟨f - 1, by omega⟩
  rfl

theorem pStmts_node (f : Nat) (pre : List Nat) (n : DNode) (rest : List DTok) :
    pStmts (f + 1) (nodeToks pre n ++ rest) =
      match pStmts f rest with
      | none => none
      | some (ss, r2) => some (nodeStmt pre n :: ss, r2) := by
  unfold nodeToks nodeAttrToks nodeStmt nodeAttrs
  by_cases h1 : n.kind = 1
  · simp only [h1, if_true]; rfl
  · by_cases h2 : n.kind = 2
    · simp only [h2, if_true]; rfl
    · simp only [h1, h2, if_false]; rfl

theorem pStmts_edge (f : Nat) (pre : List Nat) (edgeText : Nat → List Nat) (e : DEdge) (rest : List DTok) :
    pStmts (f + 1) (edgeToks pre edgeText e ++ rest) =
      match pStmts f rest with
      | none => none
      | some (ss, r2) => some (edgeStmt pre edgeText e :: ss, r2) := rfl

theorem pStmts_attr_str (f : Nat) (k v : List Nat) (hk : k ≠ kwSubgraph) (rest : List DTok) :
    pStmts (f + 1) (.id k :: .eq :: .str v :: .semi :: rest) =
      match pStmts f rest with
      | none => none
      | some (ss, r2) => some (.attr k v :: ss, r2) := by
  simp only [pStmts, hk, if_false, pIdStmt, pAttrStmt, tokValue]
  cases pStmts f rest <;> rfl

theorem pStmts_attr_id (f : Nat) (k v : List Nat) (hk : k ≠ kwSubgraph) (rest : List DTok) :
    pStmts (f + 1) (.id k :: .eq :: .id v :: .semi :: rest) =
      match pStmts f rest with
      | none => none
      | some (ss, r2) => some (.attr k v :: ss, r2) := by
  simp only [pStmts, hk, if_false, pIdStmt, pAttrStmt, tokValue]
  cases pStmts f rest <;> rfl

theorem ParsesTo.step {b : Nat} {toks rest tail r : _} {st : DStmt}
    (hstep : ∀ f, pStmts (f + 1) toks =
      match pStmts f rest with
      | none => none
      | some (ss, r2) => some (st :: ss, r2))
    (h : ParsesTo b rest (tail, r)) : ParsesTo (b + 1) toks (st :: tail, r) := by
  intro f hf
  obtain ⟨f', rfl⟩ : ∃ f', f = f' + 1 := ⟨f - 1, by omega⟩
  rw [hstep, h f' (by omega)]

theorem parsesTo_nodes (pre : List Nat) (ns : List DNode) {b : Nat} {rest tail r : _}
    (h : ParsesTo b rest (tail, r)) :
    ParsesTo (b + ns.length) (nodesToks pre ns ++ rest) (ns.map (nodeStmt pre) ++ tail, r) := by
  induction ns with
  | nil => simpa [nodesToks] using h
  | cons n ns ih =>
    have := ParsesTo.step (toks := nodeToks pre n ++ (nodesToks pre ns ++ rest))
      (fun f => pStmts_node f pre n _) ih
    simpa [nodesToks, List.append_assoc, Nat.add_assoc] using this

theorem parsesTo_edges (pre : List Nat) (edgeText : Nat → List Nat) (es : List DEdge) {b : Nat}
    {rest tail r : _} (h : ParsesTo b rest (tail, r)) :
    ParsesTo (b + es.length) (edgesToks pre edgeText es ++ rest)
      (es.map (edgeStmt pre edgeText) ++ tail, r) := by
  induction es with
  | nil => simpa [edgesToks] using h
  | cons e es ih =>
    have := ParsesTo.step (toks := edgeToks pre edgeText e ++ (edgesToks pre edgeText es ++ rest))
      (fun f => pStmts_edge f pre edgeText e _) ih
    simpa [edgesToks, List.append_assoc, Nat.add_assoc] using this

def graphSize (g : DGraph) : Nat := g.nodes.length + g.edges.length

theorem parsesTo_graph (pre : List Nat) (edgeText : Nat → List Nat) (g : DGraph) {b : Nat}
    {rest tail r : _} (h : ParsesTo b rest (tail, r)) :
    ParsesTo (b + graphSize g) (graphToks pre edgeText g ++ rest)
      (graphStmts pre edgeText g ++ tail, r) := by
  have := parsesTo_nodes pre g.nodes (parsesTo_edges pre edgeText g.edges h)
  unfold graphToks graphStmts graphSize
  refine ParsesTo.mono (by simpa [List.append_assoc] using this) (by omega)

theorem startsWith_append (p s : List Nat) : startsWith p (p ++ s) = true := by
  induction p with
  | nil => rfl
  | cons c p ih => simp [startsWith, ih]

theorem parsesTo_cluster (edgeText : Nat → List Nat) (k : Nat) (c : DCluster) {b : Nat}
    {rest tail r : _} (h : ParsesTo b rest (tail, r)) :
    ParsesTo (b + graphSize c.g + 3) (clusterToks edgeText k c ++ rest)
      (clusterStmt edgeText k c :: tail, r) := by
  intro f hf
  obtain ⟨f', rfl⟩ : ∃ f', f = f' + 1 := ⟨f - 1, by omega⟩
  have hbody : ParsesTo (1 + graphSize c.g + 1)
      (.id kwLabel :: .eq :: .str (clusterLabelText c) :: .semi ::
        (graphToks (clusterPre c) edgeText c.g ++ (.rbrace :: rest)))
      (.attr kwLabel (clusterLabelText c) :: (graphStmts (clusterPre c) edgeText c.g ++ []), rest) :=
    ParsesTo.step (fun f => pStmts_attr_str f kwLabel _ (by decide) _)
      (parsesTo_graph (clusterPre c) edgeText c.g (parsesTo_rbrace rest))
  have h1 := hbody f' (by omega)
  have h2 := h f' (by omega)
  simp only [List.append_nil] at h1
  simp only [clusterToks, clusterStmt, List.cons_append, List.append_assoc, pStmts, if_true, pClusterHead,
    startsWith_append, List.nil_append, h1, h2]

def clustersSize : List DCluster → Nat
  | [] => 0
  | c :: r => graphSize c.g + 3 + clustersSize r

theorem parsesTo_clusters (edgeText : Nat → List Nat) (cs : List DCluster) {b : Nat}
    {rest tail r : _} (h : ParsesTo b rest (tail, r)) : ∀ k,
    ParsesTo (b + clustersSize cs) (clustersToks edgeText k cs ++ rest)
      (clustersStmts edgeText k cs ++ tail, r) := by
  induction cs with
  | nil => intro k; simpa [clustersToks, clustersStmts, clustersSize] using h
  | cons c cs ih =>
    intro k
    have := parsesTo_cluster edgeText k c (ih (k + 1))
    refine ParsesTo.mono (by simpa [clustersToks, clustersStmts, List.append_assoc] using this) ?_
    simp only [clustersSize]; omega

theorem parsesTo_docBody (title : List Nat) (edgeText : Nat → List Nat) (d : DotDoc) :
    ParsesTo (clustersSize d.clusters + graphSize d.main + 3) (docBodyToks title edgeText d)
      (docStmts title edgeText d, []) := by
  have h := ParsesTo.step (fun f => pStmts_attr_str f kwLabel title (by decide) _)
    (ParsesTo.step (fun f => pStmts_attr_id f kwRankdir kwLR (by decide) _)
      (parsesTo_graph [] edgeText d.main (parsesTo_clusters edgeText d.clusters (parsesTo_rbrace []) 0)))
  refine ParsesTo.mono (by simpa [docBodyToks, docStmts, List.append_assoc] using h) (by omega)

/-! the fuel `parseToks` provides (the number of tokens) is enough -/

theorem length_nodesToks (pre : List Nat) (ns : List DNode) : ns.length ≤ (nodesToks pre ns).length := by
  induction ns with
  | nil => simp [nodesToks]
  | cons n ns ih => simp only [nodesToks, nodeToks, List.length_append, List.length_cons]; omega

theorem length_edgesToks (pre : List Nat) (edgeText : Nat → List Nat) (es : List DEdge) :
    es.length ≤ (edgesToks pre edgeText es).length := by
  induction es with
  | nil => simp [edgesToks]
  | cons e es ih => simp only [edgesToks, edgeToks, List.length_append, List.length_cons]; omega

theorem length_graphToks (pre : List Nat) (edgeText : Nat → List Nat) (g : DGraph) :
    graphSize g ≤ (graphToks pre edgeText g).length := by
  have := length_nodesToks pre g.nodes
  have := length_edgesToks pre edgeText g.edges
  simp only [graphSize, graphToks, List.length_append]; omega

theorem length_clustersToks (edgeText : Nat → List Nat) (cs : List DCluster) : ∀ k,
    clustersSize cs ≤ (clustersToks edgeText k cs).length := by
  induction cs with
  | nil => intro k; simp [clustersSize]
  | cons c cs ih =>
    intro k
    have := ih (k + 1)
    have := length_graphToks (clusterPre c) edgeText c.g
    simp only [clustersSize, clustersToks, clusterToks, List.length_append, List.length_cons]; omega

/-- the parser builds the expected tree from the expected tokens -/
theorem parseToks_docToks (title : List Nat) (edgeText : Nat → List Nat) (d : DotDoc) :
    parseToks (docToks title edgeText d) = some ⟨docStmts title edgeText d⟩ := by
  have hlen : clustersSize d.clusters + graphSize d.main + 3 ≤ (docBodyToks title edgeText d).length + 2 := by
    have := length_graphToks [] edgeText d.main
    have := length_clustersToks edgeText d.clusters 0
    simp only [docBodyToks, List.length_append, List.length_cons]; omega
  have := parsesTo_docBody title edgeText d _ hlen
  simp only [docToks, parseToks, if_true, this]

/-! ## Decoding the tree -/

theorem stripPrefix_append (p s : List Nat) : stripPrefix p (p ++ s) = some s := by
  induction p with
  | nil => cases s <;> rfl
  | cons c p ih => simp [stripPrefix, ih]

theorem idOf_name (pre : List Nat) (n : Nat) : idOf pre (pre ++ natDigits n) = some n := by
  simp only [idOf, stripPrefix_append, parseNat_natDigits]

/-- what the round trip needs of a node: it is accepting (kind 2), or the start node (kind 1,
    number 0), or a plain node (kind 0, not number 0); only accepting nodes carry a token type -/
def NodeOK (n : DNode) : Prop :=
  n.kind = 2 ∨ (n.kind = 1 ∧ n.id = 0 ∧ n.tid = 0) ∨ (n.kind = 0 ∧ n.id ≠ 0 ∧ n.tid = 0)

theorem stripPrefix_short (a b : List Nat) (hb : b ≠ []) : stripPrefix (a ++ b) a = none := by
  induction a with
  | nil =>
    cases b with
    | nil => exact absurd rfl hb
    | cons x b => rfl
  | cons c a ih => simp [stripPrefix, ih]

theorem acceptingTid_plain (id : Nat) : acceptingTid id (natDigits id) = none := by
  simp [acceptingTid, stripPrefix_short]

theorem acceptingTid_accepting (id tid : Nat) :
    acceptingTid id (natDigits id ++ [32, 84] ++ natDigits tid) = some tid := by
  simp only [acceptingTid, stripPrefix_append, parseNat_natDigits]

theorem decodeNode_nodeStmt (pre : List Nat) (n : DNode) (h : NodeOK n) :
    decodeNode pre (pre ++ natDigits n.id) (nodeAttrs n) = some n := by
  obtain ⟨id, kind, tid⟩ := n
  unfold decodeNode nodeAttrs
  simp only [idOf_name]
  rcases h with h | ⟨h1, h2, h3⟩ | ⟨h1, h2, h3⟩ <;> simp only at *
  · subst h
    have hl : lookupAttr kwLabel [(kwShape, kwCircle), (kwColor, kwRed), (kwPenwidth, kwThree),
        (kwLabel, natDigits id ++ [32, 84] ++ natDigits tid)]
        = some (natDigits id ++ [32, 84] ++ natDigits tid) := rfl
    simp only [Nat.reduceEqDiff, if_false, if_true, hl, acceptingTid_accepting]
  · subst h1; subst h2; subst h3
    have hl : lookupAttr kwLabel [(kwShape, kwCircle), (kwColor, kwBlue), (kwPenwidth, kwThree),
        (kwLabel, natDigits 0)] = some (natDigits 0) := rfl
    simp only [if_true, hl, acceptingTid_plain]
  · subst h1; subst h3
    have hl : lookupAttr kwLabel [(kwLabel, natDigits id)] = some (natDigits id) := rfl
    simp only [Nat.reduceEqDiff, if_false, if_true, hl, acceptingTid_plain, h2]

theorem afterLast_none (s : List Nat) (h : ∀ c ∈ s, c ≠ 32) : afterLast kwClassOpen s = none := by
  induction s with
  | nil => rfl
  | cons c r ih =>
    have hc := h c (by simp)
    simp only [afterLast, ih (fun x hx => h x (by simp [hx]))]
    simp only [kwClassOpen, stripPrefix]
    simp [Ne.symm hc]

theorem afterLast_hit (a t : List Nat) (h : ∀ c ∈ t, c ≠ 32) :
    afterLast kwClassOpen (a ++ (kwClassOpen ++ t)) = some t := by
  induction a with
  | nil =>
    have hn : afterLast kwClassOpen (40 :: 67 :: 35 :: t) = none :=
      afterLast_none _ (by intro c hc; simp at hc; rcases hc with rfl | rfl | rfl | hc <;> first | omega | exact h c hc)
    show afterLast kwClassOpen (32 :: 40 :: 67 :: 35 :: t) = some t
    simp only [afterLast] at hn ⊢
    simp only [hn]
    simp [kwClassOpen, stripPrefix]
  | cons c a ih => simp only [List.cons_append, afterLast, ih]

theorem stripSuffixChar_append (c : Nat) (s : List Nat) : stripSuffixChar c (s ++ [c]) = some s := by
  simp [stripSuffixChar, List.reverse_append]

theorem edgeClass_edgeLabel (edgeText : Nat → List Nat) (e : DEdge) :
    edgeClass (edgeLabel edgeText e) = some e.cc := by
  have h32 : ∀ c ∈ natDigits e.cc ++ [41], c ≠ 32 := by
    intro c hc
    rw [List.mem_append] at hc
    cases hc with
    | inl h => have := natDigits_digit _ c h; simp [isDigit] at this; omega
    | inr h => simp at h; omega
  have := afterLast_hit (edgeText e.cc) _ h32
  unfold edgeClass edgeLabel
  simp only [List.append_assoc] at this ⊢
  simp only [this, stripSuffixChar_append, parseNat_natDigits]

theorem decodeEdge_edgeStmt (pre : List Nat) (edgeText : Nat → List Nat) (e : DEdge) :
    decodeEdge pre (pre ++ natDigits e.src) (pre ++ natDigits e.dst) [(kwLabel, edgeLabel edgeText e)]
      = some e := by
  simp [decodeEdge, lookupAttr, edgeClass_edgeLabel, idOf_name]

/-! what each decoder sees of a list of statements -/

theorem decodeNodes_nodes (pre : List Nat) (ns : List DNode) (h : ∀ n ∈ ns, NodeOK n)
    (tail : List DStmt) (t : List DNode) (ht : decodeNodes pre tail = some t) :
    decodeNodes pre (ns.map (nodeStmt pre) ++ tail) = some (ns ++ t) := by
  induction ns with
  | nil => simpa using ht
  | cons n ns ih =>
    simp only [List.map_cons, List.cons_append, nodeStmt, decodeNodes]
    rw [decodeNode_nodeStmt pre n (h n (by simp))]
    rw [ih (fun x hx => h x (by simp [hx]))]

theorem decodeNodes_edges (pre pre' : List Nat) (edgeText : Nat → List Nat) (es : List DEdge)
    (tail : List DStmt) :
    decodeNodes pre (es.map (edgeStmt pre' edgeText) ++ tail) = decodeNodes pre tail := by
  induction es with
  | nil => rfl
  | cons e es ih => exact ih

theorem decodeNodes_clusters (pre : List Nat) (edgeText : Nat → List Nat) (cs : List DCluster) :
    ∀ k, decodeNodes pre (clustersStmts edgeText k cs) = some [] := by
  induction cs with
  | nil => intro k; rfl
  | cons c cs ih => intro k; simpa [clustersStmts, clusterStmt, decodeNodes] using ih (k + 1)

theorem decodeEdges_nodes (pre pre' : List Nat) (ns : List DNode) (tail : List DStmt) :
    decodeEdges pre (ns.map (nodeStmt pre') ++ tail) = decodeEdges pre tail := by
  induction ns with
  | nil => rfl
  | cons n ns ih => exact ih

theorem decodeEdges_edges (pre : List Nat) (edgeText : Nat → List Nat) (es : List DEdge)
    (tail : List DStmt) (t : List DEdge) (ht : decodeEdges pre tail = some t) :
    decodeEdges pre (es.map (edgeStmt pre edgeText) ++ tail) = some (es ++ t) := by
  induction es with
  | nil => simpa using ht
  | cons e es ih =>
    simp only [List.map_cons, List.cons_append, edgeStmt, decodeEdges]
    rw [decodeEdge_edgeStmt pre edgeText e]
    rw [ih]

theorem decodeEdges_clusters (pre : List Nat) (edgeText : Nat → List Nat) (cs : List DCluster) :
    ∀ k, decodeEdges pre (clustersStmts edgeText k cs) = some [] := by
  induction cs with
  | nil => intro k; rfl
  | cons c cs ih => intro k; simpa [clustersStmts, clusterStmt, decodeEdges] using ih (k + 1)

def GraphOK (g : DGraph) : Prop := ∀ n ∈ g.nodes, NodeOK n

theorem decodeGraph_graphStmts (pre : List Nat) (edgeText : Nat → List Nat) (g : DGraph) (h : GraphOK g)
    (tail : List DStmt) (hn : decodeNodes pre tail = some []) (he : decodeEdges pre tail = some []) :
    decodeGraph pre (graphStmts pre edgeText g ++ tail) = some g := by
  unfold decodeGraph graphStmts
  rw [List.append_assoc, decodeNodes_nodes pre g.nodes h _ [] (by rw [decodeNodes_edges]; exact hn),
    decodeEdges_nodes, decodeEdges_edges pre edgeText g.edges tail [] he]
  simp

theorem lastLabel_graphStmts (pre : List Nat) (edgeText : Nat → List Nat) (g : DGraph) (cur : List Nat) :
    lastLabel (graphStmts pre edgeText g) cur = cur := by
  unfold graphStmts
  have hE : ∀ es : List DEdge, lastLabel (es.map (edgeStmt pre edgeText)) cur = cur := by
    intro es
    induction es with
    | nil => rfl
    | cons e es ih => simpa [edgeStmt, lastLabel] using ih
  induction g.nodes with
  | nil => simpa using hE g.edges
  | cons n ns ih => simpa [nodeStmt, lastLabel] using ih

theorem splitOnce_append (c : Nat) (a b : List Nat) (h : ∀ x ∈ a, x ≠ c) :
    splitOnce c (a ++ c :: b) = some (a, b) := by
  induction a with
  | nil => simp [splitOnce]
  | cons x a ih =>
    have hx := h x (by simp)
    simp only [List.cons_append, splitOnce, hx, if_false, ih (fun y hy => h y (by simp [hy]))]

theorem clusterLabel_text (c : DCluster) : clusterLabel (clusterLabelText c) = some (c.tid, c.positive) := by
  have h40 : ∀ x ∈ natDigits c.tid, x ≠ 40 := by
    intro x hx; have := natDigits_digit _ x hx; simp [isDigit] at this; omega
  unfold clusterLabel clusterLabelText
  simp only [List.append_assoc, stripPrefix_append, List.singleton_append, splitOnce_append 40 _ _ h40,
    parseNat_natDigits]
  cases c.positive
  · simp [kwPos, kwNeg]
  · simp

theorem decodeCluster_body (edgeText : Nat → List Nat) (c : DCluster) (h : GraphOK c.g) :
    decodeCluster (.attr kwLabel (clusterLabelText c) :: graphStmts (clusterPre c) edgeText c.g) = some c := by
  have hg := decodeGraph_graphStmts (clusterPre c) edgeText c.g h [] rfl rfl
  simp only [List.append_nil] at hg
  have hg' : decodeGraph (clusterPre c)
      (.attr kwLabel (clusterLabelText c) :: graphStmts (clusterPre c) edgeText c.g) = some c.g := by
    simpa [decodeGraph, decodeNodes, decodeEdges] using hg
  simp only [decodeCluster, lastLabel, if_true, lastLabel_graphStmts, clusterLabel_text]
  rw [show natDigits c.tid ++ [95] = clusterPre c from rfl, hg']

theorem decodeClusters_graphStmts (pre : List Nat) (edgeText : Nat → List Nat) (g : DGraph) (tail : List DStmt) :
    decodeClusters (graphStmts pre edgeText g ++ tail) = decodeClusters tail := by
  unfold graphStmts
  rw [List.append_assoc]
  have hE : ∀ es : List DEdge,
      decodeClusters (es.map (edgeStmt pre edgeText) ++ tail) = decodeClusters tail := by
    intro es
    induction es with
    | nil => rfl
    | cons e es ih => simpa [edgeStmt, decodeClusters] using ih
  induction g.nodes with
  | nil => simpa using hE g.edges
  | cons n ns ih => simpa [nodeStmt, decodeClusters] using ih

theorem decodeClusters_clusters (edgeText : Nat → List Nat) (cs : List DCluster)
    (h : ∀ c ∈ cs, GraphOK c.g) : ∀ k, decodeClusters (clustersStmts edgeText k cs) = some cs := by
  induction cs with
  | nil => intro k; rfl
  | cons c cs ih =>
    intro k
    simp only [clustersStmts, clusterStmt, decodeClusters]
    rw [decodeCluster_body edgeText c (h c (by simp)), ih (fun x hx => h x (by simp [hx]))]

def DocOK (d : DotDoc) : Prop := GraphOK d.main ∧ ∀ c ∈ d.clusters, GraphOK c.g

/-- decoding the expected tree gives the document back -/
theorem decodeDot_docStmts (title : List Nat) (edgeText : Nat → List Nat) (d : DotDoc) (h : DocOK d) :
    decodeDot ⟨docStmts title edgeText d⟩ = some d := by
  have hg := decodeGraph_graphStmts [] edgeText d.main h.1 (clustersStmts edgeText 0 d.clusters)
    (decodeNodes_clusters _ _ _ 0) (decodeEdges_clusters _ _ _ 0)
  have hg' : decodeGraph [] (docStmts title edgeText d) = some d.main := by
    simpa [docStmts, decodeGraph, decodeNodes, decodeEdges] using hg
  have hc : decodeClusters (docStmts title edgeText d) = some d.clusters := by
    simp only [docStmts, decodeClusters, decodeClusters_graphStmts]
    exact decodeClusters_clusters edgeText d.clusters h.2 0
  simp only [decodeDot, hg', hc]

/-! ## The round trip -/

theorem nodeOK_of_nodesOKFrom : ∀ (ns : List DNode) (i : Nat), nodesOKFrom i ns = true → ∀ n ∈ ns, NodeOK n := by
  intro ns
  induction ns with
  | nil => intro i _ n hn; cases hn
  | cons m ns ih =>
    intro i h n hn
    simp only [nodesOKFrom, Bool.and_eq_true, Bool.or_eq_true, beq_iff_eq, bne_iff_ne] at h
    rw [List.mem_cons] at hn
    cases hn with
    | inl hm => subst hm; unfold NodeOK; omega
    | inr hm => exact ih (i + 1) h.2 n hm

theorem graphOK_of_textOK (g : DGraph) (h : g.textOK = true) : GraphOK g := by
  simp only [DGraph.textOK, Bool.and_eq_true] at h
  exact nodeOK_of_nodesOKFrom g.nodes 0 h.1

theorem docOK_of_textOK (d : DotDoc) (h : d.textOK = true) : DocOK d := by
  simp only [DotDoc.textOK, Bool.and_eq_true, List.all_eq_true] at h
  exact ⟨graphOK_of_textOK _ h.1, fun c hc => graphOK_of_textOK _ (h.2 c hc)⟩

/-- The round trip under the weakest condition the proof needs: every node has a known kind and
    only accepting nodes carry a token type (`DocOK`). -/
theorem decodeDot_parseDot_renderDot_of_docOK (title : List Nat) (edgeText : Nat → List Nat) (d : DotDoc)
    (hd : DocOK d) (ht : strSafe title = true) (he : ∀ cc, strSafe (edgeText cc) = true) :
    (parseDot (renderDot title edgeText d)).bind decodeDot = some d := by
  simp only [parseDot, lexDot_renderDot title edgeText d ht he, parseToks_docToks, Option.bind_some,
    decodeDot_docStmts title edgeText d hd]

/-- **Round trip of the DOT text layer.** For every well-formed document and every string-safe
    title and class texts, the written file lexes, parses as exactly one `digraph { ... }`, and
    decodes to the document it was written from. -/
theorem decodeDot_parseDot_renderDot (title : List Nat) (edgeText : Nat → List Nat) (d : DotDoc)
    (hd : d.textOK = true) (ht : strSafe title = true) (he : ∀ cc, strSafe (edgeText cc) = true) :
    (parseDot (renderDot title edgeText d)).bind decodeDot = some d :=
  decodeDot_parseDot_renderDot_of_docOK title edgeText d (docOK_of_textOK d hd) ht he

/-- in particular the written file is well-formed for the strict parser -/
theorem parseDot_renderDot_isSome (title : List Nat) (edgeText : Nat → List Nat) (d : DotDoc)
    (ht : strSafe title = true) (he : ∀ cc, strSafe (edgeText cc) = true) :
    parseDot (renderDot title edgeText d) = some ⟨docStmts title edgeText d⟩ := by
  simp only [parseDot, lexDot_renderDot title edgeText d ht he, parseToks_docToks]

/-! ## Negative facts: what is not well-formed is rejected -/

/-- Only well-formed text is accepted (each line: the text, then its code points). -/
theorem parseDot_wellformed_only :
    -- the closing brace of the graph is missing: `digraph { "0" [label="0"];`
    parseDot [100, 105, 103, 114, 97, 112, 104, 32, 123, 32, 34, 48, 34, 32, 91, 108, 97, 98, 101, 108, 61, 34, 48, 34, 93, 59] = none ∧
    -- one closing brace too many: `digraph { } }`
    parseDot [100, 105, 103, 114, 97, 112, 104, 32, 123, 32, 125, 32, 125] = none ∧
    -- a subgraph is not closed: `digraph { subgraph cluster_0 { "0" [label="0"]; }`
    parseDot [100, 105, 103, 114, 97, 112, 104, 32, 123, 32, 115, 117, 98, 103, 114, 97, 112, 104, 32, 99, 108, 117, 115, 116, 101, 114, 95, 48, 32, 123, 32, 34, 48, 34, 32, 91, 108, 97, 98, 101, 108, 61, 34, 48, 34, 93, 59, 32, 125] = none ∧
    -- unterminated string: `digraph { "0; }`
    parseDot [100, 105, 103, 114, 97, 112, 104, 32, 123, 32, 34, 48, 59, 32, 125] = none ∧
    -- a backslash escapes the closing quote: `digraph { "0" [label="a\"]; }`
    parseDot [100, 105, 103, 114, 97, 112, 104, 32, 123, 32, 34, 48, 34, 32, 91, 108, 97, 98, 101, 108, 61, 34, 97, 92, 34, 93, 59, 32, 125] = none ∧
    -- missing `]`: `digraph { "0" [label="0"; }`
    parseDot [100, 105, 103, 114, 97, 112, 104, 32, 123, 32, 34, 48, 34, 32, 91, 108, 97, 98, 101, 108, 61, 34, 48, 34, 59, 32, 125] = none ∧
    -- two `digraph`s in one file: `digraph { } digraph { }`
    parseDot [100, 105, 103, 114, 97, 112, 104, 32, 123, 32, 125, 32, 100, 105, 103, 114, 97, 112, 104, 32, 123, 32, 125] = none ∧
    -- an unescaped quote inside a label (the rest is an unterminated string): `digraph { "0" [label="a"b"]; }`
    parseDot [100, 105, 103, 114, 97, 112, 104, 32, 123, 32, 34, 48, 34, 32, 91, 108, 97, 98, 101, 108, 61, 34, 97, 34, 98, 34, 93, 59, 32, 125] = none ∧
    -- an unescaped quote inside a label (the label falls apart into three tokens): `digraph { "0" [label="a"b"c"]; }`
    parseDot [100, 105, 103, 114, 97, 112, 104, 32, 123, 32, 34, 48, 34, 32, 91, 108, 97, 98, 101, 108, 61, 34, 97, 34, 98, 34, 99, 34, 93, 59, 32, 125] = none ∧
    -- a graph name: `digraph G { }`
    parseDot [100, 105, 103, 114, 97, 112, 104, 32, 71, 32, 123, 32, 125] = none ∧
    -- `-` without `>`: `digraph { "0" - "1"; }`
    parseDot [100, 105, 103, 114, 97, 112, 104, 32, 123, 32, 34, 48, 34, 32, 45, 32, 34, 49, 34, 59, 32, 125] = none ∧
    -- an empty attribute list: `digraph { "0" []; }`
    parseDot [100, 105, 103, 114, 97, 112, 104, 32, 123, 32, 34, 48, 34, 32, 91, 93, 59, 32, 125] = none ∧
    -- a statement without `;`: `digraph { "0" [label="0"] }`
    parseDot [100, 105, 103, 114, 97, 112, 104, 32, 123, 32, 34, 48, 34, 32, 91, 108, 97, 98, 101, 108, 61, 34, 48, 34, 93, 32, 125] = none ∧
    -- a character outside of the subset: `digraph { "0" [label="0"]; # }`
    parseDot [100, 105, 103, 114, 97, 112, 104, 32, 123, 32, 34, 48, 34, 32, 91, 108, 97, 98, 101, 108, 61, 34, 48, 34, 93, 59, 32, 35, 32, 125] = none := by
  decide

/-! ## Non-vacuity: a document written out literally -/

/-- ```
digraph {
  label="M: a|b...";
  rankdir=LR;
  "0" [shape=circle, color=blue, penwidth=3, label="0"];
  "1" [label="1"];
  "2" [shape=circle, color=red, penwidth=3, label="2 T7"];
  "3" [label="3"];
  "4" [shape=circle, color=red, penwidth=3, label="4 T12"];
  "0" -> "1" [label="a (C#0)"];
  "1" -> "2" [label="\" (C#3)"];
  "0" -> "3" [label="[a-z] (C#10)"];
  "3" -> "4" [label="\\ (C#2)"];
  "3" -> "3" [label="a (C#0)"];
  subgraph cluster_0 {
    label="LA for T7(Pos)";
    "7_0" [shape=circle, color=blue, penwidth=3, label="0"];
    "7_1" [shape=circle, color=red, penwidth=3, label="1 T0"];
    "7_0" -> "7_1" [label="a (C#0)"];
  }
}
``` -/
def exText : List Nat := [
    100, 105, 103, 114, 97, 112, 104, 32, 123, 10, 32, 32, 108, 97, 98, 101, 108, 61, 34, 77, 58,
    32, 97, 124, 98, 46, 46, 46, 34, 59, 10, 32, 32, 114, 97, 110, 107, 100, 105, 114, 61, 76, 82,
    59, 10, 32, 32, 34, 48, 34, 32, 91, 115, 104, 97, 112, 101, 61, 99, 105, 114, 99, 108, 101, 44,
    32, 99, 111, 108, 111, 114, 61, 98, 108, 117, 101, 44, 32, 112, 101, 110, 119, 105, 100, 116,
    104, 61, 51, 44, 32, 108, 97, 98, 101, 108, 61, 34, 48, 34, 93, 59, 10, 32, 32, 34, 49, 34, 32,
    91, 108, 97, 98, 101, 108, 61, 34, 49, 34, 93, 59, 10, 32, 32, 34, 50, 34, 32, 91, 115, 104,
    97, 112, 101, 61, 99, 105, 114, 99, 108, 101, 44, 32, 99, 111, 108, 111, 114, 61, 114, 101,
    100, 44, 32, 112, 101, 110, 119, 105, 100, 116, 104, 61, 51, 44, 32, 108, 97, 98, 101, 108, 61,
    34, 50, 32, 84, 55, 34, 93, 59, 10, 32, 32, 34, 51, 34, 32, 91, 108, 97, 98, 101, 108, 61, 34,
    51, 34, 93, 59, 10, 32, 32, 34, 52, 34, 32, 91, 115, 104, 97, 112, 101, 61, 99, 105, 114, 99,
    108, 101, 44, 32, 99, 111, 108, 111, 114, 61, 114, 101, 100, 44, 32, 112, 101, 110, 119, 105,
    100, 116, 104, 61, 51, 44, 32, 108, 97, 98, 101, 108, 61, 34, 52, 32, 84, 49, 50, 34, 93, 59,
    10, 32, 32, 34, 48, 34, 32, 45, 62, 32, 34, 49, 34, 32, 91, 108, 97, 98, 101, 108, 61, 34, 97,
    32, 40, 67, 35, 48, 41, 34, 93, 59, 10, 32, 32, 34, 49, 34, 32, 45, 62, 32, 34, 50, 34, 32, 91,
    108, 97, 98, 101, 108, 61, 34, 92, 34, 32, 40, 67, 35, 51, 41, 34, 93, 59, 10, 32, 32, 34, 48,
    34, 32, 45, 62, 32, 34, 51, 34, 32, 91, 108, 97, 98, 101, 108, 61, 34, 91, 97, 45, 122, 93, 32,
    40, 67, 35, 49, 48, 41, 34, 93, 59, 10, 32, 32, 34, 51, 34, 32, 45, 62, 32, 34, 52, 34, 32, 91,
    108, 97, 98, 101, 108, 61, 34, 92, 92, 32, 40, 67, 35, 50, 41, 34, 93, 59, 10, 32, 32, 34, 51,
    34, 32, 45, 62, 32, 34, 51, 34, 32, 91, 108, 97, 98, 101, 108, 61, 34, 97, 32, 40, 67, 35, 48,
    41, 34, 93, 59, 10, 32, 32, 115, 117, 98, 103, 114, 97, 112, 104, 32, 99, 108, 117, 115, 116,
    101, 114, 95, 48, 32, 123, 10, 32, 32, 32, 32, 108, 97, 98, 101, 108, 61, 34, 76, 65, 32, 102,
    111, 114, 32, 84, 55, 40, 80, 111, 115, 41, 34, 59, 10, 32, 32, 32, 32, 34, 55, 95, 48, 34, 32,
    91, 115, 104, 97, 112, 101, 61, 99, 105, 114, 99, 108, 101, 44, 32, 99, 111, 108, 111, 114, 61,
    98, 108, 117, 101, 44, 32, 112, 101, 110, 119, 105, 100, 116, 104, 61, 51, 44, 32, 108, 97, 98,
    101, 108, 61, 34, 48, 34, 93, 59, 10, 32, 32, 32, 32, 34, 55, 95, 49, 34, 32, 91, 115, 104, 97,
    112, 101, 61, 99, 105, 114, 99, 108, 101, 44, 32, 99, 111, 108, 111, 114, 61, 114, 101, 100,
    44, 32, 112, 101, 110, 119, 105, 100, 116, 104, 61, 51, 44, 32, 108, 97, 98, 101, 108, 61, 34,
    49, 32, 84, 48, 34, 93, 59, 10, 32, 32, 32, 32, 34, 55, 95, 48, 34, 32, 45, 62, 32, 34, 55, 95,
    49, 34, 32, 91, 108, 97, 98, 101, 108, 61, 34, 97, 32, 40, 67, 35, 48, 41, 34, 93, 59, 10, 32,
    32, 125, 10, 125, 10]

def exDoc : DotDoc :=
  { main := { nodes := [⟨0, 1, 0⟩, ⟨1, 0, 0⟩, ⟨2, 2, 7⟩, ⟨3, 0, 0⟩, ⟨4, 2, 12⟩],
              edges := [⟨0, 1, 0⟩, ⟨1, 2, 3⟩, ⟨0, 3, 10⟩, ⟨3, 4, 2⟩, ⟨3, 3, 0⟩] },
    clusters := [⟨7, true, { nodes := [⟨0, 1, 0⟩, ⟨1, 2, 0⟩], edges := [⟨0, 1, 0⟩] }⟩] }

/-- `M: a|b...` -/
def exTitle : List Nat := [77, 58, 32, 97, 124, 98, 46, 46, 46]

/-- the printed classes: 0 `a`, 2 `\\` (an escaped backslash), 3 `\"` (an escaped quote), 10 `[a-z]` -/
def exEdgeText (cc : Nat) : List Nat :=
  if cc = 0 then [97] else if cc = 2 then [92, 92] else if cc = 3 then [92, 34]
  else if cc = 10 then [91, 97, 45, 122, 93] else []

set_option maxRecDepth 20000 in
/-- the literal text is accepted and denotes `exDoc` -/
theorem exText_decodes : (parseDot exText).bind decodeDot = some exDoc := by decide

set_option maxRecDepth 20000 in
/-- the writer produces exactly the literal text -/
theorem exDoc_renders : renderDot exTitle exEdgeText exDoc = exText := by decide

example : exDoc.textOK = true ∧ strSafe exTitle = true := by decide

set_option maxRecDepth 20000 in
/-- the same document through the writer (by evaluation, independently of the theorem) -/
theorem exDoc_roundtrip : (parseDot (renderDot exTitle exEdgeText exDoc)).bind decodeDot = some exDoc := by
  decide

/-- ... and as an instance of the theorem -/
example : (parseDot (renderDot exTitle exEdgeText exDoc)).bind decodeDot = some exDoc :=
  decodeDot_parseDot_renderDot exTitle exEdgeText exDoc (by decide) (by decide) (by
    intro cc; unfold exEdgeText; split
    · decide
    · split
      · decide
      · split
        · decide
        · split <;> decide)

/-! ## Restyled files still decode

`decodeDot` reads the kind of a node from its label and number only and ignores every other
attribute and every graph-level statement other than `label`. -/

/-- `exText` restyled: other colours, `shape=doublecircle` on accepting nodes, an extra
    `fontname="Helvetica"` on the nodes, `fontsize=10;` graph statements.
```
digraph {
  label="M: a|b...";
  rankdir=LR;
  fontsize=10;
  "0" [shape=circle, color=green, penwidth=2, fontname="Helvetica", label="0"];
  "1" [fontname="Helvetica", label="1"];
  "2" [shape=doublecircle, color=black, fontname="Helvetica", label="2 T7"];
  "3" [label="3", fontname="Helvetica"];
  "4" [shape=doublecircle, color=black, fontname="Helvetica", label="4 T12"];
  "0" -> "1" [label="a (C#0)"];
  "1" -> "2" [label="\" (C#3)"];
  "0" -> "3" [label="[a-z] (C#10)"];
  "3" -> "4" [label="\\ (C#2)"];
  "3" -> "3" [label="a (C#0)"];
  subgraph cluster_0 {
    label="LA for T7(Pos)";
    fontsize=10;
    "7_0" [shape=circle, color=green, fontname="Helvetica", label="0"];
    "7_1" [shape=doublecircle, color=black, fontname="Helvetica", label="1 T0"];
    "7_0" -> "7_1" [label="a (C#0)"];
  }
}
``` -/
def exRestyledText : List Nat := [
    100, 105, 103, 114, 97, 112, 104, 32, 123, 10, 32, 32, 108, 97, 98, 101, 108, 61, 34, 77, 58,
    32, 97, 124, 98, 46, 46, 46, 34, 59, 10, 32, 32, 114, 97, 110, 107, 100, 105, 114, 61, 76, 82,
    59, 10, 32, 32, 102, 111, 110, 116, 115, 105, 122, 101, 61, 49, 48, 59, 10, 32, 32, 34, 48, 34,
    32, 91, 115, 104, 97, 112, 101, 61, 99, 105, 114, 99, 108, 101, 44, 32, 99, 111, 108, 111, 114,
    61, 103, 114, 101, 101, 110, 44, 32, 112, 101, 110, 119, 105, 100, 116, 104, 61, 50, 44, 32,
    102, 111, 110, 116, 110, 97, 109, 101, 61, 34, 72, 101, 108, 118, 101, 116, 105, 99, 97, 34,
    44, 32, 108, 97, 98, 101, 108, 61, 34, 48, 34, 93, 59, 10, 32, 32, 34, 49, 34, 32, 91, 102,
    111, 110, 116, 110, 97, 109, 101, 61, 34, 72, 101, 108, 118, 101, 116, 105, 99, 97, 34, 44, 32,
    108, 97, 98, 101, 108, 61, 34, 49, 34, 93, 59, 10, 32, 32, 34, 50, 34, 32, 91, 115, 104, 97,
    112, 101, 61, 100, 111, 117, 98, 108, 101, 99, 105, 114, 99, 108, 101, 44, 32, 99, 111, 108,
    111, 114, 61, 98, 108, 97, 99, 107, 44, 32, 102, 111, 110, 116, 110, 97, 109, 101, 61, 34, 72,
    101, 108, 118, 101, 116, 105, 99, 97, 34, 44, 32, 108, 97, 98, 101, 108, 61, 34, 50, 32, 84,
    55, 34, 93, 59, 10, 32, 32, 34, 51, 34, 32, 91, 108, 97, 98, 101, 108, 61, 34, 51, 34, 44, 32,
    102, 111, 110, 116, 110, 97, 109, 101, 61, 34, 72, 101, 108, 118, 101, 116, 105, 99, 97, 34,
    93, 59, 10, 32, 32, 34, 52, 34, 32, 91, 115, 104, 97, 112, 101, 61, 100, 111, 117, 98, 108,
    101, 99, 105, 114, 99, 108, 101, 44, 32, 99, 111, 108, 111, 114, 61, 98, 108, 97, 99, 107, 44,
    32, 102, 111, 110, 116, 110, 97, 109, 101, 61, 34, 72, 101, 108, 118, 101, 116, 105, 99, 97,
    34, 44, 32, 108, 97, 98, 101, 108, 61, 34, 52, 32, 84, 49, 50, 34, 93, 59, 10, 32, 32, 34, 48,
    34, 32, 45, 62, 32, 34, 49, 34, 32, 91, 108, 97, 98, 101, 108, 61, 34, 97, 32, 40, 67, 35, 48,
    41, 34, 93, 59, 10, 32, 32, 34, 49, 34, 32, 45, 62, 32, 34, 50, 34, 32, 91, 108, 97, 98, 101,
    108, 61, 34, 92, 34, 32, 40, 67, 35, 51, 41, 34, 93, 59, 10, 32, 32, 34, 48, 34, 32, 45, 62,
    32, 34, 51, 34, 32, 91, 108, 97, 98, 101, 108, 61, 34, 91, 97, 45, 122, 93, 32, 40, 67, 35, 49,
    48, 41, 34, 93, 59, 10, 32, 32, 34, 51, 34, 32, 45, 62, 32, 34, 52, 34, 32, 91, 108, 97, 98,
    101, 108, 61, 34, 92, 92, 32, 40, 67, 35, 50, 41, 34, 93, 59, 10, 32, 32, 34, 51, 34, 32, 45,
    62, 32, 34, 51, 34, 32, 91, 108, 97, 98, 101, 108, 61, 34, 97, 32, 40, 67, 35, 48, 41, 34, 93,
    59, 10, 32, 32, 115, 117, 98, 103, 114, 97, 112, 104, 32, 99, 108, 117, 115, 116, 101, 114, 95,
    48, 32, 123, 10, 32, 32, 32, 32, 108, 97, 98, 101, 108, 61, 34, 76, 65, 32, 102, 111, 114, 32,
    84, 55, 40, 80, 111, 115, 41, 34, 59, 10, 32, 32, 32, 32, 102, 111, 110, 116, 115, 105, 122,
    101, 61, 49, 48, 59, 10, 32, 32, 32, 32, 34, 55, 95, 48, 34, 32, 91, 115, 104, 97, 112, 101,
    61, 99, 105, 114, 99, 108, 101, 44, 32, 99, 111, 108, 111, 114, 61, 103, 114, 101, 101, 110,
    44, 32, 102, 111, 110, 116, 110, 97, 109, 101, 61, 34, 72, 101, 108, 118, 101, 116, 105, 99,
    97, 34, 44, 32, 108, 97, 98, 101, 108, 61, 34, 48, 34, 93, 59, 10, 32, 32, 32, 32, 34, 55, 95,
    49, 34, 32, 91, 115, 104, 97, 112, 101, 61, 100, 111, 117, 98, 108, 101, 99, 105, 114, 99, 108,
    101, 44, 32, 99, 111, 108, 111, 114, 61, 98, 108, 97, 99, 107, 44, 32, 102, 111, 110, 116, 110,
    97, 109, 101, 61, 34, 72, 101, 108, 118, 101, 116, 105, 99, 97, 34, 44, 32, 108, 97, 98, 101,
    108, 61, 34, 49, 32, 84, 48, 34, 93, 59, 10, 32, 32, 32, 32, 34, 55, 95, 48, 34, 32, 45, 62,
    32, 34, 55, 95, 49, 34, 32, 91, 108, 97, 98, 101, 108, 61, 34, 97, 32, 40, 67, 35, 48, 41, 34,
    93, 59, 10, 32, 32, 125, 10, 125, 10]

set_option maxRecDepth 20000 in
theorem exRestyled_decodes : (parseDot exRestyledText).bind decodeDot = some exDoc := by decide

/-- `exText` without any styling of single nodes, with default-attribute statements
    (`graph [..];`, `node [..];`, `edge [..];`), extra attributes on edges and in the cluster, and
    `label` not in last position.
```
digraph {
  graph [fontname="Helvetica"];
  node [shape=box, fontname="Helvetica"];
  edge [fontsize=8];
  label="M: a|b...";
  "0" [label="0"];
  "1" [label="1"];
  "2" [label="2 T7", color=red];
  "3" [label="3"];
  "4" [label="4 T12"];
  "0" -> "1" [color=grey, label="a (C#0)"];
  "1" -> "2" [label="\" (C#3)"];
  "0" -> "3" [label="[a-z] (C#10)", fontsize=8];
  "3" -> "4" [label="\\ (C#2)"];
  "3" -> "3" [label="a (C#0)"];
  subgraph cluster_0 {
    style=dashed;
    label="LA for T7(Pos)";
    node [shape=box];
    "7_0" [label="0"];
    "7_1" [label="1 T0"];
    "7_0" -> "7_1" [label="a (C#0)", fontsize=8];
  }
}
``` -/
def exDefaultsText : List Nat := [
    100, 105, 103, 114, 97, 112, 104, 32, 123, 10, 32, 32, 103, 114, 97, 112, 104, 32, 91, 102,
    111, 110, 116, 110, 97, 109, 101, 61, 34, 72, 101, 108, 118, 101, 116, 105, 99, 97, 34, 93, 59,
    10, 32, 32, 110, 111, 100, 101, 32, 91, 115, 104, 97, 112, 101, 61, 98, 111, 120, 44, 32, 102,
    111, 110, 116, 110, 97, 109, 101, 61, 34, 72, 101, 108, 118, 101, 116, 105, 99, 97, 34, 93, 59,
    10, 32, 32, 101, 100, 103, 101, 32, 91, 102, 111, 110, 116, 115, 105, 122, 101, 61, 56, 93, 59,
    10, 32, 32, 108, 97, 98, 101, 108, 61, 34, 77, 58, 32, 97, 124, 98, 46, 46, 46, 34, 59, 10, 32,
    32, 34, 48, 34, 32, 91, 108, 97, 98, 101, 108, 61, 34, 48, 34, 93, 59, 10, 32, 32, 34, 49, 34,
    32, 91, 108, 97, 98, 101, 108, 61, 34, 49, 34, 93, 59, 10, 32, 32, 34, 50, 34, 32, 91, 108, 97,
    98, 101, 108, 61, 34, 50, 32, 84, 55, 34, 44, 32, 99, 111, 108, 111, 114, 61, 114, 101, 100,
    93, 59, 10, 32, 32, 34, 51, 34, 32, 91, 108, 97, 98, 101, 108, 61, 34, 51, 34, 93, 59, 10, 32,
    32, 34, 52, 34, 32, 91, 108, 97, 98, 101, 108, 61, 34, 52, 32, 84, 49, 50, 34, 93, 59, 10, 32,
    32, 34, 48, 34, 32, 45, 62, 32, 34, 49, 34, 32, 91, 99, 111, 108, 111, 114, 61, 103, 114, 101,
    121, 44, 32, 108, 97, 98, 101, 108, 61, 34, 97, 32, 40, 67, 35, 48, 41, 34, 93, 59, 10, 32, 32,
    34, 49, 34, 32, 45, 62, 32, 34, 50, 34, 32, 91, 108, 97, 98, 101, 108, 61, 34, 92, 34, 32, 40,
    67, 35, 51, 41, 34, 93, 59, 10, 32, 32, 34, 48, 34, 32, 45, 62, 32, 34, 51, 34, 32, 91, 108,
    97, 98, 101, 108, 61, 34, 91, 97, 45, 122, 93, 32, 40, 67, 35, 49, 48, 41, 34, 44, 32, 102,
    111, 110, 116, 115, 105, 122, 101, 61, 56, 93, 59, 10, 32, 32, 34, 51, 34, 32, 45, 62, 32, 34,
    52, 34, 32, 91, 108, 97, 98, 101, 108, 61, 34, 92, 92, 32, 40, 67, 35, 50, 41, 34, 93, 59, 10,
    32, 32, 34, 51, 34, 32, 45, 62, 32, 34, 51, 34, 32, 91, 108, 97, 98, 101, 108, 61, 34, 97, 32,
    40, 67, 35, 48, 41, 34, 93, 59, 10, 32, 32, 115, 117, 98, 103, 114, 97, 112, 104, 32, 99, 108,
    117, 115, 116, 101, 114, 95, 48, 32, 123, 10, 32, 32, 32, 32, 115, 116, 121, 108, 101, 61, 100,
    97, 115, 104, 101, 100, 59, 10, 32, 32, 32, 32, 108, 97, 98, 101, 108, 61, 34, 76, 65, 32, 102,
    111, 114, 32, 84, 55, 40, 80, 111, 115, 41, 34, 59, 10, 32, 32, 32, 32, 110, 111, 100, 101, 32,
    91, 115, 104, 97, 112, 101, 61, 98, 111, 120, 93, 59, 10, 32, 32, 32, 32, 34, 55, 95, 48, 34,
    32, 91, 108, 97, 98, 101, 108, 61, 34, 48, 34, 93, 59, 10, 32, 32, 32, 32, 34, 55, 95, 49, 34,
    32, 91, 108, 97, 98, 101, 108, 61, 34, 49, 32, 84, 48, 34, 93, 59, 10, 32, 32, 32, 32, 34, 55,
    95, 48, 34, 32, 45, 62, 32, 34, 55, 95, 49, 34, 32, 91, 108, 97, 98, 101, 108, 61, 34, 97, 32,
    40, 67, 35, 48, 41, 34, 44, 32, 102, 111, 110, 116, 115, 105, 122, 101, 61, 56, 93, 59, 10, 32,
    32, 125, 10, 125, 10]

set_option maxRecDepth 20000 in
theorem exDefaults_decodes : (parseDot exDefaultsText).bind decodeDot = some exDoc := by decide

/-- What is not cosmetic is still checked: each of these texts is well-formed (it parses) but does
    not decode. -/
theorem decodeDot_still_strict :
    -- a node label that disagrees with the node number: `digraph { "1" [label="2"]; }`
    ((parseDot [100, 105, 103, 114, 97, 112, 104, 32, 123, 32, 34, 49, 34, 32, 91, 108, 97, 98, 101, 108, 61, 34, 50, 34, 93, 59, 32, 125]).isSome = true ∧
      (parseDot [100, 105, 103, 114, 97, 112, 104, 32, 123, 32, 34, 49, 34, 32, 91, 108, 97, 98, 101, 108, 61, 34, 50, 34, 93, 59, 32, 125]).bind decodeDot = none) ∧
    -- an accepting label with another number in front: `digraph { "1" [label="2 T3"]; }`
    ((parseDot [100, 105, 103, 114, 97, 112, 104, 32, 123, 32, 34, 49, 34, 32, 91, 108, 97, 98, 101, 108, 61, 34, 50, 32, 84, 51, 34, 93, 59, 32, 125]).isSome = true ∧
      (parseDot [100, 105, 103, 114, 97, 112, 104, 32, 123, 32, 34, 49, 34, 32, 91, 108, 97, 98, 101, 108, 61, 34, 50, 32, 84, 51, 34, 93, 59, 32, 125]).bind decodeDot = none) ∧
    -- a node without label: `digraph { "0" [color=blue]; }`
    ((parseDot [100, 105, 103, 114, 97, 112, 104, 32, 123, 32, 34, 48, 34, 32, 91, 99, 111, 108, 111, 114, 61, 98, 108, 117, 101, 93, 59, 32, 125]).isSome = true ∧
      (parseDot [100, 105, 103, 114, 97, 112, 104, 32, 123, 32, 34, 48, 34, 32, 91, 99, 111, 108, 111, 114, 61, 98, 108, 117, 101, 93, 59, 32, 125]).bind decodeDot = none) ∧
    -- an accepting label without token type: `digraph { "1" [label="1 T"]; }`
    ((parseDot [100, 105, 103, 114, 97, 112, 104, 32, 123, 32, 34, 49, 34, 32, 91, 108, 97, 98, 101, 108, 61, 34, 49, 32, 84, 34, 93, 59, 32, 125]).isSome = true ∧
      (parseDot [100, 105, 103, 114, 97, 112, 104, 32, 123, 32, 34, 49, 34, 32, 91, 108, 97, 98, 101, 108, 61, 34, 49, 32, 84, 34, 93, 59, 32, 125]).bind decodeDot = none) ∧
    -- an edge without class id: `digraph { "0" [label="0"]; "0" -> "0" [label="a"]; }`
    ((parseDot [100, 105, 103, 114, 97, 112, 104, 32, 123, 32, 34, 48, 34, 32, 91, 108, 97, 98, 101, 108, 61, 34, 48, 34, 93, 59, 32, 34, 48, 34, 32, 45, 62, 32, 34, 48, 34, 32, 91, 108, 97, 98, 101, 108, 61, 34, 97, 34, 93, 59, 32, 125]).isSome = true ∧
      (parseDot [100, 105, 103, 114, 97, 112, 104, 32, 123, 32, 34, 48, 34, 32, 91, 108, 97, 98, 101, 108, 61, 34, 48, 34, 93, 59, 32, 34, 48, 34, 32, 45, 62, 32, 34, 48, 34, 32, 91, 108, 97, 98, 101, 108, 61, 34, 97, 34, 93, 59, 32, 125]).bind decodeDot = none) ∧
    -- an edge without label: `digraph { "0" [label="0"]; "0" -> "0" [color=red]; }`
    ((parseDot [100, 105, 103, 114, 97, 112, 104, 32, 123, 32, 34, 48, 34, 32, 91, 108, 97, 98, 101, 108, 61, 34, 48, 34, 93, 59, 32, 34, 48, 34, 32, 45, 62, 32, 34, 48, 34, 32, 91, 99, 111, 108, 111, 114, 61, 114, 101, 100, 93, 59, 32, 125]).isSome = true ∧
      (parseDot [100, 105, 103, 114, 97, 112, 104, 32, 123, 32, 34, 48, 34, 32, 91, 108, 97, 98, 101, 108, 61, 34, 48, 34, 93, 59, 32, 34, 48, 34, 32, 45, 62, 32, 34, 48, 34, 32, 91, 99, 111, 108, 111, 114, 61, 114, 101, 100, 93, 59, 32, 125]).bind decodeDot = none) ∧
    -- a node name that is not a number: `digraph { "n0" [label="0"]; }`
    ((parseDot [100, 105, 103, 114, 97, 112, 104, 32, 123, 32, 34, 110, 48, 34, 32, 91, 108, 97, 98, 101, 108, 61, 34, 48, 34, 93, 59, 32, 125]).isSome = true ∧
      (parseDot [100, 105, 103, 114, 97, 112, 104, 32, 123, 32, 34, 110, 48, 34, 32, 91, 108, 97, 98, 101, 108, 61, 34, 48, 34, 93, 59, 32, 125]).bind decodeDot = none) ∧
    -- a cluster without label: `digraph { subgraph cluster_0 { "7_0" [label="0"]; } }`
    ((parseDot [100, 105, 103, 114, 97, 112, 104, 32, 123, 32, 115, 117, 98, 103, 114, 97, 112, 104, 32, 99, 108, 117, 115, 116, 101, 114, 95, 48, 32, 123, 32, 34, 55, 95, 48, 34, 32, 91, 108, 97, 98, 101, 108, 61, 34, 48, 34, 93, 59, 32, 125, 32, 125]).isSome = true ∧
      (parseDot [100, 105, 103, 114, 97, 112, 104, 32, 123, 32, 115, 117, 98, 103, 114, 97, 112, 104, 32, 99, 108, 117, 115, 116, 101, 114, 95, 48, 32, 123, 32, 34, 55, 95, 48, 34, 32, 91, 108, 97, 98, 101, 108, 61, 34, 48, 34, 93, 59, 32, 125, 32, 125]).bind decodeDot = none) ∧
    -- a cluster whose nodes do not carry its token type: `digraph { subgraph cluster_0 { label="LA for T7(Pos)"; "8_0" [label="0"]; } }`
    ((parseDot [100, 105, 103, 114, 97, 112, 104, 32, 123, 32, 115, 117, 98, 103, 114, 97, 112, 104, 32, 99, 108, 117, 115, 116, 101, 114, 95, 48, 32, 123, 32, 108, 97, 98, 101, 108, 61, 34, 76, 65, 32, 102, 111, 114, 32, 84, 55, 40, 80, 111, 115, 41, 34, 59, 32, 34, 56, 95, 48, 34, 32, 91, 108, 97, 98, 101, 108, 61, 34, 48, 34, 93, 59, 32, 125, 32, 125]).isSome = true ∧
      (parseDot [100, 105, 103, 114, 97, 112, 104, 32, 123, 32, 115, 117, 98, 103, 114, 97, 112, 104, 32, 99, 108, 117, 115, 116, 101, 114, 95, 48, 32, 123, 32, 108, 97, 98, 101, 108, 61, 34, 76, 65, 32, 102, 111, 114, 32, 84, 55, 40, 80, 111, 115, 41, 34, 59, 32, 34, 56, 95, 48, 34, 32, 91, 108, 97, 98, 101, 108, 61, 34, 48, 34, 93, 59, 32, 125, 32, 125]).bind decodeDot = none) := by
  decide

/-! ## A file the crate wrote: `example1.dot` -/

/-- ```
digraph {
  label="Veryl_Embed_: \\{\\}[^{}]*....";
  rankdir=LR;
  "0" [shape=circle, color=blue, penwidth=3, label="0"];
  "1" [shape=circle, color=red, penwidth=3, label="1 T40"];
  "2" [shape=circle, color=red, penwidth=3, label="2 T44"];
  "3" [shape=circle, color=red, penwidth=3, label="3 T117"];
  "4" [shape=circle, color=red, penwidth=3, label="4 T118"];
  "0" -> "4" [label=". (C#4)"];
  "0" -> "1" [label="\\{ (C#42)"];
  "0" -> "2" [label="\\} (C#45)"];
  "0" -> "3" [label="[^{}] (C#78)"];
  "3" -> "3" [label="[^{}] (C#78)"];
}
``` -/
def example1Text : List Nat := [
    100, 105, 103, 114, 97, 112, 104, 32, 123, 10, 32, 32, 108, 97, 98, 101, 108, 61, 34, 86, 101,
    114, 121, 108, 95, 69, 109, 98, 101, 100, 95, 58, 32, 92, 92, 123, 92, 92, 125, 91, 94, 123,
    125, 93, 42, 46, 46, 46, 46, 34, 59, 10, 32, 32, 114, 97, 110, 107, 100, 105, 114, 61, 76, 82,
    59, 10, 32, 32, 34, 48, 34, 32, 91, 115, 104, 97, 112, 101, 61, 99, 105, 114, 99, 108, 101, 44,
    32, 99, 111, 108, 111, 114, 61, 98, 108, 117, 101, 44, 32, 112, 101, 110, 119, 105, 100, 116,
    104, 61, 51, 44, 32, 108, 97, 98, 101, 108, 61, 34, 48, 34, 93, 59, 10, 32, 32, 34, 49, 34, 32,
    91, 115, 104, 97, 112, 101, 61, 99, 105, 114, 99, 108, 101, 44, 32, 99, 111, 108, 111, 114, 61,
    114, 101, 100, 44, 32, 112, 101, 110, 119, 105, 100, 116, 104, 61, 51, 44, 32, 108, 97, 98,
    101, 108, 61, 34, 49, 32, 84, 52, 48, 34, 93, 59, 10, 32, 32, 34, 50, 34, 32, 91, 115, 104, 97,
    112, 101, 61, 99, 105, 114, 99, 108, 101, 44, 32, 99, 111, 108, 111, 114, 61, 114, 101, 100,
    44, 32, 112, 101, 110, 119, 105, 100, 116, 104, 61, 51, 44, 32, 108, 97, 98, 101, 108, 61, 34,
    50, 32, 84, 52, 52, 34, 93, 59, 10, 32, 32, 34, 51, 34, 32, 91, 115, 104, 97, 112, 101, 61, 99,
    105, 114, 99, 108, 101, 44, 32, 99, 111, 108, 111, 114, 61, 114, 101, 100, 44, 32, 112, 101,
    110, 119, 105, 100, 116, 104, 61, 51, 44, 32, 108, 97, 98, 101, 108, 61, 34, 51, 32, 84, 49,
    49, 55, 34, 93, 59, 10, 32, 32, 34, 52, 34, 32, 91, 115, 104, 97, 112, 101, 61, 99, 105, 114,
    99, 108, 101, 44, 32, 99, 111, 108, 111, 114, 61, 114, 101, 100, 44, 32, 112, 101, 110, 119,
    105, 100, 116, 104, 61, 51, 44, 32, 108, 97, 98, 101, 108, 61, 34, 52, 32, 84, 49, 49, 56, 34,
    93, 59, 10, 32, 32, 34, 48, 34, 32, 45, 62, 32, 34, 52, 34, 32, 91, 108, 97, 98, 101, 108, 61,
    34, 46, 32, 40, 67, 35, 52, 41, 34, 93, 59, 10, 32, 32, 34, 48, 34, 32, 45, 62, 32, 34, 49, 34,
    32, 91, 108, 97, 98, 101, 108, 61, 34, 92, 92, 123, 32, 40, 67, 35, 52, 50, 41, 34, 93, 59, 10,
    32, 32, 34, 48, 34, 32, 45, 62, 32, 34, 50, 34, 32, 91, 108, 97, 98, 101, 108, 61, 34, 92, 92,
    125, 32, 40, 67, 35, 52, 53, 41, 34, 93, 59, 10, 32, 32, 34, 48, 34, 32, 45, 62, 32, 34, 51,
    34, 32, 91, 108, 97, 98, 101, 108, 61, 34, 91, 94, 123, 125, 93, 32, 40, 67, 35, 55, 56, 41,
    34, 93, 59, 10, 32, 32, 34, 51, 34, 32, 45, 62, 32, 34, 51, 34, 32, 91, 108, 97, 98, 101, 108,
    61, 34, 91, 94, 123, 125, 93, 32, 40, 67, 35, 55, 56, 41, 34, 93, 59, 10, 125, 10]

def example1Doc : DotDoc :=
  { main := { nodes := [⟨0, 1, 0⟩, ⟨1, 2, 40⟩, ⟨2, 2, 44⟩, ⟨3, 2, 117⟩, ⟨4, 2, 118⟩],
              edges := [⟨0, 4, 4⟩, ⟨0, 1, 42⟩, ⟨0, 2, 45⟩, ⟨0, 3, 78⟩, ⟨3, 3, 78⟩] },
    clusters := [] }

set_option maxRecDepth 20000 in
theorem example1_decodes : (parseDot example1Text).bind decodeDot = some example1Doc := by decide

/-- `Veryl_Embed_: \\{\\}[^{}]*....` as written in the file (backslashes doubled) -/
def example1Title : List Nat := [86, 101, 114, 121, 108, 95, 69, 109, 98, 101, 100, 95, 58, 32, 92, 92, 123, 92, 92, 125, 91, 94, 123, 125, 93, 42, 46, 46, 46, 46]

/-- the printed classes of the file: 4 `.`, 42 `\\{`, 45 `\\}`, 78 `[^{}]` -/
def example1EdgeText (cc : Nat) : List Nat :=
  if cc = 4 then [46] else if cc = 42 then [92, 92, 123] else if cc = 45 then [92, 92, 125]
  else if cc = 78 then [91, 94, 123, 125, 93] else []

set_option maxRecDepth 20000 in
/-- `renderDot` reproduces the file character by character -/
theorem example1_renders : renderDot example1Title example1EdgeText example1Doc = example1Text := by decide

/-! ## The fuel of the parser is never the reason for a verdict -/

theorem pAttrs_len (ts : List DTok) : ∀ as r, pAttrs ts = some (as, r) → r.length < ts.length := by
  fun_induction pAttrs ts <;> intro as r h <;> simp_all <;> (try omega)

theorem pOptAttrs_len (ts : List DTok) (as r) (h : pOptAttrs ts = some (as, r)) : r.length ≤ ts.length := by
  unfold pOptAttrs at h
  split at h
  · have := pAttrs_len _ _ _ h; simp; omega
  · simp at h; rw [← h.2]; omega

theorem pAttrsSemi_len (ts : List DTok) (as r) (h : pAttrsSemi ts = some (as, r)) : r.length < ts.length := by
  unfold pAttrsSemi at h
  split at h
  · rename_i as' r' heq
    have := pOptAttrs_len _ _ _ heq
    simp at h this; rw [← h.2]; omega
  · simp at h

theorem pAttrStmt_len (k : List Nat) (ts : List DTok) (st r) (h : pAttrStmt k ts = some (st, r)) :
    r.length < ts.length := by
  unfold pAttrStmt at h
  split at h
  · split at h
    · simp at h; rw [← h.2]; simp; omega
    · simp at h
  · simp at h

theorem pDfltStmt_len (k : List Nat) (ts : List DTok) (st r) (h : pDfltStmt k ts = some (st, r)) :
    r.length < ts.length := by
  unfold pDfltStmt at h
  split at h
  · split at h
    · rename_i heq
      have := pAttrs_len _ _ _ heq
      simp at h this; rw [← h.2]; simp; omega
    · simp at h
  · simp at h

theorem pIdStmt_len (k : List Nat) (ts : List DTok) (st r) (h : pIdStmt k ts = some (st, r)) :
    r.length < ts.length := by
  unfold pIdStmt at h
  split at h
  · rename_i x heq
    simp at h; subst h
    exact pAttrStmt_len _ _ _ _ heq
  · split at h
    · exact pDfltStmt_len _ _ _ _ h
    · simp at h

theorem pStrStmt_len (name : List Nat) (ts : List DTok) (st r) (h : pStrStmt name ts = some (st, r)) :
    r.length < ts.length := by
  unfold pStrStmt at h
  split at h
  · split at h
    · rename_i heq
      have := pAttrsSemi_len _ _ _ heq
      simp at h; rw [← h.2]; simp; omega
    · simp at h
  · simp at h
  · split at h
    · rename_i heq
      have := pAttrsSemi_len _ _ _ heq
      simp at h; rw [← h.2]; omega
    · simp at h

theorem pClusterHead_len (ts : List DTok) (n r) (h : pClusterHead ts = some (n, r)) : r.length < ts.length := by
  unfold pClusterHead at h
  split at h
  · split at h
    · simp at h; rw [← h.2]; simp; omega
    · simp at h
  · simp at h

theorem pStmts_len : ∀ (f : Nat) (ts : List DTok) ss r, pStmts f ts = some (ss, r) → r.length < ts.length := by
  intro f
  induction f with
  | zero => intro ts ss r h; simp [pStmts] at h
  | succ f ih =>
    intro ts ss r h
    cases ts with
    | nil => simp [pStmts] at h
    | cons t rest =>
      cases t with
      | rbrace => simp [pStmts] at h; rw [← h.2]; simp
      | id s =>
        simp only [pStmts] at h
        split at h
        · split at h
          · simp at h
          · rename_i name r1 h1
            have l1 := pClusterHead_len _ _ _ h1
            split at h
            · simp at h
            · rename_i body r2 h2
              have l2 := ih _ _ _ h2
              split at h
              · simp at h
              · rename_i ss' r3 h3
                have l3 := ih _ _ _ h3
                simp at h; rw [← h.2]; simp; omega
        · split at h
          · simp at h
          · rename_i st r1 h1
            have l1 := pIdStmt_len _ _ _ _ h1
            split at h
            · simp at h
            · rename_i ss' r2 h2
              have l2 := ih _ _ _ h2
              simp at h; rw [← h.2]; simp; omega
      | str name =>
        simp only [pStmts] at h
        split at h
        · simp at h
        · rename_i st r1 h1
          have l1 := pStrStmt_len _ _ _ _ h1
          split at h
          · simp at h
          · rename_i ss' r2 h2
            have l2 := ih _ _ _ h2
            simp at h; rw [← h.2]; simp; omega
      | _ => simp [pStmts] at h

/-- Fuel beyond the number of tokens changes nothing: the fuel of `parseToks` never makes the
    parser reject (or accept) anything. -/
theorem pStmts_fuel : ∀ (f : Nat) (ts : List DTok), ts.length < f → ∀ f', f ≤ f' → pStmts f' ts = pStmts f ts := by
  intro f
  induction f with
  | zero => intro ts h; omega
  | succ f ih =>
    intro ts hlen f' hf'
    obtain ⟨g, rfl⟩ : ∃ g, f' = g + 1 := ⟨f' - 1, by omega⟩
    have hg : f ≤ g := by omega
    cases ts with
    | nil => rfl
    | cons t rest =>
      simp only [List.length_cons] at hlen
      cases t with
      | id s =>
        simp only [pStmts]
        split
        · cases h1 : pClusterHead rest with
          | none => rfl
          | some p =>
            obtain ⟨name, r1⟩ := p
            have l1 := pClusterHead_len _ _ _ h1
            simp only
            rw [ih r1 (by omega) g hg]
            cases h2 : pStmts f r1 with
            | none => rfl
            | some q =>
              obtain ⟨body, r2⟩ := q
              have l2 := pStmts_len _ _ _ _ h2
              simp only
              rw [ih r2 (by omega) g hg]
        · cases h1 : pIdStmt s rest with
          | none => rfl
          | some p =>
            obtain ⟨st, r1⟩ := p
            have l1 := pIdStmt_len _ _ _ _ h1
            simp only
            rw [ih r1 (by omega) g hg]
      | str name =>
        simp only [pStmts]
        cases h1 : pStrStmt name rest with
        | none => rfl
        | some p =>
          obtain ⟨st, r1⟩ := p
          have l1 := pStrStmt_len _ _ _ _ h1
          simp only
          rw [ih r1 (by omega) g hg]
      | _ => rfl


/-- `parseToks` runs `pStmts` with `r.length + 2` units of fuel; any larger amount gives the same
    result, so the parser behaves like the unbounded recursion of `P::body`. -/
theorem parseToks_fuel (r : List DTok) (extra : Nat) :
    pStmts (r.length + 2 + extra) r = pStmts (r.length + 2) r :=
  pStmts_fuel (r.length + 2) r (by omega) _ (by omega)

/-! ## The documents of C18 -/

theorem nodeOK_nodeOf (A : Dfa) (id : Nat) : NodeOK (nodeOf A id) := by
  unfold nodeOf
  split
  · simp [NodeOK]
  · split <;> simp [NodeOK, *]

theorem graphOK_dotGraph (A : Dfa) : GraphOK (dotGraph A) := by
  intro n hn
  simp only [dotGraph, List.mem_map] at hn
  obtain ⟨i, _, rfl⟩ := hn
  exact nodeOK_nodeOf A i

theorem docOK_dotDoc (M : ModeDfa) : DocOK (dotDoc M) := by
  refine ⟨graphOK_dotGraph _, ?_⟩
  intro c hc
  simp only [dotDoc, List.mem_map] at hc
  obtain ⟨p, _, rfl⟩ := hc
  exact graphOK_dotGraph _

/-- The file written for a compiled mode (the structured document of `Model/Dot.lean`, whose
    decoding `C18.picture_is_faithful` relates to the automata) reads back as that document — for
    every mode, without any assumption on the automata. -/
theorem decodeDot_parseDot_renderDot_dotDoc (title : List Nat) (edgeText : Nat → List Nat) (M : ModeDfa)
    (ht : strSafe title = true) (he : ∀ cc, strSafe (edgeText cc) = true) :
    (parseDot (renderDot title edgeText (dotDoc M))).bind decodeDot = some (dotDoc M) :=
  decodeDot_parseDot_renderDot_of_docOK title edgeText (dotDoc M) (docOK_dotDoc M) ht he

/-! ## The keywords are the strings they stand for -/

def cps (s : String) : List Nat := s.toList.map Char.toNat

theorem keywords_spelled :
    kwDigraph = cps "digraph" ∧ kwSubgraph = cps "subgraph" ∧ kwClusterPre = cps "cluster_" ∧
    kwLabel = cps "label" ∧ kwColor = cps "color" ∧ kwBlue = cps "blue" ∧ kwRed = cps "red" ∧
    kwShape = cps "shape" ∧ kwCircle = cps "circle" ∧ kwPenwidth = cps "penwidth" ∧ kwThree = cps "3" ∧
    kwRankdir = cps "rankdir" ∧ kwLR = cps "LR" ∧ kwClassOpen = cps " (C#" ∧ kwLaFor = cps "LA for T" ∧
    kwPos = cps "Pos)" ∧ kwNeg = cps "Neg)" ∧
    kwNode = cps "node" ∧ kwEdge = cps "edge" ∧ kwGraph = cps "graph" ∧
    txtShapeColor = cps "shape=circle, color=" ∧ txtPenLabel = cps ", penwidth=3, label=" ∧
    txtLabelEq = cps "label=" ∧ ind2 = cps "  " ∧ ind4 = cps "    " ∧
    exTitle = cps "M: a|b..." := by
  decide

end Scnr
