import ScnrVerif.Model.DotText
/-!
# Round trip of the DOT text layer (C18)

`Model/DotText.lean` brings the text of a DOT file into the model: `lexDot`/`parseDot` (lexer and
parser for the DOT language as far as it can occur in pictures of automata), `decodeDot` (the
extraction of nodes, edges and clusters, as the harness' `dotparse.rs::decode` does, but lenient
about cosmetics) and `renderDot` (the text `compiled_dfa_render` writes through `dot-writer`).
This file proves

* `decodeDot_parseDot_renderDot`: for every well-formed document (`DotDoc.textOK`) and string-safe
  title / class texts (`strSafe`), `(parseDot (renderDot title edgeText d)).bind decodeDot = some d`;
  `decodeDot_parseDot_renderDot_of_docOK` is the same under the weaker condition the proof really
  needs (`DocOK`: every node is accepting, or the start node with number 0, or a plain node with
  another number; token types only on accepting nodes), and
  `decodeDot_parseDot_renderDot_dotDoc` instantiates it to the documents `dotDoc M` of
  `Model/Dot.lean` / `Props/C18.lean`, for every mode `M`;
* `parseDot_wellformed_only`: malformed texts are rejected; `parseDot_accepts`,
  `decodeDot_chain_and_blocks`: the grammar beyond the layout of the crate's writer (comments,
  `strict`, graph IDs, case-insensitive keywords, optional `;`, attribute lists, numerals, blocks
  and subgraphs, edge chains, default attributes);
* non-vacuity: a literal document with five nodes and a cluster (`exText_decodes`,
  `exDoc_renders`, `exDoc_roundtrip`) and the real file `example1.dot` (`example1_decodes`,
  `example1_renders`: `renderDot` reproduces it character by character);
* leniency: restyled and rewritten variants of the literal document decode to the same document
  (`exRestyled_decodes`, `exDefaults_decodes`, `exRewritten_decodes`); what is not cosmetic is
  still checked (`decodeDot_still_strict`);
* `pStmts_fuel` / `parseToks_fuel`: the fuel of the parser (number of tokens) is never exhausted:
  any larger amount gives the same result.

The proof is layered: characters → tokens (`lexDot_renderDot`, built from "remaining input" lemmas
`lexRun_scan` / `Lexes.append`), tokens → statements (`parseToks_docToks`, built from `ParsesTo`),
statements → document (`decodeDot_docStmts`).

## What is accepted (see the grammar in `Model/DotText.lean`)

Lexer: whitespace (blank, tab, LF, VT, FF, CR); comments `/* .. */`, `// ..`, lines whose first
character is `#`; identifiers `[A-Za-z_\x80-][A-Za-z_0-9\x80-]*` (every code point from 0x80 on is
a letter); numerals `-?(\.[0-9]+|[0-9]+(\.[0-9]*)?)`; quoted strings (a backslash takes the next
character with it; the raw content is kept); `{ } [ ] = , ;` and `->`.
Parser: `[strict] digraph [ID] { stmt_list }`, exactly one per file; statements `ID = ID`,
`(graph|node|edge) attr_list`, `ID (-> ID)* [attr_list]`, `[subgraph [ID]] { stmt_list }`, each
optionally followed by one `;`; attribute lists `[ID = ID ...]` with `,`, `;` or nothing between
entries, possibly empty, possibly several in a row; keywords in any case; keywords are not IDs.

## What is rejected although Graphviz accepts it (deliberately outside of the subset)

undirected graphs (`graph`, `--`), ports (`a:p`), HTML strings (`<...>`), subgraphs as edge
endpoints (`{a b} -> c`), `+` concatenation of strings, a numeral directly followed by a letter or
a second dot (`3abc`, `1.2.3`: Graphviz splits them with a warning), a `.` inside a bare
identifier, `\`-newline line continuation inside strings (the two characters stay in the raw
content), `#` lines that start with blanks.

## What is undecodable (well-formed, but not a picture of an automaton)

a node whose name is not `<prefix><number>` or that has no `label`, a label that is neither
`<id> T<tid>` nor `<id>`, an edge without `label` or without trailing `(C#<n>)`, a cluster (a
subgraph whose name starts with `cluster`) whose label (`label = ..` or `graph [label = ..]`) is
not `LA for T<tid>(Pos|Neg)`. Blocks and non-cluster subgraphs only group: their nodes and edges
belong to the enclosing graph (their attribute statements are scoped and ignored); clusters
inside clusters are ignored.

## Differences from `dotparse.rs`

1. The grammar is the DOT grammar above, a superset of what `dotparse.rs` accepts, except: `.`
   inside bare identifiers (`a.b`), Unicode whitespace outside of strings (now letters), keywords
   used as names (`node = x`, `digraph node {`), which are rejected now.
2. `parse::<usize>` has no overflow check here (`parseNat` is unbounded; the optional leading `+`
   and leading zeros are accepted as in Rust).
3. `decode` sorts nodes and edges, the harness sorts clusters by token type (it compares pictures as
   sets); `decodeDot` keeps the order of the file, which is finer (the round trip holds with order).
4. The Rust `Graph` keeps only the last `label` of each (sub)graph, drops the other graph
   attributes and the cluster names, and sorts statements by kind; `DGraphT` keeps all statements in
   order, `decodeDot` extracts the same information (`lastLabel`, node/edge/cluster statements).
5. `decodeDot` reads the kind of a node from its label and number only (`"<id> T<tid>"` accepting,
   else the label must be `"<id>"` and node 0 is the start node) and ignores `shape`, `color`,
   `penwidth` and unknown attributes; `decode` reads the kind from `color` (blue/red/none, any
   other colour an error).
6. The lexer is one state machine (`lexStep`/`lexRun`); the recursion of the parser is bounded by
   fuel, which `pStmts_fuel` shows to be immaterial.
-/
namespace Scnr

/-! ## Decimal numbers -/

/-- the textbook recursion, used only to reason about `natDigits` -/
def natDigitsSpec (n : Nat) : List Nat :=
  if n < 10 then [48 + n] else natDigitsSpec (n / 10) ++ [48 + n % 10]
decreasing_by omega

theorem natDigitsGo_eq : ∀ f n acc, n < f → natDigitsGo f n acc = natDigitsSpec n ++ acc := by
  intro f
  induction f with
  | zero => intro n acc h; omega
  | succ f ih =>
    intro n acc h
    unfold natDigitsGo
    rw [natDigitsSpec]
    by_cases h10 : n < 10
    · simp [h10]
    · simp only [h10, if_false]
      rw [ih (n / 10) _ (by omega)]
      simp [List.append_assoc]

theorem natDigits_eq (n : Nat) : natDigits n = natDigitsSpec n := by
  unfold natDigits
  rw [natDigitsGo_eq (n + 1) n [] (by omega)]
  simp

theorem natDigits_unfold (n : Nat) :
    natDigits n = if n < 10 then [48 + n] else natDigits (n / 10) ++ [48 + n % 10] := by
  rw [natDigits_eq, natDigits_eq, natDigitsSpec]

theorem natDigits_digit (n : Nat) : ∀ c ∈ natDigits n, isDigit c = true := by
  induction n using Nat.strongRecOn with
  | _ n ih =>
    rw [natDigits_unfold]
    by_cases h10 : n < 10
    · simp only [h10, if_true, List.mem_singleton]
      intro c hc
      subst hc
      simp [isDigit]; omega
    · simp only [h10, if_false, List.mem_append, List.mem_singleton]
      intro c hc
      cases hc with
      | inl h => exact ih (n / 10) (by omega) c h
      | inr h => subst h; simp [isDigit]; omega

theorem natDigits_ne_nil (n : Nat) : natDigits n ≠ [] := by
  rw [natDigits_unfold]
  by_cases h10 : n < 10 <;> simp [h10]

theorem digitsVal_append (a b : List Nat) (acc : Nat) :
    digitsVal (a ++ b) acc = digitsVal b (digitsVal a acc) := by
  induction a generalizing acc with
  | nil => rfl
  | cons c r ih => simp only [List.cons_append, digitsVal]; exact ih _

theorem digitsVal_natDigits (n : Nat) : digitsVal (natDigits n) 0 = n := by
  induction n using Nat.strongRecOn with
  | _ n ih =>
    rw [natDigits_unfold]
    by_cases h10 : n < 10
    · simp only [h10, if_true, digitsVal]; omega
    · simp only [h10, if_false, digitsVal_append, ih (n / 10) (by omega), digitsVal]; omega

theorem parseNat_natDigits (n : Nat) : parseNat (natDigits n) = some n := by
  have hne := natDigits_ne_nil n
  have hd := natDigits_digit n
  have hv := digitsVal_natDigits n
  cases hs : natDigits n with
  | nil => exact absurd hs hne
  | cons c r =>
    rw [hs] at hd hv
    have hc : isDigit c = true := hd c (by simp)
    have hc43 : c ≠ 43 := by
      intro h; subst h; simp [isDigit] at hc
    have hall : (c :: r).all isDigit = true := by
      rw [List.all_eq_true]; exact hd
    simp only [parseNat, dropPlus, hc43, if_false, parseDigits, List.isEmpty_cons, hall, if_true, hv]
    simp

/-! ## Character classes of the pieces the writer emits -/

/-- neither a quote nor a backslash -/
def Plain (s : List Nat) : Prop := ∀ c ∈ s, c ≠ 34 ∧ c ≠ 92

theorem Plain.append {a b : List Nat} (ha : Plain a) (hb : Plain b) : Plain (a ++ b) := by
  intro c hc
  rw [List.mem_append] at hc
  cases hc with
  | inl h => exact ha c h
  | inr h => exact hb c h

theorem plain_natDigits (n : Nat) : Plain (natDigits n) := by
  intro c hc
  have := natDigits_digit n c hc
  simp [isDigit] at this
  omega

theorem strSafeGo_append_plain (a b : List Nat) (hb : Plain b) :
    ∀ esc, strSafeGo esc a = true → strSafeGo esc (a ++ b) = true := by
  induction a with
  | nil =>
    intro esc h
    cases esc with
    | true => simp [strSafeGo] at h
    | false =>
      clear h
      simp only [List.nil_append]
      induction b with
      | nil => rfl
      | cons c r ih =>
        have hc := hb c (by simp)
        simp only [strSafeGo, hc.1, hc.2, if_false]
        exact ih (fun x hx => hb x (by simp [hx]))
  | cons c r ih =>
    intro esc h
    cases esc with
    | true => simp only [List.cons_append, strSafeGo] at h ⊢; exact ih _ h
    | false =>
      simp only [List.cons_append, strSafeGo] at h ⊢
      by_cases h92 : c = 92
      · simp only [h92, if_true] at h ⊢; exact ih _ h
      · by_cases h34 : c = 34
        · simp [h34] at h
        · simp only [h92, h34, if_false] at h ⊢; exact ih _ h

theorem strSafe_append_plain {a b : List Nat} (ha : strSafe a = true) (hb : Plain b) :
    strSafe (a ++ b) = true := strSafeGo_append_plain a b hb false ha

theorem strSafe_of_plain {s : List Nat} (h : Plain s) : strSafe s = true := by
  have := strSafe_append_plain (a := []) (b := s) rfl h
  simpa using this

/-! ## Lexer: scanning a piece of text -/

/-- the tokens completed inside a piece of text and the state after it -/
def lexScan : LexSt → List Nat → Option (List DTok × LexSt)
  | st, [] => some ([], st)
  | st, c :: r =>
    match lexStep st c with
    | none => none
    | some (o, st') =>
      match lexScan st' r with
      | none => none
      | some (ts, st'') => some (o ++ ts, st'')

/-- "remaining input" lemma of the lexer -/
theorem lexRun_scan (a r : List Nat) : ∀ (st : LexSt) (out ts : List DTok) (st' : LexSt),
    lexScan st a = some (ts, st') → lexRun st out (a ++ r) = lexRun st' (ts.reverse ++ out) r := by
  induction a with
  | nil =>
    intro st out ts st' h
    simp only [lexScan, Option.some.injEq, Prod.mk.injEq] at h
    rw [← h.1, ← h.2]; rfl
  | cons c a ih =>
    intro st out ts st' h
    simp only [lexScan] at h
    simp only [List.cons_append, lexRun]
    cases hs : lexStep st c with
    | none => simp [hs] at h
    | some p =>
      obtain ⟨o, st1⟩ := p
      simp only [hs] at h ⊢
      cases hr : lexScan st1 a with
      | none => simp [hr] at h
      | some q =>
        obtain ⟨ts1, st2⟩ := q
        simp only [hr, Option.some.injEq, Prod.mk.injEq] at h
        rw [ih st1 _ ts1 st2 hr, ← h.1, ← h.2]
        simp [List.reverse_append, List.append_assoc]

def Lexes (st : LexSt) (a : List Nat) (ts : List DTok) (st' : LexSt) : Prop :=
  lexScan st a = some (ts, st')

theorem Lexes.append {st st1 st2 : LexSt} {a b : List Nat} {ta tb : List DTok}
    (ha : Lexes st a ta st1) (hb : Lexes st1 b tb st2) : Lexes st (a ++ b) (ta ++ tb) st2 := by
  unfold Lexes at *
  induction a generalizing st ta with
  | nil =>
    simp only [lexScan, Option.some.injEq, Prod.mk.injEq] at ha
    obtain ⟨rfl, rfl⟩ := ha
    simpa using hb
  | cons c a ih =>
    simp only [lexScan, List.cons_append] at ha ⊢
    cases hs : lexStep st c with
    | none => simp [hs] at ha
    | some p =>
      obtain ⟨o, st'⟩ := p
      simp only [hs] at ha ⊢
      cases hr : lexScan st' a with
      | none => simp [hr] at ha
      | some q =>
        obtain ⟨ts1, st''⟩ := q
        simp only [hr, Option.some.injEq, Prod.mk.injEq] at ha
        obtain ⟨rfl, rfl⟩ := ha
        rw [ih hr]
        simp [List.append_assoc]

theorem lexDot_of_lexes {a : List Nat} {ts : List DTok} (h : Lexes .bol a ts .bol) :
    lexDot a = some ts := by
  have := lexRun_scan a [] .bol [] ts .bol h
  simp only [List.append_nil] at this
  rw [lexDot, this]
  simp [lexRun, lexFinish]

/-- a quoted string is one token carrying its raw content -/
theorem lexScan_str (s : List Nat) : ∀ acc : List Nat,
    (strSafeGo false s = true →
      lexScan (.inStr acc) (s ++ [34]) = some ([.str (acc.reverse ++ s)], .top)) ∧
    (strSafeGo true s = true →
      lexScan (.inEsc acc) (s ++ [34]) = some ([.str (acc.reverse ++ s)], .top)) := by
  induction s with
  | nil =>
    intro acc
    constructor
    · intro _; simp [lexScan, lexStep]
    · intro h; simp [strSafeGo] at h
  | cons c s ih =>
    intro acc
    constructor
    · intro h
      simp only [strSafeGo] at h
      simp only [List.cons_append, lexScan, lexStep]
      by_cases h92 : c = 92
      · simp only [h92, if_true] at h ⊢
        rw [(ih (92 :: acc)).2 h]; simp
      · by_cases h34 : c = 34
        · simp [h34] at h
        · simp only [h92, h34, if_false] at h ⊢
          rw [(ih (c :: acc)).1 h]; simp
    · intro h
      simp only [strSafeGo] at h
      simp only [List.cons_append, lexScan, lexStep]
      rw [(ih (c :: acc)).1 h]; simp

theorem lexes_quoted {s : List Nat} (h : strSafe s = true) : Lexes .top (quoted s) [.str s] .top := by
  unfold Lexes quoted
  have := (lexScan_str s []).1 h
  have h0 : lexStep .top 34 = some ([], .inStr []) := by decide
  simp only [lexScan, h0, this, List.nil_append]
  rfl

/-- identifier characters extend the identifier being read -/
theorem lexScan_idChars (ds : List Nat) (h : ∀ c ∈ ds, isIdChar c = true) : ∀ acc : List Nat,
    lexScan (.inId acc) ds = some ([], .inId (ds.reverse ++ acc)) := by
  induction ds with
  | nil => intro acc; rfl
  | cons c r ih =>
    intro acc
    have hc := h c (by simp)
    simp only [lexScan, lexStep, hc, if_true]
    rw [ih (fun x hx => h x (by simp [hx]))]
    simp

theorem idChar_of_digit {c : Nat} (h : isDigit c = true) : isIdChar c = true := by
  simp [isIdChar, h]

/-! ## The tokens of a rendered document -/

def nodeAttrToks (n : DNode) : List DTok :=
  if n.kind = 1 then
    [.id kwShape, .eq, .id kwCircle, .comma, .id kwColor, .eq, .id kwBlue, .comma,
      .id kwPenwidth, .eq, .id kwThree, .comma, .id kwLabel, .eq, .str (natDigits n.id)]
  else if n.kind = 2 then
    [.id kwShape, .eq, .id kwCircle, .comma, .id kwColor, .eq, .id kwRed, .comma,
      .id kwPenwidth, .eq, .id kwThree, .comma, .id kwLabel, .eq,
      .str (natDigits n.id ++ [32, 84] ++ natDigits n.tid)]
  else [.id kwLabel, .eq, .str (natDigits n.id)]

def nodeToks (pre : List Nat) (n : DNode) : List DTok :=
  .str (pre ++ natDigits n.id) :: .lbrack :: (nodeAttrToks n ++ [.rbrack, .semi])

def edgeLabel (edgeText : Nat → List Nat) (e : DEdge) : List Nat :=
  edgeText e.cc ++ kwClassOpen ++ natDigits e.cc ++ [41]

def edgeToks (pre : List Nat) (edgeText : Nat → List Nat) (e : DEdge) : List DTok :=
  [.str (pre ++ natDigits e.src), .arrow, .str (pre ++ natDigits e.dst), .lbrack, .id kwLabel, .eq,
    .str (edgeLabel edgeText e), .rbrack, .semi]

def nodesToks (pre : List Nat) : List DNode → List DTok
  | [] => []
  | n :: r => nodeToks pre n ++ nodesToks pre r

def edgesToks (pre : List Nat) (edgeText : Nat → List Nat) : List DEdge → List DTok
  | [] => []
  | e :: r => edgeToks pre edgeText e ++ edgesToks pre edgeText r

def graphToks (pre : List Nat) (edgeText : Nat → List Nat) (g : DGraph) : List DTok :=
  nodesToks pre g.nodes ++ edgesToks pre edgeText g.edges

def clusterPre (c : DCluster) : List Nat := natDigits c.tid ++ [95]

def clusterToks (edgeText : Nat → List Nat) (k : Nat) (c : DCluster) : List DTok :=
  .id kwSubgraph :: .id (kwClusterPre ++ natDigits k) :: .lbrace ::
    .id kwLabel :: .eq :: .str (clusterLabelText c) :: .semi ::
    (graphToks (clusterPre c) edgeText c.g ++ [.rbrace])

def clustersToks (edgeText : Nat → List Nat) : Nat → List DCluster → List DTok
  | _, [] => []
  | k, c :: r => clusterToks edgeText k c ++ clustersToks edgeText (k + 1) r

/-- the tokens between the outer braces, and the closing brace -/
def docBodyToks (title : List Nat) (edgeText : Nat → List Nat) (d : DotDoc) : List DTok :=
  .id kwLabel :: .eq :: .str title :: .semi :: .id kwRankdir :: .eq :: .id kwLR :: .semi ::
    (graphToks [] edgeText d.main ++ (clustersToks edgeText 0 d.clusters ++ [.rbrace]))

def docToks (title : List Nat) (edgeText : Nat → List Nat) (d : DotDoc) : List DTok :=
  .id kwDigraph :: .lbrace :: docBodyToks title edgeText d

/-! ## Lexing the rendered text -/

theorem Lexes.of_eq {st st' : LexSt} {a : List Nat} {ts : List DTok}
    (h : lexScan st a = some (ts, st')) : Lexes st a ts st' := h

theorem plain_name (pre : List Nat) (hpre : Plain pre) (n : Nat) : strSafe (pre ++ natDigits n) = true :=
  strSafe_of_plain (hpre.append (plain_natDigits n))

theorem lexes_nodeAttrs (n : DNode) : Lexes .top (renderNodeAttrs n) (nodeAttrToks n) .top := by
  unfold renderNodeAttrs nodeAttrToks
  by_cases h1 : n.kind = 1
  · simp only [h1, if_true]
    exact (Lexes.of_eq (st := .top) (st' := .top) (a := txtShapeColor ++ kwBlue ++ txtPenLabel)
      (ts := [.id kwShape, .eq, .id kwCircle, .comma, .id kwColor, .eq, .id kwBlue, .comma,
        .id kwPenwidth, .eq, .id kwThree, .comma, .id kwLabel, .eq]) (by decide)).append
      (lexes_quoted (strSafe_of_plain (plain_natDigits n.id)))
  · by_cases h2 : n.kind = 2
    · simp only [h2, if_true]
      have hl : Plain (natDigits n.id ++ [32, 84] ++ natDigits n.tid) :=
        ((plain_natDigits _).append (by intro c hc; simp at hc; omega)).append (plain_natDigits _)
      exact (Lexes.of_eq (st := .top) (st' := .top) (a := txtShapeColor ++ kwRed ++ txtPenLabel)
        (ts := [.id kwShape, .eq, .id kwCircle, .comma, .id kwColor, .eq, .id kwRed, .comma,
          .id kwPenwidth, .eq, .id kwThree, .comma, .id kwLabel, .eq]) (by decide)).append
        (lexes_quoted (strSafe_of_plain hl))
    · simp only [h1, h2, if_false]
      exact (Lexes.of_eq (st := .top) (st' := .top) (a := txtLabelEq) (ts := [.id kwLabel, .eq]) (by decide)).append
        (lexes_quoted (strSafe_of_plain (plain_natDigits n.id)))

theorem lexes_node {ind pre : List Nat} (hind : Lexes .bol ind [] .top) (hpre : Plain pre) (n : DNode) :
    Lexes .bol (renderNode ind pre n) (nodeToks pre n) .bol := by
  unfold renderNode
  have h := (((hind.append (lexes_quoted (plain_name pre hpre n.id))).append
    (Lexes.of_eq (st := .top) (st' := .top) (a := [32, 91]) (ts := [.lbrack]) (by decide))).append
    (lexes_nodeAttrs n)).append
    (Lexes.of_eq (st := .top) (st' := .bol) (a := [93, 59, 10]) (ts := [.rbrack, .semi]) (by decide))
  simpa [nodeToks] using h

theorem strSafe_edgeLabel (edgeText : Nat → List Nat) (he : ∀ cc, strSafe (edgeText cc) = true) (e : DEdge) :
    strSafe (edgeLabel edgeText e) = true := by
  unfold edgeLabel
  have hp : Plain (kwClassOpen ++ natDigits e.cc ++ [41]) :=
    (Plain.append (by intro c hc; simp [kwClassOpen] at hc; omega) (plain_natDigits _)).append
      (by intro c hc; simp at hc; omega)
  have := strSafe_append_plain (he e.cc) hp
  simpa [List.append_assoc] using this

theorem lexes_edge {ind pre : List Nat} (hind : Lexes .bol ind [] .top) (hpre : Plain pre)
    (edgeText : Nat → List Nat) (he : ∀ cc, strSafe (edgeText cc) = true) (e : DEdge) :
    Lexes .bol (renderEdge ind pre edgeText e) (edgeToks pre edgeText e) .bol := by
  unfold renderEdge
  have h := ((((((hind.append (lexes_quoted (plain_name pre hpre e.src))).append
    (Lexes.of_eq (st := .top) (st' := .top) (a := [32, 45, 62, 32]) (ts := [.arrow]) (by decide))).append
    (lexes_quoted (plain_name pre hpre e.dst))).append
    (Lexes.of_eq (st := .top) (st' := .top) (a := [32, 91]) (ts := [.lbrack]) (by decide))).append
    (Lexes.of_eq (st := .top) (st' := .top) (a := txtLabelEq) (ts := [.id kwLabel, .eq]) (by decide))).append
    (lexes_quoted (strSafe_edgeLabel edgeText he e))).append
    (Lexes.of_eq (st := .top) (st' := .bol) (a := [93, 59, 10]) (ts := [.rbrack, .semi]) (by decide))
  simpa [edgeToks, edgeLabel] using h

theorem lexes_nodes {ind pre : List Nat} (hind : Lexes .bol ind [] .top) (hpre : Plain pre) (ns : List DNode) :
    Lexes .bol (renderNodes ind pre ns) (nodesToks pre ns) .bol := by
  induction ns with
  | nil => exact Lexes.of_eq rfl
  | cons n r ih => exact (lexes_node hind hpre n).append ih

theorem lexes_edges {ind pre : List Nat} (hind : Lexes .bol ind [] .top) (hpre : Plain pre)
    (edgeText : Nat → List Nat) (he : ∀ cc, strSafe (edgeText cc) = true) (es : List DEdge) :
    Lexes .bol (renderEdges ind pre edgeText es) (edgesToks pre edgeText es) .bol := by
  induction es with
  | nil => exact Lexes.of_eq rfl
  | cons e r ih => exact (lexes_edge hind hpre edgeText he e).append ih

theorem lexes_graph {ind pre : List Nat} (hind : Lexes .bol ind [] .top) (hpre : Plain pre)
    (edgeText : Nat → List Nat) (he : ∀ cc, strSafe (edgeText cc) = true) (g : DGraph) :
    Lexes .bol (renderGraph ind pre edgeText g) (graphToks pre edgeText g) .bol :=
  (lexes_nodes hind hpre g.nodes).append (lexes_edges hind hpre edgeText he g.edges)

theorem plain_clusterPre (c : DCluster) : Plain (clusterPre c) :=
  (plain_natDigits _).append (by intro x hx; simp at hx; omega)

theorem plain_clusterLabelText (c : DCluster) : Plain (clusterLabelText c) := by
  unfold clusterLabelText
  refine ((Plain.append ?_ (plain_natDigits _)).append ?_).append ?_
  · intro x hx; simp [kwLaFor] at hx; omega
  · intro x hx; simp at hx; omega
  · cases c.positive
    · intro x hx; simp [kwNeg] at hx; omega
    · intro x hx; simp [kwPos] at hx; omega

theorem lexes_cluster (edgeText : Nat → List Nat) (he : ∀ cc, strSafe (edgeText cc) = true)
    (k : Nat) (c : DCluster) :
    Lexes .bol (renderCluster edgeText k c) (clusterToks edgeText k c) .bol := by
  unfold renderCluster
  have hk : Lexes (.inId kwClusterPre.reverse) (natDigits k) []
      (.inId ((natDigits k).reverse ++ kwClusterPre.reverse)) :=
    lexScan_idChars _ (fun x hx => idChar_of_digit (natDigits_digit k x hx)) _
  have hopen : Lexes (.inId ((natDigits k).reverse ++ kwClusterPre.reverse)) [32, 123, 10]
      [.id (kwClusterPre ++ natDigits k), .lbrace] .bol := by
    unfold Lexes
    have e1 : ∀ acc, lexStep (.inId acc) 32 = some ([.id acc.reverse], .top) := fun _ => rfl
    have e2 : lexStep .top 123 = some ([.lbrace], .top) := by decide
    have e3 : lexStep .top 10 = some ([], .bol) := by decide
    simp [lexScan, e1, e2, e3]
  have hind4 : Lexes .bol ind4 [] .top := Lexes.of_eq (by decide)
  have h := ((((((Lexes.of_eq (st := .bol) (st' := .inId kwClusterPre.reverse)
      (a := ind2 ++ kwSubgraph ++ [32] ++ kwClusterPre) (ts := [.id kwSubgraph]) (by decide)).append hk).append
    hopen).append
    (Lexes.of_eq (st := .bol) (st' := .top) (a := ind4 ++ txtLabelEq) (ts := [.id kwLabel, .eq]) (by decide))).append
    (lexes_quoted (strSafe_of_plain (plain_clusterLabelText c)))).append
    (Lexes.of_eq (st := .top) (st' := .bol) (a := [59, 10]) (ts := [.semi]) (by decide))).append
    ((lexes_graph hind4 (plain_clusterPre c) edgeText he c.g).append
      (Lexes.of_eq (st := .bol) (st' := .bol) (a := ind2 ++ [125, 10]) (ts := [.rbrace]) (by decide)))
  simpa [clusterToks, clusterPre, List.append_assoc] using h

theorem lexes_clusters (edgeText : Nat → List Nat) (he : ∀ cc, strSafe (edgeText cc) = true)
    (cs : List DCluster) : ∀ k,
    Lexes .bol (renderClusters edgeText k cs) (clustersToks edgeText k cs) .bol := by
  induction cs with
  | nil => intro k; exact Lexes.of_eq rfl
  | cons c r ih => intro k; exact (lexes_cluster edgeText he k c).append (ih (k + 1))

/-- the lexer reads the written file as the expected tokens -/
theorem lexDot_renderDot (title : List Nat) (edgeText : Nat → List Nat) (d : DotDoc)
    (ht : strSafe title = true) (he : ∀ cc, strSafe (edgeText cc) = true) :
    lexDot (renderDot title edgeText d) = some (docToks title edgeText d) := by
  apply lexDot_of_lexes
  unfold renderDot
  have hind2 : Lexes .bol ind2 [] .top := Lexes.of_eq (by decide)
  have h := (((((Lexes.of_eq (st := .bol) (st' := .top) (a := kwDigraph ++ [32, 123, 10] ++ ind2 ++ txtLabelEq)
      (ts := [.id kwDigraph, .lbrace, .id kwLabel, .eq]) (by decide)).append
    (lexes_quoted ht)).append
    (Lexes.of_eq (st := .top) (st' := .bol) (a := [59, 10] ++ ind2 ++ kwRankdir ++ [61] ++ kwLR ++ [59, 10])
      (ts := [.semi, .id kwRankdir, .eq, .id kwLR, .semi]) (by decide))).append
    (lexes_graph hind2 (pre := []) (fun x hx => nomatch hx) edgeText he d.main)).append
    (lexes_clusters edgeText he d.clusters 0)).append
    (Lexes.of_eq (st := .bol) (st' := .bol) (a := [125, 10]) (ts := [.rbrace]) (by decide))
  simpa [docToks, docBodyToks, List.append_assoc] using h

/-! ## The parse tree of a rendered document -/

def nodeAttrs (n : DNode) : List (List Nat × List Nat) :=
  if n.kind = 1 then
    [(kwShape, kwCircle), (kwColor, kwBlue), (kwPenwidth, kwThree), (kwLabel, natDigits n.id)]
  else if n.kind = 2 then
    [(kwShape, kwCircle), (kwColor, kwRed), (kwPenwidth, kwThree),
      (kwLabel, natDigits n.id ++ [32, 84] ++ natDigits n.tid)]
  else [(kwLabel, natDigits n.id)]

def nodeStmt (pre : List Nat) (n : DNode) : DStmt := .node (pre ++ natDigits n.id) (nodeAttrs n)

def edgeStmt (pre : List Nat) (edgeText : Nat → List Nat) (e : DEdge) : DStmt :=
  .edge (pre ++ natDigits e.src) (pre ++ natDigits e.dst) [(kwLabel, edgeLabel edgeText e)]

def graphStmts (pre : List Nat) (edgeText : Nat → List Nat) (g : DGraph) : List DStmt :=
  g.nodes.map (nodeStmt pre) ++ g.edges.map (edgeStmt pre edgeText)

def clusterStmt (edgeText : Nat → List Nat) (k : Nat) (c : DCluster) : DStmt :=
  .sub (kwClusterPre ++ natDigits k)
    (.attr kwLabel (clusterLabelText c) :: graphStmts (clusterPre c) edgeText c.g)

def clustersStmts (edgeText : Nat → List Nat) : Nat → List DCluster → List DStmt
  | _, [] => []
  | k, c :: r => clusterStmt edgeText k c :: clustersStmts edgeText (k + 1) r

def docStmts (title : List Nat) (edgeText : Nat → List Nat) (d : DotDoc) : List DStmt :=
  .attr kwLabel title :: .attr kwRankdir kwLR ::
    (graphStmts [] edgeText d.main ++ clustersStmts edgeText 0 d.clusters)

/-! ## Parsing the tokens -/

/-- with at least `b` units of fuel the statements up to the closing brace are `res.1`, and
    `res.2` is what follows the brace -/
def ParsesTo (b : Nat) (toks : List DTok) (res : List DStmt × List DTok) : Prop :=
  ∀ f, b ≤ f → pStmts f toks = some res

theorem ParsesTo.mono {b b' : Nat} {toks : List DTok} {res : List DStmt × List DTok}
    (h : ParsesTo b toks res) (hb : b ≤ b') : ParsesTo b' toks res :=
  fun f hf => h f (Nat.le_trans hb hf)

theorem parsesTo_rbrace (r : List DTok) : ParsesTo 1 (.rbrace :: r) ([], r) := by
  intro f hf
  obtain ⟨f', rfl⟩ : ∃ f', f = f' + 1 := ⟨f - 1, by omega⟩
  rfl

theorem pStmts_node (f : Nat) (pre : List Nat) (n : DNode) (rest : List DTok) :
    pStmts (f + 1) (nodeToks pre n ++ rest) =
      match pStmts f rest with
      | none => none
      | some (ss, r2) => some (nodeStmt pre n :: ss, r2) := by
  unfold nodeToks nodeAttrToks nodeStmt nodeAttrs
  by_cases h1 : n.kind = 1
  · simp only [h1, if_true]; rfl
  · by_cases h2 : n.kind = 2
    · simp only [h2, if_true]; rfl
    · simp only [h1, h2, if_false]; rfl

theorem pStmts_edge (f : Nat) (pre : List Nat) (edgeText : Nat → List Nat) (e : DEdge) (rest : List DTok) :
    pStmts (f + 1) (edgeToks pre edgeText e ++ rest) =
      match pStmts f rest with
      | none => none
      | some (ss, r2) => some (edgeStmt pre edgeText e :: ss, r2) := rfl

theorem pStmts_label (f : Nat) (v : List Nat) (rest : List DTok) :
    pStmts (f + 1) (.id kwLabel :: .eq :: .str v :: .semi :: rest) =
      match pStmts f rest with
      | none => none
      | some (ss, r2) => some (.attr kwLabel v :: ss, r2) := rfl

theorem pStmts_rankdir (f : Nat) (rest : List DTok) :
    pStmts (f + 1) (.id kwRankdir :: .eq :: .id kwLR :: .semi :: rest) =
      match pStmts f rest with
      | none => none
      | some (ss, r2) => some (.attr kwRankdir kwLR :: ss, r2) := rfl

theorem ParsesTo.step {b : Nat} {toks rest tail r : _} {st : DStmt}
    (hstep : ∀ f, pStmts (f + 1) toks =
      match pStmts f rest with
      | none => none
      | some (ss, r2) => some (st :: ss, r2))
    (h : ParsesTo b rest (tail, r)) : ParsesTo (b + 1) toks (st :: tail, r) := by
  intro f hf
  obtain ⟨f', rfl⟩ : ∃ f', f = f' + 1 := ⟨f - 1, by omega⟩
  rw [hstep, h f' (by omega)]

theorem parsesTo_nodes (pre : List Nat) (ns : List DNode) {b : Nat} {rest tail r : _}
    (h : ParsesTo b rest (tail, r)) :
    ParsesTo (b + ns.length) (nodesToks pre ns ++ rest) (ns.map (nodeStmt pre) ++ tail, r) := by
  induction ns with
  | nil => simpa [nodesToks] using h
  | cons n ns ih =>
    have := ParsesTo.step (toks := nodeToks pre n ++ (nodesToks pre ns ++ rest))
      (fun f => pStmts_node f pre n _) ih
    simpa [nodesToks, List.append_assoc, Nat.add_assoc] using this

theorem parsesTo_edges (pre : List Nat) (edgeText : Nat → List Nat) (es : List DEdge) {b : Nat}
    {rest tail r : _} (h : ParsesTo b rest (tail, r)) :
    ParsesTo (b + es.length) (edgesToks pre edgeText es ++ rest)
      (es.map (edgeStmt pre edgeText) ++ tail, r) := by
  induction es with
  | nil => simpa [edgesToks] using h
  | cons e es ih =>
    have := ParsesTo.step (toks := edgeToks pre edgeText e ++ (edgesToks pre edgeText es ++ rest))
      (fun f => pStmts_edge f pre edgeText e _) ih
    simpa [edgesToks, List.append_assoc, Nat.add_assoc] using this

def graphSize (g : DGraph) : Nat := g.nodes.length + g.edges.length

theorem parsesTo_graph (pre : List Nat) (edgeText : Nat → List Nat) (g : DGraph) {b : Nat}
    {rest tail r : _} (h : ParsesTo b rest (tail, r)) :
    ParsesTo (b + graphSize g) (graphToks pre edgeText g ++ rest)
      (graphStmts pre edgeText g ++ tail, r) := by
  have := parsesTo_nodes pre g.nodes (parsesTo_edges pre edgeText g.edges h)
  unfold graphToks graphStmts graphSize
  refine ParsesTo.mono (by simpa [List.append_assoc] using this) (by omega)

theorem startsWith_append (p s : List Nat) : startsWith p (p ++ s) = true := by
  induction p with
  | nil => rfl
  | cons c p ih => simp [startsWith, ih]

/-- no keyword starts with `c` -/
theorem isKw_c (t : List Nat) : isKw (99 :: t) = false := by
  simp [isKw, lower, lowerChar, kwStrict, kwGraph, kwDigraph, kwNode, kwEdge, kwSubgraph]

theorem tokID_clusterName (ds : List Nat) :
    tokID (.id (kwClusterPre ++ ds)) = some (kwClusterPre ++ ds) := by
  have : isKw (kwClusterPre ++ ds) = false := isKw_c _
  simp only [tokID, this]
  rfl

theorem pStmts_subgraph (f : Nat) (ds : List Nat) (X : List DTok) :
    pStmts (f + 1) (.id kwSubgraph :: .id (kwClusterPre ++ ds) :: .lbrace :: X) =
      match pStmts f X with
      | none => none
      | some (body, r2) =>
        match pStmts f (dropSemi r2) with
        | none => none
        | some (ss, r3) => some (.sub (kwClusterPre ++ ds) body :: ss, r3) := by
  have hs : isSubgraphKw (.id kwSubgraph) = true := by decide
  simp only [pStmts, hs, if_true, pSubHead, tokID_clusterName]
  cases pStmts f X with
  | none => rfl
  | some p => cases pStmts f (dropSemi p.2) <;> rfl

theorem parsesTo_cluster (edgeText : Nat → List Nat) (k : Nat) (c : DCluster) {b : Nat}
    {rest tail r : _} (h : ParsesTo b rest (tail, r)) (hrest : dropSemi rest = rest) :
    ParsesTo (b + graphSize c.g + 3) (clusterToks edgeText k c ++ rest)
      (clusterStmt edgeText k c :: tail, r) := by
  intro f hf
  obtain ⟨f', rfl⟩ : ∃ f', f = f' + 1 := ⟨f - 1, by omega⟩
  have hbody : ParsesTo (1 + graphSize c.g + 1)
      (.id kwLabel :: .eq :: .str (clusterLabelText c) :: .semi ::
        (graphToks (clusterPre c) edgeText c.g ++ (.rbrace :: rest)))
      (.attr kwLabel (clusterLabelText c) :: (graphStmts (clusterPre c) edgeText c.g ++ []), rest) :=
    ParsesTo.step (fun f => pStmts_label f _ _)
      (parsesTo_graph (clusterPre c) edgeText c.g (parsesTo_rbrace rest))
  have h1 := hbody f' (by omega)
  have h2 := h f' (by omega)
  simp only [List.append_nil] at h1
  simp only [clusterToks, clusterStmt, List.cons_append, List.append_assoc, pStmts_subgraph,
    List.nil_append, h1, hrest, h2]

def clustersSize : List DCluster → Nat
  | [] => 0
  | c :: r => graphSize c.g + 3 + clustersSize r

theorem parsesTo_clusters (edgeText : Nat → List Nat) (cs : List DCluster) {b : Nat}
    {rest tail r : _} (h : ParsesTo b rest (tail, r)) (hrest : dropSemi rest = rest) : ∀ k,
    ParsesTo (b + clustersSize cs) (clustersToks edgeText k cs ++ rest)
      (clustersStmts edgeText k cs ++ tail, r) := by
  induction cs with
  | nil => intro k; simpa [clustersToks, clustersStmts, clustersSize] using h
  | cons c cs ih =>
    intro k
    have hds : dropSemi (clustersToks edgeText (k + 1) cs ++ rest) = clustersToks edgeText (k + 1) cs ++ rest := by
      cases cs with
      | nil => simpa [clustersToks] using hrest
      | cons c' cs' => rfl
    have := parsesTo_cluster edgeText k c (ih (k + 1)) hds
    refine ParsesTo.mono (by simpa [clustersToks, clustersStmts, List.append_assoc] using this) ?_
    simp only [clustersSize]; omega

theorem parsesTo_docBody (title : List Nat) (edgeText : Nat → List Nat) (d : DotDoc) :
    ParsesTo (clustersSize d.clusters + graphSize d.main + 3) (docBodyToks title edgeText d)
      (docStmts title edgeText d, []) := by
  have h := ParsesTo.step (fun f => pStmts_label f title _)
    (ParsesTo.step (fun f => pStmts_rankdir f _)
      (parsesTo_graph [] edgeText d.main (parsesTo_clusters edgeText d.clusters (parsesTo_rbrace []) rfl 0)))
  refine ParsesTo.mono (by simpa [docBodyToks, docStmts, List.append_assoc] using h) (by omega)

/-! the fuel `parseToks` provides (the number of tokens) is enough -/

theorem length_nodesToks (pre : List Nat) (ns : List DNode) : ns.length ≤ (nodesToks pre ns).length := by
  induction ns with
  | nil => simp [nodesToks]
  | cons n ns ih => simp only [nodesToks, nodeToks, List.length_append, List.length_cons]; omega

theorem length_edgesToks (pre : List Nat) (edgeText : Nat → List Nat) (es : List DEdge) :
    es.length ≤ (edgesToks pre edgeText es).length := by
  induction es with
  | nil => simp [edgesToks]
  | cons e es ih => simp only [edgesToks, edgeToks, List.length_append, List.length_cons]; omega

theorem length_graphToks (pre : List Nat) (edgeText : Nat → List Nat) (g : DGraph) :
    graphSize g ≤ (graphToks pre edgeText g).length := by
  have := length_nodesToks pre g.nodes
  have := length_edgesToks pre edgeText g.edges
  simp only [graphSize, graphToks, List.length_append]; omega

theorem length_clustersToks (edgeText : Nat → List Nat) (cs : List DCluster) : ∀ k,
    clustersSize cs ≤ (clustersToks edgeText k cs).length := by
  induction cs with
  | nil => intro k; simp [clustersSize]
  | cons c cs ih =>
    intro k
    have := ih (k + 1)
    have := length_graphToks (clusterPre c) edgeText c.g
    simp only [clustersSize, clustersToks, clusterToks, List.length_append, List.length_cons]; omega

theorem parseToks_digraph (r : List DTok) :
    parseToks (.id kwDigraph :: .lbrace :: r) =
      match pStmts (r.length + 2) r with
      | some (ss, []) => some ⟨ss⟩
      | _ => none := rfl

/-- the parser builds the expected tree from the expected tokens -/
theorem parseToks_docToks (title : List Nat) (edgeText : Nat → List Nat) (d : DotDoc) :
    parseToks (docToks title edgeText d) = some ⟨docStmts title edgeText d⟩ := by
  have hlen : clustersSize d.clusters + graphSize d.main + 3 ≤ (docBodyToks title edgeText d).length + 2 := by
    have := length_graphToks [] edgeText d.main
    have := length_clustersToks edgeText d.clusters 0
    simp only [docBodyToks, List.length_append, List.length_cons]; omega
  have := parsesTo_docBody title edgeText d _ hlen
  simp only [docToks, parseToks_digraph, this]

/-! ## Decoding the tree -/

theorem stripPrefix_append (p s : List Nat) : stripPrefix p (p ++ s) = some s := by
  induction p with
  | nil => cases s <;> rfl
  | cons c p ih => simp [stripPrefix, ih]

theorem idOf_name (pre : List Nat) (n : Nat) : idOf pre (pre ++ natDigits n) = some n := by
  simp only [idOf, stripPrefix_append, parseNat_natDigits]

/-- what the round trip needs of a node: it is accepting (kind 2), or the start node (kind 1,
    number 0), or a plain node (kind 0, not number 0); only accepting nodes carry a token type -/
def NodeOK (n : DNode) : Prop :=
  n.kind = 2 ∨ (n.kind = 1 ∧ n.id = 0 ∧ n.tid = 0) ∨ (n.kind = 0 ∧ n.id ≠ 0 ∧ n.tid = 0)

theorem stripPrefix_short (a b : List Nat) (hb : b ≠ []) : stripPrefix (a ++ b) a = none := by
  induction a with
  | nil =>
    cases b with
    | nil => exact absurd rfl hb
    | cons x b => rfl
  | cons c a ih => simp [stripPrefix, ih]

theorem acceptingTid_plain (id : Nat) : acceptingTid id (natDigits id) = none := by
  simp [acceptingTid, stripPrefix_short]

theorem acceptingTid_accepting (id tid : Nat) :
    acceptingTid id (natDigits id ++ [32, 84] ++ natDigits tid) = some tid := by
  simp only [acceptingTid, stripPrefix_append, parseNat_natDigits]

theorem decodeNode_nodeStmt (pre : List Nat) (n : DNode) (h : NodeOK n) :
    decodeNode pre (pre ++ natDigits n.id) (nodeAttrs n) = some n := by
  obtain ⟨id, kind, tid⟩ := n
  unfold decodeNode nodeAttrs
  simp only [idOf_name]
  rcases h with h | ⟨h1, h2, h3⟩ | ⟨h1, h2, h3⟩ <;> simp only at *
  · subst h
    have hl : lookupAttr kwLabel [(kwShape, kwCircle), (kwColor, kwRed), (kwPenwidth, kwThree),
        (kwLabel, natDigits id ++ [32, 84] ++ natDigits tid)]
        = some (natDigits id ++ [32, 84] ++ natDigits tid) := rfl
    simp only [Nat.reduceEqDiff, if_false, if_true, hl, acceptingTid_accepting]
  · subst h1; subst h2; subst h3
    have hl : lookupAttr kwLabel [(kwShape, kwCircle), (kwColor, kwBlue), (kwPenwidth, kwThree),
        (kwLabel, natDigits 0)] = some (natDigits 0) := rfl
    simp only [if_true, hl, acceptingTid_plain]
  · subst h1; subst h3
    have hl : lookupAttr kwLabel [(kwLabel, natDigits id)] = some (natDigits id) := rfl
    simp only [Nat.reduceEqDiff, if_false, if_true, hl, acceptingTid_plain, h2]

theorem afterLast_none (s : List Nat) (h : ∀ c ∈ s, c ≠ 32) : afterLast kwClassOpen s = none := by
  induction s with
  | nil => rfl
  | cons c r ih =>
    have hc := h c (by simp)
    simp only [afterLast, ih (fun x hx => h x (by simp [hx]))]
    simp only [kwClassOpen, stripPrefix]
    simp [Ne.symm hc]

theorem afterLast_hit (a t : List Nat) (h : ∀ c ∈ t, c ≠ 32) :
    afterLast kwClassOpen (a ++ (kwClassOpen ++ t)) = some t := by
  induction a with
  | nil =>
    have hn : afterLast kwClassOpen (40 :: 67 :: 35 :: t) = none :=
      afterLast_none _ (by intro c hc; simp at hc; rcases hc with rfl | rfl | rfl | hc <;> first | omega | exact h c hc)
    show afterLast kwClassOpen (32 :: 40 :: 67 :: 35 :: t) = some t
    simp only [afterLast] at hn ⊢
    simp only [hn]
    simp [kwClassOpen, stripPrefix]
  | cons c a ih => simp only [List.cons_append, afterLast, ih]

theorem stripSuffixChar_append (c : Nat) (s : List Nat) : stripSuffixChar c (s ++ [c]) = some s := by
  simp [stripSuffixChar, List.reverse_append]

theorem edgeClass_edgeLabel (edgeText : Nat → List Nat) (e : DEdge) :
    edgeClass (edgeLabel edgeText e) = some e.cc := by
  have h32 : ∀ c ∈ natDigits e.cc ++ [41], c ≠ 32 := by
    intro c hc
    rw [List.mem_append] at hc
    cases hc with
    | inl h => have := natDigits_digit _ c h; simp [isDigit] at this; omega
    | inr h => simp at h; omega
  have := afterLast_hit (edgeText e.cc) _ h32
  unfold edgeClass edgeLabel
  simp only [List.append_assoc] at this ⊢
  simp only [this, stripSuffixChar_append, parseNat_natDigits]

theorem decodeEdge_edgeStmt (pre : List Nat) (edgeText : Nat → List Nat) (e : DEdge) :
    decodeEdge pre (pre ++ natDigits e.src) (pre ++ natDigits e.dst) [(kwLabel, edgeLabel edgeText e)]
      = some e := by
  simp [decodeEdge, lookupAttr, edgeClass_edgeLabel, idOf_name]

/-! what each decoder sees of a list of statements -/

theorem isCluster_pre (ds : List Nat) : isCluster (kwClusterPre ++ ds) = true := rfl

theorem decodeNodes_skip (pre : List Nat) (s : DStmt) (r : List DStmt)
    (h : decodeNodesStmt pre s = some []) : decodeNodes pre (s :: r) = decodeNodes pre r := by
  simp only [decodeNodes, h]
  cases decodeNodes pre r <;> rfl

theorem decodeEdges_skip (pre : List Nat) (s : DStmt) (r : List DStmt)
    (h : decodeEdgesStmt pre s = some []) : decodeEdges pre (s :: r) = decodeEdges pre r := by
  simp only [decodeEdges, h]
  cases decodeEdges pre r <;> rfl

theorem decodeClusters_skip (s : DStmt) (r : List DStmt)
    (h : decodeClustersStmt s = some []) : decodeClusters (s :: r) = decodeClusters r := by
  simp only [decodeClusters, h]
  cases decodeClusters r <;> rfl

theorem decodeNodes_nodes (pre : List Nat) (ns : List DNode) (h : ∀ n ∈ ns, NodeOK n)
    (tail : List DStmt) (t : List DNode) (ht : decodeNodes pre tail = some t) :
    decodeNodes pre (ns.map (nodeStmt pre) ++ tail) = some (ns ++ t) := by
  induction ns with
  | nil => simpa using ht
  | cons n ns ih =>
    simp only [List.map_cons, List.cons_append, nodeStmt, decodeNodes, decodeNodesStmt]
    rw [decodeNode_nodeStmt pre n (h n (by simp))]
    rw [ih (fun x hx => h x (by simp [hx]))]
    rfl

theorem decodeNodes_edges (pre pre' : List Nat) (edgeText : Nat → List Nat) (es : List DEdge)
    (tail : List DStmt) :
    decodeNodes pre (es.map (edgeStmt pre' edgeText) ++ tail) = decodeNodes pre tail := by
  induction es with
  | nil => rfl
  | cons e es ih =>
    simp only [List.map_cons, List.cons_append]
    rw [decodeNodes_skip _ _ _ (by simp only [edgeStmt, decodeNodesStmt]), ih]

theorem decodeNodes_clusters (pre : List Nat) (edgeText : Nat → List Nat) (cs : List DCluster) :
    ∀ k, decodeNodes pre (clustersStmts edgeText k cs) = some [] := by
  induction cs with
  | nil => intro k; simp only [clustersStmts, decodeNodes]
  | cons c cs ih =>
    intro k
    simp only [clustersStmts]
    rw [decodeNodes_skip _ _ _ (by simp only [clusterStmt, decodeNodesStmt, isCluster_pre, if_true]), ih]

theorem decodeEdges_nodes (pre pre' : List Nat) (ns : List DNode) (tail : List DStmt) :
    decodeEdges pre (ns.map (nodeStmt pre') ++ tail) = decodeEdges pre tail := by
  induction ns with
  | nil => rfl
  | cons n ns ih =>
    simp only [List.map_cons, List.cons_append]
    rw [decodeEdges_skip _ _ _ (by simp only [nodeStmt, decodeEdgesStmt]), ih]

theorem decodeEdges_edges (pre : List Nat) (edgeText : Nat → List Nat) (es : List DEdge)
    (tail : List DStmt) (t : List DEdge) (ht : decodeEdges pre tail = some t) :
    decodeEdges pre (es.map (edgeStmt pre edgeText) ++ tail) = some (es ++ t) := by
  induction es with
  | nil => simpa using ht
  | cons e es ih =>
    simp only [List.map_cons, List.cons_append, edgeStmt, decodeEdges, decodeEdgesStmt]
    rw [decodeEdge_edgeStmt pre edgeText e]
    rw [ih]
    rfl

theorem decodeEdges_clusters (pre : List Nat) (edgeText : Nat → List Nat) (cs : List DCluster) :
    ∀ k, decodeEdges pre (clustersStmts edgeText k cs) = some [] := by
  induction cs with
  | nil => intro k; simp only [clustersStmts, decodeEdges]
  | cons c cs ih =>
    intro k
    simp only [clustersStmts]
    rw [decodeEdges_skip _ _ _ (by simp only [clusterStmt, decodeEdgesStmt, isCluster_pre, if_true]), ih]

def GraphOK (g : DGraph) : Prop := ∀ n ∈ g.nodes, NodeOK n

theorem decodeGraph_graphStmts (pre : List Nat) (edgeText : Nat → List Nat) (g : DGraph) (h : GraphOK g)
    (tail : List DStmt) (hn : decodeNodes pre tail = some []) (he : decodeEdges pre tail = some []) :
    decodeGraph pre (graphStmts pre edgeText g ++ tail) = some g := by
  unfold decodeGraph graphStmts
  rw [List.append_assoc, decodeNodes_nodes pre g.nodes h _ [] (by rw [decodeNodes_edges]; exact hn),
    decodeEdges_nodes, decodeEdges_edges pre edgeText g.edges tail [] he]
  simp

theorem lastLabel_graphStmts (pre : List Nat) (edgeText : Nat → List Nat) (g : DGraph) (cur : List Nat) :
    lastLabel (graphStmts pre edgeText g) cur = cur := by
  unfold graphStmts
  have hE : ∀ es : List DEdge, lastLabel (es.map (edgeStmt pre edgeText)) cur = cur := by
    intro es
    induction es with
    | nil => rfl
    | cons e es ih => simpa [edgeStmt, lastLabel] using ih
  induction g.nodes with
  | nil => simpa using hE g.edges
  | cons n ns ih => simpa [nodeStmt, lastLabel] using ih

theorem splitOnce_append (c : Nat) (a b : List Nat) (h : ∀ x ∈ a, x ≠ c) :
    splitOnce c (a ++ c :: b) = some (a, b) := by
  induction a with
  | nil => simp [splitOnce]
  | cons x a ih =>
    have hx := h x (by simp)
    simp only [List.cons_append, splitOnce, hx, if_false, ih (fun y hy => h y (by simp [hy]))]

theorem clusterLabel_text (c : DCluster) : clusterLabel (clusterLabelText c) = some (c.tid, c.positive) := by
  have h40 : ∀ x ∈ natDigits c.tid, x ≠ 40 := by
    intro x hx; have := natDigits_digit _ x hx; simp [isDigit] at this; omega
  unfold clusterLabel clusterLabelText
  simp only [List.append_assoc, stripPrefix_append, List.singleton_append, splitOnce_append 40 _ _ h40,
    parseNat_natDigits]
  cases c.positive
  · simp [kwPos, kwNeg]
  · simp

theorem decodeCluster_body (edgeText : Nat → List Nat) (c : DCluster) (h : GraphOK c.g) :
    decodeCluster (.attr kwLabel (clusterLabelText c) :: graphStmts (clusterPre c) edgeText c.g) = some c := by
  have hg := decodeGraph_graphStmts (clusterPre c) edgeText c.g h [] (by simp only [decodeNodes])
    (by simp only [decodeEdges])
  simp only [List.append_nil] at hg
  have hg' : decodeGraph (clusterPre c)
      (.attr kwLabel (clusterLabelText c) :: graphStmts (clusterPre c) edgeText c.g) = some c.g := by
    unfold decodeGraph at hg ⊢
    rw [decodeNodes_skip _ _ _ (by simp only [decodeNodesStmt]),
      decodeEdges_skip _ _ _ (by simp only [decodeEdgesStmt])]
    exact hg
  simp only [decodeCluster, lastLabel, if_true, lastLabel_graphStmts, clusterLabel_text]
  rw [show natDigits c.tid ++ [95] = clusterPre c from rfl, hg']

theorem decodeClusters_graphStmts (pre : List Nat) (edgeText : Nat → List Nat) (g : DGraph) (tail : List DStmt) :
    decodeClusters (graphStmts pre edgeText g ++ tail) = decodeClusters tail := by
  unfold graphStmts
  rw [List.append_assoc]
  have hE : ∀ es : List DEdge,
      decodeClusters (es.map (edgeStmt pre edgeText) ++ tail) = decodeClusters tail := by
    intro es
    induction es with
    | nil => rfl
    | cons e es ih =>
      simp only [List.map_cons, List.cons_append]
      rw [decodeClusters_skip _ _ (by simp only [edgeStmt, decodeClustersStmt]), ih]
  induction g.nodes with
  | nil => simpa using hE g.edges
  | cons n ns ih =>
    simp only [List.map_cons, List.cons_append]
    rw [decodeClusters_skip _ _ (by simp only [nodeStmt, decodeClustersStmt]), ih]

theorem decodeClusters_clusters (edgeText : Nat → List Nat) (cs : List DCluster)
    (h : ∀ c ∈ cs, GraphOK c.g) : ∀ k, decodeClusters (clustersStmts edgeText k cs) = some cs := by
  induction cs with
  | nil => intro k; simp only [clustersStmts, decodeClusters]
  | cons c cs ih =>
    intro k
    simp only [clustersStmts, clusterStmt, decodeClusters, decodeClustersStmt, isCluster_pre, if_true]
    rw [decodeCluster_body edgeText c (h c (by simp)), ih (fun x hx => h x (by simp [hx]))]
    rfl

def DocOK (d : DotDoc) : Prop := GraphOK d.main ∧ ∀ c ∈ d.clusters, GraphOK c.g

/-- decoding the expected tree gives the document back -/
theorem decodeDot_docStmts (title : List Nat) (edgeText : Nat → List Nat) (d : DotDoc) (h : DocOK d) :
    decodeDot ⟨docStmts title edgeText d⟩ = some d := by
  have hg := decodeGraph_graphStmts [] edgeText d.main h.1 (clustersStmts edgeText 0 d.clusters)
    (decodeNodes_clusters _ _ _ 0) (decodeEdges_clusters _ _ _ 0)
  have hg' : decodeGraph [] (docStmts title edgeText d) = some d.main := by
    unfold decodeGraph docStmts at *
    rw [decodeNodes_skip _ _ _ (by simp only [decodeNodesStmt]),
      decodeNodes_skip _ _ _ (by simp only [decodeNodesStmt]),
      decodeEdges_skip _ _ _ (by simp only [decodeEdgesStmt]),
      decodeEdges_skip _ _ _ (by simp only [decodeEdgesStmt])]
    exact hg
  have hc : decodeClusters (docStmts title edgeText d) = some d.clusters := by
    unfold docStmts
    rw [decodeClusters_skip _ _ (by simp only [decodeClustersStmt]),
      decodeClusters_skip _ _ (by simp only [decodeClustersStmt]), decodeClusters_graphStmts]
    exact decodeClusters_clusters edgeText d.clusters h.2 0
  simp only [decodeDot, hg', hc]

/-! ## The round trip -/

theorem nodeOK_of_nodesOKFrom : ∀ (ns : List DNode) (i : Nat), nodesOKFrom i ns = true → ∀ n ∈ ns, NodeOK n := by
  intro ns
  induction ns with
  | nil => intro i _ n hn; cases hn
  | cons m ns ih =>
    intro i h n hn
    simp only [nodesOKFrom, Bool.and_eq_true, Bool.or_eq_true, beq_iff_eq, bne_iff_ne] at h
    rw [List.mem_cons] at hn
    cases hn with
    | inl hm => subst hm; unfold NodeOK; omega
    | inr hm => exact ih (i + 1) h.2 n hm

theorem graphOK_of_textOK (g : DGraph) (h : g.textOK = true) : GraphOK g := by
  simp only [DGraph.textOK, Bool.and_eq_true] at h
  exact nodeOK_of_nodesOKFrom g.nodes 0 h.1

theorem docOK_of_textOK (d : DotDoc) (h : d.textOK = true) : DocOK d := by
  simp only [DotDoc.textOK, Bool.and_eq_true, List.all_eq_true] at h
  exact ⟨graphOK_of_textOK _ h.1, fun c hc => graphOK_of_textOK _ (h.2 c hc)⟩

/-- The round trip under the weakest condition the proof needs: every node has a known kind and
    only accepting nodes carry a token type (`DocOK`). -/
theorem decodeDot_parseDot_renderDot_of_docOK (title : List Nat) (edgeText : Nat → List Nat) (d : DotDoc)
    (hd : DocOK d) (ht : strSafe title = true) (he : ∀ cc, strSafe (edgeText cc) = true) :
    (parseDot (renderDot title edgeText d)).bind decodeDot = some d := by
  simp only [parseDot, lexDot_renderDot title edgeText d ht he, parseToks_docToks, Option.bind_some,
    decodeDot_docStmts title edgeText d hd]

/-- **Round trip of the DOT text layer.** For every well-formed document and every string-safe
    title and class texts, the written file lexes, parses as exactly one `digraph { ... }`, and
    decodes to the document it was written from. -/
theorem decodeDot_parseDot_renderDot (title : List Nat) (edgeText : Nat → List Nat) (d : DotDoc)
    (hd : d.textOK = true) (ht : strSafe title = true) (he : ∀ cc, strSafe (edgeText cc) = true) :
    (parseDot (renderDot title edgeText d)).bind decodeDot = some d :=
  decodeDot_parseDot_renderDot_of_docOK title edgeText d (docOK_of_textOK d hd) ht he

/-- in particular the written file is well-formed for the strict parser -/
theorem parseDot_renderDot_isSome (title : List Nat) (edgeText : Nat → List Nat) (d : DotDoc)
    (ht : strSafe title = true) (he : ∀ cc, strSafe (edgeText cc) = true) :
    parseDot (renderDot title edgeText d) = some ⟨docStmts title edgeText d⟩ := by
  simp only [parseDot, lexDot_renderDot title edgeText d ht he, parseToks_docToks]

/-! ## Negative facts: what is not well-formed is rejected -/

/-- Only well-formed text is accepted (each line: the text, then its code points). -/
theorem parseDot_wellformed_only :
    -- the closing brace of the graph is missing: `digraph { "0" [label="0"];`
    parseDot [100, 105, 103, 114, 97, 112, 104, 32, 123, 32, 34, 48, 34, 32, 91, 108, 97, 98, 101, 108, 61, 34, 48, 34, 93, 59] = none ∧
    -- one closing brace too many: `digraph { } }`
    parseDot [100, 105, 103, 114, 97, 112, 104, 32, 123, 32, 125, 32, 125] = none ∧
    -- a subgraph is not closed: `digraph { subgraph cluster_0 { "0" [label="0"]; }`
    parseDot [100, 105, 103, 114, 97, 112, 104, 32, 123, 32, 115, 117, 98, 103, 114, 97, 112, 104, 32, 99, 108, 117, 115, 116, 101, 114, 95, 48, 32, 123, 32, 34, 48, 34, 32, 91, 108, 97, 98, 101, 108, 61, 34, 48, 34, 93, 59, 32, 125] = none ∧
    -- a block is not closed: `digraph { { "0" }`
    parseDot [100, 105, 103, 114, 97, 112, 104, 32, 123, 32, 123, 32, 34, 48, 34, 32, 125] = none ∧
    -- unterminated string: `digraph { "0; }`
    parseDot [100, 105, 103, 114, 97, 112, 104, 32, 123, 32, 34, 48, 59, 32, 125] = none ∧
    -- a backslash escapes the closing quote: `digraph { "0" [label="a\"]; }`
    parseDot [100, 105, 103, 114, 97, 112, 104, 32, 123, 32, 34, 48, 34, 32, 91, 108, 97, 98, 101, 108, 61, 34, 97, 92, 34, 93, 59, 32, 125] = none ∧
    -- an unescaped quote inside a label (the rest is an unterminated string): `digraph { "0" [label="a"b"]; }`
    parseDot [100, 105, 103, 114, 97, 112, 104, 32, 123, 32, 34, 48, 34, 32, 91, 108, 97, 98, 101, 108, 61, 34, 97, 34, 98, 34, 93, 59, 32, 125] = none ∧
    -- unterminated `/*` comment: `digraph { } /* end`
    parseDot [100, 105, 103, 114, 97, 112, 104, 32, 123, 32, 125, 32, 47, 42, 32, 101, 110, 100] = none ∧
    -- unterminated `/*` comment (`*` alone does not close it): `digraph { /* * / }`
    parseDot [100, 105, 103, 114, 97, 112, 104, 32, 123, 32, 47, 42, 32, 42, 32, 47, 32, 125] = none ∧
    -- `/` that does not start a comment: `digraph { / }`
    parseDot [100, 105, 103, 114, 97, 112, 104, 32, 123, 32, 47, 32, 125] = none ∧
    -- `#` that is not the first character of a line: `digraph { # x\n}`
    parseDot [100, 105, 103, 114, 97, 112, 104, 32, 123, 32, 35, 32, 120, 10, 125] = none ∧
    -- `digraph` missing: `{ "0" [label="0"]; }`
    parseDot [123, 32, 34, 48, 34, 32, 91, 108, 97, 98, 101, 108, 61, 34, 48, 34, 93, 59, 32, 125] = none ∧
    -- `digraph` missing (undirected graph): `graph { }`
    parseDot [103, 114, 97, 112, 104, 32, 123, 32, 125] = none ∧
    -- `strict` twice: `strict strict digraph { }`
    parseDot [115, 116, 114, 105, 99, 116, 32, 115, 116, 114, 105, 99, 116, 32, 100, 105, 103, 114, 97, 112, 104, 32, 123, 32, 125] = none ∧
    -- a keyword as graph ID: `digraph node { }`
    parseDot [100, 105, 103, 114, 97, 112, 104, 32, 110, 111, 100, 101, 32, 123, 32, 125] = none ∧
    -- two graph IDs: `digraph a b { }`
    parseDot [100, 105, 103, 114, 97, 112, 104, 32, 97, 32, 98, 32, 123, 32, 125] = none ∧
    -- two graphs in one file: `digraph { } digraph { }`
    parseDot [100, 105, 103, 114, 97, 112, 104, 32, 123, 32, 125, 32, 100, 105, 103, 114, 97, 112, 104, 32, 123, 32, 125] = none ∧
    -- text after the closing brace: `digraph { } x`
    parseDot [100, 105, 103, 114, 97, 112, 104, 32, 123, 32, 125, 32, 120] = none ∧
    -- `;` after the closing brace: `digraph { };`
    parseDot [100, 105, 103, 114, 97, 112, 104, 32, 123, 32, 125, 59] = none ∧
    -- missing `]`: `digraph { "0" [label="0"; }`
    parseDot [100, 105, 103, 114, 97, 112, 104, 32, 123, 32, 34, 48, 34, 32, 91, 108, 97, 98, 101, 108, 61, 34, 48, 34, 59, 32, 125] = none ∧
    -- `]` without `[`: `digraph { "0" label="0"]; }`
    parseDot [100, 105, 103, 114, 97, 112, 104, 32, 123, 32, 34, 48, 34, 32, 108, 97, 98, 101, 108, 61, 34, 48, 34, 93, 59, 32, 125] = none ∧
    -- one `]` too many: `digraph { "0" [label="0"]]; }`
    parseDot [100, 105, 103, 114, 97, 112, 104, 32, 123, 32, 34, 48, 34, 32, 91, 108, 97, 98, 101, 108, 61, 34, 48, 34, 93, 93, 59, 32, 125] = none ∧
    -- attribute without value `[a=]`: `digraph { "0" [a=]; }`
    parseDot [100, 105, 103, 114, 97, 112, 104, 32, 123, 32, 34, 48, 34, 32, 91, 97, 61, 93, 59, 32, 125] = none ∧
    -- attribute without name `[=b]`: `digraph { "0" [=b]; }`
    parseDot [100, 105, 103, 114, 97, 112, 104, 32, 123, 32, 34, 48, 34, 32, 91, 61, 98, 93, 59, 32, 125] = none ∧
    -- attribute without `=`: `digraph { "0" [a b]; }`
    parseDot [100, 105, 103, 114, 97, 112, 104, 32, 123, 32, 34, 48, 34, 32, 91, 97, 32, 98, 93, 59, 32, 125] = none ∧
    -- two separators in an attribute list: `digraph { "0" [a=b,,c=d]; }`
    parseDot [100, 105, 103, 114, 97, 112, 104, 32, 123, 32, 34, 48, 34, 32, 91, 97, 61, 98, 44, 44, 99, 61, 100, 93, 59, 32, 125] = none ∧
    -- an attribute list starting with a separator: `digraph { "0" [,a=b]; }`
    parseDot [100, 105, 103, 114, 97, 112, 104, 32, 123, 32, 34, 48, 34, 32, 91, 44, 97, 61, 98, 93, 59, 32, 125] = none ∧
    -- an edge without target `a -> ;`: `digraph { a -> ; }`
    parseDot [100, 105, 103, 114, 97, 112, 104, 32, 123, 32, 97, 32, 45, 62, 32, 59, 32, 125] = none ∧
    -- an edge without target at the end: `digraph { a -> }`
    parseDot [100, 105, 103, 114, 97, 112, 104, 32, 123, 32, 97, 32, 45, 62, 32, 125] = none ∧
    -- an edge without source: `digraph { -> a }`
    parseDot [100, 105, 103, 114, 97, 112, 104, 32, 123, 32, 45, 62, 32, 97, 32, 125] = none ∧
    -- `-` without `>`: `digraph { "0" - "1"; }`
    parseDot [100, 105, 103, 114, 97, 112, 104, 32, 123, 32, 34, 48, 34, 32, 45, 32, 34, 49, 34, 59, 32, 125] = none ∧
    -- the undirected edge operator: `digraph { a -- b }`
    parseDot [100, 105, 103, 114, 97, 112, 104, 32, 123, 32, 97, 32, 45, 45, 32, 98, 32, 125] = none ∧
    -- two `;` after a statement: `digraph { a;; }`
    parseDot [100, 105, 103, 114, 97, 112, 104, 32, 123, 32, 97, 59, 59, 32, 125] = none ∧
    -- `;` without a statement: `digraph { ; }`
    parseDot [100, 105, 103, 114, 97, 112, 104, 32, 123, 32, 59, 32, 125] = none ∧
    -- `subgraph` without a body: `digraph { subgraph s; }`
    parseDot [100, 105, 103, 114, 97, 112, 104, 32, 123, 32, 115, 117, 98, 103, 114, 97, 112, 104, 32, 115, 59, 32, 125] = none ∧
    -- a keyword as node name: `digraph { edge -> a }`
    parseDot [100, 105, 103, 114, 97, 112, 104, 32, 123, 32, 101, 100, 103, 101, 32, 45, 62, 32, 97, 32, 125] = none ∧
    -- a keyword as attribute statement `node = x`: `digraph { node = x }`
    parseDot [100, 105, 103, 114, 97, 112, 104, 32, 123, 32, 110, 111, 100, 101, 32, 61, 32, 120, 32, 125] = none ∧
    -- default attributes without a list: `digraph { node; }`
    parseDot [100, 105, 103, 114, 97, 112, 104, 32, 123, 32, 110, 111, 100, 101, 59, 32, 125] = none ∧
    -- a numeral with two dots: `digraph { a [w=1.2.3] }`
    parseDot [100, 105, 103, 114, 97, 112, 104, 32, 123, 32, 97, 32, 91, 119, 61, 49, 46, 50, 46, 51, 93, 32, 125] = none ∧
    -- a numeral running into a name: `digraph { a [w=3abc] }`
    parseDot [100, 105, 103, 114, 97, 112, 104, 32, 123, 32, 97, 32, 91, 119, 61, 51, 97, 98, 99, 93, 32, 125] = none ∧
    -- a lone `.`: `digraph { a [w=.] }`
    parseDot [100, 105, 103, 114, 97, 112, 104, 32, 123, 32, 97, 32, 91, 119, 61, 46, 93, 32, 125] = none ∧
    -- a dot inside a bare identifier: `digraph { a.b }`
    parseDot [100, 105, 103, 114, 97, 112, 104, 32, 123, 32, 97, 46, 98, 32, 125] = none ∧
    -- a port (not part of the subset): `digraph { a:p -> b }`
    parseDot [100, 105, 103, 114, 97, 112, 104, 32, 123, 32, 97, 58, 112, 32, 45, 62, 32, 98, 32, 125] = none ∧
    -- a character outside of the language: `digraph { a ? }`
    parseDot [100, 105, 103, 114, 97, 112, 104, 32, 123, 32, 97, 32, 63, 32, 125] = none := by
  decide

/-! ## Positive facts: the DOT grammar beyond what the crate writes -/

/-- Each text is accepted; where it also decodes, the numbers of main nodes, main edges and
    clusters are given. -/
theorem parseDot_accepts :
    -- the empty graph: `digraph { }`
    ((parseDot [100, 105, 103, 114, 97, 112, 104, 32, 123, 32, 125]).bind decodeDot).map
        (fun d => (d.main.nodes.length, d.main.edges.length, d.clusters.length)) = some (0, 0, 0) ∧
    -- `strict` and a graph ID: `strict digraph G { }`
    ((parseDot [115, 116, 114, 105, 99, 116, 32, 100, 105, 103, 114, 97, 112, 104, 32, 71, 32, 123, 32, 125]).bind decodeDot).map
        (fun d => (d.main.nodes.length, d.main.edges.length, d.clusters.length)) = some (0, 0, 0) ∧
    -- keywords in any case, a quoted graph ID: `STRICT DiGraph "my graph" { }`
    ((parseDot [83, 84, 82, 73, 67, 84, 32, 68, 105, 71, 114, 97, 112, 104, 32, 34, 109, 121, 32, 103, 114, 97, 112, 104, 34, 32, 123, 32, 125]).bind decodeDot).map
        (fun d => (d.main.nodes.length, d.main.edges.length, d.clusters.length)) = some (0, 0, 0) ∧
    -- a numeral as graph ID, a comment after the closing brace: `digraph 12 { } // done\n`
    ((parseDot [100, 105, 103, 114, 97, 112, 104, 32, 49, 50, 32, 123, 32, 125, 32, 47, 47, 32, 100, 111, 110, 101, 10]).bind decodeDot).map
        (fun d => (d.main.nodes.length, d.main.edges.length, d.clusters.length)) = some (0, 0, 0) ∧
    -- comments: `/* a\n b */ digraph { /** c **/ // d\n }`
    ((parseDot [47, 42, 32, 97, 10, 32, 98, 32, 42, 47, 32, 100, 105, 103, 114, 97, 112, 104, 32, 123, 32, 47, 42, 42, 32, 99, 32, 42, 42, 47, 32, 47, 47, 32, 100, 10, 32, 125]).bind decodeDot).map
        (fun d => (d.main.nodes.length, d.main.edges.length, d.clusters.length)) = some (0, 0, 0) ∧
    -- `#` lines: `# 1 "x.gv"\ndigraph {\n# 5\n}`
    ((parseDot [35, 32, 49, 32, 34, 120, 46, 103, 118, 34, 10, 100, 105, 103, 114, 97, 112, 104, 32, 123, 10, 35, 32, 53, 10, 125]).bind decodeDot).map
        (fun d => (d.main.nodes.length, d.main.edges.length, d.clusters.length)) = some (0, 0, 0) ∧
    -- no `;`, bare names and numerals as IDs, several attribute lists, all separators: `digraph { 0 [label=0] 1 [a=b c=d; e=f, ] [label="1 T3"][] 0 -> 1 [label="x (C#5)"] }`
    ((parseDot [100, 105, 103, 114, 97, 112, 104, 32, 123, 32, 48, 32, 91, 108, 97, 98, 101, 108, 61, 48, 93, 32, 49, 32, 91, 97, 61, 98, 32, 99, 61, 100, 59, 32, 101, 61, 102, 44, 32, 93, 32, 91, 108, 97, 98, 101, 108, 61, 34, 49, 32, 84, 51, 34, 93, 91, 93, 32, 48, 32, 45, 62, 32, 49, 32, 91, 108, 97, 98, 101, 108, 61, 34, 120, 32, 40, 67, 35, 53, 41, 34, 93, 32, 125]).bind decodeDot).map
        (fun d => (d.main.nodes.length, d.main.edges.length, d.clusters.length)) = some (2, 1, 0) ∧
    -- an edge chain is its edges, with the same attributes: `digraph { 0 [label=0] 1 [label=1] 0 -> 1 -> 0 [label="x (C#5)"] }`
    ((parseDot [100, 105, 103, 114, 97, 112, 104, 32, 123, 32, 48, 32, 91, 108, 97, 98, 101, 108, 61, 48, 93, 32, 49, 32, 91, 108, 97, 98, 101, 108, 61, 49, 93, 32, 48, 32, 45, 62, 32, 49, 32, 45, 62, 32, 48, 32, 91, 108, 97, 98, 101, 108, 61, 34, 120, 32, 40, 67, 35, 53, 41, 34, 93, 32, 125]).bind decodeDot).map
        (fun d => (d.main.nodes.length, d.main.edges.length, d.clusters.length)) = some (2, 2, 0) ∧
    -- numerals as values: `digraph { 0 [label=0, w=-1.5, x=.5, y=3., z=-.7] }`
    ((parseDot [100, 105, 103, 114, 97, 112, 104, 32, 123, 32, 48, 32, 91, 108, 97, 98, 101, 108, 61, 48, 44, 32, 119, 61, 45, 49, 46, 53, 44, 32, 120, 61, 46, 53, 44, 32, 121, 61, 51, 46, 44, 32, 122, 61, 45, 46, 55, 93, 32, 125]).bind decodeDot).map
        (fun d => (d.main.nodes.length, d.main.edges.length, d.clusters.length)) = some (1, 0, 0) ∧
    -- blocks and non-cluster subgraphs only group nodes of the enclosing graph; `;` after `}`: `digraph { subgraph { 0 [label=0]; } {1 [label=1]}; SubGraph s {2[label=2]} subgraph cluster_x { label="LA for T3(Neg)" "3_0" [label=0] } }`
    ((parseDot [100, 105, 103, 114, 97, 112, 104, 32, 123, 32, 115, 117, 98, 103, 114, 97, 112, 104, 32, 123, 32, 48, 32, 91, 108, 97, 98, 101, 108, 61, 48, 93, 59, 32, 125, 32, 123, 49, 32, 91, 108, 97, 98, 101, 108, 61, 49, 93, 125, 59, 32, 83, 117, 98, 71, 114, 97, 112, 104, 32, 115, 32, 123, 50, 91, 108, 97, 98, 101, 108, 61, 50, 93, 125, 32, 115, 117, 98, 103, 114, 97, 112, 104, 32, 99, 108, 117, 115, 116, 101, 114, 95, 120, 32, 123, 32, 108, 97, 98, 101, 108, 61, 34, 76, 65, 32, 102, 111, 114, 32, 84, 51, 40, 78, 101, 103, 41, 34, 32, 34, 51, 95, 48, 34, 32, 91, 108, 97, 98, 101, 108, 61, 48, 93, 32, 125, 32, 125]).bind decodeDot).map
        (fun d => (d.main.nodes.length, d.main.edges.length, d.clusters.length)) = some (3, 0, 1) ∧
    -- default attributes; the label of a cluster inside `graph [..]`: `digraph { node [shape=box] edge [a=b]; subgraph clusterA { graph [label="LA for T3(Neg)"] "3_0" [label=0] } }`
    ((parseDot [100, 105, 103, 114, 97, 112, 104, 32, 123, 32, 110, 111, 100, 101, 32, 91, 115, 104, 97, 112, 101, 61, 98, 111, 120, 93, 32, 101, 100, 103, 101, 32, 91, 97, 61, 98, 93, 59, 32, 115, 117, 98, 103, 114, 97, 112, 104, 32, 99, 108, 117, 115, 116, 101, 114, 65, 32, 123, 32, 103, 114, 97, 112, 104, 32, 91, 108, 97, 98, 101, 108, 61, 34, 76, 65, 32, 102, 111, 114, 32, 84, 51, 40, 78, 101, 103, 41, 34, 93, 32, 34, 51, 95, 48, 34, 32, 91, 108, 97, 98, 101, 108, 61, 48, 93, 32, 125, 32, 125]).bind decodeDot).map
        (fun d => (d.main.nodes.length, d.main.edges.length, d.clusters.length)) = some (0, 0, 1) ∧
    -- identifiers with code points from 0x80 on (well-formed, but not a picture of an automaton): `digraph { café_1 -> über }`
    ((parseDot [100, 105, 103, 114, 97, 112, 104, 32, 123, 32, 99, 97, 102, 233, 95, 49, 32, 45, 62, 32, 252, 98, 101, 114, 32, 125]).isSome = true ∧
      (parseDot [100, 105, 103, 114, 97, 112, 104, 32, 123, 32, 99, 97, 102, 233, 95, 49, 32, 45, 62, 32, 252, 98, 101, 114, 32, 125]).bind decodeDot = none) := by
  decide

/-- an edge chain `0 -> 1 -> 0 [label=..]` is the two edges, and the nodes of blocks and
    non-cluster subgraphs belong to the enclosing graph, in the order of the file -/
theorem decodeDot_chain_and_blocks :
    (parseDot [100, 105, 103, 114, 97, 112, 104, 32, 123, 32, 48, 32, 91, 108, 97, 98, 101, 108, 61, 48, 93, 32, 123, 32, 49, 32, 91, 108, 97, 98, 101, 108, 61, 34, 49, 32, 84, 52, 34, 93, 32, 125, 32, 48, 32, 45, 62, 32, 49, 32, 45, 62, 32, 48, 32, 91, 108, 97, 98, 101, 108, 61, 34, 120, 32, 40, 67, 35, 53, 41, 34, 93, 32, 125]).bind decodeDot
      = some ⟨⟨[⟨0, 1, 0⟩, ⟨1, 2, 4⟩], [⟨0, 1, 5⟩, ⟨1, 0, 5⟩]⟩, []⟩ := by
  decide

/-! ## Non-vacuity: a document written out literally -/

/-- ```
digraph {
  label="M: a|b...";
  rankdir=LR;
  "0" [shape=circle, color=blue, penwidth=3, label="0"];
  "1" [label="1"];
  "2" [shape=circle, color=red, penwidth=3, label="2 T7"];
  "3" [label="3"];
  "4" [shape=circle, color=red, penwidth=3, label="4 T12"];
  "0" -> "1" [label="a (C#0)"];
  "0" -> "3" [label="[a-z] (C#10)"];
  "1" -> "2" [label="\" (C#3)"];
  "3" -> "4" [label="\\ (C#2)"];
  "3" -> "3" [label="a (C#0)"];
  subgraph cluster_0 {
    label="LA for T7(Pos)";
    "7_0" [shape=circle, color=blue, penwidth=3, label="0"];
    "7_1" [shape=circle, color=red, penwidth=3, label="1 T0"];
    "7_0" -> "7_1" [label="a (C#0)"];
  }
}
``` -/
def exText : List Nat := [
    100, 105, 103, 114, 97, 112, 104, 32, 123, 10, 32, 32, 108, 97, 98, 101, 108, 61, 34, 77, 58,
    32, 97, 124, 98, 46, 46, 46, 34, 59, 10, 32, 32, 114, 97, 110, 107, 100, 105, 114, 61, 76, 82,
    59, 10, 32, 32, 34, 48, 34, 32, 91, 115, 104, 97, 112, 101, 61, 99, 105, 114, 99, 108, 101, 44,
    32, 99, 111, 108, 111, 114, 61, 98, 108, 117, 101, 44, 32, 112, 101, 110, 119, 105, 100, 116,
    104, 61, 51, 44, 32, 108, 97, 98, 101, 108, 61, 34, 48, 34, 93, 59, 10, 32, 32, 34, 49, 34, 32,
    91, 108, 97, 98, 101, 108, 61, 34, 49, 34, 93, 59, 10, 32, 32, 34, 50, 34, 32, 91, 115, 104,
    97, 112, 101, 61, 99, 105, 114, 99, 108, 101, 44, 32, 99, 111, 108, 111, 114, 61, 114, 101,
    100, 44, 32, 112, 101, 110, 119, 105, 100, 116, 104, 61, 51, 44, 32, 108, 97, 98, 101, 108, 61,
    34, 50, 32, 84, 55, 34, 93, 59, 10, 32, 32, 34, 51, 34, 32, 91, 108, 97, 98, 101, 108, 61, 34,
    51, 34, 93, 59, 10, 32, 32, 34, 52, 34, 32, 91, 115, 104, 97, 112, 101, 61, 99, 105, 114, 99,
    108, 101, 44, 32, 99, 111, 108, 111, 114, 61, 114, 101, 100, 44, 32, 112, 101, 110, 119, 105,
    100, 116, 104, 61, 51, 44, 32, 108, 97, 98, 101, 108, 61, 34, 52, 32, 84, 49, 50, 34, 93, 59,
    10, 32, 32, 34, 48, 34, 32, 45, 62, 32, 34, 49, 34, 32, 91, 108, 97, 98, 101, 108, 61, 34, 97,
    32, 40, 67, 35, 48, 41, 34, 93, 59, 10, 32, 32, 34, 48, 34, 32, 45, 62, 32, 34, 51, 34, 32, 91,
    108, 97, 98, 101, 108, 61, 34, 91, 97, 45, 122, 93, 32, 40, 67, 35, 49, 48, 41, 34, 93, 59, 10,
    32, 32, 34, 49, 34, 32, 45, 62, 32, 34, 50, 34, 32, 91, 108, 97, 98, 101, 108, 61, 34, 92, 34,
    32, 40, 67, 35, 51, 41, 34, 93, 59, 10, 32, 32, 34, 51, 34, 32, 45, 62, 32, 34, 52, 34, 32, 91,
    108, 97, 98, 101, 108, 61, 34, 92, 92, 32, 40, 67, 35, 50, 41, 34, 93, 59, 10, 32, 32, 34, 51,
    34, 32, 45, 62, 32, 34, 51, 34, 32, 91, 108, 97, 98, 101, 108, 61, 34, 97, 32, 40, 67, 35, 48,
    41, 34, 93, 59, 10, 32, 32, 115, 117, 98, 103, 114, 97, 112, 104, 32, 99, 108, 117, 115, 116,
    101, 114, 95, 48, 32, 123, 10, 32, 32, 32, 32, 108, 97, 98, 101, 108, 61, 34, 76, 65, 32, 102,
    111, 114, 32, 84, 55, 40, 80, 111, 115, 41, 34, 59, 10, 32, 32, 32, 32, 34, 55, 95, 48, 34, 32,
    91, 115, 104, 97, 112, 101, 61, 99, 105, 114, 99, 108, 101, 44, 32, 99, 111, 108, 111, 114, 61,
    98, 108, 117, 101, 44, 32, 112, 101, 110, 119, 105, 100, 116, 104, 61, 51, 44, 32, 108, 97, 98,
    101, 108, 61, 34, 48, 34, 93, 59, 10, 32, 32, 32, 32, 34, 55, 95, 49, 34, 32, 91, 115, 104, 97,
    112, 101, 61, 99, 105, 114, 99, 108, 101, 44, 32, 99, 111, 108, 111, 114, 61, 114, 101, 100,
    44, 32, 112, 101, 110, 119, 105, 100, 116, 104, 61, 51, 44, 32, 108, 97, 98, 101, 108, 61, 34,
    49, 32, 84, 48, 34, 93, 59, 10, 32, 32, 32, 32, 34, 55, 95, 48, 34, 32, 45, 62, 32, 34, 55, 95,
    49, 34, 32, 91, 108, 97, 98, 101, 108, 61, 34, 97, 32, 40, 67, 35, 48, 41, 34, 93, 59, 10, 32,
    32, 125, 10, 125, 10]

def exDoc : DotDoc :=
  { main := { nodes := [⟨0, 1, 0⟩, ⟨1, 0, 0⟩, ⟨2, 2, 7⟩, ⟨3, 0, 0⟩, ⟨4, 2, 12⟩],
              edges := [⟨0, 1, 0⟩, ⟨0, 3, 10⟩, ⟨1, 2, 3⟩, ⟨3, 4, 2⟩, ⟨3, 3, 0⟩] },
    clusters := [⟨7, true, { nodes := [⟨0, 1, 0⟩, ⟨1, 2, 0⟩], edges := [⟨0, 1, 0⟩] }⟩] }

/-- `M: a|b...` -/
def exTitle : List Nat := [77, 58, 32, 97, 124, 98, 46, 46, 46]

/-- the printed classes: 0 `a`, 2 `\\` (an escaped backslash), 3 `\"` (an escaped quote), 10 `[a-z]` -/
def exEdgeText (cc : Nat) : List Nat :=
  if cc = 0 then [97] else if cc = 2 then [92, 92] else if cc = 3 then [92, 34]
  else if cc = 10 then [91, 97, 45, 122, 93] else []

set_option maxRecDepth 20000 in
/-- the literal text is accepted and denotes `exDoc` -/
theorem exText_decodes : (parseDot exText).bind decodeDot = some exDoc := by decide

set_option maxRecDepth 20000 in
/-- the writer produces exactly the literal text -/
theorem exDoc_renders : renderDot exTitle exEdgeText exDoc = exText := by decide

example : exDoc.textOK = true ∧ strSafe exTitle = true := by decide

set_option maxRecDepth 20000 in
/-- the same document through the writer (by evaluation, independently of the theorem) -/
theorem exDoc_roundtrip : (parseDot (renderDot exTitle exEdgeText exDoc)).bind decodeDot = some exDoc := by
  decide

/-- ... and as an instance of the theorem -/
example : (parseDot (renderDot exTitle exEdgeText exDoc)).bind decodeDot = some exDoc :=
  decodeDot_parseDot_renderDot exTitle exEdgeText exDoc (by decide) (by decide) (by
    intro cc; unfold exEdgeText; split
    · decide
    · split
      · decide
      · split
        · decide
        · split <;> decide)

/-! ## Restyled and rewritten files still decode

`decodeDot` reads the kind of a node from its label and number only and ignores every other
attribute and every graph-level statement other than `label`; `parseDot` accepts the DOT grammar,
not only the layout of the crate's writer. -/

/-- `exText` restyled: other colours, `shape=doublecircle` on accepting nodes, an extra
    `fontname="Helvetica"` on the nodes, `fontsize=10;` graph statements.
```
digraph {
  label="M: a|b...";
  rankdir=LR;
  fontsize=10;
  "0" [shape=circle, color=green, penwidth=2, fontname="Helvetica", label="0"];
  "1" [fontname="Helvetica", label="1"];
  "2" [shape=doublecircle, color=black, fontname="Helvetica", label="2 T7"];
  "3" [label="3", fontname="Helvetica"];
  "4" [shape=doublecircle, color=black, fontname="Helvetica", label="4 T12"];
  "0" -> "1" [label="a (C#0)"];
  "0" -> "3" [label="[a-z] (C#10)"];
  "1" -> "2" [label="\" (C#3)"];
  "3" -> "4" [label="\\ (C#2)"];
  "3" -> "3" [label="a (C#0)"];
  subgraph cluster_0 {
    label="LA for T7(Pos)";
    fontsize=10;
    "7_0" [shape=circle, color=green, fontname="Helvetica", label="0"];
    "7_1" [shape=doublecircle, color=black, fontname="Helvetica", label="1 T0"];
    "7_0" -> "7_1" [label="a (C#0)"];
  }
}
``` -/
def exRestyledText : List Nat := [
    100, 105, 103, 114, 97, 112, 104, 32, 123, 10, 32, 32, 108, 97, 98, 101, 108, 61, 34, 77, 58,
    32, 97, 124, 98, 46, 46, 46, 34, 59, 10, 32, 32, 114, 97, 110, 107, 100, 105, 114, 61, 76, 82,
    59, 10, 32, 32, 102, 111, 110, 116, 115, 105, 122, 101, 61, 49, 48, 59, 10, 32, 32, 34, 48, 34,
    32, 91, 115, 104, 97, 112, 101, 61, 99, 105, 114, 99, 108, 101, 44, 32, 99, 111, 108, 111, 114,
    61, 103, 114, 101, 101, 110, 44, 32, 112, 101, 110, 119, 105, 100, 116, 104, 61, 50, 44, 32,
    102, 111, 110, 116, 110, 97, 109, 101, 61, 34, 72, 101, 108, 118, 101, 116, 105, 99, 97, 34,
    44, 32, 108, 97, 98, 101, 108, 61, 34, 48, 34, 93, 59, 10, 32, 32, 34, 49, 34, 32, 91, 102,
    111, 110, 116, 110, 97, 109, 101, 61, 34, 72, 101, 108, 118, 101, 116, 105, 99, 97, 34, 44, 32,
    108, 97, 98, 101, 108, 61, 34, 49, 34, 93, 59, 10, 32, 32, 34, 50, 34, 32, 91, 115, 104, 97,
    112, 101, 61, 100, 111, 117, 98, 108, 101, 99, 105, 114, 99, 108, 101, 44, 32, 99, 111, 108,
    111, 114, 61, 98, 108, 97, 99, 107, 44, 32, 102, 111, 110, 116, 110, 97, 109, 101, 61, 34, 72,
    101, 108, 118, 101, 116, 105, 99, 97, 34, 44, 32, 108, 97, 98, 101, 108, 61, 34, 50, 32, 84,
    55, 34, 93, 59, 10, 32, 32, 34, 51, 34, 32, 91, 108, 97, 98, 101, 108, 61, 34, 51, 34, 44, 32,
    102, 111, 110, 116, 110, 97, 109, 101, 61, 34, 72, 101, 108, 118, 101, 116, 105, 99, 97, 34,
    93, 59, 10, 32, 32, 34, 52, 34, 32, 91, 115, 104, 97, 112, 101, 61, 100, 111, 117, 98, 108,
    101, 99, 105, 114, 99, 108, 101, 44, 32, 99, 111, 108, 111, 114, 61, 98, 108, 97, 99, 107, 44,
    32, 102, 111, 110, 116, 110, 97, 109, 101, 61, 34, 72, 101, 108, 118, 101, 116, 105, 99, 97,
    34, 44, 32, 108, 97, 98, 101, 108, 61, 34, 52, 32, 84, 49, 50, 34, 93, 59, 10, 32, 32, 34, 48,
    34, 32, 45, 62, 32, 34, 49, 34, 32, 91, 108, 97, 98, 101, 108, 61, 34, 97, 32, 40, 67, 35, 48,
    41, 34, 93, 59, 10, 32, 32, 34, 48, 34, 32, 45, 62, 32, 34, 51, 34, 32, 91, 108, 97, 98, 101,
    108, 61, 34, 91, 97, 45, 122, 93, 32, 40, 67, 35, 49, 48, 41, 34, 93, 59, 10, 32, 32, 34, 49,
    34, 32, 45, 62, 32, 34, 50, 34, 32, 91, 108, 97, 98, 101, 108, 61, 34, 92, 34, 32, 40, 67, 35,
    51, 41, 34, 93, 59, 10, 32, 32, 34, 51, 34, 32, 45, 62, 32, 34, 52, 34, 32, 91, 108, 97, 98,
    101, 108, 61, 34, 92, 92, 32, 40, 67, 35, 50, 41, 34, 93, 59, 10, 32, 32, 34, 51, 34, 32, 45,
    62, 32, 34, 51, 34, 32, 91, 108, 97, 98, 101, 108, 61, 34, 97, 32, 40, 67, 35, 48, 41, 34, 93,
    59, 10, 32, 32, 115, 117, 98, 103, 114, 97, 112, 104, 32, 99, 108, 117, 115, 116, 101, 114, 95,
    48, 32, 123, 10, 32, 32, 32, 32, 108, 97, 98, 101, 108, 61, 34, 76, 65, 32, 102, 111, 114, 32,
    84, 55, 40, 80, 111, 115, 41, 34, 59, 10, 32, 32, 32, 32, 102, 111, 110, 116, 115, 105, 122,
    101, 61, 49, 48, 59, 10, 32, 32, 32, 32, 34, 55, 95, 48, 34, 32, 91, 115, 104, 97, 112, 101,
    61, 99, 105, 114, 99, 108, 101, 44, 32, 99, 111, 108, 111, 114, 61, 103, 114, 101, 101, 110,
    44, 32, 102, 111, 110, 116, 110, 97, 109, 101, 61, 34, 72, 101, 108, 118, 101, 116, 105, 99,
    97, 34, 44, 32, 108, 97, 98, 101, 108, 61, 34, 48, 34, 93, 59, 10, 32, 32, 32, 32, 34, 55, 95,
    49, 34, 32, 91, 115, 104, 97, 112, 101, 61, 100, 111, 117, 98, 108, 101, 99, 105, 114, 99, 108,
    101, 44, 32, 99, 111, 108, 111, 114, 61, 98, 108, 97, 99, 107, 44, 32, 102, 111, 110, 116, 110,
    97, 109, 101, 61, 34, 72, 101, 108, 118, 101, 116, 105, 99, 97, 34, 44, 32, 108, 97, 98, 101,
    108, 61, 34, 49, 32, 84, 48, 34, 93, 59, 10, 32, 32, 32, 32, 34, 55, 95, 48, 34, 32, 45, 62,
    32, 34, 55, 95, 49, 34, 32, 91, 108, 97, 98, 101, 108, 61, 34, 97, 32, 40, 67, 35, 48, 41, 34,
    93, 59, 10, 32, 32, 125, 10, 125, 10]

set_option maxRecDepth 20000 in
theorem exRestyled_decodes : (parseDot exRestyledText).bind decodeDot = some exDoc := by decide

/-- `exText` without any styling of single nodes, with default-attribute statements
    (`graph [..];`, `node [..];`, `edge [..];`), extra attributes on edges and in the cluster, and
    `label` not in last position.
```
digraph {
  graph [fontname="Helvetica"];
  node [shape=box, fontname="Helvetica"];
  edge [fontsize=8];
  label="M: a|b...";
  "0" [label="0"];
  "1" [label="1"];
  "2" [label="2 T7", color=red];
  "3" [label="3"];
  "4" [label="4 T12"];
  "0" -> "1" [color=grey, label="a (C#0)"];
  "0" -> "3" [label="[a-z] (C#10)", fontsize=8];
  "1" -> "2" [label="\" (C#3)"];
  "3" -> "4" [label="\\ (C#2)"];
  "3" -> "3" [label="a (C#0)"];
  subgraph cluster_0 {
    style=dashed;
    label="LA for T7(Pos)";
    node [shape=box];
    "7_0" [label="0"];
    "7_1" [label="1 T0"];
    "7_0" -> "7_1" [label="a (C#0)", fontsize=8];
  }
}
``` -/
def exDefaultsText : List Nat := [
    100, 105, 103, 114, 97, 112, 104, 32, 123, 10, 32, 32, 103, 114, 97, 112, 104, 32, 91, 102,
    111, 110, 116, 110, 97, 109, 101, 61, 34, 72, 101, 108, 118, 101, 116, 105, 99, 97, 34, 93, 59,
    10, 32, 32, 110, 111, 100, 101, 32, 91, 115, 104, 97, 112, 101, 61, 98, 111, 120, 44, 32, 102,
    111, 110, 116, 110, 97, 109, 101, 61, 34, 72, 101, 108, 118, 101, 116, 105, 99, 97, 34, 93, 59,
    10, 32, 32, 101, 100, 103, 101, 32, 91, 102, 111, 110, 116, 115, 105, 122, 101, 61, 56, 93, 59,
    10, 32, 32, 108, 97, 98, 101, 108, 61, 34, 77, 58, 32, 97, 124, 98, 46, 46, 46, 34, 59, 10, 32,
    32, 34, 48, 34, 32, 91, 108, 97, 98, 101, 108, 61, 34, 48, 34, 93, 59, 10, 32, 32, 34, 49, 34,
    32, 91, 108, 97, 98, 101, 108, 61, 34, 49, 34, 93, 59, 10, 32, 32, 34, 50, 34, 32, 91, 108, 97,
    98, 101, 108, 61, 34, 50, 32, 84, 55, 34, 44, 32, 99, 111, 108, 111, 114, 61, 114, 101, 100,
    93, 59, 10, 32, 32, 34, 51, 34, 32, 91, 108, 97, 98, 101, 108, 61, 34, 51, 34, 93, 59, 10, 32,
    32, 34, 52, 34, 32, 91, 108, 97, 98, 101, 108, 61, 34, 52, 32, 84, 49, 50, 34, 93, 59, 10, 32,
    32, 34, 48, 34, 32, 45, 62, 32, 34, 49, 34, 32, 91, 99, 111, 108, 111, 114, 61, 103, 114, 101,
    121, 44, 32, 108, 97, 98, 101, 108, 61, 34, 97, 32, 40, 67, 35, 48, 41, 34, 93, 59, 10, 32, 32,
    34, 48, 34, 32, 45, 62, 32, 34, 51, 34, 32, 91, 108, 97, 98, 101, 108, 61, 34, 91, 97, 45, 122,
    93, 32, 40, 67, 35, 49, 48, 41, 34, 44, 32, 102, 111, 110, 116, 115, 105, 122, 101, 61, 56, 93,
    59, 10, 32, 32, 34, 49, 34, 32, 45, 62, 32, 34, 50, 34, 32, 91, 108, 97, 98, 101, 108, 61, 34,
    92, 34, 32, 40, 67, 35, 51, 41, 34, 93, 59, 10, 32, 32, 34, 51, 34, 32, 45, 62, 32, 34, 52, 34,
    32, 91, 108, 97, 98, 101, 108, 61, 34, 92, 92, 32, 40, 67, 35, 50, 41, 34, 93, 59, 10, 32, 32,
    34, 51, 34, 32, 45, 62, 32, 34, 51, 34, 32, 91, 108, 97, 98, 101, 108, 61, 34, 97, 32, 40, 67,
    35, 48, 41, 34, 93, 59, 10, 32, 32, 115, 117, 98, 103, 114, 97, 112, 104, 32, 99, 108, 117,
    115, 116, 101, 114, 95, 48, 32, 123, 10, 32, 32, 32, 32, 115, 116, 121, 108, 101, 61, 100, 97,
    115, 104, 101, 100, 59, 10, 32, 32, 32, 32, 108, 97, 98, 101, 108, 61, 34, 76, 65, 32, 102,
    111, 114, 32, 84, 55, 40, 80, 111, 115, 41, 34, 59, 10, 32, 32, 32, 32, 110, 111, 100, 101, 32,
    91, 115, 104, 97, 112, 101, 61, 98, 111, 120, 93, 59, 10, 32, 32, 32, 32, 34, 55, 95, 48, 34,
    32, 91, 108, 97, 98, 101, 108, 61, 34, 48, 34, 93, 59, 10, 32, 32, 32, 32, 34, 55, 95, 49, 34,
    32, 91, 108, 97, 98, 101, 108, 61, 34, 49, 32, 84, 48, 34, 93, 59, 10, 32, 32, 32, 32, 34, 55,
    95, 48, 34, 32, 45, 62, 32, 34, 55, 95, 49, 34, 32, 91, 108, 97, 98, 101, 108, 61, 34, 97, 32,
    40, 67, 35, 48, 41, 34, 44, 32, 102, 111, 110, 116, 115, 105, 122, 101, 61, 56, 93, 59, 10, 32,
    32, 125, 10, 125, 10]

set_option maxRecDepth 20000 in
theorem exDefaults_decodes : (parseDot exDefaultsText).bind decodeDot = some exDoc := by decide

/-- The same document as another DOT writer would put it: a leading `/* ... */` comment over two
    lines, `digraph scnr_compiled_automaton {`, tabs for indentation, `graph [rankdir = LR];`,
    blanks around every `=`, `// ...` comment lines, every node statement directly followed by its
    outgoing edges, no semicolon after some statements, the cluster named
    `cluster_lookahead_7` and placed before the main nodes.
```
/* header: compiled automaton of mode M
   (written by another DOT writer) */
digraph scnr_compiled_automaton {
	graph [rankdir = LR];
	label = "M: a|b...";
	subgraph cluster_lookahead_7 {
		label = "LA for T7(Pos)"
		// 2 states
		"7_0" [shape = circle, color = blue, penwidth = 3, label = "0"];
		"7_0" -> "7_1" [label = "a (C#0)"];
		"7_1" [shape = circle, color = red, penwidth = 3, label = "1 T0"];
	}
	// 5 states
	"0" [shape = circle, color = blue, penwidth = 3, label = "0"];
	"0" -> "1" [label = "a (C#0)"];
	"0" -> "3" [label = "[a-z] (C#10)"]
	"1" [label = "1"]
	"1" -> "2" [label = "\" (C#3)"];
	"2" [shape = circle, color = red, penwidth = 3, label = "2 T7"];
	"3" [label = "3"];
	"3" -> "4" [label = "\\ (C#2)"]
	"3" -> "3" [label = "a (C#0)"];
	"4" [shape = circle, color = red, penwidth = 3, label = "4 T12"]
}
``` -/
def exRewrittenText : List Nat := [
    47, 42, 32, 104, 101, 97, 100, 101, 114, 58, 32, 99, 111, 109, 112, 105, 108, 101, 100, 32, 97,
    117, 116, 111, 109, 97, 116, 111, 110, 32, 111, 102, 32, 109, 111, 100, 101, 32, 77, 10, 32,
    32, 32, 40, 119, 114, 105, 116, 116, 101, 110, 32, 98, 121, 32, 97, 110, 111, 116, 104, 101,
    114, 32, 68, 79, 84, 32, 119, 114, 105, 116, 101, 114, 41, 32, 42, 47, 10, 100, 105, 103, 114,
    97, 112, 104, 32, 115, 99, 110, 114, 95, 99, 111, 109, 112, 105, 108, 101, 100, 95, 97, 117,
    116, 111, 109, 97, 116, 111, 110, 32, 123, 10, 9, 103, 114, 97, 112, 104, 32, 91, 114, 97, 110,
    107, 100, 105, 114, 32, 61, 32, 76, 82, 93, 59, 10, 9, 108, 97, 98, 101, 108, 32, 61, 32, 34,
    77, 58, 32, 97, 124, 98, 46, 46, 46, 34, 59, 10, 9, 115, 117, 98, 103, 114, 97, 112, 104, 32,
    99, 108, 117, 115, 116, 101, 114, 95, 108, 111, 111, 107, 97, 104, 101, 97, 100, 95, 55, 32,
    123, 10, 9, 9, 108, 97, 98, 101, 108, 32, 61, 32, 34, 76, 65, 32, 102, 111, 114, 32, 84, 55,
    40, 80, 111, 115, 41, 34, 10, 9, 9, 47, 47, 32, 50, 32, 115, 116, 97, 116, 101, 115, 10, 9, 9,
    34, 55, 95, 48, 34, 32, 91, 115, 104, 97, 112, 101, 32, 61, 32, 99, 105, 114, 99, 108, 101, 44,
    32, 99, 111, 108, 111, 114, 32, 61, 32, 98, 108, 117, 101, 44, 32, 112, 101, 110, 119, 105,
    100, 116, 104, 32, 61, 32, 51, 44, 32, 108, 97, 98, 101, 108, 32, 61, 32, 34, 48, 34, 93, 59,
    10, 9, 9, 34, 55, 95, 48, 34, 32, 45, 62, 32, 34, 55, 95, 49, 34, 32, 91, 108, 97, 98, 101,
    108, 32, 61, 32, 34, 97, 32, 40, 67, 35, 48, 41, 34, 93, 59, 10, 9, 9, 34, 55, 95, 49, 34, 32,
    91, 115, 104, 97, 112, 101, 32, 61, 32, 99, 105, 114, 99, 108, 101, 44, 32, 99, 111, 108, 111,
    114, 32, 61, 32, 114, 101, 100, 44, 32, 112, 101, 110, 119, 105, 100, 116, 104, 32, 61, 32, 51,
    44, 32, 108, 97, 98, 101, 108, 32, 61, 32, 34, 49, 32, 84, 48, 34, 93, 59, 10, 9, 125, 10, 9,
    47, 47, 32, 53, 32, 115, 116, 97, 116, 101, 115, 10, 9, 34, 48, 34, 32, 91, 115, 104, 97, 112,
    101, 32, 61, 32, 99, 105, 114, 99, 108, 101, 44, 32, 99, 111, 108, 111, 114, 32, 61, 32, 98,
    108, 117, 101, 44, 32, 112, 101, 110, 119, 105, 100, 116, 104, 32, 61, 32, 51, 44, 32, 108, 97,
    98, 101, 108, 32, 61, 32, 34, 48, 34, 93, 59, 10, 9, 34, 48, 34, 32, 45, 62, 32, 34, 49, 34,
    32, 91, 108, 97, 98, 101, 108, 32, 61, 32, 34, 97, 32, 40, 67, 35, 48, 41, 34, 93, 59, 10, 9,
    34, 48, 34, 32, 45, 62, 32, 34, 51, 34, 32, 91, 108, 97, 98, 101, 108, 32, 61, 32, 34, 91, 97,
    45, 122, 93, 32, 40, 67, 35, 49, 48, 41, 34, 93, 10, 9, 34, 49, 34, 32, 91, 108, 97, 98, 101,
    108, 32, 61, 32, 34, 49, 34, 93, 10, 9, 34, 49, 34, 32, 45, 62, 32, 34, 50, 34, 32, 91, 108,
    97, 98, 101, 108, 32, 61, 32, 34, 92, 34, 32, 40, 67, 35, 51, 41, 34, 93, 59, 10, 9, 34, 50,
    34, 32, 91, 115, 104, 97, 112, 101, 32, 61, 32, 99, 105, 114, 99, 108, 101, 44, 32, 99, 111,
    108, 111, 114, 32, 61, 32, 114, 101, 100, 44, 32, 112, 101, 110, 119, 105, 100, 116, 104, 32,
    61, 32, 51, 44, 32, 108, 97, 98, 101, 108, 32, 61, 32, 34, 50, 32, 84, 55, 34, 93, 59, 10, 9,
    34, 51, 34, 32, 91, 108, 97, 98, 101, 108, 32, 61, 32, 34, 51, 34, 93, 59, 10, 9, 34, 51, 34,
    32, 45, 62, 32, 34, 52, 34, 32, 91, 108, 97, 98, 101, 108, 32, 61, 32, 34, 92, 92, 32, 40, 67,
    35, 50, 41, 34, 93, 10, 9, 34, 51, 34, 32, 45, 62, 32, 34, 51, 34, 32, 91, 108, 97, 98, 101,
    108, 32, 61, 32, 34, 97, 32, 40, 67, 35, 48, 41, 34, 93, 59, 10, 9, 34, 52, 34, 32, 91, 115,
    104, 97, 112, 101, 32, 61, 32, 99, 105, 114, 99, 108, 101, 44, 32, 99, 111, 108, 111, 114, 32,
    61, 32, 114, 101, 100, 44, 32, 112, 101, 110, 119, 105, 100, 116, 104, 32, 61, 32, 51, 44, 32,
    108, 97, 98, 101, 108, 32, 61, 32, 34, 52, 32, 84, 49, 50, 34, 93, 10, 125, 10]

set_option maxRecDepth 20000 in
theorem exRewritten_decodes : (parseDot exRewrittenText).bind decodeDot = some exDoc := by decide

/-- What is not cosmetic is still checked: each of these texts is well-formed (it parses) but does
    not decode. -/
theorem decodeDot_still_strict :
    -- a node label that disagrees with the node number: `digraph { "1" [label="2"]; }`
    ((parseDot [100, 105, 103, 114, 97, 112, 104, 32, 123, 32, 34, 49, 34, 32, 91, 108, 97, 98, 101, 108, 61, 34, 50, 34, 93, 59, 32, 125]).isSome = true ∧
      (parseDot [100, 105, 103, 114, 97, 112, 104, 32, 123, 32, 34, 49, 34, 32, 91, 108, 97, 98, 101, 108, 61, 34, 50, 34, 93, 59, 32, 125]).bind decodeDot = none) ∧
    -- an accepting label with another number in front: `digraph { "1" [label="2 T3"]; }`
    ((parseDot [100, 105, 103, 114, 97, 112, 104, 32, 123, 32, 34, 49, 34, 32, 91, 108, 97, 98, 101, 108, 61, 34, 50, 32, 84, 51, 34, 93, 59, 32, 125]).isSome = true ∧
      (parseDot [100, 105, 103, 114, 97, 112, 104, 32, 123, 32, 34, 49, 34, 32, 91, 108, 97, 98, 101, 108, 61, 34, 50, 32, 84, 51, 34, 93, 59, 32, 125]).bind decodeDot = none) ∧
    -- a node without label: `digraph { "0" [color=blue]; }`
    ((parseDot [100, 105, 103, 114, 97, 112, 104, 32, 123, 32, 34, 48, 34, 32, 91, 99, 111, 108, 111, 114, 61, 98, 108, 117, 101, 93, 59, 32, 125]).isSome = true ∧
      (parseDot [100, 105, 103, 114, 97, 112, 104, 32, 123, 32, 34, 48, 34, 32, 91, 99, 111, 108, 111, 114, 61, 98, 108, 117, 101, 93, 59, 32, 125]).bind decodeDot = none) ∧
    -- an accepting label without token type: `digraph { "1" [label="1 T"]; }`
    ((parseDot [100, 105, 103, 114, 97, 112, 104, 32, 123, 32, 34, 49, 34, 32, 91, 108, 97, 98, 101, 108, 61, 34, 49, 32, 84, 34, 93, 59, 32, 125]).isSome = true ∧
      (parseDot [100, 105, 103, 114, 97, 112, 104, 32, 123, 32, 34, 49, 34, 32, 91, 108, 97, 98, 101, 108, 61, 34, 49, 32, 84, 34, 93, 59, 32, 125]).bind decodeDot = none) ∧
    -- an edge without class id: `digraph { "0" [label="0"]; "0" -> "0" [label="a"]; }`
    ((parseDot [100, 105, 103, 114, 97, 112, 104, 32, 123, 32, 34, 48, 34, 32, 91, 108, 97, 98, 101, 108, 61, 34, 48, 34, 93, 59, 32, 34, 48, 34, 32, 45, 62, 32, 34, 48, 34, 32, 91, 108, 97, 98, 101, 108, 61, 34, 97, 34, 93, 59, 32, 125]).isSome = true ∧
      (parseDot [100, 105, 103, 114, 97, 112, 104, 32, 123, 32, 34, 48, 34, 32, 91, 108, 97, 98, 101, 108, 61, 34, 48, 34, 93, 59, 32, 34, 48, 34, 32, 45, 62, 32, 34, 48, 34, 32, 91, 108, 97, 98, 101, 108, 61, 34, 97, 34, 93, 59, 32, 125]).bind decodeDot = none) ∧
    -- an edge without label: `digraph { "0" [label="0"]; "0" -> "0" [color=red]; }`
    ((parseDot [100, 105, 103, 114, 97, 112, 104, 32, 123, 32, 34, 48, 34, 32, 91, 108, 97, 98, 101, 108, 61, 34, 48, 34, 93, 59, 32, 34, 48, 34, 32, 45, 62, 32, 34, 48, 34, 32, 91, 99, 111, 108, 111, 114, 61, 114, 101, 100, 93, 59, 32, 125]).isSome = true ∧
      (parseDot [100, 105, 103, 114, 97, 112, 104, 32, 123, 32, 34, 48, 34, 32, 91, 108, 97, 98, 101, 108, 61, 34, 48, 34, 93, 59, 32, 34, 48, 34, 32, 45, 62, 32, 34, 48, 34, 32, 91, 99, 111, 108, 111, 114, 61, 114, 101, 100, 93, 59, 32, 125]).bind decodeDot = none) ∧
    -- a node name that is not a number: `digraph { "n0" [label="0"]; }`
    ((parseDot [100, 105, 103, 114, 97, 112, 104, 32, 123, 32, 34, 110, 48, 34, 32, 91, 108, 97, 98, 101, 108, 61, 34, 48, 34, 93, 59, 32, 125]).isSome = true ∧
      (parseDot [100, 105, 103, 114, 97, 112, 104, 32, 123, 32, 34, 110, 48, 34, 32, 91, 108, 97, 98, 101, 108, 61, 34, 48, 34, 93, 59, 32, 125]).bind decodeDot = none) ∧
    -- a cluster without label: `digraph { subgraph cluster_0 { "7_0" [label="0"]; } }`
    ((parseDot [100, 105, 103, 114, 97, 112, 104, 32, 123, 32, 115, 117, 98, 103, 114, 97, 112, 104, 32, 99, 108, 117, 115, 116, 101, 114, 95, 48, 32, 123, 32, 34, 55, 95, 48, 34, 32, 91, 108, 97, 98, 101, 108, 61, 34, 48, 34, 93, 59, 32, 125, 32, 125]).isSome = true ∧
      (parseDot [100, 105, 103, 114, 97, 112, 104, 32, 123, 32, 115, 117, 98, 103, 114, 97, 112, 104, 32, 99, 108, 117, 115, 116, 101, 114, 95, 48, 32, 123, 32, 34, 55, 95, 48, 34, 32, 91, 108, 97, 98, 101, 108, 61, 34, 48, 34, 93, 59, 32, 125, 32, 125]).bind decodeDot = none) ∧
    -- a cluster whose nodes do not carry its token type: `digraph { subgraph cluster_0 { label="LA for T7(Pos)"; "8_0" [label="0"]; } }`
    ((parseDot [100, 105, 103, 114, 97, 112, 104, 32, 123, 32, 115, 117, 98, 103, 114, 97, 112, 104, 32, 99, 108, 117, 115, 116, 101, 114, 95, 48, 32, 123, 32, 108, 97, 98, 101, 108, 61, 34, 76, 65, 32, 102, 111, 114, 32, 84, 55, 40, 80, 111, 115, 41, 34, 59, 32, 34, 56, 95, 48, 34, 32, 91, 108, 97, 98, 101, 108, 61, 34, 48, 34, 93, 59, 32, 125, 32, 125]).isSome = true ∧
      (parseDot [100, 105, 103, 114, 97, 112, 104, 32, 123, 32, 115, 117, 98, 103, 114, 97, 112, 104, 32, 99, 108, 117, 115, 116, 101, 114, 95, 48, 32, 123, 32, 108, 97, 98, 101, 108, 61, 34, 76, 65, 32, 102, 111, 114, 32, 84, 55, 40, 80, 111, 115, 41, 34, 59, 32, 34, 56, 95, 48, 34, 32, 91, 108, 97, 98, 101, 108, 61, 34, 48, 34, 93, 59, 32, 125, 32, 125]).bind decodeDot = none) := by
  decide

/-! ## A file the crate wrote: `example1.dot` -/

/-- ```
digraph {
  label="Veryl_Embed_: \\{\\}[^{}]*....";
  rankdir=LR;
  "0" [shape=circle, color=blue, penwidth=3, label="0"];
  "1" [shape=circle, color=red, penwidth=3, label="1 T40"];
  "2" [shape=circle, color=red, penwidth=3, label="2 T44"];
  "3" [shape=circle, color=red, penwidth=3, label="3 T117"];
  "4" [shape=circle, color=red, penwidth=3, label="4 T118"];
  "0" -> "4" [label=". (C#4)"];
  "0" -> "1" [label="\\{ (C#42)"];
  "0" -> "2" [label="\\} (C#45)"];
  "0" -> "3" [label="[^{}] (C#78)"];
  "3" -> "3" [label="[^{}] (C#78)"];
}
``` -/
def example1Text : List Nat := [
    100, 105, 103, 114, 97, 112, 104, 32, 123, 10, 32, 32, 108, 97, 98, 101, 108, 61, 34, 86, 101,
    114, 121, 108, 95, 69, 109, 98, 101, 100, 95, 58, 32, 92, 92, 123, 92, 92, 125, 91, 94, 123,
    125, 93, 42, 46, 46, 46, 46, 34, 59, 10, 32, 32, 114, 97, 110, 107, 100, 105, 114, 61, 76, 82,
    59, 10, 32, 32, 34, 48, 34, 32, 91, 115, 104, 97, 112, 101, 61, 99, 105, 114, 99, 108, 101, 44,
    32, 99, 111, 108, 111, 114, 61, 98, 108, 117, 101, 44, 32, 112, 101, 110, 119, 105, 100, 116,
    104, 61, 51, 44, 32, 108, 97, 98, 101, 108, 61, 34, 48, 34, 93, 59, 10, 32, 32, 34, 49, 34, 32,
    91, 115, 104, 97, 112, 101, 61, 99, 105, 114, 99, 108, 101, 44, 32, 99, 111, 108, 111, 114, 61,
    114, 101, 100, 44, 32, 112, 101, 110, 119, 105, 100, 116, 104, 61, 51, 44, 32, 108, 97, 98,
    101, 108, 61, 34, 49, 32, 84, 52, 48, 34, 93, 59, 10, 32, 32, 34, 50, 34, 32, 91, 115, 104, 97,
    112, 101, 61, 99, 105, 114, 99, 108, 101, 44, 32, 99, 111, 108, 111, 114, 61, 114, 101, 100,
    44, 32, 112, 101, 110, 119, 105, 100, 116, 104, 61, 51, 44, 32, 108, 97, 98, 101, 108, 61, 34,
    50, 32, 84, 52, 52, 34, 93, 59, 10, 32, 32, 34, 51, 34, 32, 91, 115, 104, 97, 112, 101, 61, 99,
    105, 114, 99, 108, 101, 44, 32, 99, 111, 108, 111, 114, 61, 114, 101, 100, 44, 32, 112, 101,
    110, 119, 105, 100, 116, 104, 61, 51, 44, 32, 108, 97, 98, 101, 108, 61, 34, 51, 32, 84, 49,
    49, 55, 34, 93, 59, 10, 32, 32, 34, 52, 34, 32, 91, 115, 104, 97, 112, 101, 61, 99, 105, 114,
    99, 108, 101, 44, 32, 99, 111, 108, 111, 114, 61, 114, 101, 100, 44, 32, 112, 101, 110, 119,
    105, 100, 116, 104, 61, 51, 44, 32, 108, 97, 98, 101, 108, 61, 34, 52, 32, 84, 49, 49, 56, 34,
    93, 59, 10, 32, 32, 34, 48, 34, 32, 45, 62, 32, 34, 52, 34, 32, 91, 108, 97, 98, 101, 108, 61,
    34, 46, 32, 40, 67, 35, 52, 41, 34, 93, 59, 10, 32, 32, 34, 48, 34, 32, 45, 62, 32, 34, 49, 34,
    32, 91, 108, 97, 98, 101, 108, 61, 34, 92, 92, 123, 32, 40, 67, 35, 52, 50, 41, 34, 93, 59, 10,
    32, 32, 34, 48, 34, 32, 45, 62, 32, 34, 50, 34, 32, 91, 108, 97, 98, 101, 108, 61, 34, 92, 92,
    125, 32, 40, 67, 35, 52, 53, 41, 34, 93, 59, 10, 32, 32, 34, 48, 34, 32, 45, 62, 32, 34, 51,
    34, 32, 91, 108, 97, 98, 101, 108, 61, 34, 91, 94, 123, 125, 93, 32, 40, 67, 35, 55, 56, 41,
    34, 93, 59, 10, 32, 32, 34, 51, 34, 32, 45, 62, 32, 34, 51, 34, 32, 91, 108, 97, 98, 101, 108,
    61, 34, 91, 94, 123, 125, 93, 32, 40, 67, 35, 55, 56, 41, 34, 93, 59, 10, 125, 10]

def example1Doc : DotDoc :=
  { main := { nodes := [⟨0, 1, 0⟩, ⟨1, 2, 40⟩, ⟨2, 2, 44⟩, ⟨3, 2, 117⟩, ⟨4, 2, 118⟩],
              edges := [⟨0, 4, 4⟩, ⟨0, 1, 42⟩, ⟨0, 2, 45⟩, ⟨0, 3, 78⟩, ⟨3, 3, 78⟩] },
    clusters := [] }

set_option maxRecDepth 20000 in
theorem example1_decodes : (parseDot example1Text).bind decodeDot = some example1Doc := by decide

/-- `Veryl_Embed_: \\{\\}[^{}]*....` as written in the file (backslashes doubled) -/
def example1Title : List Nat := [86, 101, 114, 121, 108, 95, 69, 109, 98, 101, 100, 95, 58, 32, 92, 92, 123, 92, 92, 125, 91, 94, 123, 125, 93, 42, 46, 46, 46, 46]

/-- the printed classes of the file: 4 `.`, 42 `\\{`, 45 `\\}`, 78 `[^{}]` -/
def example1EdgeText (cc : Nat) : List Nat :=
  if cc = 4 then [46] else if cc = 42 then [92, 92, 123] else if cc = 45 then [92, 92, 125]
  else if cc = 78 then [91, 94, 123, 125, 93] else []

set_option maxRecDepth 20000 in
/-- `renderDot` reproduces the file character by character -/
theorem example1_renders : renderDot example1Title example1EdgeText example1Doc = example1Text := by decide

/-! ## The fuel of the parser is never the reason for a verdict -/

theorem consAttr_some {kv x as r} (h : consAttr kv x = some (as, r)) : ∃ as', x = some (as', r) := by
  cases x with
  | none => simp [consAttr] at h
  | some p => obtain ⟨a, b⟩ := p; simp [consAttr] at h; exact ⟨a, by rw [h.2]⟩

theorem pAList_len (sep : Bool) (ts : List DTok) : ∀ as r, pAList sep ts = some (as, r) → r.length < ts.length := by
  fun_induction pAList sep ts <;> intro as r h <;> simp_all <;> (try omega)
  rename_i ih
  obtain ⟨as', h'⟩ := consAttr_some h
  have := ih _ _ h'
  omega

theorem pOptAttrs_len (ts : List DTok) (as r) (h : pOptAttrs ts = some (as, r)) : r.length ≤ ts.length := by
  unfold pOptAttrs at h
  split at h
  · have := pAList_len _ _ _ _ h; simp; omega
  · simp at h; rw [← h.2]; omega

theorem pTargets_len (ts : List DTok) : ∀ bs r, pTargets ts = some (bs, r) → r.length ≤ ts.length := by
  fun_induction pTargets ts <;> intro bs r h <;> simp_all <;> (try omega)

theorem pNamed_len (a : List Nat) (ts : List DTok) (sts r) (h : pNamed a ts = some (sts, r)) :
    r.length ≤ ts.length := by
  unfold pNamed at h
  split at h
  · split at h
    · simp at h; rw [← h.2]; simp; omega
    · simp at h
  · split at h
    · simp at h
    · rename_i bs r1 h1
      have l1 := pTargets_len _ _ _ h1
      split at h
      · simp at h
      · rename_i as r2 h2
        have l2 := pOptAttrs_len _ _ _ h2
        simp at h; rw [← h.2]; omega

theorem pDflt_len (w : List Nat) (ts : List DTok) (sts r) (h : pDflt w ts = some (sts, r)) :
    r.length < ts.length := by
  unfold pDflt at h
  split at h
  · split at h
    · rename_i heq
      have := pAList_len _ _ _ _ heq
      simp at h; rw [← h.2]; simp; omega
    · simp at h
  · simp at h

theorem pSimple_len (t : DTok) (ts : List DTok) (sts r) (h : pSimple t ts = some (sts, r)) :
    r.length ≤ ts.length := by
  unfold pSimple at h
  split at h
  · split at h
    · have := pDflt_len _ _ _ _ h; omega
    · split at h
      · simp at h
      · exact pNamed_len _ _ _ _ h
  · exact pNamed_len _ _ _ _ h
  · simp at h

theorem pSubHead_len (ts : List DTok) (n r) (h : pSubHead ts = some (n, r)) : r.length < ts.length := by
  unfold pSubHead at h
  split at h
  · simp at h; rw [← h.2]; simp
  · split at h
    · simp at h; rw [← h.2]; simp; omega
    · simp at h
  · simp at h

theorem dropSemi_len (ts : List DTok) : (dropSemi ts).length ≤ ts.length := by
  unfold dropSemi
  split
  · simp
  · omega

theorem pStmts_len : ∀ (f : Nat) (ts : List DTok) ss r, pStmts f ts = some (ss, r) → r.length < ts.length := by
  intro f
  induction f with
  | zero => intro ts ss r h; simp [pStmts] at h
  | succ f ih =>
    intro ts ss r h
    cases ts with
    | nil => simp [pStmts] at h
    | cons t rest =>
      simp only [pStmts] at h
      split at h
      · simp at h; rw [← h.2]; simp
      · split at h
        · simp at h
        · rename_i body r2 h2
          have l2 := ih _ _ _ h2
          have := dropSemi_len r2
          split at h
          · simp at h
          · rename_i ss' r3 h3
            have l3 := ih _ _ _ h3
            simp at h; rw [← h.2]; simp; omega
      · split at h
        · split at h
          · simp at h
          · rename_i name r1 h1
            have l1 := pSubHead_len _ _ _ h1
            split at h
            · simp at h
            · rename_i body r2 h2
              have l2 := ih _ _ _ h2
              have := dropSemi_len r2
              split at h
              · simp at h
              · rename_i ss' r3 h3
                have l3 := ih _ _ _ h3
                simp at h; rw [← h.2]; simp; omega
        · split at h
          · simp at h
          · rename_i sts r1 h1
            have l1 := pSimple_len _ _ _ _ h1
            have := dropSemi_len r1
            split at h
            · simp at h
            · rename_i ss' r2 h2
              have l2 := ih _ _ _ h2
              simp at h; rw [← h.2]; simp; omega

/-- Fuel beyond the number of tokens changes nothing: the fuel of `parseToks` never makes the
    parser reject (or accept) anything. -/
theorem pStmts_fuel : ∀ (f : Nat) (ts : List DTok), ts.length < f → ∀ f', f ≤ f' → pStmts f' ts = pStmts f ts := by
  intro f
  induction f with
  | zero => intro ts h; omega
  | succ f ih =>
    intro ts hlen f' hf'
    obtain ⟨g, rfl⟩ : ∃ g, f' = g + 1 := ⟨f' - 1, by omega⟩
    have hg : f ≤ g := by omega
    cases ts with
    | nil => rfl
    | cons t rest =>
      simp only [List.length_cons] at hlen
      simp only [pStmts]
      split
      · rfl
      · rw [ih rest (by omega) g hg]
        cases h2 : pStmts f rest with
        | none => rfl
        | some q =>
          obtain ⟨body, r2⟩ := q
          have l2 := pStmts_len _ _ _ _ h2
          have := dropSemi_len r2
          simp only
          rw [ih (dropSemi r2) (by omega) g hg]
      · split
        · cases h1 : pSubHead rest with
          | none => rfl
          | some p =>
            obtain ⟨name, r1⟩ := p
            have l1 := pSubHead_len _ _ _ h1
            simp only
            rw [ih r1 (by omega) g hg]
            cases h2 : pStmts f r1 with
            | none => rfl
            | some q =>
              obtain ⟨body, r2⟩ := q
              have l2 := pStmts_len _ _ _ _ h2
              have := dropSemi_len r2
              simp only
              rw [ih (dropSemi r2) (by omega) g hg]
        · cases h1 : pSimple t rest with
          | none => rfl
          | some p =>
            obtain ⟨sts, r1⟩ := p
            have l1 := pSimple_len _ _ _ _ h1
            have := dropSemi_len r1
            simp only
            rw [ih (dropSemi r1) (by omega) g hg]


/-- `parseBody` runs `pStmts` with `r.length + 2` units of fuel; any larger amount gives the same
    result, so the parser behaves like an unbounded recursive descent. -/
theorem parseToks_fuel (r : List DTok) (extra : Nat) :
    pStmts (r.length + 2 + extra) r = pStmts (r.length + 2) r :=
  pStmts_fuel (r.length + 2) r (by omega) _ (by omega)

/-! ## The documents of C18 -/

theorem nodeOK_nodeOf (A : Dfa) (id : Nat) : NodeOK (nodeOf A id) := by
  unfold nodeOf
  split
  · simp [NodeOK]
  · split <;> simp [NodeOK, *]

theorem graphOK_dotGraph (A : Dfa) : GraphOK (dotGraph A) := by
  intro n hn
  simp only [dotGraph, List.mem_map] at hn
  obtain ⟨i, _, rfl⟩ := hn
  exact nodeOK_nodeOf A i

theorem docOK_dotDoc (M : ModeDfa) : DocOK (dotDoc M) := by
  refine ⟨graphOK_dotGraph _, ?_⟩
  intro c hc
  simp only [dotDoc, List.mem_map] at hc
  obtain ⟨p, _, rfl⟩ := hc
  exact graphOK_dotGraph _

/-- The file written for a compiled mode (the structured document of `Model/Dot.lean`, whose
    decoding `C18.picture_is_faithful` relates to the automata) reads back as that document — for
    every mode, without any assumption on the automata. -/
theorem decodeDot_parseDot_renderDot_dotDoc (title : List Nat) (edgeText : Nat → List Nat) (M : ModeDfa)
    (ht : strSafe title = true) (he : ∀ cc, strSafe (edgeText cc) = true) :
    (parseDot (renderDot title edgeText (dotDoc M))).bind decodeDot = some (dotDoc M) :=
  decodeDot_parseDot_renderDot_of_docOK title edgeText (dotDoc M) (docOK_dotDoc M) ht he

/-! ## The keywords are the strings they stand for -/

def cps (s : String) : List Nat := s.toList.map Char.toNat

theorem keywords_spelled :
    kwDigraph = cps "digraph" ∧ kwSubgraph = cps "subgraph" ∧ kwClusterPre = cps "cluster_" ∧
    kwLabel = cps "label" ∧ kwColor = cps "color" ∧ kwBlue = cps "blue" ∧ kwRed = cps "red" ∧
    kwShape = cps "shape" ∧ kwCircle = cps "circle" ∧ kwPenwidth = cps "penwidth" ∧ kwThree = cps "3" ∧
    kwRankdir = cps "rankdir" ∧ kwLR = cps "LR" ∧ kwClassOpen = cps " (C#" ∧ kwLaFor = cps "LA for T" ∧
    kwPos = cps "Pos)" ∧ kwNeg = cps "Neg)" ∧
    kwNode = cps "node" ∧ kwEdge = cps "edge" ∧ kwGraph = cps "graph" ∧
    kwStrict = cps "strict" ∧ kwCluster = cps "cluster" ∧
    txtShapeColor = cps "shape=circle, color=" ∧ txtPenLabel = cps ", penwidth=3, label=" ∧
    txtLabelEq = cps "label=" ∧ ind2 = cps "  " ∧ ind4 = cps "    " ∧
    exTitle = cps "M: a|b..." := by
  decide

end Scnr
