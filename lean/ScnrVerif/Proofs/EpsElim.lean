import ScnrVerif.Proofs.Worklist
import ScnrVerif.Proofs.Thompson
import ScnrVerif.Proofs.FindFrom
/-!
# The closure construction (`impl From<MultiPatternNfa> for CompiledDfa`) is correct (track A)

The compiled automaton has one state per ε-closure of a single NFA state; it accepts a non-empty
word for a terminal exactly if the NFA of some pattern with that terminal accepts it.
-/
namespace Scnr

/-! ### membership lemmas for the list plumbing -/

theorem mem_insertByTarget (x y : Nat × Nat) (l : List (Nat × Nat)) :
    y ∈ insertByTarget x l ↔ y = x ∨ y ∈ l := by
  induction l with
  | nil => simp [insertByTarget]
  | cons z r ih =>
    simp only [insertByTarget]
    split
    · simp
    · simp only [List.mem_cons, ih]
      constructor
      · rintro (h | h | h) <;> simp [h]
      · rintro (h | h | h) <;> simp [h]

theorem mem_sortByTarget_aux (l acc : List (Nat × Nat)) (y : Nat × Nat) :
    y ∈ l.foldl (fun acc x => insertByTarget x acc) acc ↔ y ∈ acc ∨ y ∈ l := by
  induction l generalizing acc with
  | nil => simp
  | cons x r ih =>
    simp only [List.foldl_cons, ih, mem_insertByTarget, List.mem_cons]
    constructor
    · rintro ((h | h) | h) <;> simp [h]
    · rintro (h | h | h) <;> simp [h]

theorem mem_sortByTarget (l : List (Nat × Nat)) (y : Nat × Nat) : y ∈ sortByTarget l ↔ y ∈ l := by
  simp [sortByTarget, mem_sortByTarget_aux]

theorem mem_dedupAdj (l : List (Nat × Nat)) (y : Nat × Nat) : y ∈ dedupAdj l ↔ y ∈ l := by
  fun_induction dedupAdj l with
  | case1 => simp
  | case2 x => simp
  | case3 x r ih =>
    simp only [ih, List.mem_cons]
    constructor
    · rintro (h | h) <;> simp [h]
    · rintro (h | h | h) <;> simp [h]
  | case4 x z r h ih => simp only [List.mem_cons, ih]

/-- the class transitions leaving NFA state `s` (state 0: those of every pattern's start state) -/
def MNfa.transOf (m : MNfa) (s : Nat) : List (Nat × Nat) :=
  if s = 0 then m.flatMap fun p => (p.2.state p.2.start).trans
  else match m.findNfa s with
    | some p => (p.2.state s).trans
    | none => []

theorem mem_matchTransitions (m : MNfa) (cl : List Nat) (x : Nat × Nat) :
    x ∈ m.matchTransitions cl ↔ ∃ s ∈ cl, x ∈ m.transOf s := by
  simp only [MNfa.matchTransitions, mem_dedupAdj, mem_sortByTarget, List.mem_flatMap, MNfa.transOf]
  exact Iff.rfl

/-! ### well-formed multi-pattern NFAs -/

structure MWF (m : MNfa) : Prop where
  wf : ∀ p ∈ m, p.2.WF
  pos : ∀ p ∈ m, 1 ≤ p.2.base
  bound : ∀ p ∈ m, p.2.base + p.2.states.length ≤ totalStates m
  disj : m.Pairwise fun p q => p.2.base + p.2.states.length ≤ q.2.base

theorem contains_iff (n : Nfa) (s : Nat) : n.contains s = true ↔ n.base ≤ s ∧ s < n.base + n.states.length := by
  simp [Nfa.contains]

theorem findNfa_of_pairwise (m : MNfa)
    (hd : m.Pairwise fun p q => p.2.base + p.2.states.length ≤ q.2.base)
    (p : Nat × Nfa) (hp : p ∈ m) (s : Nat) (hs : p.2.contains s = true) : m.findNfa s = some p := by
  induction m with
  | nil => cases hp
  | cons q r ih =>
    rw [List.pairwise_cons] at hd
    simp only [MNfa.findNfa, List.find?_cons]
    rcases List.mem_cons.mp hp with rfl | hp'
    · simp [hs]
    · have hlt := hd.1 p hp'
      have hs' := (contains_iff _ _).mp hs
      have : q.2.contains s = false := by
        cases hq : q.2.contains s with
        | false => rfl
        | true => have := (contains_iff _ _).mp hq; omega
      simp only [this]
      exact ih hd.2 hp'

theorem findNfa_eq {m : MNfa} (hm : MWF m) {p : Nat × Nfa} (hp : p ∈ m) {s : Nat}
    (hs : p.2.contains s = true) : m.findNfa s = some p :=
  findNfa_of_pairwise m hm.disj p hp s hs

theorem findNfa_some {m : MNfa} {s : Nat} {p : Nat × Nfa} (h : m.findNfa s = some p) :
    p ∈ m ∧ p.2.contains s = true := by
  simp only [MNfa.findNfa] at h
  exact ⟨List.mem_of_find?_eq_some h, by simpa using List.find?_some h⟩

/-- a state of some pattern NFA -/
def MNfa.Valid (m : MNfa) (s : Nat) : Prop := ∃ p ∈ m, p.2.contains s = true

theorem valid_pos {m : MNfa} (hm : MWF m) {s : Nat} (h : m.Valid s) : 1 ≤ s := by
  obtain ⟨p, hp, hs⟩ := h
  have := hm.pos p hp
  have := (contains_iff _ _).mp hs
  omega

theorem valid_lt {m : MNfa} (hm : MWF m) {s : Nat} (h : m.Valid s) : s < totalStates m := by
  obtain ⟨p, hp, hs⟩ := h
  have := hm.bound p hp
  have := (contains_iff _ _).mp hs
  omega

theorem mclosure_valid {m : MNfa} (hm : MWF m) {p : Nat × Nfa} (hp : p ∈ m) {s : Nat}
    (hs : p.2.contains s = true) : m.epsClosure s = p.2.epsClosure s := by
  have h1 : 1 ≤ s := valid_pos hm ⟨p, hp, hs⟩
  have : s ≠ 0 := by omega
  simp [MNfa.epsClosure, this, findNfa_eq hm hp hs]

theorem mem_mclosure_valid {m : MNfa} (hm : MWF m) {p : Nat × Nfa} (hp : p ∈ m) {s : Nat}
    (hs : p.2.contains s = true) (y : Nat) : y ∈ m.epsClosure s ↔ p.2.EpsReach s y := by
  rw [mclosure_valid hm hp hs, mem_epsClosure _ (hm.wf p hp) _ hs]

theorem mem_mclosure_zero {m : MNfa} (hm : MWF m) (y : Nat) :
    y ∈ m.epsClosure 0 ↔ y = 0 ∨ ∃ p ∈ m, p.2.EpsReach p.2.start y := by
  simp only [MNfa.epsClosure, if_true, mem_normNat, List.mem_cons, List.mem_flatMap]
  constructor
  · rintro (h | ⟨p, hp, h⟩)
    · exact .inl h
    · exact .inr ⟨p, hp, (mem_epsClosure _ (hm.wf p hp) _ (hm.wf p hp).start_in y).mp h⟩
  · rintro (h | ⟨p, hp, h⟩)
    · exact .inl h
    · exact .inr ⟨p, hp, (mem_epsClosure _ (hm.wf p hp) _ (hm.wf p hp).start_in y).mpr h⟩

/-! ### runs of an NFA as chains of (ε-moves, one class transition) -/

/-- ε-moves followed by one class transition on the character `c` -/
def Nfa.StepC (n : Nfa) (cm : Nat → Nat → Bool) (q c t : Nat) : Prop :=
  ∃ s cc, n.EpsReach q s ∧ n.contains s = true ∧ (cc, t) ∈ (n.state s).trans ∧ cm cc c = true

theorem path_cons_iff (n : Nfa) (cm : Nat → Nat → Bool) (x c : Nat) (w : List Nat) (y : Nat) :
    n.Path cm x (c :: w) y ↔ ∃ t, n.StepC cm x c t ∧ n.Path cm t w y := by
  constructor
  · intro h
    generalize hv : c :: w = v at h
    induction h with
    | nil s => cases hv
    | eps hs ht _ ih =>
      obtain ⟨t', ⟨s', cc, hr, hc, hm, hcm⟩, hp⟩ := ih hv
      exact ⟨t', ⟨s', cc, .step hs ht hr, hc, hm, hcm⟩, hp⟩
    | step hs ht hcm hp _ =>
      cases hv
      exact ⟨_, ⟨_, _, .refl _, hs, ht, hcm⟩, hp⟩
  · rintro ⟨t, ⟨s, cc, hr, hc, hm, hcm⟩, hp⟩
    induction hr with
    | refl s => exact .step hc hm hcm hp
    | step hs ht _ ih => exact .eps hs ht (ih hc hm)

theorem stepC_contains (n : Nfa) (h : n.WF) (cm : Nat → Nat → Bool) (q c t : Nat) (hs : n.StepC cm q c t) :
    n.contains t = true := by
  obtain ⟨s, cc, _, hc, hm, _⟩ := hs
  exact h.trans_in s hc _ hm

/-! ### the invariant of the worklist, for the multi-pattern construction -/

structure BInv (m : MNfa) (b : BuildSt) : Prop where
  ids : ∀ (j : Nat) (e : List Nat × Nat), b.map[j]? = some e → e.2 = j
  nodup : (b.map.map Prod.fst).Nodup
  zero : b.map[0]? = some (m.epsClosure 0, 0)
  reps : ∀ (j : Nat) (e : List Nat × Nat), b.map[j]? = some e → 1 ≤ j → ∃ t, m.Valid t ∧ e.1 = m.epsClosure t
  tsound : ∀ x ∈ b.trans, ∃ cli t, b.map[x.1]? = some (cli, x.1) ∧ (x.2.1, t) ∈ m.matchTransitions cli ∧
    b.map[x.2.2]? = some (m.epsClosure t, x.2.2)
  asound : ∀ x ∈ b.acc, ∃ t, m.Valid t ∧ b.map[x.1]? = some (m.epsClosure t, x.1) ∧
    m.accepting (m.epsClosure t) = true ∧ x.2 = m.tidOf t

/-- the target `x` of state `src` has been handled -/
def MDone (m : MNfa) (b : BuildSt) (src : Nat) (x : Nat × Nat) : Prop :=
  ∃ j, b.map[j]? = some (m.epsClosure x.2, j) ∧ (src, x.1, j) ∈ b.trans ∧
    (m.accepting (m.epsClosure x.2) = true → (j, m.tidOf x.2) ∈ b.acc)


/-! ### targets of match transitions are states of pattern NFAs -/

theorem transOf_zero (m : MNfa) (x : Nat × Nat) :
    x ∈ m.transOf 0 ↔ ∃ p ∈ m, x ∈ (p.2.state p.2.start).trans := by
  simp [MNfa.transOf]

theorem transOf_valid {m : MNfa} (hm : MWF m) {p : Nat × Nfa} (hp : p ∈ m) {s : Nat}
    (hs : p.2.contains s = true) : m.transOf s = (p.2.state s).trans := by
  have h1 : 1 ≤ s := valid_pos hm ⟨p, hp, hs⟩
  have : s ≠ 0 := by omega
  simp [MNfa.transOf, this, findNfa_eq hm hp hs]

def ClOK (m : MNfa) (cl : List Nat) : Prop := ∀ s ∈ cl, s = 0 ∨ m.Valid s

theorem target_valid {m : MNfa} (hm : MWF m) {cl : List Nat} (hc : ClOK m cl) {x : Nat × Nat}
    (hx : x ∈ m.matchTransitions cl) : m.Valid x.2 := by
  obtain ⟨s, hs, hxs⟩ := (mem_matchTransitions m cl x).mp hx
  rcases hc s hs with rfl | ⟨p, hp, hps⟩
  · obtain ⟨p, hp, hxp⟩ := (transOf_zero m x).mp hxs
    exact ⟨p, hp, (hm.wf p hp).trans_in _ (hm.wf p hp).start_in x hxp⟩
  · rw [transOf_valid hm hp hps] at hxs
    exact ⟨p, hp, (hm.wf p hp).trans_in _ hps x hxs⟩

theorem clok_zero {m : MNfa} (hm : MWF m) : ClOK m (m.epsClosure 0) := by
  intro s hs
  rcases (mem_mclosure_zero hm s).mp hs with h | ⟨p, hp, hr⟩
  · exact .inl h
  · exact .inr ⟨p, hp, epsReach_contains _ (hm.wf p hp) _ _ (hm.wf p hp).start_in hr⟩

theorem clok_valid {m : MNfa} (hm : MWF m) {t : Nat} (ht : m.Valid t) : ClOK m (m.epsClosure t) := by
  obtain ⟨p, hp, hpt⟩ := ht
  intro s hs
  exact .inr ⟨p, hp, epsReach_contains _ (hm.wf p hp) _ _ hpt ((mem_mclosure_valid hm hp hpt s).mp hs)⟩

/-! ### the construction satisfies the generic invariant -/

def MAllDone (m : MNfa) (b : BuildSt) (i : Nat) : Prop :=
  ∀ cli, b.map[i]? = some (cli, i) → ∀ x ∈ m.matchTransitions cli, MDone m b i x

theorem mgen_ok {m : MNfa} (hm : MWF m) : GOK m.gen 0 m.Valid (totalStates m) := by
  refine ⟨?_, fun t ht => valid_lt hm ht, by simp [totalStates]; omega⟩
  intro cl hcl x hx
  have hok : ClOK m cl := by
    rcases hcl with rfl | ⟨t, ht, rfl⟩
    · exact clok_zero hm
    · exact clok_valid hm ht
  exact target_valid hm hok hx

def finalSt (m : MNfa) : BuildSt := genLoop m.gen (totalStates m + 1) 0 (initSt m.gen 0)

theorem buildDfa_eq (m : MNfa) (prio : List Nat) : buildDfa m prio = mkDfa (finalSt m) prio := rfl

theorem finalSt_spec {m : MNfa} (hm : MWF m) :
    BInv m (finalSt m) ∧ ∀ i, i < (finalSt m).map.length → MAllDone m (finalSt m) i := by
  obtain ⟨h, hd⟩ := genLoop_final (mgen_ok hm) (totalStates m + 1) (by omega)
  exact ⟨⟨h.ids, h.nodup, h.zero, h.reps, h.tsound, h.asound⟩, hd⟩

theorem BInv.trans_lt {m : MNfa} {b : BuildSt} (h : BInv m b) (x : Nat × Nat × Nat) (hx : x ∈ b.trans) :
    x.1 < b.map.length ∧ x.2.2 < b.map.length := by
  obtain ⟨c, t, h1, _, h3⟩ := h.tsound x hx
  constructor
  · rcases Nat.lt_or_ge x.1 b.map.length with hl | hl
    · exact hl
    · rw [List.getElem?_eq_none hl] at h1; cases h1
  · rcases Nat.lt_or_ge x.2.2 b.map.length with hl | hl
    · exact hl
    · rw [List.getElem?_eq_none hl] at h3; cases h3

theorem BInv.acc_lt {m : MNfa} {b : BuildSt} (h : BInv m b) (x : Nat × Nat) (hx : x ∈ b.acc) :
    x.1 < b.map.length := by
  obtain ⟨t, _, h1, _⟩ := h.asound x hx
  rcases Nat.lt_or_ge x.1 b.map.length with hl | hl
  · exact hl
  · rw [List.getElem?_eq_none hl] at h1; cases h1

/-! ### states of the automaton represent ε-closures of NFA states -/

/-- state `j` is the ε-closure of state `q` of the pattern NFA `p` (and carries its acceptance mark) -/
def Rep (m : MNfa) (b : BuildSt) (j : Nat) (p : Nat × Nfa) (q : Nat) : Prop :=
  p ∈ m ∧ p.2.contains q = true ∧ b.map[j]? = some (p.2.epsClosure q, j)

theorem path_trans {n : Nfa} {cm : Nat → Nat → Bool} {x y z : Nat} {u v : List Nat}
    (h1 : n.Path cm x u y) (h2 : n.Path cm y v z) : n.Path cm x (u ++ v) z := by
  induction h1 with
  | nil s => simpa using h2
  | eps hs ht _ ih => exact .eps hs ht (ih h2)
  | step hs ht hcm _ ih => exact .step hs ht hcm (ih h2)

theorem epsReach_path {n : Nfa} {cm : Nat → Nat → Bool} {x y : Nat} (h : n.EpsReach x y) : n.Path cm x [] y :=
  (path_nil_iff_epsReach n cm x y).mpr h

theorem stepC_path {n : Nfa} {cm : Nat → Nat → Bool} {q c t : Nat} (h : n.StepC cm q c t) : n.Path cm q [c] t :=
  (path_cons_iff n cm q c [] t).mpr ⟨t, h, .nil t⟩

/-- soundness of one transition out of a state that represents a closure -/
theorem rep_step_sound {m : MNfa} (hm : MWF m) {b : BuildSt} (h : BInv m b) {j : Nat} {p : Nat × Nfa} {q : Nat}
    (hr : Rep m b j p q) {cc j' : Nat} (ht : (j, cc, j') ∈ b.trans) (cm : Nat → Nat → Bool) (c : Nat)
    (hcm : cm cc c = true) : ∃ t, Rep m b j' p t ∧ p.2.StepC cm q c t := by
  obtain ⟨hp, hq, hj⟩ := hr
  obtain ⟨cli, t, h1, h2, h3⟩ := h.tsound _ ht
  simp only at h1 h2 h3
  rw [hj] at h1
  cases h1
  obtain ⟨s, hs, hxs⟩ := (mem_matchTransitions m _ _).mp h2
  have hreach := (mem_epsClosure _ (hm.wf p hp) _ hq s).mp hs
  have hsc := epsReach_contains _ (hm.wf p hp) _ _ hq hreach
  rw [transOf_valid hm hp hsc] at hxs
  have htc := (hm.wf p hp).trans_in s hsc _ hxs
  refine ⟨t, ⟨hp, htc, ?_⟩, ⟨s, cc, hreach, hsc, hxs, hcm⟩⟩
  rw [← mclosure_valid hm hp htc]; exact h3

theorem zero_step_sound {m : MNfa} (hm : MWF m) {b : BuildSt} (h : BInv m b) {cc j' : Nat}
    (ht : (0, cc, j') ∈ b.trans) (cm : Nat → Nat → Bool) (c : Nat) (hcm : cm cc c = true) :
    ∃ p t, Rep m b j' p t ∧ p.2.StepC cm p.2.start c t := by
  obtain ⟨cli, t, h1, h2, h3⟩ := h.tsound _ ht
  simp only at h1 h2 h3
  rw [h.zero] at h1
  cases h1
  obtain ⟨s, hs, hxs⟩ := (mem_matchTransitions m _ _).mp h2
  rcases (mem_mclosure_zero hm s).mp hs with rfl | ⟨p, hp, hreach⟩
  · obtain ⟨p, hp, hxp⟩ := (transOf_zero m _).mp hxs
    have hst := (hm.wf p hp).start_in
    have htc := (hm.wf p hp).trans_in _ hst _ hxp
    refine ⟨p, t, ⟨hp, htc, ?_⟩, ⟨p.2.start, cc, .refl _, hst, hxp, hcm⟩⟩
    rw [← mclosure_valid hm hp htc]; exact h3
  · have hsc := epsReach_contains _ (hm.wf p hp) _ _ (hm.wf p hp).start_in hreach
    rw [transOf_valid hm hp hsc] at hxs
    have htc := (hm.wf p hp).trans_in s hsc _ hxs
    refine ⟨p, t, ⟨hp, htc, ?_⟩, ⟨s, cc, hreach, hsc, hxs, hcm⟩⟩
    rw [← mclosure_valid hm hp htc]; exact h3

/-- `Rep` together with the acceptance mark of the closure -/
def RepA (m : MNfa) (b : BuildSt) (j : Nat) (p : Nat × Nfa) (q : Nat) : Prop :=
  Rep m b j p q ∧ (m.accepting (p.2.epsClosure q) = true → (j, p.1) ∈ b.acc)

theorem tidOf_valid {m : MNfa} (hm : MWF m) {p : Nat × Nfa} (hp : p ∈ m) {t : Nat} (ht : p.2.contains t = true) :
    m.tidOf t = p.1 := by
  simp [MNfa.tidOf, findNfa_eq hm hp ht]

theorem rep_step_complete {m : MNfa} (hm : MWF m) {b : BuildSt} {j : Nat} {p : Nat × Nfa} {q : Nat}
    (hr : Rep m b j p q) (hd : MAllDone m b j) (cm : Nat → Nat → Bool) (c t : Nat) (hs : p.2.StepC cm q c t) :
    ∃ cc j', (j, cc, j') ∈ b.trans ∧ cm cc c = true ∧ RepA m b j' p t := by
  obtain ⟨hp, hq, hj⟩ := hr
  obtain ⟨s, cc, hreach, hsc, hxs, hcm⟩ := hs
  have hmem : (cc, t) ∈ m.matchTransitions (p.2.epsClosure q) := by
    refine (mem_matchTransitions m _ _).mpr ⟨s, (mem_epsClosure _ (hm.wf p hp) _ hq s).mpr hreach, ?_⟩
    rw [transOf_valid hm hp hsc]; exact hxs
  obtain ⟨j', h1, h2, h3⟩ := hd _ hj _ hmem
  have htc := (hm.wf p hp).trans_in s hsc _ hxs
  simp only at h1 h2 h3 htc
  rw [mclosure_valid hm hp htc] at h1 h3
  rw [tidOf_valid hm hp htc] at h3
  exact ⟨cc, j', h2, hcm, ⟨hp, htc, h1⟩, h3⟩

theorem zero_step_complete {m : MNfa} (hm : MWF m) {b : BuildSt} (h : BInv m b) (hd : MAllDone m b 0)
    {p : Nat × Nfa} (hp : p ∈ m) (cm : Nat → Nat → Bool) (c t : Nat) (hs : p.2.StepC cm p.2.start c t) :
    ∃ cc j', (0, cc, j') ∈ b.trans ∧ cm cc c = true ∧ RepA m b j' p t := by
  obtain ⟨s, cc, hreach, hsc, hxs, hcm⟩ := hs
  have hmem : (cc, t) ∈ m.matchTransitions (m.epsClosure 0) := by
    refine (mem_matchTransitions m _ _).mpr ⟨s, (mem_mclosure_zero hm s).mpr (.inr ⟨p, hp, hreach⟩), ?_⟩
    rw [transOf_valid hm hp hsc]; exact hxs
  obtain ⟨j', h1, h2, h3⟩ := hd _ h.zero _ hmem
  have htc := (hm.wf p hp).trans_in s hsc _ hxs
  simp only at h1 h2 h3 htc
  rw [mclosure_valid hm hp htc] at h1 h3
  rw [tidOf_valid hm hp htc] at h3
  exact ⟨cc, j', h2, hcm, ⟨hp, htc, h1⟩, h3⟩

/-- the marks of a state that represents a closure: it is marked iff the end state of its pattern is
    ε-reachable, and only with the terminal of its pattern -/
theorem rep_acc_sound {m : MNfa} (hm : MWF m) {b : BuildSt} (h : BInv m b) {j : Nat} {p : Nat × Nfa} {q : Nat}
    (hr : Rep m b j p q) {tid : Nat} (ha : (j, tid) ∈ b.acc) : tid = p.1 ∧ p.2.EpsReach q p.2.fin := by
  obtain ⟨hp, hq, hj⟩ := hr
  obtain ⟨t, ht, h1, h2, h3⟩ := h.asound _ ha
  simp only at h1 h3
  rw [hj] at h1
  have hcl : p.2.epsClosure q = m.epsClosure t := congrArg Prod.fst (Option.some.inj h1)
  -- `t` lies in its own closure, hence in `p`
  obtain ⟨p', hp', htc'⟩ := ht
  have htin : t ∈ m.epsClosure t := (mem_mclosure_valid hm hp' htc' t).mpr (.refl t)
  rw [← hcl] at htin
  have htp := epsReach_contains _ (hm.wf p hp) _ _ hq ((mem_epsClosure _ (hm.wf p hp) _ hq t).mp htin)
  refine ⟨by rw [h3, tidOf_valid hm hp htp], ?_⟩
  rw [← hcl] at h2
  simp only [MNfa.accepting, List.any_eq_true, beq_iff_eq] at h2
  obtain ⟨s, hs, p2, hp2, hfin⟩ := h2
  have hsreach := (mem_epsClosure _ (hm.wf p hp) _ hq s).mp hs
  have hsp := epsReach_contains _ (hm.wf p hp) _ _ hq hsreach
  have hsp2 : p2.2.contains s = true := by rw [← hfin]; exact (hm.wf p2 hp2).fin_in
  have := (findNfa_eq hm hp hsp).symm.trans (findNfa_eq hm hp2 hsp2)
  cases this
  rw [hfin]; exact hsreach

theorem accepting_of_reach {m : MNfa} (hm : MWF m) {p : Nat × Nfa} (hp : p ∈ m) {q : Nat}
    (hq : p.2.contains q = true) (hr : p.2.EpsReach q p.2.fin) : m.accepting (p.2.epsClosure q) = true := by
  simp only [MNfa.accepting, List.any_eq_true, beq_iff_eq]
  exact ⟨p.2.fin, (mem_epsClosure _ (hm.wf p hp) _ hq _).mpr hr, p, hp, rfl⟩

/-! ### runs of the automaton against runs of the pattern NFAs -/

theorem mem_step_iff {A : Dfa} {cm : Nat → Nat → Bool} {c : Nat} {S : List Nat} {y : Nat} :
    y ∈ stepStates A cm c S ↔ ∃ s ∈ S, ∃ cc, (cc, y) ∈ A.outs s ∧ cm cc c = true := by
  rw [mem_stepStates, mem_hits]
  constructor
  · rintro ⟨s, hs, h⟩; exact ⟨s, hs, mem_hitsOf.mp h⟩
  · rintro ⟨s, hs, h⟩; exact ⟨s, hs, mem_hitsOf.mpr h⟩

/-- soundness: every state reached represents the closure of a state reached by a run of one pattern -/
theorem reach_sound {m : MNfa} (hm : MWF m) {b : BuildSt} (h : BInv m b) (prio : List Nat)
    (cm : Nat → Nat → Bool) (w : List Nat) : ∀ (S : List Nat) (u : List Nat),
    (∀ j ∈ S, ∃ p q, Rep m b j p q ∧ p.2.Path cm p.2.start u q) →
    ∀ j' ∈ reach (mkDfa b prio) cm S w, ∃ p q, Rep m b j' p q ∧ p.2.Path cm p.2.start (u ++ w) q := by
  induction w with
  | nil => intro S u hS j' hj'; simpa using hS j' hj'
  | cons c w ih =>
    intro S u hS j' hj'
    simp only [reach] at hj'
    have := ih (stepStates (mkDfa b prio) cm c S) (u ++ [c]) (by
      intro j1 hj1
      obtain ⟨j, hj, cc, hout, hcm⟩ := mem_step_iff.mp hj1
      obtain ⟨p, q, hr, hpath⟩ := hS j hj
      obtain ⟨t, hrt, hst⟩ := rep_step_sound hm h hr ((mkDfa_outs (fun x hx => (h.trans_lt x hx).1) prio _ _ _).mp hout) cm c hcm
      exact ⟨p, t, hrt, path_trans hpath (stepC_path hst)⟩) j' hj'
    simpa using this

theorem reach_zero_sound {m : MNfa} (hm : MWF m) {b : BuildSt} (h : BInv m b) (prio : List Nat)
    (cm : Nat → Nat → Bool) (c : Nat) (w : List Nat) (j' : Nat)
    (hj' : j' ∈ reach (mkDfa b prio) cm [0] (c :: w)) :
    ∃ p q, Rep m b j' p q ∧ p.2.Path cm p.2.start (c :: w) q := by
  simp only [reach] at hj'
  have := reach_sound hm h prio cm w (stepStates (mkDfa b prio) cm c [0]) [c] (by
    intro j1 hj1
    obtain ⟨j, hj, cc, hout, hcm⟩ := mem_step_iff.mp hj1
    simp only [List.mem_singleton] at hj
    subst hj
    obtain ⟨p, t, hrt, hst⟩ := zero_step_sound hm h ((mkDfa_outs (fun x hx => (h.trans_lt x hx).1) prio _ _ _).mp hout) cm c hcm
    exact ⟨p, t, hrt, stepC_path hst⟩) j' hj'
  simpa using this

/-- completeness: a run of a pattern NFA from a represented state to its end state is followed -/
theorem reach_complete {m : MNfa} (hm : MWF m) {b : BuildSt} (h : BInv m b)
    (hd : ∀ i, i < b.map.length → MAllDone m b i) (prio : List Nat) (cm : Nat → Nat → Bool) (w : List Nat) :
    ∀ (S : List Nat) (j : Nat) (p : Nat × Nfa) (q : Nat), j ∈ S → RepA m b j p q →
    p.2.Path cm q w p.2.fin →
    ∃ j' ∈ reach (mkDfa b prio) cm S w, (mkDfa b prio).isEnd j' = true ∧ (mkDfa b prio).tidOf j' = p.1 := by
  induction w with
  | nil =>
    intro S j p q hj hr hpath
    have hreach := (path_nil_iff_epsReach _ cm _ _).mp hpath
    have hacc := hr.2 (accepting_of_reach hm hr.1.1 hr.1.2.1 hreach)
    have hend : (mkDfa b prio).isEnd j = true := (mkDfa_isEnd (fun x hx => h.acc_lt x hx) prio j).mpr ⟨_, hacc⟩
    refine ⟨j, hj, hend, ?_⟩
    exact (rep_acc_sound hm h hr.1 (mkDfa_tidOf_mem prio j hend)).1
  | cons c w ih =>
    intro S j p q hj hr hpath
    obtain ⟨t, hst, hrest⟩ := (path_cons_iff _ cm _ _ _ _).mp hpath
    have hjl : j < b.map.length := by
      rcases Nat.lt_or_ge j b.map.length with hl | hl
      · exact hl
      · have := hr.1.2.2; rw [List.getElem?_eq_none hl] at this; cases this
    obtain ⟨cc, j1, htr, hcm, hr1⟩ := rep_step_complete hm hr.1 (hd j hjl) cm c t hst
    have hj1 : j1 ∈ stepStates (mkDfa b prio) cm c S :=
      mem_step_iff.mpr ⟨j, hj, cc, (mkDfa_outs (fun x hx => (h.trans_lt x hx).1) prio _ _ _).mpr htr, hcm⟩
    simp only [reach]
    exact ih _ j1 p t hj1 hr1 hrest

theorem zero_not_end {m : MNfa} (hm : MWF m) {b : BuildSt} (h : BInv m b) (prio : List Nat) :
    (mkDfa b prio).isEnd 0 = false := by
  cases he : (mkDfa b prio).isEnd 0 with
  | false => rfl
  | true =>
    exfalso
    obtain ⟨tid, ht⟩ := (mkDfa_isEnd (fun x hx => h.acc_lt x hx) prio 0).mp he
    obtain ⟨t, ⟨p, hp, htc⟩, h1, _⟩ := h.asound _ ht
    simp only at h1
    rw [h.zero] at h1
    have hcl : m.epsClosure 0 = m.epsClosure t := congrArg Prod.fst (Option.some.inj h1)
    have h0 : 0 ∈ m.epsClosure t := by rw [← hcl]; exact (mem_mclosure_zero hm 0).mpr (.inl rfl)
    have := epsReach_contains _ (hm.wf p hp) _ _ htc ((mem_mclosure_valid hm hp htc 0).mp h0)
    have := valid_pos hm ⟨p, hp, this⟩
    omega

/-- **the closure construction is correct**: the automaton accepts a word for a terminal iff the
    word is not empty and the NFA of some pattern with that terminal accepts it -/
theorem buildDfa_correct {m : MNfa} (hm : MWF m) (prio : List Nat) (cm : Nat → Nat → Bool) (w : List Nat)
    (tid : Nat) : acceptsTid (buildDfa m prio) cm w tid ↔ w ≠ [] ∧ ∃ p ∈ m, p.1 = tid ∧ p.2.Accepts cm w := by
  rw [buildDfa_eq]
  obtain ⟨h, hd⟩ := finalSt_spec hm
  cases w with
  | nil =>
    simp only [acceptsTid, reach, List.mem_singleton, ne_eq, not_true_eq_false, false_and, iff_false]
    rintro ⟨s, rfl, he, _⟩
    rw [zero_not_end hm h prio] at he; cases he
  | cons c w =>
    simp only [ne_eq, reduceCtorEq, not_false_eq_true, true_and]
    constructor
    · rintro ⟨j', hj', hend, htid⟩
      obtain ⟨p, q, hr, hpath⟩ := reach_zero_sound hm h prio cm c w j' hj'
      have hmem := mkDfa_tidOf_mem prio j' hend
      obtain ⟨ht, hfin⟩ := rep_acc_sound hm h hr hmem
      refine ⟨p, hr.1, by rw [← ht, htid], ?_⟩
      have := path_trans hpath (epsReach_path (cm := cm) hfin)
      simpa [Nfa.Accepts] using this
    · rintro ⟨p, hp, rfl, hacc⟩
      obtain ⟨t, hst, hrest⟩ := (path_cons_iff _ cm _ _ _ _).mp hacc
      have h0 : 0 < (finalSt m).map.length := by
        rcases Nat.eq_zero_or_pos (finalSt m).map.length with h0 | h0
        · have := h.zero; rw [List.getElem?_eq_none (by omega)] at this; cases this
        · exact h0
      obtain ⟨cc, j1, htr, hcm, hr1⟩ := zero_step_complete hm h (hd 0 h0) hp cm c t hst
      have hj1 : j1 ∈ stepStates (mkDfa (finalSt m) prio) cm c [0] :=
        mem_step_iff.mpr ⟨0, by simp, cc, (mkDfa_outs (fun x hx => (h.trans_lt x hx).1) prio _ _ _).mpr htr, hcm⟩
      obtain ⟨j', hj', hend, htid⟩ := reach_complete hm h hd prio cm w _ j1 p t hj1 hr1 hrest
      exact ⟨j', by simpa [reach] using hj', hend, htid⟩

theorem buildDfa_start {m : MNfa} (hm : MWF m) (prio : List Nat) : (buildDfa m prio).isEnd 0 = false := by
  rw [buildDfa_eq]; exact zero_not_end hm (finalSt_spec hm).1 prio

theorem buildDfa_nonempty {m : MNfa} (hm : MWF m) (prio : List Nat) : 0 < (buildDfa m prio).trans.length := by
  rw [buildDfa_eq]
  have h := (finalSt_spec hm).1
  simp only [mkDfa, List.length_map, List.length_range]
  rcases Nat.eq_zero_or_pos (finalSt m).map.length with h0 | h0
  · have := h.zero; rw [List.getElem?_eq_none (by omega)] at this; cases this
  · exact h0

theorem buildDfa_targets {m : MNfa} (hm : MWF m) (prio : List Nat) (s cc t : Nat)
    (ht : (cc, t) ∈ (buildDfa m prio).outs s) : t < (buildDfa m prio).trans.length := by
  rw [buildDfa_eq] at ht ⊢
  have h := (finalSt_spec hm).1
  have := (mkDfa_outs (fun x hx => (h.trans_lt x hx).1) prio s cc t).mp ht
  obtain ⟨_, t', _, _, h3⟩ := h.tsound _ this
  simp only at h3
  simp only [mkDfa, List.length_map, List.length_range]
  rcases Nat.lt_or_ge t (finalSt m).map.length with hl | hl
  · exact hl
  · rw [List.getElem?_eq_none hl] at h3; cases h3

end Scnr
