import ScnrVerif.Proofs.NfaSem
import ScnrVerif.Proofs.ThompsonBase
import ScnrVerif.Proofs.ThompsonOps
import ScnrVerif.Proofs.ThompsonOps2
/-!
# Correctness of the Thompson construction of the compiler model

`thompson a` is well formed, has base 0 and accepts exactly the words matched by `a.toRe`.
(`shift_wf`, `shift_path`, `shift_accepts` are in `ThompsonBase`.)
-/
namespace Scnr

/-! ### facts about `Matches` -/

theorem matches_cat_iff {cm : Nat → Nat → Bool} {a b : Re} {w : List Nat} :
    Matches cm (.cat a b) w ↔ ∃ u v, w = u ++ v ∧ Matches cm a u ∧ Matches cm b v := by
  constructor
  · intro h
    cases h with
    | cat ha hb => exact ⟨_, _, rfl, ha, hb⟩
  · rintro ⟨u, v, rfl, ha, hb⟩
    exact .cat ha hb

theorem matches_alt_iff {cm : Nat → Nat → Bool} {a b : Re} {w : List Nat} :
    Matches cm (.alt a b) w ↔ Matches cm a w ∨ Matches cm b w := by
  constructor
  · intro h
    cases h with
    | altL h => exact .inl h
    | altR h => exact .inr h
  · rintro (h | h)
    · exact .altL h
    · exact .altR h

theorem matches_eps_iff {cm : Nat → Nat → Bool} {w : List Nat} : Matches cm .eps w ↔ w = [] := by
  constructor
  · exact matches_eps_nil
  · rintro rfl; exact .eps

theorem matches_void {cm : Nat → Nat → Bool} {w : List Nat} : ¬ Matches cm .void w := by
  intro h; cases h

theorem matches_opt_iff {cm : Nat → Nat → Bool} {r : Re} {w : List Nat} :
    Matches cm (Re.opt r) w ↔ Matches cm r w ∨ w = [] := by
  unfold Re.opt
  rw [matches_alt_iff, matches_eps_iff]

theorem matches_pow_zero {cm : Nat → Nat → Bool} {r : Re} {w : List Nat} :
    Matches cm (Re.pow r 0) w ↔ w = [] := matches_eps_iff

theorem matches_pow_succ {cm : Nat → Nat → Bool} {r : Re} {n : Nat} {w : List Nat} :
    Matches cm (Re.pow r (n + 1)) w ↔ ∃ u v, w = u ++ v ∧ Matches cm r u ∧ Matches cm (Re.pow r n) v :=
  matches_cat_iff

theorem matches_catList_cons {cm : Nat → Nat → Bool} {r : Re} {rs : List Re} {w : List Nat} :
    Matches cm (Re.catList (r :: rs)) w ↔ ∃ u v, w = u ++ v ∧ Matches cm r u ∧ Matches cm (Re.catList rs) v := by
  cases rs with
  | nil =>
    simp only [Re.catList]
    constructor
    · intro h; exact ⟨w, [], (List.append_nil w).symm, h, .eps⟩
    · rintro ⟨u, v, rfl, h1, h2⟩
      rw [matches_eps_nil h2, List.append_nil]; exact h1
  | cons r' rs => exact matches_cat_iff

theorem matches_altList_cons {cm : Nat → Nat → Bool} {r : Re} {rs : List Re} {w : List Nat} :
    Matches cm (Re.altList (r :: rs)) w ↔ Matches cm r w ∨ Matches cm (Re.altList rs) w := by
  cases rs with
  | nil =>
    simp only [Re.altList]
    constructor
    · intro h; exact .inl h
    · rintro (h | h)
      · exact h
      · exact absurd h matches_void
  | cons r' rs => exact matches_alt_iff

namespace Nfa

/-! ### repeated concatenation -/

theorem repeatConcat_wf {acc x : Nfa} (ha : acc.WF) (ha0 : acc.base = 0) (hx : x.WF) (hx0 : x.base = 0) (k : Nat) :
    (repeatConcat acc x k).WF ∧ (repeatConcat acc x k).base = 0 := by
  induction k generalizing acc with
  | zero => exact ⟨ha, ha0⟩
  | succ k ih => exact ih (concat_wf ha ha0 hx hx0) (concat_base ha0)

theorem repeatConcat_accepts {acc x : Nfa} (ha : acc.WF) (ha0 : acc.base = 0) (hx : x.WF) (hx0 : x.base = 0)
    (cm : Nat → Nat → Bool) (R : Re) (hlang : ∀ w, x.Accepts cm w ↔ Matches cm R w) (k : Nat) (w : List Nat) :
    (repeatConcat acc x k).Accepts cm w ↔ ∃ u v, w = u ++ v ∧ acc.Accepts cm u ∧ Matches cm (Re.pow R k) v := by
  induction k generalizing acc w with
  | zero =>
    show acc.Accepts cm w ↔ _
    constructor
    · intro h; exact ⟨w, [], (List.append_nil w).symm, h, .eps⟩
    · rintro ⟨u, v, rfl, h1, h2⟩
      rw [matches_pow_zero.mp h2, List.append_nil]; exact h1
  | succ k ih =>
    show (repeatConcat (acc.concat x) x k).Accepts cm w ↔ _
    rw [ih (concat_wf ha ha0 hx hx0) (concat_base ha0)]
    constructor
    · rintro ⟨u, v, rfl, h1, h2⟩
      obtain ⟨u1, u2, rfl, h3, h4⟩ := (concat_accepts ha ha0 hx hx0 cm u).mp h1
      exact ⟨u1, u2 ++ v, List.append_assoc _ _ _, h3, matches_pow_succ.mpr ⟨u2, v, rfl, (hlang _).mp h4, h2⟩⟩
    · rintro ⟨u, v, rfl, h1, h2⟩
      obtain ⟨u2, v2, rfl, h3, h4⟩ := matches_pow_succ.mp h2
      exact ⟨u ++ u2, v2, (List.append_assoc _ _ _).symm,
        (concat_accepts ha ha0 hx hx0 cm _).mpr ⟨u, u2, rfl, h1, (hlang _).mpr h3⟩, h4⟩

end Nfa

/-! ### the induction over the AST -/

/-- what is proved about every AST -/
def Good (a : CAst) : Prop :=
  (thompson a).WF ∧ (thompson a).base = 0 ∧ ∀ cm w, (thompson a).Accepts cm w ↔ Matches cm a.toRe w

theorem good_empty : Good .empty := by
  unfold Good
  rw [thompson, CAst.toRe]
  exact ⟨Nfa.empty_wf, rfl, fun cm w => by rw [Nfa.empty_accepts, matches_eps_iff]⟩

theorem thompson_leaf (c : Nat) : thompson (.leaf c) = ⟨0, [⟨[], [(c, 1)]⟩, ⟨[], []⟩], 0, 1⟩ := by
  rw [thompson]; rfl

theorem good_leaf (c : Nat) : Good (.leaf c) := by
  unfold Good
  rw [thompson_leaf, CAst.toRe]
  refine ⟨?_, rfl, ?_⟩
  · refine Nfa.wf_of0 rfl (show 0 < 2 by omega) (show 1 < 2 by omega) ?_ rfl
    intro s hs
    match s, hs with
    | 0, _ =>
      refine ⟨fun t ht => (by cases ht), fun p hp => ?_⟩
      have hp' : p ∈ [(c, 1)] := hp
      rw [List.mem_singleton] at hp'
      subst hp'
      rfl
    | 1, _ => exact ⟨fun t ht => (by cases ht), fun p hp => (by cases hp)⟩
    | n + 2, h => simp only [List.length_cons, List.length_nil] at h; omega
  · intro cm w
    unfold Nfa.Accepts
    constructor
    · intro h
      cases h with
      | eps _ he _ => cases he
      | @step _ t _ ch cc w' _ ht hcm hp =>
        have ht' : (cc, t) ∈ [(c, 1)] := ht
        rw [List.mem_singleton, Prod.mk.injEq] at ht'
        obtain ⟨rfl, rfl⟩ := ht'
        obtain ⟨rfl, _⟩ := Nfa.Path.of_no_edges rfl rfl hp
        exact .cls hcm
    · intro h
      cases h with
      | cls hc => exact .step rfl (List.mem_singleton.mpr rfl) hc (.nil _)

theorem thompsonConcat_spec (xs : List CAst) (hxs : ∀ x ∈ xs, Good x) (acc : Nfa) (ha : acc.WF) (ha0 : acc.base = 0) :
    (thompsonConcat acc xs).WF ∧ (thompsonConcat acc xs).base = 0 ∧
      ∀ cm w, (thompsonConcat acc xs).Accepts cm w ↔
        ∃ u v, w = u ++ v ∧ acc.Accepts cm u ∧ Matches cm (Re.catList (CAst.toReList xs)) v := by
  induction xs generalizing acc with
  | nil =>
    rw [thompsonConcat, CAst.toReList]
    refine ⟨ha, ha0, fun cm w => ?_⟩
    constructor
    · intro h; exact ⟨w, [], (List.append_nil w).symm, h, .eps⟩
    · rintro ⟨u, v, rfl, h1, h2⟩
      rw [matches_eps_nil h2, List.append_nil]; exact h1
  | cons x xs ih =>
    obtain ⟨hx, hx0, hxl⟩ := hxs x List.mem_cons_self
    rw [thompsonConcat, CAst.toReList]
    obtain ⟨h1, h2, h3⟩ := ih (fun y hy => hxs y (List.mem_cons_of_mem _ hy)) (acc.concat (thompson x))
      (Nfa.concat_wf ha ha0 hx hx0) (Nfa.concat_base ha0)
    refine ⟨h1, h2, fun cm w => ?_⟩
    rw [h3]
    constructor
    · rintro ⟨u, v, rfl, h4, h5⟩
      obtain ⟨u1, u2, rfl, h6, h7⟩ := (Nfa.concat_accepts ha ha0 hx hx0 cm u).mp h4
      exact ⟨u1, u2 ++ v, List.append_assoc _ _ _, h6,
        matches_catList_cons.mpr ⟨u2, v, rfl, (hxl cm _).mp h7, h5⟩⟩
    · rintro ⟨u, v, rfl, h4, h5⟩
      obtain ⟨u2, v2, rfl, h6, h7⟩ := matches_catList_cons.mp h5
      exact ⟨u ++ u2, v2, (List.append_assoc _ _ _).symm,
        (Nfa.concat_accepts ha ha0 hx hx0 cm _).mpr ⟨u, u2, rfl, h4, (hxl cm _).mpr h6⟩, h7⟩

theorem thompsonAlt_spec (xs : List CAst) (hxs : ∀ x ∈ xs, Good x) (acc : Nfa) (ha : acc.WF) (ha0 : acc.base = 0) :
    (thompsonAlt acc xs).WF ∧ (thompsonAlt acc xs).base = 0 ∧
      ∀ cm w, (thompsonAlt acc xs).Accepts cm w ↔
        (acc.Accepts cm w ∨ Matches cm (Re.altList (CAst.toReList xs)) w) := by
  induction xs generalizing acc with
  | nil =>
    rw [thompsonAlt, CAst.toReList]
    refine ⟨ha, ha0, fun cm w => ?_⟩
    constructor
    · intro h; exact .inl h
    · rintro (h | h)
      · exact h
      · exact absurd h matches_void
  | cons x xs ih =>
    obtain ⟨hx, hx0, hxl⟩ := hxs x List.mem_cons_self
    rw [thompsonAlt, CAst.toReList]
    obtain ⟨h1, h2, h3⟩ := ih (fun y hy => hxs y (List.mem_cons_of_mem _ hy)) (acc.alternation (thompson x))
      (Nfa.alternation_wf ha ha0 hx hx0) (Nfa.alternation_base ha0)
    refine ⟨h1, h2, fun cm w => ?_⟩
    rw [h3, Nfa.alternation_accepts ha ha0 hx hx0, matches_altList_cons, hxl cm w, or_assoc]

theorem good_concat (xs : List CAst) (hxs : ∀ x ∈ xs, Good x) : Good (.concat xs) := by
  unfold Good
  rw [thompson, CAst.toRe]
  obtain ⟨h1, h2, h3⟩ := thompsonConcat_spec xs hxs Nfa.empty Nfa.empty_wf rfl
  refine ⟨h1, h2, fun cm w => ?_⟩
  rw [h3]
  constructor
  · rintro ⟨u, v, rfl, h4, h5⟩
    rw [(Nfa.empty_accepts cm u).mp h4]; exact h5
  · intro h; exact ⟨[], w, rfl, .nil _, h⟩

theorem good_alt_nil : Good (.alt []) := by
  unfold Good
  rw [thompson, CAst.toRe]
  exact ⟨Nfa.empty_wf, rfl, fun cm w => by rw [Nfa.empty_accepts, matches_eps_iff]⟩

theorem good_alt_cons (x : CAst) (xs : List CAst) (hx : Good x) (hxs : ∀ y ∈ xs, Good y) : Good (.alt (x :: xs)) := by
  obtain ⟨hx1, hx0, hxl⟩ := hx
  unfold Good
  rw [thompson, CAst.toRe]
  obtain ⟨h1, h2, h3⟩ := thompsonAlt_spec xs hxs (thompson x) hx1 hx0
  refine ⟨h1, h2, fun cm w => ?_⟩
  rw [h3, matches_altList_cons, hxl cm w]

theorem good_opt (x : CAst) (hx : Good x) : Good (.opt x) := by
  obtain ⟨hx1, hx0, hxl⟩ := hx
  unfold Good
  rw [thompson, CAst.toRe]
  refine ⟨Nfa.zeroOrOne_wf hx1 hx0, Nfa.zeroOrOne_base hx0, fun cm w => ?_⟩
  rw [Nfa.zeroOrOne_accepts hx1 hx0, matches_opt_iff, hxl cm w]

theorem good_star (x : CAst) (hx : Good x) : Good (.star x) := by
  obtain ⟨hx1, hx0, hxl⟩ := hx
  unfold Good
  rw [thompson, CAst.toRe]
  exact ⟨Nfa.zeroOrMore_wf hx1 hx0, Nfa.zeroOrMore_base hx0,
    fun cm w => Nfa.zeroOrMore_accepts hx1 hx0 cm _ (hxl cm) w⟩

theorem good_plus (x : CAst) (hx : Good x) : Good (.plus x) := by
  obtain ⟨hx1, hx0, hxl⟩ := hx
  unfold Good
  rw [thompson, CAst.toRe]
  exact ⟨Nfa.oneOrMore_wf hx1 hx0, Nfa.oneOrMore_base hx0,
    fun cm w => Nfa.oneOrMore_accepts hx1 hx0 cm _ (hxl cm) w⟩

theorem good_exactly (n : Nat) (x : CAst) (hx : Good x) : Good (.exactly n x) := by
  obtain ⟨hx1, hx0, hxl⟩ := hx
  unfold Good
  rw [thompson, CAst.toRe]
  obtain ⟨h1, h2⟩ := Nfa.repeatConcat_wf Nfa.empty_wf rfl hx1 hx0 n
  refine ⟨h1, h2, fun cm w => ?_⟩
  rw [Nfa.repeatConcat_accepts Nfa.empty_wf rfl hx1 hx0 cm _ (hxl cm)]
  constructor
  · rintro ⟨u, v, rfl, h4, h5⟩
    rw [(Nfa.empty_accepts cm u).mp h4]; exact h5
  · intro h; exact ⟨[], w, rfl, .nil _, h⟩

theorem good_atLeast (n : Nat) (x : CAst) (hx : Good x) : Good (.atLeast n x) := by
  obtain ⟨hx1, hx0, hxl⟩ := hx
  unfold Good
  rw [thompson, CAst.toRe]
  obtain ⟨h1, h2⟩ := Nfa.repeatConcat_wf Nfa.empty_wf rfl hx1 hx0 n
  have hs1 := Nfa.zeroOrMore_wf hx1 hx0
  have hs0 := Nfa.zeroOrMore_base hx0
  refine ⟨Nfa.concat_wf h1 h2 hs1 hs0, Nfa.concat_base h2, fun cm w => ?_⟩
  rw [Nfa.concat_accepts h1 h2 hs1 hs0, matches_cat_iff]
  constructor
  · rintro ⟨u, v, rfl, h4, h5⟩
    refine ⟨u, v, rfl, ?_, (Nfa.zeroOrMore_accepts hx1 hx0 cm _ (hxl cm) v).mp h5⟩
    obtain ⟨u1, u2, rfl, h6, h7⟩ := (Nfa.repeatConcat_accepts Nfa.empty_wf rfl hx1 hx0 cm _ (hxl cm) n u).mp h4
    rw [(Nfa.empty_accepts cm u1).mp h6]; exact h7
  · rintro ⟨u, v, rfl, h4, h5⟩
    refine ⟨u, v, rfl, ?_, (Nfa.zeroOrMore_accepts hx1 hx0 cm _ (hxl cm) v).mpr h5⟩
    exact (Nfa.repeatConcat_accepts Nfa.empty_wf rfl hx1 hx0 cm _ (hxl cm) n u).mpr ⟨[], u, rfl, .nil _, h4⟩

theorem good_bounded (m n : Nat) (x : CAst) (hx : Good x) : Good (.bounded m n x) := by
  obtain ⟨hx1, hx0, hxl⟩ := hx
  unfold Good
  rw [thompson, CAst.toRe]
  obtain ⟨h1, h2⟩ := Nfa.repeatConcat_wf Nfa.empty_wf rfl hx1 hx0 m
  have ho1 := Nfa.zeroOrOne_wf hx1 hx0
  have ho0 := Nfa.zeroOrOne_base hx0
  have hol : ∀ cm w, (thompson x).zeroOrOne.Accepts cm w ↔ Matches cm (Re.opt x.toRe) w := by
    intro cm w
    rw [Nfa.zeroOrOne_accepts hx1 hx0, matches_opt_iff, hxl cm w]
  obtain ⟨h3, h4⟩ := Nfa.repeatConcat_wf h1 h2 ho1 ho0 (n - m)
  refine ⟨h3, h4, fun cm w => ?_⟩
  rw [Nfa.repeatConcat_accepts h1 h2 ho1 ho0 cm _ (hol cm), matches_cat_iff]
  constructor
  · rintro ⟨u, v, rfl, h5, h6⟩
    refine ⟨u, v, rfl, ?_, h6⟩
    obtain ⟨u1, u2, rfl, h7, h8⟩ := (Nfa.repeatConcat_accepts Nfa.empty_wf rfl hx1 hx0 cm _ (hxl cm) m u).mp h5
    rw [(Nfa.empty_accepts cm u1).mp h7]; exact h8
  · rintro ⟨u, v, rfl, h5, h6⟩
    refine ⟨u, v, rfl, ?_, h6⟩
    exact (Nfa.repeatConcat_accepts Nfa.empty_wf rfl hx1 hx0 cm _ (hxl cm) m u).mpr ⟨[], u, rfl, .nil _, h5⟩

mutual
theorem good : (a : CAst) → Good a
  | .empty => good_empty
  | .leaf c => good_leaf c
  | .concat xs => good_concat xs (goodList xs)
  | .alt [] => good_alt_nil
  | .alt (x :: xs) => good_alt_cons x xs (good x) (goodList xs)
  | .opt x => good_opt x (good x)
  | .star x => good_star x (good x)
  | .plus x => good_plus x (good x)
  | .exactly n x => good_exactly n x (good x)
  | .atLeast n x => good_atLeast n x (good x)
  | .bounded m n x => good_bounded m n x (good x)
theorem goodList : (xs : List CAst) → ∀ y ∈ xs, Good y
  | [] => fun _ h => nomatch h
  | x :: xs => fun y hy =>
    (List.mem_cons.mp hy).elim (fun h => h ▸ good x) (fun h => goodList xs y h)
end

theorem thompson_wf (a : CAst) : (thompson a).WF ∧ (thompson a).base = 0 :=
  ⟨(good a).1, (good a).2.1⟩

theorem thompson_correct (a : CAst) (cm : Nat → Nat → Bool) (w : List Nat) :
    (thompson a).Accepts cm w ↔ Matches cm a.toRe w :=
  (good a).2.2 cm w

end Scnr
