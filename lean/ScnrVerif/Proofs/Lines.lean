import ScnrVerif.Proofs.Iter
/-!
# Line bookkeeping (C09)

`positionOf` on the recorded line offsets equals the true line/column whenever the recorded
offsets are exactly the true line starts below a frontier (`position_spec`), and the invariant
that makes this true is preserved by the iterator operations.
-/
namespace Scnr

/-- strictly increasing -/
def StrictSorted : List Nat → Prop
  | [] => True
  | x :: r => (∀ y ∈ r, x < y) ∧ StrictSorted r

theorem strictSorted_ext {a b : List Nat} (ha : StrictSorted a) (hb : StrictSorted b)
    (h : ∀ x, x ∈ a ↔ x ∈ b) : a = b := by
  induction a generalizing b with
  | nil =>
    cases b with
    | nil => rfl
    | cons y r => exact absurd ((h y).mpr (by simp)) (by simp)
  | cons x r ih =>
    cases b with
    | nil => exact absurd ((h x).mp (by simp)) (by simp)
    | cons y s =>
      obtain ⟨hx, hr⟩ := ha
      obtain ⟨hy, hs⟩ := hb
      have hxy : x = y := by
        have h1 : x ∈ y :: s := (h x).mp (by simp)
        have h2 : y ∈ x :: r := (h y).mpr (by simp)
        rcases List.mem_cons.mp h1 with h1 | h1
        · exact h1
        · rcases List.mem_cons.mp h2 with h2 | h2
          · exact h2.symm
          · have := hx y h2; have := hy x h1; omega
      subst hxy
      congr 1
      apply ih hr hs
      intro z
      constructor
      · intro hz
        have := (h z).mp (List.mem_cons_of_mem _ hz)
        rcases List.mem_cons.mp this with rfl | h'
        · have := hx z hz; omega
        · exact h'
      · intro hz
        have := (h z).mpr (List.mem_cons_of_mem _ hz)
        rcases List.mem_cons.mp this with rfl | h'
        · have := hy z hz; omega
        · exact h'

theorem strictSorted_filter {a : List Nat} (p : Nat → Bool) (ha : StrictSorted a) :
    StrictSorted (a.filter p) := by
  induction a with
  | nil => exact trivial
  | cons x r ih =>
    obtain ⟨hx, hr⟩ := ha
    simp only [List.filter]
    cases p x with
    | true =>
      exact ⟨fun y hy => hx y (List.mem_filter.mp hy).1, ih hr⟩
    | false => exact ih hr

/-- **Position rule**: if the recorded offsets are strictly sorted, are true line starts, and
    contain every true line start `≤ o`, the reported position of `o` is the true line/column. -/
theorem position_spec (input lo : List Nat) (o : Nat) (hs : StrictSorted lo)
    (hts : StrictSorted (lineStartsOf input))
    (h2 : ∀ x ∈ lo, x ∈ lineStartsOf input)
    (h3 : ∀ x ∈ lineStartsOf input, x ≤ o → x ∈ lo) :
    positionOf lo o = trueLineCol input o := by
  unfold trueLineCol positionOf
  have : lo.filter (· ≤ o) = (lineStartsOf input).filter (· ≤ o) := by
    apply strictSorted_ext (strictSorted_filter _ hs) (strictSorted_filter _ hts)
    intro x
    simp only [List.mem_filter, decide_eq_true_eq]
    constructor
    · rintro ⟨h, hle⟩; exact ⟨h2 x h, hle⟩
    · rintro ⟨h, hle⟩; exact ⟨h3 x h hle, hle⟩
  simp only [this]

/-- The alternative at the frontier: every true line start `< o` is recorded but `o` itself (a
    line start whose first character is not consumed yet) is not: the position is the column after
    the line break on the previous line. -/
theorem position_alt (input lo : List Nat) (o : Nat) (hs : StrictSorted lo)
    (hts : StrictSorted (lineStartsOf input))
    (h2 : ∀ x ∈ lo, x ∈ lineStartsOf input)
    (h3 : ∀ x ∈ lineStartsOf input, x < o → x ∈ lo) (ho : o ∉ lo) :
    positionOf lo o = altLineCol input o := by
  unfold altLineCol positionOf
  have : lo.filter (· ≤ o) = ((lineStartsOf input).filter (· ≠ o)).filter (· ≤ o) := by
    apply strictSorted_ext (strictSorted_filter _ hs)
      (strictSorted_filter _ (strictSorted_filter _ hts))
    intro x
    simp only [List.mem_filter, decide_eq_true_eq, ne_eq, decide_not, Bool.not_eq_eq_eq_not,
      Bool.not_true, decide_eq_false_iff_not]
    constructor
    · rintro ⟨h, hle⟩
      exact ⟨⟨h2 x h, fun he => ho (he ▸ h)⟩, hle⟩
    · rintro ⟨⟨h, hne⟩, hle⟩
      exact ⟨h3 x h (by omega), hle⟩
  simp only [this]

/-! ## true line starts -/

theorem lineStartsFrom_gt (p : Nat) (w : List Nat) : ∀ x ∈ lineStartsFrom p w, p < x := by
  induction w generalizing p with
  | nil => intro x hx; cases hx
  | cons c w ih =>
    intro x hx
    have hc := utf8Len_pos c
    unfold lineStartsFrom at hx
    by_cases h : c = 10
    · rw [if_pos h] at hx
      rcases List.mem_cons.mp hx with rfl | hx
      · omega
      · have := ih _ x hx; omega
    · rw [if_neg h] at hx
      have := ih _ x hx; omega

theorem lineStartsFrom_sorted (p : Nat) (w : List Nat) : StrictSorted (lineStartsFrom p w) := by
  induction w generalizing p with
  | nil => exact trivial
  | cons c w ih =>
    unfold lineStartsFrom
    by_cases h : c = 10
    · simp only [h, if_true]
      exact ⟨fun y hy => lineStartsFrom_gt _ _ y hy, ih _⟩
    · simp only [h, if_false]; exact ih _

theorem lineStartsOf_sorted (input : List Nat) : StrictSorted (lineStartsOf input) :=
  ⟨fun y hy => lineStartsFrom_gt 0 input y hy, lineStartsFrom_sorted 0 input⟩

end Scnr

namespace Scnr

theorem utf8Len_ten : utf8Len 10 = 1 := by decide

theorem lineStartsFrom_cons (p c : Nat) (w : List Nat) :
    lineStartsFrom p (c :: w) =
      if c = 10 then (p + utf8Len c) :: lineStartsFrom (p + utf8Len c) w
      else lineStartsFrom (p + utf8Len c) w := rfl

theorem lineStartsFrom_append (q : Nat) (u v : List Nat) :
    lineStartsFrom q (u ++ v) = lineStartsFrom q u ++ lineStartsFrom (q + bytesLen u) v := by
  induction u generalizing q with
  | nil => simp [lineStartsFrom, bytesLen]
  | cons c u ih =>
    simp only [List.cons_append, lineStartsFrom, bytesLen]
    rw [ih]
    have : q + utf8Len c + bytesLen u = q + (utf8Len c + bytesLen u) := by omega
    rw [this]
    by_cases h : c = 10 <;> simp [h]

theorem lineStartsFrom_le (q : Nat) (u : List Nat) : ∀ x ∈ lineStartsFrom q u, x ≤ q + bytesLen u := by
  induction u generalizing q with
  | nil => intro x hx; cases hx
  | cons c u ih =>
    intro x hx
    rw [lineStartsFrom_cons] at hx
    simp only [bytesLen]
    by_cases h : c = 10
    · rw [if_pos h] at hx
      rcases List.mem_cons.mp hx with rfl | hx
      · omega
      · have := ih _ x hx; omega
    · rw [if_neg h] at hx
      have := ih _ x hx; omega

/-- The end of a non-empty text is a line start of it iff its last character is a line feed. -/
theorem end_mem_lineStartsFrom (q : Nat) (u : List Nat) :
    q + bytesLen u ∈ lineStartsFrom q u ↔ u.getLast? = some 10 := by
  induction u generalizing q with
  | nil => simp [lineStartsFrom]
  | cons c u ih =>
    cases u with
    | nil =>
      simp only [lineStartsFrom, bytesLen, Nat.add_zero, List.getLast?_singleton, Option.some.injEq]
      by_cases h : c = 10
      · subst h; simp
      · simp [h]
    | cons d u =>
      have hd := bytesLen_pos (u := d :: u) (by simp)
      have hc := utf8Len_pos c
      rw [List.getLast?_cons_cons, ← ih (q + utf8Len c)]
      have hq : q + bytesLen (c :: d :: u) = q + utf8Len c + bytesLen (d :: u) := by
        simp only [bytesLen]; omega
      rw [hq, lineStartsFrom_cons q c]
      by_cases h : c = 10
      · rw [if_pos h]
        simp only [List.mem_cons]
        constructor
        · rintro (h' | h')
          · omega
          · exact h'
        · intro h'; right; exact h'
      · rw [if_neg h]

theorem charBefore_append (p r : List Nat) : charBefore (p ++ r) (bytesLen p) = (p.getLast?).getD 0 := by
  induction p with
  | nil => simp [bytesLen, charBefore]
  | cons c p ih =>
    have hc := utf8Len_pos c
    cases p with
    | nil =>
      simp only [List.cons_append, List.nil_append, bytesLen, Nat.add_zero]
      rw [charBefore_pos c r hc]; simp
    | cons d p =>
      have hd := bytesLen_pos (u := d :: p) (by simp)
      simp only [List.cons_append] at ih ⊢
      rw [charBefore_pos c _ (by simp only [bytesLen] at hd ⊢; omega)]
      have h1 : ¬ (bytesLen (c :: d :: p) ≤ utf8Len c) := by simp only [bytesLen] at hd ⊢; omega
      simp only [h1, if_false]
      have h2 : bytesLen (c :: d :: p) - utf8Len c = bytesLen (d :: p) := by simp only [bytesLen]; omega
      rw [h2, ih, List.getLast?_cons_cons]

/-- A position strictly inside the input that is a boundary is a line start iff it is 0 or the
    character before it is a line feed. -/
theorem boundary_lineStart_iff (p r : List Nat) :
    bytesLen p ∈ lineStartsOf (p ++ r) ↔ (bytesLen p = 0 ∨ charBefore (p ++ r) (bytesLen p) = 10) := by
  unfold lineStartsOf
  rw [lineStartsFrom_append, charBefore_append]
  simp only [List.mem_cons, List.mem_append, Nat.zero_add]
  constructor
  · rintro (h | h | h)
    · exact Or.inl h
    · right
      have := (end_mem_lineStartsFrom 0 p).mp (by simpa using h)
      simp [this]
    · have := lineStartsFrom_gt _ _ _ h; omega
  · rintro (h | h)
    · exact Or.inl h
    · right; left
      have hl : p.getLast? = some 10 := by
        cases hp : p.getLast? with
        | none => simp [hp] at h
        | some a => simp [hp] at h; rw [h]
      have := (end_mem_lineStartsFrom 0 p).mpr hl
      simpa using this

/-- Line starts lie on character boundaries: none strictly inside the character at the cursor. -/
theorem lineStart_in_char (p : List Nat) (c : Nat) (r : List Nat) (x : Nat)
    (hx : x ∈ lineStartsOf (p ++ c :: r)) (h1 : bytesLen p ≤ x) (h2 : x < bytesLen p + utf8Len c) :
    x = bytesLen p := by
  unfold lineStartsOf at hx
  rw [lineStartsFrom_append] at hx
  simp only [List.mem_cons, List.mem_append, Nat.zero_add] at hx
  rcases hx with h | h | h
  · omega
  · have := lineStartsFrom_le 0 p x h; omega
  · rw [lineStartsFrom_cons] at h
    by_cases hc : c = 10
    · rw [if_pos hc] at h
      rcases List.mem_cons.mp h with h | h
      · omega
      · have := lineStartsFrom_gt _ _ _ h; omega
    · rw [if_neg hc] at h
      have := lineStartsFrom_gt _ _ _ h; omega

/-! ## insertion into the recorded offsets -/

theorem mem_insertSorted {x y : Nat} {l : List Nat} : y ∈ insertSorted x l ↔ y = x ∨ y ∈ l := by
  induction l with
  | nil => simp [insertSorted]
  | cons a r ih =>
    unfold insertSorted
    by_cases h1 : x < a
    · simp [h1]
    · by_cases h2 : x = a
      · subst h2; simp
      · simp only [h1, h2, if_false, List.mem_cons, ih]
        constructor
        · rintro (h | h | h)
          · exact Or.inr (Or.inl h)
          · exact Or.inl h
          · exact Or.inr (Or.inr h)
        · rintro (h | h | h)
          · exact Or.inr (Or.inl h)
          · exact Or.inl h
          · exact Or.inr (Or.inr h)

theorem insertSorted_sorted {x : Nat} {l : List Nat} (h : StrictSorted l) : StrictSorted (insertSorted x l) := by
  induction l with
  | nil => exact ⟨by simp, trivial⟩
  | cons a r ih =>
    obtain ⟨ha, hr⟩ := h
    unfold insertSorted
    by_cases h1 : x < a
    · simp only [h1, if_true]
      refine ⟨?_, ha, hr⟩
      intro y hy
      rcases List.mem_cons.mp hy with rfl | hy
      · exact h1
      · have := ha y hy; omega
    · by_cases h2 : x = a
      · simp only [h1, h2, if_false, if_true]; subst h2; simp; exact ⟨ha, hr⟩
      · simp only [h1, h2, if_false]
        refine ⟨?_, ih hr⟩
        intro y hy
        rcases mem_insertSorted.mp hy with rfl | hy
        · omega
        · exact ha y hy

theorem mem_mergeLineOffsets {lo xs : List Nat} {y : Nat} :
    y ∈ mergeLineOffsets lo xs ↔ y ∈ lo ∨ y ∈ xs := by
  unfold mergeLineOffsets
  induction xs generalizing lo with
  | nil => simp
  | cons x xs ih =>
    simp only [List.foldl_cons, ih, mem_insertSorted, List.mem_cons]
    constructor
    · rintro ((h | h) | h)
      · exact Or.inr (Or.inl h)
      · exact Or.inl h
      · exact Or.inr (Or.inr h)
    · rintro (h | h | h)
      · exact Or.inl (Or.inr h)
      · exact Or.inl (Or.inl h)
      · exact Or.inr h

theorem mergeLineOffsets_sorted {lo xs : List Nat} (h : StrictSorted lo) :
    StrictSorted (mergeLineOffsets lo xs) := by
  unfold mergeLineOffsets
  induction xs generalizing lo with
  | nil => exact h
  | cons x xs ih => exact ih (insertSorted_sorted h)

end Scnr

namespace Scnr

/-! ## what consuming text records -/

/-- The offsets recorded while consuming `u` from relative index `rel` with last character `lc`:
    the position of every consumed character whose predecessor is a line feed. -/
def consumedStarts (off : Nat) : Nat → Nat → List Nat → List Nat
  | _, _, [] => []
  | rel, lc, c :: u =>
    if lc = 10 then (rel + off) :: consumedStarts off (rel + utf8Len c) c u
    else consumedStarts off (rel + utf8Len c) c u

theorem consumedStarts_cons (off rel lc c : Nat) (u : List Nat) :
    consumedStarts off rel lc (c :: u) =
      if lc = 10 then (rel + off) :: consumedStarts off (rel + utf8Len c) c u
      else consumedStarts off (rel + utf8Len c) c u := rfl

def lastCharAfter : Nat → List Nat → Nat
  | lc, [] => lc
  | _, c :: u => lastCharAfter c u

theorem getLast?_getD_cons (d : Nat) (u : List Nat) (a b : Nat) :
    ((d :: u).getLast?).getD a = ((d :: u).getLast?).getD b := by
  cases h : (d :: u).getLast? with
  | none => simp at h
  | some x => rfl

theorem lastCharAfter_eq (lc : Nat) (u : List Nat) : lastCharAfter lc u = (u.getLast?).getD lc := by
  induction u generalizing lc with
  | nil => rfl
  | cons c u ih =>
    simp only [lastCharAfter]
    rw [ih]
    cases u with
    | nil => simp
    | cons d u => rw [List.getLast?_cons_cons]; exact getLast?_getD_cons d u c lc

/-- Consumed positions are exactly the true line starts in the consumed range. -/
theorem mem_consumedStarts (off : Nat) (p u v : List Nat) (rel lc : Nat)
    (hP : bytesLen p = off + rel) (hlc : lc = charBefore (p ++ u ++ v) (bytesLen p)) (x : Nat) :
    x ∈ consumedStarts off rel lc u ↔
      (x ∈ lineStartsOf (p ++ u ++ v) ∧ bytesLen p ≤ x ∧ x < bytesLen p + bytesLen u ∧ 0 < x) := by
  induction u generalizing p rel lc with
  | nil => simp [consumedStarts, bytesLen]; intro _ h1 h2; omega
  | cons c u ih =>
    have hc := utf8Len_pos c
    have hin : p ++ c :: u ++ v = (p ++ [c]) ++ u ++ v := by simp
    have hlc' : c = charBefore ((p ++ [c]) ++ u ++ v) (bytesLen (p ++ [c])) := by
      rw [List.append_assoc (p ++ [c]), charBefore_append]; simp
    have hP' : bytesLen (p ++ [c]) = off + (rel + utf8Len c) := by
      rw [bytesLen_append]; simp only [bytesLen]; omega
    have ih' := ih (p ++ [c]) (rel + utf8Len c) c hP' hlc'
    rw [← hin] at ih'
    have hb : bytesLen (p ++ [c]) = bytesLen p + utf8Len c := by
      rw [bytesLen_append]; simp [bytesLen]
    -- is the cursor itself a line start?
    have hcur := boundary_lineStart_iff p (c :: u ++ v)
    have hassoc : p ++ (c :: u ++ v) = p ++ c :: u ++ v := by simp
    rw [hassoc] at hcur
    rw [consumedStarts_cons]
    simp only [bytesLen]
    by_cases h10 : lc = 10
    · simp only [h10, if_true, List.mem_cons, ih', hb]
      constructor
      · rintro (rfl | ⟨h1, h2, h3, h4⟩)
        · have hlc10 : charBefore (p ++ c :: u ++ v) (bytesLen p) = 10 := by rw [← hlc]; exact h10
          have hpos : 0 < bytesLen p := by
            cases hp : bytesLen p with
            | zero => rw [hp] at hlc10; simp [charBefore] at hlc10
            | succ n => omega
          have hro : rel + off = bytesLen p := by omega
          exact ⟨by rw [hro]; exact hcur.mpr (Or.inr hlc10), by omega, by omega, by omega⟩
        · exact ⟨h1, by omega, by omega, h4⟩
      · rintro ⟨h1, h2, h3, h4⟩
        by_cases hlt : x < bytesLen p + utf8Len c
        · left
          have := lineStart_in_char p c (u ++ v) x (by simpa using h1) h2 hlt
          omega
        · right; exact ⟨h1, by omega, by omega, h4⟩
    · simp only [h10, if_false, ih', hb]
      constructor
      · rintro ⟨h1, h2, h3, h4⟩
        exact ⟨h1, by omega, by omega, h4⟩
      · rintro ⟨h1, h2, h3, h4⟩
        by_cases hlt : x < bytesLen p + utf8Len c
        · exfalso
          have hx := lineStart_in_char p c (u ++ v) x (by simpa using h1) h2 hlt
          subst hx
          rcases hcur.mp h1 with h0 | h0
          · omega
          · rw [← hlc] at h0; exact h10 h0
        · exact ⟨h1, by omega, by omega, h4⟩

theorem lastCharAfter_spec (p u v : List Nat) (lc : Nat)
    (hlc : lc = charBefore (p ++ u ++ v) (bytesLen p)) :
    lastCharAfter lc u = charBefore (p ++ u ++ v) (bytesLen p + bytesLen u) := by
  rw [lastCharAfter_eq]
  cases u with
  | nil => simp [bytesLen, hlc]
  | cons c u =>
    have : bytesLen p + bytesLen (c :: u) = bytesLen (p ++ c :: u) := by rw [bytesLen_append]
    rw [this, charBefore_append]
    rw [List.getLast?_append]
    cases h : (c :: u).getLast? with
    | none => simp at h
    | some a => simp

/-- The skip loop records exactly `consumedStarts` of what it skips (plus the end of the input at
    exhaustion if the last character is a line feed). -/
theorem skipLoop_lines (find : List Nat → Option (Nat × Nat)) (off n : Nat) (rest : List Nat)
    (rel lc : Nat) (lo : List Nat) (hs : StrictSorted lo) :
    ∃ sk, rest = sk ++ (skipLoop find off n rest rel lc lo).rest ∧
      StrictSorted (skipLoop find off n rest rel lc lo).lineOffsets ∧
      ((skipLoop find off n rest rel lc lo).found ≠ none →
        (skipLoop find off n rest rel lc lo).lastChar = lastCharAfter lc sk ∧
        ∀ x, x ∈ (skipLoop find off n rest rel lc lo).lineOffsets ↔ x ∈ lo ∨ x ∈ consumedStarts off rel lc sk) ∧
      ((skipLoop find off n rest rel lc lo).found = none →
        (skipLoop find off n rest rel lc lo).lastChar = 0 ∧
        ∀ x, x ∈ (skipLoop find off n rest rel lc lo).lineOffsets ↔
          x ∈ lo ∨ x ∈ consumedStarts off rel lc sk ∨ (lastCharAfter lc sk = 10 ∧ x = n)) := by
  induction rest generalizing rel lc lo with
  | nil =>
    refine ⟨[], ?_⟩
    unfold skipLoop
    cases hf : find [] with
    | some r => simp [hf, hs, consumedStarts, lastCharAfter]
    | none =>
      simp only [hf, List.append_nil, consumedStarts, lastCharAfter,
        List.not_mem_nil, false_or, ne_eq, not_true_eq_false, false_implies, true_and, forall_const]
      by_cases h10 : lc = 10
      · simp only [h10, if_true]
        exact ⟨insertSorted_sorted hs, fun x => by rw [mem_insertSorted]; constructor <;> (rintro (h | h) <;> simp [h])⟩
      · simp only [h10, if_false]
        exact ⟨hs, fun x => by simp⟩
  | cons c w ih =>
    unfold skipLoop
    cases hf : find (c :: w) with
    | some r =>
      refine ⟨[], ?_⟩
      simp [hf, hs, consumedStarts, lastCharAfter]
    | none =>
      simp only
      have hs' : StrictSorted (if lc = 10 then insertSorted (rel + off) lo else lo) := by
        by_cases h10 : lc = 10
        · simp only [h10, if_true]; exact insertSorted_sorted hs
        · simp only [h10, if_false]; exact hs
      obtain ⟨sk, h1, h2, h3, h4⟩ := ih (rel + utf8Len c) c
        (if lc = 10 then insertSorted (rel + off) lo else lo) hs'
      have hmem : ∀ x, (x ∈ (if lc = 10 then insertSorted (rel + off) lo else lo) ∨
            x ∈ consumedStarts off (rel + utf8Len c) c sk) ↔
          (x ∈ lo ∨ x ∈ consumedStarts off rel lc (c :: sk)) := by
        intro x
        rw [consumedStarts_cons]
        by_cases h10 : lc = 10
        · simp only [h10, if_true, mem_insertSorted, List.mem_cons]
          constructor
          · rintro ((h | h) | h)
            · exact Or.inr (Or.inl h)
            · exact Or.inl h
            · exact Or.inr (Or.inr h)
          · rintro (h | h | h)
            · exact Or.inl (Or.inr h)
            · exact Or.inl (Or.inl h)
            · exact Or.inr h
        · simp only [h10, if_false]
      have hlast : lastCharAfter c sk = lastCharAfter lc (c :: sk) := rfl
      refine ⟨c :: sk, by simp [← h1], h2, ?_, ?_⟩
      · intro hne
        obtain ⟨a, b⟩ := h3 hne
        exact ⟨by rw [a, hlast], fun x => by rw [b x, hmem x]⟩
      · intro hnone
        obtain ⟨a, b⟩ := h4 hnone
        refine ⟨a, fun x => ?_⟩
        rw [b x, ← hlast]
        constructor
        · rintro (h | h | h)
          · rcases (hmem x).mp (Or.inl h) with h' | h'
            · exact Or.inl h'
            · exact Or.inr (Or.inl h')
          · rcases (hmem x).mp (Or.inr h) with h' | h'
            · exact Or.inl h'
            · exact Or.inr (Or.inl h')
          · exact Or.inr (Or.inr h)
        · rintro (h | h | h)
          · rcases (hmem x).mpr (Or.inl h) with h' | h'
            · exact Or.inl h'
            · exact Or.inr (Or.inl h')
          · rcases (hmem x).mpr (Or.inr h) with h' | h'
            · exact Or.inl h'
            · exact Or.inr (Or.inl h')
          · exact Or.inr (Or.inr h)

/-- The consuming loop of `advance_to` collects exactly `consumedStarts`. -/
theorem advLoop_lines (off : Nat) (u v : List Nat) (hu : u ≠ []) (rel lc np : Nat) (st : List Nat) :
    (advLoop off (rel + bytesLen u) (u ++ v) rel lc np st).lastChar = lastCharAfter lc u ∧
    ∀ x, x ∈ (advLoop off (rel + bytesLen u) (u ++ v) rel lc np st).starts ↔
      x ∈ st ∨ x ∈ consumedStarts off rel lc u := by
  induction u generalizing rel lc np st with
  | nil => exact absurd rfl hu
  | cons c u ih =>
    have hc := utf8Len_pos c
    cases u with
    | nil =>
      simp only [List.cons_append, List.nil_append, bytesLen, Nat.add_zero]
      unfold advLoop
      simp only [Nat.le_refl, ge_iff_le, if_true, lastCharAfter, consumedStarts, true_and]
      intro x
      by_cases h10 : lc = 10
      · simp only [h10, if_true, List.mem_cons, List.not_mem_nil, or_false]
        constructor <;> (rintro (h | h) <;> simp [h])
      · simp [h10, consumedStarts]
    | cons d u =>
      have hd := bytesLen_pos (u := d :: u) (by simp)
      simp only [List.cons_append]
      unfold advLoop
      have hlt : ¬ (rel + utf8Len c ≥ rel + bytesLen (c :: d :: u)) := by
        simp only [bytesLen] at hd ⊢; omega
      simp only [hlt, if_false]
      have hpos : rel + bytesLen (c :: d :: u) = (rel + utf8Len c) + bytesLen (d :: u) := by
        simp only [bytesLen]; omega
      rw [hpos]
      have := ih (by simp) (rel + utf8Len c) c rel (if lc = 10 then (rel + off) :: st else st)
      simp only [List.cons_append] at this
      obtain ⟨h1, h2⟩ := this
      refine ⟨?_, ?_⟩
      · rw [h1]; rfl
      · intro x
        rw [h2 x, consumedStarts_cons off rel lc c (d :: u)]
        by_cases h10 : lc = 10
        · simp only [h10, if_true, List.mem_cons]
          constructor
          · rintro ((h | h) | h)
            · exact Or.inr (Or.inl h)
            · exact Or.inl h
            · exact Or.inr (Or.inr h)
          · rintro (h | h | h)
            · exact Or.inl (Or.inr h)
            · exact Or.inl (Or.inl h)
            · exact Or.inr h
        · simp only [h10, if_false]

end Scnr

namespace Scnr

/-! ## the line invariant and its preservation -/

/-- `F` is the frontier: everything below `F` has been consumed at some time. -/
structure Iter.Lines (it : Iter) (F : Nat) : Prop where
  sorted : StrictSorted it.lineOffsets
  zero : 0 ∈ it.lineOffsets
  sound : ∀ x ∈ it.lineOffsets, x ∈ lineStartsOf it.input
  complete : ∀ x ∈ lineStartsOf it.input, x < F → x ∈ it.lineOffsets
  lastChar : it.lastChar = charBefore it.input it.cursor ∨ (it.rest = [] ∧ it.lastChar = 0)
  cursorLe : it.cursor ≤ F
  fLe : F ≤ bytesLen it.input

theorem Iter.new_lines (input : List Nat) : (Iter.new input).Lines 0 :=
  ⟨⟨by simp, trivial⟩, by simp [Iter.new], by simp [Iter.new, lineStartsOf],
   by intro x _ h; omega, Or.inl (by simp [Iter.new, Iter.cursor, charBefore]),
   by simp [Iter.new, Iter.cursor], by omega⟩

/-- Consuming the prefix `u` of the remaining text while recording `consumedStarts` keeps the
    invariant, with the frontier extended to the new cursor. -/
theorem lines_consume (it it' : Iter) (F : Nat) (hi : it.Inv) (hl : it.Lines F) (u v : List Nat)
    (hr : it.rest = u ++ v) (hin : it'.input = it.input) (hrest : it'.rest = v)
    (hcur : it'.cursor = it.cursor + bytesLen u)
    (hs : StrictSorted it'.lineOffsets)
    (hm : ∀ x, x ∈ it'.lineOffsets ↔ x ∈ it.lineOffsets ∨ x ∈ consumedStarts it.offset it.rel it.lastChar u)
    (hlc : it'.lastChar = lastCharAfter it.lastChar u) :
    it'.Lines (max F it'.cursor) := by
  obtain ⟨p, hp, hpl⟩ := hi.pre
  have hinput : it.input = p ++ u ++ v := by rw [hp, hr]; simp
  have hPc : bytesLen p = it.cursor := by simp [Iter.cursor]; omega
  have htot : bytesLen it.input = bytesLen p + bytesLen u + bytesLen v := by
    rw [hinput]; simp only [bytesLen_append]
  by_cases hu : u = []
  · subst hu
    simp only [bytesLen, Nat.add_zero, consumedStarts, List.not_mem_nil, or_false, lastCharAfter] at hcur hm hlc
    have hmax : max F it'.cursor = F := by have := hl.cursorLe; omega
    rw [hmax]
    refine ⟨hs, (hm 0).mpr hl.zero, ?_, ?_, ?_, by have := hl.cursorLe; omega, by rw [hin]; exact hl.fLe⟩
    · intro x hx; rw [hin]; exact hl.sound x ((hm x).mp hx)
    · intro x hx hlt; rw [hin] at hx; exact (hm x).mpr (hl.complete x hx hlt)
    · rw [hlc, hin, hcur, hrest]
      rcases hl.lastChar with h | ⟨h1, h2⟩
      · exact Or.inl h
      · right; rw [hr] at h1; simp at h1; exact ⟨h1, h2⟩
  · have hlcb : it.lastChar = charBefore (p ++ u ++ v) (bytesLen p) := by
      rcases hl.lastChar with h | ⟨h1, _⟩
      · rw [h, hinput, hPc]
      · rw [hr] at h1
        have : u = [] := by cases u <;> simp at h1 ⊢
        exact absurd this hu
    have hmc := mem_consumedStarts it.offset p u v it.rel it.lastChar (by omega) hlcb
    refine ⟨hs, (hm 0).mpr (Or.inl hl.zero), ?_, ?_, ?_, by omega, ?_⟩
    · intro x hx
      rw [hin]
      rcases (hm x).mp hx with h | h
      · exact hl.sound x h
      · rw [hinput]; exact ((hmc x).mp h).1
    · intro x hx hlt
      rw [hin] at hx
      by_cases hF : x < F
      · exact (hm x).mpr (Or.inl (hl.complete x hx hF))
      · by_cases h0 : x = 0
        · subst h0; exact (hm 0).mpr (Or.inl hl.zero)
        · refine (hm x).mpr (Or.inr ((hmc x).mpr ⟨by rw [← hinput]; exact hx, ?_, ?_, by omega⟩))
          · have := hl.cursorLe; omega
          · rw [hcur] at hlt; omega
    · left
      rw [hlc, lastCharAfter_spec p u v it.lastChar hlcb, hin, hinput, hcur, hPc]
    · rw [hin, hcur]; have := hl.fLe; omega

/-- `set_offset(o)` to a boundary at or below the frontier (an already scanned offset). -/
theorem setOffset_lines (it : Iter) (F o : Nat) (hl : it.Lines F) (ho : o ≤ F) :
    (it.setOffset o).Lines F := by
  have hmin : min o (bytesLen it.input) = o := by have := hl.fLe; omega
  refine ⟨hl.sorted, hl.zero, hl.sound, hl.complete, Or.inl ?_, ?_, hl.fLe⟩
  · simp [Iter.setOffset, Iter.cursor, hmin]
  · simp [Iter.setOffset, Iter.cursor, hmin]; exact ho

/-- One `next_match` call keeps the line invariant and extends the frontier to the new cursor. -/
theorem next_lines (cfg : List ModeCfg) (find : Finder) (hf : FinderOK find) (it : Iter) (F : Nat)
    (hi : it.Inv) (hl : it.Lines F) :
    (it.next cfg find).1.Lines (max F (it.next cfg find).1.cursor) := by
  obtain ⟨sk, k1, k2, k3, k4⟩ := skipLoop_lines (find it.mode) it.offset (bytesLen it.input)
    it.rest it.rel it.lastChar it.lineOffsets hl.sorted
  obtain ⟨sk', h1, h2, h3, h4, h5⟩ := skipLoop_spec (find it.mode) it.offset (bytesLen it.input)
    it.rest it.rel it.lastChar it.lineOffsets
  have hsk : sk' = sk := by
    have := h1.symm.trans k1
    exact List.append_cancel_right this
  subst hsk
  unfold Iter.next
  generalize skipLoop (find it.mode) it.offset (bytesLen it.input) it.rest it.rel it.lastChar
    it.lineOffsets = s at *
  obtain ⟨found, rest, rel, lc, lo⟩ := s
  simp only at h1 h2 h3 h4 h5 k2 k3 k4
  obtain ⟨p, hp, hpl⟩ := hi.pre
  cases found with
  | none =>
    simp only
    have hrest : rest = [] := h4 rfl
    subst hrest
    simp only [List.append_nil] at h1
    obtain ⟨a, b⟩ := k4 rfl
    -- first the consumption of `sk'`, then the possible record of the end of the input
    have hcur' : (it.afterSkip ⟨none, [], rel, lc, lo⟩).cursor = it.cursor + bytesLen sk' := by
      simp [Iter.afterSkip, Iter.cursor, h2]; omega
    have hend : it.cursor + bytesLen sk' = bytesLen it.input := by
      rw [hp, h1, bytesLen_append]; simp [Iter.cursor]; omega
    have hmax : max F (it.afterSkip ⟨none, [], rel, lc, lo⟩).cursor = bytesLen it.input := by
      rw [hcur', hend]; have := hl.fLe; omega
    rw [hmax]
    -- membership facts about the consumed part
    have hlcb : sk' ≠ [] → it.lastChar = charBefore (p ++ sk' ++ []) (bytesLen p) := by
      intro hne
      rcases hl.lastChar with h | ⟨h', _⟩
      · rw [h, hp, h1]; simp [Iter.cursor]; rw [hpl]
      · rw [h1] at h'; exact absurd h' hne
    have hinput : it.input = p ++ sk' ++ [] := by rw [hp, h1]; simp
    refine ⟨k2, (b 0).mpr (Or.inl hl.zero), ?_, ?_, Or.inr ⟨rfl, a⟩, by rw [hcur', hend]; exact Nat.le_refl _,
      Nat.le_refl _⟩
    · intro x hx
      simp only [Iter.afterSkip] at hx ⊢
      rcases (b x).mp hx with h | h | ⟨h, rfl⟩
      · exact hl.sound x h
      · by_cases hne : sk' = []
        · subst hne; simp [consumedStarts] at h
        · rw [hinput]
          exact ((mem_consumedStarts it.offset p sk' [] it.rel it.lastChar (by omega) (hlcb hne) x).mp h).1
      · -- the end of the input is a line start: its last character is a line feed
        have hb := boundary_lineStart_iff it.input []
        simp only [List.append_nil] at hb
        apply hb.mpr
        right
        by_cases hne : sk' = []
        · subst hne
          simp only [lastCharAfter] at h
          rcases hl.lastChar with h' | ⟨_, h'⟩
          · rw [← h, h']; congr 1; simp [bytesLen] at hend; exact hend.symm
          · rw [h'] at h; omega
        · rw [← h, lastCharAfter_spec p sk' [] it.lastChar (hlcb hne), ← hinput]
          congr 1; rw [← hend]; simp [Iter.cursor]; omega
    · intro x hx hlt
      simp only [Iter.afterSkip] at hx ⊢
      by_cases hF : x < F
      · exact (b x).mpr (Or.inl (hl.complete x hx hF))
      · by_cases h0 : x = 0
        · subst h0; exact (b 0).mpr (Or.inl hl.zero)
        · have hne : sk' ≠ [] := by
            intro hn; subst hn; simp [bytesLen] at hend; have := hl.cursorLe; omega
          refine (b x).mpr (Or.inr (Or.inl ((mem_consumedStarts it.offset p sk' [] it.rel it.lastChar
            (by omega) (hlcb hne) x).mpr ⟨by rw [← hinput]; exact hx, ?_, ?_, by omega⟩)))
          · have := hl.cursorLe; simp [Iter.cursor] at this; omega
          · rw [← hend] at hlt; simp [Iter.cursor] at hlt; omega
  | some r =>
    obtain ⟨tid, len⟩ := r
    simp only
    obtain ⟨u, v, hu, huv, hlen⟩ := hf it.mode rest tid len h3.symm
    subst huv hlen
    obtain ⟨a, b⟩ := k3 (by simp)
    have hb := bytesLen_pos hu
    have hne : bytesLen u ≠ 0 := by omega
    -- step 1: the skip
    let it1 : Iter := it.afterSkip ⟨some (tid, bytesLen u), u ++ v, rel, lc, lo⟩
    have hi1 : it1.Inv := by
      refine ⟨⟨p ++ sk', ?_, ?_⟩, ?_⟩
      · simp only [it1, Iter.afterSkip]; rw [hp, h1]; simp
      · simp only [it1, Iter.afterSkip]; rw [bytesLen_append, h2]; omega
      · simp only [it1, Iter.afterSkip]; have := hi.lastPos; omega
    have hl1 : it1.Lines (max F it1.cursor) :=
      lines_consume it it1 F hi hl sk' (u ++ v) h1 rfl rfl
        (by simp [it1, Iter.afterSkip, Iter.cursor, h2]; omega) k2 b a
    -- step 2: the consumption of the match
    let it1m : Iter := { it1 with mode := (hasTransition (modeTrans cfg it.mode) tid).getD it.mode }
    have hi1m : it1m.Inv := ⟨hi1.pre, hi1.lastPos⟩
    have hl1m : it1m.Lines (max F it1.cursor) :=
      ⟨hl1.sorted, hl1.zero, hl1.sound, hl1.complete, hl1.lastChar, hl1.cursorLe, hl1.fLe⟩
    obtain ⟨a1, a2, a3, a4, a5, a6⟩ := advanceToRel_spec it1m u v hu rfl hi1m.lastPos
    obtain ⟨c1, c2⟩ := advLoop_lines it1m.offset u v hu it1m.rel it1m.lastChar 0 []
    have hcons : (it.afterSkip ⟨some (tid, bytesLen u), u ++ v, rel, lc, lo⟩).consume cfg tid (bytesLen u) =
        it1m.advanceToRel (it1m.rel + bytesLen u) := by
      simp only [Iter.consume, hne, if_false]
      rfl
    rw [hcons]
    have hfin := lines_consume it1m (it1m.advanceToRel (it1m.rel + bytesLen u)) (max F it1.cursor) hi1m hl1m
      u v rfl a4 a1 (by simp only [Iter.cursor]; rw [a5, a2]; omega)
      (by
        unfold Iter.advanceToRel
        have h0 : ¬ (it1m.rel + bytesLen u < it1m.lastPosition) := by have := hi1m.lastPos; omega
        simp only [h0, if_false]
        exact mergeLineOffsets_sorted hl1m.sorted)
      (by
        intro x
        unfold Iter.advanceToRel
        have h0 : ¬ (it1m.rel + bytesLen u < it1m.lastPosition) := by have := hi1m.lastPos; omega
        simp only [h0, if_false]
        rw [mem_mergeLineOffsets, List.mem_reverse]
        have := c2 x
        simp only [List.not_mem_nil, false_or] at this
        have hrest1 : it1m.rest = u ++ v := rfl
        rw [hrest1, this])
      (by
        unfold Iter.advanceToRel
        have h0 : ¬ (it1m.rel + bytesLen u < it1m.lastPosition) := by have := hi1m.lastPos; omega
        simp only [h0, if_false]
        have hrest1 : it1m.rest = u ++ v := rfl
        rw [hrest1]
        exact c1)
    have hmax : max (max F it1.cursor) (it1m.advanceToRel (it1m.rel + bytesLen u)).cursor =
        max F (it1m.advanceToRel (it1m.rel + bytesLen u)).cursor := by
      have : (it1m.advanceToRel (it1m.rel + bytesLen u)).cursor = it1.cursor + bytesLen u := by
        simp only [Iter.cursor]; rw [a5, a2]; simp [it1m]; omega
      omega
    rw [hmax] at hfin
    exact hfin

end Scnr
