import ScnrVerif.Proofs.EpsElim
/-!
# The closure construction for a single NFA (`impl From<Nfa> for CompiledDfa`, lookahead automata)
-/
namespace Scnr

theorem mem_insertPair (x y : Nat × Nat) (l : List (Nat × Nat)) : y ∈ insertPair x l ↔ y = x ∨ y ∈ l := by
  induction l with
  | nil => simp [insertPair]
  | cons z r ih =>
    simp only [insertPair]
    split
    · rename_i h; subst h; simp
    · split
      · simp
      · simp only [List.mem_cons, ih]
        constructor
        · rintro (h | h | h) <;> simp [h]
        · rintro (h | h | h) <;> simp [h]

theorem mem_sortPairs_aux (l acc : List (Nat × Nat)) (y : Nat × Nat) :
    y ∈ l.foldl (fun acc x => insertPair x acc) acc ↔ y ∈ acc ∨ y ∈ l := by
  induction l generalizing acc with
  | nil => simp
  | cons x r ih =>
    simp only [List.foldl_cons, ih, mem_insertPair, List.mem_cons]
    constructor
    · rintro ((h | h) | h) <;> simp [h]
    · rintro (h | h | h) <;> simp [h]

theorem mem_sortPairs (l : List (Nat × Nat)) (y : Nat × Nat) : y ∈ sortPairs l ↔ y ∈ l := by
  simp [sortPairs, mem_sortPairs_aux]

theorem mem_gen1_tr (n : Nfa) (tid : Nat) (cl : List Nat) (x : Nat × Nat) :
    x ∈ (n.gen tid).tr cl ↔ ∃ s ∈ cl, x ∈ (n.state s).trans := by
  simp [Nfa.gen, mem_sortPairs, List.mem_flatMap]

theorem gen1_ok (n : Nfa) (tid : Nat) (h : n.WF) (hf : n.StartFresh) :
    GOK (n.gen tid) n.start (fun t => n.contains t = true ∧ t ≠ n.start) (n.base + n.states.length) := by
  refine ⟨?_, fun t ht => ((contains_iff n t).mp ht.1).2, ((contains_iff n _).mp h.start_in).2⟩
  intro cl hcl x hx
  obtain ⟨s, hs, hxs⟩ := (mem_gen1_tr n tid cl x).mp hx
  have hsc : n.contains s = true := by
    rcases hcl with rfl | ⟨t, ht, rfl⟩
    · exact epsReach_contains n h _ _ h.start_in ((mem_epsClosure n h _ h.start_in s).mp hs)
    · exact epsReach_contains n h _ _ ht.1 ((mem_epsClosure n h _ ht.1 s).mp hs)
  exact ⟨h.trans_in s hsc x hxs, (hf s hsc).2 x hxs⟩

def finalSt1 (n : Nfa) (tid : Nat) : BuildSt :=
  genLoop (n.gen tid) (n.states.length + 2) 0 (initSt (n.gen tid) n.start)

theorem buildDfa1_eq (n : Nfa) (tid : Nat) : buildDfa1 n tid = mkDfa (finalSt1 n tid) [tid] := rfl

abbrev Inv1 (n : Nfa) (tid : Nat) (b : BuildSt) : Prop := GInv (n.gen tid) n.start (fun t => n.contains t = true ∧ t ≠ n.start) b

theorem finalSt1_spec (n : Nfa) (tid : Nat) (h : n.WF) (hf : n.StartFresh) (hb : n.base = 0) :
    Inv1 n tid (finalSt1 n tid) ∧
      ∀ i, i < (finalSt1 n tid).map.length → AllDone (n.gen tid) (finalSt1 n tid) i :=
  genLoop_final (gen1_ok n tid h hf) (n.states.length + 2) (by omega)

/-- state `j` is the ε-closure of NFA state `q` -/
def Rep1 (n : Nfa) (b : BuildSt) (j q : Nat) : Prop :=
  n.contains q = true ∧ b.map[j]? = some (n.epsClosure q, j)

theorem rep1_step_sound {n : Nfa} {tid : Nat} (hw : n.WF) {b : BuildSt} (h : Inv1 n tid b) {j q : Nat}
    (hr : Rep1 n b j q) {cc j' : Nat} (ht : (j, cc, j') ∈ b.trans) (cm : Nat → Nat → Bool) (c : Nat)
    (hcm : cm cc c = true) : ∃ t, Rep1 n b j' t ∧ n.StepC cm q c t := by
  obtain ⟨hq, hj⟩ := hr
  obtain ⟨cli, t, h1, h2, h3⟩ := h.tsound _ ht
  simp only at h1 h2 h3
  rw [hj] at h1
  have hcl : n.epsClosure q = cli := congrArg Prod.fst (Option.some.inj h1)
  subst hcl
  obtain ⟨s, hs, hxs⟩ := (mem_gen1_tr n tid _ _).mp h2
  have hreach := (mem_epsClosure n hw _ hq s).mp hs
  have hsc := epsReach_contains n hw _ _ hq hreach
  exact ⟨t, ⟨hw.trans_in s hsc _ hxs, h3⟩, ⟨s, cc, hreach, hsc, hxs, hcm⟩⟩

def Rep1A (n : Nfa) (tid : Nat) (b : BuildSt) (j q : Nat) : Prop :=
  Rep1 n b j q ∧ ((n.epsClosure q).contains n.fin = true → (j, tid) ∈ b.acc)

theorem rep1_step_complete {n : Nfa} {tid : Nat} (hw : n.WF) {b : BuildSt} {j q : Nat}
    (hr : Rep1 n b j q) (hd : AllDone (n.gen tid) b j) (cm : Nat → Nat → Bool) (c t : Nat)
    (hs : n.StepC cm q c t) : ∃ cc j', (j, cc, j') ∈ b.trans ∧ cm cc c = true ∧ Rep1A n tid b j' t := by
  obtain ⟨hq, hj⟩ := hr
  obtain ⟨s, cc, hreach, hsc, hxs, hcm⟩ := hs
  have hmem : (cc, t) ∈ (n.gen tid).tr (n.epsClosure q) :=
    (mem_gen1_tr n tid _ _).mpr ⟨s, (mem_epsClosure n hw _ hq s).mpr hreach, hxs⟩
  obtain ⟨j', h1, h2, h3⟩ := hd _ hj _ hmem
  exact ⟨cc, j', h2, hcm, ⟨hw.trans_in s hsc _ hxs, h1⟩, h3⟩

theorem rep1_acc_sound {n : Nfa} {tid : Nat} (hw : n.WF) {b : BuildSt} (h : Inv1 n tid b) {j q : Nat}
    (hr : Rep1 n b j q) {tid' : Nat} (ha : (j, tid') ∈ b.acc) : tid' = tid ∧ n.EpsReach q n.fin := by
  obtain ⟨hq, hj⟩ := hr
  obtain ⟨t, ht, h1, h2, h3⟩ := h.asound _ ha
  simp only at h1 h3
  rw [hj] at h1
  have hcl : n.epsClosure q = n.epsClosure t := congrArg Prod.fst (Option.some.inj h1)
  refine ⟨h3, ?_⟩
  have h2' : (n.epsClosure t).contains n.fin = true := h2
  rw [← hcl] at h2'
  exact (mem_epsClosure n hw _ hq _).mp (by simpa using h2')

theorem reach1_sound {n : Nfa} {tid : Nat} (hw : n.WF) {b : BuildSt} (h : Inv1 n tid b)
    (cm : Nat → Nat → Bool) (w : List Nat) : ∀ (S : List Nat) (u : List Nat),
    (∀ j ∈ S, ∃ q, Rep1 n b j q ∧ n.Path cm n.start u q) →
    ∀ j' ∈ reach (mkDfa b [tid]) cm S w, ∃ q, Rep1 n b j' q ∧ n.Path cm n.start (u ++ w) q := by
  induction w with
  | nil => intro S u hS j' hj'; simpa using hS j' hj'
  | cons c w ih =>
    intro S u hS j' hj'
    simp only [reach] at hj'
    have := ih (stepStates (mkDfa b [tid]) cm c S) (u ++ [c]) (by
      intro j1 hj1
      obtain ⟨j, hj, cc, hout, hcm⟩ := mem_step_iff.mp hj1
      obtain ⟨q, hr, hpath⟩ := hS j hj
      obtain ⟨t, hrt, hst⟩ := rep1_step_sound hw h hr
        ((mkDfa_outs (fun x hx => (h.trans_lt x hx).1) [tid] _ _ _).mp hout) cm c hcm
      exact ⟨t, hrt, path_trans hpath (stepC_path hst)⟩) j' hj'
    simpa using this

theorem reach1_complete {n : Nfa} {tid : Nat} (hw : n.WF) {b : BuildSt} (h : Inv1 n tid b)
    (hd : ∀ i, i < b.map.length → AllDone (n.gen tid) b i) (cm : Nat → Nat → Bool) (w : List Nat) :
    ∀ (S : List Nat) (j q : Nat), j ∈ S → Rep1A n tid b j q → n.Path cm q w n.fin →
    ∃ j' ∈ reach (mkDfa b [tid]) cm S w, (mkDfa b [tid]).isEnd j' = true ∧ (mkDfa b [tid]).tidOf j' = tid := by
  induction w with
  | nil =>
    intro S j q hj hr hpath
    have hreach := (path_nil_iff_epsReach _ cm _ _).mp hpath
    have hacc := hr.2 (by simpa using (mem_epsClosure n hw _ hr.1.1 _).mpr hreach)
    have hend : (mkDfa b [tid]).isEnd j = true := (mkDfa_isEnd (fun x hx => h.acc_lt x hx) [tid] j).mpr ⟨_, hacc⟩
    exact ⟨j, hj, hend, (rep1_acc_sound hw h hr.1 (mkDfa_tidOf_mem [tid] j hend)).1⟩
  | cons c w ih =>
    intro S j q hj hr hpath
    obtain ⟨t, hst, hrest⟩ := (path_cons_iff _ cm _ _ _ _).mp hpath
    have hjl : j < b.map.length := by
      rcases Nat.lt_or_ge j b.map.length with hl | hl
      · exact hl
      · have := hr.1.2; rw [List.getElem?_eq_none hl] at this; cases this
    obtain ⟨cc, j1, htr, hcm, hr1⟩ := rep1_step_complete hw hr.1 (hd j hjl) cm c t hst
    have hj1 : j1 ∈ stepStates (mkDfa b [tid]) cm c S :=
      mem_step_iff.mpr ⟨j, hj, cc, (mkDfa_outs (fun x hx => (h.trans_lt x hx).1) [tid] _ _ _).mpr htr, hcm⟩
    simp only [reach]
    exact ih _ j1 t hj1 hr1 hrest

theorem epsReach_start {n : Nfa} (hf : n.StartFresh) {t : Nat} (hr : n.EpsReach t n.start) : t = n.start := by
  generalize hs : n.start = u at hr
  induction hr with
  | refl s => rfl
  | step hc ht _ ih =>
    have h1 := ih hs
    subst h1
    rw [← hs] at ht
    exact absurd ht (hf _ hc).1

theorem zero1_not_end {n : Nfa} {tid : Nat} (hw : n.WF) (hf : n.StartFresh) {b : BuildSt} (h : Inv1 n tid b) :
    (mkDfa b [tid]).isEnd 0 = false := by
  cases he : (mkDfa b [tid]).isEnd 0 with
  | false => rfl
  | true =>
    exfalso
    obtain ⟨tid', ht⟩ := (mkDfa_isEnd (fun x hx => h.acc_lt x hx) [tid] 0).mp he
    obtain ⟨t, ⟨htc, hne⟩, h1, _⟩ := h.asound _ ht
    simp only at h1
    rw [h.zero] at h1
    have hcl : n.epsClosure n.start = n.epsClosure t := congrArg Prod.fst (Option.some.inj h1)
    have h0 : n.start ∈ n.epsClosure t := by
      rw [← hcl]; exact (mem_epsClosure n hw _ hw.start_in _).mpr (.refl _)
    exact hne (epsReach_start hf ((mem_epsClosure n hw _ htc _).mp h0))

/-- **the closure construction for a single NFA is correct** -/
theorem buildDfa1_correct (n : Nfa) (tid : Nat) (hw : n.WF) (hf : n.StartFresh) (hb : n.base = 0)
    (cm : Nat → Nat → Bool) (w : List Nat) (t : Nat) :
    acceptsTid (buildDfa1 n tid) cm w t ↔ w ≠ [] ∧ t = tid ∧ n.Accepts cm w := by
  rw [buildDfa1_eq]
  obtain ⟨h, hd⟩ := finalSt1_spec n tid hw hf hb
  have hrep0 : Rep1 n (finalSt1 n tid) 0 n.start := ⟨hw.start_in, h.zero⟩
  cases w with
  | nil =>
    simp only [acceptsTid, reach, List.mem_singleton, ne_eq, not_true_eq_false, false_and, iff_false]
    rintro ⟨s, rfl, he, _⟩
    rw [zero1_not_end hw hf h] at he; cases he
  | cons c w =>
    simp only [ne_eq, reduceCtorEq, not_false_eq_true, true_and]
    constructor
    · rintro ⟨j', hj', hend, htid⟩
      obtain ⟨q, hr, hpath⟩ := reach1_sound hw h cm (c :: w) [0] [] (by
        intro j hj
        simp only [List.mem_singleton] at hj
        subst hj
        exact ⟨n.start, hrep0, .nil _⟩) j' hj'
      have hmem := mkDfa_tidOf_mem [tid] j' hend
      obtain ⟨ht, hfin⟩ := rep1_acc_sound hw h hr hmem
      refine ⟨by rw [← htid, ht], ?_⟩
      have := path_trans hpath (epsReach_path (cm := cm) hfin)
      simpa [Nfa.Accepts] using this
    · rintro ⟨rfl, hacc⟩
      obtain ⟨t1, hst, hrest⟩ := (path_cons_iff _ cm _ _ _ _).mp hacc
      obtain ⟨cc, j1, htr, hcm, hr1⟩ := rep1_step_complete hw hrep0 (hd 0 h.pos) cm c t1 hst
      have hj1 : j1 ∈ stepStates (mkDfa (finalSt1 n t) [t]) cm c [0] :=
        mem_step_iff.mpr ⟨0, by simp, cc, (mkDfa_outs (fun x hx => (h.trans_lt x hx).1) [t] _ _ _).mpr htr, hcm⟩
      obtain ⟨j', hj', hend, htid⟩ := reach1_complete hw h hd cm w _ j1 t1 hj1 hr1 hrest
      exact ⟨j', by simpa [reach] using hj', hend, htid⟩

theorem buildDfa1_start (n : Nfa) (tid : Nat) (hw : n.WF) (hf : n.StartFresh) (hb : n.base = 0) :
    (buildDfa1 n tid).isEnd 0 = false := by
  rw [buildDfa1_eq]; exact zero1_not_end hw hf (finalSt1_spec n tid hw hf hb).1

theorem buildDfa1_nonempty (n : Nfa) (tid : Nat) (hw : n.WF) (hf : n.StartFresh) (hb : n.base = 0) :
    0 < (buildDfa1 n tid).trans.length := by
  rw [buildDfa1_eq]
  simp only [mkDfa, List.length_map, List.length_range]
  exact (finalSt1_spec n tid hw hf hb).1.pos

theorem buildDfa1_targets (n : Nfa) (tid : Nat) (hw : n.WF) (hf : n.StartFresh) (hb : n.base = 0) (s cc t : Nat)
    (ht : (cc, t) ∈ (buildDfa1 n tid).outs s) : t < (buildDfa1 n tid).trans.length := by
  rw [buildDfa1_eq] at ht ⊢
  have h := (finalSt1_spec n tid hw hf hb).1
  have := (mkDfa_outs (fun x hx => (h.trans_lt x hx).1) [tid] s cc t).mp ht
  simp only [mkDfa, List.length_map, List.length_range]
  exact (h.trans_lt _ this).2

end Scnr
