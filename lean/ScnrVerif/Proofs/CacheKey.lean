import ScnrVerif.Model.CacheKey
import ScnrVerif.Proofs.World
namespace Scnr

theorem laEq_iff (a b : LookaheadC) : laEq a b = true ↔ a = b := by
  cases a; cases b; simp [laEq]

theorem optLaEq_iff (a b : Option LookaheadC) : optLaEq a b = true ↔ a = b := by
  cases a <;> cases b <;> simp [optLaEq, laEq_iff]

theorem patEq_iff (a b : PatternC) : patEq a b = true ↔ a = b := by
  cases a; cases b; simp [patEq, optLaEq_iff, and_assoc]

theorem listEq_iff {α : Type} (eq : α → α → Bool) (h : ∀ a b, eq a b = true ↔ a = b) :
    ∀ (x y : List α), listEq eq x y = true ↔ x = y
  | [], [] => by simp [listEq]
  | [], _ :: _ => by simp [listEq]
  | _ :: _, [] => by simp [listEq]
  | a :: as, b :: bs => by simp [listEq, h, listEq_iff eq h as bs]

theorem modeEq_iff (a b : ModeC) : modeEq a b = true ↔ a = b := by
  cases a; cases b; simp [modeEq, listEq_iff patEq patEq_iff, and_assoc]

theorem keyEq_iff (a b : CfgKey) : keyEq a b = true ↔ a = b := listEq_iff modeEq modeEq_iff a b

theorem keyEq_self (a : CfgKey) : keyEq a a = true := (keyEq_iff a a).mpr rfl

def CacheInvK (compileK : CfgKey → Option CompId) (cache : List (CfgKey × CompId)) : Prop :=
  ∀ p ∈ cache, compileK p.1 = some p.2

theorem lookupK_of_inv {compileK} {cache : List (CfgKey × CompId)} (h : CacheInvK compileK cache) {k c}
    (hl : lookupK cache k = some c) : compileK k = some c := by
  induction cache with
  | nil => cases hl
  | cons p r ih =>
    obtain ⟨k', c'⟩ := p
    simp only [lookupK] at hl
    by_cases he : keyEq k k' = true
    · rw [if_pos he] at hl
      cases hl
      have := (keyEq_iff k k').mp he
      subst this
      exact h (k, c) (List.mem_cons_self ..)
    · rw [if_neg he] at hl
      exact ih (fun p hp => h p (List.mem_cons_of_mem _ hp)) hl

theorem cacheGetK_spec (compileK : CfgKey → Option CompId) (cache : List (CfgKey × CompId))
    (h : CacheInvK compileK cache) (k : CfgKey) :
    (cacheGetK compileK cache k).2 = compileK k ∧ CacheInvK compileK (cacheGetK compileK cache k).1 ∧
    (compileK k = none → (cacheGetK compileK cache k).1 = cache) := by
  unfold cacheGetK
  cases hl : lookupK cache k with
  | some c =>
    simp only
    exact ⟨(lookupK_of_inv h hl).symm, h, fun _ => trivial⟩
  | none =>
    simp only
    cases hc : compileK k with
    | some c =>
      simp only
      refine ⟨trivial, ?_, fun h' => by cases h'⟩
      intro p hp
      rcases List.mem_cons.mp hp with rfl | hp
      · exact hc
      · exact h p hp
    | none => exact ⟨rfl, h, fun _ => rfl⟩

theorem runK_results (compileK : CfgKey → Option CompId) :
    ∀ (cache : List (CfgKey × CompId)) (ks : List CfgKey), CacheInvK compileK cache →
      (runK compileK cache ks).2 = ks.map compileK ∧ CacheInvK compileK (runK compileK cache ks).1
  | cache, [], h => ⟨rfl, h⟩
  | cache, k :: ks, h => by
    have s := cacheGetK_spec compileK cache h k
    have r := runK_results compileK (cacheGetK compileK cache k).1 ks s.2.1
    simp only [runK, List.map_cons]
    exact ⟨by rw [s.1, r.1], r.2⟩

/-- abstraction of a structural cache to the identifier cache of `Model/World.lean` -/
def absCache (num : CfgKey → CfgId) (cache : List (CfgKey × CompId)) : List (CfgId × CompId) :=
  cache.map fun p => (num p.1, p.2)

theorem lookup_abs (num : CfgKey → CfgId) (inj : ∀ a b, num a = num b → a = b)
    (cache : List (CfgKey × CompId)) (k : CfgKey) :
    (absCache num cache).lookup (num k) = lookupK cache k := by
  induction cache with
  | nil => rfl
  | cons p r ih =>
    obtain ⟨k', c⟩ := p
    simp only [absCache, List.map_cons, List.lookup_cons, lookupK]
    by_cases he : keyEq k k' = true
    · have := (keyEq_iff k k').mp he
      subst this
      simp [he]
    · have hne : k ≠ k' := fun e => he ((keyEq_iff k k').mpr e)
      have hn : (num k == num k') = false := by
        simp only [beq_eq_false_iff_ne, ne_eq]
        exact fun e => hne (inj _ _ e)
      rw [hn, if_neg he]
      exact ih

/-- **Refinement**: for every injective numbering of configurations the cache over structural
    keys and the cache over identifiers make the same step. -/
theorem cacheGetK_refines (num : CfgKey → CfgId) (inj : ∀ a b, num a = num b → a = b)
    (compileK : CfgKey → Option CompId) (compile : CfgId → Option CompId)
    (hc : ∀ k, compile (num k) = compileK k) (cache : List (CfgKey × CompId)) (k : CfgKey) :
    cacheGet compile (absCache num cache) (num k) =
      (absCache num (cacheGetK compileK cache k).1, (cacheGetK compileK cache k).2) := by
  unfold cacheGet cacheGetK
  rw [lookup_abs num inj cache k, hc k]
  cases lookupK cache k with
  | some c => rfl
  | none =>
    cases compileK k with
    | some c => rfl
    | none => rfl

end Scnr
