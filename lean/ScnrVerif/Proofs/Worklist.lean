import ScnrVerif.Proofs.EpsClosure
/-!
# The worklist of the closure constructions, generically (track A)

`genLoop` (Model/Compile.lean) is the loop shared by `impl From<MultiPatternNfa> for CompiledDfa`
and `impl From<Nfa> for CompiledDfa`. Invariant `GInv`: state ids are positions, closures are
pairwise different, every registered closure is the closure of the initial state or of a valid
target, every recorded transition / acceptance mark has a witness. `genLoop_spec`: the fuel suffices
(pigeonhole on the closures) and at the end every target of every registered state has been handled.
-/
namespace Scnr

/-! ### the worklist of the closure construction -/

theorem find_ids {l : List (List Nat × Nat)} {k : Nat} (hid : ∀ (j : Nat) (e : List Nat × Nat), l[j]? = some e → e.2 = k + j) (i : Nat) :
    l.find? (fun p => p.2 == k + i) = l[i]? := by
  induction l generalizing k i with
  | nil => simp
  | cons x r ih =>
    have hx : x.2 = k := by simpa using hid 0 x (by simp)
    cases i with
    | zero => simp [hx]
    | succ i =>
      have hne : (x.2 == k + (i + 1)) = false := by simp [hx]
      simp only [List.find?_cons, hne, List.getElem?_cons_succ]
      have := ih (k := k + 1) (fun j e h => by have := hid (j + 1) e (by simpa using h); omega) i
      rw [← this]
      congr 1
      funext p
      congr 1
      omega

structure GInv (g : Gen) (q0 : Nat) (V : Nat → Prop) (b : BuildSt) : Prop where
  ids : ∀ (j : Nat) (e : List Nat × Nat), b.map[j]? = some e → e.2 = j
  nodup : (b.map.map Prod.fst).Nodup
  zero : b.map[0]? = some (g.clos q0, 0)
  reps : ∀ (j : Nat) (e : List Nat × Nat), b.map[j]? = some e → 1 ≤ j → ∃ t, V t ∧ e.1 = g.clos t
  tsound : ∀ x ∈ b.trans, ∃ cli t, b.map[x.1]? = some (cli, x.1) ∧ (x.2.1, t) ∈ g.tr cli ∧
    b.map[x.2.2]? = some (g.clos t, x.2.2)
  asound : ∀ x ∈ b.acc, ∃ t, V t ∧ b.map[x.1]? = some (g.clos t, x.1) ∧
    g.accf (g.clos t) = true ∧ x.2 = g.tidf t

theorem GInv.closureOf {g : Gen} {q0 : Nat} {V : Nat → Prop} {b : BuildSt} (h : GInv g q0 V b) (i : Nat) (cl : List Nat)
    (hi : b.map[i]? = some (cl, i)) : b.closureOf i = cl := by
  have := find_ids (l := b.map) (k := 0) (fun j e he => by simpa using h.ids j e he) i
  simp only [Nat.zero_add] at this
  simp [BuildSt.closureOf, this, hi]

theorem GInv.entry {g : Gen} {q0 : Nat} {V : Nat → Prop} {b : BuildSt} (h : GInv g q0 V b) {i : Nat} (hi : i < b.map.length) :
    ∃ cl, b.map[i]? = some (cl, i) := by
  have hs : b.map[i]? = some b.map[i] := List.getElem?_eq_getElem hi
  have := h.ids i _ hs
  exact ⟨b.map[i].1, by rw [hs]; congr 1; exact Prod.ext rfl this⟩

theorem lookup_some {g : Gen} {q0 : Nat} {V : Nat → Prop} {b : BuildSt} (h : GInv g q0 V b) (cl : List Nat) (id : Nat) :
    b.lookup cl = some id ↔ b.map[id]? = some (cl, id) := by
  simp only [BuildSt.lookup, Option.map_eq_some_iff]
  constructor
  · rintro ⟨e, he, rfl⟩
    have hmem := List.mem_of_find?_eq_some he
    have hcl : e.1 = cl := by simpa using List.find?_some he
    obtain ⟨j, hj⟩ := List.getElem?_of_mem hmem
    have := h.ids j e hj
    rw [this, hj, ← hcl]
    congr 1
    exact Prod.ext rfl this
  · intro hid
    have hmem : (cl, id) ∈ b.map := List.mem_of_getElem? hid
    cases hf : b.map.find? (fun p => p.1 == cl) with
    | none =>
      have := List.find?_eq_none.mp hf (cl, id) hmem
      simp at this
    | some e =>
      refine ⟨e, rfl, ?_⟩
      have hmem' := List.mem_of_find?_eq_some hf
      have hcl : e.1 = cl := by simpa using List.find?_some hf
      obtain ⟨j, hj⟩ := List.getElem?_of_mem hmem'
      have hj2 := h.ids j e hj
      -- two entries with the same closure are the same entry
      have hnd := h.nodup
      have h1 : (b.map.map Prod.fst)[j]? = some cl := by simp [hj, hcl]
      have h2 : (b.map.map Prod.fst)[id]? = some cl := by simp [hid]
      have : j = id := by
        have hjl : j < (b.map.map Prod.fst).length := by
          rcases Nat.lt_or_ge j (b.map.map Prod.fst).length with h | h
          · exact h
          · rw [List.getElem?_eq_none h] at h1; cases h1
        have hil : id < (b.map.map Prod.fst).length := by
          rcases Nat.lt_or_ge id (b.map.map Prod.fst).length with h | h
          · exact h
          · rw [List.getElem?_eq_none h] at h2; cases h2
        have e1 : (b.map.map Prod.fst)[j] = cl := by
          have := List.getElem?_eq_getElem hjl; rw [this] at h1; exact Option.some.inj h1
        have e2 : (b.map.map Prod.fst)[id] = cl := by
          have := List.getElem?_eq_getElem hil; rw [this] at h2; exact Option.some.inj h2
        exact (List.getElem_inj hnd).mp (e1.trans e2.symm)
      omega

theorem lookup_none {b : BuildSt} (cl : List Nat) (h : b.lookup cl = none) : cl ∉ b.map.map Prod.fst := by
  simp only [BuildSt.lookup, Option.map_eq_none_iff] at h
  intro hm
  obtain ⟨e, he, hcl⟩ := List.mem_map.mp hm
  have := List.find?_eq_none.mp h e he
  simp [hcl] at this

structure BExt (b b' : BuildSt) : Prop where
  map : ∃ e, b'.map = b.map ++ e
  trans : ∀ x ∈ b.trans, x ∈ b'.trans
  acc : ∀ x ∈ b.acc, x ∈ b'.acc

theorem BExt.refl (b : BuildSt) : BExt b b := ⟨⟨[], by simp⟩, fun _ h => h, fun _ h => h⟩

theorem BExt.comp {a b c : BuildSt} (h1 : BExt a b) (h2 : BExt b c) : BExt a c := by
  obtain ⟨e1, he1⟩ := h1.map
  obtain ⟨e2, he2⟩ := h2.map
  exact ⟨⟨e1 ++ e2, by rw [he2, he1, List.append_assoc]⟩, fun x h => h2.trans x (h1.trans x h),
    fun x h => h2.acc x (h1.acc x h)⟩

theorem getElem?_append_some {α : Type} {l r : List α} {i : Nat} {e : α} (h : l[i]? = some e) :
    (l ++ r)[i]? = some e := by
  have hi : i < l.length := by
    rcases Nat.lt_or_ge i l.length with h' | h'
    · exact h'
    · rw [List.getElem?_eq_none h'] at h; cases h
  rw [List.getElem?_append_left hi]; exact h

theorem BExt.get {b b' : BuildSt} (h : BExt b b') {i : Nat} {e : List Nat × Nat} (hi : b.map[i]? = some e) :
    b'.map[i]? = some e := by
  obtain ⟨r, hr⟩ := h.map
  rw [hr]; exact getElem?_append_some hi

/-- the target `x` of state `src` has been handled -/
def Done (g : Gen) (b : BuildSt) (src : Nat) (x : Nat × Nat) : Prop :=
  ∃ j, b.map[j]? = some (g.clos x.2, j) ∧ (src, x.1, j) ∈ b.trans ∧
    (g.accf (g.clos x.2) = true → (j, g.tidf x.2) ∈ b.acc)

theorem Done.mono {g : Gen} {b b' : BuildSt} (h : BExt b b') {src : Nat} {x : Nat × Nat}
    (hd : Done g b src x) : Done g b' src x := by
  obtain ⟨j, h1, h2, h3⟩ := hd
  exact ⟨j, h.get h1, h.trans _ h2, fun ha => h.acc _ (h3 ha)⟩

theorem genStep_ext (g : Gen) (src : Nat) (b : BuildSt) (x : Nat × Nat) : BExt b (genStep g src b x) := by
  refine ⟨?_, ?_, ?_⟩
  · simp only [genStep]
    split
    · exact ⟨[], by simp⟩
    · exact ⟨_, rfl⟩
  · intro y hy
    simp only [genStep]
    split
    · exact hy
    · exact List.mem_append_left _ hy
  · intro y hy
    simp only [genStep]
    split
    · exact List.mem_append_left _ hy
    · exact hy

theorem genStep_spec {g : Gen} {q0 : Nat} {V : Nat → Prop} {b : BuildSt} (h : GInv g q0 V b) {src : Nat} {cli : List Nat}
    (hsrc : b.map[src]? = some (cli, src)) {x : Nat × Nat} (hx : x ∈ g.tr cli)
    (hv : V x.2) : GInv g q0 V (genStep g src b x) ∧ Done g (genStep g src b x) src x := by
  have hext := genStep_ext g src b x
  cases hl : b.lookup (g.clos x.2) with
  | some id =>
    have hid := (lookup_some h _ _).mp hl
    have hidf : b.idFor (g.clos x.2) = id := by simp [BuildSt.idFor, hl]
    have hmap : (genStep g src b x).map = b.map := by simp [genStep, hl]
    have hnew : (genStep g src b x).map[id]? = some (g.clos x.2, id) := by rw [hmap]; exact hid
    refine ⟨⟨?_, ?_, ?_, ?_, ?_, ?_⟩, ?_⟩
    · rw [hmap]; exact h.ids
    · rw [hmap]; exact h.nodup
    · rw [hmap]; exact h.zero
    · rw [hmap]; exact h.reps
    · intro y hy
      simp only [genStep, hidf] at hy
      have : y ∈ b.trans ∨ y = (src, x.1, id) := by
        split at hy
        · exact .inl hy
        · rcases List.mem_append.mp hy with hy | hy
          · exact .inl hy
          · exact .inr (by simpa using hy)
      rcases this with hy | rfl
      · obtain ⟨c, t, h1, h2, h3⟩ := h.tsound y hy
        exact ⟨c, t, hext.get h1, h2, hext.get h3⟩
      · exact ⟨cli, x.2, hext.get hsrc, hx, hnew⟩
    · intro y hy
      simp only [genStep, hidf] at hy
      have : y ∈ b.acc ∨ (y = (id, g.tidf x.2) ∧ g.accf (g.clos x.2) = true) := by
        split at hy
        · rename_i hc
          rcases List.mem_append.mp hy with hy | hy
          · exact .inl hy
          · simp only [Bool.and_eq_true] at hc
            exact .inr ⟨by simpa using hy, hc.1⟩
        · exact .inl hy
      rcases this with hy | ⟨rfl, hacc⟩
      · obtain ⟨t, h1, h2, h3⟩ := h.asound y hy
        exact ⟨t, h1, hext.get h2, h3⟩
      · exact ⟨x.2, hv, hnew, hacc, rfl⟩
    · refine ⟨id, hnew, ?_, ?_⟩
      · simp only [genStep, hidf]
        split
        · rename_i hc; simpa using hc
        · simp
      · intro hacc
        simp only [genStep, hidf, hacc, Bool.true_and]
        split
        · simp
        · rename_i hc; simpa using hc
  | none =>
    have hnot := lookup_none _ hl
    have hidf : b.idFor (g.clos x.2) = b.map.length := by simp [BuildSt.idFor, hl]
    have hmap : (genStep g src b x).map = b.map ++ [(g.clos x.2, b.map.length)] := by
      simp [genStep, hl]
    have hnew : (genStep g src b x).map[b.map.length]? = some (g.clos x.2, b.map.length) := by
      rw [hmap]; simp
    have hpos : 0 < b.map.length := by
      rcases Nat.eq_zero_or_pos b.map.length with h0 | h0
      · have := h.zero; rw [List.getElem?_eq_none (by omega)] at this; cases this
      · exact h0
    refine ⟨⟨?_, ?_, ?_, ?_, ?_, ?_⟩, ?_⟩
    · intro j e he
      rw [hmap] at he
      rcases Nat.lt_or_ge j b.map.length with hj | hj
      · rw [List.getElem?_append_left hj] at he; exact h.ids j e he
      · rw [List.getElem?_append_right hj] at he
        have : j - b.map.length = 0 := by
          rcases Nat.eq_zero_or_pos (j - b.map.length) with h0 | h0
          · exact h0
          · rw [List.getElem?_eq_none (by simp; omega)] at he; cases he
        rw [this] at he
        simp at he
        subst he
        simp; omega
    · rw [hmap, List.map_append, List.nodup_append]
      refine ⟨h.nodup, by simp, ?_⟩
      intro a ha c hc
      simp at hc
      subst hc
      intro hac; subst hac
      exact hnot ha
    · rw [hmap]; exact getElem?_append_some h.zero
    · intro j e he hj1
      rw [hmap] at he
      rcases Nat.lt_or_ge j b.map.length with hj | hj
      · rw [List.getElem?_append_left hj] at he; exact h.reps j e he hj1
      · rw [List.getElem?_append_right hj] at he
        have : j - b.map.length = 0 := by
          rcases Nat.eq_zero_or_pos (j - b.map.length) with h0 | h0
          · exact h0
          · rw [List.getElem?_eq_none (by simp; omega)] at he; cases he
        rw [this] at he
        simp at he
        subst he
        exact ⟨x.2, hv, rfl⟩
    · intro y hy
      simp only [genStep, hidf] at hy
      have : y ∈ b.trans ∨ y = (src, x.1, b.map.length) := by
        split at hy
        · exact .inl hy
        · rcases List.mem_append.mp hy with hy | hy
          · exact .inl hy
          · exact .inr (by simpa using hy)
      rcases this with hy | rfl
      · obtain ⟨c, t, h1, h2, h3⟩ := h.tsound y hy
        exact ⟨c, t, hext.get h1, h2, hext.get h3⟩
      · exact ⟨cli, x.2, hext.get hsrc, hx, hnew⟩
    · intro y hy
      simp only [genStep, hidf] at hy
      have : y ∈ b.acc ∨ (y = (b.map.length, g.tidf x.2) ∧ g.accf (g.clos x.2) = true) := by
        split at hy
        · rename_i hc
          rcases List.mem_append.mp hy with hy | hy
          · exact .inl hy
          · simp only [Bool.and_eq_true] at hc
            exact .inr ⟨by simpa using hy, hc.1⟩
        · exact .inl hy
      rcases this with hy | ⟨rfl, hacc⟩
      · obtain ⟨t, h1, h2, h3⟩ := h.asound y hy
        exact ⟨t, h1, hext.get h2, h3⟩
      · exact ⟨x.2, hv, hnew, hacc, rfl⟩
    · refine ⟨b.map.length, hnew, ?_, ?_⟩
      · simp only [genStep, hidf]
        split
        · rename_i hc; simpa using hc
        · simp
      · intro hacc
        simp only [genStep, hidf, hacc, Bool.true_and]
        split
        · simp
        · rename_i hc; simpa using hc

/-! ### the fold over the targets of one state and the worklist loop -/

theorem fold_spec {g : Gen} {q0 : Nat} {V : Nat → Prop} {src : Nat} {cli : List Nat} (L : List (Nat × Nat)) :
    ∀ b : BuildSt, GInv g q0 V b → b.map[src]? = some (cli, src) →
      (∀ x ∈ L, x ∈ g.tr cli ∧ V x.2) →
      GInv g q0 V (L.foldl (genStep g src) b) ∧ BExt b (L.foldl (genStep g src) b) ∧
        ∀ x ∈ L, Done g (L.foldl (genStep g src) b) src x := by
  induction L with
  | nil => intro b h _ _; exact ⟨h, BExt.refl b, fun _ hx => by cases hx⟩
  | cons x r ih =>
    intro b h hsrc hL
    have hx := hL x (List.mem_cons_self)
    obtain ⟨h1, hd1⟩ := genStep_spec h hsrc hx.1 hx.2
    have hext1 := genStep_ext g src b x
    obtain ⟨h2, hext2, hd2⟩ := ih (genStep g src b x) h1 (hext1.get hsrc)
      (fun y hy => hL y (List.mem_cons_of_mem _ hy))
    refine ⟨h2, hext1.comp hext2, ?_⟩
    intro y hy
    rcases List.mem_cons.mp hy with rfl | hy
    · exact hd1.mono hext2
    · exact hd2 y hy

def AllDone (g : Gen) (b : BuildSt) (i : Nat) : Prop :=
  ∀ cli, b.map[i]? = some (cli, i) → ∀ x ∈ g.tr cli, Done g b i x

theorem AllDone.mono {g : Gen} {b b' : BuildSt} (h : BExt b b') {i : Nat} (hi : i < b.map.length)
    (hd : AllDone g b i) : AllDone g b' i := by
  intro cli hcli x hx
  obtain ⟨e, he⟩ := h.map
  have : b.map[i]? = some (cli, i) := by
    rw [he, List.getElem?_append_left hi] at hcli; exact hcli
  exact (hd cli this x hx).mono h

/-- what the construction needs from its parameters: targets of the match transitions of a registered
    closure are valid states, valid states (and the initial one) are below the bound `N` -/
structure GOK (g : Gen) (q0 : Nat) (V : Nat → Prop) (N : Nat) : Prop where
  target : ∀ cl, (cl = g.clos q0 ∨ ∃ t, V t ∧ cl = g.clos t) → ∀ x ∈ g.tr cl, V x.2
  bound : ∀ t, V t → t < N
  q0lt : q0 < N

theorem GInv.cls {g : Gen} {q0 : Nat} {V : Nat → Prop} {b : BuildSt} (h : GInv g q0 V b) {i : Nat} {cl : List Nat}
    (hi : b.map[i]? = some (cl, i)) : cl = g.clos q0 ∨ ∃ t, V t ∧ cl = g.clos t := by
  rcases Nat.eq_zero_or_pos i with rfl | hpos
  · have := h.zero; rw [hi] at this; exact .inl (congrArg Prod.fst (Option.some.inj this))
  · obtain ⟨t, ht, he⟩ := h.reps i _ hi hpos
    exact .inr ⟨t, ht, he⟩

theorem GInv.length_le {g : Gen} {q0 : Nat} {V : Nat → Prop} {N : Nat} {b : BuildSt} (hok : GOK g q0 V N)
    (h : GInv g q0 V b) : b.map.length ≤ N := by
  have := nodup_length_le_of_image (b.map.map Prod.fst) g.clos N h.nodup (by
    intro cl hcl
    obtain ⟨j, hj⟩ := List.getElem?_of_mem hcl
    simp only [List.getElem?_map, Option.map_eq_some_iff] at hj
    obtain ⟨e, he, rfl⟩ := hj
    have hid := h.ids j e he
    have he' : b.map[j]? = some (e.1, j) := by rw [he]; congr 1; exact Prod.ext rfl hid
    rcases h.cls he' with hc | ⟨t, ht, hc⟩
    · exact ⟨q0, hok.q0lt, hc.symm⟩
    · exact ⟨t, hok.bound t ht, hc.symm⟩)
  simpa using this

theorem genLoop_spec {g : Gen} {q0 : Nat} {V : Nat → Prop} {N : Nat} (hok : GOK g q0 V N) :
    ∀ (fuel cur : Nat) (b : BuildSt), GInv g q0 V b →
    (∀ i, i < cur → i < b.map.length → AllDone g b i) → N + 1 ≤ fuel + cur →
    GInv g q0 V (genLoop g fuel cur b) ∧ BExt b (genLoop g fuel cur b) ∧
      ∀ i, i < (genLoop g fuel cur b).map.length → AllDone g (genLoop g fuel cur b) i := by
  intro fuel
  induction fuel with
  | zero =>
    intro cur b h hd hf
    simp only [genLoop]
    have := h.length_le hok
    exact ⟨h, BExt.refl b, fun i hi => hd i (by omega) hi⟩
  | succ fuel ih =>
    intro cur b h hd hf
    simp only [genLoop]
    split
    · rename_i hcur
      obtain ⟨cli, hcli⟩ := h.entry hcur
      have hco := h.closureOf cur cli hcli
      rw [hco]
      obtain ⟨h1, hext1, hd1⟩ := fold_spec (g := g) (src := cur) (cli := cli) (g.tr cli) b h hcli
        (fun x hx => ⟨hx, hok.target cli (h.cls hcli) x hx⟩)
      obtain ⟨h2, hext2, hd2⟩ := ih (cur + 1) _ h1 (by
        intro i hi hil
        rcases Nat.lt_or_ge i cur with hlt | hge
        · rcases Nat.lt_or_ge i b.map.length with hib | hib
          · exact (hd i hlt hib).mono hext1 hib
          · omega
        · have : i = cur := by omega
          subst this
          intro c hc x hx
          have : c = cli := by
            have := hext1.get hcli; rw [this] at hc; exact (congrArg Prod.fst (Option.some.inj hc)).symm
          subst this
          exact hd1 x hx) (by omega)
      exact ⟨h2, hext1.comp hext2, hd2⟩
    · rename_i hcur
      exact ⟨h, BExt.refl b, fun i hi => hd i (by omega) hi⟩

/-! ### the initial state and the automaton read off the final state -/

def initSt (g : Gen) (q0 : Nat) : BuildSt := ⟨[(g.clos q0, 0)], [], []⟩

theorem initSt_inv (g : Gen) (q0 : Nat) (V : Nat → Prop) : GInv g q0 V (initSt g q0) := by
  refine ⟨?_, ?_, ?_, ?_, ?_, ?_⟩
  · intro j e he
    cases j with
    | zero => simp [initSt] at he; subst he; rfl
    | succ j => simp [initSt] at he
  · simp [initSt]
  · simp [initSt]
  · intro j e he hj
    cases j with
    | zero => omega
    | succ j => simp [initSt] at he
  · intro x hx; simp [initSt] at hx
  · intro x hx; simp [initSt] at hx

theorem genLoop_final {g : Gen} {q0 : Nat} {V : Nat → Prop} {N : Nat} (hok : GOK g q0 V N) (fuel : Nat)
    (hf : N + 1 ≤ fuel) :
    GInv g q0 V (genLoop g fuel 0 (initSt g q0)) ∧
      ∀ i, i < (genLoop g fuel 0 (initSt g q0)).map.length → AllDone g (genLoop g fuel 0 (initSt g q0)) i := by
  obtain ⟨h1, _, h3⟩ := genLoop_spec hok fuel 0 (initSt g q0) (initSt_inv g q0 V)
    (fun i hi _ => by omega) (by omega)
  exact ⟨h1, h3⟩

theorem GInv.pos {g : Gen} {q0 : Nat} {V : Nat → Prop} {b : BuildSt} (h : GInv g q0 V b) : 0 < b.map.length := by
  rcases Nat.eq_zero_or_pos b.map.length with h0 | h0
  · have := h.zero; rw [List.getElem?_eq_none (by omega)] at this; cases this
  · exact h0

theorem GInv.trans_lt {g : Gen} {q0 : Nat} {V : Nat → Prop} {b : BuildSt} (h : GInv g q0 V b) (x : Nat × Nat × Nat)
    (hx : x ∈ b.trans) : x.1 < b.map.length ∧ x.2.2 < b.map.length := by
  obtain ⟨c, t, h1, _, h3⟩ := h.tsound x hx
  constructor
  · rcases Nat.lt_or_ge x.1 b.map.length with hl | hl
    · exact hl
    · rw [List.getElem?_eq_none hl] at h1; cases h1
  · rcases Nat.lt_or_ge x.2.2 b.map.length with hl | hl
    · exact hl
    · rw [List.getElem?_eq_none hl] at h3; cases h3

theorem GInv.acc_lt {g : Gen} {q0 : Nat} {V : Nat → Prop} {b : BuildSt} (h : GInv g q0 V b) (x : Nat × Nat)
    (hx : x ∈ b.acc) : x.1 < b.map.length := by
  obtain ⟨t, _, h1, _⟩ := h.asound x hx
  rcases Nat.lt_or_ge x.1 b.map.length with hl | hl
  · exact hl
  · rw [List.getElem?_eq_none hl] at h1; cases h1

theorem mkDfa_outs {b : BuildSt} (h : ∀ x ∈ b.trans, x.1 < b.map.length) (prio : List Nat) (s cc j : Nat) :
    (cc, j) ∈ (mkDfa b prio).outs s ↔ (s, cc, j) ∈ b.trans := by
  simp only [Dfa.outs, mkDfa]
  rcases Nat.lt_or_ge s b.map.length with hs | hs
  · rw [List.getD_eq_getElem?_getD, List.getElem?_map, List.getElem?_range hs]
    simp only [Option.map_some, Option.getD_some, List.mem_map, List.mem_filter, beq_iff_eq]
    constructor
    · rintro ⟨⟨a, c, d⟩, ⟨hm, rfl⟩, he⟩
      cases he; exact hm
    · intro hm; exact ⟨(s, cc, j), ⟨hm, rfl⟩, rfl⟩
  · rw [List.getD_eq_getElem?_getD, List.getElem?_eq_none (by simpa using hs)]
    simp only [Option.getD_none, List.not_mem_nil, false_iff]
    intro hm
    have := h _ hm
    simp only at this
    omega

theorem mkDfa_isEnd {b : BuildSt} (h : ∀ x ∈ b.acc, x.1 < b.map.length) (prio : List Nat) (s : Nat) :
    (mkDfa b prio).isEnd s = true ↔ ∃ tid, (s, tid) ∈ b.acc := by
  simp only [Dfa.isEnd, mkDfa]
  rcases Nat.lt_or_ge s b.map.length with hs | hs
  · rw [List.getD_eq_getElem?_getD, List.getElem?_map, List.getElem?_range hs]
    simp only [Option.map_some, Option.getD_some]
    cases hl : (b.acc.filter fun a => a.1 == s).getLast? with
    | none =>
      simp only [Bool.false_eq_true, false_iff]
      rintro ⟨tid, ht⟩
      have : (b.acc.filter fun a => a.1 == s) = [] := List.getLast?_eq_none_iff.mp hl
      have hm : (s, tid) ∈ b.acc.filter fun a => a.1 == s := by simp [ht]
      rw [this] at hm; cases hm
    | some a =>
      simp only [true_iff]
      have := List.mem_of_getLast? hl
      simp only [List.mem_filter, beq_iff_eq] at this
      exact ⟨a.2, by rw [← this.2]; exact this.1⟩
  · rw [List.getD_eq_getElem?_getD, List.getElem?_eq_none (by simpa using hs)]
    simp only [Option.getD_none, Bool.false_eq_true, false_iff]
    rintro ⟨tid, ht⟩
    have := h _ ht
    simp only at this
    omega

theorem mkDfa_tidOf_mem {b : BuildSt} (prio : List Nat) (s : Nat) (he : (mkDfa b prio).isEnd s = true) :
    (s, (mkDfa b prio).tidOf s) ∈ b.acc := by
  simp only [Dfa.isEnd, Dfa.tidOf, mkDfa] at he ⊢
  rcases Nat.lt_or_ge s b.map.length with hs | hs
  · rw [List.getD_eq_getElem?_getD, List.getElem?_map, List.getElem?_range hs] at he ⊢
    simp only [Option.map_some, Option.getD_some] at he ⊢
    cases hl : (b.acc.filter fun a => a.1 == s).getLast? with
    | none => rw [hl] at he; simp at he
    | some a =>
      simp only
      have := List.mem_of_getLast? hl
      simp only [List.mem_filter, beq_iff_eq] at this
      rw [← this.2]; exact this.1
  · rw [List.getD_eq_getElem?_getD, List.getElem?_eq_none (by simpa using hs)] at he
    simp at he


end Scnr
