import ScnrVerif.Model.Iter
import ScnrVerif.Model.SpecFind
import ScnrVerif.Model.SpecIter
import ScnrVerif.Model.Equiv
import ScnrVerif.Model.SpecPat
import ScnrVerif.Model.Class
import ScnrVerif.Model.World
import ScnrVerif.Model.Build
import ScnrVerif.Model.Json
import ScnrVerif.Model.Dot
import ScnrVerif.Model.Minimize
import ScnrVerif.Model.Compile
import ScnrVerif.Model.Agree
import ScnrVerif.Model.Registry
import ScnrVerif.Model.DotText
import ScnrVerif.Model.JsonText
import ScnrVerif.Model.CacheKey
import Std.Data.HashMap
/-!
# Line-protocol driver for the executable model (`lake exe scnr_model < case.in`)

One command per line; commands that have an observable result print exactly one line. The Rust
harness prints the results of the real crate for the same command lines in the same format.
-/
open Scnr

inductive Target where
  | none
  | mode (m : Nat)
  | la (m : Nat) (tid : Nat)
  | aux (i : Nat)

/-- Independent specification state of an iterator: mode, cursor and the largest consumed offset.
    `known = false` after an operation whose effect the properties leave open. -/
structure SpecIt where
  mode : Nat := 0
  pos : Nat := 0
  frontier : Nat := 0
  known : Bool := true
deriving Inhabited

structure DState where
  tables : Array (List (Nat × Nat)) := #[]
  modes : Array ModeDfa := #[]
  cfg : Array ModeCfg := #[]
  target : Target := .none
  input : List Nat := []
  useTable : Bool := false
  /-- per mode: byte position ↦ (tid, len) -/
  table : Array (Array (Option (Nat × Nat))) := #[]
  /-- reference class tables (per leaf of the reference regular expressions) -/
  rtables : Array (List (Nat × Nat)) := #[]
  /-- per mode: patterns `(tid, re)` in priority order -/
  pats : Array (List (Nat × Re)) := #[]
  /-- per mode: lookahead patterns `(tid, re)` -/
  lapats : Array (List (Nat × Re)) := #[]
  /-- the reference ASTs as sent (before desugaring), for `agree` -/
  pasts : Array (List (Nat × Ast)) := #[]
  lapasts : Array (List (Nat × Ast)) := #[]
  /-- configured polarity of the lookahead of (mode, token type) -/
  lapols : Array (List (Nat × Bool)) := #[]
  /-- world (C12-C14): saved compilations `id ↦ (automata, configuration, class tables)`,
      the compile table `cfg ↦ compilation`, the world state -/
  comps : Array (Array ModeDfa × Array ModeCfg × Array (List (Nat × Nat))) := #[]
  compileTbl : Array (Option Nat) := #[]
  world : World := World.empty
  /-- C15: the configuration being classified (modes in reverse, patterns in reverse) -/
  bmodes : List (List BPat) := []
  /-- C08: tables of the named primitives, the class expression, the real table -/
  etables : Array (List (Nat × Nat)) := #[]
  cls : Option (Bool × CSet) := none
  real : List (Nat × Nat) := []
  /-- track A: patterns for the compiler model, per mode `(tid, ast)`; lookaheads `(tid, ast)` -/
  cpats : Array (List (Nat × CAst)) := #[]
  clapats : Array (List (Nat × CAst)) := #[]
  /-- class registry (E8): patterns whose leaves are keys, per mode, in pattern order (a lookahead is
      attached to the pattern sent last); the keys of the real registry in id order -/
  kpats : Array (List CPat) := #[]
  regreal : List Nat := []
  /-- C16 text layer: the value tree the model produced for the last serialisation command -/
  lastJson : Option Json := none
  /-- auxiliary automata (minimizer input / output) -/
  aux : Array Dfa := #[]
  iters : Array Iter := #[]
  specs : Array SpecIt := #[]
  /-- the last command line (for spec verdicts on the real result that follows as `expect`) -/
  last : List String := []

def emptyDfa : Dfa := ⟨[], [], []⟩

def nats (ws : List String) : List Nat := ws.filterMap String.toNat?

def pairs : List Nat → List (Nat × Nat)
  | a :: b :: r => (a, b) :: pairs r
  | _ => []

def ensure {α} (a : Array α) (n : Nat) (d : α) : Array α :=
  if a.size ≤ n then a ++ Array.replicate (n + 1 - a.size) d else a

def DState.cm (st : DState) : Nat → Nat → Bool :=
  let T := st.tables
  fun id c => inRanges (T.getD id []) c

def DState.finder (st : DState) : Finder :=
  if st.useTable then
    let total := bytesLen st.input
    fun m w => (st.table.getD m #[]).getD (total - bytesLen w) none
  else modelFinder st.modes.toList st.cm

def DState.cfgL (st : DState) : List ModeCfg := st.cfg.toList

def addState (A : Dfa) (isEnd : Bool) (tid : Nat) (tr : List (Nat × Nat)) : Dfa :=
  { A with trans := A.trans ++ [tr], ends := A.ends ++ [(isEnd, tid)] }

def updTarget (st : DState) (f : Dfa → Dfa) : DState :=
  match st.target with
  | .none => st
  | .mode m =>
    let ms := ensure st.modes m ⟨emptyDfa, []⟩
    { st with modes := ms.modify m fun M => { M with dfa := f M.dfa } }
  | .aux i =>
    { st with aux := (ensure st.aux i emptyDfa).modify i f }
  | .la m tid =>
    let ms := ensure st.modes m ⟨emptyDfa, []⟩
    { st with modes := ms.modify m fun M =>
        { M with las := M.las.map fun p => if p.1 = tid then (p.1, { p.2 with dfa := f p.2.dfa }) else p } }

def showToks (ms : List Tok) : String :=
  " ".intercalate (ms.map fun t => s!"{t.tid}:{t.start}:{t.stop}")

def boundaries (w : List Nat) : List (Nat × List Nat) :=
  let rec go (p : Nat) : List Nat → List (Nat × List Nat)
    | [] => [(p, [])]
    | c :: r => (p, c :: r) :: go (p + utf8Len c) r
  go 0 w

/-- parse `p:tid:len` or `p:-` -/
def parseFindItem (s : String) : Option (Nat × Option (Nat × Nat)) :=
  match s.splitOn ":" with
  | [p, "-"] => p.toNat?.map fun p => (p, none)
  | [p, t, l] =>
    match p.toNat?, t.toNat?, l.toNat? with
    | some p, some t, some l => some (p, some (t, l))
    | _, _, _ => none
  | _ => none

/-- canonical printing: nodes sorted by id, edges sorted (the picture is a set of nodes and edges) -/
def showDGraph (g : DGraph) : String :=
  let ns := (g.nodes.toArray.qsort fun a b => a.id < b.id).toList
  let es := (g.edges.toArray.qsort fun a b =>
    a.src < b.src || (a.src == b.src && (a.dst < b.dst || (a.dst == b.dst && a.cc < b.cc)))).toList
  s!" {ns.length}" ++ String.join (ns.map fun n => s!" {n.id} {n.kind} {n.tid}") ++
  s!" {es.length}" ++ String.join (es.map fun e => s!" {e.src} {e.dst} {e.cc}")

def parseTok (s : String) : Option Tok :=
  match (s.splitOn ":").map String.toNat? with
  | [some t, some a, some b] => some ⟨t, a, b⟩
  | _ => none

def parsePeek (ws : List String) : Option Peek :=
  match ws with
  | "peek" :: "matches" :: r => some (.matches (r.filterMap parseTok))
  | "peek" :: "end" :: r => some (.reachedEnd (r.filterMap parseTok))
  | "peek" :: "switch" :: m :: r => m.toNat?.map fun m => .modeSwitch (r.filterMap parseTok) m
  | ["peek", "notfound"] => some .notFound
  | _ => none

/-- Verdict of the executable specification on the result of the real crate (`expect` line)
    for the command that preceded it; also advances the specification state of the iterator. -/
def specVerdict (st : DState) (real : List String) : Array SpecIt × Option String :=
  let sp := st.specs
  let total := bytesLen st.input
  let specTokens (s : SpecIt) : List Tok :=
    scanFrom st.cfgL st.finder s.mode (dropBytes s.pos st.input) s.pos
  match st.last, real with
  | _, ["panic"] => (sp, some "S FAIL the real crate panicked in this call")
  | _, ["findpanic"] => (sp, some "S FAIL the real crate panicked in find_from")
  | _, ["buildpanic"] => (sp, some "S FAIL the real crate panicked while building the scanner")
  | _, ["runaway"] => (sp, some "S FAIL the real iterator yields more tokens than the input has characters")
  | ["dot", _], "dot" :: "malformed:" :: r =>
    (sp, some ("S FAIL the written file is not well-formed DOT: " ++ " ".intercalate r))
  | ["dot", _], "dot" :: "undecodable:" :: r =>
    (sp, some ("S FAIL the written DOT does not have the documented structure: " ++ " ".intercalate r))
  | ["dot", m], "dot" :: r =>
    (sp, match m.toNat?.bind fun m => st.modes[m]? with
      | some M =>
        let d := dotDoc M
        let cl := (d.clusters.toArray.qsort fun a b => a.tid < b.tid).toList
        let want := (showDGraph d.main ++ s!" {cl.length}" ++
          String.join (cl.map fun c => s!" {c.tid} {if c.positive then 1 else 0}" ++ showDGraph c.g))
        some (if " " ++ " ".intercalate r == want then "S ok"
              else "S FAIL the picture differs from the compiled automaton (nodes, accepting labels, edges, class ids or lookahead clusters)")
      | none => none)
  | ["bbuild"], ["build", r] =>
    let modes := (st.bmodes.map List.reverse).reverse
    let sup := allSupported modes
    (sp, some (if sup && r == "ok" then "S ok"
               else if !sup && (r == "err" || r == "syntax" || r == "unsupported") then "S ok"
               else if sup then s!"S FAIL a configuration made only of supported constructs was rejected ({r})"
               else "S FAIL a configuration with an unsupported construct or a syntax error was built without error"))
  | ["findall", m], "findall" :: items =>
    (sp, match m.toNat? with
    | none => none
    | some m =>
      match st.modes[m]? with
      | none => some "S FAIL findall: no such mode"
      | some M =>
        let bs := boundaries st.input
        let parsed := items.filterMap parseFindItem
        if parsed.length != bs.length then some "S FAIL findall: wrong number of positions" else
        -- the lookahead conditions are judged with the configured polarity (where it was given)
        let pol := st.lapols.getD m []
        let Mc : ModeDfa := { M with las := M.las.map fun (t, L) =>
          (t, match pol.lookup t with | some p => { L with positive := p } | none => L) }
        let bad := (bs.zip parsed).filter fun ((p, w), (q, r)) =>
          p != q || !(specFindOK Mc st.cm 0 w (r.map fun (t, l) => (t, l)))
        -- pattern-level rule (C01) when the reference patterns of a lookahead-free mode are given
        let ps := st.pats.getD m []
        let cmR : Nat → Nat → Bool := cmT st.rtables.toList
        let badPat := if ps.isEmpty || !M.las.isEmpty then [] else
          (bs.zip parsed).filter fun ((_, w), (_, r)) => !(patFindOK cmR ps w r)
        match bad with
        | [] =>
          match badPat with
          | [] => some "S ok"
          | ((p, w), (_, r)) :: _ =>
            -- DESIGN F2: with a token type shared by several patterns of the mode the crate orders
            -- ties by the first occurrence of the token type; a failure that follows exactly that
            -- rule is the recorded finding, any other deviation is reported as usual
            let f2 := !distinctTypes ps &&
              (bs.zip parsed).all fun ((_, w'), (_, r')) => patFindOK cmR ps w' r' || sharedTypeRule cmR ps w' r'
            let _ := w
            if f2 then
              some s!"S FAIL findall mode {m} at byte {p}: real result {r}: tie resolved by the first occurrence of a shared token type instead of the first listed pattern (finding F2)"
            else
            some s!"S FAIL findall mode {m} at byte {p}: real result {r} is not the longest match of the first listed pattern (pattern-level rule)"
        | ((p, _), (_, r)) :: _ =>
          some s!"S FAIL findall mode {m} at byte {p}: real result {r} is not the best candidate of the trailing-context rule")
  | ["findall", _], _ => (sp, some "S FAIL findall: real crate panicked or gave no table")
  | ["modename", i], _ =>
    (sp, match i.toNat? with
      | some i =>
        let exp := match modeName st.cfgL i with
          | some n => "name" :: n.map toString
          | none => ["name", "none"]
        some (if real == exp then "S ok" else "S FAIL mode_name")
      | none => none)
  | [op, k], _ =>
    match k.toNat? with
    | none => (sp, none)
    | some k =>
      let s := sp.getD k default
      if op == "next" || op == "nextp" then
        if !s.known then
          -- no verdict; resynchronise cursor and mode on the real result
          match real with
          | [_, t, _, e] | [_, t, _, e, _, _, _, _] =>
            match t.toNat?, e.toNat? with
            | some t, some e =>
              (sp.set! k { s with pos := e, known := true, frontier := s.frontier,
                                  mode := (hasTransition (modeTrans st.cfgL s.mode) t).getD s.mode }, none)
            | _, _ => (sp, none)
          | ["none"] => (sp.set! k { s with pos := total, known := true }, none)
          | _ => (sp, none)
        else
        let exp := specTokens s
        match real, exp with
        | ["none"], [] =>
          (sp.set! k { s with pos := total, frontier := if s.pos ≤ s.frontier then total else s.frontier }, some "S ok")
        | "tok" :: r, t :: _ =>
          let ok := r.map String.toNat? == [some t.tid, some t.start, some t.stop]
          let s' := { s with pos := t.stop,
                             frontier := if s.pos ≤ s.frontier then max s.frontier t.stop else s.frontier,
                             mode := (hasTransition (modeTrans st.cfgL s.mode) t.tid).getD s.mode }
          (sp.set! k s', some (if ok then "S ok" else s!"S FAIL next: expected token {t.tid} {t.start} {t.stop} of the reference scan from byte {s.pos} in mode {s.mode}"))
        | "tokp" :: r, t :: _ =>
          let ns := r.map String.toNat?
          let s' := { s with pos := t.stop,
                             frontier := if s.pos ≤ s.frontier then max s.frontier t.stop else s.frontier,
                             mode := (hasTransition (modeTrans st.cfgL s.mode) t.tid).getD s.mode }
          let judge := decide (t.stop ≤ s'.frontier)
          match ns with
          | [some a, some b, some c, some l1, some c1, some l2, some c2] =>
            if (a, b, c) != (t.tid, t.start, t.stop) then
              (sp.set! k s', some s!"S FAIL next: expected token {t.tid} {t.start} {t.stop} of the reference scan from byte {s.pos} in mode {s.mode}")
            else if !judge then (sp.set! k s', some "S ok")
            else if !positionOK st.input b true (l1, c1) then
              (sp.set! k s', some s!"S FAIL position of token start {b}: reported {l1}:{c1}, true {(trueLineCol st.input b).1}:{(trueLineCol st.input b).2}")
            else if !positionOK st.input c false (l2, c2) then
              (sp.set! k s', some s!"S FAIL position of token end {c}: reported {l2}:{c2}, true {(trueLineCol st.input c).1}:{(trueLineCol st.input c).2}")
            else (sp.set! k s', some "S ok")
          | _ => (sp.set! k s', some "S FAIL next: malformed result")
        | _, [] => (sp, some s!"S FAIL next: real result {real} but the reference scan from byte {s.pos} in mode {s.mode} has no more tokens")
        | _, t :: _ => (sp, some s!"S FAIL next: real result {real}, expected token {t.tid} {t.start} {t.stop}")
      else if op == "curmode" then
        if !s.known then (sp, none) else
        (sp, some (if real == ["mode", toString s.mode] then "S ok" else s!"S FAIL current_mode: expected {s.mode}"))
      else (sp, none)
  | ["peek", k, n], _ =>
    match k.toNat?, n.toNat? with
    | some k, some n =>
      let s := sp.getD k default
      if !s.known then (sp, none) else
      let exp := peekSpec st.cfgL st.finder s.mode (dropBytes s.pos st.input) s.pos n
      (sp, some (if parsePeek real == some exp then "S ok"
                 else s!"S FAIL peek_n({n}) at byte {s.pos} in mode {s.mode}: real {real} differs from the next tokens of the reference scan"))
    | _, _ => (sp, none)
  | ["pos", k, o], ["pos", l, c] =>
    match k.toNat?, o.toNat?, l.toNat?, c.toNat? with
    | some k, some o, some l, some c =>
      let s := sp.getD k default
      if o > s.frontier then (sp, none) else
      (sp, some (if positionOK st.input o (decide (o < s.frontier)) (l, c) then "S ok"
                 else s!"S FAIL position({o}): reported {l}:{c}, true {(trueLineCol st.input o).1}:{(trueLineCol st.input o).2} (frontier {s.frontier})"))
    | _, _, _, _ => (sp, none)
  | _, _ => (sp, none)

/-- Effect of a command on the specification state (commands without observable result). -/
def specCommand (st : DState) (ws : List String) : Array SpecIt :=
  let sp := st.specs
  let total := bytesLen st.input
  match ws with
  | ["new", k] =>
    match k.toNat? with
    | some k => (ensure sp k default).set! k {}
    | none => sp
  | ["setoff", k, o] =>
    match k.toNat?, o.toNat? with
    | some k, some o =>
      let s := sp.getD k default
      sp.set! k { s with pos := min o total, known := true }
    | _, _ => sp
  | ["setmode", k, m] =>
    match k.toNat?, m.toNat? with
    | some k, some m => sp.set! k { sp.getD k default with mode := m }
    | _, _ => sp
  | ["adv", k, p] =>
    match k.toNat?, p.toNat? with
    | some k, some p =>
      let s := sp.getD k default
      -- specified only for a position beyond the cursor on a character boundary (C10)
      if s.known && p > s.pos && p ≤ total && isBoundary st.input p then
        sp.set! k { s with pos := p, frontier := if s.pos ≤ s.frontier then max s.frontier p else s.frontier }
      else sp.set! k { s with known := false }
    | _, _ => sp
  | _ => sp

/-- Parser of the prefix notation of reference ASTs: `E | L id | C n .. | A n .. | R min max|inf x`. -/
partial def parseAst : List String → Option (Ast × List String)
  | "E" :: r => some (.empty, r)
  | "L" :: i :: r => i.toNat?.map fun i => (.leaf i, r)
  | "C" :: n :: r => n.toNat?.bind fun n => (parseMany n r).map fun (xs, r') => (.concat xs, r')
  | "A" :: n :: r => n.toNat?.bind fun n => (parseMany n r).map fun (xs, r') => (.alt xs, r')
  | "R" :: mn :: mx :: r =>
    mn.toNat?.bind fun mn =>
      let mx' : Option (Option Nat) := if mx == "inf" then some none else mx.toNat?.map some
      mx'.bind fun mx' => (parseAst r).map fun (x, r') => (.rep mn mx' x, r')
  | _ => none
where
  parseMany : Nat → List String → Option (List Ast × List String)
    | 0, r => some ([], r)
    | n + 1, r => (parseAst r).bind fun (x, r') => (parseMany n r').map fun (xs, r'') => (x :: xs, r'')

-- Parser of class expressions: items `e | l c vd | r lo hi | n id neg | b neg <set> | u <item> <item>`,
-- sets `I <item> | O k <set> <set>`.
mutual
partial def parseItem : List String → Option (CItem × List String)
  | "e" :: r => some (.empty, r)
  | "l" :: c :: vd :: r =>
    match c.toNat?, vd.toNat? with
    | some c, some vd => some (.lit c (vd != 0), r)
    | _, _ => none
  | "r" :: lo :: hi :: r =>
    match lo.toNat?, hi.toNat? with
    | some lo, some hi => some (.range lo hi, r)
    | _, _ => none
  | "n" :: id :: ng :: r =>
    match id.toNat?, ng.toNat? with
    | some id, some ng => some (.named id (ng != 0), r)
    | _, _ => none
  | "b" :: ng :: r =>
    match ng.toNat? with
    | some ng => (parseSet r).map fun (s, r') => (.bracketed (ng != 0) s, r')
    | none => none
  | "u" :: r =>
    (parseItem r).bind fun (a, r1) => (parseItem r1).map fun (b, r2) => (.union a b, r2)
  | _ => none
partial def parseSet : List String → Option (CSet × List String)
  | "I" :: r => (parseItem r).map fun (i, r') => (.item i, r')
  | "O" :: k :: r =>
    let op : Option BinOp := match k with | "0" => some .inter | "1" => some .diff | "2" => some .symdiff | _ => none
    op.bind fun op => (parseSet r).bind fun (l, r1) => (parseSet r1).map fun (rr, r2) => (.binop op l rr, r2)
  | _ => none
end

/-- Parser of `FAst`: `E F L D S | K sup | R greedy x | G flagged x | A n .. | C n ..`
    (n-ary nodes are nested to the right; an empty alternation/concatenation is `E`). -/
partial def parseFAst : List String → Option (FAst × List String)
  | "E" :: r => some (.empty, r)
  | "F" :: r => some (.flags, r)
  | "L" :: r => some (.literal, r)
  | "D" :: r => some (.dot, r)
  | "S" :: r => some (.assertion, r)
  | "K" :: s :: r => s.toNat?.map fun s => (.cls (s != 0), r)
  | "R" :: g :: r => g.toNat?.bind fun g => (parseFAst r).map fun (x, r') => (.rep (g != 0) x, r')
  | "G" :: f :: r => f.toNat?.bind fun f => (parseFAst r).map fun (x, r') => (.group (f != 0) x, r')
  | "A" :: n :: r => n.toNat?.bind fun n => (many n r).map fun (xs, r') => (nest FAst.alt xs, r')
  | "C" :: n :: r => n.toNat?.bind fun n => (many n r).map fun (xs, r') => (nest FAst.concat xs, r')
  | _ => none
where
  many : Nat → List String → Option (List FAst × List String)
    | 0, r => some ([], r)
    | n + 1, r => (parseFAst r).bind fun (x, r') => (many n r').map fun (xs, r'') => (x :: xs, r'')
  nest (f : FAst → FAst → FAst) : List FAst → FAst
    | [] => .empty
    | [x] => x
    | x :: xs => f x (nest f xs)

def parsePat (ws : List String) : Option (Option FAst) :=
  match ws with
  | ["!"] => some none
  | _ => match parseFAst ws with
    | some (a, []) => some (some a)
    | _ => none

/-! JSON trees: prefix notation `N T F | I n | X | S n cp.. | A n .. | O n (k<name> | ko n cp..) value ..` -/
def keyOfName : String → Option Key
  | "kname" => some .name | "kpatterns" => some .patterns | "ktransitions" => some .transitions
  | "kpattern" => some .pattern | "ktoken_type" => some .tokenType | "klookahead" => some .lookahead
  | "kis_positive" => some .isPositive | "kspan" => some .span | "kstart" => some .start | "kend" => some .stop
  | "kstart_position" => some .startPosition | "kend_position" => some .endPosition | "kline" => some .line
  | "kcolumn" => some .column | _ => none

def keyName : Key → String
  | .name => "name" | .patterns => "patterns" | .transitions => "transitions" | .pattern => "pattern"
  | .tokenType => "token_type" | .lookahead => "lookahead" | .isPositive => "is_positive" | .span => "span"
  | .start => "start" | .stop => "end" | .startPosition => "start_position" | .endPosition => "end_position"
  | .line => "line" | .column => "column" | .other s => String.ofList (s.map Char.ofNat)

def takeN (n : Nat) (ws : List String) : Option (List Nat × List String) :=
  if ws.length < n then none else some ((ws.take n).filterMap String.toNat?, ws.drop n)

partial def parseJsonToks : List String → Option (Json × List String)
  | "N" :: r => some (.null, r)
  | "T" :: r => some (.bool true, r)
  | "F" :: r => some (.bool false, r)
  | "X" :: r => some (.float, r)
  | "I" :: n :: r => n.toNat?.map fun n => (.num n, r)
  | "S" :: n :: r => n.toNat?.bind fun n => (takeN n r).map fun (cs, r') => (.str cs, r')
  | "A" :: n :: r => n.toNat?.bind fun n => (manyJ n r).map fun (xs, r') => (.arr xs, r')
  | "O" :: n :: r => n.toNat?.bind fun n => (manyKV n r).map fun (kvs, r') => (.obj kvs, r')
  | _ => none
where
  manyJ : Nat → List String → Option (List Json × List String)
    | 0, r => some ([], r)
    | n + 1, r => (parseJsonToks r).bind fun (x, r') => (manyJ n r').map fun (xs, r'') => (x :: xs, r'')
  manyKV : Nat → List String → Option (List (Key × Json) × List String)
    | 0, r => some ([], r)
    | n + 1, k :: r =>
      let key : Option (Key × List String) :=
        if k == "ko" then
          match r with
          | m :: r1 => m.toNat?.bind fun m => (takeN m r1).map fun (cs, r2) => (Key.other cs, r2)
          | [] => none
        else (keyOfName k).map fun kk => (kk, r)
      key.bind fun (kk, r1) => (parseJsonToks r1).bind fun (v, r2) => (manyKV n r2).map fun (kvs, r3) => ((kk, v) :: kvs, r3)
    | _, [] => none

/-- canonical printing: object fields sorted by the field name (as serde_json's map does) -/
partial def showJson : Json → String
  | .null => " N"
  | .bool true => " T"
  | .bool false => " F"
  | .float => " X"
  | .num n => s!" I {n}"
  | .str s => s!" S {s.length}" ++ String.join (s.map fun c => s!" {c}")
  | .arr xs => s!" A {xs.length}" ++ String.join (xs.map showJson)
  | .obj kvs =>
    let sorted := (kvs.toArray.qsort fun a b => keyName a.1 < keyName b.1).toList
    s!" O {kvs.length}" ++ String.join (sorted.map fun (k, v) =>
      (match k with
       | .other s => s!" ko {s.length}" ++ String.join (s.map fun c => s!" {c}")
       | k => " k" ++ keyName k) ++ showJson v)

/-- configuration notation: `n_modes (S name, n_pat (S pattern, tid, 0 | 1 pos S la)*, n_trans (tid mode)*)*` -/
def parseStrTok : List String → Option (List Nat × List String)
  | "S" :: n :: r => n.toNat?.bind fun n => takeN n r
  | _ => none

partial def parseCfg (ws : List String) : Option (List ModeC) :=
  match ws with
  | n :: r => n.toNat?.bind fun n => (modes n r).map (·.1)
  | [] => none
where
  modes : Nat → List String → Option (List ModeC × List String)
    | 0, r => some ([], r)
    | n + 1, r =>
      (parseStrTok r).bind fun (name, r1) =>
      match r1 with
      | np :: r2 => np.toNat?.bind fun np => (pats np r2).bind fun (ps, r3) =>
        match r3 with
        | nt :: r4 => nt.toNat?.bind fun nt => (takeN (2 * nt) r4).bind fun (ts, r5) =>
          (modes n r5).map fun (ms, r6) => (⟨name, ps, pairs ts⟩ :: ms, r6)
        | [] => none
      | [] => none
  pats : Nat → List String → Option (List PatternC × List String)
    | 0, r => some ([], r)
    | n + 1, r =>
      (parseStrTok r).bind fun (pat, r1) =>
      match r1 with
      | tid :: "0" :: r2 => tid.toNat?.bind fun tid => (pats n r2).map fun (ps, r3) => (⟨pat, tid, none⟩ :: ps, r3)
      | tid :: "1" :: pos :: r2 =>
        tid.toNat?.bind fun tid => (parseStrTok r2).bind fun (la, r3) =>
          (pats n r3).map fun (ps, r4) => (⟨pat, tid, some ⟨pos != "0", la⟩⟩ :: ps, r4)
      | _ => none

/-- Parser of `CAst`: `E | L id | C n .. | A n .. | Q x | S x | P x | X n x | T n x | B m n x` -/
partial def parseCAst : List String → Option (CAst × List String)
  | "E" :: r => some (.empty, r)
  | "L" :: i :: r => i.toNat?.map fun i => (.leaf i, r)
  | "C" :: n :: r => n.toNat?.bind fun n => (manyC n r).map fun (xs, r') => (.concat xs, r')
  | "A" :: n :: r => n.toNat?.bind fun n => (manyC n r).map fun (xs, r') => (.alt xs, r')
  | "Q" :: r => (parseCAst r).map fun (x, r') => (.opt x, r')
  | "S" :: r => (parseCAst r).map fun (x, r') => (.star x, r')
  | "P" :: r => (parseCAst r).map fun (x, r') => (.plus x, r')
  | "X" :: n :: r => n.toNat?.bind fun n => (parseCAst r).map fun (x, r') => (.exactly n x, r')
  | "T" :: n :: r => n.toNat?.bind fun n => (parseCAst r).map fun (x, r') => (.atLeast n x, r')
  | "B" :: m :: n :: r =>
    m.toNat?.bind fun m => n.toNat?.bind fun n => (parseCAst r).map fun (x, r') => (.bounded m n x, r')
  | _ => none
where
  manyC : Nat → List String → Option (List CAst × List String)
    | 0, r => some ([], r)
    | n + 1, r => (parseCAst r).bind fun (x, r') => (manyC n r').map fun (xs, r'') => (x :: xs, r'')

/-- two automata with the same numbering: equal accepting flags and equal transition *sets* per state -/
def sameUpToOrder (A B : Dfa) : Bool :=
  A.trans.length == B.trans.length && A.ends == B.ends && A.prio == B.prio &&
  (A.trans.zip B.trans).all fun (x, y) => x.all (fun p => y.contains p) && y.all (fun p => x.contains p)

def showWord (w : List Nat) : String := " ".intercalate (w.map toString)

/-- State of the fast (untrusted) explorer: pairs, their index, successor hints, BFS parents. -/
structure ExpSt (σ τ : Type) [BEq σ] [BEq τ] [Hashable σ] [Hashable τ] where
  V : Array (σ × τ) := #[]
  idx : Std.HashMap (σ × τ) Nat := {}
  hints : Array (Array Nat) := #[]
  parent : Array (Nat × Nat) := #[]   -- (parent index + 1, or 0 for a successor of the initial pair; rep)

/-- Untrusted breadth-first exploration with hashing; `none` if more than `maxPairs` pairs. -/
partial def exploreFast {σ τ : Type} [BEq σ] [BEq τ] [Hashable σ] [Hashable τ] (X : Sys σ) (Y : Sys τ)
    (reps : List Nat) (x0 : σ) (y0 : τ) (maxPairs : Nat) : Option (ExpSt σ τ × Array Nat) := Id.run do
  let mut st : ExpSt σ τ := {}
  -- successors of the initial pair
  let mut h0 : Array Nat := #[]
  for r in reps do
    let q := (X.step r x0, Y.step r y0)
    match st.idx[q]? with
    | some j => h0 := h0.push j
    | none =>
      let j := st.V.size
      st := { st with V := st.V.push q, idx := st.idx.insert q j, parent := st.parent.push (0, r) }
      h0 := h0.push j
  let mut i := 0
  while i < st.V.size do
    if st.V.size > maxPairs then return none
    let p := st.V.getD i (x0, y0)
    let mut hi : Array Nat := #[]
    for r in reps do
      let q := (X.step r p.1, Y.step r p.2)
      match st.idx[q]? with
      | some j => hi := hi.push j
      | none =>
        let j := st.V.size
        st := { st with V := st.V.push q, idx := st.idx.insert q j, parent := st.parent.push (i + 1, r) }
        hi := hi.push j
    st := { st with hints := st.hints.push hi }
    i := i + 1
  return some (st, h0)

/-- The word leading to pair `i` (for the replay). -/
partial def wordTo {σ τ : Type} [BEq σ] [BEq τ] [Hashable σ] [Hashable τ] (st : ExpSt σ τ) (i : Nat) : List Nat :=
  let rec go (i : Nat) (acc : List Nat) : List Nat :=
    match st.parent[i]? with
    | none => acc
    | some (0, r) => r :: acc
    | some (p + 1, r) => go p (r :: acc)
  go i []

/-- Runs the untrusted exploration and then the verified `closedCheckH`; on failure reports a
    distinguishing word. -/
def runEquiv {σ τ : Type} [DecidableEq σ] [DecidableEq τ] [Hashable σ] [Hashable τ] (X : Sys σ) (Y : Sys τ)
    (reps : List Nat) (x0 : σ) (y0 : τ) (initToo : Bool) (tag : String) (maxPairs : Nat := 2500) : List String :=
  match exploreFast X Y reps x0 y0 maxPairs with
  | none => [s!"{tag} ok", s!"S inconclusive more than {maxPairs} state pairs"]
  | some (es, h0) =>
    if closedCheckH X Y reps x0 y0 initToo es.V h0 es.hints then
      [s!"{tag} ok", s!"S ok closedCheck pairs={es.V.size} reps={reps.length}"]
    else if initToo && X.acc x0 != Y.acc y0 then
      [s!"{tag} DIFF", s!"S FAIL acceptance differs on the empty word: {X.acc x0} vs {Y.acc y0}"]
    else
      match (List.range es.V.size).find? fun i => match es.V[i]? with
          | some p => X.acc p.1 != Y.acc p.2
          | none => false with
      | some i =>
        let w := wordTo es i
        [s!"{tag} DIFF {showWord w}",
         s!"S FAIL acceptance differs on the word [{showWord w}]: {X.acc (X.run x0 w)} vs {Y.acc (Y.run y0 w)}"]
      | none => [s!"{tag} DIFF", "S FAIL closedCheck rejected the candidate set (explorer defect)"]

def DState.compile (st : DState) : CfgId → Option CompId := fun c => (st.compileTbl.getD c none)
def DState.cfgOf (st : DState) : CompId → List ModeCfg := fun c =>
  match st.comps[c]? with
  | some (_, cfg, _) => cfg.toList
  | none => []
def DState.findOf (st : DState) : CompId → Finder := fun c =>
  match st.comps[c]? with
  | some (ms, _, T) =>
    let T' := T
    modelFinder ms.toList (fun id ch => inRanges (T'.getD id []) ch)
  | none => fun _ _ => none

def showOut : Out → Option String
  | .none => none
  | .built c => some s!"built {c}"
  | .buildError => some "builderr"
  | .tok (some t) => some s!"tok {t.tid} {t.start} {t.stop}"
  | .tok none => some "none"
  | .peeked (.matches ms) => some ("peek matches " ++ showToks ms)
  | .peeked (.reachedEnd ms) => some ("peek end " ++ showToks ms)
  | .peeked (.modeSwitch ms m) => some (s!"peek switch {m} " ++ showToks ms)
  | .peeked .notFound => some "peek notfound"
  | .num n => some s!"mode {n}"
  | .invalid => some "invalid"

def wstep (st : DState) (o : Op) : DState × Option String :=
  let r := World.step st.compile st.cfgOf st.findOf st.world o
  ({ st with world := r.1 }, showOut r.2)

def step (st : DState) (line : String) : DState × Option String :=
  match line.trimAscii.toString.splitOn " " with
  | "case" :: r => (st, some ("case " ++ " ".intercalate r))
  | "expect" :: r =>
    let (sp, v) := specVerdict st r
    ({ st with specs := sp }, v)
  | "#" :: _ => (st, none)
  | ["scanner"] =>
    ({ ({} : DState) with comps := st.comps, compileTbl := st.compileTbl, world := st.world }, none)
  | "class" :: id :: r =>
    match id.toNat? with
    | some i => ({ st with tables := (ensure st.tables i []).set! i (pairs (nats r)) }, none)
    | none => (st, some "bad-op")
  | "mode" :: m :: r =>
    match m.toNat? with
    | some i =>
      let c := ensure st.cfg i ⟨[], []⟩
      ({ st with cfg := c.modify i fun x => { x with trans := pairs (nats r) },
                 modes := ensure st.modes i ⟨emptyDfa, []⟩ }, none)
    | none => (st, some "bad-op")
  | "name" :: m :: r =>
    match m.toNat? with
    | some i =>
      let c := ensure st.cfg i ⟨[], []⟩
      ({ st with cfg := c.modify i fun x => { x with name := nats r } }, none)
    | none => (st, some "bad-op")
  | ["dfa", "m", m] =>
    match m.toNat? with
    | some i => ({ st with target := .mode i, modes := ensure st.modes i ⟨emptyDfa, []⟩ }, none)
    | none => (st, some "bad-op")
  | ["dfa", "la", m, tid, pos] =>
    match m.toNat?, tid.toNat?, pos.toNat? with
    | some i, some t, some p =>
      let ms := ensure st.modes i ⟨emptyDfa, []⟩
      ({ st with target := .la i t,
                 modes := ms.modify i fun M => { M with las := M.las ++ [(t, ⟨p != 0, emptyDfa⟩)] } }, none)
    | _, _, _ => (st, some "bad-op")
  | "prio" :: r => (updTarget st fun A => { A with prio := nats r }, none)
  | "st" :: e :: t :: r =>
    match e.toNat?, t.toNat? with
    | some e, some t => (updTarget st fun A => addState A (e != 0) t (pairs (nats r)), none)
    | _, _ => (st, some "bad-op")
  | "rclass" :: id :: r =>
    match id.toNat? with
    | some i => ({ st with rtables := (ensure st.rtables i []).set! i (pairs (nats r)) }, none)
    | none => (st, some "bad-op")
  | "pat" :: m :: t :: r =>
    match m.toNat?, t.toNat?, parseAst r with
    | some m, some t, some (a, []) =>
      ({ st with pats := (ensure st.pats m []).modify m fun l => l ++ [(t, a.desugar)],
                 pasts := (ensure st.pasts m []).modify m fun l => l ++ [(t, a)] }, none)
    | _, _, _ => (st, some "bad-op")
  | ["lapol", m, t, p] =>
    match m.toNat?, t.toNat?, p.toNat? with
    | some m, some t, some p =>
      ({ st with lapols := (ensure st.lapols m []).modify m fun l => l ++ [(t, p != 0)] }, none)
    | _, _, _ => (st, some "bad-op")
  | "lapat" :: m :: t :: r =>
    match m.toNat?, t.toNat?, parseAst r with
    | some m, some t, some (a, []) =>
      ({ st with lapats := (ensure st.lapats m []).modify m fun l => l ++ [(t, a.desugar)],
                 lapasts := (ensure st.lapasts m []).modify m fun l => l ++ [(t, a)] }, none)
    | _, _, _ => (st, some "bad-op")
  | ["dfa", "x", i] =>
    match i.toNat? with
    | some i => ({ st with target := .aux i, aux := (ensure st.aux i emptyDfa).set! i emptyDfa }, none)
    | none => (st, some "bad-op")
  | ["classids", n] =>
    match n.toNat? with
    | some n =>
      let ok := st.modes.all fun M => classIdsInRange M.dfa n && M.las.all fun p => classIdsInRange p.2.dfa n
      (st, some s!"classids {if ok then 1 else 0}")
    | none => (st, some "bad-op")
  | ["equiv", m] =>
    match m.toNat? with
    | some m =>
      match st.modes[m]? with
      | none => (st, some "bad-op")
      | some M =>
        let T := st.tables.toList
        let R := st.rtables.toList
        let reps := mkReps (T ++ R)
        let X := dfaSys M.dfa (cmT T)
        let Y := reSys (cmT R)
        if !startNotAccepting M.dfa then
          (st, some "equiv DIFF\nS FAIL the start state is accepting: the empty string is accepted")
        else
          (st, some ("\n".intercalate (runEquiv X Y reps [0] (normP (st.pats.getD m [])) false "equiv")))
    | none => (st, some "bad-op")
  | ["equivla", m, t] =>
    match m.toNat?, t.toNat? with
    | some m, some t =>
      match (st.modes[m]?).bind fun M => M.las.lookup t with
      | none => (st, some "bad-op")
      | some L =>
        let T := st.tables.toList
        let R := st.rtables.toList
        let reps := mkReps (T ++ R)
        let X := dfaSys L.dfa (cmT T)
        let Y := reSys (cmT R)
        -- the lookahead automaton accepts with its own terminal; compare languages under terminal 0
        let pats := ((st.lapats.getD m []).filter fun p => p.1 == t).map fun p => (L.dfa.prio.headD 0, p.2)
        if !startNotAccepting L.dfa then
          (st, some "equiv DIFF\nS FAIL the start state of the lookahead automaton is accepting")
        else
          (st, some ("\n".intercalate (runEquiv X Y reps [0] (normP pats) false "equiv")))
    | _, _ => (st, some "bad-op")
  | "dottext" :: m :: r =>
    -- C18 text layer: the written file (code points) is parsed and decoded by the Lean parser
    -- (`parseDot`, `decodeDot`; round trip proved: `decodeDot_parseDot_renderDot`); the decoded
    -- document must be the picture of the compiled mode (order-insensitive comparison)
    match m.toNat?.bind fun m => st.modes[m]? with
    | none => (st, some "bad-op")
    | some M =>
      let text := r.filterMap String.toNat?
      let want := dotDoc M
      let canon := fun (d : DotDoc) =>
        let cl := (d.clusters.toArray.qsort fun a b => a.tid < b.tid).toList
        showDGraph d.main ++ s!" {cl.length}" ++
          String.join (cl.map fun c => s!" {c.tid} {if c.positive then 1 else 0}" ++ showDGraph c.g)
      -- the hypothesis of `picture_is_faithful`: the start state is not accepting (the picture has no
      -- way to show an accepting start state: its label never carries a token type)
      let startAcc := M.dfa.isEnd 0 || M.las.any fun p => p.2.dfa.isEnd 0
      (st, some ("dottext done\n" ++
        (if startAcc then "S FAIL the start state of a compiled automaton of this mode is accepting, which the picture cannot show (its label carries no token type): accepting labels differ from the accepting states" else
        match parseDot text with
        | none => "S FAIL the written file is not well-formed DOT (rejected by the verified parser parseDot)"
        | some t =>
          match decodeDot t with
          | none => "S FAIL the written DOT does not have the documented structure (decodeDot)"
          | some d =>
            if canon d == canon want then "S ok"
            else "S FAIL the picture (as parsed by parseDot/decodeDot) differs from the compiled automaton (nodes, accepting labels, edges, class ids or lookahead clusters)")))
  | "kpat" :: m :: t :: r =>
    match m.toNat?, t.toNat?, parseCAst r with
    | some m, some t, some (a, []) =>
      ({ st with kpats := (ensure st.kpats m []).modify m fun l => l ++ [⟨t, a, none⟩] }, none)
    | _, _, _ => (st, some "bad-op")
  | "kla" :: m :: pos :: r =>
    match m.toNat?, pos.toNat?, parseCAst r with
    | some m, some pos, some (a, []) =>
      ({ st with kpats := (ensure st.kpats m []).modify m fun l =>
          match l.reverse with
          | q :: rest => (({ q with la := some (pos != 0, a) } : CPat) :: rest).reverse
          | [] => [] }, none)
    | _, _, _ => (st, some "bad-op")
  | "regreal" :: r => ({ st with regreal := r.filterMap String.toNat? }, none)
  | ["registry"] =>
    -- E8: the model of the class registry assigns the ids (first occurrence in registration order:
    -- per mode the pattern ASTs, then the lookahead ASTs); it must reproduce the real registry (keys in
    -- id order). The patterns with the assigned ids replace those the harness numbered (`cpat`).
    let r := assignModes st.kpats.toList []
    let same := r.2 == st.regreal
    let cp : Array (List (Nat × CAst)) := (r.1.map fun ps => ps.map fun q => (q.tid, q.ast)).toArray
    let cl : Array (List (Nat × CAst)) := (r.1.map fun ps => ps.filterMap fun q => q.la.map fun l => (q.tid, l.2)).toArray
    let below := r.1.all fun ps => ps.all fun q => q.ast.idsBelow r.2.length &&
      (match q.la with | some l => l.2.idsBelow r.2.length | none => true)
    (if same then { st with cpats := cp, clapats := cl } else st,
      some ((if same then "registry ok" else s!"registry differs model {r.2} real {st.regreal}") ++
        (if below then "" else " ids-out-of-range")))
  | "cpat" :: m :: t :: r =>
    match m.toNat?, t.toNat?, parseCAst r with
    | some m, some t, some (a, []) =>
      ({ st with cpats := (ensure st.cpats m []).modify m fun l => l ++ [(t, a)] }, none)
    | _, _, _ => (st, some "bad-op")
  | "clapat" :: m :: t :: r =>
    match m.toNat?, t.toNat?, parseCAst r with
    | some m, some t, some (a, []) =>
      ({ st with clapats := (ensure st.clapats m []).modify m fun l => l ++ [(t, a)] }, none)
    | _, _, _ => (st, some "bad-op")
  | ["compilecheck", m] =>
    -- track A: model of the compiler for mode m against the logged automaton before minimization
    -- (aux 0, transitions compared as sets) and the final automaton of the dump (exact)
    match m.toNat? with
    | some m =>
      let ps := st.cpats.getD m []
      let pre := compilePre ps
      let logged := st.aux.getD 0 emptyDfa
      let fin := (st.modes.getD m ⟨emptyDfa, []⟩).dfa
      let n1 := if sameUpToOrder pre logged then "S ok trackA: model of Thompson + closure construction reproduces the automaton before minimization"
                else s!"S note trackA compiler model differs before minimization (states {pre.trans.length} vs {logged.trans.length})"
      let mm := minimize pre
      let n2 := if mm.trans == fin.trans && mm.ends == fin.ends && mm.prio == fin.prio then "S ok trackA: model of the whole compiler reproduces the compiled automaton exactly"
                else "S note trackA compiler model differs from the compiled automaton"
      -- decision path: the compiled automaton IS the model's (equality of the data) and every leaf
      -- of the compiler-level patterns has the table of the corresponding reference leaf: then
      -- `trackA_decides` gives acceptance = reference pattern languages for every word
      let decided := decide (fin = mm) && agreePats st.tables.toList st.rtables.toList ps (st.pasts.getD m [])
      let n3 := if decided then "\nS ok trackA decides: compiled automaton = model automaton and all leaves agree, correct for every word by compiler_model_correct" else ""
      (st, some ("compile done\n" ++ n1 ++ "\n" ++ n2 ++ n3))
    | none => (st, some "bad-op")
  | ["compilefull", m] =>
    -- track A: the model of `CompiledDfa::try_from_patterns` (mode automaton + one automaton and
    -- polarity per lookahead) against the whole compiled mode of the dump
    match m.toNat? with
    | some m =>
      let las := st.clapats.getD m []
      let pol := st.lapols.getD m []
      let cps : List CPat := (st.cpats.getD m []).map fun (t, a) =>
        ⟨t, a, (las.lookup t).map fun l => ((pol.lookup t).getD true, l)⟩
      let M := compileFull cps
      let R := st.modes.getD m ⟨emptyDfa, []⟩
      let sameDfa := M.dfa.trans == R.dfa.trans && M.dfa.ends == R.dfa.ends && M.dfa.prio == R.dfa.prio
      let sameLas := M.las.length == R.las.length && M.las.all fun (t, L) =>
        match R.las.lookup t with
        | some L' => L.positive == L'.positive && L.dfa.trans == L'.dfa.trans && L.dfa.ends == L'.dfa.ends
        | none => false
      (st, some ("compile done\n" ++
        (if sameDfa && sameLas then "S ok trackA: compileFull reproduces the compiled mode (automaton, lookahead automata, polarities)"
         else if !sameDfa then "S note trackA compileFull differs from the compiled mode: automaton"
         else "S note trackA compileFull differs from the compiled mode: lookaheads")))
    | none => (st, some "bad-op")
  | ["compilecheckla", m, t] =>
    match m.toNat?, t.toNat? with
    | some m, some t =>
      match (st.clapats.getD m []).lookup t with
      | none => (st, some "compile done\nS note trackA no lookahead pattern")
      | some a =>
        let pre := compileLaPre a
        let logged := st.aux.getD 0 emptyDfa
        let fin := match (st.modes[m]?).bind fun M => M.las.lookup t with
          | some L => L.dfa
          | none => emptyDfa
        let n1 := if sameUpToOrder pre logged then "S ok trackA: lookahead automaton before minimization reproduced"
                  else s!"S note trackA lookahead model differs before minimization (states {pre.trans.length} vs {logged.trans.length})"
        let mm := minimize pre
        let n2 := if mm.trans == fin.trans && mm.ends == fin.ends then "S ok trackA: compiled lookahead automaton reproduced exactly"
                  else "S note trackA lookahead model differs from the compiled automaton"
        let decided := mm.trans == fin.trans && mm.ends == fin.ends &&
          (match (st.lapasts.getD m []).lookup t with
           | some r => agree st.tables.toList st.rtables.toList a r
           | none => false)
        let n3 := if decided then "\nS ok trackA decides: lookahead automaton = model automaton and all leaves agree, correct for every word by lookahead_model_correct" else ""
        (st, some ("compile done\n" ++ n1 ++ "\n" ++ n2 ++ n3))
    | _, _ => (st, some "bad-op")
  | ["minimize"] =>
    -- track A: the model of Minimizer::minimize on the logged input against the logged output,
    -- state by state, and the executable check of the final partition (hypothesis of the theorem)
    let A := st.aux.getD 0 emptyDfa
    let B := st.aux.getD 1 emptyDfa
    let M := minimize A
    let same := M.trans == B.trans && M.ends == B.ends && M.prio == B.prio
    -- the verdict of C03 is the verified check (`equivdfa`); a difference here only means that the
    -- model of the minimizer is out of date with respect to the code (recorded, not an alarm)
    let note := if same then "S ok trackA: the model of the minimizer reproduces the logged output exactly"
               else if M.trans.length != B.trans.length then s!"S note trackA model differs: states {M.trans.length} vs {B.trans.length}"
               else if M.ends != B.ends then "S note trackA model differs: end states"
               else "S note trackA model differs: transitions"
    let spec := if A.trans.length > 3000 then "S ok (partition check skipped: automaton too large)"
      else if goodPartitionCheck A (finalPartition A) then "S ok final partition is a stable, homogeneous, disjoint cover"
      else "S note the partition the model's refinement ends with is not a stable homogeneous disjoint cover"
    let hyps := decide (0 < A.trans.length) && !A.isEnd 0 && A.trans.all fun ts => ts.all fun p => decide (p.2 < A.trans.length)
    let dec := if decide (B = M) && hyps then "\nS ok trackA decides: logged output = model output, acceptance preserved for every word by minimize_preserves_all" else ""
    (st, some ("minimize done\n" ++ note ++ "\n" ++ spec ++ dec))
  | ["idbits", sb, gb] =>
    (st, some (match sb.toNat?, gb.toNat? with
      | some sb, some gb =>
        if sb ≤ gb then "idbits ok\nS ok"
        else s!"idbits narrow\nS FAIL the minimizer's group id type ({gb} bits) is narrower than the state id type ({sb} bits): group indices above 2^{gb} wrap"
      | _, _ => "bad-op"))
  | ["equivdfa", mp] =>
    let A := st.aux.getD 0 emptyDfa
    let B := st.aux.getD 1 emptyDfa
    let T := st.tables.toList
    let reps := mkReps T
    if !(A.wf && B.wf) then (st, some "equivdfa DIFF\nS FAIL a logged automaton is not well-formed") else
    if B.numStates > A.numStates then
      (st, some s!"equivdfa DIFF\nS FAIL the minimized automaton has more states ({B.numStates}) than before ({A.numStates})")
    else
      (st, some ("\n".intercalate (runEquiv (dfaSys A (cmT T)) (dfaSys B (cmT T)) reps [0] [0] true "equivdfa" (mp.toNat?.getD 2500))))
  | ["equivdfa"] =>
    let A := st.aux.getD 0 emptyDfa
    let B := st.aux.getD 1 emptyDfa
    let T := st.tables.toList
    let reps := mkReps T
    if !(A.wf && B.wf) then (st, some "equivdfa DIFF\nS FAIL a logged automaton is not well-formed") else
    if B.numStates > A.numStates then
      (st, some s!"equivdfa DIFF\nS FAIL the minimized automaton has more states ({B.numStates}) than before ({A.numStates})")
    else
      (st, some ("\n".intercalate (runEquiv (dfaSys A (cmT T)) (dfaSys B (cmT T)) reps [0] [0] true "equivdfa")))
  | "eclass" :: id :: r =>
    match id.toNat? with
    | some i => ({ st with etables := (ensure st.etables i []).set! i (pairs (nats r)) }, none)
    | none => (st, some "bad-op")
  | "cls" :: ng :: r =>
    match ng.toNat?, parseSet r with
    | some ng, some (s, []) => ({ st with cls := some (ng != 0, s) }, none)
    | _, _ => (st, some "bad-op")
  | "real" :: r => ({ st with real := pairs (nats r) }, none)
  | ["classcheck"] =>
    match st.cls with
    | none => (st, some "bad-op")
    | some (ng, s) =>
      let E := st.etables.toList
      -- model: the mirror of match_function.rs evaluated on the representatives
      let reps := mkReps (st.real :: scalarTable :: [(10, 10)] :: [(13, 13)] :: (s.tables ++ E))
      let bad := reps.find? fun b => inRanges st.real b != (inRanges scalarTable b && evalSetN (cmT E) ng s b)
      let model := match bad with
        | none => "classcheck ok"
        | some b => s!"classcheck DIFF at code point {b}"
      -- specification: the set algebra
      let spec :=
        if classCheck E ng s st.real then "S ok"
        else
          let reps2 := mkReps (st.real :: scalarTable :: (s.tables ++ E))
          let w := reps2.find? fun b => inRanges st.real b != (inRanges scalarTable b && (denSet (cmT E) s b != ng))
          -- the finding F3 explains the failure only if the mirror with the special case agrees
          let dot := if !s.noVerbDot && bad.isNone then " (class item = verbatim literal `.`)" else ""
          s!"S FAIL membership of code point {w.getD 0} differs from the set algebra of the items{dot}"
      (st, some (model ++ "\n" ++ spec))
  | "asciicheck" :: r =>
    let expected := pairs (nats r)
    let ok := (List.range 128).all fun c => inRanges st.real c == inRanges expected c
    (st, some (if ok then "asciicheck ok\nS ok" else "asciicheck DIFF\nS FAIL ASCII restriction of a Perl class differs"))
  | ["world"] => ({ st with world := World.empty, comps := #[], compileTbl := #[] }, none)
  | ["savecomp", i] =>
    match i.toNat? with
    | some i =>
      ({ st with comps := (ensure st.comps i (#[], #[], #[])).set! i (st.modes, st.cfg, st.tables),
                 modes := #[], cfg := #[], tables := #[] }, none)
    | none => (st, some "bad-op")
  | ["compile", c, r] =>
    match c.toNat? with
    | some c => ({ st with compileTbl := (ensure st.compileTbl c none).set! c r.toNat? }, none)
    | none => (st, some "bad-op")
  | ["wbuild", s, c] =>
    match s.toNat?, c.toNat? with
    | some s, some c => wstep st (.build s c)
    | _, _ => (st, some "bad-op")
  | ["wbuildu", s, c] =>
    match s.toNat?, c.toNat? with
    | some s, some c => wstep st (.buildUncached s c)
    | _, _ => (st, some "bad-op")
  | ["wsetmode", s, m] =>
    match s.toNat?, m.toNat? with
    | some s, some m => wstep st (.scannerSetMode s m)
    | _, _ => (st, some "bad-op")
  | ["wcurmode", s] =>
    match s.toNat? with
    | some s => wstep st (.scannerCurrentMode s)
    | none => (st, some "bad-op")
  | "wfinditer" :: s :: k :: r =>
    match s.toNat?, k.toNat? with
    | some s, some k => wstep st (.findIter s k (nats r))
    | _, _ => (st, some "bad-op")
  | ["wnext", k] =>
    match k.toNat? with
    | some k => wstep st (.iter k .next)
    | none => (st, some "bad-op")
  | ["wpeek", k, n] =>
    match k.toNat?, n.toNat? with
    | some k, some n => wstep st (.iter k (.peek n))
    | _, _ => (st, some "bad-op")
  | ["wsetoff", k, o] =>
    match k.toNat?, o.toNat? with
    | some k, some o => wstep st (.iter k (.setOffset o))
    | _, _ => (st, some "bad-op")
  | ["wisetmode", k, m] =>
    match k.toNat?, m.toNat? with
    | some k, some m => wstep st (.iter k (.setMode m))
    | _, _ => (st, some "bad-op")
  | ["wicurmode", k] =>
    match k.toNat? with
    | some k => wstep st (.iter k .currentMode)
    | none => (st, some "bad-op")
  | ["wdrop", k] =>
    match k.toNat? with
    | some k => wstep st (.dropIter k)
    | none => (st, some "bad-op")
  | "oracle" :: "ok" :: _ => (st, some "oracle\nS ok")
  | "oracle" :: "FAIL" :: r => (st, some ("oracle\nS FAIL " ++ " ".intercalate r))
  | ["bnew"] => ({ st with bmodes := [] }, none)
  | ["bmode"] => ({ st with bmodes := [] :: st.bmodes }, none)
  | "bpat" :: r =>
    match parsePat r, st.bmodes with
    | some a, m :: ms => ({ st with bmodes := (⟨a, none⟩ :: m) :: ms }, none)
    | _, _ => (st, some "bad-op")
  | "bla" :: r =>
    match parsePat r, st.bmodes with
    | some a, (p :: ps) :: ms => ({ st with bmodes := ({ p with lookahead := some a } :: ps) :: ms }, none)
    | _, _ => (st, some "bad-op")
  | ["bbuild"] =>
    let modes := (st.bmodes.map List.reverse).reverse
    let res := match build modes with
      | .ok => "build ok"
      -- (which of the two error kinds is reported is not part of the property: compared as "error")
      | .syntaxError => "build err"
      | .unsupported => "build err"
    (st, some res)
  | "jser" :: r =>
    match parseCfg r with
    | some ms => ({ st with lastJson := some (toJsonModes ms) }, some ("json" ++ showJson (toJsonModes ms)))
    | none => (st, some "bad-op")
  | "jtext" :: r =>
    -- C16 text layer: the JSON *text* the crate wrote (compact or pretty), parsed by the verified
    -- parser `Scnr.parseJson` (round trip with the serde_json layout proved: `parseJson_printJson`),
    -- must be the value tree of the model
    let text := r.filterMap String.toNat?
    (st, some ("jtext done\n" ++
      (match Scnr.parseJson text, st.lastJson with
      | none, _ => "S FAIL the written JSON text is rejected by the verified parser parseJson"
      | some j, some want =>
        if showJson j == showJson want then "S ok"
        else "S FAIL the written JSON text denotes another value tree than the configuration / value that was serialised"
      | some _, none => "S ok")))
  | "jdetext" :: r =>
    -- the text → value direction: the text is parsed by `Scnr.parseJson`, then read as a mode list
    let text := r.filterMap String.toNat?
    (st, some (match Scnr.parseJson text with
      | some j =>
        match fromJsonModes j with
        | some ms => "jde" ++ showJson (toJsonModes ms)
        | none => "jde err"
      | none => "jde err"))
  | "keyeq" :: r =>
    (st, some (match parseJsonToks r with
      | some (ja, r2) =>
        match parseJsonToks r2 with
        | some (jb, []) =>
          match fromJsonModes ja, fromJsonModes jb with
          | some a, some b => if keyEq a b then "keyeq true" else "keyeq false"
          | _, _ => "keyeq err"
        | _ => "bad-op"
      | none => "bad-op"))
  | "jde" :: r =>
    (st, some (match parseJsonToks r with
      | some (j, []) =>
        match fromJsonModes j with
        | some ms => "jde" ++ showJson (toJsonModes ms)
        | none => "jde err"
      | _ => "bad-op"))
  | ["jmatch", t, a, b] =>
    match t.toNat?, a.toNat?, b.toNat? with
    | some t, some a, some b =>
      ({ st with lastJson := some (toJsonMatch ⟨t, ⟨a, b⟩⟩) }, some ("json" ++ showJson (toJsonMatch ⟨t, ⟨a, b⟩⟩)))
    | _, _, _ => (st, some "bad-op")
  | ["jposition", l, c] =>
    match l.toNat?, c.toNat? with
    | some l, some c =>
      ({ st with lastJson := some (toJsonPosition ⟨l, c⟩) }, some ("json" ++ showJson (toJsonPosition ⟨l, c⟩)))
    | _, _ => (st, some "bad-op")
  | ["jmatchext", t, a, b, l1, c1, l2, c2] =>
    match [t, a, b, l1, c1, l2, c2].map String.toNat? with
    | [some t, some a, some b, some l1, some c1, some l2, some c2] =>
      ({ st with lastJson := some (toJsonMatchExt ⟨t, ⟨a, b⟩, ⟨l1, c1⟩, ⟨l2, c2⟩⟩) },
        some ("json" ++ showJson (toJsonMatchExt ⟨t, ⟨a, b⟩, ⟨l1, c1⟩, ⟨l2, c2⟩⟩)))
    | _ => (st, some "bad-op")
  | ["dot", m] =>
    (st, some (match m.toNat?.bind fun m => st.modes[m]? with
      | some M =>
        let d := dotDoc M
        let cl := (d.clusters.toArray.qsort fun a b => a.tid < b.tid).toList
        "dot" ++ showDGraph d.main ++ s!" {cl.length}" ++
          String.join (cl.map fun c => s!" {c.tid} {if c.positive then 1 else 0}" ++ showDGraph c.g)
      | none => "bad-op"))
  | "input" :: r => ({ st with input := nats r, iters := #[], specs := #[], table := #[] }, none)
  | ["finder", "model"] => ({ st with useTable := false }, none)
  | ["finder", "table"] => ({ st with useTable := true }, none)
  | ["tbl", m, p, t, l] =>
    match m.toNat?, p.toNat?, t.toNat?, l.toNat? with
    | some m, some p, some t, some l =>
      let tb := ensure st.table m #[]
      ({ st with table := tb.modify m fun a => (ensure a p none).set! p (some (t, l)) }, none)
    | _, _, _, _ => (st, some "bad-op")
  | ["wf"] =>
    let ok := st.modes.all fun M => M.dfa.wf && M.las.all fun p => p.2.dfa.wf
    (st, some s!"wf {if ok then 1 else 0}")
  | ["findall", m] =>
    match m.toNat? with
    | some m =>
      let f := st.finder
      let outs := (boundaries st.input).map fun (p, w) =>
        match f m w with
        | some (t, l) => s!"{p}:{t}:{l}"
        | none => s!"{p}:-"
      (st, some ("findall " ++ " ".intercalate outs))
    | none => (st, some "bad-op")
  | ["new", k] =>
    match k.toNat? with
    | some k => ({ st with iters := (ensure st.iters k (Iter.new [])).set! k (Iter.new st.input) }, none)
    | none => (st, some "bad-op")
  | ["next", k] =>
    match k.toNat? with
    | some k =>
      let (it, r) := (st.iters.getD k default).next st.cfgL st.finder
      ({ st with iters := st.iters.set! k it },
        some (match r with | some t => s!"tok {t.tid} {t.start} {t.stop}" | none => "none"))
    | none => (st, some "bad-op")
  | ["nextp", k] =>
    match k.toNat? with
    | some k =>
      let (it, r) := (st.iters.getD k default).nextWithPos st.cfgL st.finder
      ({ st with iters := st.iters.set! k it },
        some (match r with
          | some (t, (l1, c1), (l2, c2)) => s!"tokp {t.tid} {t.start} {t.stop} {l1} {c1} {l2} {c2}"
          | none => "none"))
    | none => (st, some "bad-op")
  | ["peek", k, n] =>
    match k.toNat?, n.toNat? with
    | some k, some n =>
      let r := (st.iters.getD k default).peekN st.cfgL st.finder n
      (st, some (match r with
        | .matches ms => "peek matches " ++ showToks ms
        | .reachedEnd ms => "peek end " ++ showToks ms
        | .modeSwitch ms m => s!"peek switch {m} " ++ showToks ms
        | .notFound => "peek notfound"))
    | _, _ => (st, some "bad-op")
  | ["adv", k, p] =>
    match k.toNat?, p.toNat? with
    | some k, some p =>
      let it := st.iters.getD k default
      ({ st with iters := st.iters.set! k (it.advanceTo p) }, some s!"adv {it.advanceToRet p}")
    | _, _ => (st, some "bad-op")
  | ["setoff", k, o] =>
    match k.toNat?, o.toNat? with
    | some k, some o =>
      ({ st with iters := st.iters.set! k ((st.iters.getD k default).setOffset o) }, none)
    | _, _ => (st, some "bad-op")
  | ["setmode", k, m] =>
    match k.toNat?, m.toNat? with
    | some k, some m =>
      ({ st with iters := st.iters.set! k ((st.iters.getD k default).setMode m) }, none)
    | _, _ => (st, some "bad-op")
  | ["curmode", k] =>
    match k.toNat? with
    | some k => (st, some s!"mode {(st.iters.getD k default).mode}")
    | none => (st, some "bad-op")
  | ["modename", i] =>
    match i.toNat? with
    | some i =>
      (st, some (match modeName st.cfgL i with
        | some n => "name " ++ " ".intercalate (n.map toString)
        | none => "name none"))
    | none => (st, some "bad-op")
  | ["off", k] =>
    match k.toNat? with
    | some k => (st, some s!"off {(st.iters.getD k default).totalOffset}")
    | none => (st, some "bad-op")
  | ["pos", k, o] =>
    match k.toNat?, o.toNat? with
    | some k, some o =>
      let (l, c) := (st.iters.getD k default).position o
      (st, some s!"pos {l} {c}")
    | _, _ => (st, some "bad-op")
  | [""] => (st, none)
  | _ => (st, some "bad-op")

partial def loop (h : IO.FS.Stream) (out : IO.FS.Stream) (st : DState) : IO Unit := do
  let line ← h.getLine
  if line.isEmpty then return ()
  let (st', o) := step st line
  match o with
  | some s => out.putStrLn s
  | none => pure ()
  let ws := line.trimAscii.toString.splitOn " "
  let st' := match ws with
    | "expect" :: _ => st'
    | "#" :: _ => st'
    | _ => { st' with last := ws, specs := specCommand st' ws }
  loop h out st'

def main : IO Unit := do
  let out ← IO.getStdout
  loop (← IO.getStdin) out {}
